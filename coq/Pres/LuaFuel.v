(* Fuel monotonicity of LuaCore: a run that does not end with RFuel gives the SAME result with any larger
   fuel.  Proved for all 24 mutually recursive interpreter functions at once by induction on the fuel
   (the pattern of Lua/LuaProofs.v `mono_all`). *)
From Coq Require Import String Ascii List NArith ZArith QArith Bool Lia.
From Sylt Require Import Lua.LuaAst Lua.LuaMap Lua.LuaNum Lua.LuaCore.
Import ListNotations.

Definition nofuel {A : Type} (r : res A) : Prop := match r with RFuel _ => False | _ => True end.

Lemma bind_fm : forall (A B : Type) (r1 r2 : res A) (k1 k2 : A -> state -> res B),
  (nofuel r2 -> r1 = r2) ->
  (forall a s, nofuel (k2 a s) -> k1 a s = k2 a s) ->
  nofuel (bind r2 k2) -> bind r1 k1 = bind r2 k2.
Proof.
  intros A B r1 r2 k1 k2 H1 H2 H. destruct r2; cbn [bind nofuel] in *;
    try (rewrite H1 by exact I; cbn [bind]; auto); contradiction.
Qed.

Record fmono (n : nat) : Prop := mkFmono {
  f_eval : forall k e ex st, (n <= k)%nat -> nofuel (eval n e ex st) -> eval k e ex st = eval n e ex st;
  f_eval_multi : forall k e ex st, (n <= k)%nat -> nofuel (eval_multi n e ex st) -> eval_multi k e ex st = eval_multi n e ex st;
  f_eval_list : forall k e es st, (n <= k)%nat -> nofuel (eval_list n e es st) -> eval_list k e es st = eval_list n e es st;
  f_eval_call : forall k e f args st, (n <= k)%nat -> nofuel (eval_call n e f args st) -> eval_call k e f args st = eval_call n e f args st;
  f_eval_fields : forall k e fs id i st, (n <= k)%nat -> nofuel (eval_fields n e fs id i st) -> eval_fields k e fs id i st = eval_fields n e fs id i st;
  f_index : forall k v key st, (n <= k)%nat -> nofuel (index n v key st) -> index k v key st = index n v key st;
  f_setindex : forall k t key v st, (n <= k)%nat -> nofuel (setindex n t key v st) -> setindex k t key v st = setindex n t key v st;
  f_call : forall k f args st, (n <= k)%nat -> nofuel (call n f args st) -> call k f args st = call n f args st;
  f_call_builtin : forall k b args st, (n <= k)%nat -> nofuel (call_builtin n b args st) -> call_builtin k b args st = call_builtin n b args st;
  f_tostr : forall k v st, (n <= k)%nat -> nofuel (tostr n v st) -> tostr k v st = tostr n v st;
  f_print_line : forall k args st, (n <= k)%nat -> nofuel (print_line n args st) -> print_line k args st = print_line n args st;
  f_binop : forall k op a b st, (n <= k)%nat -> nofuel (binop_apply n op a b st) -> binop_apply k op a b st = binop_apply n op a b st;
  f_equals : forall k a b st, (n <= k)%nat -> nofuel (equals n a b st) -> equals k a b st = equals n a b st;
  f_less_than : forall k a b st, (n <= k)%nat -> nofuel (less_than n a b st) -> less_than k a b st = less_than n a b st;
  f_less_equal : forall k a b st, (n <= k)%nat -> nofuel (less_equal n a b st) -> less_equal k a b st = less_equal n a b st;
  f_unop : forall k op a st, (n <= k)%nat -> nofuel (unop_apply n op a st) -> unop_apply k op a st = unop_apply n op a st;
  f_eval_targets : forall k e ts st, (n <= k)%nat -> nofuel (eval_targets n e ts st) -> eval_targets k e ts st = eval_targets n e ts st;
  f_assign_all : forall k rs vs st, (n <= k)%nat -> nofuel (assign_all n rs vs st) -> assign_all k rs vs st = assign_all n rs vs st;
  f_exec : forall k e s st, (n <= k)%nat -> nofuel (exec n e s st) -> exec k e s st = exec n e s st;
  f_exec_block : forall k e seen b st, (n <= k)%nat -> nofuel (exec_block n e seen b st) -> exec_block k e seen b st = exec_block n e seen b st;
  f_exec_while : forall k e c b st, (n <= k)%nat -> nofuel (exec_while n e c b st) -> exec_while k e c b st = exec_while n e c b st;
  f_exec_repeat : forall k e b c st, (n <= k)%nat -> nofuel (exec_repeat n e b c st) -> exec_repeat k e b c st = exec_repeat n e b c st;
  f_exec_numfor : forall k e x fl i h d b st, (n <= k)%nat -> nofuel (exec_numfor n e x fl i h d b st) ->
    exec_numfor k e x fl i h d b st = exec_numfor n e x fl i h d b st;
  f_exec_genfor : forall k e xs f s c b st, (n <= k)%nat -> nofuel (exec_genfor n e xs f s c b st) ->
    exec_genfor k e xs f s c b st = exec_genfor n e xs f s c b st
}.

Ltac fm_leaf IH Hle :=
  match goal with
  | |- nofuel (eval _ _ _ _) -> _ => apply (f_eval _ IH); exact Hle
  | |- nofuel (eval_multi _ _ _ _) -> _ => apply (f_eval_multi _ IH); exact Hle
  | |- nofuel (eval_list _ _ _ _) -> _ => apply (f_eval_list _ IH); exact Hle
  | |- nofuel (eval_call _ _ _ _ _) -> _ => apply (f_eval_call _ IH); exact Hle
  | |- nofuel (eval_fields _ _ _ _ _ _) -> _ => apply (f_eval_fields _ IH); exact Hle
  | |- nofuel (index _ _ _ _) -> _ => apply (f_index _ IH); exact Hle
  | |- nofuel (setindex _ _ _ _ _) -> _ => apply (f_setindex _ IH); exact Hle
  | |- nofuel (call _ _ _ _) -> _ => apply (f_call _ IH); exact Hle
  | |- nofuel (call_builtin _ _ _ _) -> _ => apply (f_call_builtin _ IH); exact Hle
  | |- nofuel (tostr _ _ _) -> _ => apply (f_tostr _ IH); exact Hle
  | |- nofuel (print_line _ _ _) -> _ => apply (f_print_line _ IH); exact Hle
  | |- nofuel (binop_apply _ _ _ _ _) -> _ => apply (f_binop _ IH); exact Hle
  | |- nofuel (equals _ _ _ _) -> _ => apply (f_equals _ IH); exact Hle
  | |- nofuel (less_than _ _ _ _) -> _ => apply (f_less_than _ IH); exact Hle
  | |- nofuel (less_equal _ _ _ _) -> _ => apply (f_less_equal _ IH); exact Hle
  | |- nofuel (unop_apply _ _ _ _) -> _ => apply (f_unop _ IH); exact Hle
  | |- nofuel (eval_targets _ _ _ _) -> _ => apply (f_eval_targets _ IH); exact Hle
  | |- nofuel (assign_all _ _ _ _) -> _ => apply (f_assign_all _ IH); exact Hle
  | |- nofuel (exec _ _ _ _) -> _ => apply (f_exec _ IH); exact Hle
  | |- nofuel (exec_block _ _ _ _ _) -> _ => apply (f_exec_block _ IH); exact Hle
  | |- nofuel (exec_while _ _ _ _ _) -> _ => apply (f_exec_while _ IH); exact Hle
  | |- nofuel (exec_repeat _ _ _ _ _) -> _ => apply (f_exec_repeat _ IH); exact Hle
  | |- nofuel (exec_numfor _ _ _ _ _ _ _ _ _) -> _ => apply (f_exec_numfor _ IH); exact Hle
  | |- nofuel (exec_genfor _ _ _ _ _ _ _ _) -> _ => apply (f_exec_genfor _ IH); exact Hle
  end.

(* pcall inspects the result of the call *)
Ltac fm_pcall IH Hle :=
  match goal with
  | |- nofuel (match call ?n ?f ?a ?st with _ => _ end) -> match call ?k ?f ?a ?st with _ => _ end = _ =>
      let E := fresh "E" in
      destruct (call n f a st) eqn:E;
      [ rewrite (f_call _ IH k f a st Hle) by (rewrite E; exact I); rewrite E; intros _; reflexivity
      | rewrite (f_call _ IH k f a st Hle) by (rewrite E; exact I); rewrite E; intros _; reflexivity
      | cbn [nofuel]; intros []
      | rewrite (f_call _ IH k f a st Hle) by (rewrite E; exact I); rewrite E; intros _; reflexivity ]
  end.

Ltac fm_step IH Hle :=
  match goal with
  | |- _ -> ?a = ?a => intros _; reflexivity
  | |- nofuel (bind _ _) -> bind _ _ = bind _ _ => apply bind_fm; [ | intros ? ? ]
  | |- _ => fm_pcall IH Hle
  | |- _ => fm_leaf IH Hle
  | |- nofuel (match ?x with _ => _ end) -> _ => destruct x
  | |- nofuel (if ?x then _ else _) -> _ => destruct x
  end.

Ltac fm_solve IH Hle := repeat (fm_step IH Hle).

Lemma fmono_zero : fmono O.
Proof. constructor; intros; cbn in *; contradiction. Qed.

Lemma fmono_succ : forall n, fmono n -> fmono (S n).
Proof.
  intros n IH.
  constructor; intros k; intros; (destruct k as [|k]; [lia|]);
    match goal with H : (S n <= S k)%nat |- _ => assert (Hle : (n <= k)%nat) by lia; clear H end;
    match goal with H : nofuel _ |- _ => revert H end.
  - cbn [eval]. fm_solve IH Hle.
  - cbn [eval_multi]. fm_solve IH Hle.
  - cbn [eval_list]. fm_solve IH Hle.
  - cbn [eval_call]. fm_solve IH Hle.
  - cbn [eval_fields]. fm_solve IH Hle.
  - cbn [index]. fm_solve IH Hle.
  - cbn [setindex]. fm_solve IH Hle.
  - cbn [call]. fm_solve IH Hle.
  - cbn [call_builtin]. fm_solve IH Hle.
  - cbn [tostr]. fm_solve IH Hle.
  - cbn [print_line]. fm_solve IH Hle.
  - cbn [binop_apply]. fm_solve IH Hle.
  - cbn [equals]. fm_solve IH Hle.
  - cbn [less_than]. fm_solve IH Hle.
  - cbn [less_equal]. fm_solve IH Hle.
  - cbn [unop_apply]. fm_solve IH Hle.
  - cbn [eval_targets]. fm_solve IH Hle.
  - cbn [assign_all]. fm_solve IH Hle.
  - cbn [exec]. fm_solve IH Hle.
  - cbn [exec_block]. fm_solve IH Hle.
  - cbn [exec_while]. fm_solve IH Hle.
  - cbn [exec_repeat]. fm_solve IH Hle.
  - cbn [exec_numfor]. fm_solve IH Hle.
  - cbn [exec_genfor]. fm_solve IH Hle.
Qed.

Theorem fmono_all : forall n, fmono n.
Proof. induction n; [apply fmono_zero | apply fmono_succ; assumption]. Qed.

(* exported forms *)
Theorem exec_block_fuel_mono : forall n k e seen b st,
  (n <= k)%nat -> nofuel (exec_block n e seen b st) -> exec_block k e seen b st = exec_block n e seen b st.
Proof. intros. apply (f_exec_block _ (fmono_all n)); assumption. Qed.

Theorem exec_fuel_mono : forall n k e s st,
  (n <= k)%nat -> nofuel (exec n e s st) -> exec k e s st = exec n e s st.
Proof. intros. apply (f_exec _ (fmono_all n)); assumption. Qed.

Theorem eval_fuel_mono : forall n k e ex st,
  (n <= k)%nat -> nofuel (eval n e ex st) -> eval k e ex st = eval n e ex st.
Proof. intros. apply (f_eval _ (fmono_all n)); assumption. Qed.

Theorem call_fuel_mono : forall n k f args st,
  (n <= k)%nat -> nofuel (call n f args st) -> call k f args st = call n f args st.
Proof. intros. apply (f_call _ (fmono_all n)); assumption. Qed.
