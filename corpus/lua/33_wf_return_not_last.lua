-- expect-wf: bad 'return' is not the last statement
local function f()
  return 1
  print('x')
end
