(* The simulation for STATEMENTS of the fragment (definitions, expression statements, blocks) and statement
   lists: structural half (L_stmt_all) and semantic half (P_stmt_all), by induction on the fuel of the
   reference interpreter.  A definition is `local V<var> = nil`, the code of its value, `V<var> = <value>`:
   SyltSem allocates a cell, evaluates, writes the cell. *)
From Coq Require Import String Ascii List NArith ZArith QArith Bool Lia.
From Sylt Require Import Syntax.Resolved.
From Sylt Require Sem.Values Sem.Runtime Sem.SyltSem.
From Sylt Require Import Back.IR Back.Emit Back.ScopeProofs.
From Sylt Require Import Pres.EmitAst Pres.EmitRel Pres.Names Pres.LuaFuel Pres.LuaEv Pres.Preamble Pres.Frag.
From Sylt Require Import Pres.SimDefs Pres.SimOps Pres.SimVals Pres.SimExpr Pres.LowerShape Pres.SimSteps Pres.SimExprProofs.
From Sylt Require Import Lua.LuaAst Lua.LuaMap Lua.LuaNum Lua.LuaProofs Lua.LuaCore.
Import ListNotations.
Local Open Scope N_scope.

Ltac splits := repeat match goal with |- _ /\ _ => split end.

Section Sim.
Variable pv : N.
Variable sv : N.
Variable bound : N.
Variable u : counts.

Lemma frag_stmts_cons k sc s ss :
  frag_stmts pv sv bound (S k) sc (s :: ss) =
  match frag_stmt pv sv bound k sc s with Some sc' => frag_stmts pv sv bound k sc' ss | None => None end.
Proof. reflexivity. Qed.

Lemma definition_nonfun f var value ctx :
  is_function value = false ->
  definition (S f) var value ctx = (r <- expression f value ctx ;; ret ([IDefine var] ++ fst r ++ [IAssign var (snd r)])).
Proof. destruct value; try discriminate; reflexivity. Qed.

Lemma frag_stmt_def k sc name var kd t value sp sc' :
  frag_stmt pv sv bound (S k) sc (SDefinition name var kd t value sp) = Some sc' ->
  is_function value = false /\ fresh_id pv sv bound sc var = true /\ frag_expr pv k (var :: sc) value = true /\ sc' = var :: sc.
Proof.
  cbn [frag_stmt]. destruct value; try discriminate; cbn [is_function];
    (destruct (fresh_id pv sv bound sc var) eqn:Hf; [|discriminate]); cbn [andb];
    match goal with |- (if ?x then _ else _) = _ -> _ => destruct x eqn:Hx; [|discriminate] end;
    intros H; inversion H; auto.
Qed.

Lemma frag_stmt_block k sc ss sp :
  frag_stmt pv sv bound (S k) sc (SBlock ss sp) =
  match frag_stmts pv sv bound k sc ss with Some _ => Some sc | None => None end.
Proof. reflexivity. Qed.

Lemma frag_stmt_sexpr k sc value sp :
  frag_stmt pv sv bound (S k) sc (SStatementExpression value sp) = if frag_expr pv k sc value then Some sc else None.
Proof. reflexivity. Qed.

Definition L_stmt (g : nat) : Prop :=
  forall k s ctx c code c' sc sc' l,
    statement g s ctx c = Ok (code, c') -> frag_stmt pv sv bound k sc s = Some sc' ->
    exists b l', cshape u l code b l' c c'.

Definition L_stmts (g : nat) : Prop :=
  forall k ss ctx c cs c' sc sc' l,
    mapM (fun s => statement g s ctx) ss c = Ok (cs, c') -> frag_stmts pv sv bound k sc ss = Some sc' ->
    exists b l', cshape u l (concat cs) b l' c c'.

Lemma L_stmts_of g : L_stmt g -> L_stmts g.
Proof.
  intros IH k ss. revert k. induction ss as [|s ss IHss]; intros k ctx c cs c' sc sc' l Hm Hf.
  - destruct (mapM_nil_ok _ _ _ _ Hm) as [-> ->]. eexists _, _. apply cshape_nil.
  - destruct k as [|k]; [discriminate|]. rewrite frag_stmts_cons in Hf.
    destruct (frag_stmt pv sv bound k sc s) as [sc1|] eqn:Hs; [|discriminate Hf].
    apply mapM_cons_ok in Hm as (y & c1 & ys & Hy & Hys & ->).
    destruct (IH k s ctx c y c1 sc sc1 l Hy Hs) as (b1 & l1 & Hs1).
    destruct (IHss k ctx c1 ys c' sc1 sc' l1 Hys Hf) as (b2 & l2 & Hs2).
    eexists _, _. cbn [concat]. eapply cshape_app; eassumption.
Qed.

Lemma L_stmt_zero : L_stmt O.
Proof. intros k s ctx c code c' sc sc' l H. discriminate. Qed.

Lemma L_stmt_succ g : L_stmt g -> L_stmt (S g).
Proof.
  intros IH k s ctx c code c' sc sc' l Hlow Hfrag.
  destruct k as [|k]; [discriminate|].
  destruct s; try discriminate Hfrag.
  - (* SDefinition *)
    destruct (frag_stmt_def _ _ _ _ _ _ _ _ _ Hfrag) as (Hnf & Hfresh & Hfe & ->).
    cbn [statement] in Hlow. destruct g as [|g']; [discriminate|].
    rewrite (definition_nonfun g' var value ctx Hnf) in Hlow. mon Hlow.
    destruct a as [code_v rv]. cbn [fst snd] in *.
    destruct (L_expr_all pv u g' k value ctx c code_v rv c' (var :: sc) l Hm Hfe) as (b1 & l1 & Hs1 & ? & ?).
    pose proof Hs1 as (_ & ? & _).
    eexists _, _.
    eapply cshape_cons; [apply (cshape_plain u l (IDefine var) c c); [lia | reflexivity | reflexivity | apply used_plain]|].
    eapply cshape_app; [exact Hs1|].
    apply (cshape_plain u l1 (IAssign var rv) c' c'); [lia | reflexivity | reflexivity | apply used_plain].
  - (* SBlock *)
    rewrite frag_stmt_block in Hfrag. cbn [statement] in Hlow. apply lower_list_ok in Hlow as (cs & Hm & ->).
    destruct (frag_stmts pv sv bound k sc statements) as [sc1|] eqn:Hs; [|discriminate Hfrag].
    eapply (L_stmts_of g IH); eassumption.
  - (* SStatementExpression *)
    rewrite frag_stmt_sexpr in Hfrag. cbn [statement] in Hlow. mon Hlow.
    destruct (frag_expr pv k sc value) eqn:Hfe; [|discriminate Hfrag].
    destruct a as [code_v rv]. cbn [fst] in *.
    destruct (L_expr_all pv u g k value ctx c code_v rv c' sc l Hm Hfe) as (b1 & l1 & Hs1 & _).
    eexists _, _. exact Hs1.
Qed.

Theorem L_stmt_all g : L_stmt g.
Proof. induction g; [apply L_stmt_zero | apply L_stmt_succ; assumption]. Qed.

Theorem L_stmts_all g : L_stmts g.
Proof. apply L_stmts_of, L_stmt_all. Qed.


(* ------------------------------------------------------------------ statements: semantics *)

Notation rel := (rel pv bound).
Notation ctx_ok := (ctx_ok bound).

Notation okstepS := (okstepS pv bound).
Notation sext := (sext pv).
Notation xpost := (exit_post pv bound).

Lemma memN_false v l : memN v l = false -> ~ In v l.
Proof.
  unfold memN. intros H Hin. assert (existsb (N.eqb v) l = true) by (apply existsb_exists; exists v; split; [exact Hin | apply N.eqb_refl]). congruence.
Qed.

Lemma fresh_id_inv sc var : fresh_id pv sv bound sc var = true -> ~ In var sc /\ var <> pv /\ var <> sv /\ var < bound.
Proof.
  unfold fresh_id. intros H. frag_split H.
  apply negb_true_iff in H, Hfr1, Hfr0. apply N.ltb_lt in Hfr.
  split; [apply memN_false; exact H|]. split; [intros ->; rewrite N.eqb_refl in Hfr1; discriminate|].
  split; [intros ->; rewrite N.eqb_refl in Hfr0; discriminate | exact Hfr].
Qed.

Definition s_alloc (st : sstate) (x : sval) : sstate :=
  SyltSem.mkState (SyltSem.cells st ++ [x]) (SyltSem.blobs st) (SyltSem.clos st) (SyltSem.trace st).

Lemma nth_error_app_old {A} (l : list A) x c y : nth_error l c = Some y -> nth_error (l ++ [x]) c = Some y.
Proof. intros H. rewrite nth_error_app1; [exact H | apply nth_error_Some; congruence]. Qed.

Lemma nth_error_app_new {A} (l : list A) x : nth_error (l ++ [x]) (length l) = Some x.
Proof. rewrite nth_error_app2 by lia. rewrite Nat.sub_diag. reflexivity. Qed.

(* IDefine var for a user variable: `local V<var> = nil`;  SyltSem: new_cell (SV VLuaNil) *)
Lemma step_define_user sc e st F c E stL l var :
  rel sc e st E stL -> lut_ok bound l c c -> fresh_id pv sv bound sc var = true -> 1 <= count_of u var ->
  exists E' stL',
    okstepS sc (var :: sc) ((var, length (SyltSem.cells st)) :: e) (s_alloc st (SV Values.VLuaNil)) F c c E stL
            (fst (agen_one u l (IDefine var))) E' stL' F.
Proof.
  intros Hrel Hl Hfresh Hu. destruct (fresh_id_inv _ _ Hfresh) as (Hnin & Hnpv & Hnsv & Hvb).
  pose proof Hrel as [Hv Hb Hi Hp Hpb HpE HpG Hwf Ht Hli].
  cbn [agen_one]. assert (Hused : (0 <? count_of u var) = true) by (apply N.ltb_lt; lia). rewrite Hused. cbn [fst].
  rewrite (aname_none l var) by (apply Hl; right; exact Hvb).
  assert (Hex : Exec E (SLocal [fmt_var var] [ENil]) stL
                  (ROk (sset (fmt_var var) (s_ncell stL) E, SigNormal) (snd (alloc_cell stL VNil)))).
  { pose proof (Exec_local E [fmt_var var] [ENil] stL [VNil] stL
                  (EvalList_one _ _ _ _ (EvalMulti_single E ENil stL VNil stL eq_refl (Eval_nil E stL)))) as H.
    rewrite bind_locals_one in H. exact H. }
  exists (sset (fmt_var var) (s_ncell stL) E), (snd (alloc_cell stL VNil)).
  split; [apply ExecS_one; exact Hex|]. split; [|split; [|split; [apply F_new_refl|]]].
  - constructor.
    + intros t p Hbt H. rewrite sget_sset_var by lia. exact H.
    + intros x p H. destruct (string_dec x (fmt_var var)) as [->|Hne].
      * right. right. exists var. split; [reflexivity | exact Hvb].
      * left. rewrite sget_sset_other in H by exact Hne. exact H.
    + intros t p _ _ H. apply get_cell_alloc_old. eapply wf_alloc; eassumption.
    + cbn; lia.
  - constructor.
    + intros w [<-|Hin].
      * exists (length (SyltSem.cells st)), (SV Values.VLuaNil), (s_ncell stL).
        cbn [SyltSem.lookup]. rewrite N.eqb_refl. splits; [reflexivity | apply nth_error_app_new | apply sget_sset_same |].
        rewrite get_cell_alloc_new. constructor.
      * destruct (Hv w Hin) as (cc & x & p & H1 & H2 & H3 & H4).
        assert (Hne : w <> var) by (intros ->; contradiction).
        exists cc, x, p. cbn [SyltSem.lookup]. destruct (N.eqb_spec var w); [congruence|].
        splits; [exact H1 | apply nth_error_app_old; exact H2 | rewrite sget_sset_var by exact Hne; exact H3 |].
        rewrite get_cell_alloc_old; [exact H4 | eapply wf_alloc; eassumption].
    + intros w [<-|Hin]; [split; assumption | apply Hb; exact Hin].
    + assert (Hold : forall w cc, In w sc -> SyltSem.lookup e w = Some cc -> (cc < length (SyltSem.cells st))%nat).
      { intros w cc Hin Hlk. destruct (Hv w Hin) as (cc' & x & p & H1 & H2 & _). rewrite Hlk in H1. inversion H1; subst.
        apply nth_error_Some. congruence. }
      intros v1 v2 cc H1 H2. cbn [SyltSem.lookup].
      destruct H1 as [<-|H1]; destruct H2 as [<-|H2]; rewrite ?N.eqb_refl.
      * auto.
      * destruct (N.eqb_spec var v2); [auto|]. intros Ha Hb2. inversion Ha; subst.
        specialize (Hold v2 _ H2 Hb2). lia.
      * destruct (N.eqb_spec var v1); [auto|]. intros Ha Hb2. inversion Hb2; subst.
        specialize (Hold v1 _ H1 Ha). lia.
      * destruct (N.eqb_spec var v1) as [->|]; [contradiction|]. destruct (N.eqb_spec var v2) as [->|]; [contradiction|].
        apply Hi; assumption.
    + destruct Hp as (cp & Hlkp & Hnthp & Hdist).
      exists cp. cbn [SyltSem.lookup]. destruct (N.eqb_spec var pv); [congruence|].
      splits; [exact Hlkp | apply nth_error_app_old; exact Hnthp |].
      intros w [<-|Hin]; rewrite ?N.eqb_refl.
      * intros Heq. inversion Heq; subst. assert (length (SyltSem.cells st) < length (SyltSem.cells st))%nat by (apply nth_error_Some; congruence). lia.
      * destruct (N.eqb_spec var w) as [->|]; [contradiction|]. apply Hdist. exact Hin.
    + exact Hpb.
    + rewrite sget_sset_var by (intros Heq; apply Hnpv; symmetry; exact Heq). exact HpE.
    + eapply glob_frame; [|exact HpG]. reflexivity.
    + apply wfenv_local. exact Hwf.
    + exact Ht.
    + apply linv_alloc_cell. exact Hli.
  - intros w Hw. apply sget_sset_var. intros ->. contradiction.
Qed.


Definition s_write (st : sstate) (c : nat) (x : sval) : sstate :=
  SyltSem.mkState (SyltSem.set_nth c x (SyltSem.cells st)) (SyltSem.blobs st) (SyltSem.clos st) (SyltSem.trace st).

Lemma nth_set_nth_same {A} (l : list A) c x : (c < length l)%nat -> nth_error (SyltSem.set_nth c x l) c = Some x.
Proof. revert c. induction l as [|h t IH]; intros [|c] H; cbn in *; try lia; [reflexivity | apply IH; lia]. Qed.

Lemma nth_set_nth_other {A} (l : list A) c c' x : c <> c' -> nth_error (SyltSem.set_nth c x l) c' = nth_error l c'.
Proof.
  revert c c'. induction l as [|h t IH]; intros [|c] [|c'] H; cbn; try reflexivity; try congruence.
  apply IH. congruence.
Qed.

(* IAssign var a for a user variable in scope: `V<var> = xa`;  SyltSem: write_cell *)
Lemma step_assign_user sc e st F c c' E stL l var a sv_ cc :
  rel sc e st E stL -> lut_ok bound l c c' -> In var sc -> 1 <= count_of u var ->
  SyltSem.lookup e var = Some cc ->
  denotes F E stL (aexpand l a) sv_ ->
  exists stL', okstepS sc sc e (s_write st cc sv_) F c c' E stL (fst (agen_one u l (IAssign var a))) E stL' F.
Proof.
  intros Hrel Hl Hin Hu Hlk Hd.
  pose proof Hrel as [Hv Hb Hi Hp Hpb HpE HpG Hwf Ht Hli].
  destruct (Hv var Hin) as (cc' & x0 & p & H1 & H2 & H3 & H4). rewrite Hlk in H1. inversion H1; subst cc'. clear H1.
  destruct (Hb var Hin) as [Hvb Hvp].
  cbn [agen_one]. assert (Hused : (0 <? count_of u var) = true) by (apply N.ltb_lt; lia). rewrite Hused. cbn [fst].
  rewrite (aexpand_user bound l c c' var Hl Hvb).
  destruct (denotes_now _ _ _ _ _ Hd Hwf Hli) as (lv & Hvr & st1 & _ & Hm & Hx1).
  pose proof (Exec_assign_local E (fmt_var var) p (aexpand l a) stL [lv] st1 H3 (EvalList_one _ _ _ _ Hm)) as Hex.
  cbn [first] in Hex.
  assert (Hrel1 : rel sc e st E st1) by (eapply rel_cells_ext; eassumption).
  exists (set_cell st1 p lv).
  split; [apply ExecS_one; exact Hex|]. split; [|split; [|split; [apply F_new_refl | apply keep_refl]]].
  - constructor; auto.
    + intros t q Hbt Hr Hq. rewrite get_cell_set_other.
      * apply Hx1. eapply wf_alloc; eassumption.
      * intros ->. assert (fmt_var t = fmt_var var) by (eapply wf_inj; eassumption). apply fmt_var_inj in H. lia.
    + cbn [set_cell s_ncell]. apply Hx1.
  - pose proof Hrel1 as [Hv1 _ _ _ _ _ HpG1 Hwf1 Ht1 Hli1].
    assert (Hccl : (cc < length (SyltSem.cells st))%nat) by (apply nth_error_Some; congruence).
    constructor.
    + intros w Hw. destruct (Hv1 w Hw) as (cw & xw & pw & Hw1 & Hw2 & Hw3 & Hw4).
      destruct (N.eq_dec w var) as [->|Hne].
      * rewrite Hlk in Hw1. inversion Hw1; subst cw. rewrite H3 in Hw3. inversion Hw3; subst pw.
        exists cc, sv_, p. splits; [exact Hlk | apply nth_set_nth_same; exact Hccl | exact H3 | rewrite get_cell_set_same; exact Hvr].
      * exists cw, xw, pw. splits; [exact Hw1 | | exact Hw3 |].
        -- cbn [s_write SyltSem.cells]. rewrite nth_set_nth_other; [exact Hw2|].
           intros ->. apply Hne. eapply Hi; eassumption.
        -- rewrite get_cell_set_other; [exact Hw4|].
           intros ->. apply Hne. apply fmt_var_inj. eapply wf_inj; eassumption.
    + exact Hb.
    + exact Hi.
    + destruct Hp as (cp & Hlkp & Hnthp & Hdist). exists cp. splits; [exact Hlkp | | exact Hdist].
      cbn [s_write SyltSem.cells]. rewrite nth_set_nth_other; [exact Hnthp|].
      intros ->. eapply Hdist; eassumption.
    + exact Hpb.
    + exact HpE.
    + eapply glob_frame; [|exact HpG1]. reflexivity.
    + eapply wfenv_ext; [exact Hwf1 | cbn; lia].
    + exact Ht1.
    + apply linv_set_cell. exact Hli1.
Qed.


Notation okstep := (okstep pv bound).
Notation P_eval := (P_eval pv bound u).

Lemma okstepS_trans sc sc1 sc2 e2 st2 F F1 F2 c c0 c1 E stL b1 E1 stL1 b2 E2 stL2 e1 st1 :
  okstepS sc sc1 e1 st1 F c c0 E stL b1 E1 stL1 F1 -> okstepS sc1 sc2 e2 st2 F1 c0 c1 E1 stL1 b2 E2 stL2 F2 ->
  incl sc sc1 -> c <= c0 -> c0 <= c1 -> okstepS sc sc2 e2 st2 F c c1 E stL (b1 ++ b2) E2 stL2 F2.
Proof.
  intros (Hx1 & Hf1 & Hr1 & Hn1 & Hk1) (Hx2 & Hf2 & Hr2 & Hn2 & Hk2) Hi Ha Hb.
  split; [eapply ExecS_app; eassumption|]. split.
  - eapply wframe_trans; [eapply wframe_widen; [exact Hf1 | lia | lia] | eapply wframe_widen; [exact Hf2 | lia | lia]].
  - split; [exact Hr2 | split; [eapply F_new_trans; eassumption|]].
    intros v Hv. rewrite (Hk2 v (Hi v Hv)). apply Hk1. exact Hv.
Qed.

Lemma ctx_afterS sc sc1 e1 st1 l F E stL c c0 c1 l1 b E1 stL1 F1 code bl :
  ctx_ok l F E c c1 -> cshape u l code bl l1 c c0 -> okstepS sc sc1 e1 st1 F c c0 E stL b E1 stL1 F1 ->
  ctx_ok l1 F1 E1 c0 c1.
Proof.
  intros Hc (_ & Hle & Hfr & _) (_ & Hf & _ & Hn & _). eapply ctx_step; eassumption.
Qed.

Definition stmt_post (ctx : N) (sc sc' : list N) (e : senv) (F : list N) (c c' : N) (E : env) (stL : state) (b : block)
           (r : SyltSem.res senv) (st' : sstate) : Prop :=
  match r with
  | SyltSem.RVal e' =>
      exists E' stL' F', okstepS sc sc' e' st' F c c' E stL b E' stL' F' /\ sext sc e e' /\ incl sc sc'
  | _ => xpost ctx sc e c c' E stL b r st'
  end.

Definition P_exec (n : nat) : Prop :=
  forall g k s ctx c code c' e st r st' sc sc' l E stL F,
    SyltSem.exec n e s st = (r, st') -> statement g s ctx c = Ok (code, c') ->
    frag_stmt pv sv bound k sc s = Some sc' -> ucovers u code -> ctx_ok l F E c c' -> rel sc e st E stL ->
    interesting r ->
    exists b l', cshape u l code b l' c c' /\ stmt_post ctx sc sc' e F c c' E stL b r st'.

Definition P_execs (n : nat) : Prop :=
  forall g k ss ctx c cs c' e st r st' sc sc' l E stL F,
    SyltSem.exec_block n e ss st = (r, st') -> mapM (fun s => statement g s ctx) ss c = Ok (cs, c') ->
    frag_stmts pv sv bound k sc ss = Some sc' -> ucovers u (concat cs) -> ctx_ok l F E c c' -> rel sc e st E stL ->
    interesting r ->
    exists b l', cshape u l (concat cs) b l' c c' /\ stmt_post ctx sc sc' e F c c' E stL b r st'.

Lemma P_stmt_zero : P_exec O /\ P_execs O.
Proof.
  split.
  - intros g k s ctx c code c' e st r st' sc sc' l E stL F Hev _ _ _ _ _ Hint. cbn in Hev. inversion Hev; subst. destruct Hint.
  - intros g k ss ctx c cs c' e st r st' sc sc' l E stL F Hev _ _ _ _ _ Hint. cbn in Hev. inversion Hev; subst. destruct Hint.
Qed.

Lemma mapM_statement_bound g ss ctx c cs c' :
  mapM (fun s => statement g s ctx) ss c = Ok (cs, c') -> True.
Proof. auto. Qed.

Lemma P_execs_succ n : P_exec n -> P_execs n -> P_execs (S n).
Proof.
  intros IHs IHss g k ss ctx c cs c' e st r st' sc sc' l E stL F Hev Hm Hfrag Hu Hctx Hrel Hint.
  destruct ss as [|s ss].
  - destruct (mapM_nil_ok _ _ _ _ Hm) as [-> ->]. destruct k as [|k]; [discriminate|]. cbn in Hfrag. inversion Hfrag; subst sc'.
    cbn in Hev. inversion Hev; subst r st'.
    eexists _, _. split; [apply cshape_nil|]. cbn [stmt_post]. exists E, stL, F.
    split; [|split; [apply sext_refl | apply incl_refl]].
    split; [apply XS_nil|]. split; [apply wframe_refl|]. split; [exact Hrel | split; [apply F_new_refl | apply keep_refl]].
  - destruct k as [|k]; [discriminate|]. rewrite frag_stmts_cons in Hfrag.
    destruct (frag_stmt pv sv bound k sc s) as [sc1|] eqn:Hfs; [|discriminate Hfrag].
    apply mapM_cons_ok in Hm as (y & c1 & ys & Hy & Hys & ->). cbn [concat] in *.
    apply ucovers_app in Hu as [Huy Huys].
    destruct (L_stmt_all g k s ctx c y c1 sc sc1 l Hy Hfs) as (_ & _ & (_ & Hc1 & _)).
    assert (Hrest : forall l0, exists b2 l2, cshape u l0 (concat ys) b2 l2 c1 c')
      by (intros l0; eapply L_stmts_all; eassumption).
    destruct (Hrest l) as (_ & _ & (_ & Hc1' & _)).
    assert (Hctxs : ctx_ok l F E c c1) by (eapply ctx_sub; [exact Hctx | lia | lia]).
    cbn [SyltSem.exec_block] in Hev. unfold SyltSem.bind at 1 in Hev.
    destruct (SyltSem.exec n e s st) as [[e1|o|cc] st1] eqn:He1.
    2: { inversion Hev; subst.
         destruct (IHs g k s ctx c y c1 e st _ st' sc sc1 l E stL F He1 Hy Hfs Huy Hctxs Hrel Hint) as (b1 & l1 & Hs1 & Hp1).
         destruct (Hrest l1) as (b2 & l2 & Hs2).
         eexists _, _. split; [eapply cshape_app; eassumption|].
         cbn [stmt_post] in *. eapply exit_app; [exact Hp1 | lia]. }
    2: { inversion Hev; subst.
         destruct (IHs g k s ctx c y c1 e st _ st' sc sc1 l E stL F He1 Hy Hfs Huy Hctxs Hrel Hint) as (b1 & l1 & Hs1 & Hp1).
         destruct (Hrest l1) as (b2 & l2 & Hs2).
         eexists _, _. split; [eapply cshape_app; eassumption|].
         cbn [stmt_post] in *. eapply exit_app; [exact Hp1 | lia]. }
    destruct (IHs g k s ctx c y c1 e st _ st1 sc sc1 l E stL F He1 Hy Hfs Huy Hctxs Hrel I)
      as (b1 & l1 & Hs1 & E1 & stL1 & F1 & Hok1 & Hse1 & Hinc1).
    pose proof Hok1 as (Hx1 & _ & Hrel1 & _).
    assert (Hctx1 : ctx_ok l1 F1 E1 c1 c') by (eapply ctx_afterS; eassumption).
    destruct (IHss g k ss ctx c1 ys c' e1 st1 r st' sc1 sc' l1 E1 stL1 F1 Hev Hys Hfrag Huys Hctx1 Hrel1 Hint)
      as (b2 & l2 & Hs2 & Hpost).
    eexists _, _. split; [eapply cshape_app; eassumption|].
    destruct r as [e2|o|cc].
    + destruct Hpost as (E2 & stL2 & F2 & Hok2 & Hse2 & Hinc2).
      exists E2, stL2, F2. split; [eapply okstepS_trans; eassumption|].
      split; [eapply sext_trans; eassumption | eapply incl_tran; eassumption].
    + cbn [stmt_post] in *. eapply (exit_pre pv bound ctx sc sc1 e e1 st st1); eassumption.
    + cbn [stmt_post] in *. eapply (exit_pre pv bound ctx sc sc1 e e1 st st1); eassumption.
Qed.


Lemma new_cell_eq x st : SyltSem.new_cell x st = (SyltSem.RVal (length (SyltSem.cells st)), s_alloc st x).
Proof. reflexivity. Qed.
Lemma write_cell_eq c x st : SyltSem.write_cell c x st = (SyltSem.RVal tt, s_write st c x).
Proof. reflexivity. Qed.

Lemma P_exec_succ n : P_execs n -> P_exec (S n).
Proof.
  intros IHss g k s ctx c code c' e st r st' sc sc' l E stL F Hev Hlow Hfrag Hu Hctx Hrel Hint.
  destruct g as [|g]; [discriminate|]. destruct k as [|k]; [discriminate|].
  destruct s; try discriminate Hfrag.
  - (* SDefinition *)
    destruct (frag_stmt_def _ _ _ _ _ _ _ _ _ Hfrag) as (Hnf & Hfresh & Hfe & ->).
    destruct (fresh_id_inv _ _ Hfresh) as (Hnin & Hnpv & Hnsv & Hvb).
    cbn [statement] in Hlow. destruct g as [|g']; [discriminate|].
    rewrite (definition_nonfun g' var value ctx Hnf) in Hlow. mon Hlow.
    destruct a as [code_v rv]. cbn [fst snd] in *.
    apply ucovers_cons in Hu as [Hu1 Hu]. apply ucovers_app in Hu as [Huv Hua].
    assert (Hcvar : 1 <= count_of u var) by (apply Hu1; left; reflexivity).
    assert (Hcrv : 1 <= count_of u rv) by (eapply Hua; [left; reflexivity | right; left; reflexivity]).
    destruct (L_expr_all pv u g' k value ctx c code_v rv c' (var :: sc) l Hm Hfe) as (_ & _ & (_ & Hcc & _) & Hrv1 & Hrv2).
    set (e' := (var, length (SyltSem.cells st)) :: e).
    assert (Hlcc : lut_ok bound l c c) by (eapply lut_ok_sub; [apply (cx_lut _ _ _ _ _ _ Hctx) | lia | lia]).
    destruct (step_define_user sc e st F c E stL l var Hrel Hlcc Hfresh Hcvar) as (E1 & stL1 & Hokd).
    assert (Hsd : cshape u l [IDefine var] (fst (agen_one u l (IDefine var))) l c c)
      by (apply cshape_plain; [lia | reflexivity | reflexivity | apply used_plain]).
    assert (Hctx1 : ctx_ok l F E1 c c') by (eapply ctx_afterS; eassumption).
    pose proof Hokd as (Hxd & _ & Hrel1 & _).
    assert (Hse : sext sc e e').
    { intros w Hw. unfold e'. cbn [SyltSem.lookup]. destruct (N.eqb_spec var w) as [->|]; [|reflexivity].
      destruct Hw as [Hw| ->]; contradiction. }
    cbn [SyltSem.exec] in Hev. unfold SyltSem.bind at 1 in Hev. rewrite new_cell_eq in Hev.
    fold e' in Hev. unfold SyltSem.bind at 1 in Hev.
    destruct (SyltSem.eval n e' value (s_alloc st (SV Values.VLuaNil))) as [[v_|o|cc] st1] eqn:He1.
    2: { inversion Hev; subst.
         destruct (P_eval_all pv bound u n g' k value ctx c code_v rv c' e' _ _ st' (var :: sc) l E1 stL1 F He1 Hm Hfe Huv Hctx1 Hrel1 Hint)
           as (b1 & l1 & Hs1 & _ & _ & Hp1).
         eexists _, _. split.
         - eapply cshape_cons; [exact Hsd|]. eapply cshape_app; [exact Hs1|].
           apply (cshape_plain u l1 (IAssign var rv) c' c'); [lia | reflexivity | reflexivity | apply used_plain].
         - cbn [stmt_post eval_post] in *.
           eapply (exit_pre pv bound ctx sc (var :: sc) e e' st (s_alloc st (SV Values.VLuaNil)));
             [exact Hokd | exact Hrel | exact Hse | apply incl_tl, incl_refl | eapply exit_app; [exact Hp1 | apply N.le_refl] | lia | lia]. }
    2: { inversion Hev; subst.
         destruct (P_eval_all pv bound u n g' k value ctx c code_v rv c' e' _ _ st' (var :: sc) l E1 stL1 F He1 Hm Hfe Huv Hctx1 Hrel1 Hint)
           as (b1 & l1 & Hs1 & _ & _ & Hp1).
         eexists _, _. split.
         - eapply cshape_cons; [exact Hsd|]. eapply cshape_app; [exact Hs1|].
           apply (cshape_plain u l1 (IAssign var rv) c' c'); [lia | reflexivity | reflexivity | apply used_plain].
         - cbn [stmt_post eval_post] in *.
           eapply (exit_pre pv bound ctx sc (var :: sc) e e' st (s_alloc st (SV Values.VLuaNil)));
             [exact Hokd | exact Hrel | exact Hse | apply incl_tl, incl_refl | eapply exit_app; [exact Hp1 | apply N.le_refl] | lia | lia]. }
    destruct (P_eval_all pv bound u n g' k value ctx c code_v rv c' e' _ _ st1 (var :: sc) l E1 stL1 F He1 Hm Hfe Huv Hctx1 Hrel1 I)
      as (b1 & l1 & Hs1 & _ & _ & E2 & stL2 & F2 & Hok2 & Hd2). specialize (Hd2 Hcrv).
    pose proof Hok2 as (_ & _ & Hrel2 & _).
    assert (Hctx2 : ctx_ok l1 F2 E2 c' c') by (eapply (ctx_after pv bound u); eassumption).
    unfold SyltSem.bind at 1 in Hev. rewrite write_cell_eq in Hev. cbn in Hev. inversion Hev; subst r st'. clear Hev.
    assert (Hlk : SyltSem.lookup e' var = Some (length (SyltSem.cells st))) by (unfold e'; cbn [SyltSem.lookup]; rewrite N.eqb_refl; reflexivity).
    destruct (step_assign_user (var :: sc) e' st1 F2 c' c' E2 stL2 l1 var rv v_ _ Hrel2 (cx_lut _ _ _ _ _ _ Hctx2) (or_introl eq_refl) Hcvar Hlk Hd2)
      as (stL3 & Hok3).
    eexists _, _. split.
    + eapply cshape_cons; [exact Hsd|]. eapply cshape_app; [exact Hs1|].
      apply (cshape_plain u l1 (IAssign var rv) c' c'); [lia | reflexivity | reflexivity | apply used_plain].
    + cbn [stmt_post]. exists E2, stL3, F2. split; [|split; [exact Hse | apply incl_tl, incl_refl]].
      eapply okstepS_trans; [exact Hokd | | apply incl_tl, incl_refl | lia | lia].
      eapply okstepS_trans; [exact Hok2 | exact Hok3 | apply incl_refl | lia | lia].
  - (* SBlock *)
    rewrite frag_stmt_block in Hfrag. cbn [statement] in Hlow. apply lower_list_ok in Hlow as (cs & Hm & ->).
    destruct (frag_stmts pv sv bound k sc statements) as [sc1|] eqn:Hs; [|discriminate Hfrag]. inversion Hfrag; subst sc'.
    cbn [SyltSem.exec] in Hev. unfold SyltSem.bind at 1 in Hev.
    destruct (SyltSem.exec_block n e statements st) as [[e1|o|cc] st1] eqn:He1.
    2: { inversion Hev; subst.
         destruct (IHss g k statements ctx c cs c' e st _ st' sc sc1 l E stL F He1 Hm Hs Hu Hctx Hrel Hint) as (b1 & l1 & Hs1 & Hpost).
         eexists _, _. split; [exact Hs1 | exact Hpost]. }
    2: { inversion Hev; subst.
         destruct (IHss g k statements ctx c cs c' e st _ st' sc sc1 l E stL F He1 Hm Hs Hu Hctx Hrel Hint) as (b1 & l1 & Hs1 & Hpost).
         eexists _, _. split; [exact Hs1 | exact Hpost]. }
    cbn in Hev. inversion Hev; subst r st'. clear Hev.
    destruct (IHss g k statements ctx c cs c' e st _ st1 sc sc1 l E stL F He1 Hm Hs Hu Hctx Hrel I)
      as (b1 & l1 & Hs1 & E1 & stL1 & F1 & (Hx1 & Hf1 & Hrel1 & Hn1 & Hk1) & Hse1 & Hinc1).
    eexists _, _. split; [exact Hs1|].
    cbn [stmt_post]. exists E1, stL1, F1. split; [|split; [apply sext_refl | apply incl_refl]].
    split; [exact Hx1|]. split; [exact Hf1|]. split; [eapply rel_shrink; eassumption|]. split; assumption.
  - (* SStatementExpression *)
    rewrite frag_stmt_sexpr in Hfrag. cbn [statement] in Hlow. mon Hlow.
    destruct (frag_expr pv k sc value) eqn:Hfe; [|discriminate Hfrag]. inversion Hfrag; subst sc'.
    destruct a as [code_v rv]. cbn [fst] in *.
    cbn [SyltSem.exec] in Hev. unfold SyltSem.bind at 1 in Hev.
    destruct (SyltSem.eval n e value st) as [[v_|o|cc] st1] eqn:He1.
    2: { inversion Hev; subst.
         destruct (P_eval_all pv bound u n g k value ctx c code_v rv c' e _ _ st' sc l E stL F He1 Hm Hfe Hu Hctx Hrel Hint)
           as (b1 & l1 & Hs1 & _ & _ & Hpost).
         eexists _, _. split; [exact Hs1 | exact Hpost]. }
    2: { inversion Hev; subst.
         destruct (P_eval_all pv bound u n g k value ctx c code_v rv c' e _ _ st' sc l E stL F He1 Hm Hfe Hu Hctx Hrel Hint)
           as (b1 & l1 & Hs1 & _ & _ & Hpost).
         eexists _, _. split; [exact Hs1 | exact Hpost]. }
    cbn in Hev. inversion Hev; subst r st'. clear Hev.
    destruct (P_eval_all pv bound u n g k value ctx c code_v rv c' e _ _ st1 sc l E stL F He1 Hm Hfe Hu Hctx Hrel I)
      as (b1 & l1 & Hs1 & _ & _ & E2 & stL2 & F2 & Hok2 & _).
    eexists _, _. split; [exact Hs1|].
    cbn [stmt_post]. exists E2, stL2, F2. split; [exact Hok2 | split; [apply sext_refl | apply incl_refl]].
Qed.

Theorem P_stmt_all n : P_exec n /\ P_execs n.
Proof.
  induction n as [|n [IH1 IH2]]; [apply P_stmt_zero|].
  split; [apply P_exec_succ; exact IH2 | apply P_execs_succ; assumption].
Qed.

End Sim.
