(* The resolved AST: a faithful mirror of the types in sylt-compiler/src/name_resolution.rs
   (Expression, Statement, Type, Var, IfBranch, CaseBranch, BinOp, UniOp, Collection).
   This is the output of name resolution and the input of dependency ordering, the type checker and
   the IR lowering.  Definitions only.  Shared by coq/Resolve, coq/Types, coq/Back. *)
From Coq Require Import String List NArith ZArith Bool.
Import ListNotations.

Record span := mkSpan { sp_file : N; sp_line0 : N; sp_line1 : N; sp_col0 : N; sp_col1 : N }.
Definition span_zero (file : N) : span := mkSpan file 0 0 0 0.

Inductive varkind := Const | Mutable.

Inductive binop :=
| Nop | Equals | NotEquals | Greater | GreaterEqual | Less | LessEqual
| AssertEq | Add | Sub | Mul | Div | And | Or.

Inductive uniop := Neg | Not.
Inductive collection := CTuple | CList.

(* sylt_common::Type as far as the parser can produce it in TypeKind::Resolved *)
Inductive basety := BVoid | BNil | BInt | BFloat | BBool | BStr | BUnknown.

(* a type constraint `Name a b` inside `fn<x: Name a b + ...>` *)
Record tconstraint := mkTC { tc_name : string; tc_args : list string }.

Inductive ty :=
| TUser (r : N) (args : list ty) (sp : span)
| TImplied (sp : span)
| TResolved (b : basety) (sp : span)
| TGeneric (name : string) (sp : span)
| TTuple (ts : list ty) (sp : span)
| TList (t : ty) (sp : span)
| TFn (constraints : list (string * list tconstraint)) (* BTreeMap: sorted by key *)
      (params : list ty) (ret : ty) (is_pure : bool) (sp : span).

Inductive expr :=
| ERead (var : N) (sp : span)
| EVariant (enum_var : N) (variant : string) (value : expr) (sp : span)
| ECall (f : expr) (args : list expr) (sp : span)
| EBlobAccess (value : expr) (field : string) (sp : span)
| EIndex (value : expr) (index : expr) (sp : span)
| EBinOp (op : binop) (a b : expr) (sp : span)
| EUniOp (op : uniop) (a : expr) (sp : span)
| EIf (branches : list ifbranch) (sp : span)
| ECase (to_match : expr) (branches : list casebranch) (fall_through : option (list stmt)) (sp : span)
| EFunction (name : string) (params : list (string * N * span * ty)) (ret : ty)
            (body : list stmt) (pure : bool) (sp : span)
| EBlob (blob : N) (fields : list (string * expr)) (self_var : N) (sp : span)
| ECollection (c : collection) (values : list expr) (sp : span)
| EFloat (repr : string) (sp : span)      (* the f64 as Rust prints it with {:?} *)
| EInt (z : Z) (sp : span)
| EStr (s : string) (sp : span)
| EBool (b : bool) (sp : span)
| ENil (sp : span)
with ifbranch :=
| IfBranch (condition : option expr) (body : list stmt) (sp : span)
with casebranch :=
| CaseBranch (pattern : string) (pattern_sp : span) (variable : option N) (body : list stmt) (sp : span)
with stmt :=
| SAssignment (op : binop) (target : expr) (value : expr) (sp : span)
| SBlob (name : string) (var : N) (sp : span) (variables : list string)
        (fields : list (string * (span * ty)))   (* HashMap in the code; kept sorted by field name here *)
        (external : bool)
| SEnum (name : string) (var : N) (sp : span) (variables : list string)
        (variants : list (string * (span * ty))) (* HashMap in the code; kept sorted by variant name here *)
| SDefinition (name : string) (var : N) (kind : varkind) (t : ty) (value : expr) (sp : span)
| SExternalDefinition (name : string) (var : N) (kind : varkind) (t : ty) (sp : span)
| SLoop (condition : expr) (body : list stmt) (sp : span)
| SBreak (sp : span)
| SContinue (sp : span)
| SRet (value : option expr) (sp : span)
| SBlock (statements : list stmt) (sp : span)
| SStatementExpression (value : expr) (sp : span)
| SUnreachable (sp : span).

Record var := mkVar { v_id : N; v_name : string; v_def : span; v_global : bool; v_kind : varkind }.

Definition expr_span (e : expr) : span :=
  match e with
  | ERead _ sp | EVariant _ _ _ sp | ECall _ _ sp | EBlobAccess _ _ sp | EIndex _ _ sp
  | EBinOp _ _ _ sp | EUniOp _ _ sp | EIf _ sp | ECase _ _ _ sp | EFunction _ _ _ _ _ sp
  | EBlob _ _ _ sp | ECollection _ _ sp | EFloat _ sp | EInt _ sp | EStr _ sp | EBool _ sp
  | ENil sp => sp
  end.

Definition stmt_span (s : stmt) : span :=
  match s with
  | SAssignment _ _ _ sp | SBlob _ _ sp _ _ _ | SEnum _ _ sp _ _ | SDefinition _ _ _ _ _ sp
  | SExternalDefinition _ _ _ _ sp | SLoop _ _ sp | SBreak sp | SContinue sp | SRet _ sp
  | SBlock _ sp | SStatementExpression _ sp | SUnreachable sp => sp
  end.

Definition ty_span (t : ty) : span :=
  match t with
  | TUser _ _ sp | TImplied sp | TResolved _ sp | TGeneric _ sp | TTuple _ sp | TList _ sp
  | TFn _ _ _ _ sp => sp
  end.

(* the whole output of name resolution *)
Record resolved := mkResolved { r_vars : list var; r_stmts : list stmt }.
