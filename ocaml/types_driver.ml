(* Driver for the extracted type-checker model (coq/Types/Tc.v).
   Case line:  the resolved S-expression produced by tools/resolved_io.py from the real compiler's own
               `vars` + `ordered` dumps (phases hook).
   Output:     OK
             | ERR <kind>|<file_id>|<line> [<kind>|<file_id>|<line> ...]     (all returned errors, first first)
             | PANIC <site> | FUEL | READFAIL <msg>
   Every line is followed by " !INPUT" when NoPanic.input_ok (the computable hypothesis of C07_checker_no_panic:
   variable ids inside the variable table, the shapes the parser / resolver produce) is false of the input.
   Fuel: 3000, and 300000 when that is not enough (FUEL is printed only if 300000 is exhausted).
   argv.(1) is ignored (kept for the calling convention). *)
open Typesmodel

let rec nat_of_int n = if n = 0 then O else S (nat_of_int (n - 1))
let rec int_of_pos = function XH -> 1 | XO p -> 2 * int_of_pos p | XI p -> 2 * int_of_pos p + 1
let int_of_n = function N0 -> 0 | Npos p -> int_of_pos p

let kind_name = function
  | KExotic -> "Exotic" | KToDo -> "ToDo" | KViolating -> "Violating" | KBinOp -> "BinOp" | KUniOp -> "UniOp"
  | KMismatch -> "Mismatch" | KMismatchAssign -> "MismatchAssign" | KAssignability -> "Assignability"
  | KExcessiveForce -> "ExcessiveForce" | KNamespaceNotExpression -> "NamespaceNotExpression"
  | KWrongArity -> "WrongArity" | KUnknownField -> "UnknownField" | KMissingField -> "MissingField"
  | KExternBlobInstance -> "ExternBlobInstance" | KTupleIndexOutOfRange -> "TupleIndexOutOfRange"
  | KTupleLengthMismatch -> "TupleLengthMismatch" | KUnresolvedName -> "UnresolvedName"
  | KWrongConstraintArity -> "WrongConstraintArity" | KUnknownConstraint -> "UnknownConstraint"
  | KUnknownConstraintArgument -> "UnknownConstraintArgument" | KUnknownVariant -> "UnknownVariant"
  | KMissingVariants -> "MissingVariants" | KExtraVariants -> "ExtraVariants" | KExpectVoid -> "ExpectVoid"
  | KImpurity -> "Impurity"

let site_name = function
  | POuterStmt -> "OuterStmt" | PIndexNotInt -> "IndexNotInt" | PBinOpNop -> "BinOpNop"
  | PIfNoBranch -> "IfNoBranch" | PVarIndex -> "VarIndex" | PTypeIndex -> "TypeIndex" | PFieldIndex -> "FieldIndex"

let err_str (e : err) =
  Printf.sprintf "Type:%s|%d|%d" (kind_name e.e_kind) (int_of_n e.e_span.sp_file) (int_of_n e.e_span.sp_line0)

let () =
  let fuel_small = nat_of_int 3000 in
  let fuel_big = lazy (nat_of_int 300000) in
  let ic = open_in Sys.argv.(2) in
  (try
    while true do
      let line = input_line ic in
      (try
        let r = Rast_reader.read_resolved line in
        let res = match typecheck fuel_small r with
          | OutOfFuel -> typecheck (Lazy.force fuel_big) r      (* out of fuel is reported only for the big fuel *)
          | x -> x in
        let flag = if input_ok r then "" else " !INPUT" in
        (match res with
         | Ok _ -> print_endline ("OK" ^ flag)
         | Err (e, more) -> print_endline ("ERR " ^ String.concat " " (List.map err_str (e :: more)) ^ flag)
         | Panic p -> print_endline ("PANIC " ^ site_name p ^ flag)
         | OutOfFuel -> print_endline ("FUEL" ^ flag))
      with Failure m -> print_endline ("READFAIL " ^ m))
    done
  with End_of_file -> ());
  close_in ic
