-- expect: 1	20	nil
-- expect: nil
-- expect: foo!	1!
-- expect: 1	20
-- expect: 1	a	2	5
-- expect: nil	v
-- expect: direct
-- expect: false	frozen
-- expect: true	nil
-- expect: locked
-- expect: false	dflt	1
-- expect: false	attempt to index a nil value
-- expect: false	attempt to index a nil value
-- expect: false	attempt to index a number value
-- expect: Rex makes a sound
-- expect: true	nil
-- expect: false	cannot change a protected metatable
-- expect: false	bad argument #1 to 'setmetatable' (table expected, got number)
-- expect: false	bad argument #2 to 'setmetatable' (nil or table expected)
local base = {x = 1, y = 2}
local t = setmetatable({y = 20}, {__index = base})
print(t.x, t.y, t.z)
print(rawget(t, "x"))
local t2 = setmetatable({}, {__index = function(tab, k) return k .. "!" end})
print(t2.foo, t2[1])
local lvl1 = setmetatable({}, {__index = t})
print(lvl1.x, lvl1.y)
-- __newindex is consulted only when the key is absent
local log = {}
local t3 = setmetatable({existing = 1}, {__newindex = function(tab, k, v) log[#log + 1] = k; rawset(tab, k, v) end})
t3.a = 1
t3.a = 2
t3.existing = 5
print(#log, log[1], t3.a, t3.existing)
local store = {}
local t4 = setmetatable({}, {__newindex = store})
t4.k = "v"
print(rawget(t4, "k"), store.k)
rawset(t4, "k", "direct")
print(t4.k)
local frozen = setmetatable({}, {__newindex = function() error("frozen", 0) end})
print(pcall(function() frozen.x = 1 end))
local m = {}
local obj = setmetatable({}, m)
print(getmetatable(obj) == m, getmetatable({}))
local p = setmetatable({}, {__metatable = "locked"})
print(getmetatable(p))
-- a present value (even false) does not trigger __index
local cnt = 0
local t5 = setmetatable({a = false}, {__index = function() cnt = cnt + 1 return "dflt" end})
print(t5.a, t5.b, cnt)
local function nothing() end
print(pcall(function() return nothing().x end))
print(pcall(function() nothing().x = 1 end))
print(pcall(function() return (1).x end))
-- class pattern
local Animal = {}
Animal.__index = Animal
function Animal.new(name) return setmetatable({name = name}, Animal) end
function Animal.speak(self) return self.name .. " makes a sound" end
local dog = Animal.new("Rex")
print(dog.speak(dog))
print(setmetatable(obj, nil) == obj, getmetatable(obj))
print(pcall(setmetatable, p, {}))
print(pcall(setmetatable, 1, {}))
print(pcall(setmetatable, {}, 1))
