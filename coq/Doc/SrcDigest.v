(* Comparing the source digests regenerated from /repo (Gen/GenSrcDigest.v) with the reviewed ones
   (Doc/DocSrcDigest.v), restricted to the files a model mirrors. *)
From Coq Require Import String List Bool.
Import ListNotations.

Definition digest_row := (string * string * string)%type.

Definition digests_of (files : list string) (l : list digest_row) : list digest_row :=
  filter (fun r => existsb (String.eqb (fst (fst r))) files) l.

Definition row_eqb (a b : digest_row) : bool :=
  String.eqb (fst (fst a)) (fst (fst b)) && String.eqb (snd (fst a)) (snd (fst b)) && String.eqb (snd a) (snd b).

Fixpoint rows_eqb (a b : list digest_row) : bool :=
  match a, b with
  | [], [] => true
  | x :: a', y :: b' => row_eqb x y && rows_eqb a' b'
  | _, _ => false
  end.

(* the model of these files was written against exactly these function texts *)
Definition sources_reviewed (files : list string) (doc gen : list digest_row) : bool :=
  negb (match digests_of files gen with [] => true | _ => false end)
  && rows_eqb (digests_of files doc) (digests_of files gen).

Lemma rows_eqb_eq : forall a b, rows_eqb a b = true -> a = b.
Proof.
  induction a as [|x a IH]; destruct b as [|y b]; cbn; intros H; try discriminate; [reflexivity|].
  apply andb_prop in H. destruct H as [H1 H2]. rewrite (IH b H2). f_equal.
  unfold row_eqb in H1. apply andb_prop in H1. destruct H1 as [H1 H3]. apply andb_prop in H1. destruct H1 as [H0 H1].
  apply String.eqb_eq in H0, H1, H3. destruct x as [[x1 x2] x3], y as [[y1 y2] y3]; cbn in *. subst. reflexivity.
Qed.
