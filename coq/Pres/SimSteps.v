(* Step lemmas of the simulation that involve the main relation `rel`: what the statements emitted for one
   IR instruction (copy of a variable, call of print, assert) do to a related pair of configurations. *)
From Coq Require Import String Ascii List NArith ZArith QArith Bool Lia.
From Sylt Require Import Syntax.Resolved.
From Sylt Require Sem.Values Sem.Runtime Sem.SyltSem.
From Sylt Require Import Back.IR Back.Emit Back.ScopeProofs.
From Sylt Require Import Pres.EmitAst Pres.EmitRel Pres.Names Pres.LuaFuel Pres.LuaEv Pres.Preamble.
From Sylt Require Import Pres.Frag.
From Sylt Require Import Pres.SimDefs Pres.SimOps Pres.SimVals.
From Sylt Require Import Pres.SimExpr Pres.LowerShape.
From Sylt Require Import Lua.LuaAst Lua.LuaMap Lua.LuaNum Lua.LuaProofs Lua.LuaCore.
Import ListNotations.
Local Open Scope N_scope.

(* a Lua value fixed in every future (the callee `print`) *)
Definition ldenotes (F : list N) (E : env) (st : state) (ex : expr) (lv : value) : Prop :=
  forall E2 st2, fut F E st E2 st2 -> wfenv E2 st2 -> linv st2 -> PureEval E2 st2 ex lv.

Lemma ldenotes_mono F F2 E st E2 st2 ex lv :
  ldenotes F E st ex lv -> fut F E st E2 st2 -> incl F F2 -> ldenotes F2 E2 st2 ex lv.
Proof.
  intros Hd Hf Hi E3 st3 Hf3 Hwf Hinv. apply Hd; auto.
  eapply fut_trans; [exact Hf|]. eapply fut_mono; eassumption.
Qed.

Lemma ldenotes_local F E st t p lv :
  In t F -> sget (fmt_var t) E = Some p -> get_cell st p = lv -> ldenotes F E st (EVar (fmt_var t)) lv.
Proof.
  intros Ht Hp Hv E2 st2 Hf _ _. destruct (Hf t p Ht Hp) as [Hp2 Hc].
  apply (PureEval_noncall _ _ _ _ st2); [reflexivity | | apply cells_ext_refl].
  rewrite <- Hv, <- Hc. apply Eval_local. exact Hp2.
Qed.

Lemma used_false u t : (0 <? count_of u t) = false -> ~ 1 <= count_of u t.
Proof. intros H. apply N.ltb_ge in H. lia. Qed.

(* an argument of a call: a plain value, or a closure of the world with the kind the parameter wants *)
Definition adenotes (W : world) (K : kind) (F : list N) (E : env) (stL : state) (ex : expr) (av : sval) : Prop :=
  match K with
  | KP => denotes F E stL ex av
  | KF _ _ => exists d, w_D W d /\ dkind d = K /\ av = SyltSem.SClos (fd_ci d) /\ ldenotes F E stL ex (VFun (fd_fid d))
  end.

Lemma adenotes_mono W K F F2 E stL E2 st2 ex av :
  adenotes W K F E stL ex av -> fut F E stL E2 st2 -> incl F F2 -> adenotes W K F2 E2 st2 ex av.
Proof.
  destruct K; cbn [adenotes]; intros H Hf Hi.
  - eapply denotes_mono; eassumption.
  - destruct H as (d & A & B & C & D). exists d. split; [exact A | split; [exact B | split; [exact C | eapply ldenotes_mono; eassumption]]].
Qed.

Section Sim.
Variable pv : N.
Variable sv : N.
Variable bound : N.
Variable u : counts.
Variable fl : list (N * kind).
Variable W : world.

Notation okstep := (okstep pv sv bound u fl W).
Notation rel := (rel pv sv bound u fl W).
Notation ctx_ok := (ctx_ok bound).

Lemma okstep_refl sc e st F c c' E stL : rel sc e st E stL -> okstep sc e st F c c' E stL [] E stL F.
Proof.
  intros H. split; [apply XS_nil|]. split; [apply wframe_refl|].
  split; [exact H | split; [apply F_new_refl | apply keep_refl]].
Qed.

(* `local V<t> = ex` for an expression that evaluates now *)
Lemma step_local sc e st F c c' E stL l t ex lv :
  rel sc e st E stL -> ctx_ok l F E c c' -> c <= t < c' -> PureEval E stL ex lv ->
  exists E' stL' p,
    okstep sc e st F c c' E stL [SLocal [fmt_var t] [ex]] E' stL' (t :: F) /\
    sget (fmt_var t) E' = Some p /\ get_cell stL' p = lv.
Proof.
  intros Hrel [Hb Hl HF HE] Ht Hp.
  destruct (op_local c c' E stL t ex lv (r_wf _ _ _ _ _ _ _ _ _ _ _ Hrel) (r_linv _ _ _ _ _ _ _ _ _ _ _ Hrel) (HE t Ht) Ht Hp)
    as (stm & Hx & Hex & Hfr).
  exists (sset (fmt_var t) (s_ncell stm) E), (snd (alloc_cell stm lv)), (s_ncell stm).
  split; [|split; [apply sget_sset_same | apply get_cell_alloc_new]].
  split; [apply ExecS_one; exact Hex|]. split; [apply lframe_w; exact Hfr|]. split.
  - apply (rel_op_local pv sv bound u fl W sc e st E stL stm t lv Hrel Hx); lia.
  - split; [|eapply keep_lframe; eassumption].
    split; [apply incl_tl, incl_refl|]. intros t' [<-|Ht']; [right; exact Ht | left; exact Ht'].
Qed.

(* ICopy t a for a user variable in scope *)
Lemma step_copy sc e st F c c' E stL l t a :
  rel sc e st E stL -> ctx_ok l F E c c' -> c <= t < c' -> In a sc ->
  exists ca x, SyltSem.lookup e a = Some ca /\ nth_error (SyltSem.cells st) ca = Some x /\
  exists E' stL' F',
    okstep sc e st F c c' E stL (fst (agen_one u l (ICopy t a))) E' stL' F' /\
    (1 <= count_of u t -> denotes F' E' stL' (aexpand l t) x).
Proof.
  intros Hrel Hctx Ht Ha.
  destruct (r_vars _ _ _ _ _ _ _ _ _ _ _ Hrel a Ha) as (ca & x & p & Hlk & Hnth & Hp & Hv).
  exists ca, x. split; [exact Hlk|]. split; [exact Hnth|].
  pose proof Hctx as [Hb Hl HF HE].
  cbn [agen_one]. destruct (0 <? count_of u t) eqn:Hu; cbn [fst].
  - rewrite (aname_none l t) by (apply Hl; left; exact Ht).
    rewrite (aexpand_user bound l c c' a Hl) by (apply (r_scb _ _ _ _ _ _ _ _ _ _ _ Hrel a Ha)).
    destruct (step_local sc e st F c c' E stL l t (EVar (fmt_var a)) (get_cell stL p) Hrel Hctx Ht) as (E' & stL' & q & Hok & Hq & Hc).
    { apply (PureEval_noncall _ _ _ _ stL); [reflexivity | apply Eval_local; exact Hp | apply cells_ext_refl]. }
    exists E', stL', (t :: F). split; [exact Hok|]. intros _.
    unfold aexpand. rewrite (Hl t) by (left; exact Ht).
    eapply denotes_local; [left; reflexivity | exact Hq | rewrite Hc; exact Hv].
  - exists E, stL, F. split; [apply okstep_refl; exact Hrel|].
    intros Hc. exfalso. eapply used_false; eassumption.
Qed.

(* ICopy t pv: the callee of a print call *)
Lemma step_copy_print sc e st F c c' E stL l t :
  rel sc e st E stL -> ctx_ok l F E c c' -> c <= t < c' -> 1 <= count_of u t ->
  exists E' stL' F',
    okstep sc e st F c c' E stL (fst (agen_one u l (ICopy t pv))) E' stL' F' /\
    ldenotes F' E' stL' (aexpand l t) (VBuiltin BPrint).
Proof.
  intros Hrel Hctx Ht Hu. pose proof Hctx as [Hb Hl HF HE].
  cbn [agen_one]. assert (Hused : (0 <? count_of u t) = true) by (apply N.ltb_lt; lia). rewrite Hused. cbn [fst].
  rewrite (aname_none l t) by (apply Hl; left; exact Ht).
  rewrite (aexpand_user bound l c c' pv Hl) by (apply (r_pvb _ _ _ _ _ _ _ _ _ _ _ Hrel)).
  destruct (step_local sc e st F c c' E stL l t (EVar (fmt_var pv)) (VBuiltin BPrint) Hrel Hctx Ht) as (E' & stL' & q & Hok & Hq & Hc).
  { apply (PureEval_noncall _ _ _ _ stL); [reflexivity | | apply cells_ext_refl].
    apply Eval_global; [apply (r_pvE _ _ _ _ _ _ _ _ _ _ _ Hrel) | apply (r_pvG _ _ _ _ _ _ _ _ _ _ _ Hrel) | reflexivity]. }
  exists E', stL', (t :: F). split; [exact Hok|].
  unfold aexpand. rewrite (Hl t) by (left; exact Ht).
  eapply ldenotes_local; [left; reflexivity | exact Hq | exact Hc].
Qed.


Definition s_emit (st : sstate) (s : string) : sstate :=
  SyltSem.mkState (SyltSem.cells st) (SyltSem.blobs st) (SyltSem.clos st) (s :: SyltSem.trace st).

Lemma rel_emit sc e st E stL s : rel sc e st E stL -> rel sc e (s_emit st s) E (emit_line stL s).
Proof.
  intros (Hfs & W' & Hs & [Hb Hfb Hp Hpb HpE HpG Hwf Ht Hl HW]). split; [exact Hfs|]. exists W'. split; [exact Hs|]. constructor.
  - exact Hb.
  - exact Hfb.
  - exact Hp.
  - exact Hpb.
  - exact HpE.
  - exact HpG.
  - eapply wfenv_ext; [exact Hwf | cbn; lia].
  - cbn [s_emit SyltSem.trace emit_line s_out]. congruence.
  - apply linv_emit_line. exact Hl.
  - apply (winv_states pv sv bound u fl W' sc e st E stL (s_emit st s) (emit_line stL s) HW).
    + intros; reflexivity.
    + intros c p Hr. destruct (wi_R _ _ _ _ _ _ _ _ _ _ _ HW c p true Hr) as (x & A & B & C). exists x. split; [exact A | exact B].
    + intros; reflexivity.
    + intros; reflexivity.
    + intros; reflexivity.
    + cbn; lia.
    + intros; reflexivity.
    + cbn; lia.
Qed.

Lemma lframe_emit c c' E st s : wfenv E st -> linv st -> lframe c c' E st E (emit_line st s).
Proof.
  intros Hwf Hl. constructor.
  - apply env_incl_refl.
  - auto.
  - reflexivity.
  - reflexivity.
  - cbn; lia.
  - eapply wfenv_ext; [exact Hwf | cbn; lia].
  - apply linv_emit_line. exact Hl.
Qed.

Lemma vrel_tostring x la : vrel (SV x) la -> tostring_basic true la = Runtime.rt_tostring x.
Proof. intros H. inversion H; subst; try reflexivity; destruct b; reflexivity. Qed.

Lemma vrel_no_meta st sv_ la : vrel sv_ la -> metamethod st la "__tostring" = VNil.
Proof. intros []; reflexivity. Qed.

Lemma step_call_print sc e st F c c' E stL l v tf a x :
  rel sc e st E stL -> ctx_ok l F E c c' -> c <= v < c' ->
  ldenotes F E stL (aexpand l tf) (VBuiltin BPrint) -> denotes F E stL (aexpand l a) (SV x) ->
  exists E' stL' F',
    okstep sc e (s_emit st (Runtime.rt_tostring x)) F c c' E stL (fst (agen_one u l (ICall v tf [a]))) E' stL' F' /\
    denotes F' E' stL' (aexpand l v) (SV Values.VLuaNil).
Proof.
  intros Hrel Hctx Hv Hf Ha. pose proof Hctx as [Hb Hl HF HE].
  pose proof (r_wf _ _ _ _ _ _ _ _ _ _ _ Hrel) as Hwf. pose proof (r_linv _ _ _ _ _ _ _ _ _ _ _ Hrel) as Hli.
  cbn [agen_one fst map]. rewrite (aname_none l v) by (apply Hl; left; exact Hv).
  destruct (Hf E stL (fut_refl _ _ _) Hwf Hli) as (st1 & Hef & _ & Hx1).
  assert (Hwf1 : wfenv E st1) by (eapply wfenv_ext; [exact Hwf | apply Hx1]).
  assert (Hli1 : linv st1) by (eapply cells_ext_linv; eassumption).
  destruct (Ha E st1 (fut_cells_ext _ _ _ _ Hwf Hx1) Hwf1 Hli1) as (la & Hva & st2 & _ & Hma & Hx2).
  assert (Hx12 : cells_ext stL st2) by (eapply cells_ext_trans; eassumption).
  assert (Hli2 : linv st2) by (eapply cells_ext_linv; eassumption).
  assert (Hwf2 : wfenv E st2) by (eapply wfenv_ext; [exact Hwf | apply Hx12]).
  assert (Hd : d53 st2 = true) by (unfold d53; rewrite (li_dialect _ Hli2); reflexivity).
  set (s := Runtime.rt_tostring x).
  set (st3 := emit_line st2 s).
  assert (Hcall : EvalCall E (aexpand l tf) [aexpand l a] stL (ROk [] st3)).
  { eapply EvalCall_intro; [exact Hef | apply EvalList_one; exact Hma |].
    pose proof (Call_print1 la st2 (vrel_no_meta st2 _ _ Hva)) as Hc.
    rewrite Hd, (vrel_tostring _ _ Hva) in Hc. exact Hc. }
  pose proof (Exec_local E [fmt_var v] [ECall (aexpand l tf) [aexpand l a]] stL [] st3
                (EvalList_one _ _ _ _ (EvalMulti_call _ _ _ _ _ Hcall))) as Hex.
  rewrite bind_locals_one in Hex. cbn [fst snd first] in Hex.
  assert (Hrel3 : rel sc e (s_emit st s) E st3).
  { apply rel_emit. eapply rel_cells_ext; eassumption. }
  exists (sset (fmt_var v) (s_ncell st3) E), (snd (alloc_cell st3 VNil)), (v :: F). split.
  - split; [apply ExecS_one; exact Hex|]. split; [|split; [|split]].
    + apply lframe_w. eapply lframe_trans; [apply lframe_cells_ext; eassumption|].
      eapply lframe_trans; [apply lframe_emit; assumption|].
      apply lframe_local; [apply (r_wf _ _ _ _ _ _ _ _ _ _ _ Hrel3) | apply (r_linv _ _ _ _ _ _ _ _ _ _ _ Hrel3) | apply HE; exact Hv | exact Hv].
    + apply rel_local_temp; [exact Hrel3 | lia].
    + split; [apply incl_tl, incl_refl|]. intros t' [<-|Ht']; [right; exact Hv | left; exact Ht'].
    + eapply keep_temp; [exact Hrel | lia].
  - unfold aexpand. rewrite (Hl v) by (left; exact Hv).
    eapply denotes_local; [left; reflexivity | apply sget_sset_same | rewrite get_cell_alloc_new; constructor].
Qed.

(* ---- calls of top-level functions ---- *)

(* ICopy t f: the callee of a call of the function f *)
Lemma step_copy_fun sc e st F c c' E stL l t f p fid :
  rel sc e st E stL -> ctx_ok l F E c c' -> c <= t < c' -> 1 <= count_of u t ->
  f < bound -> sget (fmt_var f) E = Some p -> get_cell stL p = VFun fid ->
  exists E' stL' F',
    okstep sc e st F c c' E stL (fst (agen_one u l (ICopy t f))) E' stL' F' /\
    ldenotes F' E' stL' (aexpand l t) (VFun fid).
Proof.
  intros Hrel Hctx Ht Hu Hfb Hname Hcell. pose proof Hctx as [Hb Hl HF HE].
  cbn [agen_one]. assert (Hused : (0 <? count_of u t) = true) by (apply N.ltb_lt; lia). rewrite Hused. cbn [fst].
  rewrite (aname_none l t) by (apply Hl; left; exact Ht).
  rewrite (aexpand_user bound l c c' f Hl) by exact Hfb.
  destruct (step_local sc e st F c c' E stL l t (EVar (fmt_var f)) (VFun fid) Hrel Hctx Ht) as (E' & stL' & q & Hok & Hq & Hc).
  { apply (PureEval_noncall _ _ _ _ stL); [reflexivity | | apply cells_ext_refl]. rewrite <- Hcell. apply Eval_local. exact Hname. }
  exists E', stL', (t :: F). split; [exact Hok|].
  unfold aexpand. rewrite (Hl t) by (left; exact Ht).
  eapply ldenotes_local; [left; reflexivity | exact Hq | exact Hc].
Qed.

(* the arguments of a call, evaluated from left to right when the call is made *)
Lemma adenotes_list F E : forall ks xs avs st,
  Forall3 (fun K av x => adenotes W K F E st x av) ks avs xs -> wfenv E st -> linv st ->
  exists lvs stb, EvalList E xs st (ROk lvs stb) /\ cells_ext st stb /\ Forall3 (arel W) ks avs lvs.
Proof.
  induction ks as [|K ks IH]; intros xs avs st Hd Hwf Hli.
  - inversion Hd; subst. exists [], st. split; [apply EvalList_nil | split; [apply cells_ext_refl | constructor]].
  - inversion Hd as [|K' av x ks' avs' xs' Hdx Hrest]; subst.
    assert (Hone : exists lv st1, Eval E x st (ROk lv st1) /\ EvalMulti E x st (ROk [lv] st1) /\ cells_ext st st1 /\ arel W K av lv).
    { destruct K; cbn [adenotes arel] in *.
      - destruct (denotes_now _ _ _ _ _ Hdx Hwf Hli) as (lv & Hv & st1 & Hev & Hm & Hx1). exists lv, st1. auto.
      - destruct Hdx as (d & A & B & C & D). destruct (D E st (fut_refl _ _ _) Hwf Hli) as (st1 & Hev & Hm & Hx1).
        exists (VFun (fd_fid d)), st1. split; [exact Hev | split; [exact Hm | split; [exact Hx1 | exists d; auto]]]. }
    destruct Hone as (lv & st1 & Hev & Hm & Hx1 & Hv).
    destruct xs' as [|x2 xs].
    + inversion Hrest; subst. exists [lv], st1. split; [apply EvalList_one; exact Hm | split; [exact Hx1 | repeat constructor; exact Hv]].
    + assert (Hwf1 : wfenv E st1) by (eapply wfenv_ext; [exact Hwf | apply Hx1]).
      assert (Hli1 : linv st1) by (eapply cells_ext_linv; eassumption).
      assert (Hrest1 : Forall3 (fun K0 av0 x0 => adenotes W K0 F E st1 x0 av0) ks avs' (x2 :: xs)).
      { clear Hd IH. induction Hrest as [|a b c0 la lb lc Hab _ IHr]; constructor; [|exact IHr].
        eapply adenotes_mono; [exact Hab | apply fut_cells_ext; assumption | apply incl_refl]. }
      destruct (IH (x2 :: xs) avs' st1 Hrest1 Hwf1 Hli1) as (lvs & stb & Hel & Hxb & Hvs).
      exists (lv :: lvs), stb. split; [eapply EvalList_cons; [discriminate | exact Hev | exact Hel]|].
      split; [eapply (cells_ext_trans st st1 stb); eassumption | constructor; assumption].
Qed.

(* ICall v tf args: `local V<v> = <tf>(<args>)` for a closure of the world; the result has the kind the closure promises,
   in a world that may know one more closure (the result) *)
Lemma step_call_fun n ctx sc e st F c c' E stL l v tf (vs : list N) avs d r st' :
  P_apply pv sv bound u fl W n ->
  rel sc e st E stL -> ctx_ok l F E c c' -> c <= v < c' ->
  w_D W d ->
  ldenotes F E stL (aexpand l tf) (VFun (fd_fid d)) ->
  Forall3 (fun K av t => adenotes W K F E stL (aexpand l t) av) (fd_pk d) avs vs ->
  SyltSem.apply n (SyltSem.SClos (fd_ci d)) avs st = (r, st') -> interesting r ->
  match r with
  | SyltSem.RVal rv =>
      exists W1 E' stL' F', wsub W W1 /\
        SimExpr.okstep pv sv bound u fl W1 sc e st' F c c' E stL (fst (agen_one u l (ICall v tf vs))) E' stL' F' /\
        adenotes W1 (fd_rk d) F' E' stL' (aexpand l v) rv
  | _ => exit_post pv sv bound u fl W ctx sc e c c' E stL (fst (agen_one u l (ICall v tf vs))) r st'
  end.
Proof.
  intros IHa Hrel Hctx Hv Hd Hf Hargs Hap Hint. pose proof Hctx as [Hb Hl HF HE].
  pose proof (r_wf _ _ _ _ _ _ _ _ _ _ _ Hrel) as Hwf. pose proof (r_linv _ _ _ _ _ _ _ _ _ _ _ Hrel) as Hli.
  cbn [agen_one fst]. rewrite (aname_none l v) by (apply Hl; left; exact Hv).
  destruct (Hf E stL (fut_refl _ _ _) Hwf Hli) as (st1 & Hef & _ & Hx1).
  assert (Hwf1 : wfenv E st1) by (eapply wfenv_ext; [exact Hwf | apply Hx1]).
  assert (Hli1 : linv st1) by (eapply cells_ext_linv; eassumption).
  assert (Hargs1 : Forall3 (fun K av x => adenotes W K F E st1 x av) (fd_pk d) avs (map (aexpand l) vs)).
  { clear Hap. induction Hargs as [|K av t ks' avs' vs' Hd1 _ IH]; cbn [map]; constructor; [|exact IH].
    eapply adenotes_mono; [exact Hd1 | apply fut_cells_ext; assumption | apply incl_refl]. }
  destruct (adenotes_list F E _ _ _ st1 Hargs1 Hwf1 Hli1) as (lvs & stb & Hel & Hxb & Hvs).
  assert (Hx1b : cells_ext stL stb) by (eapply cells_ext_trans; eassumption).
  assert (Hrelb : rel sc e st E stb) by (eapply rel_cells_ext; eassumption).
  pose proof (IHa d avs lvs sc e st E stb r st' Hrelb Hd Hvs Hap Hint) as Hres.
  destruct r as [rv|o|cc]; [| |destruct Hres].
  - destruct Hres as (W1 & rvs & stLr & Hw1 & Hcall & Hvr & Hrelr & Hnc & Hfr).
    assert (Hec : EvalCall E (aexpand l tf) (map (aexpand l) vs) stL (ROk rvs stLr))
      by (eapply EvalCall_intro; [exact Hef | exact Hel | exact Hcall]).
    pose proof (Exec_local E [fmt_var v] [ECall (aexpand l tf) (map (aexpand l) vs)] stL rvs stLr
                  (EvalList_one _ _ _ _ (EvalMulti_call _ _ _ _ _ Hec))) as Hex.
    rewrite bind_locals_one in Hex. cbn [fst snd] in Hex.
    exists W1, (sset (fmt_var v) (s_ncell stLr) E), (snd (alloc_cell stLr (first rvs))), (v :: F).
    split; [exact Hw1|]. split.
    + split; [apply ExecS_one; exact Hex|]. split; [|split; [|split]].
      * assert (Hncb : (s_ncell stL <= s_ncell stb)%positive) by (destruct Hx1b as (_ & _ & _ & _ & _ & _ & H & _); exact H).
        constructor.
        -- intros t q Hbt Hq. rewrite sget_sset_var; [exact Hq|]. intros ->. rewrite (HE v Hv) in Hq. discriminate.
        -- intros x q Hx. destruct (string_dec x (fmt_var v)) as [->|Hne].
           ++ right. left. exists v. split; [reflexivity | exact Hv].
           ++ left. rewrite sget_sset_other in Hx by exact Hne. exact Hx.
        -- intros t q Hbt _ Hq. rewrite get_cell_alloc_old by (pose proof (wf_alloc _ _ Hwf _ _ Hq); lia).
           rewrite (Hfr t q Hbt Hq). apply Hx1b. eapply wf_alloc; eassumption.
        -- cbn [alloc_cell snd s_ncell]. lia.
      * apply rel_local_temp; [exact Hrelr | lia].
      * split; [apply incl_tl, incl_refl|]. intros t' [<-|Ht']; [right; exact Hv | left; exact Ht'].
      * eapply keep_temp; [exact Hrel | lia].
    + unfold aexpand. rewrite (Hl v) by (left; exact Hv).
      destruct (fd_rk d) as [|ka kr]; cbn [adenotes arel] in *.
      * eapply denotes_local; [left; reflexivity | apply sget_sset_same | rewrite get_cell_alloc_new; exact Hvr].
      * destruct Hvr as (d' & A & B & C & D). exists d'. split; [exact A | split; [exact B | split; [exact C|]]].
        eapply ldenotes_local; [left; reflexivity | apply sget_sset_same | rewrite get_cell_alloc_new; exact D].
  - destruct Hres as (ev & stLr & Hcall & Htr).
    exists (RErr ev stLr). split.
    + apply XS_stop; [|intros []]. apply Exec_local_err. apply EvalList_one. apply EvalMulti_call.
      eapply EvalCall_intro; [exact Hef | exact Hel | exact Hcall].
    + cbn [exit_ok]. exists ev, stLr. split; [reflexivity | exact Htr].
Qed.

(* function-valued expressions: the name of a function, a lambda, a call that returns a function.  The closure it
   evaluates to is a closure of a world that may have grown (a new closure); the steps are seen from the world at the
   start, the relation at the end also holds in the larger one *)
Definition P_farg (n : nat) : Prop :=
  forall g k x K ctx c code v c' e st r st' sc l E stL F,
    SyltSem.eval n e x st = (r, st') ->
    expression g x ctx c = Ok ((code, v), c') ->
    frag_fexpr pv sv bound fl k sc x = Some K ->
    ucovers u code -> 1 <= count_of u v -> ctx_ok l F E c c' ->
    rel sc e st E stL -> interesting r ->
    exists b l', cshape u l code b l' c c' /\ c <= v /\ v < c' /\
      match r with
      | SyltSem.RVal y =>
          exists W1 E' stL' F', wsub W W1 /\ okstep sc e st' F c c' E stL b E' stL' F' /\
                                 SimDefs.rel pv sv bound u fl W1 sc e st' E' stL' /\ adenotes W1 K F' E' stL' (aexpand l' v) y
      | _ => exit_post pv sv bound u fl W ctx sc e c c' E stL b r st'
      end.

(* IAssert c: assert(xc, "Assert failed!") *)
Lemma step_assert sc e st F E stL l t (b : bool) :
  rel sc e st E stL ->
  denotes F E stL (aexpand l t) (SV (Values.VBool b)) ->
  if b then exists stL', ExecS E (fst (agen_one u l (IAssert t))) stL (ROk (E, SigNormal) stL') /\
                         cells_ext stL stL' /\ rel sc e st E stL'
  else exists ev stL', ExecS E (fst (agen_one u l (IAssert t))) stL (RErr ev stL') /\ SyltSem.trace st = s_out stL'.
Proof.
  intros Hrel Hd.
  pose proof (r_wf _ _ _ _ _ _ _ _ _ _ _ Hrel) as Hwf. pose proof (r_linv _ _ _ _ _ _ _ _ _ _ _ Hrel) as Hli.
  cbn [agen_one fst].
  destruct (denotes_now _ _ _ _ _ Hd Hwf Hli) as (lv & Hv & st1 & Hev & _ & Hx1).
  inversion Hv; subst.
  assert (Hli1 : linv st1) by (eapply cells_ext_linv; eassumption).
  assert (Hargs : EvalList E [aexpand l t; EStr "Assert failed!"] stL (ROk [VBool b; VStr "Assert failed!"] st1)).
  { eapply EvalList_cons; [discriminate | exact Hev |]. apply EvalList_one. apply EvalMulti_single; [reflexivity | apply Eval_str]. }
  assert (Hg : Eval E (EVar "assert") stL (ROk (VBuiltin BAssert) stL)).
  { apply Eval_global; [eapply sget_not_V; [exact Hwf | apply not_fmt_var_assert] | apply (g_assert _ (li_genv _ Hli)) | reflexivity]. }
  destruct b.
  - exists st1. split; [|split; [exact Hx1 | eapply rel_cells_ext; eassumption]].
    apply ExecS_one. apply (Exec_call _ _ _ _ [VBool true; VStr "Assert failed!"]). eapply EvalCall_intro; [exact Hg | exact Hargs |].
    exact (Call_pure_builtin BAssert [VBool true; VStr "Assert failed!"] st1 I).
  - exists (VStr "Assert failed!"), st1. split.
    + apply ExecS_one. apply Exec_call_err. eapply EvalCall_intro; [exact Hg | exact Hargs |].
      exact (Call_pure_builtin BAssert [VBool false; VStr "Assert failed!"] st1 I).
    + rewrite (r_trace _ _ _ _ _ _ _ _ _ _ _ Hrel). symmetry. apply Hx1.
Qed.

(* IDefine t for a temporary (the result variable of and/or/if): `local V<t> = nil`; t is NOT frozen *)
Lemma step_define_temp sc e st F c c' E stL l t :
  rel sc e st E stL -> ctx_ok l F E c c' -> c <= t < c' -> 1 <= count_of u t ->
  exists E' stL' p,
    okstep sc e st F c c' E stL (fst (agen_one u l (IDefine t))) E' stL' F /\
    sget (fmt_var t) E' = Some p /\ get_cell stL' p = VNil /\ (forall lv, ~ w_P W p lv).
Proof.
  intros Hrel [Hb Hl HF HE] Ht Hu.
  pose proof (r_wf _ _ _ _ _ _ _ _ _ _ _ Hrel) as Hwf. pose proof (r_linv _ _ _ _ _ _ _ _ _ _ _ Hrel) as Hli.
  cbn [agen_one]. assert (Hused : (0 <? count_of u t) = true) by (apply N.ltb_lt; lia). rewrite Hused. cbn [fst].
  rewrite (aname_none l t) by (apply Hl; left; exact Ht).
  assert (Hex : Exec E (SLocal [fmt_var t] [ENil]) stL
                  (ROk (sset (fmt_var t) (s_ncell stL) E, SigNormal) (snd (alloc_cell stL VNil)))).
  { pose proof (Exec_local E [fmt_var t] [ENil] stL [VNil] stL
                  (EvalList_one _ _ _ _ (EvalMulti_single E ENil stL VNil stL eq_refl (Eval_nil E stL)))) as H.
    rewrite bind_locals_one in H. exact H. }
  exists (sset (fmt_var t) (s_ncell stL) E), (snd (alloc_cell stL VNil)), (s_ncell stL).
  split; [|split; [apply sget_sset_same | split; [apply get_cell_alloc_new|]]].
  2: { intros lv Hlv. destruct (r_fixed _ _ _ _ _ _ _ _ _ _ _ _ _ Hrel Hlv) as [_ Hlt]. lia. }
  split; [apply ExecS_one; exact Hex|]. split; [apply lframe_w; apply lframe_local; [exact Hwf | exact Hli | apply HE; exact Ht | exact Ht]|].
  split; [apply rel_local_temp; [exact Hrel | lia]|]. split; [apply F_new_refl|].
  eapply keep_temp; [exact Hrel | lia].
Qed.

(* IAssign t a for a temporary t that is a local: `V<t> = xa` *)
Lemma step_assign_temp sc e st F c c' E stL l t a p sv_ :
  rel sc e st E stL -> bound <= c -> c <= t < c' -> 1 <= count_of u t ->
  sget (fmt_var t) E = Some p -> (forall lv, ~ w_P W p lv) -> alut_get l t = None ->
  denotes F E stL (aexpand l a) sv_ ->
  exists stL' lv,
    okstep sc e st F c c' E stL (fst (agen_one u l (IAssign t a))) E stL' F /\
    get_cell stL' p = lv /\ vrel sv_ lv.
Proof.
  intros Hrel Hb Ht Hu Hp Hnp Hnone Hd.
  pose proof (r_wf _ _ _ _ _ _ _ _ _ _ _ Hrel) as Hwf. pose proof (r_linv _ _ _ _ _ _ _ _ _ _ _ Hrel) as Hli.
  cbn [agen_one]. assert (Hused : (0 <? count_of u t) = true) by (apply N.ltb_lt; lia). rewrite Hused. cbn [fst].
  unfold aexpand at 1. rewrite Hnone.
  destruct (denotes_now _ _ _ _ _ Hd Hwf Hli) as (lv & Hv & st1 & _ & Hm & Hx1).
  pose proof (Exec_assign_local E (fmt_var t) p (aexpand l a) stL [lv] st1 Hp (EvalList_one _ _ _ _ Hm)) as Hex.
  cbn [first] in Hex.
  assert (Hwf1 : wfenv E st1) by (eapply wfenv_ext; [exact Hwf | apply Hx1]).
  assert (Hli1 : linv st1) by (eapply cells_ext_linv; eassumption).
  exists (set_cell st1 p lv), lv. split; [|split; [apply get_cell_set_same | exact Hv]].
  split; [apply ExecS_one; exact Hex|]. split; [|split; [|split; [apply F_new_refl | apply keep_refl]]].
  - apply lframe_w. eapply lframe_trans; [apply lframe_cells_ext; eassumption | eapply lframe_set; eassumption].
  - apply (rel_set_temp pv sv bound u fl W sc e st E st1 t p lv); [eapply rel_cells_ext; eassumption | lia | exact Hp | exact Hnp].
Qed.

(* leaving a Lua block: the environment before the block, the state after it *)
Lemma rel_restrict sc e0 st0 e st E E' stL stL' :
  rel sc e0 st0 E stL -> rel sc e st E' stL' -> keep fl sc E E' ->
  (forall t p, bound <= t -> sget (fmt_var t) E = Some p -> sget (fmt_var t) E' = Some p) ->
  (s_ncell stL <= s_ncell stL')%positive ->
  rel sc e st E stL'.
Proof.
  intros H0 (Hfs & W1 & Hs1 & [Hb Hfb Hp Hpb HpE HpG Hwf Ht Hl HW]) Hk Htmp Hnc.
  split.
  { intros f ar Hin HK. destruct (Hfs f ar Hin HK) as (c & p & A & B & C). exists c, p. split; [exact A | split; [|exact C]].
    rewrite <- (Hk f); [exact B|]. right. unfold fnames. change f with (fst (f, ar)). apply in_map. exact Hin. }
  exists W1. split; [exact Hs1|]. constructor.
  - exact Hb.
  - exact Hfb.
  - exact Hp.
  - exact Hpb.
  - apply (r_pvE _ _ _ _ _ _ _ _ _ _ _ H0).
  - exact HpG.
  - eapply wfenv_ext; [apply (r_wf _ _ _ _ _ _ _ _ _ _ _ H0) | exact Hnc].
  - exact Ht.
  - exact Hl.
  - apply (winv_env pv sv bound u fl W1 sc e st E' stL' fl sc e E HW).
    + intros v Hv. destruct (wi_sc _ _ _ _ _ _ _ _ _ _ _ HW v Hv) as (c & p & A & B & C). exists c, p.
      split; [exact A | split; [|exact C]]. rewrite <- (Hk v (or_introl Hv)). exact B.
    + apply (wi_scfl _ _ _ _ _ _ _ _ _ _ _ HW).
    + intros t p Hbt Hq. apply (wi_temps _ _ _ _ _ _ _ _ _ _ _ HW t p Hbt). apply Htmp; assumption.
Qed.

Notation okstepS := (okstepS pv sv bound u fl W).
Notation sext := (sext pv fl).

Lemma sext_refl sc e : sext sc e e. Proof. intros v _. reflexivity. Qed.
Lemma sext_trans sc sc1 e e1 e2 : sext sc e e1 -> sext sc1 e1 e2 -> incl sc sc1 -> sext sc e e2.
Proof.
  intros H1 H2 Hi v Hv. rewrite H2; [apply H1; exact Hv|]. destruct Hv as [Hv|Hv]; [left; apply Hi; exact Hv | right; exact Hv].
Qed.

Lemma rel_shrink sc sc' e e' st0 E0 stL0 st E stL :
  rel sc e st0 E0 stL0 -> rel sc' e' st E stL -> incl sc sc' -> sext sc e e' -> rel sc e st E stL.
Proof.
  intros H0 (Hfs & W1 & Hs1 & [Hb Hfb Hp Hpb HpE HpG Hwf Ht Hl HW]) Hincl Hs.
  split.
  { intros f ar Hin HK. destruct (Hfs f ar Hin HK) as (c & p & A & B & C). exists c, p. split; [|split; [exact B | exact C]].
    rewrite <- (Hs f); [exact A|]. right. right. unfold fnames. change f with (fst (f, ar)). apply in_map. exact Hin. }
  exists W1. split; [exact Hs1|]. constructor.
  - apply (r_scb _ _ _ _ _ _ _ _ _ _ _ H0).
  - exact Hfb.
  - rewrite <- (Hs pv (or_intror (or_introl eq_refl))). exact Hp.
  - exact Hpb.
  - exact HpE.
  - exact HpG.
  - exact Hwf.
  - exact Ht.
  - exact Hl.
  - apply (winv_env pv sv bound u fl W1 sc' e' st E stL fl sc e E HW).
    + intros v Hv. destruct (wi_sc _ _ _ _ _ _ _ _ _ _ _ HW v (Hincl v Hv)) as (c & p & A & B & C). exists c, p.
      split; [rewrite <- (Hs v (or_introl Hv)); exact A | split; assumption].
    + intros v Hv. apply (wi_scfl _ _ _ _ _ _ _ _ _ _ _ HW v (Hincl v Hv)).
    + apply (wi_temps _ _ _ _ _ _ _ _ _ _ _ HW).
Qed.

(* an exit after a prefix that ran normally; the ranges of both parts lie in [lo, hi) *)
Lemma exit_pre_gen {A} ctx sc sc1 e e1 st st1 F F1 a b a2 b2 lo hi E stL b1 E1 stL1 bl2 (r : SyltSem.res A) st' :
  okstepS sc sc1 e1 st1 F a b E stL b1 E1 stL1 F1 -> rel sc e st E stL -> sext sc e e1 -> incl sc sc1 ->
  exit_post pv sv bound u fl W ctx sc1 e1 a2 b2 E1 stL1 bl2 r st' -> lo <= a -> b <= hi -> lo <= a2 -> b2 <= hi ->
  exit_post pv sv bound u fl W ctx sc e lo hi E stL (b1 ++ bl2) r st'.
Proof.
  intros (Hx1 & Hf1 & Hr1 & Hn1 & Hk1) Hrel Hse Hinc (rl & Hx2 & Hok) Hla Hbh Hla2 Hbh2.
  exists rl. split; [eapply ExecS_app; eassumption|].
  assert (Hback : forall stL', rel sc1 e1 st' E1 stL' -> xkeep bound a2 b2 E1 stL1 stL' ->
                    rel sc e st' E stL' /\ xkeep bound lo hi E stL stL').
  { intros stL' Hr [Hnc Hc]. split.
    - eapply (rel_restrict sc e st e st' E E1 stL stL'); [exact Hrel | eapply rel_shrink; [exact Hrel | eassumption | eassumption | eassumption] | exact Hk1 | apply (wr_incl _ _ _ _ _ _ _ Hf1) |].
      pose proof (wr_ncell _ _ _ _ _ _ _ Hf1). lia.
    - split; [pose proof (wr_ncell _ _ _ _ _ _ _ Hf1); lia|].
      intros t p Hbt Hr' Hp. rewrite (Hc t p Hbt); [| lia | apply (wr_incl _ _ _ _ _ _ _ Hf1); assumption].
      apply (wr_cells _ _ _ _ _ _ _ Hf1 t p Hbt); [lia | exact Hp]. }
  destruct r as [x|o|[| |v]]; cbn [exit_ok] in *; try contradiction; try exact Hok.
  - destruct Hok as (E' & stL' & -> & Hr & Hk). exists E', stL'. split; [reflexivity | apply Hback; assumption].
  - destruct Hok as (E' & stL' & -> & Hr & Hk). exists E', stL'. split; [reflexivity | apply Hback; assumption].
  - destruct Hok as (E' & stL' & lv & -> & Hv & Hr & Hk). exists E', stL', lv. split; [reflexivity | split; [exact Hv | apply Hback; assumption]].
Qed.

Lemma exit_pre {A} ctx sc sc1 e e1 st st1 F F1 c c0 c1 E stL b1 E1 stL1 b2 (r : SyltSem.res A) st' :
  okstepS sc sc1 e1 st1 F c c0 E stL b1 E1 stL1 F1 -> rel sc e st E stL -> sext sc e e1 -> incl sc sc1 ->
  exit_post pv sv bound u fl W ctx sc1 e1 c0 c1 E1 stL1 b2 r st' -> c <= c0 -> c0 <= c1 ->
  exit_post pv sv bound u fl W ctx sc e c c1 E stL (b1 ++ b2) r st'.
Proof. intros H1 H2 H3 H4 H5 Ha Hb. eapply exit_pre_gen; try eassumption; lia. Qed.

Lemma xkeep_cells_ext c c' E stL stc stL' :
  wfenv E stL -> cells_ext stL stc -> xkeep bound c c' E stc stL' -> xkeep bound c c' E stL stL'.
Proof.
  intros Hwf Hx [Hn Hc]. split; [destruct Hx as (_ & _ & _ & _ & _ & _ & Hl & _); lia|].
  intros t p Hbt Hr Hp. rewrite (Hc t p Hbt Hr Hp). apply Hx. eapply wf_alloc; eassumption.
Qed.

(* an exit inside the chosen branch of an if leaves the if the same way *)
Lemma exit_if {A} ctx sc e c c' E stL cnd t f vc stc (r : SyltSem.res A) st' :
  wfenv E stL -> Eval E cnd stL (ROk vc stc) -> cells_ext stL stc -> nolabel (if truthy vc then t else f) ->
  exit_post pv sv bound u fl W ctx sc e c c' E stc (if truthy vc then t else f) r st' ->
  exit_post pv sv bound u fl W ctx sc e c c' E stL [SIf cnd t f] r st'.
Proof.
  intros Hwf Hev Hx Hnl (rl & Hxs & Hok).
  pose proof (ExecBlock_of_ExecS_nil _ _ _ _ Hxs Hnl) as Hb.
  destruct r as [a|o|[| |v]]; cbn [exit_ok] in Hok; try contradiction.
  - destruct Hok as (ev & stL' & -> & Htr). exists (RErr ev stL'). split.
    + apply XS_stop; [eapply Exec_if_err; eassumption | intros []].
    + cbn [exit_ok]. eauto.
  - destruct Hok as (E' & stL' & -> & Hr & Hk). exists (ROk (E, SigBreak) stL'). split.
    + apply XS_stop; [eapply Exec_if; eassumption | intros []].
    + cbn [exit_ok]. exists E, stL'. split; [reflexivity | split; [exact Hr | eapply xkeep_cells_ext; eassumption]].
  - destruct Hok as (E' & stL' & -> & Hr & Hk). exists (ROk (E, SigGoto (fmt_label ctx)) stL'). split.
    + apply XS_stop; [eapply Exec_if; eassumption | intros []].
    + cbn [exit_ok]. exists E, stL'. split; [reflexivity | split; [exact Hr | eapply xkeep_cells_ext; eassumption]].
  - destruct Hok as (E' & stL' & lv & -> & Hv & Hr & Hk). exists (ROk (E, SigReturn [lv]) stL'). split.
    + apply XS_stop; [eapply Exec_if; eassumption | intros []].
    + cbn [exit_ok]. exists E, stL', lv. split; [reflexivity | split; [exact Hv | split; [exact Hr | eapply xkeep_cells_ext; eassumption]]].
Qed.

End Sim.

(* ------------------------------------------------------------------ leaving a statement list in which local
   functions were defined: back to the world, the callable functions and the scope before it *)
Section Leave.
Variable pv : N.
Variable sv : N.
Variable bound : N.
Variable u : counts.

Lemma rel_shrink_w fl W fl' W' sc sc' e e' st0 E0 stL0 st E stL :
  rel pv sv bound u fl W sc e st0 E0 stL0 -> rel pv sv bound u fl' W' sc' e' st E stL ->
  wsub W W' -> incl fl fl' -> incl sc sc' -> sext pv fl sc e e' ->
  rel pv sv bound u fl W sc e st E stL.
Proof.
  intros H0 (Hfs & W1 & Hs1 & [Hb Hfb Hp Hpb HpE HpG Hwf Ht Hl HW]) Hww Hfi Hincl Hs.
  destruct H0 as (Hfs0 & H0).
  assert (Hww1 : wsub W W1) by (eapply wsub_trans; eassumption).
  split.
  { intros f ar Hin HK. destruct (Hfs0 f ar Hin HK) as (c0 & p0 & A0 & _ & C0).
    destruct (Hfs f ar (Hfi _ Hin) HK) as (c & p & A & B & C).
    assert (Hc : c = c0).
    { rewrite (Hs f) in A; [congruence|]. right. right. unfold fnames. change f with (fst (f, ar)). apply in_map. exact Hin. }
    subst c.
    destruct Hww1 as (_ & HF & _). destruct Hs1 as (_ & HF1 & _).
    destruct (wi_Ffun _ _ _ _ _ _ _ _ _ _ _ HW c0 p ar p0 ar (HF1 _ _ _ C) (HF _ _ _ C0)) as [-> _].
    exists c0, p0. auto. }
  exists W1. split; [exact Hww1|]. constructor.
  - destruct H0 as (W0 & _ & H0). apply (r0_scb _ _ _ _ _ _ _ _ _ _ _ H0).
  - destruct H0 as (W0 & _ & H0). apply (r0_flb _ _ _ _ _ _ _ _ _ _ _ H0).
  - rewrite <- (Hs pv (or_intror (or_introl eq_refl))). exact Hp.
  - exact Hpb.
  - exact HpE.
  - exact HpG.
  - exact Hwf.
  - exact Ht.
  - exact Hl.
  - apply (winv_env pv sv bound u fl' W1 sc' e' st E stL fl sc e E HW).
    + intros v Hv. destruct (wi_sc _ _ _ _ _ _ _ _ _ _ _ HW v (Hincl v Hv)) as (c & p & A & B & C). exists c, p.
      split; [rewrite <- (Hs v (or_introl Hv)); exact A | split; assumption].
    + destruct H0 as (W0 & _ & H0). apply (wi_scfl _ _ _ _ _ _ _ _ _ _ _ (r0_world _ _ _ _ _ _ _ _ _ _ _ H0)).
    + apply (wi_temps _ _ _ _ _ _ _ _ _ _ _ HW).
Qed.

(* ... and to the Lua environment before it *)
Lemma rel_leave fl W fl' W' sc sc' e e' st0 st E E' stL0 stL :
  rel pv sv bound u fl W sc e st0 E stL0 -> rel pv sv bound u fl' W' sc' e' st E' stL ->
  wsub W W' -> incl fl fl' -> incl sc sc' -> sext pv fl sc e e' -> keep fl sc E E' ->
  (forall t p, bound <= t -> sget (fmt_var t) E = Some p -> sget (fmt_var t) E' = Some p) ->
  (s_ncell stL0 <= s_ncell stL)%positive ->
  rel pv sv bound u fl W sc e st E stL.
Proof.
  intros H0 H1 Hw Hfn Hi Hs Hk Htmp Hn.
  eapply (rel_restrict pv sv bound u fl W sc e st0 e st E E' stL0 stL); [exact H0 | | exact Hk | exact Htmp | exact Hn].
  eapply rel_shrink_w; eassumption.
Qed.

(* an exit after a prefix that ran normally and defined local functions; the ranges of both parts lie in [lo, hi) *)
Lemma exit_pre_w {A} fl W fl1 W1 ctx sc sc1 e e1 st a b a2 b2 lo hi E stL b1 E1 stL1 bl2 (r : SyltSem.res A) st' :
  ExecS E b1 stL (ROk (E1, SigNormal) stL1) -> wframe bound a b E stL E1 stL1 -> keep fl sc E E1 ->
  rel pv sv bound u fl W sc e st E stL -> wsub W W1 -> incl fl fl1 -> sext pv fl sc e e1 -> incl sc sc1 ->
  exit_post pv sv bound u fl1 W1 ctx sc1 e1 a2 b2 E1 stL1 bl2 r st' -> lo <= a -> b <= hi -> lo <= a2 -> b2 <= hi ->
  exit_post pv sv bound u fl W ctx sc e lo hi E stL (b1 ++ bl2) r st'.
Proof.
  intros Hx1 Hf1 Hk1 Hrel Hw Hfn Hse Hinc (rl & Hx2 & Hok) Hla Hbh Hla2 Hbh2.
  exists rl. split; [eapply ExecS_app; eassumption|].
  assert (Hback : forall stL', rel pv sv bound u fl1 W1 sc1 e1 st' E1 stL' -> xkeep bound a2 b2 E1 stL1 stL' ->
                    rel pv sv bound u fl W sc e st' E stL' /\ xkeep bound lo hi E stL stL').
  { intros stL' Hr [Hnc Hc]. pose proof (wr_ncell _ _ _ _ _ _ _ Hf1) as Hn1. split.
    - eapply (rel_leave fl W fl1 W1 sc sc1 e e1 st st' E E1 stL stL'); try eassumption; [apply (wr_incl _ _ _ _ _ _ _ Hf1) | lia].
    - split; [lia|].
      intros t p Hbt Hr' Hp. rewrite (Hc t p Hbt); [| lia | apply (wr_incl _ _ _ _ _ _ _ Hf1); assumption].
      apply (wr_cells _ _ _ _ _ _ _ Hf1 t p Hbt); [lia | exact Hp]. }
  destruct r as [x|o|[| |v]]; cbn [exit_ok] in *; try contradiction; try exact Hok.
  - destruct Hok as (E' & stL' & -> & Hr & Hk). exists E', stL'. split; [reflexivity | apply Hback; assumption].
  - destruct Hok as (E' & stL' & -> & Hr & Hk). exists E', stL'. split; [reflexivity | apply Hback; assumption].
  - destruct Hok as (E' & stL' & lv & -> & Hv & Hr & Hk). exists E', stL', lv. split; [reflexivity | split; [exact Hv | apply Hback; assumption]].
Qed.

End Leave.
