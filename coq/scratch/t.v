From Coq Require Import String List NArith ZArith Bool.
From Sylt Require Import Syntax.Resolved Back.IR Back.Scope.
Import ListNotations.
Local Open Scope N_scope.
Definition prog := [IExternal 0 "print"; IDefine 1; IInt 10 5; IAssign 1 10; IFunction 2 [6;7]; IDefine 12; ICopy 13 6; IInt 14 0; ILessEqual 15 13 14; IIf 15; ICopy 16 6; INeg 17 16; IReturn 17; IElse; IEnd; ICopy 18 6; IReturn 18; IEnd].
Eval vm_compute in first_unscoped [[]] prog 0.
Eval vm_compute in scope_run [[]] (firstn 15 prog).
Eval vm_compute in map (fun n => option_map (@length _) (scope_run [[]] (firstn n prog))) [5;9;10;13;14;15]%nat.
