-- expect: 2
-- expect: 2	1
-- expect: 1	2	3
-- expect: 11	12	21	31
-- expect: 1	3	6
-- expect: 2
-- expect: 1	5
-- expect: 11	22	33
-- expect: 3628800
-- expect: 1	2	3
-- expect: A	b
-- expect: 6	15
-- expect: 1	2	3
local function counter()
  local n = 0
  return function() n = n + 1; return n end, function() return n end
end
local inc, get = counter()
inc(); inc()
print(get())
local inc2, get2 = counter()
inc2()
print(get(), get2())
-- a fresh loop variable per iteration
local fs = {}
for i = 1, 3 do fs[i] = function() return i end end
print(fs[1](), fs[2](), fs[3]())
-- a fresh local per execution of `local`
local gs = {}
local j = 1
while j <= 3 do
  local k = j * 10
  gs[j] = function() k = k + 1; return k end
  j = j + 1
end
print(gs[1](), gs[1](), gs[2](), gs[3]())
-- one variable declared outside the loop is shared
local hs = {}
local shared = 0
for i = 1, 3 do hs[i] = function() shared = shared + i; return shared end end
print(hs[1](), hs[2](), hs[3]())
-- closures see later assignments (capture by reference)
local x = 1
local function getx() return x end
x = 2
print(getx())
-- a second `local y` is a different variable
local y = 1
local function gety() return y end
local y = 5
print(gety(), y)
-- generic for: fresh variables per iteration
local ks = {}
for k, v in pairs({10, 20, 30}) do ks[k] = function() return k + v end end
print(ks[1](), ks[2](), ks[3]())
local function fact(n) if n <= 1 then return 1 end return n * fact(n - 1) end
print(fact(10))
-- upvalue of an upvalue
local function outer()
  local a = 0
  return function()
    return function() a = a + 1; return a end
  end
end
local mk = outer()
local f1, f2 = mk(), mk()
print(f1(), f2(), f1())
-- two activations do not interfere
local function make(v) return function() return v end, function(nv) v = nv end end
local ga, sa = make("a")
local gb, sb = make("b")
sa("A")
print(ga(), gb())
-- parameters are captured per call
local function adder(n) return function(m) return n + m end end
local add1, add10 = adder(1), adder(10)
print(add1(5), add10(5))
-- repeat-until body locals are fresh each time
local rs = {}
local c = 0
repeat
  c = c + 1
  local mine = c
  rs[c] = function() return mine end
until c == 3
print(rs[1](), rs[2](), rs[3]())
