(* C08 -- Type annotations are optional and never change the generated code.
   Only pinned statements, `exact`, Examples by vm_compute, and Print Assumptions. *)
From Coq Require Import String List NArith ZArith PArith Bool.
From Coq Require Import FMapPositive.
From Sylt Require Import Syntax.Resolved Types.TyGraph Types.Tc Types.TcInv Back.IR Back.Emit Types.Erasure
  Types.SoundE0 Types.SoundE1 Types.Complete1 Types.CompleteE1 Types.EraseAccept.
Import ListNotations.
Local Open Scope string_scope.

(* The type checker is only a judge: the lowering receives exactly the statements the checker was given. *)
Theorem C08_checker_does_not_rewrite : forall {L} (lower : resolved -> L) fuel r lua,
  compile_after_order lower fuel r = COk lua -> lua = lower r.
Proof. intros L. exact (@Erasure.checker_does_not_rewrite L). Qed.

(* The lowering to IR and the emitted Lua text do not depend on any type annotation: programs that are
   equal once every `ty` component is replaced by one fixed type give the same output. *)
Theorem C08_lower_ignores_annotations : forall fuel r, IR.lower fuel (strip r) = IR.lower fuel r.
Proof. exact Erasure.lower_ignores_annotations. Qed.

Theorem C08_backend_ignores_annotations : forall fuel req r1 r2,
  same_modulo_annotations r1 r2 -> Emit.backend fuel req r1 = Emit.backend fuel req r2.
Proof. exact Erasure.backend_ignores_annotations. Qed.

(* C08_bytes: two variants that differ only in annotations, both accepted: byte-identical Lua *)
Theorem C08_bytes : forall fuel_tc fuel req r1 r2 out1 out2,
  same_modulo_annotations r1 r2 ->
  compile_after_order (Emit.backend fuel req) fuel_tc r1 = COk out1 ->
  compile_after_order (Emit.backend fuel req) fuel_tc r2 = COk out2 ->
  out1 = out2.
Proof. exact Erasure.C08_bytes. Qed.

(* every erasure of (any subset of) ground annotations on variable definitions, parameters and return types is
   such a variant *)
Theorem C08_erase_same_modulo : forall sel r, same_modulo_annotations (erase sel r) r.
Proof. exact Erasure.erase_same_modulo. Qed.

Theorem C08_bytes_erase : forall sel fuel_tc fuel req r out1 out2,
  compile_after_order (Emit.backend fuel req) fuel_tc r = COk out1 ->
  compile_after_order (Emit.backend fuel req) fuel_tc (erase sel r) = COk out2 ->
  out1 = out2.
Proof. exact Erasure.C08_bytes_erase. Qed.

(* Acceptance: erasing ground annotations keeps a program accepted.  For whole programs this is STATED ONLY (not
   proved) and evaluated by the oracle of the check on the real compiler; for non-ground annotations it is false (known
   finding C08-call-through-unknown-field).  PROVED for the bodies of the E1 fragment: C08_accept_erase_E1 below. *)
Definition C08_accept_ground_statement : Prop := Erasure.C08_accept_ground_statement.

(* ---- "annotations are optional", proved for blocks of the E1 fragment (Types/SoundE1.v): local definitions `x := e`,
   `x :: e`, `x: t = e`, `x: t : e` with t one of int float str bool, assignments `x = e`, expression statements, and
   for e: literals, reads, + - * < > <= >= == != <=> and or, unary - and not, if-else expressions (no division).

   If the checker accepts such a block -- as `fn expression_block` is called on the body of a function: any TypeCtx, any
   fuel, any well-formed state in which the variables the block defines are still as TypeChecker::new made them
   (`fresh`; each definition has its own variable, NoDup, as the resolver guarantees) -- then it also accepts the block
   in which the annotations of ANY subset of the definitions (sel, by position) are erased, from the same state, with
   the fuel given below; both values have the same base type.
   The proof: accepted => typed (C02_E1's accepted_block1) => the erased block is typed (the annotation is only an extra
   check) => accepted (completeness of the checker on typed blocks of the fragment: C08_typed_accepted_E1).  The checks
   that do not look at types (kinds of variables, purity) are the same for both blocks and are read off the accepted run.

   What stays oracle-only (C08_accept_ground_statement in general): the rest of the program after such a body (the two
   runs leave states that differ in the `ty` field of absorbed nodes); annotations of parameters and return types
   (inference from call sites); tuple, list, blob and function annotations; loops, calls, nested blocks, `ret`. *)
Theorem C08_accept_erase_E1 : forall kinds g0 f0 ctx sp ss e sel s r ov s',
  frag_stmts1 [] ss e = true -> NoDup (defs ss) -> wf s -> (forall x, In x (defs ss) -> fresh s x) ->
  expression_block (gfix g0) (afix kinds (gfix g0) f0) sp (to_block1 sp ss e) ctx s = TyGraph.Ok ((r, ov), s') ->
  forall g f, (max_depth ss e < S f)%nat ->
    exists t c v s'',
      ov = Some c /\ head s' c = Some (bty_head t) /\
      expression_block (gfix (S (S (S (S g))))) (afix kinds (gfix (S (S (S (S g))))) (S (S f))) sp
                       (to_block1 sp (erase1 sel 0 ss) e) ctx s = TyGraph.Ok ((None, Some v), s'') /\
      wf s'' /\ head s'' v = Some (bty_head t).
Proof. exact EraseAccept.accept_erase_E1. Qed.

(* the same for a block checked under an environment E0 -- the body of a function whose parameters have base types: E0
   gives their types; in the state their classes are good (Complete1.good: a base head, every stored constraint
   satisfied), have these types, and they are no type names (env_good) *)
Theorem C08_accept_erase_E1_env : forall kinds g0 f0 ctx sp E0 ss e sel s r ov s',
  frag_stmts1 (map fst E0) ss e = true -> NoDup (defs ss) -> wf s -> env_good E0 s -> (forall x, In x (defs ss) -> fresh s x) ->
  expression_block (gfix g0) (afix kinds (gfix g0) f0) sp (to_block1 sp ss e) ctx s = TyGraph.Ok ((r, ov), s') ->
  forall g f, (max_depth ss e < S f)%nat ->
    exists t c v s'',
      ov = Some c /\ head s' c = Some (bty_head t) /\
      expression_block (gfix (S (S (S (S g))))) (afix kinds (gfix (S (S (S (S g))))) (S (S f))) sp
                       (to_block1 sp (erase1 sel 0 ss) e) ctx s = TyGraph.Ok ((None, Some v), s'') /\
      wf s'' /\ head s'' v = Some (bty_head t).
Proof. exact EraseAccept.accept_erase_E1_env. Qed.

Example C08_env_good_def : forall E s,
  env_good E s = (forall x t, tlookup E x = Some t ->
                    (good s (N.succ_pos x) /\ head s (N.succ_pos x) = Some (bty_head t)) /\ existsb (N.eqb x) (tnames s) = false).
Proof. reflexivity. Qed.
Example C08_good_def : forall s i,
  good s i = (exists r n, root s i r n /\ okhead (nty n) = true /\ forall c, In c (ncons n) -> cok s i c).
Proof. reflexivity. Qed.

(* the other direction of "optional": an accepted block stays accepted when the inferred type of the value is written as
   the annotation of any subset of its definitions (annotate1; an annotation already there is replaced by it) *)
Theorem C08_accept_annotate_E1 : forall kinds g0 f0 ctx sp ss e sel s r ov s',
  frag_stmts1 [] ss e = true -> NoDup (defs ss) -> wf s -> (forall x, In x (defs ss) -> fresh s x) ->
  expression_block (gfix g0) (afix kinds (gfix g0) f0) sp (to_block1 sp ss e) ctx s = TyGraph.Ok ((r, ov), s') ->
  forall g f, (max_depth ss e < S f)%nat ->
    exists t c v s'',
      ov = Some c /\ head s' c = Some (bty_head t) /\
      expression_block (gfix (S (S (S (S g))))) (afix kinds (gfix (S (S (S (S g))))) (S (S f))) sp
                       (to_block1 sp (annotate1 sel 0 [] ss) e) ctx s = TyGraph.Ok ((None, Some v), s'') /\
      wf s'' /\ head s'' v = Some (bty_head t).
Proof. exact EraseAccept.accept_annotate_E1. Qed.

Example C08_annotate1_def : forall sel i E x k annot e q,
  annotate1 sel i E (D1 x k annot e :: q) =
  D1 x k (if sel i then (match ty1 E e with Some t => Some t | None => annot end) else annot) e ::
  annotate1 sel (S i) (match ty_stmt1 E (D1 x k annot e) with Some E1 => E1 | None => E end) q.
Proof. reflexivity. Qed.

(* completeness of the checker on the fragment: a typed block (SoundE1.ty_block1: simple types with an environment)
   that passes the checks on kinds and purity is accepted, from every state in which its variables are fresh *)
Theorem C08_typed_accepted_E1 : forall kinds g f ctx sp ss e t s,
  ty_block1 [] ss e = Some t -> side_block kinds ctx ss e = true -> NoDup (defs ss) ->
  (max_depth ss e < S f)%nat -> wf s -> (forall x, In x (defs ss) -> fresh s x) ->
  exists v s', expression_block (gfix (S (S (S (S g))))) (afix kinds (gfix (S (S (S (S g))))) (S (S f))) sp
                 (to_block1 sp ss e) ctx s = TyGraph.Ok ((None, Some v), s') /\ wf s' /\ head s' v = Some (bty_head t).
Proof. exact EraseAccept.typed_accepted_E1. Qed.

(* the erasure of C08_bytes_erase (Erasure.erase_s: by the span of the annotation), on a block of the fragment, is
   erase1; and when checking starts every variable is fresh *)
Theorem C08_erase_block : forall sel sp ss e,
  map (erase_s sel) (to_block1 sp ss e) = to_block1 sp (erase1 (fun _ => sel sp) 0 ss) e.
Proof. exact EraseAccept.erase_s_block. Qed.

Theorem C08_fresh_after_init : forall n x s',
  init_vars n empty_st = TyGraph.Ok (tt, s') -> (N.to_nat x < n)%nat -> fresh s' x.
Proof. exact EraseAccept.fresh_after_init. Qed.

(* the definitions the statements rest on, pinned *)
Example C08_erase1_def : forall sel i x k annot e q,
  erase1 sel i (D1 x k annot e :: q) = D1 x k (if sel i then None else annot) e :: erase1 sel (S i) q.
Proof. reflexivity. Qed.
Example C08_erase1_other : forall sel i x e q,
  erase1 sel i (A1 x e :: q) = A1 x e :: erase1 sel (S i) q /\ erase1 sel i (X1 e :: q) = X1 e :: erase1 sel (S i) q.
Proof. split; reflexivity. Qed.
Example C08_fresh_def : forall s x,
  fresh s x = (exists n, lk s (N.succ_pos x) = Some n /\ nrep n = N.succ_pos x /\ nty n = HUnknown /\ ncons n = [] /\
                         existsb (N.eqb x) (tnames s) = false).
Proof. reflexivity. Qed.
Example C08_defs_def : forall ss, defs ss = flat_map (fun st => match st with D1 x _ _ _ => [x] | _ => [] end) ss.
Proof. reflexivity. Qed.

(* ---- non-vacuity: start :: fn do x: int = 1 + 2 end, and the same with `x := 1 + 2` *)
Definition sp0 : span := mkSpan 0 1 1 1 2.
Definition spl (l : N) : span := mkSpan 0 l l 1 2.
Definition annotated : resolved :=
  mkResolved [mkVar 0 "start" sp0 true Const; mkVar 1 "x" (spl 2) false Mutable]
             [SDefinition "start" 0 Const (TImplied sp0)
                (EFunction "lambda" [] (TResolved BVoid sp0)
                   [SDefinition "x" 1 Mutable (TResolved BInt (spl 2))
                      (EBinOp Add (EInt 1 (spl 2)) (EInt 2 (spl 2)) (spl 2)) (spl 2)] false sp0) sp0].

Example C08_example_erased_differs : erase (fun _ => true) annotated <> annotated.
Proof. vm_compute. discriminate. Qed.

Example C08_example_both_accepted :
  typecheck 40 annotated = TyGraph.Ok tt /\ typecheck 40 (erase (fun _ => true) annotated) = TyGraph.Ok tt.
Proof. split; vm_compute; reflexivity. Qed.

Example C08_example_same_bytes :
  exists out, compile_after_order (Emit.backend 100 None) 40 annotated = COk out /\
              compile_after_order (Emit.backend 100 None) 40 (erase (fun _ => true) annotated) = COk out /\
              String.length (match out with IR.Ok s => s | _ => "" end) <> 0.
Proof. eexists. split; [vm_compute; reflexivity|]. split; [vm_compute; reflexivity|]. vm_compute. discriminate. Qed.


(* ---- non-vacuity of C08_accept_erase_E1:  x: int = 1 ; y: float : 2.5 ; x = x + 2 ; if x < 3 do y else y * y end *)
Definition blkE : list s1 :=
  [D1 1 Mutable (Some TI) (I1 1); D1 2 Const (Some TF) (F1 "2.5"); A1 1 (Bin1 Add (R1 1) (I1 2))].
Definition resE : e1 := If1 (Bin1 Less (R1 1) (I1 3)) (R1 2) (Bin1 Mul (R1 2) (R1 2)).
Definition kindsE : PositiveMap.t varkind :=
  PositiveMap.add (N.succ_pos 1) Mutable (PositiveMap.add (N.succ_pos 2) Const (PositiveMap.empty varkind)).
Definition run_block (ss : list s1) :=
  (init_vars 3 ;;; expression_block (gfix 5) (afix kindsE (gfix 5) 5) sp0 (to_block1 sp0 ss resE) ctx_new)%tc empty_st.
Example C08_example_E1_hypotheses : frag_stmts1 [] blkE resE = true /\ NoDup (defs blkE) /\ (max_depth blkE resE < 4)%nat.
Proof. split; [reflexivity|]. split; [repeat constructor; cbn; intuition discriminate|cbn; repeat constructor]. Qed.
Example C08_example_E1_accepted : match run_block blkE with TyGraph.Ok _ => true | _ => false end = true.
Proof. vm_compute. reflexivity. Qed.
Example C08_example_E1_erased_differ :
  erase1 (fun i => Nat.eqb i 0) 0 blkE <> blkE /\ erase1 (fun i => Nat.eqb i 1) 0 blkE <> blkE /\ erase1 (fun _ => true) 0 blkE <> blkE.
Proof. repeat split; vm_compute; discriminate. Qed.
Example C08_example_E1_erased_accepted :
  match run_block (erase1 (fun i => Nat.eqb i 0) 0 blkE), run_block (erase1 (fun i => Nat.eqb i 1) 0 blkE),
        run_block (erase1 (fun _ => true) 0 blkE) with
  | TyGraph.Ok _, TyGraph.Ok _, TyGraph.Ok _ => true | _, _, _ => false end = true.
Proof. vm_compute. reflexivity. Qed.
Example C08_example_E1_annotated :
  annotate1 (fun _ => true) 0 [] [D1 1 Mutable None (I1 1); D1 2 Const None (Bin1 Add (R1 1) (I1 2))]
  = [D1 1 Mutable (Some TI) (I1 1); D1 2 Const (Some TI) (Bin1 Add (R1 1) (I1 2))].
Proof. reflexivity. Qed.
(* an annotation that is wrong is a type error; erased, the block is accepted: the annotation is only a check *)
Example C08_example_E1_wrong_annotation :
  match run_block [D1 1 Mutable (Some TS) (I1 1); D1 2 Const None (F1 "2.5")],
        run_block (erase1 (fun _ => true) 0 [D1 1 Mutable (Some TS) (I1 1); D1 2 Const None (F1 "2.5")]) with
  | TyGraph.Err e _, TyGraph.Ok _ => e_kind e | _, _ => KExotic end = KMismatch.
Proof. vm_compute. reflexivity. Qed.

Print Assumptions C08_checker_does_not_rewrite.
Print Assumptions C08_accept_erase_E1.
Print Assumptions C08_typed_accepted_E1.
Print Assumptions C08_accept_erase_E1_env.
Print Assumptions C08_accept_annotate_E1.
Print Assumptions C08_erase_block.
Print Assumptions C08_fresh_after_init.
Print Assumptions C08_lower_ignores_annotations.
Print Assumptions C08_backend_ignores_annotations.
Print Assumptions C08_bytes.
Print Assumptions C08_erase_same_modulo.
Print Assumptions C08_bytes_erase.

(* ---- source tie: the hand-written model behind these theorems mirrors the files below; the digests of their
   functions regenerated from /repo on this run equal the reviewed ones (coq/Doc/DocSrcDigest.v).  Any edit of
   such a function breaks this obligation: the differential tie and the oracle then decide (tools/check.py). *)
From Sylt Require Doc.SrcDigest Doc.DocSrcDigest Gen.GenSrcDigest.
Theorem C08_model_sources_reviewed :
  Sylt.Doc.SrcDigest.sources_reviewed ["sylt-compiler/src/typechecker.rs"%string; "sylt-compiler/src/ty.rs"%string; "sylt-compiler/src/intermediate.rs"%string; "sylt-compiler/src/lua.rs"%string]
    Sylt.Doc.DocSrcDigest.doc_src_digests Sylt.Gen.GenSrcDigest.src_digests = true.
Proof. vm_compute. reflexivity. Qed.
Print Assumptions C08_model_sources_reviewed.

(* ---------------------------------------------------------------------------------------------------------------
   C08 at the RESOLVER (resolver agent; Resolve/AnnErase.v, AnnEraseProofs.v, AnnEraseLua.v; the resolver model's
   source tie is pinned in Props/C09.v).  The theorems above start from resolved programs that are equal modulo
   annotations; these show that name resolution itself produces such programs.

   erase_ann hd hp hr rewrites, on the parser's AST the resolver consumes, the annotation of every definition
   (`x: T = e`, `x: T : e`) by hd, of every parameter of a function literal by hp, and every return type of a function
   literal by hr; `implied` forgets the annotation, the identity keeps it, so every choice of which KINDS of annotations
   to erase is an instance.  Blob / enum declarations, externals and blob instantiations are left alone.

   C08_resolve_erase_ann   if the resolver accepts the program with result r, it accepts the program with the annotations
                      rewritten (by any hd hp hr under which a type that resolves still resolves) with a result r' such that
                      same_modulo_annotations r r': the same variable table (same numbering), and the same statements once
                      every type component is replaced by one fixed type -- same scoping, same everything else.
                      For every setting of the regenerated flags.  (The converse is false: an annotation may name an unknown
                      type, so the annotated program can be rejected while the erased one is accepted.)
   C08_resolver_then_bytes  resolve annotated = Ok r1 -> resolve erased = Ok r2 -> both accepted by the type checker
                      (compile_after_order .. = COk) -> the same bytes.
   C08_seed_example   the program of the round-5 seed (global `step`, local `step: fn int -> int : twice(step)` against
                      `step :: twice(step)`): with and without the annotation the inner `step` is the GLOBAL one.
   Not covered here: the dependency order between resolution and type checking (`statement_dependencies` adds the type
   names of an annotation to the dependencies of a definition; they only name blob / enum statements, which
   types_first moves to the front anyway -- not proved), and the parser. *)
From Sylt Require Resolve.PAst Resolve.Resolver Resolve.AnnErase Resolve.AnnEraseProofs Resolve.AnnEraseLua.

Theorem C08_resolve_erase_ann : forall hd hp hr : Sylt.Resolve.PAst.pty -> Sylt.Resolve.PAst.pty,
  (forall st t t', Sylt.Resolve.Resolver.ty_r st t = Sylt.Resolve.Resolver.Ok t' ->
                   exists t'', Sylt.Resolve.Resolver.ty_r st (hd t) = Sylt.Resolve.Resolver.Ok t'') ->
  (forall st t t', Sylt.Resolve.Resolver.ty_r st t = Sylt.Resolve.Resolver.Ok t' ->
                   exists t'', Sylt.Resolve.Resolver.ty_r st (hp t) = Sylt.Resolve.Resolver.Ok t'') ->
  (forall st t t', Sylt.Resolve.Resolver.ty_r st t = Sylt.Resolve.Resolver.Ok t' ->
                   exists t'', Sylt.Resolve.Resolver.ty_r st (hr t) = Sylt.Resolve.Resolver.Ok t'') ->
  forall fl ast r,
  Sylt.Resolve.Resolver.resolve fl ast = Sylt.Resolve.Resolver.Ok r ->
  exists r', Sylt.Resolve.Resolver.resolve fl (Sylt.Resolve.AnnErase.erase_ann hd hp hr ast) = Sylt.Resolve.Resolver.Ok r'
             /\ same_modulo_annotations r r'.
Proof. exact Sylt.Resolve.AnnEraseProofs.resolve_erase_ann. Qed.

Theorem C08_resolve_erase_all : forall fl ast r,
  Sylt.Resolve.Resolver.resolve fl ast = Sylt.Resolve.Resolver.Ok r ->
  exists r', Sylt.Resolve.Resolver.resolve fl (Sylt.Resolve.AnnErase.erase_all_annotations ast) = Sylt.Resolve.Resolver.Ok r'
             /\ same_modulo_annotations r r'.
Proof. exact Sylt.Resolve.AnnEraseProofs.resolve_erase_all. Qed.

Theorem C08_resolver_then_bytes : forall fl fuel_tc fuel req ast r1 r2 out1 out2,
  Sylt.Resolve.Resolver.resolve fl ast = Sylt.Resolve.Resolver.Ok r1 ->
  Sylt.Resolve.Resolver.resolve fl (Sylt.Resolve.AnnErase.erase_all_annotations ast) = Sylt.Resolve.Resolver.Ok r2 ->
  compile_after_order (Emit.backend fuel req) fuel_tc r1 = COk out1 ->
  compile_after_order (Emit.backend fuel req) fuel_tc r2 = COk out2 ->
  out1 = out2.
Proof. exact Sylt.Resolve.AnnEraseLua.resolver_then_bytes_all. Qed.

(* the same for any choice of the kinds of annotations to erase *)
Theorem C08_resolver_then_bytes_kinds : forall fl (hd hp hr : Sylt.Resolve.PAst.pty -> Sylt.Resolve.PAst.pty)
    fuel_tc fuel req ast r1 r2 out1 out2,
  (forall st t t', Sylt.Resolve.Resolver.ty_r st t = Sylt.Resolve.Resolver.Ok t' ->
                   exists t'', Sylt.Resolve.Resolver.ty_r st (hd t) = Sylt.Resolve.Resolver.Ok t'') ->
  (forall st t t', Sylt.Resolve.Resolver.ty_r st t = Sylt.Resolve.Resolver.Ok t' ->
                   exists t'', Sylt.Resolve.Resolver.ty_r st (hp t) = Sylt.Resolve.Resolver.Ok t'') ->
  (forall st t t', Sylt.Resolve.Resolver.ty_r st t = Sylt.Resolve.Resolver.Ok t' ->
                   exists t'', Sylt.Resolve.Resolver.ty_r st (hr t) = Sylt.Resolve.Resolver.Ok t'') ->
  Sylt.Resolve.Resolver.resolve fl ast = Sylt.Resolve.Resolver.Ok r1 ->
  Sylt.Resolve.Resolver.resolve fl (Sylt.Resolve.AnnErase.erase_ann hd hp hr ast) = Sylt.Resolve.Resolver.Ok r2 ->
  compile_after_order (Emit.backend fuel req) fuel_tc r1 = COk out1 ->
  compile_after_order (Emit.backend fuel req) fuel_tc r2 = COk out2 ->
  out1 = out2.
Proof. exact Sylt.Resolve.AnnEraseLua.resolver_then_bytes. Qed.

Theorem C08_seed_example : forall fl,
  Sylt.Resolve.AnnErase.erase_ann Sylt.Resolve.AnnErase.implied (fun t => t) (fun t => t) Sylt.Resolve.AnnEraseLua.seed_annotated
  = Sylt.Resolve.AnnEraseLua.seed_plain
  /\ exists r1 r2 g l,
       Sylt.Resolve.Resolver.resolve fl Sylt.Resolve.AnnEraseLua.seed_annotated = Sylt.Resolve.Resolver.Ok r1
       /\ Sylt.Resolve.Resolver.resolve fl Sylt.Resolve.AnnEraseLua.seed_plain = Sylt.Resolve.Resolver.Ok r2
       /\ Sylt.Resolve.AnnEraseLua.inner_step r1 = Some (g, l) /\ Sylt.Resolve.AnnEraseLua.inner_step r2 = Some (g, l)
       /\ g <> l
       /\ Sylt.Resolve.AnnEraseLua.var_is_global_step r1 g = true /\ Sylt.Resolve.AnnEraseLua.var_is_global_step r2 g = true
       /\ r1 <> r2 /\ same_modulo_annotations r1 r2.
Proof. exact Sylt.Resolve.AnnEraseLua.seed_example. Qed.

Print Assumptions C08_resolve_erase_ann.
Print Assumptions C08_resolve_erase_all.
Print Assumptions C08_resolver_then_bytes.
Print Assumptions C08_resolver_then_bytes_kinds.
Print Assumptions C08_seed_example.

(* ---- the dependency order between name resolution and the type checker (Dep/LeafPrune.v, Dep/AnnOrder.v) ----
   compile_after_order is "type-check, then lower what was given"; the ordering step of compiler.rs (initialization_order +
   the types-first sort = Dep/Topo.v init_order, the model C11 ties to the real order) runs before it and was not part
   of the theorems above.  An annotation adds the type names it mentions to the dependencies of a definition; blob / enum
   statements have no dependencies themselves, so they are leaves of the DFS:
   C08_order_leaf_prune   removing from every dependency list the keys of payloads with no dependencies of their own (`tp`)
                      changes neither the verdict of `order` nor the subsequence of the other payloads in its result.
   C08_order_verdict_erase   for resolved r1 r2 with same_modulo_annotations r1 r2: the non-type statements of
                      initialization_order come out in the same order (equal modulo annotations), and a dependency cycle in
                      one is the same cycle in the other.
   C08_lower_ignores_type_stmts   the lowering emits nothing for blob / enum statements, wherever they stand.
   C08_order_then_backend_erase   if init_order succeeds on r1 it succeeds on r2, and the backend text of the two ordered
                      (types first) lists is the same.
   C08_resolver_order_backend   from source: resolve ast = Ok r1 -> resolve (erase_all_annotations ast) = Ok r2 -> init_order r1 =
                      OOk l1 -> init_order r2 = OOk l2 with the same backend text.
   Hypothesis ann_deps_ok (computable; evaluated on every real resolved program of the C11 tie): for every statement, the
   dependencies that are not type declarations are those of the statement without its annotations -- i.e. annotations
   name types only.  The RESOLVER does not enforce that: `Foo :: 1   x: Foo = 2` resolves (the type checker rejects it:
   "Only enums and blobs can take type-arguments"), and `x: Later = 2   Later :: fn -> int do ret x end` is rejected with
   "Dependency cycle" where the un-annotated program compiles -- both variants with such an annotation are rejected, so no
   accepted program is affected.  The type checker's acceptance of the erased program is not part of this (the C08_accept theorems). *)
From Sylt Require Dep.Topo Dep.LeafPrune Dep.AnnOrder.

Theorem C08_order_leaf_prune : forall {A : Type} (tp : A -> bool) (key_of : A -> N) (t : Sylt.Dep.Topo.table A),
  (forall k deps a, Sylt.Dep.Topo.tbl_get t k = Some (deps, a) -> key_of a = k) ->
  (forall k deps a, Sylt.Dep.Topo.tbl_get t k = Some (deps, a) -> tp a = true -> deps = []) ->
  Sylt.Dep.LeafPrune.ofilter tp (Sylt.Dep.Topo.order (Sylt.Dep.LeafPrune.prune tp t))
  = Sylt.Dep.LeafPrune.ofilter tp (Sylt.Dep.Topo.order t).
Proof. intros A. exact (@Sylt.Dep.LeafPrune.order_prune A). Qed.

Theorem C08_order_verdict_erase : forall tgt r1 r2,
  same_modulo_annotations r1 r2 ->
  Sylt.Dep.AnnOrder.ann_deps_ok tgt (r_stmts r1) = true -> Sylt.Dep.AnnOrder.ann_deps_ok tgt (r_stmts r2) = true ->
  Sylt.Dep.AnnOrder.onf (Sylt.Dep.Topo.initialization_order tgt (r_stmts r1))
  = Sylt.Dep.AnnOrder.onf (Sylt.Dep.Topo.initialization_order tgt (r_stmts r2)).
Proof. exact Sylt.Dep.AnnOrder.order_verdict_erase. Qed.

Theorem C08_lower_ignores_type_stmts : forall fuel vars l,
  IR.lower fuel (mkResolved vars (filter Sylt.Dep.AnnOrder.ntype l)) = IR.lower fuel (mkResolved vars l).
Proof. exact Sylt.Dep.AnnOrder.lower_ignores_type_stmts. Qed.

Theorem C08_order_then_backend_erase : forall tgt fuel req r1 r2 l1,
  same_modulo_annotations r1 r2 ->
  Sylt.Dep.AnnOrder.ann_deps_ok tgt (r_stmts r1) = true -> Sylt.Dep.AnnOrder.ann_deps_ok tgt (r_stmts r2) = true ->
  Sylt.Dep.Topo.init_order tgt (r_stmts r1) = Sylt.Dep.Topo.OOk l1 ->
  exists l2, Sylt.Dep.Topo.init_order tgt (r_stmts r2) = Sylt.Dep.Topo.OOk l2
    /\ Emit.backend fuel req (mkResolved (r_vars r1) l1) = Emit.backend fuel req (mkResolved (r_vars r2) l2).
Proof. exact Sylt.Dep.AnnOrder.order_then_backend_erase_ok. Qed.

Theorem C08_resolver_order_backend : forall fl tgt fuel req ast r1 r2 l1,
  Sylt.Resolve.Resolver.resolve fl ast = Sylt.Resolve.Resolver.Ok r1 ->
  Sylt.Resolve.Resolver.resolve fl (Sylt.Resolve.AnnErase.erase_all_annotations ast) = Sylt.Resolve.Resolver.Ok r2 ->
  Sylt.Dep.AnnOrder.ann_deps_ok tgt (r_stmts r1) = true -> Sylt.Dep.AnnOrder.ann_deps_ok tgt (r_stmts r2) = true ->
  Sylt.Dep.Topo.init_order tgt (r_stmts r1) = Sylt.Dep.Topo.OOk l1 ->
  exists l2, Sylt.Dep.Topo.init_order tgt (r_stmts r2) = Sylt.Dep.Topo.OOk l2
    /\ Emit.backend fuel req (mkResolved (r_vars r1) l1) = Emit.backend fuel req (mkResolved (r_vars r2) l2).
Proof. exact Sylt.Resolve.AnnEraseLua.resolver_order_backend_erase. Qed.

Theorem C08_seed_order_example :
  exists r1 r2 l1 l2,
    Sylt.Resolve.Resolver.resolve (Sylt.Resolve.Resolver.mkFlags true true true false false) Sylt.Resolve.AnnEraseLua.seed_annotated
    = Sylt.Resolve.Resolver.Ok r1
    /\ Sylt.Resolve.Resolver.resolve (Sylt.Resolve.Resolver.mkFlags true true true false false) Sylt.Resolve.AnnEraseLua.seed_plain
       = Sylt.Resolve.Resolver.Ok r2
    /\ Sylt.Dep.AnnOrder.ann_deps_ok true (r_stmts r1) = true /\ Sylt.Dep.AnnOrder.ann_deps_ok true (r_stmts r2) = true
    /\ Sylt.Dep.Topo.init_order true (r_stmts r1) = Sylt.Dep.Topo.OOk l1
    /\ Sylt.Dep.Topo.init_order true (r_stmts r2) = Sylt.Dep.Topo.OOk l2
    /\ Emit.backend 20 None (mkResolved (r_vars r1) l1) = Emit.backend 20 None (mkResolved (r_vars r2) l2).
Proof. exact Sylt.Resolve.AnnEraseLua.seed_order_example. Qed.

Print Assumptions C08_order_leaf_prune.
Print Assumptions C08_order_verdict_erase.
Print Assumptions C08_lower_ignores_type_stmts.
Print Assumptions C08_order_then_backend_erase.
Print Assumptions C08_resolver_order_backend.
Print Assumptions C08_seed_order_example.

(* ---- resolver agent: the computable hypothesis replaced by a syntactic one, needed on the annotated side only.
   ann_types_only: every type named by the annotation of a definition anywhere in the resolved program is the slot of a
   type statement (a blob or enum declaration).  It implies ann_deps_ok (dependency sets are strictly sorted, so
   equal filtered sets are equal lists), and the resolver's output on an erased program satisfies it outright. ---- *)
From Sylt Require Dep.AnnTypes Resolve.AnnErasePost.

Theorem C08_ann_types_only_deps_ok : forall tgt ss,
  Sylt.Dep.AnnTypes.ann_types_only tgt ss = true -> Sylt.Dep.AnnOrder.ann_deps_ok tgt ss = true.
Proof. exact Sylt.Dep.AnnTypes.ann_types_only_deps_ok. Qed.

Theorem C08_erased_ann_types_only : forall fl hp hr tgt ast r,
  Sylt.Resolve.Resolver.resolve fl (Sylt.Resolve.AnnErase.erase_ann Sylt.Resolve.AnnErase.implied hp hr ast)
  = Sylt.Resolve.Resolver.Ok r ->
  Sylt.Dep.AnnTypes.ann_types_only tgt (r_stmts r) = true.
Proof. exact Sylt.Resolve.AnnErasePost.erased_ann_types_only. Qed.

Theorem C08_order_then_backend_erase_types : forall tgt fuel req r1 r2 l1,
  same_modulo_annotations r1 r2 ->
  Sylt.Dep.AnnTypes.ann_types_only tgt (r_stmts r1) = true -> Sylt.Dep.AnnTypes.ann_types_only tgt (r_stmts r2) = true ->
  Sylt.Dep.Topo.init_order tgt (r_stmts r1) = Sylt.Dep.Topo.OOk l1 ->
  exists l2, Sylt.Dep.Topo.init_order tgt (r_stmts r2) = Sylt.Dep.Topo.OOk l2
    /\ Emit.backend fuel req (mkResolved (r_vars r1) l1) = Emit.backend fuel req (mkResolved (r_vars r2) l2).
Proof. exact Sylt.Dep.AnnTypes.order_then_backend_erase_types. Qed.

Theorem C08_resolver_order_verdict_types : forall fl tgt ast r1 r2,
  Sylt.Resolve.Resolver.resolve fl ast = Sylt.Resolve.Resolver.Ok r1 ->
  Sylt.Resolve.Resolver.resolve fl (Sylt.Resolve.AnnErase.erase_all_annotations ast) = Sylt.Resolve.Resolver.Ok r2 ->
  Sylt.Dep.AnnTypes.ann_types_only tgt (r_stmts r1) = true ->
  Sylt.Dep.AnnOrder.onf (Sylt.Dep.Topo.initialization_order tgt (r_stmts r1))
  = Sylt.Dep.AnnOrder.onf (Sylt.Dep.Topo.initialization_order tgt (r_stmts r2)).
Proof. exact Sylt.Resolve.AnnEraseLua.resolver_order_verdict_types. Qed.

Theorem C08_resolver_order_backend_types : forall fl tgt fuel req ast r1 r2 l1,
  Sylt.Resolve.Resolver.resolve fl ast = Sylt.Resolve.Resolver.Ok r1 ->
  Sylt.Resolve.Resolver.resolve fl (Sylt.Resolve.AnnErase.erase_all_annotations ast) = Sylt.Resolve.Resolver.Ok r2 ->
  Sylt.Dep.AnnTypes.ann_types_only tgt (r_stmts r1) = true ->
  Sylt.Dep.Topo.init_order tgt (r_stmts r1) = Sylt.Dep.Topo.OOk l1 ->
  exists l2, Sylt.Dep.Topo.init_order tgt (r_stmts r2) = Sylt.Dep.Topo.OOk l2
    /\ Emit.backend fuel req (mkResolved (r_vars r1) l1) = Emit.backend fuel req (mkResolved (r_vars r2) l2).
Proof. exact Sylt.Resolve.AnnEraseLua.resolver_order_backend_types. Qed.

Theorem C08_seed_types_only :
  exists r1,
    Sylt.Resolve.Resolver.resolve (Sylt.Resolve.Resolver.mkFlags true true true false false) Sylt.Resolve.AnnEraseLua.seed_annotated
    = Sylt.Resolve.Resolver.Ok r1
    /\ Sylt.Dep.AnnTypes.ann_types_only true (r_stmts r1) = true.
Proof. eexists. split; [vm_compute; reflexivity|]. vm_compute. reflexivity. Qed.

Print Assumptions C08_ann_types_only_deps_ok.
Print Assumptions C08_erased_ann_types_only.
Print Assumptions C08_order_then_backend_erase_types.
Print Assumptions C08_resolver_order_verdict_types.
Print Assumptions C08_resolver_order_backend_types.
Print Assumptions C08_seed_types_only.
