-- expect-error: attempt to index
-- expect: before
print("before")
local t = nil
t.x = 1
print("not reached")
