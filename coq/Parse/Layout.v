(* C14, parser level: layout.  Everything the parser does with its input goes through Context.token(),
   Context.skip(n) and the look-ahead built from them.  This file proves that these primitives cannot see
   comments, and cannot see newlines while skip_newlines is on (which is what `(`, `[`, call arguments and
   blob braces switch on): two contexts whose remaining tokens agree after erasing those tokens are
   indistinguishable by token() and stay so under skip(1) / skip(0) (and skip(n) when newlines count). *)
From Coq Require Import List NArith Bool Arith Lia.
From Sylt Require Import Syntax.Ast Syntax.Tok Parse.PrecTable Parse.Parser.
Import ListNotations.

(* tokens Context.skip steps over on its own: comments always, newlines when [b] (skip_newlines) *)
Definition trivia (b : bool) (t : tok) : bool :=
  match t with
  | TComment => true
  | TK KNewline => b
  | _ => false
  end.

Definition erase (b : bool) (ts : list tok) : list tok := filter (fun t => negb (trivia b t)) ts.

(* the cursor is not on a token skip would have stepped over (true after every skip) *)
Definition settled (c : ctx) : Prop :=
  match post c with
  | [] => True
  | t :: _ => trivia (nl c) t = false
  end.

Lemma strip_spec b post : forall pre,
  erase b (snd (strip b post pre)) = erase b post
  /\ match snd (strip b post pre) with [] => True | t :: _ => trivia b t = false end.
Proof.
  induction post as [|t post IH]; intros pre; [split; [reflexivity|exact I]|].
  cbn [strip]. destruct t as [s|s|z|s|b0| |k|]; try (split; reflexivity).
  - cbn [erase filter trivia negb]. apply IH.
  - destruct k; try (split; reflexivity). destruct b.
    + cbn [erase filter trivia negb]. apply IH.
    + split; reflexivity.
Qed.

Lemma skip_settled n c : settled (skip n c).
Proof.
  unfold skip, settled. destruct (adv (post c) n (pre c)) as [[p1 q1] l1].
  pose proof (strip_spec (nl c) q1 p1) as [_ S]. destruct (strip (nl c) q1 p1) as [p2 q2]. exact S.
Qed.

(* one step: the erased stream loses its head *)
Lemma skip1_erase c : settled c ->
  erase (nl c) (post (skip 1 c)) = tl (erase (nl c) (post c)) /\ nl (skip 1 c) = nl c.
Proof.
  unfold settled, skip. destruct (post c) as [|t ts] eqn:E.
  - intros _. cbn [adv strip post nl erase filter tl]. split; reflexivity.
  - intros S. cbn [adv].
    assert (A : adv ts match t with TComment => 1 | _ => 0 end (t :: pre c) = (t :: pre c, ts, 0)).
    { destruct t; try (destruct ts; reflexivity). discriminate. }
    rewrite A. pose proof (strip_spec (nl c) ts (t :: pre c)) as [Er _].
    destruct (strip (nl c) ts (t :: pre c)) as [p2 q2]. cbn [snd] in Er. cbn [post nl].
    split; [|reflexivity]. rewrite Er. cbn [erase filter]. rewrite S. reflexivity.
Qed.

Lemma skip0_erase c : erase (nl c) (post (skip 0 c)) = erase (nl c) (post c) /\ nl (skip 0 c) = nl c.
Proof.
  unfold skip. assert (A : adv (post c) 0 (pre c) = (pre c, post c, 0)) by (destruct (post c); reflexivity).
  rewrite A. pose proof (strip_spec (nl c) (post c) (pre c)) as [Er _].
  destruct (strip (nl c) (post c) (pre c)) as [p2 q2]. cbn [snd] in Er. cbn [post nl]. split; [exact Er|reflexivity].
Qed.

Lemma token_erase c : settled c -> token c = hd TEOF (erase (nl c) (post c)).
Proof.
  unfold settled, token. destruct (post c) as [|t ts]; [reflexivity|]. intros S.
  cbn [erase filter]. rewrite S. reflexivity.
Qed.

(* two contexts the parser cannot tell apart *)
Definition layout_eq (c c' : ctx) : Prop :=
  nl c = nl c' /\ settled c /\ settled c' /\ erase (nl c) (post c) = erase (nl c) (post c').

Theorem layout_token c c' : layout_eq c c' -> token c = token c'.
Proof.
  intros (N & S & S' & E). rewrite (token_erase c S), (token_erase c' S'), <- N, E. reflexivity.
Qed.

Theorem layout_skip1 c c' : layout_eq c c' -> layout_eq (skip 1 c) (skip 1 c').
Proof.
  intros (N & S & S' & E).
  destruct (skip1_erase c S) as [E1 N1]. destruct (skip1_erase c' S') as [E2 N2].
  repeat split.
  - congruence.
  - apply skip_settled.
  - apply skip_settled.
  - rewrite N1, E1, N, E2. f_equal. rewrite <- N. exact E.
Qed.

(* entering a bracket: push_skip_newlines(true) from contexts that agree once newlines are erased too *)
Theorem layout_push_true c c' :
  erase true (post c) = erase true (post c') ->
  layout_eq (fst (push_nl true c)) (fst (push_nl true c')).
Proof.
  intros E. unfold push_nl. cbn [fst].
  destruct (skip0_erase (set_nl true c)) as [E1 N1]. destruct (skip0_erase (set_nl true c')) as [E2 N2].
  cbn [set_nl nl post] in *. repeat split.
  - congruence.
  - apply skip_settled.
  - apply skip_settled.
  - rewrite N1, E1, E2. exact E.
Qed.

(* all derived observations agree *)
Corollary layout_is_k k c c' : layout_eq c c' -> is_k k c = is_k k c'.
Proof. intros H. unfold is_k. rewrite (layout_token c c' H). reflexivity. Qed.

Corollary layout_look2 c c' : layout_eq c c' -> look2 c = look2 c'.
Proof.
  intros H. unfold look2. rewrite (layout_token c c' H), (layout_token _ _ (layout_skip1 c c' H)). reflexivity.
Qed.

Corollary layout_look3 c c' : layout_eq c c' -> look3 c = look3 c'.
Proof.
  intros H. unfold look3.
  rewrite (layout_token c c' H), (layout_token _ _ (layout_skip1 c c' H)),
          (layout_token _ _ (layout_skip1 _ _ (layout_skip1 c c' H))). reflexivity.
Qed.

Corollary layout_skip_if k c c' : layout_eq c c' -> layout_eq (skip_if k c) (skip_if k c').
Proof.
  intros H. unfold skip_if. rewrite <- (layout_is_k k c c' H). destruct (is_k k c); [apply layout_skip1|]; exact H.
Qed.

(* The parser-level theorem built on these facts is Parse/LayoutSim.v ([nl_in_brackets]). *)
