(* Driver for the C01 preservation tie (extraction of Pres/Tie.v, Pres/Frag.v, Lua/LuaParse.v).
   Case line:  <hex of the real compiler's whole Lua output>  TAB  <resolved S-expression (tools/resolved_io.py)>
   Output:     PRES frag=<0|1> ast=<ok | mismatch:<k>:<n_real>:<n_model> | parsefail:<hex msg> | lowerfail>
               k = index (0-based, counted after the preamble's statements) of the first top-level statement
               where the parsed real text and the model's AST differ; n_* = numbers of top-level statements.
               READFAIL <msg> when the case cannot be read.
   The comparison `=` is OCaml's structural equality on the extracted (first-order) AST types. *)
open Presmodel

let rec nat_of_int n = if n = 0 then O else S (nat_of_int (n - 1))
let string_of_chars (l : char list) = String.of_seq (List.to_seq l)
let hex_of_string s =
  if s = "" then "-" else begin
    let b = Buffer.create (2 * String.length s) in
    String.iter (fun c -> Buffer.add_string b (Printf.sprintf "%02x" (Char.code c))) s;
    Buffer.contents b end

let rec first_diff k a b =
  match a, b with
  | [], [] -> k
  | x :: a', y :: b' -> if x = y then first_diff (k + 1) a' b' else k
  | _, _ -> k

let () =
  let fuel = nat_of_int 20000 in
  let npre = List.length pre_block in
  let ic = open_in Sys.argv.(1) in
  (try
    while true do
      let line = input_line ic in
      (try
        let tab = String.index line '\t' in
        let text = String.sub line 0 tab in
        let rest = String.sub line (tab + 1) (String.length line - tab - 1) in
        let text = Rast_reader.rr_chars (Rast_reader.rr_unhex text) in
        let r = Rast_reader.read_resolved rest in
        let fr = if frag fuel r then "1" else "0" in
        let ast =
          match tie_ast fuel r with
          | None -> "lowerfail"
          | Some model ->
            (match parse_lua Lua53 text with
             | ParseErr (_, m) -> "parsefail:" ^ hex_of_string (string_of_chars m)
             | ParseOk real ->
               if real = model then "ok"
               else Printf.sprintf "mismatch:%d:%d:%d" (first_diff 0 real model - npre)
                      (List.length real - npre) (List.length model - npre)) in
        print_endline ("PRES frag=" ^ fr ^ " ast=" ^ ast)
      with Failure m -> print_endline ("READFAIL " ^ m) | Not_found -> print_endline "READFAIL no-tab")
    done
  with End_of_file -> ());
  close_in ic
