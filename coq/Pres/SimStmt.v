(* The simulation for STATEMENTS of the fragment (definitions, assignments, expression statements, blocks,
   loops, break, continue), statement lists and the bodies of if-branches; P_all ties them with the
   expression simulation (SimExprProofs.P_eval_succ) by induction on the fuel of the reference interpreter.
   A definition is `local V<var> = nil`, the code of its value, `V<var> = <value>`: SyltSem allocates a
   cell, evaluates, writes the cell.  A loop is `while true do ::L:: <cond> if c then else break end <body> end`
   (LuaLoop.LoopR); every pass starts from the Lua environment of the loop. *)
From Coq Require Import String Ascii List NArith ZArith QArith Bool Lia.
From Sylt Require Import Syntax.Resolved.
From Sylt Require Sem.Values Sem.Runtime Sem.SyltSem.
From Sylt Require Import Back.IR Back.Emit Back.ScopeProofs.
From Sylt Require Import Pres.EmitAst Pres.EmitRel Pres.Names Pres.LuaFuel Pres.LuaEv Pres.Preamble.
From Sylt Require Import Pres.Frag.
From Sylt Require Import Pres.SimDefs Pres.SimOps Pres.SimVals.
From Sylt Require Import Pres.SimExpr Pres.LowerShape Pres.SimSteps Pres.SimExprProofs.
From Sylt Require Import Pres.LuaLoop.
From Sylt Require Import Pres.NoExit.
From Sylt Require Import Lua.LuaAst Lua.LuaMap Lua.LuaNum Lua.LuaProofs Lua.LuaCore.
Import ListNotations.
Local Open Scope N_scope.

Ltac splits := repeat match goal with |- _ /\ _ => split end.

Section Sim.
Variable pv : N.
Variable sv : N.
Variable bound : N.
Variable u : counts.
Variable fl : list (N * kind).
Variable W : world.

(* ------------------------------------------------------------------ statements: semantics *)

Notation rel := (rel pv sv bound u fl W).
Notation ctx_ok := (ctx_ok bound).

Notation okstepS := (okstepS pv sv bound u fl W).
Notation sext := (sext pv fl).
Notation xpost := (exit_post pv sv bound u fl W).

Lemma memN_false v l : memN v l = false -> ~ In v l.
Proof.
  unfold memN. intros H Hin. assert (existsb (N.eqb v) l = true) by (apply existsb_exists; exists v; split; [exact Hin | apply N.eqb_refl]). congruence.
Qed.

Lemma fresh_id_inv sc var : fresh_id pv sv bound fl sc var = true -> ~ In var sc /\ var <> pv /\ var <> sv /\ var < bound.
Proof.
  unfold fresh_id. intros H. frag_split H.
  apply negb_true_iff in H, Hfr2, Hfr1. apply N.ltb_lt in Hfr0.
  split; [apply memN_false; exact H|]. split; [intros ->; rewrite N.eqb_refl in Hfr2; discriminate|].
  split; [intros ->; rewrite N.eqb_refl in Hfr1; discriminate | exact Hfr0].
Qed.

Lemma fresh_id_fl sc var : fresh_id pv sv bound fl sc var = true -> ~ In var (fnames fl).
Proof.
  unfold fresh_id. intros H. frag_split H. apply negb_true_iff in Hfr. apply memN_false. exact Hfr.
Qed.

Definition s_alloc (st : sstate) (x : sval) : sstate :=
  SyltSem.mkState (SyltSem.cells st ++ [x]) (SyltSem.blobs st) (SyltSem.clos st) (SyltSem.trace st).

Lemma nth_error_app_old {A} (l : list A) x c y : nth_error l c = Some y -> nth_error (l ++ [x]) c = Some y.
Proof. intros H. rewrite nth_error_app1; [exact H | apply nth_error_Some; congruence]. Qed.

Lemma nth_error_app_new {A} (l : list A) x : nth_error (l ++ [x]) (length l) = Some x.
Proof. rewrite nth_error_app2 by lia. rewrite Nat.sub_diag. reflexivity. Qed.

(* the world with the two cells of a new user variable (flag true), or of a function-valued constant that is being
   defined (flag false) *)
Definition world_addR (W0 : world) (c : nat) (p : positive) (b0 : bool) : world :=
  mkWorld (fun c' p' b' => w_R W0 c' p' b' \/ (c' = c /\ p' = p /\ b' = b0)) (w_F W0) (w_D W0) (w_P W0) (w_pc W0).

Lemma wsub_addR W0 c p b0 : wsub W0 (world_addR W0 c p b0).
Proof. unfold wsub, world_addR. cbn. repeat split; auto. Qed.

(* the world invariant when a new user variable is defined on both sides (scope and environments: later) *)
Lemma winv_addR fl0 W0 sc e st E stL x v (b0 : bool) :
  winv pv sv bound u fl0 W0 sc e st E stL -> wfenv E stL -> (if b0 then vrel x v else True) ->
  winv pv sv bound u fl0 (world_addR W0 (length (SyltSem.cells st)) (s_ncell stL) b0) sc e (s_alloc st x) E (snd (alloc_cell stL v)).
Proof.
  intros Hw Hwf Hxv.
  pose proof Hw as [H1 H2 H3 H4 H5 H6 H7 Hff H8 H9 H10 Hall Hlock H11 H13 H14 Hfi].
  assert (HRc : forall c p b, w_R W0 c p b -> (c < length (SyltSem.cells st))%nat /\ (p < s_ncell stL)%positive).
  { intros c p b Hr. destruct (H1 c p b Hr) as (y & A & _ & B). split; [apply nth_error_Some; congruence | exact B]. }
  assert (HFc : forall c p d, w_F W0 c p d -> (c < length (SyltSem.cells st))%nat /\ (p < s_ncell stL)%positive).
  { intros c p d Hf. destruct (H6 c p d Hf) as (d0 & A & _ & B & _). split; [apply nth_error_Some; congruence | exact B]. }
  constructor; cbn [world_addR w_R w_F w_D w_P w_pc].
  - intros c p b [Hr|(-> & -> & ->)].
    + destruct (H1 c p b Hr) as (y & A & B & C). exists y. split; [apply nth_error_app_old; exact A|].
      split; [rewrite get_cell_alloc_old; assumption | cbn; lia].
    + exists x. split; [apply nth_error_app_new|]. split; [rewrite get_cell_alloc_new; exact Hxv | cbn; lia].
  - intros c p p' b b' [Hr|(-> & -> & ->)] [Hr'|(Hc' & -> & ->)]; try (split; reflexivity).
    + eapply H2; eassumption.
    + subst c. destruct (HRc _ _ _ Hr). lia.
    + destruct (HRc _ _ _ Hr'). lia.
  - intros c c' p b b' [Hr|(-> & -> & ->)] [Hr'|(-> & Hp' & ->)]; try reflexivity.
    + eapply H3; eassumption.
    + subst p. destruct (HRc _ _ _ Hr). lia.
    + destruct (HRc _ _ _ Hr'). lia.
  - intros c p b [Hr|(-> & -> & ->)].
    + eapply H4. exact Hr.
    + split; [intros p' d Hf; destruct (HFc _ _ _ Hf); lia | intros c' d Hf; destruct (HFc _ _ _ Hf); lia].
  - intros c p b lv [Hr|(-> & -> & ->)]; [exact (H5 c p b lv Hr)|]. intros Hp. destruct (H8 _ _ Hp). lia.
  - intros c p K0 Hf. destruct (H6 c p K0 Hf) as (d0 & A & B & C & D & Dk). exists d0.
    split; [apply nth_error_app_old; exact A|]. split; [rewrite get_cell_alloc_old; assumption|]. split; [cbn; lia | split; [exact D | exact Dk]].
  - exact H7.
  - exact Hff.
  - intros p lv Hp. destruct (H8 p lv Hp) as [A B]. split; [rewrite get_cell_alloc_old; assumption | cbn; lia].
  - apply nth_error_app_old. exact H9.
  - intros d Hd. destruct (H10 d Hd) as (A & B & C & D & F & G & G' & Hsc & Hfl & Htm).
    split; [exact A|]. split; [exact B|]. split; [exact C|]. split; [intros y p Hy; specialize (D y p Hy); cbn; lia|].
    split; [exact F|]. split; [exact G|]. split; [exact G'|].
    split; [intros g Hg; destruct (Hsc g Hg) as (c & p & X & Y & Z); exists c, p; auto|]. split; [exact Hfl|].
    intros t p Hbt Hq. destruct (Htm t p Hbt Hq) as [Hn1 Hn2]. split; [|exact Hn2].
    intros c b [Hr|(-> & -> & ->)]; [exact (Hn1 c b Hr)|]. specialize (D _ _ Hq). lia.
  - exact Hall.
  - exact Hlock.
  - intros w Hin. destruct (H11 w Hin) as (c & p & X & Y & Z). exists c, p. auto.
  - exact H13.
  - intros t p Hbt Hq. destruct (H14 t p Hbt Hq) as [Hn1 Hn2]. split; [|exact Hn2].
    intros c b [Hr|(-> & -> & ->)]; [exact (Hn1 c b Hr)|].
    pose proof (wf_alloc _ _ Hwf _ _ Hq). lia.
  - exact Hfi.
Qed.

(* a new user variable: `local V<var> = <v>` / new_cell x, with related values *)
Lemma rel_define_user sc e st E stL var x v :
  rel sc e st E stL -> fresh_id pv sv bound fl sc var = true -> vrel x v ->
  rel (var :: sc) ((var, length (SyltSem.cells st)) :: e) (s_alloc st x)
      (sset (fmt_var var) (s_ncell stL) E) (snd (alloc_cell stL v)).
Proof.
  intros (Hfs & W1 & Hs1 & [Hb Hfb Hp Hpb HpE HpG Hwf Ht Hli HW]) Hfresh Hxv.
  destruct (fresh_id_inv _ _ Hfresh) as (Hnin & Hnpv & Hnsv & Hvb). pose proof (fresh_id_fl _ _ Hfresh) as Hnfl.
  split.
  { intros f ar Hin HK. destruct (Hfs f ar Hin HK) as (c & p & A & B & C). exists c, p.
    assert (Hne : f <> var).
    { intros ->. apply Hnfl. unfold fnames. change var with (fst (var, ar)). apply in_map. exact Hin. }
    cbn [SyltSem.lookup]. destruct (N.eqb_spec var f); [congruence|].
    split; [exact A | split; [rewrite sget_sset_var by exact Hne; exact B | exact C]]. }
  exists (world_addR W1 (length (SyltSem.cells st)) (s_ncell stL) true). split; [eapply wsub_trans; [exact Hs1 | apply wsub_addR]|].
  pose proof (winv_addR fl W1 sc e st E stL x v true HW Hwf Hxv) as HW2.
  constructor.
  - intros w [<-|Hin]; [split; assumption | apply Hb; exact Hin].
  - exact Hfb.
  - cbn [SyltSem.lookup world_addR w_pc]. destruct (N.eqb_spec var pv); [congruence | exact Hp].
  - exact Hpb.
  - rewrite sget_sset_var by (intros Heq; apply Hnpv; symmetry; exact Heq). exact HpE.
  - eapply glob_frame; [|exact HpG]. reflexivity.
  - apply wfenv_local. exact Hwf.
  - exact Ht.
  - apply linv_alloc_cell. exact Hli.
  - apply (winv_env pv sv bound u fl _ sc e _ E _ fl (var :: sc) _ _ HW2).
    + intros w [<-|Hin].
      * exists (length (SyltSem.cells st)), (s_ncell stL). cbn [SyltSem.lookup]. rewrite N.eqb_refl.
        split; [reflexivity | split; [apply sget_sset_same | right; split; [reflexivity | split; reflexivity]]].
      * destruct (wi_sc _ _ _ _ _ _ _ _ _ _ _ HW w Hin) as (c & p & A & B & C). exists c, p.
        assert (Hne : w <> var) by (intros ->; contradiction).
        cbn [SyltSem.lookup]. destruct (N.eqb_spec var w); [congruence|].
        split; [exact A | split; [rewrite sget_sset_var by exact Hne; exact B | left; exact C]].
    + intros w [<-|Hin]; [exact Hnfl | apply (wi_scfl _ _ _ _ _ _ _ _ _ _ _ HW w Hin)].
    + intros t p Hbt Hq. rewrite sget_sset_var in Hq by lia. apply (wi_temps _ _ _ _ _ _ _ _ _ _ _ HW2 t p Hbt Hq).
Qed.

(* IDefine var for a user variable: `local V<var> = nil`;  SyltSem: new_cell (SV VLuaNil) *)
Lemma step_define_user sc e st F c E stL l var :
  rel sc e st E stL -> lut_ok bound l c c -> fresh_id pv sv bound fl sc var = true -> 1 <= count_of u var ->
  exists E' stL',
    okstepS sc (var :: sc) ((var, length (SyltSem.cells st)) :: e) (s_alloc st (SV Values.VLuaNil)) F c c E stL
            (fst (agen_one u l (IDefine var))) E' stL' F.
Proof.
  intros Hrel Hl Hfresh Hu. destruct (fresh_id_inv _ _ Hfresh) as (Hnin & Hnpv & Hnsv & Hvb).
  pose proof (fresh_id_fl _ _ Hfresh) as Hnfl.
  pose proof (r_wf _ _ _ _ _ _ _ _ _ _ _ Hrel) as Hwf.
  cbn [agen_one]. assert (Hused : (0 <? count_of u var) = true) by (apply N.ltb_lt; lia). rewrite Hused. cbn [fst].
  rewrite (aname_none l var) by (apply Hl; right; exact Hvb).
  assert (Hex : Exec E (SLocal [fmt_var var] [ENil]) stL
                  (ROk (sset (fmt_var var) (s_ncell stL) E, SigNormal) (snd (alloc_cell stL VNil)))).
  { pose proof (Exec_local E [fmt_var var] [ENil] stL [VNil] stL
                  (EvalList_one _ _ _ _ (EvalMulti_single E ENil stL VNil stL eq_refl (Eval_nil E stL)))) as H.
    rewrite bind_locals_one in H. exact H. }
  exists (sset (fmt_var var) (s_ncell stL) E), (snd (alloc_cell stL VNil)).
  split; [apply ExecS_one; exact Hex|]. split; [|split; [|split; [apply F_new_refl|]]].
  - constructor.
    + intros t p Hbt H. rewrite sget_sset_var by lia. exact H.
    + intros x p H. destruct (string_dec x (fmt_var var)) as [->|Hne].
      * right. right. exists var. split; [reflexivity | exact Hvb].
      * left. rewrite sget_sset_other in H by exact Hne. exact H.
    + intros t p _ _ H. apply get_cell_alloc_old. eapply wf_alloc; eassumption.
    + cbn; lia.
  - apply rel_define_user; [exact Hrel | exact Hfresh | constructor].
  - intros w [Hw|Hw]; apply sget_sset_var; intros ->; contradiction.
Qed.


Definition s_write (st : sstate) (c : nat) (x : sval) : sstate :=
  SyltSem.mkState (SyltSem.set_nth c x (SyltSem.cells st)) (SyltSem.blobs st) (SyltSem.clos st) (SyltSem.trace st).

Lemma nth_set_nth_same {A} (l : list A) c x : (c < length l)%nat -> nth_error (SyltSem.set_nth c x l) c = Some x.
Proof. revert c. induction l as [|h t IH]; intros [|c] H; cbn in *; try lia; [reflexivity | apply IH; lia]. Qed.

Lemma nth_set_nth_other {A} (l : list A) c c' x : c <> c' -> nth_error (SyltSem.set_nth c x l) c' = nth_error l c'.
Proof.
  revert c c'. induction l as [|h t IH]; intros [|c] [|c'] H; cbn; try reflexivity; try congruence.
  apply IH. congruence.
Qed.

(* writing the two cells of a user variable in scope with related values *)
Lemma rel_assign_user sc e st E stL var cc p x v :
  rel sc e st E stL -> In var sc -> SyltSem.lookup e var = Some cc -> sget (fmt_var var) E = Some p -> vrel x v ->
  rel sc e (s_write st cc x) E (set_cell stL p v).
Proof.
  intros (Hfs & W1 & Hs1 & [Hb Hfb Hp Hpb HpE HpG Hwf Ht Hli HW]) Hin Hlk Hq Hxv.
  destruct (wi_sc _ _ _ _ _ _ _ _ _ _ _ HW var Hin) as (c0 & p0 & A & B & HR). rewrite Hlk in A. inversion A; subst c0. rewrite Hq in B. inversion B; subst p0.
  destruct (wi_R _ _ _ _ _ _ _ _ _ _ _ HW cc p true HR) as (x0 & Hx0 & _ & Hplt).
  assert (Hccl : (cc < length (SyltSem.cells st))%nat) by (apply nth_error_Some; congruence).
  split; [exact Hfs|]. exists W1. split; [exact Hs1|]. constructor.
  - exact Hb.
  - exact Hfb.
  - exact Hp.
  - exact Hpb.
  - exact HpE.
  - eapply glob_frame; [|exact HpG]. reflexivity.
  - eapply wfenv_ext; [exact Hwf | cbn; lia].
  - exact Ht.
  - apply linv_set_cell. exact Hli.
  - apply (winv_states pv sv bound u fl W1 sc e st E stL (s_write st cc x) (set_cell stL p v) HW).
    + intros c Hn _. cbn [s_write SyltSem.cells]. apply nth_set_nth_other. intros <-. exact (Hn p HR).
    + intros c q Hr. destruct (Nat.eq_dec c cc) as [->|Hne].
      * assert (q = p) by (eapply (wi_Rfun _ _ _ _ _ _ _ _ _ _ _ HW); eassumption). subst q.
        exists x. split; [cbn [s_write SyltSem.cells]; apply nth_set_nth_same; exact Hccl | rewrite get_cell_set_same; exact Hxv].
      * destruct (wi_R _ _ _ _ _ _ _ _ _ _ _ HW c q true Hr) as (y & Hy & Hvy & _). exists y.
        split; [cbn [s_write SyltSem.cells]; rewrite nth_set_nth_other; [exact Hy | congruence]|].
        rewrite get_cell_set_other; [exact Hvy|]. intros ->. apply Hne. eapply (wi_Rinj _ _ _ _ _ _ _ _ _ _ _ HW); eassumption.
    + reflexivity.
    + intros c q d Hf. apply get_cell_set_other. intros ->. destruct (wi_RF _ _ _ _ _ _ _ _ _ _ _ HW cc p true HR) as [_ Hn]. exact (Hn c d Hf).
    + intros q lv Hpq. apply get_cell_set_other. intros ->. exact (wi_RP _ _ _ _ _ _ _ _ _ _ _ HW cc p true lv HR Hpq).
    + cbn; lia.
    + reflexivity.
    + reflexivity.
Qed.

(* IAssign var a for a user variable in scope: `V<var> = xa`;  SyltSem: write_cell *)
Lemma step_assign_user sc e st F c c' E stL l var a sv_ cc :
  rel sc e st E stL -> lut_ok bound l c c' -> In var sc -> 1 <= count_of u var ->
  SyltSem.lookup e var = Some cc ->
  denotes F E stL (aexpand l a) sv_ ->
  exists stL', okstepS sc sc e (s_write st cc sv_) F c c' E stL (fst (agen_one u l (IAssign var a))) E stL' F.
Proof.
  intros Hrel Hl Hin Hu Hlk Hd.
  pose proof (r_wf _ _ _ _ _ _ _ _ _ _ _ Hrel) as Hwf. pose proof (r_linv _ _ _ _ _ _ _ _ _ _ _ Hrel) as Hli.
  destruct (r_vars _ _ _ _ _ _ _ _ _ _ _ Hrel var Hin) as (cc' & x0 & p & H1 & H2 & H3 & H4). rewrite Hlk in H1. inversion H1; subst cc'. clear H1.
  destruct (r_scb _ _ _ _ _ _ _ _ _ _ _ Hrel var Hin) as [Hvb Hvp].
  cbn [agen_one]. assert (Hused : (0 <? count_of u var) = true) by (apply N.ltb_lt; lia). rewrite Hused. cbn [fst].
  rewrite (aexpand_user bound l c c' var Hl Hvb).
  destruct (denotes_now _ _ _ _ _ Hd Hwf Hli) as (lv & Hvr & st1 & _ & Hm & Hx1).
  pose proof (Exec_assign_local E (fmt_var var) p (aexpand l a) stL [lv] st1 H3 (EvalList_one _ _ _ _ Hm)) as Hex.
  cbn [first] in Hex.
  assert (Hrel1 : rel sc e st E st1) by (eapply rel_cells_ext; eassumption).
  exists (set_cell st1 p lv).
  split; [apply ExecS_one; exact Hex|]. split; [|split; [|split; [apply F_new_refl | apply keep_refl]]].
  - constructor; auto.
    + intros t q Hbt Hr Hq. rewrite get_cell_set_other.
      * apply Hx1. eapply wf_alloc; eassumption.
      * intros ->. assert (fmt_var t = fmt_var var) by (eapply wf_inj; eassumption). apply fmt_var_inj in H. lia.
    + cbn [set_cell s_ncell]. apply Hx1.
  - eapply rel_assign_user; eassumption.
Qed.


Notation okstep := (okstep pv sv bound u fl W).
Notation P_eval := (P_eval pv sv bound u fl W).

Lemma okstepS_trans sc sc1 sc2 e2 st2 F F1 F2 c c0 c1 E stL b1 E1 stL1 b2 E2 stL2 e1 st1 :
  okstepS sc sc1 e1 st1 F c c0 E stL b1 E1 stL1 F1 -> okstepS sc1 sc2 e2 st2 F1 c0 c1 E1 stL1 b2 E2 stL2 F2 ->
  incl sc sc1 -> c <= c0 -> c0 <= c1 -> okstepS sc sc2 e2 st2 F c c1 E stL (b1 ++ b2) E2 stL2 F2.
Proof.
  intros (Hx1 & Hf1 & Hr1 & Hn1 & Hk1) (Hx2 & Hf2 & Hr2 & Hn2 & Hk2) Hi Ha Hb.
  split; [eapply ExecS_app; eassumption|]. split.
  - eapply wframe_trans; [eapply wframe_widen; [exact Hf1 | lia | lia] | eapply wframe_widen; [exact Hf2 | lia | lia]].
  - split; [exact Hr2 | split; [eapply F_new_trans; eassumption|]].
    eapply keep_trans_incl; eassumption.
Qed.

Lemma ctx_afterS sc sc1 e1 st1 l F E stL c c0 c1 l1 b E1 stL1 F1 code bl :
  ctx_ok l F E c c1 -> cshape u l code bl l1 c c0 -> okstepS sc sc1 e1 st1 F c c0 E stL b E1 stL1 F1 ->
  ctx_ok l1 F1 E1 c0 c1.
Proof.
  intros Hc (_ & Hle & Hfr & _) (_ & Hf & _ & Hn & _). eapply ctx_step; eassumption.
Qed.

Notation stmt_post := (stmt_post pv sv bound u fl W).
Notation P_exec := (P_exec pv sv bound u fl W).
Notation P_blk := (P_blk pv sv bound u fl W).
Notation P_bv := (P_bv pv sv bound u fl W).
Notation bv_post := (bv_post pv sv bound u fl W).

Lemma P_exec_zero : P_exec O.
Proof.
  intros g k s ctx c code c' e st r st' sc sc' l E stL F Hev _ _ _ _ _ Hint. cbn in Hev. inversion Hev; subst. destruct Hint.
Qed.

Lemma P_blk_zero : P_blk O.
Proof.
  intros g k ss ctx c cs c' e st r st' sc sc' flr l E stL F Hev _ _ _ _ _ Hint. cbn in Hev. inversion Hev; subst. destruct Hint.
Qed.

Lemma new_cell_eq x st : SyltSem.new_cell x st = (SyltSem.RVal (length (SyltSem.cells st)), s_alloc st x).
Proof. reflexivity. Qed.
Lemma write_cell_eq c x st : SyltSem.write_cell c x st = (SyltSem.RVal tt, s_write st c x).
Proof. reflexivity. Qed.

(* ------------------------------------------------------------------ loops *)

(* the block a balanced code segment emits is a function of the table it starts with *)
Lemma Emits_block_fun l code b l' : Emits u l code b l' -> b = estack u l [] [] code.
Proof.
  intros H. rewrite <- (app_nil_r code). rewrite (estack_Emits _ _ _ _ _ H).
  cbn [estack close_all]. symmetry. apply rev'_rev_append_nil.
Qed.

Lemma wframe_of_xkeep c c' E stL stL' : xkeep bound c c' E stL stL' -> wframe bound c c' E stL E stL'.
Proof. intros [Hn Hc]. constructor; auto. Qed.

Lemma xkeep_trans c c' E s1 s2 s3 : xkeep bound c c' E s1 s2 -> xkeep bound c c' E s2 s3 -> xkeep bound c c' E s1 s3.
Proof.
  intros [Hn1 Hc1] [Hn2 Hc2]. split; [lia|]. intros t p Hb Hr Hp. rewrite (Hc2 t p Hb Hr Hp). apply (Hc1 t p); assumption.
Qed.

Lemma xkeep_of_wframe c c' E stL E1 stL1 : wframe bound c c' E stL E1 stL1 -> xkeep bound c c' E stL stL1.
Proof. intros [Hi Hn Hc Hnc]. split; [exact Hnc | exact Hc]. Qed.

(* after a prefix that ran normally: the relation seen from the environment and scope before it *)
Lemma rel_back sc sc1 e e1 st st1 F F1 a b E stL b1 E1 stL1 :
  okstepS sc sc1 e1 st1 F a b E stL b1 E1 stL1 F1 -> rel sc e st E stL -> sext sc e e1 -> incl sc sc1 ->
  rel sc e st1 E stL1.
Proof.
  intros (Hx1 & Hf1 & Hr1 & Hn1 & Hk1) Hrel Hse Hinc.
  eapply (rel_restrict pv sv bound u fl W sc e st e st1 E E1 stL stL1); [exact Hrel | eapply rel_shrink; eassumption | exact Hk1 | apply (wr_incl _ _ _ _ _ _ _ Hf1) |].
  apply (wr_ncell _ _ _ _ _ _ _ Hf1).
Qed.

(* the reference semantics of a compound assignment whose operands are plain values *)
Lemma compound_eq bop cv xo xn (e : senv) st1 :
  nth_error (SyltSem.cells st1) cv = Some (SV xo) ->
  SyltSem.bind
    (SyltSem.bind (SyltSem.read_cell cv) (fun old =>
     SyltSem.bind (SyltSem.as_value "compound assignment" old) (fun xo =>
     SyltSem.bind (SyltSem.as_value "compound assignment" (SV xn)) (fun xn =>
     SyltSem.bind (SyltSem.binop_val bop xo xn) (fun x => SyltSem.ret (SV x))))))
    (fun r0 => SyltSem.bind (SyltSem.write_cell cv r0) (fun _ => SyltSem.ret e)) st1 =
  match SyltSem.binop_val bop xo xn st1 with
  | (SyltSem.RVal x, s) => (SyltSem.RVal e, s_write s cv (SV x))
  | (SyltSem.RStop o, s) => (SyltSem.RStop o, s)
  | (SyltSem.RAbrupt a, s) => (SyltSem.RAbrupt a, s)
  end.
Proof.
  intros H. unfold SyltSem.bind, SyltSem.read_cell. rewrite H. cbn [SyltSem.as_value SyltSem.ret].
  destruct (SyltSem.binop_val bop xo xn st1) as [[x|o|a] s]; reflexivity.
Qed.

Lemma P_exec_succ n : P_eval n -> P_blk n -> P_exec (S n).
Proof.
  intros IHe IHss g k s ctx c code c' e st r st' sc sc' l E stL F Hev Hlow Hfrag Hu Hctx Hrel Hint.
  destruct g as [|g]; [discriminate|]. destruct k as [|k]; [discriminate|].
  destruct s; try discriminate Hfrag.
  - (* SAssignment *)
    destruct target; try discriminate Hfrag. rewrite frag_stmt_assign in Hfrag.
    destruct (assign_op op && memN var sc && frag_expr pv sv bound fl k sc value)%bool eqn:Hc; [|discriminate Hfrag].
    inversion Hfrag; subst sc'. clear Hfrag. frag_split Hc.
    assert (Hin : In var sc).
    { unfold memN in Hfr0. apply existsb_exists in Hfr0 as (y & Hy & Heq). apply N.eqb_eq in Heq. subst. exact Hy. }
    cbn [statement] in Hlow. mon Hlow. fresh_all. apply ret_ok in Hm0 as [<- <-]. cbn beta iota in Hlow. mon Hlow.
    destruct a as [code_v rv]. cbn [fst snd app] in *. rename a0 into opi.
    assert (Hc' : c' = c0) by (destruct op; try discriminate Hc; apply ret_ok in Hm0 as [_ ?]; congruence). subst c'.
    apply ucovers_app in Hu as [Huv Hu2].
    assert (Hcres : 1 <= count_of u c) by (eapply Hu2; [right; left; reflexivity | right; left; reflexivity]).
    assert (Hcvar : 1 <= count_of u var) by (eapply Hu2; [right; left; reflexivity | left; reflexivity]).
    destruct (L_expr_all pv sv bound u fl g k value ctx (c + 1) code_v rv c0 sc l Hm Hfr) as (_ & _ & (_ & Hcc0 & _) & Hrv1 & Hrv2).
    assert (Htail : forall l1, exists bt l', cshape u l1 [opi; IAssign var c] bt l' c c0).
    { intros l1. destruct op; try discriminate Hc; apply ret_ok in Hm0 as [<- _]; eexists _, _.
      - eapply cshape_cons'; [apply (cshape_plain u l1 (ICopy c rv) c c0); [lia | reflexivity | reflexivity | apply used_plain]|].
        apply (cshape_plain u l1 (IAssign var c) c c0); [lia | reflexivity | reflexivity | apply used_plain].
      - eapply cshape_cons'; [eapply (cshape_iis u l1 (IAdd c var rv) c _ c c0); [lia | reflexivity | reflexivity]|].
        apply (cshape_plain u _ (IAssign var c) c c0); [lia | reflexivity | reflexivity | apply used_plain].
      - eapply cshape_cons'; [eapply (cshape_iis u l1 (ISub c var rv) c _ c c0); [lia | reflexivity | reflexivity]|].
        apply (cshape_plain u _ (IAssign var c) c c0); [lia | reflexivity | reflexivity | apply used_plain].
      - eapply cshape_cons'; [eapply (cshape_iis u l1 (IMul c var rv) c _ c c0); [lia | reflexivity | reflexivity]|].
        apply (cshape_plain u _ (IAssign var c) c c0); [lia | reflexivity | reflexivity | apply used_plain]. }
    destruct (r_vars _ _ _ _ _ _ _ _ _ _ _ Hrel var Hin) as (cv & x0 & p0 & Hlk & Hnth0 & Hp0 & Hv0).
    destruct (r_scb _ _ _ _ _ _ _ _ _ _ _ Hrel var Hin) as [Hvarb Hvarp].
    assert (Hctxv : ctx_ok l F E (c + 1) c0) by (eapply ctx_sub; [exact Hctx | lia | lia]).
    assert (Hbc : bound <= c) by (destruct Hctx; assumption).
    cbn [SyltSem.exec] in Hev. rewrite Hlk in Hev. unfold SyltSem.bind at 1 in Hev.
    destruct (SyltSem.eval n e value st) as [[nv|o|cc] st1] eqn:He1.
    2: { inversion Hev; subst.
         destruct (IHe g k value ctx (c + 1) code_v rv c0 e st _ st' sc l E stL F He1 Hm Hfr Huv Hctxv Hrel Hint) as (b1 & l1 & Hs1 & _ & _ & Hp1).
         destruct (Htail l1) as (bt & l' & Hst).
         eexists _, _. split; [eapply cshape_app'; [eapply cshape_widen; [exact Hs1 | lia | lia] | exact Hst]|].
         cbn [stmt_post eval_post] in *. eapply exit_app; [eapply (xpost_widen pv sv bound u fl W ctx sc e (c + 1) c0 c c0); [exact Hp1 | lia | lia] | apply N.le_refl]. }
    2: { inversion Hev; subst.
         destruct (IHe g k value ctx (c + 1) code_v rv c0 e st _ st' sc l E stL F He1 Hm Hfr Huv Hctxv Hrel Hint) as (b1 & l1 & Hs1 & _ & _ & Hp1).
         destruct (Htail l1) as (bt & l' & Hst).
         eexists _, _. split; [eapply cshape_app'; [eapply cshape_widen; [exact Hs1 | lia | lia] | exact Hst]|].
         cbn [stmt_post eval_post] in *. eapply exit_app; [eapply (xpost_widen pv sv bound u fl W ctx sc e (c + 1) c0 c c0); [exact Hp1 | lia | lia] | apply N.le_refl]. }
    destruct (IHe g k value ctx (c + 1) code_v rv c0 e st _ st1 sc l E stL F He1 Hm Hfr Huv Hctxv Hrel I)
      as (b1 & l1 & Hs1 & _ & _ & E1 & stL1 & F1 & Hok1 & Hd1).
    pose proof Hok1 as (Hx1 & Hf1 & Hrel1 & Hn1 & Hk1).
    pose proof Hs1 as (_ & _ & Hfr1 & _).
    assert (Hl1c : alut_get l1 c = None) by (rewrite Hfr1 by lia; apply (cx_lut _ _ _ _ _ _ Hctx); left; lia).
    assert (Hl1u : forall w, w < bound -> alut_get l1 w = None) by (intros w Hw; rewrite Hfr1 by lia; apply (cx_lut _ _ _ _ _ _ Hctx); right; exact Hw).
    assert (HE1c : sget (fmt_var c) E1 = None).
    { destruct (sget (fmt_var c) E1) as [q|] eqn:Hq; [|reflexivity].
      destruct (wr_new _ _ _ _ _ _ _ Hf1 _ _ Hq) as [H'|[(t' & Heq & Hr)|(t' & Heq & Hr)]].
      - rewrite (cx_E _ _ _ _ _ _ Hctx c) in H' by lia. discriminate.
      - apply fmt_var_inj in Heq. subst. lia.
      - apply fmt_var_inj in Heq. subst. lia. }
    pose proof (r_wf _ _ _ _ _ _ _ _ _ _ _ Hrel1) as Hwf1. pose proof (r_linv _ _ _ _ _ _ _ _ _ _ _ Hrel1) as Hli1.
    destruct (r_vars _ _ _ _ _ _ _ _ _ _ _ Hrel1 var Hin) as (cv1 & x1 & p1 & Hlk1 & Hnth1 & Hp1 & Hv1).
    rewrite Hlk in Hlk1. inversion Hlk1; subst cv1. clear Hlk1.
    assert (Hcr : c <= c < c0) by lia.
    (* the statements after the value, given a denotation of `res` *)
    assert (Hfinish : forall E2 stL2 F2 ss l2 newv,
               ExecS E1 ss stL1 (ROk (E2, SigNormal) stL2) -> lframe c c0 E1 stL1 E2 stL2 -> rel sc e st1 E2 stL2 ->
               (forall w, w < bound -> alut_get l2 w = None) ->
               denotes F2 E2 stL2 (aexpand l2 c) newv ->
               exists stL3, okstepS sc sc e (s_write st1 cv newv) F c c0 E stL
                              ((b1 ++ ss) ++ fst (agen_one u l2 (IAssign var c))) E2 stL3 F1).
    { intros E2 stL2 F2 ss l2 newv Hxs Hlf Hrel2 Hl2v Hden.
      assert (Hlok2 : lut_ok bound l2 c c) by (intros t [Ht|Ht]; [lia | apply Hl2v; exact Ht]).
      destruct (step_assign_user sc e st1 F2 c c E2 stL2 l2 var c newv cv Hrel2 Hlok2 Hin Hcvar Hlk Hden)
        as (stL3 & Hx3 & Hf3 & Hrel3 & _ & Hk3).
      exists stL3. split; [eapply ExecS_app; [eapply ExecS_app; eassumption | exact Hx3]|].
      split.
      { eapply wframe_trans; [eapply wframe_widen; [exact Hf1 | lia | lia]|].
        eapply wframe_trans; [apply lframe_w; exact Hlf | eapply wframe_widen; [exact Hf3 | lia | lia]]. }
      split; [exact Hrel3|]. split; [eapply F_new_widen; [exact Hn1 | lia | lia]|].
      eapply keep_trans; [exact Hk1|]. eapply keep_trans; [eapply keep_lframe; [exact Hrel1 | exact Hlf | exact Hbc] | exact Hk3]. }
    assert (Harith : forall bop opi',
               value_op bop = true -> binop_ir bop c var rv = Some opi' -> ucovers u [opi'; IAssign var c] ->
               SyltSem.bind
                 (SyltSem.bind (SyltSem.read_cell cv) (fun old =>
                  SyltSem.bind (SyltSem.as_value "compound assignment" old) (fun xo =>
                  SyltSem.bind (SyltSem.as_value "compound assignment" nv) (fun xn =>
                  SyltSem.bind (SyltSem.binop_val bop xo xn) (fun x => SyltSem.ret (SV x))))))
                 (fun r0 => SyltSem.bind (SyltSem.write_cell cv r0) (fun _ => SyltSem.ret e)) st1 = (r, st') ->
               exists b l', cshape u l (code_v ++ [opi'; IAssign var c]) b l' c c0 /\
                            stmt_post ctx sc sc e F c c0 E stL b r st').
    { intros bop opi' Hvop Hbi Hu2' Hev'.
      destruct (agen_binop u l1 bop c var rv opi' Hvop Hbi) as (Hgen & Hsimple & Huses).
      assert (Hcrv : 1 <= count_of u rv) by (eapply Hu2'; [left; reflexivity | rewrite Huses; right; left; reflexivity]).
      specialize (Hd1 Hcrv).
      destruct (denotes_now _ _ _ _ _ Hd1 Hwf1 Hli1) as (lvn & Hvn & _).
      assert (Hxn : exists xn, nv = SV xn) by (inversion Hvn; eauto). destruct Hxn as [xn ->].
      assert (Hxo : exists xo, x1 = SV xo) by (inversion Hv1; eauto). destruct Hxo as [xo ->].
      rewrite (compound_eq bop cv xo xn e st1 Hnth1) in Hev'.
      destruct (SyltSem.binop_val bop xo xn st1) as [[x|o|cc] st3] eqn:Hbv.
      2: { inversion Hev'; subst. apply binop_val_res in Hbv. apply stuckish_not_good in Hbv. contradiction. }
      2: { apply binop_val_res in Hbv. destruct Hbv. }
      pose proof (binop_val_state _ _ _ _ _ _ Hbv). subst st3. inversion Hev'; subst r st'. clear Hev'.
      assert (Hdo : denotes (var :: F1) E1 stL1 (aexpand l1 var) (SV xo)).
      { unfold aexpand. rewrite (Hl1u var Hvarb). eapply denotes_local; [left; reflexivity | exact Hp1 | exact Hv1]. }
      assert (Hdn : denotes (var :: F1) E1 stL1 (aexpand l1 rv) (SV xn))
        by (eapply denotes_mono; [exact Hd1 | apply fut_refl | apply incl_tl, incl_refl]).
      pose proof (denotes_binop (var :: F1) E1 stL1 bop _ _ xo xn x st1 st1 Hvop Hdo Hdn Hbv) as Hdr.
      destruct (op_iis u (var :: F1) E1 stL1 l1 c _ (SV x) c c0 Hwf1 Hli1 HE1c Hcr Hl1c Hdr)
        as (E2 & stL2 & F2 & Hx2 & Hfr2 & Ho2 & _ & Hden2 & Hrl2). specialize (Hden2 Hcres).
      destruct (Hfinish E2 stL2 F2 _ (snd (aiis u l1 c (bexpr bop (aexpand l1 var) (aexpand l1 rv)))) (SV x) Hx2 Hfr2
                        (Hrl2 pv sv bound fl W sc e st1 Hbc Hrel1)) as (stL3 & Hok3).
      { intros w Hw. rewrite (aiis_frame u l1 c _ c (c + 1)) by lia. apply Hl1u. exact Hw. }
      { exact Hden2. }
      eexists _, _. split.
      { eapply cshape_app'; [eapply cshape_widen; [exact Hs1 | lia | lia]|].
        eapply cshape_cons'; [apply (cshape_iis u l1 opi' c _ c c0 Hcr Hsimple Hgen)|].
        apply (cshape_plain u _ (IAssign var c) c c0); [lia | reflexivity | reflexivity | apply used_plain]. }
      cbn [stmt_post]. exists E2, stL3, F1.
      split; [|split; [apply sext_refl | apply incl_refl]].
      rewrite app_assoc. exact Hok3. }
    destruct op; try discriminate Hc.
    + (* = *)
      apply ret_ok in Hm0 as [<- _].
      assert (Hcrv : 1 <= count_of u rv) by (eapply Hu2; [left; reflexivity | left; reflexivity]).
      specialize (Hd1 Hcrv).
      destruct (denotes_now _ _ _ _ _ Hd1 Hwf1 Hli1) as (lv & Hvr & Hpe).
      destruct (op_local c c0 E1 stL1 c (aexpand l1 rv) lv Hwf1 Hli1 HE1c Hcr Hpe) as (stm & Hxm & Hexm & Hfrm).
      assert (Hg : fst (agen_one u l1 (ICopy c rv)) = [SLocal [fmt_var c] [aexpand l1 rv]]).
      { cbn [agen_one]. replace (0 <? count_of u c) with true by (symmetry; apply N.ltb_lt; lia).
        cbn [fst]. rewrite (aname_none l1 c Hl1c). reflexivity. }
      destruct (Hfinish _ _ (c :: F1) [SLocal [fmt_var c] [aexpand l1 rv]] l1 nv (ExecS_one _ _ _ _ Hexm) Hfrm) as (stL3 & Hok3).
      { apply (rel_op_local pv sv bound u fl W sc e st1 E1 stL1 stm c lv Hrel1 Hxm Hbc). }
      { exact Hl1u. }
      { unfold aexpand. rewrite Hl1c.
        eapply denotes_local; [left; reflexivity | apply sget_sset_same | rewrite get_cell_alloc_new; exact Hvr]. }
      assert (Hres : r = SyltSem.RVal e /\ st' = s_write st1 cv nv) by (cbn in Hev; inversion Hev; split; reflexivity).
      destruct Hres as [-> ->]. clear Hev.
      eexists _, _. split.
      { eapply cshape_app'; [eapply cshape_widen; [exact Hs1 | lia | lia]|].
        eapply cshape_cons'; [apply (cshape_plain u l1 (ICopy c rv) c c0); [lia | reflexivity | reflexivity | apply used_plain]|].
        apply (cshape_plain u l1 (IAssign var c) c c0); [lia | reflexivity | reflexivity | apply used_plain]. }
      cbn [stmt_post]. exists (sset (fmt_var c) (s_ncell stm) E1), stL3, F1.
      split; [|split; [apply sext_refl | apply incl_refl]].
      rewrite Hg, app_assoc. exact Hok3.
    + apply ret_ok in Hm0 as [<- _]. exact (Harith Add _ eq_refl eq_refl Hu2 Hev).
    + apply ret_ok in Hm0 as [<- _]. exact (Harith Sub _ eq_refl eq_refl Hu2 Hev).
    + apply ret_ok in Hm0 as [<- _]. exact (Harith Mul _ eq_refl eq_refl Hu2 Hev).
  - (* SDefinition *)
    destruct (frag_stmt_def pv sv bound fl _ _ _ _ _ _ _ _ _ Hfrag) as (Hnf & Hfresh & Hfe & ->).
    destruct (fresh_id_inv _ _ Hfresh) as (Hnin & Hnpv & Hnsv & Hvb).
    cbn [statement] in Hlow. destruct g as [|g']; [discriminate|].
    rewrite (definition_nonfun g' var value ctx Hnf) in Hlow. mon Hlow.
    destruct a as [code_v rv]. cbn [fst snd] in *.
    apply ucovers_cons in Hu as [Hu1 Hu]. apply ucovers_app in Hu as [Huv Hua].
    assert (Hcvar : 1 <= count_of u var) by (apply Hu1; left; reflexivity).
    assert (Hcrv : 1 <= count_of u rv) by (eapply Hua; [left; reflexivity | right; left; reflexivity]).
    destruct (L_expr_all pv sv bound u fl g' k value ctx c code_v rv c' (var :: sc) l Hm Hfe) as (_ & _ & (_ & Hcc & _) & Hrv1 & Hrv2).
    set (e' := (var, length (SyltSem.cells st)) :: e).
    assert (Hlcc : lut_ok bound l c c) by (eapply lut_ok_sub; [apply (cx_lut _ _ _ _ _ _ Hctx) | lia | lia]).
    destruct (step_define_user sc e st F c E stL l var Hrel Hlcc Hfresh Hcvar) as (E1 & stL1 & Hokd).
    assert (Hsd : cshape u l [IDefine var] (fst (agen_one u l (IDefine var))) l c c)
      by (apply cshape_plain; [lia | reflexivity | reflexivity | apply used_plain]).
    assert (Hctx1 : ctx_ok l F E1 c c') by (eapply ctx_afterS; eassumption).
    pose proof Hokd as (Hxd & _ & Hrel1 & _).
    assert (Hse : sext sc e e').
    { intros w Hw. unfold e'. cbn [SyltSem.lookup]. destruct (N.eqb_spec var w) as [->|]; [|reflexivity].
      destruct Hw as [Hw|[Hw|Hw]]; [contradiction | congruence | destruct (fresh_id_fl _ _ Hfresh Hw)]. }
    cbn [SyltSem.exec] in Hev. unfold SyltSem.bind at 1 in Hev. rewrite new_cell_eq in Hev.
    fold e' in Hev. unfold SyltSem.bind at 1 in Hev.
    destruct (SyltSem.eval n e' value (s_alloc st (SV Values.VLuaNil))) as [[v_|o|cc] st1] eqn:He1.
    2: { inversion Hev; subst.
         destruct (IHe g' k value ctx c code_v rv c' e' _ _ st' (var :: sc) l E1 stL1 F He1 Hm Hfe Huv Hctx1 Hrel1 Hint)
           as (b1 & l1 & Hs1 & _ & _ & Hp1).
         eexists _, _. split.
         - eapply cshape_cons; [exact Hsd|]. eapply cshape_app; [exact Hs1|].
           apply (cshape_plain u l1 (IAssign var rv) c' c'); [lia | reflexivity | reflexivity | apply used_plain].
         - cbn [stmt_post eval_post] in *.
           eapply (exit_pre pv sv bound u fl W ctx sc (var :: sc) e e' st (s_alloc st (SV Values.VLuaNil)));
             [exact Hokd | exact Hrel | exact Hse | apply incl_tl, incl_refl | eapply exit_app; [exact Hp1 | apply N.le_refl] | lia | lia]. }
    2: { inversion Hev; subst.
         destruct (IHe g' k value ctx c code_v rv c' e' _ _ st' (var :: sc) l E1 stL1 F He1 Hm Hfe Huv Hctx1 Hrel1 Hint)
           as (b1 & l1 & Hs1 & _ & _ & Hp1).
         eexists _, _. split.
         - eapply cshape_cons; [exact Hsd|]. eapply cshape_app; [exact Hs1|].
           apply (cshape_plain u l1 (IAssign var rv) c' c'); [lia | reflexivity | reflexivity | apply used_plain].
         - cbn [stmt_post eval_post] in *.
           eapply (exit_pre pv sv bound u fl W ctx sc (var :: sc) e e' st (s_alloc st (SV Values.VLuaNil)));
             [exact Hokd | exact Hrel | exact Hse | apply incl_tl, incl_refl | eapply exit_app; [exact Hp1 | apply N.le_refl] | lia | lia]. }
    destruct (IHe g' k value ctx c code_v rv c' e' _ _ st1 (var :: sc) l E1 stL1 F He1 Hm Hfe Huv Hctx1 Hrel1 I)
      as (b1 & l1 & Hs1 & _ & _ & E2 & stL2 & F2 & Hok2 & Hd2). specialize (Hd2 Hcrv).
    pose proof Hok2 as (_ & _ & Hrel2 & _).
    assert (Hctx2 : ctx_ok l1 F2 E2 c' c') by (eapply (ctx_after pv sv bound u fl W); eassumption).
    unfold SyltSem.bind at 1 in Hev. rewrite write_cell_eq in Hev. cbn in Hev. inversion Hev; subst r st'. clear Hev.
    assert (Hlk : SyltSem.lookup e' var = Some (length (SyltSem.cells st))) by (unfold e'; cbn [SyltSem.lookup]; rewrite N.eqb_refl; reflexivity).
    destruct (step_assign_user (var :: sc) e' st1 F2 c' c' E2 stL2 l1 var rv v_ _ Hrel2 (cx_lut _ _ _ _ _ _ Hctx2) (or_introl eq_refl) Hcvar Hlk Hd2)
      as (stL3 & Hok3).
    eexists _, _. split.
    + eapply cshape_cons; [exact Hsd|]. eapply cshape_app; [exact Hs1|].
      apply (cshape_plain u l1 (IAssign var rv) c' c'); [lia | reflexivity | reflexivity | apply used_plain].
    + cbn [stmt_post]. exists E2, stL3, F2. split; [|split; [exact Hse | apply incl_tl, incl_refl]].
      eapply okstepS_trans; [exact Hokd | | apply incl_tl, incl_refl | lia | lia].
      eapply okstepS_trans; [exact Hok2 | exact Hok3 | apply incl_refl | lia | lia].
  - (* SLoop *)
    rewrite frag_stmt_loop in Hfrag.
    destruct (noexit_expr k condition && frag_expr pv sv bound fl k sc condition && is_some (frag_stmts pv sv bound fl k sc body))%bool eqn:Hc; [|discriminate Hfrag].
    inversion Hfrag; subst sc'. clear Hfrag.
    frag_split Hc. destruct (frag_stmts pv sv bound fl k sc body) as [[scb flb]|] eqn:Hfb; [|discriminate Hfr].
    cbn [statement] in Hlow. mon Hlow. fresh_all.
    destruct a as [code_c vc]. cbn [fst snd] in *.
    apply lower_list_ok in Hm1 as (cs & Hmb & ->).
    assert (Hcode : [ILoop; ILabel c0] ++ code_c ++ [IIf vc; IElse; IBreak; IEnd] ++ concat cs ++ [IEnd]
                    = ILoop :: ILabel c0 :: (code_c ++ (IIf vc :: [] ++ IElse :: [IBreak] ++ [IEnd]) ++ concat cs) ++ [IEnd])
      by (cbn [app]; rewrite <- !app_assoc; reflexivity).
    rewrite Hcode in *. clear Hcode.
    apply ucovers_cons in Hu as [_ Hu]. apply ucovers_cons in Hu as [_ Hu]. apply ucovers_app in Hu as [Hu _].
    apply ucovers_app in Hu as [Huc Hu]. apply ucovers_app in Hu as [Huif Hub].
    assert (Hcvc : 1 <= count_of u vc) by (eapply Huif; [left; reflexivity | left; reflexivity]).
    (* structure *)
    destruct (L_expr_all pv sv bound u fl g k condition ctx c code_c vc c0 sc l Hm Hfr0) as (bc0 & lc0 & Hsc0 & _ & _).
    pose proof Hsc0 as (_ & Hcc0 & _).
    assert (HLb : forall l0, exists bb l2, cshape u l0 (concat cs) bb l2 (c0 + 1) c')
      by (intros l0; eapply (L_stmts_all pv sv bound u fl g); eassumption).
    destruct (HLb lc0) as (bb0 & l20 & Hsb0). pose proof Hsb0 as (_ & Hc0c' & _).
    assert (Hmk : forall bc l1 bb l2, cshape u l code_c bc l1 c c0 -> cshape u l1 (concat cs) bb l2 (c0 + 1) c' ->
              cshape u l (code_c ++ (IIf vc :: [] ++ IElse :: [IBreak] ++ [IEnd]) ++ concat cs)
                     (bc ++ [SIf (aexpand l1 vc) [] [SBreak]] ++ bb) l2 c c').
    { intros bc l1 bb l2 Hs1 Hs2.
      eapply cshape_app'; [eapply cshape_widen; [exact Hs1 | lia | lia]|].
      eapply cshape_app'; [|eapply cshape_widen; [exact Hs2 | lia | lia]].
      eapply cshape_ifelse; [apply cshape_nil'; lia|].
      apply (cshape_plain u l1 IBreak c c'); [lia | reflexivity | reflexivity | reflexivity]. }
    pose proof (Hmk _ _ _ _ Hsc0 Hsb0) as HsBB.
    remember (bc0 ++ [SIf (aexpand lc0 vc) [] [SBreak]] ++ bb0) as BB eqn:HBBdef. clear HBBdef.
    assert (Hsame : forall bc l1 bb l2, cshape u l code_c bc l1 c c0 -> cshape u l1 (concat cs) bb l2 (c0 + 1) c' ->
              bc ++ [SIf (aexpand l1 vc) [] [SBreak]] ++ bb = BB).
    { intros bc l1 bb l2 Hs1 Hs2. destruct (Hmk _ _ _ _ Hs1 Hs2) as (He1 & _). destruct HsBB as (He2 & _).
      rewrite (Emits_block_fun _ _ _ _ He1), (Emits_block_fun _ _ _ _ He2). reflexivity. }
    assert (HnlBB : nolabel BB) by apply HsBB.
    assert (Hctxc : ctx_ok l F E c c0) by (eapply ctx_sub; [exact Hctx | lia | lia]).
    eexists _, _. split; [apply cshape_loop; exact HsBB|].
    rewrite exec_loop_eq in Hev.
    (* the runs of the loop *)
    assert (Hiter : forall m s0 sL0 r0 s0',
              loop_go n e condition body m s0 = (r0, s0') -> interesting r0 -> rel sc e s0 E sL0 ->
              match r0 with
              | SyltSem.RVal e' =>
                  e' = e /\ exists sL', LoopR E (fmt_label c0) BB sL0 (ROk SigNormal sL') /\ rel sc e s0' E sL' /\
                                         xkeep bound c c' E sL0 sL'
              | SyltSem.RStop o => exists ev sL', LoopR E (fmt_label c0) BB sL0 (RErr ev sL') /\ SyltSem.trace s0' = s_out sL'
              | SyltSem.RAbrupt (SyltSem.CReturn v) =>
                  exists sL' lv, LoopR E (fmt_label c0) BB sL0 (ROk (SigReturn [lv]) sL') /\ vrel v lv /\ rel sc e s0' E sL' /\
                                 xkeep bound c c' E sL0 sL'
              | SyltSem.RAbrupt _ => False
              end).
    { clear Hev Hrel Hint r st'.
      induction m as [|m IHm]; intros s0 sL0 r0 s0' Hgo Hi0 Hrel0.
      { cbn in Hgo. inversion Hgo; subst. destruct Hi0. }
      (* one more pass, then the rest of the loop *)
      assert (Hcont : forall s2 E2 sg sL2, sg = SigNormal \/ sg = SigGoto (fmt_label c0) ->
                ExecS E BB sL0 (ROk (E2, sg) sL2) -> rel sc e s2 E sL2 -> xkeep bound c c' E sL0 sL2 ->
                loop_go n e condition body m s2 = (r0, s0') ->
                match r0 with
                | SyltSem.RVal e' =>
                    e' = e /\ exists sL', LoopR E (fmt_label c0) BB sL0 (ROk SigNormal sL') /\ rel sc e s0' E sL' /\
                                           xkeep bound c c' E sL0 sL'
                | SyltSem.RStop o => exists ev sL', LoopR E (fmt_label c0) BB sL0 (RErr ev sL') /\ SyltSem.trace s0' = s_out sL'
                | SyltSem.RAbrupt (SyltSem.CReturn v) =>
                    exists sL' lv, LoopR E (fmt_label c0) BB sL0 (ROk (SigReturn [lv]) sL') /\ vrel v lv /\ rel sc e s0' E sL' /\
                                   xkeep bound c c' E sL0 sL'
                | SyltSem.RAbrupt _ => False
                end).
      { intros s2 E2 sg sL2 Hsg Hx2 Hrel2 Hk2 Hgo2.
        assert (Hstep : forall rr, LoopR E (fmt_label c0) BB sL2 rr -> LoopR E (fmt_label c0) BB sL0 rr).
        { intros rr Hrr. destruct Hsg as [-> | ->]; [eapply LR_normal; eassumption | eapply LR_continue; eassumption]. }
        pose proof (IHm s2 sL2 r0 s0' Hgo2 Hi0 Hrel2) as Hr.
        destruct r0 as [e'|o|[| |v]]; [| | exact Hr | exact Hr |].
        - destruct Hr as (-> & sL' & HL & Hr' & Hk'). split; [reflexivity|]. exists sL'.
          split; [apply Hstep; exact HL | split; [exact Hr' | eapply xkeep_trans; eassumption]].
        - destruct Hr as (ev & sL' & HL & Htr). exists ev, sL'. split; [apply Hstep; exact HL | exact Htr].
        - destruct Hr as (sL' & lv & HL & Hv & Hr' & Hk'). exists sL', lv.
          split; [apply Hstep; exact HL | split; [exact Hv | split; [exact Hr' | eapply xkeep_trans; eassumption]]]. }
      (* a pass that ends the loop, goes on with continue, or fails *)
      assert (Hterm : forall (rr : SyltSem.res senv) s2, exit_post pv sv bound u fl W c0 sc e c c' E sL0 BB rr s2 ->
                match rr with
                | SyltSem.RStop o => exists ev sL', LoopR E (fmt_label c0) BB sL0 (RErr ev sL') /\ SyltSem.trace s2 = s_out sL'
                | SyltSem.RAbrupt SyltSem.CBreak =>
                    exists sL', LoopR E (fmt_label c0) BB sL0 (ROk SigNormal sL') /\ rel sc e s2 E sL' /\ xkeep bound c c' E sL0 sL'
                | SyltSem.RAbrupt SyltSem.CContinue =>
                    exists E' sL', ExecS E BB sL0 (ROk (E', SigGoto (fmt_label c0)) sL') /\ rel sc e s2 E sL' /\ xkeep bound c c' E sL0 sL'
                | SyltSem.RAbrupt (SyltSem.CReturn v) =>
                    exists sL' lv, LoopR E (fmt_label c0) BB sL0 (ROk (SigReturn [lv]) sL') /\ vrel v lv /\ rel sc e s2 E sL' /\
                                   xkeep bound c c' E sL0 sL'
                | _ => True
                end).
      { intros rr s2 (rl & Hx & Hok). destruct rr as [x|o|[| |v]]; cbn [exit_ok] in Hok; try exact I.
        4: { destruct Hok as (E' & sL' & lv & -> & Hv & Hr & Hk). exists sL', lv. split; [eapply LR_return; exact Hx | auto]. }
        - destruct Hok as (ev & sL' & -> & Htr). exists ev, sL'. split; [apply LR_err; exact Hx | exact Htr].
        - destruct Hok as (E' & sL' & -> & Hr & Hk). exists sL'. split; [eapply LR_break; exact Hx | split; assumption].
        - destruct Hok as (E' & sL' & -> & Hr & Hk). exists E', sL'. split; [exact Hx | split; assumption]. }
      rewrite loop_go_S in Hgo. unfold SyltSem.bind at 1 in Hgo.
      destruct (SyltSem.eval n e condition s0) as [[cv|o|a] s1] eqn:Hec.
      3: { exfalso. exact (noexit_noab n k e condition s0 _ s1 Hc Hec). }
      2: { inversion Hgo; subst r0 s0'.
           destruct (IHe g k condition ctx c code_c vc c0 e s0 _ s1 sc l E sL0 F Hec Hm Hfr0 Huc Hctxc Hrel0 Hi0)
             as (bc & l1 & Hs1 & _ & _ & rl & Hx & Hok).
           destruct (HLb l1) as (bb & l2' & Hs2). pose proof (Hsame _ _ _ _ Hs1 Hs2) as HeqBB.
           cbn [exit_ok] in Hok. destruct Hok as (ev & sL' & -> & Htr).
           exists ev, sL'. split; [|exact Htr]. apply LR_err. rewrite <- HeqBB. apply ExecS_app_stop; [exact Hx | intros []]. }
      destruct (IHe g k condition ctx c code_c vc c0 e s0 _ s1 sc l E sL0 F Hec Hm Hfr0 Huc Hctxc Hrel0 I)
        as (bc & l1 & Hs1 & _ & _ & E1 & sL1 & F1 & Hok1 & Hd1). specialize (Hd1 Hcvc).
      pose proof Hok1 as (Hx1 & Hf1 & Hrel1 & Hn1 & Hk1).
      assert (Hctx1 : ctx_ok l1 F1 E1 c0 c') by (eapply (ctx_after pv sv bound u fl W); eassumption).
      pose proof (r_wf _ _ _ _ _ _ _ _ _ _ _ Hrel1) as Hwf1. pose proof (r_linv _ _ _ _ _ _ _ _ _ _ _ Hrel1) as Hli1.
      destruct (denotes_now _ _ _ _ _ Hd1 Hwf1 Hli1) as (lvc & Hvvc & stc & Hevc & _ & Hxc).
      unfold SyltSem.bind at 1 in Hgo.
      assert (Hbc : exists bcv, cv = SV (Values.VBool bcv)).
      { inversion Hvvc; subst; cbn in Hgo; inversion Hgo; subst; try destruct Hi0. eauto. }
      destruct Hbc as [bcv ->]. cbn [SyltSem.truth SyltSem.ret] in Hgo. inversion Hvvc; subst lvc.
      assert (Hrelc : rel sc e s1 E1 stc) by (eapply rel_cells_ext; eassumption).
      destruct bcv.
      - (* the condition holds: the body *)
        assert (Hokif : okstep sc e s1 F1 c0 c0 E1 sL1 [SIf (aexpand l1 vc) [] [SBreak]] E1 stc F1).
        { eapply (okstep_if pv sv bound u fl W sc e s1 s1 F1 c0 c0 E1 sL1 _ [] [SBreak] (VBool true) stc E1 stc);
            [exact Hrel1 | exact Hevc | exact Hxc | cbn [truthy]; constructor | cbn [truthy]; apply XS_nil | exact Hrelc |].
          split; [apply Pos.le_refl | intros; reflexivity]. }
        assert (Hokp : okstep sc e s1 F c c0 E sL0 (bc ++ [SIf (aexpand l1 vc) [] [SBreak]]) E1 stc F1)
          by (eapply okstep_trans; [exact Hok1 | exact Hokif | lia | lia]).
        assert (Hctxb : ctx_ok l1 F1 E1 (c0 + 1) c') by (eapply ctx_sub; [exact Hctx1 | lia | lia]).
        destruct (SyltSem.exec_block n e body s1) as [rb s2] eqn:Heb.
        assert (Hintb : interesting rb).
        { destruct rb as [e2|o|[| |v]]; cbn [interesting]; auto.
          inversion Hgo; subst. exact Hi0. }
        destruct (IHss g k body c0 (c0 + 1) cs c' e s1 rb s2 sc scb flb l1 E1 stc F1 Heb Hmb Hfb Hub Hctxb Hrelc Hintb)
          as (bb & l2' & Hs2 & Hpost).
        pose proof (Hsame _ _ _ _ Hs1 Hs2) as HeqBB. rewrite app_assoc in HeqBB.
        assert (Hxp : match rb with SyltSem.RVal _ => True | _ => exit_post pv sv bound u fl W c0 sc e c c' E sL0 BB rb s2 end).
        { destruct rb as [e2|o|a]; [exact I | |]; rewrite <- HeqBB; cbn [blk_post] in Hpost.
          - eapply (exit_pre_gen pv sv bound u fl W c0 sc sc e e s0 s1 F F1 c c0 (c0 + 1) c' c c' E sL0 _ E1 stc bb);
              [exact Hokp | exact Hrel0 | apply sext_refl | apply incl_refl | exact Hpost | lia | lia | lia | lia].
          - eapply (exit_pre_gen pv sv bound u fl W c0 sc sc e e s0 s1 F F1 c c0 (c0 + 1) c' c c' E sL0 _ E1 stc bb);
              [exact Hokp | exact Hrel0 | apply sext_refl | apply incl_refl | exact Hpost | lia | lia | lia | lia]. }
        destruct rb as [e2|o|[| |v]].
        + (* the body ran to its end *)
          cbn [blk_post] in Hpost. destruct Hpost as (W2 & E2 & sL2 & F2 & Hx2 & Hf2 & Hrel2 & Hw2 & _ & Hk2 & Hse2 & Hinc2).
          destruct Hokp as (Hxp0 & Hfp & _ & _ & Hkp).
          assert (Hfall : wframe bound c c' E sL0 E2 sL2)
            by (eapply wframe_trans; [eapply wframe_widen; [exact Hfp | lia | lia] | eapply wframe_widen; [exact Hf2 | lia | lia]]).
          eapply (Hcont s2 E2 SigNormal sL2); [left; reflexivity | rewrite <- HeqBB; eapply ExecS_app; eassumption | | | exact Hgo].
          * eapply (rel_leave pv sv bound u fl W flb W2 sc scb e e2 s0 s2 E E2 sL0 sL2);
              [exact Hrel0 | exact Hrel2 | exact Hw2 | eapply frag_stmts_flincl; exact Hfb | exact Hinc2 | exact Hse2 | eapply keep_trans; eassumption
               | apply (wr_incl _ _ _ _ _ _ _ Hfall) | apply (wr_ncell _ _ _ _ _ _ _ Hfall)].
          * eapply xkeep_of_wframe. exact Hfall.
        + (* the body failed *)
          inversion Hgo; subst r0 s0'. exact (Hterm _ _ Hxp).
        + (* break *)
          inversion Hgo; subst r0 s0'. split; [reflexivity | exact (Hterm _ _ Hxp)].
        + (* continue *)
          destruct (Hterm _ _ Hxp) as (E' & sL' & Hx' & Hr' & Hk').
          eapply (Hcont s2 E' (SigGoto (fmt_label c0)) sL'); [right; reflexivity | exact Hx' | exact Hr' | exact Hk' | exact Hgo].
        + (* ret *)
          inversion Hgo; subst r0 s0'. exact (Hterm _ _ Hxp).
      - (* the condition fails: break *)
        inversion Hgo; subst r0 s0'. split; [reflexivity|].
        destruct (HLb l1) as (bb & l2' & Hs2). pose proof (Hsame _ _ _ _ Hs1 Hs2) as HeqBB. rewrite app_assoc in HeqBB.
        assert (Hxif : exit_post pv sv bound u fl W c0 sc e c0 c0 E1 sL1 [SIf (aexpand l1 vc) [] [SBreak]] (SyltSem.RAbrupt SyltSem.CBreak : SyltSem.res senv) s1).
        { exists (ROk (E1, SigBreak) stc). split.
          - apply XS_stop; [|intros []]. eapply Exec_if; [exact Hevc|]. cbn [truthy].
            apply ExecBlock_of_ExecS_nil; [apply XS_stop; [apply Exec_break | intros []] | repeat constructor].
          - cbn [exit_ok]. exists E1, stc. split; [reflexivity | split; [exact Hrelc|]].
            eapply xkeep_cells_ext; [exact Hwf1 | exact Hxc |]. split; [apply Pos.le_refl | intros; reflexivity]. }
        assert (Hxp : exit_post pv sv bound u fl W c0 sc e c c' E sL0 BB (SyltSem.RAbrupt SyltSem.CBreak : SyltSem.res senv) s1).
        { rewrite <- HeqBB. eapply exit_app; [|apply N.le_refl].
          eapply (exit_pre_gen pv sv bound u fl W c0 sc sc e e s0 s1 F F1 c c0 c0 c0 c c' E sL0 bc E1 sL1);
            [exact Hok1 | exact Hrel0 | apply sext_refl | apply incl_refl | exact Hxif | lia | lia | lia | lia]. }
        exact (Hterm _ _ Hxp). }
    pose proof (Hiter n st stL r st' Hev Hint Hrel) as Hres. clear Hiter.
    destruct r as [e'|o|[| |v]]; [| |destruct Hres|destruct Hres|].
    3: { destruct Hres as (sL' & lv & HL & Hv & Hr' & Hk'). cbn [stmt_post]. exists (ROk (E, SigReturn [lv]) sL'). split.
         - apply XS_stop; [|intros []]. apply (Exec_while_ok E (fmt_label c0) BB E stL (SigReturn [lv]) sL' eq_refl).
           apply (LoopR_sound E (fmt_label c0) BB HnlBB). exact HL.
         - cbn [exit_ok]. exists E, sL', lv. auto. }
    + destruct Hres as (-> & sL' & HL & Hr' & Hk').
      cbn [stmt_post]. exists E, sL', F. split; [|split; [apply sext_refl | apply incl_refl]].
      split.
      { apply ExecS_one. apply (Exec_while_ok E (fmt_label c0) BB E stL SigNormal sL' eq_refl).
        apply (LoopR_sound E (fmt_label c0) BB HnlBB). exact HL. }
      split; [apply wframe_of_xkeep; exact Hk'|]. split; [exact Hr' | split; [apply F_new_refl | apply keep_refl]].
    + destruct Hres as (ev & sL' & HL & Htr). cbn [stmt_post]. exists (RErr ev sL'). split.
      * apply XS_stop; [|intros []]. apply (Exec_while_err E (fmt_label c0) BB).
        apply (LoopR_sound E (fmt_label c0) BB HnlBB). exact HL.
      * cbn [exit_ok]. exists ev, sL'. split; [reflexivity | exact Htr].
  - (* SBreak *)
    inversion Hfrag; subst sc'. cbn in Hlow. inversion Hlow; subst code c'. cbn in Hev. inversion Hev; subst r st'.
    eexists _, _. split; [apply (cshape_plain u l IBreak c c); [lia | reflexivity | reflexivity | reflexivity]|].
    cbn [stmt_post agen_one fst]. exists (ROk (E, SigBreak) stL). split; [apply XS_stop; [apply Exec_break | intros []]|].
    cbn [exit_ok]. exists E, stL. split; [reflexivity | split; [exact Hrel | split; [lia | auto]]].
  - (* SContinue *)
    inversion Hfrag; subst sc'. cbn in Hlow. inversion Hlow; subst code c'. cbn in Hev. inversion Hev; subst r st'.
    eexists _, _. split; [apply (cshape_plain u l (IGoto ctx) c c); [lia | reflexivity | reflexivity | reflexivity]|].
    cbn [stmt_post agen_one fst]. exists (ROk (E, SigGoto (fmt_label ctx)) stL). split; [apply XS_stop; [apply Exec_goto | intros []]|].
    cbn [exit_ok]. exists E, stL. split; [reflexivity | split; [exact Hrel | split; [lia | auto]]].
  - (* SRet *)
    destruct value as [value|]; [|discriminate Hfrag]. rewrite frag_stmt_ret in Hfrag. cbn [statement] in Hlow. mon Hlow.
    destruct (frag_expr pv sv bound fl k sc value) eqn:Hfe; [|discriminate Hfrag]. inversion Hfrag; subst sc'.
    destruct a as [code_v rv]. cbn [fst snd] in *.
    apply ucovers_app in Hu as [Huv Hur].
    assert (Hcrv : 1 <= count_of u rv) by (eapply Hur; [left; reflexivity | left; reflexivity]).
    assert (Hret : forall l0, cshape u l0 [IReturn rv] (fst (agen_one u l0 (IReturn rv))) l0 c' c')
      by (intros l0; apply cshape_plain; [lia | reflexivity | reflexivity | reflexivity]).
    cbn [SyltSem.exec] in Hev. unfold SyltSem.bind at 1 in Hev.
    destruct (SyltSem.eval n e value st) as [[v_|o|cc] st1] eqn:He1.
    2,3: (inversion Hev; subst;
          destruct (IHe g k value ctx c code_v rv c' e st _ st' sc l E stL F He1 Hm Hfe Huv Hctx Hrel Hint) as (b1 & l1 & Hs1 & _ & _ & Hp1);
          eexists _, _; (split; [eapply cshape_app; [exact Hs1 | apply Hret]|]);
          cbn [stmt_post eval_post] in *; eapply exit_app; [exact Hp1 | apply N.le_refl]).
    cbn in Hev. inversion Hev; subst r st'. clear Hev.
    destruct (IHe g k value ctx c code_v rv c' e st _ st1 sc l E stL F He1 Hm Hfe Huv Hctx Hrel I)
      as (b1 & l1 & Hs1 & _ & _ & E2 & stL2 & F2 & Hok2 & Hd2). specialize (Hd2 Hcrv).
    pose proof Hok2 as (Hx2 & Hf2 & Hrel2 & _ & Hk2).
    eexists _, _. split; [eapply cshape_app; [exact Hs1 | apply Hret]|].
    destruct (denotes_now _ _ _ _ _ Hd2 (r_wf _ _ _ _ _ _ _ _ _ _ _ Hrel2) (r_linv _ _ _ _ _ _ _ _ _ _ _ Hrel2)) as (lv & Hv & st3 & _ & Hm3 & Hx3).
    cbn [stmt_post]. exists (ROk (E2, SigReturn [lv]) st3). split.
    + eapply ExecS_app; [exact Hx2|]. cbn [agen_one fst]. apply XS_stop; [|intros []].
      eapply Exec_do. apply ExecBlock_of_ExecS; [|repeat constructor | intros []].
      apply XS_stop; [|intros []]. apply Exec_return. apply EvalList_one. exact Hm3.
    + cbn [exit_ok]. exists E2, st3, lv. split; [reflexivity|]. split; [exact Hv|].
      assert (Hn3 : (s_ncell stL2 <= s_ncell st3)%positive) by (destruct Hx3 as (_ & _ & _ & _ & _ & _ & H & _); exact H).
      pose proof (wr_ncell _ _ _ _ _ _ _ Hf2) as Hn2.
      split.
      * eapply (rel_restrict pv sv bound u fl W sc e st e st1 E E2 stL st3); [exact Hrel | eapply rel_cells_ext; eassumption | exact Hk2 | apply (wr_incl _ _ _ _ _ _ _ Hf2) | lia].
      * split; [lia|]. intros t p Hbt Hr Hp.
        destruct Hx3 as (_ & _ & _ & _ & _ & _ & _ & Hg). rewrite Hg by (pose proof (wf_alloc _ _ (r_wf _ _ _ _ _ _ _ _ _ _ _ Hrel) _ _ Hp); lia).
        apply (wr_cells _ _ _ _ _ _ _ Hf2 t p Hbt Hr Hp).
  - (* SBlock *)
    rewrite frag_stmt_block in Hfrag. cbn [statement] in Hlow. apply lower_list_ok in Hlow as (cs & Hm & ->).
    destruct (frag_stmts pv sv bound fl k sc statements) as [[sc1 fl1]|] eqn:Hs; [|discriminate Hfrag]. inversion Hfrag; subst sc'.
    cbn [SyltSem.exec] in Hev. unfold SyltSem.bind at 1 in Hev.
    destruct (SyltSem.exec_block n e statements st) as [[e1|o|cc] st1] eqn:He1.
    2: { inversion Hev; subst.
         destruct (IHss g k statements ctx c cs c' e st _ st' sc sc1 fl1 l E stL F He1 Hm Hs Hu Hctx Hrel Hint) as (b1 & l1 & Hs1 & Hpost).
         eexists _, _. split; [exact Hs1 | exact Hpost]. }
    2: { inversion Hev; subst.
         destruct (IHss g k statements ctx c cs c' e st _ st' sc sc1 fl1 l E stL F He1 Hm Hs Hu Hctx Hrel Hint) as (b1 & l1 & Hs1 & Hpost).
         eexists _, _. split; [exact Hs1 | exact Hpost]. }
    cbn in Hev. inversion Hev; subst r st'. clear Hev.
    destruct (IHss g k statements ctx c cs c' e st _ st1 sc sc1 fl1 l E stL F He1 Hm Hs Hu Hctx Hrel I)
      as (b1 & l1 & Hs1 & W1 & E1 & stL1 & F1 & Hx1 & Hf1 & Hrel1 & Hw1 & Hn1 & Hk1 & Hse1 & Hinc1).
    eexists _, _. split; [exact Hs1|].
    cbn [stmt_post]. exists E1, stL1, F1. split; [|split; [apply sext_refl | apply incl_refl]].
    split; [exact Hx1|]. split; [exact Hf1|]. split; [|split; assumption].
    eapply (rel_shrink_w pv sv bound u fl W fl1 W1 sc sc1 e e1); [exact Hrel | exact Hrel1 | exact Hw1 | eapply frag_stmts_flincl; exact Hs | exact Hinc1 | exact Hse1].
  - (* SStatementExpression *)
    rewrite frag_stmt_sexpr in Hfrag. cbn [statement] in Hlow. mon Hlow.
    destruct (frag_expr pv sv bound fl k sc value) eqn:Hfe; [|discriminate Hfrag]. inversion Hfrag; subst sc'.
    destruct a as [code_v rv]. cbn [fst] in *.
    cbn [SyltSem.exec] in Hev. unfold SyltSem.bind at 1 in Hev.
    destruct (SyltSem.eval n e value st) as [[v_|o|cc] st1] eqn:He1.
    2: { inversion Hev; subst.
         destruct (IHe g k value ctx c code_v rv c' e _ _ st' sc l E stL F He1 Hm Hfe Hu Hctx Hrel Hint)
           as (b1 & l1 & Hs1 & _ & _ & Hpost).
         eexists _, _. split; [exact Hs1 | exact Hpost]. }
    2: { inversion Hev; subst.
         destruct (IHe g k value ctx c code_v rv c' e _ _ st' sc l E stL F He1 Hm Hfe Hu Hctx Hrel Hint)
           as (b1 & l1 & Hs1 & _ & _ & Hpost).
         eexists _, _. split; [exact Hs1 | exact Hpost]. }
    cbn in Hev. inversion Hev; subst r st'. clear Hev.
    destruct (IHe g k value ctx c code_v rv c' e _ _ st1 sc l E stL F He1 Hm Hfe Hu Hctx Hrel I)
      as (b1 & l1 & Hs1 & _ & _ & E2 & stL2 & F2 & Hok2 & _).
    eexists _, _. split; [exact Hs1|].
    cbn [stmt_post]. exists E2, stL2, F2. split; [exact Hok2 | split; [apply sext_refl | apply incl_refl]].
Qed.

(* two parts one after the other, both inside [lo, hi) *)
Lemma okstepS_trans_gen sc sc1 sc2 e1 st1 e2 st2 F F1 F2 a b a2 b2 lo hi E stL b1 E1 stL1 bl2 E2 stL2 :
  okstepS sc sc1 e1 st1 F a b E stL b1 E1 stL1 F1 -> okstepS sc1 sc2 e2 st2 F1 a2 b2 E1 stL1 bl2 E2 stL2 F2 ->
  incl sc sc1 -> lo <= a -> b <= hi -> lo <= a2 -> b2 <= hi ->
  okstepS sc sc2 e2 st2 F lo hi E stL (b1 ++ bl2) E2 stL2 F2.
Proof.
  intros (Hx1 & Hf1 & Hr1 & (Hi1 & Hn1) & Hk1) (Hx2 & Hf2 & Hr2 & (Hi2 & Hn2) & Hk2) Hi Ha Hb Ha2 Hb2.
  split; [eapply ExecS_app; eassumption|]. split.
  - eapply wframe_trans; [eapply wframe_widen; [exact Hf1 | lia | lia] | eapply wframe_widen; [exact Hf2 | lia | lia]].
  - split; [exact Hr2|]. split.
    + split; [eapply incl_tran; eassumption|]. intros t Ht. destruct (Hn2 t Ht) as [H|H]; [|right; lia].
      destruct (Hn1 t H) as [H'|H']; [left; exact H' | right; lia].
    + eapply keep_trans_incl; eassumption.
Qed.

End Sim.

(* ------------------------------------------------------------------ the body of an if-branch *)
Section Bv.
Variable pv : N.
Variable sv : N.
Variable bound : N.
Variable u : counts.
Variable fl : list (N * kind).
Variable W : world.

Notation rel := (rel pv sv bound u fl W).
Notation ctx_ok := (ctx_ok bound).
Notation P_blk := (P_blk pv sv bound u fl W).
Notation P_bv := (P_bv pv sv bound u fl W).
Notation bv_post := (bv_post pv sv bound u fl W).

Lemma ctx_after_blk l F E stL c c0 c1 l1 E1 stL1 F1 code bl :
  ctx_ok l F E c c1 -> cshape u l code bl l1 c c0 -> wframe bound c c0 E stL E1 stL1 -> F_new F F1 c c0 ->
  ctx_ok l1 F1 E1 c0 c1.
Proof.
  intros Hc (_ & Hle & Hfr & _) Hf Hn. eapply ctx_step; eassumption.
Qed.

Lemma P_bv_succ n : (forall fl' W', SimExpr.P_eval pv sv bound u fl' W' n) -> P_blk n -> P_bv (S n).
Proof.
  intros IHe IHss g k body ctx c code c' e st r st' sc [sc' flr] l E stL F out p lo hi
         Hev Hlow Hfrag Hu Hctx Hrel Hblo Hlc Hch Hout Hoc Hp Hnp Hcell Hlout Hcout Hint.
  cbn [SyltSem.block_value] in Hev. unfold lower_eblock in Hlow.
  assert (Hbout : bound <= out) by lia.
  (* all statements, the value is nil *)
  assert (Hwhole : SyltSem.bind (SyltSem.exec_block n e body) (fun _ : senv => SyltSem.ret (SV Values.VLuaNil)) st = (r, st') ->
                   lower_list (statement g) body ctx c = Ok (code, c') ->
                   exists b l', cshape u l code b l' c c' /\ bv_post ctx sc e lo hi E stL b p r st').
  { intros Hev' Hlow'. apply lower_list_ok in Hlow' as (cs & Hm & ->).
    unfold SyltSem.bind at 1 in Hev'.
    destruct (SyltSem.exec_block n e body st) as [[e1|o|cc] st1] eqn:He1.
    2,3: (inversion Hev'; subst;
          destruct (IHss g k body ctx c cs c' e st _ st' sc sc' flr l E stL F He1 Hm Hfrag Hu Hctx Hrel Hint) as (b1 & l1 & Hs1 & Hpost);
          eexists _, _; (split; [exact Hs1|]); cbn [blk_post bv_post] in *; eapply (xpost_widen pv sv bound u fl W ctx sc e c c' lo hi); [exact Hpost | lia | lia]).
    cbn in Hev'. inversion Hev'; subst r st'. clear Hev'.
    destruct (IHss g k body ctx c cs c' e st _ st1 sc sc' flr l E stL F He1 Hm Hfrag Hu Hctx Hrel I)
      as (b1 & l1 & Hs1 & W1 & E1 & stL1 & F1 & Hx1 & Hf1 & Hrel1 & Hw1 & _ & Hk1 & Hse1 & Hinc1).
    eexists _, _. split; [exact Hs1|]. cbn [bv_post]. exists E1, stL1.
    split; [exact Hx1|]. split.
    { eapply (rel_leave pv sv bound u fl W flr W1 sc sc' e e1 st st1 E E1 stL stL1);
        [exact Hrel | exact Hrel1 | exact Hw1 | eapply frag_stmts_flincl; exact Hfrag | exact Hinc1 | exact Hse1 | exact Hk1
         | apply (wr_incl _ _ _ _ _ _ _ Hf1) | apply (wr_ncell _ _ _ _ _ _ _ Hf1)]. }
    split; [eapply xkeep_widen; [eapply xkeep_of_wframe; exact Hf1 | lia | lia]|].
    rewrite (wr_cells _ _ _ _ _ _ _ Hf1 out p Hbout Hoc Hp), Hcell. constructor. }
  destruct (rev body) as [|last init_rev] eqn:Hrev; [apply Hwhole; assumption|].
  destruct last; try (apply Hwhole; assumption).
  clear Hwhole.
  assert (Hbody : body = rev init_rev ++ [SStatementExpression value sp]) by (rewrite <- (rev_involutive body), Hrev; reflexivity).
  rewrite Hbody in Hfrag. clear Hbody Hrev.
  mon Hlow. apply lower_list_ok in Hm as (cs & Hmi & ->).
  destruct (frag_stmts_app pv sv bound _ _ _ _ _ _ Hfrag) as (sc1 & fl1 & k' & Hfi & Hfl).
  destruct k' as [|k']; [discriminate|]. rewrite (frag_stmts_plain pv sv bound fl1) in Hfl by reflexivity.
  destruct k' as [|k'']; [discriminate|]. rewrite frag_stmt_sexpr in Hfl.
  destruct (frag_expr pv sv bound fl1 k'' sc1 value) eqn:Hfe; [|discriminate Hfl].
  destruct a0 as [cv rv]. cbn [fst snd] in *.
  apply ucovers_app in Hu as [Hui Hu]. apply ucovers_app in Hu as [Huv Hur].
  assert (Hcrv : 1 <= count_of u rv) by (eapply Hur; [left; reflexivity | right; left; reflexivity]).
  destruct (L_stmts_all pv sv bound u fl g k (rev init_rev) ctx c cs c0 sc (sc1, fl1) l Hmi Hfi) as (_ & _ & (_ & Hcc0 & _)).
  assert (HLv : forall l0, exists b2 l2, cshape u l0 cv b2 l2 c0 c')
    by (intros lx; destruct (L_expr_all pv sv bound u fl1 g k'' value ctx c0 cv rv c' sc1 lx Hm0 Hfe) as (b2 & l2 & Hs2 & _); eauto).
  destruct (HLv l) as (_ & _ & (_ & Hc0c' & _)).
  assert (Hasg : forall l0, cshape u l0 [IAssign out rv] (fst (agen_one u l0 (IAssign out rv))) l0 c' c')
    by (intros lx; apply cshape_plain; [lia | reflexivity | reflexivity | apply used_plain]).
  assert (Hctxi : ctx_ok l F E c c0) by (eapply ctx_sub; [exact Hctx | lia | lia]).
  pose proof (frag_stmts_flincl pv sv bound _ _ _ _ _ _ Hfi) as Hfn.
  unfold SyltSem.bind at 1 in Hev.
  destruct (SyltSem.exec_block n e (rev init_rev) st) as [[e1|o|cc] st1] eqn:He1.
  2,3: (inversion Hev; subst;
        destruct (IHss g k (rev init_rev) ctx c cs c0 e st _ st' sc sc1 fl1 l E stL F He1 Hmi Hfi Hui Hctxi Hrel Hint) as (b1 & l1 & Hs1 & Hpost);
        destruct (HLv l1) as (b2 & l2 & Hs2);
        eexists _, _; (split; [eapply cshape_app; [exact Hs1|]; eapply cshape_app; [exact Hs2 | apply Hasg]|]);
        cbn [blk_post bv_post] in *; eapply exit_app; [eapply (xpost_widen pv sv bound u fl W ctx sc e c c0 lo hi); [exact Hpost | lia | lia] | apply N.le_refl]).
  destruct (IHss g k (rev init_rev) ctx c cs c0 e st _ st1 sc sc1 fl1 l E stL F He1 Hmi Hfi Hui Hctxi Hrel I)
    as (b1 & l1 & Hs1 & W1 & E1 & stL1 & F1 & Hx1 & Hf1 & Hrel1 & Hw1 & HFn1 & Hk1 & Hse1 & Hinc1).
  assert (Hctx1 : ctx_ok l1 F1 E1 c0 c') by (eapply ctx_after_blk; eassumption).
  destruct (SyltSem.eval n e1 value st1) as [[v_|o|cc] st2] eqn:He2.
  2,3: (inversion Hev; subst;
        destruct (IHe fl1 W1 g k'' value ctx c0 cv rv c' e1 st1 _ st' sc1 l1 E1 stL1 F1 He2 Hm0 Hfe Huv Hctx1 Hrel1 Hint) as (b2 & l2 & Hs2 & _ & _ & Hp2);
        eexists _, _; (split; [eapply cshape_app; [exact Hs1|]; eapply cshape_app; [exact Hs2 | apply Hasg]|]);
        cbn [eval_post bv_post] in *;
        eapply (exit_pre_w pv sv bound u fl W fl1 W1 ctx sc sc1 e e1 st c c0 c0 c' lo hi E stL b1 E1 stL1);
          [exact Hx1 | exact Hf1 | exact Hk1 | exact Hrel | exact Hw1 | exact Hfn | exact Hse1 | exact Hinc1
           | eapply exit_app; [exact Hp2 | apply N.le_refl] | lia | lia | lia | lia]).
  inversion Hev; subst r st'. clear Hev.
  destruct (IHe fl1 W1 g k'' value ctx c0 cv rv c' e1 st1 _ st2 sc1 l1 E1 stL1 F1 He2 Hm0 Hfe Huv Hctx1 Hrel1 I)
    as (b2 & l2 & Hs2 & _ & _ & E2 & stL2 & F2 & Hok2 & Hd2). specialize (Hd2 Hcrv).
  pose proof Hok2 as (Hx2 & Hf2 & Hrel2 & _).
  assert (Hp2 : sget (fmt_var out) E2 = Some p).
  { apply (wr_incl _ _ _ _ _ _ _ Hf2); [exact Hbout|]. apply (wr_incl _ _ _ _ _ _ _ Hf1); assumption. }
  assert (Hl2out : alut_get l2 out = None).
  { destruct Hs1 as (_ & _ & Hfr1 & _). destruct Hs2 as (_ & _ & Hfr2 & _). rewrite Hfr2 by lia. rewrite Hfr1 by lia. exact Hlout. }
  assert (Hnp1 : forall lv, ~ w_P W1 p lv).
  { intros lv Hq. destruct Hw1 as (_ & _ & _ & HP & _). apply (Hnp lv). apply HP. exact Hq. }
  destruct (step_assign_temp pv sv bound u fl1 W1 sc1 e1 st2 F2 lo hi E2 stL2 l2 out rv p v_ Hrel2 Hblo Hout Hcout Hp2 Hnp1 Hl2out Hd2)
    as (stL3 & lv & Hok3 & Hlv & Hvr).
  assert (Hall : okstepS pv sv bound u fl1 W1 sc1 sc1 e1 st2 F1 lo hi E1 stL1 (b2 ++ fst (agen_one u l2 (IAssign out rv))) E2 stL3 F2).
  { eapply (okstepS_trans_gen pv sv bound u fl1 W1 sc1 sc1 sc1 e1 st2 e1 st2 F1 F2 F2 c0 c' lo hi lo hi); [exact Hok2 | exact Hok3 | apply incl_refl | lia | lia | lia | lia]. }
  destruct Hall as (Hxa & Hfa & Hrela & _ & Hka).
  assert (Hfall : wframe bound lo hi E stL E2 stL3)
    by (eapply wframe_trans; [eapply wframe_widen; [exact Hf1 | lia | lia] | exact Hfa]).
  eexists _, _. split; [eapply cshape_app; [exact Hs1|]; eapply cshape_app; [exact Hs2 | apply Hasg]|].
  cbn [bv_post]. exists E2, stL3. split; [eapply ExecS_app; eassumption|]. split.
  { eapply (rel_leave pv sv bound u fl W fl1 W1 sc sc1 e e1 st st2 E E2 stL stL3);
      [exact Hrel | exact Hrela | exact Hw1 | exact Hfn | exact Hinc1 | exact Hse1 | | apply (wr_incl _ _ _ _ _ _ _ Hfall) | apply (wr_ncell _ _ _ _ _ _ _ Hfall)].
    intros w Hw. rewrite Hka; [apply Hk1; exact Hw|].
    destruct Hw as [Hw|Hw]; [left; apply Hinc1; exact Hw | right].
    unfold fnames in *. apply in_map_iff in Hw as (x & <- & Hx). apply in_map. apply Hfn. exact Hx. }
  split; [eapply xkeep_of_wframe; exact Hfall | rewrite Hlv; exact Hvr].
Qed.

Lemma P_bv_zero : P_bv O.
Proof.
  intros g k body ctx c code c' e st r st' sc sc' l E stL F out p lo hi Hev.
  cbn in Hev. inversion Hev; subst. intros. contradiction.
Qed.

End Bv.

Lemma mapM_snoc {A B} (f : A -> M B) a x c ca c1 cx c' :
  mapM f a c = Ok (ca, c1) -> f x c1 = Ok (cx, c') -> mapM f (a ++ [x]) c = Ok (ca ++ [cx], c').
Proof.
  revert c ca. induction a as [|h t IH]; intros c ca Ha Hx.
  - destruct (mapM_nil_ok _ _ _ _ Ha) as [-> ->]. cbn [app mapM]. unfold IR.bind, IR.ret. rewrite Hx. reflexivity.
  - apply mapM_cons_ok in Ha as (y & c2 & ys & Hy & Hys & ->).
    cbn [app mapM]. unfold IR.bind, IR.ret. rewrite Hy. rewrite (IH _ _ Hys Hx). reflexivity.
Qed.
