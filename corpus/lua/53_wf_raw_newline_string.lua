-- expect-wf: bad unfinished string
local s = "abc
def"
