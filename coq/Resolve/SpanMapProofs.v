(* Name resolution is natural in line and column numbers: for a function `phi` on spans that keeps the file id of
   every span and is injective, resolving the AST with phi applied to every span gives the result of resolving
   the AST itself with phi applied to every span (variables, statements, the state, the errors).  The resolver
   reads the file id of a span (lookups) and compares the spans of namespace entries (`use` twice); nothing else. *)
From Coq Require Import String List NArith ZArith Bool Lia Arith.
From Sylt Require Import Syntax.Resolved Resolve.PAst Resolve.Resolver Resolve.SpanMap Resolve.ImportProofs Resolve.ImportFix Resolve.AlphaProofs.
Import ListNotations.
Local Open Scope list_scope.

Section Nat.
Variable phi : span -> span.
Hypothesis Hfile : forall s, sp_file (phi s) = sp_file s.
Hypothesis Hinj : forall a b, phi a = phi b -> a = b.

Notation mst := (mp_st phi).

Definition mp_mr {A B} (fa : A -> B) (r : res (A * rstate)) : res (B * rstate) :=
  match r with
  | Ok (a, st) => Ok (fa a, mst st)
  | Err es => Err (map (mp_err phi) es)
  | Panic s => Panic s
  | OutOfFuel => OutOfFuel
  end.

(* m' on the mapped state does what m does on the state, mapped *)
Definition nat1 {A B} (fa : A -> B) (m : M A) (m' : M B) : Prop := forall st, m' (mst st) = mp_mr fa (m st).

Lemma nat_ret {A B} (fa : A -> B) a : nat1 fa (ret a) (ret (fa a)).
Proof. intros st. reflexivity. Qed.

Lemma nat_bind {A B A' B'} (fa : A -> A') (fb : B -> B') (m : M A) (m' : M A') (k : A -> M B) (k' : A' -> M B') :
  nat1 fa m m' -> (forall a, nat1 fb (k a) (k' (fa a))) -> nat1 fb (bind m k) (bind m' k').
Proof.
  intros Hm Hk st. unfold bind. rewrite Hm. destruct (m st) as [[a s]| | |]; cbn [mp_mr]; auto. apply Hk.
Qed.

Lemma nat_fail {A B} (fa : A -> B) k sp : nat1 fa (fail k sp) (fail k (phi sp)).
Proof. intros st. reflexivity. Qed.

Lemma nat_lift {A B} (fa : A -> B) (g g' : rstate -> res _) :
  (forall st, g' (mst st) = mp_res phi fa (g st)) -> nat1 fa (lift g) (lift g').
Proof. intros H st. unfold lift. rewrite H. destruct (g st); reflexivity. Qed.

Lemma nat_mapM {X X' Y Y'} (ga : X -> X') (fb : Y -> Y') (G : X -> M Y) (G' : X' -> M Y') l :
  (forall x, In x l -> nat1 fb (G x) (G' (ga x))) -> nat1 (map fb) (mapM G l) (mapM G' (map ga l)).
Proof.
  induction l as [|x l IH]; intros H; cbn [mapM map]; [apply (nat_ret (map fb) [])|].
  eapply nat_bind; [apply H; left; reflexivity|]. intros y.
  eapply nat_bind; [apply IH; intros z Hz; apply H; right; exact Hz|]. intros ys. apply (nat_ret (map fb) (y :: ys)).
Qed.

Definition omap_s (f : stmt -> stmt) (o : option stmt) : option stmt := match o with Some s => Some (f s) | None => None end.

Lemma nat_block (rs rs' : pstmt -> M (option stmt)) l :
  (forall x, In x l -> nat1 (omap_s (mr_s phi)) (rs x) (rs' (mp_s phi x))) ->
  nat1 (map (mr_s phi)) (block_with rs l) (block_with rs' (map (mp_s phi) l)).
Proof.
  induction l as [|x l IH]; intros H; cbn [block_with map]; [apply (nat_ret (map (mr_s phi)) [])|].
  eapply nat_bind; [apply H; left; reflexivity|]. intros o.
  eapply nat_bind; [apply IH; intros z Hz; apply H; right; exact Hz|]. intros rest.
  destruct o; apply (nat_ret (map (mr_s phi))).
Qed.

Lemma nat_for_each {X X'} (ga : X -> X') (h : X -> M unit) (h' : X' -> M unit) l :
  (forall x, In x l -> nat1 (fun u : unit => u) (h x) (h' (ga x))) ->
  nat1 (fun u : unit => u) (for_each h l) (for_each h' (map ga l)).
Proof.
  induction l as [|x l IH]; intros H; cbn [for_each map]; [apply (nat_ret (fun u : unit => u))|].
  eapply nat_bind; [apply H; left; reflexivity|]. intros _. apply IH. intros z Hz. apply H. right. exact Hz.
Qed.

(* ---- reading the state ---- *)
Lemma ns_get_mp t k : ns_get (mp_tab phi t) k = match ns_get t k with Some v => Some (mp_name phi v) | None => None end.
Proof. induction t as [|[k' v] t IH]; cbn; [reflexivity|]. destruct (String.eqb k k'); [reflexivity|exact IH]. Qed.

Lemma fol_get_mp (l : list (file_or_lib * nstable)) f :
  fol_get (map (fun p => (fst p, mp_tab phi (snd p))) l) f = match fol_get l f with Some t => Some (mp_tab phi t) | None => None end.
Proof. induction l as [|[k v] l IH]; cbn; [reflexivity|]. destruct (fol_eqb f k); [reflexivity|exact IH]. Qed.

Lemma fol_set_mp (l : list (file_or_lib * nstable)) f t :
  fol_set (map (fun p => (fst p, mp_tab phi (snd p))) l) f (mp_tab phi t)
  = map (fun p => (fst p, mp_tab phi (snd p))) (fol_set l f t).
Proof.
  induction l as [|[k v] l IH]; cbn; [reflexivity|]. destruct (fol_eqb f k); cbn; [reflexivity|]. rewrite IH. reflexivity.
Qed.

Lemma lookup_global_mp st n nm :
  lookup_global (mst st) n nm
  = mp_res phi (fun o => match o with Some v => Some (mp_name phi v) | None => None end) (lookup_global st n nm).
Proof.
  unfold lookup_global. cbn [mp_st st_n2f st_ns]. destruct (n2f_get (st_n2f st) n) as [f|]; [|reflexivity].
  rewrite fol_get_mp. destruct (fol_get (st_ns st) f) as [t|]; [|reflexivity]. cbn. rewrite ns_get_mp. reflexivity.
Qed.

Lemma lookup_global_cases st n nm : (exists o, lookup_global st n nm = Ok o) \/ (exists s, lookup_global st n nm = Panic s).
Proof.
  unfold lookup_global. destruct (n2f_get (st_n2f st) n); [|right; eauto]. destruct (fol_get (st_ns st) f); [left|right]; eauto.
Qed.

Lemma lookup_mp st nm sp : lookup (mst st) nm (phi sp) = mp_res phi (fun r : N => r) (lookup st nm sp).
Proof.
  unfold lookup. cbn [mp_st st_stack]. destruct (stack_find (st_stack st) nm); [reflexivity|].
  rewrite Hfile, lookup_global_mp. destruct (lookup_global st (sp_file sp) nm) as [[[r|f s0]|]| | |]; reflexivity.
Qed.

Lemma chain_root_mp a : chain_root (mp_a phi a) = chain_root a.
Proof. induction a; cbn; auto. Qed.

Lemma namespace_file_mp st n a : namespace_file (mst st) n (mp_a phi a) = namespace_file st n a.
Proof.
  revert n. induction a; intros n; cbn [mp_a namespace_file]; try reflexivity.
  - cbn [mp_i i_name]. rewrite lookup_global_mp.
    destruct (lookup_global_cases st n (i_name i)) as [[o E]|[s E]]; rewrite E; [|reflexivity]. destruct o as [[r|f s0]|]; reflexivity.
  - rewrite IHa. destruct (namespace_file st n a) as [[f|]| | |]; cbn; try reflexivity.
    destruct (f2n_get (st_n2f st) f) as [ns'|]; [|reflexivity]. cbn [mp_i i_name]. rewrite lookup_global_mp.
    destruct (lookup_global_cases st ns' (i_name field)) as [[o E]|[s E]]; rewrite E; [|reflexivity].
    destruct o as [[r|g s0]|]; reflexivity.
Qed.

Lemma access_namespace_mp fl st n a : access_namespace fl (mst st) n (mp_a phi a) = access_namespace fl st n a.
Proof.
  unfold access_namespace, root_on_stack, namespace_list. rewrite chain_root_mp, namespace_file_mp. reflexivity.
Qed.

Lemma namespace_type_list_mp st : forall t n,
  namespace_type_list (mst st) n (mp_ta phi t) = mp_res phi (fun r : N => r) (namespace_type_list st n t).
Proof.
  induction t as [i sp|t IH i sp]; intros n; cbn [mp_ta namespace_type_list mp_i i_name i_span].
  - rewrite lookup_global_mp. destruct (lookup_global st n (i_name i)) as [[[r|f s0]|]| | |]; cbn; try reflexivity.
    destruct (f2n_get (st_n2f st) f); reflexivity.
  - rewrite IH. destruct (namespace_type_list st n t) as [ns'| | |]; cbn; try reflexivity.
    rewrite lookup_global_mp. destruct (lookup_global st ns' (i_name i)) as [[[r|f s0]|]| | |]; cbn; try reflexivity.
    destruct (f2n_get (st_n2f st) f); reflexivity.
Qed.

Lemma ty_assignable_mp st t : ty_assignable (mst st) (mp_ta phi t) = mp_res phi (fun r : N => r) (ty_assignable st t).
Proof.
  destruct t as [i sp|t i sp]; cbn [mp_ta ty_assignable mp_i i_name i_span].
  - apply lookup_mp.
  - rewrite Hfile, namespace_type_list_mp. destruct (namespace_type_list st (sp_file sp) t) as [ns'| | |]; cbn; try reflexivity.
    rewrite lookup_global_mp. destruct (lookup_global st ns' (i_name i)) as [[[r|f s0]|]| | |]; reflexivity.
Qed.

Lemma mapR_mp {X X' Y Y'} (ga : X -> X') (fb : Y -> Y') (f : X -> res Y) (f' : X' -> res Y') l :
  (forall x, In x l -> f' (ga x) = mp_res phi fb (f x)) -> mapR f' (map ga l) = mp_res phi (map fb) (mapR f l).
Proof.
  induction l as [|x l IH]; intros H; cbn [mapR map]; [reflexivity|].
  rewrite (H x (or_introl eq_refl)). destruct (f x) as [y| | |]; cbn; try reflexivity.
  rewrite IH; [|intros z Hz; apply H; right; exact Hz]. destruct (mapR f l); reflexivity.
Qed.

Lemma ty_r_mp_n st : forall n t, pty_size t <= n -> ty_r (mst st) (mp_ty phi t) = mp_res phi (mr_ty phi) (ty_r st t).
Proof.
  induction n as [|n IH]; intros t Hn; [destruct t; cbn in Hn; lia|].
  destruct t; cbn [mp_ty ty_r]; cbn [pty_size] in Hn; apply le_S_n in Hn; try reflexivity.
  - rewrite ty_assignable_mp. destruct (ty_assignable st t) as [r| | |]; cbn; try reflexivity.
    rewrite (mapR_mp (mp_ty phi) (mr_ty phi) (ty_r st) (ty_r (mst st)) args).
    + destruct (mapR (ty_r st) args); reflexivity.
    + intros x Hx. apply IH. pose proof (sum_with_in pty_size _ _ Hx). lia.
  - rewrite (mapR_mp (mp_ty phi) (mr_ty phi) (ty_r st) (ty_r (mst st)) params).
    2:{ intros x Hx. apply IH. pose proof (sum_with_in pty_size _ _ Hx). lia. }
    destruct (mapR (ty_r st) params) as [ps| | |]; cbn; try reflexivity.
    rewrite IH; [|lia]. destruct (ty_r st t); reflexivity.
  - rewrite (mapR_mp (mp_ty phi) (mr_ty phi) (ty_r st) (ty_r (mst st)) ts).
    2:{ intros x Hx. apply IH. pose proof (sum_with_in pty_size _ _ Hx). lia. }
    destruct (mapR (ty_r st) ts); reflexivity.
  - rewrite IH; [|lia]. destruct (ty_r st t); reflexivity.
  - apply IH. lia.
Qed.

Lemma ty_r_mp st t : ty_r (mst st) (mp_ty phi t) = mp_res phi (mr_ty phi) (ty_r st t).
Proof. apply (ty_r_mp_n st (pty_size t)). lia. Qed.

Lemma fields_r_mp st fs :
  fields_r (mst st) (map (mp_param phi) fs)
  = mp_res phi (fun p => (map (mr_field phi) (fst p), map (mp_err phi) (snd p))) (fields_r st fs).
Proof.
  induction fs as [|[i t] fs IH]; cbn [map fields_r mp_param fst snd]; [reflexivity|].
  rewrite IH. destruct (fields_r st fs) as [[oks errs]| | |]; cbn; try reflexivity.
  rewrite ty_r_mp. destruct (ty_r st t) as [t'| | |]; cbn; try reflexivity. rewrite map_app. reflexivity.
Qed.

Lemma fields_m_mp fs : nat1 (map (mr_field phi)) (fields_m fs) (fields_m (map (mp_param phi) fs)).
Proof.
  apply nat_lift. intros st. rewrite fields_r_mp. destruct (fields_r st fs) as [[oks errs]| | |]; cbn; try reflexivity.
  destruct errs; reflexivity.
Qed.

(* ---- writing the state ---- *)
Notation idu := (fun u : unit => u).

Lemma new_var_g_mp g i k : nat1 (fun r : N => r) (new_var_g g i k) (new_var_g g (mp_i phi i) k).
Proof. intros st. reflexivity. Qed.
Lemma set_stack_mp s : nat1 idu (set_stack s) (set_stack s).
Proof. intros st. reflexivity. Qed.
Lemma get_stack_mp : nat1 (fun s : list (string * N) => s) get_stack get_stack.
Proof. intros st. reflexivity. Qed.
Lemma push_name_mp n r : nat1 idu (push_name n r) (push_name n r).
Proof. intros st. reflexivity. Qed.
Lemma push_var_mp i k : nat1 (fun r : N => r) (push_var i k) (push_var (mp_i phi i) k).
Proof. intros st. reflexivity. Qed.
Lemma stack_len_mp : nat1 (fun n : nat => n) stack_len stack_len.
Proof. intros st. reflexivity. Qed.
Lemma truncate_mp n : nat1 idu (truncate n) (truncate n).
Proof. intros st. reflexivity. Qed.
Lemma truncate_if_mp b n : nat1 idu (truncate_if b n) (truncate_if b n).
Proof. destruct b; [apply truncate_mp|apply (nat_ret idu)]. Qed.

Lemma lookup_nat nm sp : nat1 (fun r : N => r) (lift (fun st => lookup st nm sp)) (lift (fun st => lookup st nm (phi sp))).
Proof. apply nat_lift. intros st. apply lookup_mp. Qed.
Lemma ty_nat t : nat1 (mr_ty phi) (lift (fun st => ty_r st t)) (lift (fun st => ty_r st (mp_ty phi t))).
Proof. apply nat_lift. intros st. apply ty_r_mp. Qed.

Lemma is_function_mp e : is_function (mp_e phi e) = is_function e.
Proof. induction e; cbn; auto. Qed.

Definition mo_l (o : option (list stmt)) : option (list stmt) := match o with Some l => Some (map (mr_s phi) l) | None => None end.
Definition mo_e (o : option expr) : option expr := match o with Some e => Some (mr_e phi e) | None => None end.

Section Sim.
Variable fl : rflags.

Definition Ne (f : nat) : Prop := forall e, nat1 (mr_e phi) (expr_r fl f e) (expr_r fl f (mp_e phi e)).
Definition Na (f : nat) : Prop := forall a, nat1 (mr_e phi) (assign_r fl f a) (assign_r fl f (mp_a phi a)).
Definition Ns (f : nat) : Prop := forall s, nat1 (omap_s (mr_s phi)) (stmt_r fl f s) (stmt_r fl f (mp_s phi s)).

Section Step.
Variable f : nat.
Hypothesis IHe : Ne f.
Hypothesis IHa : Na f.
Hypothesis IHs : Ns f.

Lemma n_args l : nat1 (map (mr_e phi)) (mapM (expr_r fl f) l) (mapM (expr_r fl f) (map (mp_e phi) l)).
Proof. apply nat_mapM. intros x _. apply IHe. Qed.

Lemma n_blocks l : nat1 (map (mr_s phi)) (block_with (stmt_r fl f) l) (block_with (stmt_r fl f) (map (mp_s phi) l)).
Proof. apply nat_block. intros x _. apply IHs. Qed.

Lemma n_optM o : nat1 mo_e (optM (expr_r fl f) o)
                      (optM (expr_r fl f) (match o with Some c => Some (mp_e phi c) | None => None end)).
Proof.
  destruct o as [c|]; cbn [optM]; [|apply (nat_ret mo_e None)].
  eapply nat_bind; [apply IHe|]. intros y. apply (nat_ret mo_e (Some y)).
Qed.

Lemma n_binop op a b sp :
  nat1 (mr_e phi) (binop_with (expr_r fl f) op a b sp) (binop_with (expr_r fl f) op (mp_e phi a) (mp_e phi b) (phi sp)).
Proof.
  unfold binop_with. eapply nat_bind; [apply IHe|]. intros x. eapply nat_bind; [apply IHe|]. intros y.
  apply (nat_ret (mr_e phi) (EBinOp op x y sp)).
Qed.

Lemma n_uniop op a sp :
  nat1 (mr_e phi) (uniop_with (expr_r fl f) op a sp) (uniop_with (expr_r fl f) op (mp_e phi a) (phi sp)).
Proof. unfold uniop_with. eapply nat_bind; [apply IHe|]. intros x. apply (nat_ret (mr_e phi) (EUniOp op x sp)). Qed.

Lemma nstep_e : Ne (S f).
Proof.
  intros e. destruct e; cbn [mp_e expr_r].
  - apply IHa.
  - apply n_binop.
  - apply n_binop.
  - apply n_binop.
  - apply n_binop.
  - apply n_uniop.
  - apply n_binop.
  - apply n_binop.
  - apply n_binop.
  - apply n_binop.
  - apply n_uniop.
  - apply IHe.
  - (* PIf *)
    eapply nat_bind; [|intros y; apply (nat_ret (mr_e phi) (EIf y sp))].
    apply (nat_mapM (mp_b phi) (mr_b phi)). intros b _. destruct b as [c body bsp]. cbn [mp_b if_branch_with].
    eapply nat_bind; [apply n_optM|]. intros c'.
    eapply nat_bind; [apply stack_len_mp|]. intros len.
    eapply nat_bind; [apply n_blocks|]. intros b'.
    eapply nat_bind; [apply truncate_if_mp|]. intros _. apply (nat_ret (mr_b phi) (IfBranch c' b' bsp)).
  - (* PCase *)
    eapply nat_bind; [apply IHe|]. intros tm'.
    eapply nat_bind.
    { apply (nat_mapM (mp_c phi) (mr_c phi)). intros b _. destruct b as [pat v body]. cbn [mp_c case_branch_with].
      eapply nat_bind; [apply stack_len_mp|]. intros len.
      eapply nat_bind.
      { instantiate (1 := fun o : option N => o). destruct v as [i|]; cbn [mp_oi optM]; [|apply (nat_ret (fun o : option N => o) None)].
        eapply nat_bind; [apply push_var_mp|]. intros r. apply (nat_ret (fun o : option N => o) (Some r)). }
      intros v'.
      eapply nat_bind; [apply n_blocks|]. intros b'.
      eapply nat_bind; [apply truncate_if_mp|]. intros _.
      apply (nat_ret (mr_c phi) (CaseBranch (i_name pat) (i_span pat) v' b' (i_span pat))). }
    intros brs'.
    eapply nat_bind.
    { instantiate (1 := mo_l).
      destruct fall_through as [ft|]; cbn [optM]; [|apply (nat_ret mo_l None)].
      eapply nat_bind; [|intros y; apply (nat_ret mo_l (Some y))].
      eapply nat_bind; [apply stack_len_mp|]. intros len.
      eapply nat_bind; [apply n_blocks|]. intros b'.
      eapply nat_bind; [apply truncate_if_mp|]. intros _. apply (nat_ret (map (mr_s phi)) b'). }
    intros ft'. apply (nat_ret (mr_e phi) (ECase tm' brs' ft' sp)).
  - (* PFunction *)
    eapply nat_bind; [apply stack_len_mp|]. intros ss.
    eapply nat_bind.
    { apply (nat_mapM (mp_param phi) (mr_param phi)). intros p _. destruct p as [n t]. cbn [mp_param param_r fst snd].
      eapply nat_bind; [apply push_var_mp|]. intros v.
      eapply nat_bind; [apply ty_nat|]. intros t'. apply (nat_ret (mr_param phi) (i_name n, v, i_span n, t')). }
    intros ps.
    eapply nat_bind; [apply ty_nat|]. intros rt'.
    eapply nat_bind; [apply n_blocks|]. intros b'.
    eapply nat_bind; [apply truncate_mp|]. intros _. apply (nat_ret (mr_e phi) (EFunction name ps rt' b' pure sp)).
  - (* PBlob *)
    eapply nat_bind; [apply nat_lift; intros st; apply ty_assignable_mp|]. intros b.
    eapply nat_bind; [apply (new_var_g_mp false (mkIdent "self" sp) Mutable)|]. intros sv.
    eapply nat_bind; [|intros y; apply (nat_ret (mr_e phi) (EBlob b y sv sp))].
    apply (nat_mapM (fun f0 : string * pexpr => (fst f0, mp_e phi (snd f0))) (fun fe : string * expr => (fst fe, mr_e phi (snd fe)))).
    intros p _. destruct p as [n v]. cbn [fst snd blob_field_with]. rewrite is_function_mp.
    eapply nat_bind; [apply stack_len_mp|]. intros ss.
    eapply nat_bind; [destruct (is_function v); [apply push_name_mp|apply (nat_ret idu)]|]. intros _.
    eapply nat_bind; [apply IHe|]. intros v'.
    eapply nat_bind; [apply truncate_mp|]. intros _.
    apply (nat_ret (fun fe : string * expr => (fst fe, mr_e phi (snd fe))) (n, v')).
  - eapply nat_bind; [apply n_args|]. intros y. apply (nat_ret (mr_e phi) (ECollection CTuple y sp)).
  - eapply nat_bind; [apply n_args|]. intros y. apply (nat_ret (mr_e phi) (ECollection CList y sp)).
  - apply (nat_ret (mr_e phi) (EFloat repr sp)).
  - apply (nat_ret (mr_e phi) (EInt z sp)).
  - apply (nat_ret (mr_e phi) (EStr s sp)).
  - apply (nat_ret (mr_e phi) (EBool b sp)).
  - apply (nat_ret (mr_e phi) (ENil sp)).
Qed.

Lemma nstep_a : Na (S f).
Proof.
  intros a. destruct a; cbn [mp_a assign_r mp_i i_name i_span].
  - eapply nat_bind; [apply lookup_nat|]. intros v. apply (nat_ret (mr_e phi) (ERead v (i_span i))).
  - eapply nat_bind; [apply IHa|]. intros x.
    destruct x; cbn [mr_e]; try apply nat_fail.
    eapply nat_bind; [apply IHe|]. intros y. apply (nat_ret (mr_e phi) (EVariant var (i_name variant) y sp)).
  - eapply nat_bind; [apply IHa|]. intros x.
    eapply nat_bind; [apply n_args|]. intros y. apply (nat_ret (mr_e phi) (ECall x y sp)).
  - eapply nat_bind; [apply IHe|]. intros z.
    eapply nat_bind; [apply IHa|]. intros x.
    eapply nat_bind; [apply n_args|]. intros y. apply (nat_ret (mr_e phi) (ECall x (z :: y) sp)).
  - (* AAccess *)
    eapply nat_bind.
    { instantiate (1 := fun o : option N => o). apply nat_lift. intros st. rewrite Hfile, access_namespace_mp.
      destruct (access_namespace fl st (sp_file sp) a) as [o|es| |] eqn:E; try reflexivity.
      exfalso. unfold access_namespace in E. destruct (access_local_first fl && root_on_stack st a); [discriminate|].
      unfold namespace_list in E.
      assert (Hnf : forall a0 n, match namespace_file st n a0 with Err _ => False | _ => True end).
      { induction a0; intros n; cbn [namespace_file]; try exact I.
        - destruct (lookup_global_cases st n (i_name i)) as [[o E0]|[s0 E0]]; rewrite E0; cbn; [|exact I].
          destruct o as [[r|f0 s0]|]; exact I.
        - specialize (IHa0 n). destruct (namespace_file st n a0) as [[f0|]| | |]; cbn; try exact I; try contradiction.
          destruct (f2n_get (st_n2f st) f0); [|exact I].
          destruct (lookup_global_cases st n0 (i_name field0)) as [[o E0]|[s0 E0]]; rewrite E0; cbn; [|exact I].
          destruct o as [[r|g0 s0]|]; exact I. }
      specialize (Hnf a (sp_file sp)). destruct (namespace_file st (sp_file sp) a) as [[f0|]| | |]; cbn in E; try discriminate; contradiction. }
    intros ns. destruct ns as [ns|].
    + eapply nat_bind.
      { instantiate (1 := fun o : option name => match o with Some v => Some (mp_name phi v) | None => None end).
        apply nat_lift. intros st. apply lookup_global_mp. }
      intros o. destruct o as [[v|f0 s0]|]; cbn [mp_name]; [apply (nat_ret (mr_e phi) (ERead v (i_span field)))|apply nat_fail|apply nat_fail].
    + eapply nat_bind; [apply IHa|]. intros v. apply (nat_ret (mr_e phi) (EBlobAccess v (i_name field) (i_span field))).
  - eapply nat_bind; [apply IHa|]. intros x.
    eapply nat_bind; [apply IHe|]. intros y. apply (nat_ret (mr_e phi) (EIndex x y sp)).
  - apply IHe.
Qed.

Definition mvv (p : expr * N) : expr * N := (mr_e phi (fst p), snd p).

Lemma nstep_s : Ns (S f).
Proof.
  intros s. destruct s; cbn [mp_s stmt_r mp_i i_name i_span].
  - apply (nat_ret (omap_s (mr_s phi)) None).
  - apply (nat_ret (omap_s (mr_s phi)) None).
  - (* PBlobDef *)
    eapply nat_bind; [apply lookup_nat|]. intros v.
    eapply nat_bind; [apply fields_m_mp|]. intros fs. rewrite map_map. cbn [mp_i i_name].
    apply (nat_ret (omap_s (mr_s phi)) (Some (SBlob (i_name name) v sp (map i_name variables) fs external))).
  - (* PEnumDef *)
    eapply nat_bind; [apply lookup_nat|]. intros v.
    eapply nat_bind; [apply fields_m_mp|]. intros fs. rewrite map_map. cbn [mp_i i_name].
    apply (nat_ret (omap_s (mr_s phi)) (Some (SEnum (i_name name) v sp (map i_name variables) fs))).
  - (* PAssignment *)
    eapply nat_bind; [apply IHe|]. intros y.
    eapply nat_bind; [apply IHa|]. intros x.
    apply (nat_ret (omap_s (mr_s phi)) (Some (SAssignment (assign_binop op) x y sp))).
  - (* PDefinition *)
    eapply nat_bind; [apply get_stack_mp|]. intros stack.
    eapply nat_bind.
    { instantiate (1 := mvv). destruct stack as [|p0 rest].
      - eapply nat_bind; [apply (push_var_mp (mkIdent (stack_begin_name (i_name i)) (i_span i)) kind)|]. intros _.
        eapply nat_bind; [apply IHe|]. intros y.
        eapply nat_bind; [apply set_stack_mp|]. intros _.
        eapply nat_bind; [apply lookup_nat|]. intros v. apply (nat_ret mvv (y, v)).
      - rewrite is_function_mp. destruct (is_function value).
        + eapply nat_bind; [apply push_var_mp|]. intros v.
          eapply nat_bind; [apply IHe|]. intros y. apply (nat_ret mvv (y, v)).
        + eapply nat_bind; [apply IHe|]. intros y.
          eapply nat_bind; [apply push_var_mp|]. intros v. apply (nat_ret mvv (y, v)). }
    intros vv.
    eapply nat_bind; [apply ty_nat|]. intros t'.
    apply (nat_ret (omap_s (mr_s phi)) (Some (SDefinition (i_name i) (snd vv) kind t' (fst vv) (i_span i)))).
  - (* PExternalDefinition *)
    eapply nat_bind; [apply lookup_nat|]. intros v.
    eapply nat_bind; [apply ty_nat|]. intros t'.
    apply (nat_ret (omap_s (mr_s phi)) (Some (SExternalDefinition (i_name i) v kind t' (i_span i)))).
  - (* PLoop *)
    eapply nat_bind; [apply IHe|]. intros c.
    eapply nat_bind; [apply IHs|]. intros b.
    destruct b; apply (nat_ret (omap_s (mr_s phi))).
  - apply (nat_ret (omap_s (mr_s phi)) (Some (SBreak sp))).
  - apply (nat_ret (omap_s (mr_s phi)) (Some (SContinue sp))).
  - (* PRet *)
    eapply nat_bind; [apply n_optM|]. intros v. apply (nat_ret (omap_s (mr_s phi)) (Some (SRet v sp))).
  - (* PBlock *)
    eapply nat_bind; [apply stack_len_mp|]. intros len.
    eapply nat_bind; [apply n_blocks|]. intros b.
    eapply nat_bind; [apply truncate_mp|]. intros _. apply (nat_ret (omap_s (mr_s phi)) (Some (SBlock b sp))).
  - eapply nat_bind; [apply IHe|]. intros v. apply (nat_ret (omap_s (mr_s phi)) (Some (SStatementExpression v sp))).
  - apply (nat_ret (omap_s (mr_s phi)) (Some (SUnreachable sp))).
  - apply (nat_ret (omap_s (mr_s phi)) None).
Qed.

End Step.

Lemma n_all : forall f, Ne f /\ Na f /\ Ns f.
Proof.
  induction f as [|f (IHe & IHa & IHs)].
  - split; [|split]; intros x st; reflexivity.
  - split; [apply nstep_e; assumption|]. split; [apply nstep_a; assumption|apply nstep_s; assumption].
Qed.

End Sim.

(* ---- the passes before the statements ---- *)
Lemma defined_ident_mp s :
  defined_ident (mp_s phi s) = match defined_ident s with Some (i, k) => Some (mp_i phi i, k) | None => None end.
Proof. destruct s; reflexivity. Qed.

Lemma pstmt_span_mp s : pstmt_span (mp_s phi s) = phi (pstmt_span s).
Proof. destruct s; reflexivity. Qed.

Lemma set_namespace_mp f t : nat1 idu (set_namespace f t) (set_namespace f (mp_tab phi t)).
Proof. intros st. unfold set_namespace, mp_mr, mp_st. cbn [st_ns st_stack st_vars st_next st_n2f]. rewrite fol_set_mp. reflexivity. Qed.

Lemma add_definitions_mp ss : forall t, nat1 (mp_tab phi) (add_definitions ss t) (add_definitions (map (mp_s phi) ss) (mp_tab phi t)).
Proof.
  induction ss as [|s ss IH]; intros t; cbn [map add_definitions]; [apply (nat_ret (mp_tab phi) t)|].
  rewrite defined_ident_mp, pstmt_span_mp. destruct (defined_ident s) as [[i k]|]; [|apply IH].
  eapply nat_bind; [apply (new_var_g_mp true i k)|]. intros v. cbn [mp_i i_name]. rewrite ns_get_mp.
  destruct (ns_get t (i_name i)); [apply nat_fail|]. apply (IH ((i_name i, NName v) :: t)).
Qed.

Lemma pass1_mp ast : nat1 idu (for_each insert_namespace_and_add_definitions ast)
                              (for_each insert_namespace_and_add_definitions (mp_ast phi ast)).
Proof.
  unfold mp_ast. apply nat_for_each. intros m _. unfold insert_namespace_and_add_definitions, mp_module. cbn [m_stmts m_file].
  eapply nat_bind; [apply (add_definitions_mp (m_stmts m) [])|]. intros t. apply set_namespace_mp.
Qed.

Lemma span_eqb_mp a b : span_eqb (phi a) (phi b) = span_eqb a b.
Proof.
  destruct (span_eqb a b) eqn:E.
  - apply span_eqb_eq in E. subst. apply span_eqb_eq. reflexivity.
  - destruct (span_eqb (phi a) (phi b)) eqn:E2; [|reflexivity].
    apply span_eqb_eq in E2. apply Hinj in E2. subst. rewrite (proj2 (span_eqb_eq b b) eq_refl) in E. discriminate.
Qed.

Lemma name_eqb_mp a b : name_eqb (mp_name phi a) (mp_name phi b) = name_eqb a b.
Proof. destruct a, b; cbn; try reflexivity. rewrite span_eqb_mp. reflexivity. Qed.

Lemma import_name_mp f nm v k sp : nat1 idu (import_name f nm v k sp) (import_name f nm (mp_name phi v) k (phi sp)).
Proof.
  intros st. unfold import_name. cbn [mp_st st_ns]. rewrite fol_get_mp. destruct (fol_get (st_ns st) f) as [t|]; [|reflexivity].
  rewrite ns_get_mp. destruct (ns_get t nm) as [old|].
  - rewrite name_eqb_mp. destruct (name_eqb old v); reflexivity.
  - change ((nm, mp_name phi v) :: mp_tab phi t) with (mp_tab phi ((nm, v) :: t)). apply set_namespace_mp.
Qed.

Definition mo_t (o : option nstable) : option nstable := match o with Some t => Some (mp_tab phi t) | None => None end.
Lemma get_ns_mp f : nat1 mo_t (get_ns f) (get_ns f).
Proof. intros st. unfold get_ns, mp_mr. cbn [mp_st st_ns]. rewrite fol_get_mp. destruct (fol_get (st_ns st) f); reflexivity. Qed.

Definition mp_imp (p : ident * option ident) : ident * option ident := (mp_i phi (fst p), mp_oi phi (snd p)).

Lemma from_imports_mp f file sp imps : nat1 idu (from_imports f file sp imps) (from_imports f file (phi sp) (map mp_imp imps)).
Proof.
  induction imps as [|[nm al] rest IH]; cbn [map from_imports mp_imp fst snd]; [apply (nat_ret idu)|].
  eapply nat_bind; [apply get_ns_mp|]. intros from_ns.
  destruct from_ns as [from_ns|]; cbn [mo_t]; [|apply nat_fail]. cbn [mp_i i_name i_span]. rewrite ns_get_mp.
  destruct (ns_get from_ns (i_name nm)) as [v|]; [|apply nat_fail].
  eapply nat_bind; [|intros _; exact IH].
  destruct al as [a|]; cbn [mp_oi mp_i i_name i_span]; apply import_name_mp.
Qed.

Lemma rgv_mp f ss : nat1 idu (resolve_global_variables f ss) (resolve_global_variables f (map (mp_s phi) ss)).
Proof.
  induction ss as [|s ss IH]; cbn [map resolve_global_variables]; [apply (nat_ret idu)|].
  eapply nat_bind; [|intros _; exact IH].
  destruct s; cbn [mp_s]; try apply (nat_ret idu).
  - assert (E : usename_ident (mp_un phi name) = mp_i phi (usename_ident name)) by (destruct name; reflexivity).
    rewrite E. cbn [mp_i i_name i_span].
    eapply nat_bind; [apply get_ns_mp|]. intros target. destruct target; cbn [mo_t]; [|apply nat_fail].
    apply (import_name_mp f (i_name (usename_ident name)) (NNamespace file (i_span (usename_ident name))) ECollisionUse sp).
  - apply from_imports_mp.
Qed.

Lemma try_mp (m m' : M unit) : nat1 idu m m' -> nat1 idu (try_ m) (try_ m').
Proof. intros H st. unfold try_. rewrite H. destruct (m st) as [[[] s]| | |]; reflexivity. Qed.

Lemma quiet_stmt_mp f s : nat1 idu (quiet_stmt f s) (quiet_stmt f (mp_s phi s)).
Proof.
  destruct s; cbn [mp_s quiet_stmt]; try apply (nat_ret idu).
  - apply try_mp. apply (rgv_mp f [PUse path name file sp]).
  - apply (nat_for_each mp_imp). intros it _. apply try_mp. apply (from_imports_mp f file sp [it]).
Qed.

Lemma quiet_round_mp ast : nat1 idu (quiet_round ast) (quiet_round (mp_ast phi ast)).
Proof.
  unfold quiet_round, mp_ast. apply nat_for_each. intros m _. unfold quiet_pass, mp_module. cbn [m_stmts m_file].
  apply nat_for_each. intros s _. apply quiet_stmt_mp.
Qed.

Lemma names_count_mp st : names_count (mst st) = names_count st.
Proof.
  unfold names_count. cbn [mp_st st_ns]. generalize (st_ns st) as l.
  induction l as [|[k t] l IH]; cbn [map fold_right fst snd]; [reflexivity|]. rewrite IH. unfold mp_tab. rewrite map_length. reflexivity.
Qed.

Lemma import_rounds_mp ast n : nat1 idu (import_rounds n ast) (import_rounds n (mp_ast phi ast)).
Proof.
  induction n as [|n IH]; intros st; cbn [import_rounds]; [reflexivity|].
  rewrite quiet_round_mp. destruct (quiet_round ast st) as [[[] s]| | |]; cbn [mp_mr]; try reflexivity.
  rewrite !names_count_mp. destruct (Nat.eqb (names_count s) (names_count st)); [reflexivity|apply IH].
Qed.

Lemma import_items_mp ast : import_items (mp_ast phi ast) = import_items ast.
Proof.
  unfold import_items, mp_ast. induction ast as [|m ast IH]; cbn; [reflexivity|]. rewrite IH. f_equal.
  induction (m_stmts m) as [|s ss IHs]; cbn; [reflexivity|]. rewrite IHs. f_equal.
  destruct s; cbn; try reflexivity. apply map_length.
Qed.

Lemma import_pass_mp b ast : nat1 idu (import_pass b ast) (import_pass b (mp_ast phi ast)).
Proof.
  unfold import_pass. eapply nat_bind.
  - destruct b; [rewrite import_items_mp; apply import_rounds_mp|apply (nat_ret idu)].
  - intros _. unfold report_pass, mp_ast. apply nat_for_each. intros m _. unfold mp_module. cbn [m_stmts m_file]. apply rgv_mp.
Qed.

Lemma flat_stmts_mp ast : flat_map m_stmts (mp_ast phi ast) = map (mp_s phi) (flat_map m_stmts ast).
Proof. unfold mp_ast. induction ast as [|m ast IH]; cbn; [reflexivity|]. rewrite IH, map_app. reflexivity. Qed.

Lemma init_state_mp ast : init_state (mp_ast phi ast) = mst (init_state ast).
Proof. unfold init_state, mp_ast, mp_st. cbn. rewrite map_map. reflexivity. Qed.

(* the result of `resolve`, mapped: errors keep their kinds (the error for a missing `start` has the fixed span
   Span::zero(0), all others have phi applied to their span) *)
Definition res_nat (r r' : res resolved) : Prop :=
  match r, r' with
  | Ok x, Ok x' => x' = mr_resolved phi x
  | Err es, Err es' => map e_kind es' = map e_kind es
  | Panic s, Panic s' => s = s'
  | OutOfFuel, OutOfFuel => True
  | _, _ => False
  end.

Theorem resolve_fuel_natural fl fuel ast : res_nat (resolve_fuel fl fuel ast) (resolve_fuel fl fuel (mp_ast phi ast)).
Proof.
  unfold resolve_fuel, resolve_m. rewrite init_state_mp.
  assert (H : nat1 (map (mr_s phi))
    (_ <- for_each insert_namespace_and_add_definitions ast ;;
     _ <- import_pass (imports_fixpoint fl) ast ;;
     block_with (stmt_r fl fuel) (flat_map m_stmts ast))
    (_ <- for_each insert_namespace_and_add_definitions (mp_ast phi ast) ;;
     _ <- import_pass (imports_fixpoint fl) (mp_ast phi ast) ;;
     block_with (stmt_r fl fuel) (flat_map m_stmts (mp_ast phi ast)))).
  { eapply nat_bind; [apply pass1_mp|]. intros _. eapply nat_bind; [apply import_pass_mp|]. intros _.
    rewrite flat_stmts_mp. apply nat_block. intros x _. apply (proj2 (proj2 (n_all fl fuel))). }
  specialize (H (init_state ast)).
  set (P := (_ <- for_each insert_namespace_and_add_definitions ast ;;
             _ <- import_pass (imports_fixpoint fl) ast ;;
             block_with (stmt_r fl fuel) (flat_map m_stmts ast))) in *.
  set (P' := (_ <- for_each insert_namespace_and_add_definitions (mp_ast phi ast) ;;
              _ <- import_pass (imports_fixpoint fl) (mp_ast phi ast) ;;
              block_with (stmt_r fl fuel) (flat_map m_stmts (mp_ast phi ast)))) in *.
  assert (EL : forall (Q : M (list stmt)) st,
     (_ <- for_each insert_namespace_and_add_definitions ast ;; _ <- import_pass (imports_fixpoint fl) ast ;;
      out <- block_with (stmt_r fl fuel) (flat_map m_stmts ast) ;;
      start <- lift (fun st => lookup_global st 0 "start") ;;
      match start with None => fail ENoStart (span_zero 0) | Some _ => ret out end) st
     = (out <- P ;; start <- lift (fun st => lookup_global st 0 "start") ;;
        match start with None => fail ENoStart (span_zero 0) | Some _ => ret out end) st).
  { intros _ st. subst P. unfold bind. destruct (for_each insert_namespace_and_add_definitions ast st) as [[u s]| | |]; auto.
    destruct (import_pass (imports_fixpoint fl) ast s) as [[u1 s1]| | |]; auto. }
  assert (ER : forall st,
     (_ <- for_each insert_namespace_and_add_definitions (mp_ast phi ast) ;; _ <- import_pass (imports_fixpoint fl) (mp_ast phi ast) ;;
      out <- block_with (stmt_r fl fuel) (flat_map m_stmts (mp_ast phi ast)) ;;
      start <- lift (fun st => lookup_global st 0 "start") ;;
      match start with None => fail ENoStart (span_zero 0) | Some _ => ret out end) st
     = (out <- P' ;; start <- lift (fun st => lookup_global st 0 "start") ;;
        match start with None => fail ENoStart (span_zero 0) | Some _ => ret out end) st).
  { intros st. subst P'. unfold bind. destruct (for_each insert_namespace_and_add_definitions (mp_ast phi ast) st) as [[u s]| | |]; auto.
    destruct (import_pass (imports_fixpoint fl) (mp_ast phi ast) s) as [[u1 s1]| | |]; auto. }
  rewrite (EL (ret []) (init_state ast)), ER. unfold bind at 1 3. rewrite H.
  destruct (P (init_state ast)) as [[out s]|es| |]; cbn [mp_mr res_nat]; auto.
  - unfold bind, lift. rewrite lookup_global_mp.
    destruct (lookup_global_cases s 0%N "start") as [[o E]|[p E]]; rewrite E; cbn; [|reflexivity].
    destruct o as [v|]; cbn; [|reflexivity].
    unfold mr_resolved. cbn. rewrite map_rev. reflexivity.
  - rewrite map_map. reflexivity.
Qed.

End Nat.
