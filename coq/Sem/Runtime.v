(* `Runtime`: a shallow, executable model of the helpers in sylt-compiler/src/preamble.lua and of the
   std functions written in Sylt (std/list.sy, dict.sy, set.sy, maybe.sy, math.sy), on the tagged
   values of Sem/Values.v.  Definitions only.  Which function models which piece of preamble.lua /
   std/*.sy is listed (and checked against the regenerated tables) in Sem/DocRuntime.v; that the TEXT
   of preamble.lua behaves like these functions is the correspondence run by tools/props/c18.py and
   c19.py (real preamble.lua executed by LuaCore vs the extraction of this file).

   The model FOLLOWS THE CODE, including where the code is wrong; the laws that hold and the ones that
   are refuted are in RuntimeLaws.v / ContainerLaws.v.

   REFERENCE INTERPRETER: Lua 5.3 (the repo's CI installs lua5.3).  Dispatch rules relied upon (they are
   part of the trusted LuaCore definition):
   * `a == b`: different basic types -> false; numbers compare by mathematical value (1 == 1.0), strings,
     booleans, nil primitively; two tables: the same table -> true, otherwise the `__eq` metamethod of
     the FIRST operand, or else of the second, is called; no metamethod -> false.  `a ~= b` is
     `not (a == b)`.
   * `a < b`: two numbers, two strings (byte order), otherwise `__lt` of the first operand, or else of
     the second; none -> error.  `a <= b` likewise with `__le`.  `a > b` is `b < a`, `a >= b` is
     `b <= a`.
   * `a + b` etc.: if both operands are numbers (or strings convertible to numbers), arithmetic -- two
     integers give an integer for + - *, `/` always gives a float; otherwise the `__add` of the first
     operand, or else of the second; otherwise an error.
   MODEL BOUNDARY for ill-typed operands (never admitted by the Sylt type checker): comparing or adding
   tables of different kinds runs the first operand's metamethod on the odd operand; this is modelled
   for tuple/list mixes and is `Unsup` (for ==: false) for the other mixes.
   Functions received from Sylt (`map`, `filter`, `fold`, `find`) are total pure Gallina functions here. *)
From Coq Require Import String Ascii List NArith ZArith QArith Bool.
From Sylt Require Import Lua.LuaNum Sem.Values.
Import ListNotations.
Local Open Scope string_scope.

(* ---- strings ---- *)

(* byte-wise lexicographic order (strcoll in the C locale) *)
Fixpoint str_ltb (a b : string) : bool :=
  match a, b with
  | _, EmptyString => false
  | EmptyString, String _ _ => true
  | String x a', String y b' =>
      if (N_of_ascii x <? N_of_ascii y)%N then true
      else if (N_of_ascii y <? N_of_ascii x)%N then false
      else str_ltb a' b'
  end.
Definition str_leb (a b : string) : bool := negb (str_ltb b a).

Fixpoint join (sep : string) (l : list string) : string :=
  match l with
  | [] => ""
  | [x] => x
  | x :: l' => x ++ sep ++ join sep l'
  end.

(* ---- numbers ---- *)

Definition vint (z : Z) : value := VInt z.
Definition vlen (n : nat) : value := VInt (Z.of_nat n).

(* the mathematical value of a number *)
Definition num_q (v : value) : option Q :=
  match v with VInt z => Some (z # 1) | VFloat q => Some q | _ => None end.

(* lua_Number2str of Lua 5.3: "%.14g", and ".0" appended when the result looks like an integer *)
Fixpoint looks_like_int (s : string) : bool :=
  match s with
  | EmptyString => true
  | String c s' =>
      let n := N_of_ascii c in
      (((48 <=? n)%N && (n <=? 57)%N) || (n =? 45)%N) && looks_like_int s'
  end.
Definition fmt_float (q : Q) : string :=
  let s := fmt_g14 q in if looks_like_int s then s ++ ".0" else s.

(* ---- tostring ---- *)

Fixpoint rt_tostring (v : value) : string :=
  match v with
  | VLuaNil => "nil"
  | VNil => "nil"                                              (* __NIL's __tostring *)
  | VBool true => "true"
  | VBool false => "false"
  | VInt z => z_to_dec z                                       (* "%d" *)
  | VFloat q => fmt_float q                                    (* "%.14g" (+ ".0") *)
  | VStr s => s
  | VTuple vs =>
      "(" ++ join ", " (map (fun x => rt_tostring x) vs) ++ (match vs with [_] => "," | _ => "" end) ++ ")"
  | VList vs => "[" ++ join ", " (map (fun x => rt_tostring x) vs) ++ "]"
  | VBlob fs => "blob {" ++ join ", " (map (fun kx => "." ++ fst kx ++ " = " ++ rt_tostring (snd kx)) fs) ++ "}"
  | VVariant tag p => tag ++ " " ++ rt_tostring p
  | VDict es =>
      "dict {" ++ join ", " (map (fun e => rt_tostring (fst (snd e)) ++ ": " ++ rt_tostring (snd (snd e))) es) ++ "}"
  | VSet es => "set {" ++ join ", " (map (fun e => rt_tostring (snd e)) es) ++ "}"
  | VFun _ => "function"                                       (* really "function: 0x..."; never compared *)
  end.

(* ---- == and ~= ---- *)

(* all entries (k, x) of `fa` satisfy f x (fb[k]), a missing fb[k] counting as failure *)
Section TblAll.
  Context {A B : Type}.
  Variable f : A -> B -> bool.
  Variable fb : list (string * B).
  Fixpoint tbl_all (fa : list (string * A)) : bool :=
    match fa with
    | [] => true
    | kx :: fa' =>
        match tbl_get (fst kx) fb with
        | Some y => if f (snd kx) y then tbl_all fa' else false
        | None => false
        end
    end.
End TblAll.

Fixpoint rt_eq (a b : value) {struct a} : bool :=
  match a, b with
  | VLuaNil, VLuaNil => true
  | VNil, VNil => true                                          (* the one __NIL table *)
  | VBool x, VBool y => Bool.eqb x y
  | VInt x, VInt y => Z.eqb x y
  | VFloat p, VFloat q => q_eqb p q
  | VInt x, VFloat q => q_eqb (x # 1) q                       (* mathematical equality across subtypes *)
  | VFloat p, VInt y => q_eqb p (y # 1)
  | VStr s, VStr t => String.eqb s t
  | VFun i, VFun j => N.eqb i j
  | VTuple xs, VTuple ys | VTuple xs, VList ys =>
      (* __TUPLE_META.__eq: for x = 1, #a do if not (a[x] == b[x]) then return false end end return true
         (a[x] == nil is false) *)
      zip_all (fun x y => rt_eq x y) xs ys
  | VList xs, VList ys | VList xs, VTuple ys =>
      (* __LIST_META.__eq: lengths first *)
      if Nat.eqb (length xs) (length ys) then zip_all (fun x y => rt_eq x y) xs ys else false
  | VBlob fa, VBlob fb =>
      (* __BLOB_META.__eq: every field of a equals the field of b; every field of b exists in a *)
      tbl_all (fun x y => rt_eq x y) fb fa && forallb (fun kv => tbl_mem (fst kv) fa) fb
  | VVariant t p, VVariant u q =>
      (* __VARIANT_META.__eq: a[1] == b[1] and a[2] == b[2] *)
      String.eqb t u && rt_eq p q
  | VDict ea, VDict eb =>
      (* __LUA_DICT_META.__eq: v == b[k] for all pairs of a, and v == a[k] for all pairs of b; the
         stored v are 2-tuples {key, value}.  In the second pass Lua calls __eq(b[k], a[k]); the model
         evaluates the operands in the other order (structural recursion on a), which gives the same
         answer on well-typed operands by RuntimeLaws.eq_sym. *)
      tbl_all (fun kx ky => if rt_eq (fst kx) (fst ky) then rt_eq (snd kx) (snd ky) else false) eb ea
      && forallb (fun e =>
                    (fix look (ea : list (string * (value * value))) : bool :=
                       match ea with
                       | [] => false
                       | e2 :: ea' =>
                           if String.eqb (fst e) (fst e2)
                           then (if rt_eq (fst (snd e2)) (fst (snd e)) then rt_eq (snd (snd e2)) (snd (snd e)) else false)
                           else look ea'
                       end) ea) eb
  | VSet ea, VSet eb =>
      tbl_all (fun k k' => rt_eq k k') eb ea
      && forallb (fun e =>
                    (fix look (ea : list (string * value)) : bool :=
                       match ea with
                       | [] => false
                       | e2 :: ea' => if String.eqb (fst e) (fst e2) then rt_eq (snd e2) (snd e) else look ea'
                       end) ea) eb
  | _, _ => false
  end.

Definition rt_neq (a b : value) : bool := negb (rt_eq a b).      (* `~=` *)

(* ---- < <= > >= ---- *)

Fixpoint rt_lt (a b : value) {struct a} : res bool :=
  match a, b with
  | VInt x, VInt y => Ok (x <? y)%Z
  | VFloat p, VFloat q => Ok (q_ltb p q)
  | VInt x, VFloat q => Ok (q_ltb (x # 1) q)
  | VFloat p, VInt y => Ok (q_ltb p (y # 1))
  | VStr s, VStr t => Ok (str_ltb s t)
  | VTuple xs, VTuple ys | VTuple xs, VList ys =>
      (* __TUPLE_META.__lt: for x = 1, #a do if a[x] ~= b[x] then return a[x] < b[x] end end return false
         (b shorter: a[x] ~= nil, then a[x] < nil is an error) *)
      lex_go (fun x y => rt_eq x y) (fun x y => rt_lt x y) false xs ys
  | VList xs, VList ys | VList xs, VTuple ys =>
      (* __LIST_META.__lt: every a[x] < b[x] (NOT lexicographic; the checker admits no list operands) *)
      zip_allM (fun x y => rt_lt x y) xs ys
  | (VTuple _ | VList _), (VNil | VBlob _ | VVariant _ _ | VDict _ | VSet _) => Unsup   (* exotic mix *)
  | (VNil | VBlob _ | VVariant _ _ | VDict _ | VSet _), (VTuple _ | VList _) => Unsup
  (* ill-typed: a table and a non-table; the table's handler runs and fails on b[x] unless #a = 0 *)
  | VTuple xs, _ => match xs with [] => Ok false | _ => Err end
  | VList xs, _ => match xs with [] => Ok true | _ => Err end
  | VStr s, VTuple _ => match s with EmptyString => Ok false | _ => Err end   (* #"" = 0 *)
  | VStr s, VList _ => match s with EmptyString => Ok true | _ => Err end
  | _, _ => Err                                                 (* attempt to compare ... *)
  end.

Fixpoint rt_le (a b : value) {struct a} : res bool :=
  match a, b with
  | VInt x, VInt y => Ok (x <=? y)%Z
  | VFloat p, VFloat q => Ok (q_leb p q)
  | VInt x, VFloat q => Ok (q_leb (x # 1) q)
  | VFloat p, VInt y => Ok (q_leb p (y # 1))
  | VStr s, VStr t => Ok (str_leb s t)
  | VTuple xs, VTuple ys | VTuple xs, VList ys =>
      (* __TUPLE_META.__le: as __lt, but `return true` at the end *)
      lex_go (fun x y => rt_eq x y) (fun x y => rt_lt x y) true xs ys
  | VList xs, VList ys | VList xs, VTuple ys => zip_allM (fun x y => rt_le x y) xs ys
  | (VTuple _ | VList _), (VNil | VBlob _ | VVariant _ _ | VDict _ | VSet _) => Unsup
  | (VNil | VBlob _ | VVariant _ _ | VDict _ | VSet _), (VTuple _ | VList _) => Unsup
  | VTuple xs, _ => match xs with [] => Ok true | _ => Err end
  | VList xs, _ => match xs with [] => Ok true | _ => Err end
  | VStr s, (VTuple _ | VList _) => match s with EmptyString => Ok true | _ => Err end
  | _, _ => Err
  end.

Definition rt_gt (a b : value) : res bool := rt_lt b a.         (* Lua translates a > b to b < a *)
Definition rt_ge (a b : value) : res bool := rt_le b a.         (* and a >= b to b <= a *)

(* ---- arithmetic ---- *)

Inductive aop := OpAdd | OpSub | OpMul | OpDiv.

(* two integers: + - * stay integers; / converts to float *)
Definition int_op (o : aop) (x y : Z) : res value :=
  match o with
  | OpAdd => Ok (VInt (x + y))
  | OpSub => Ok (VInt (x - y))
  | OpMul => Ok (VInt (x * y))
  | OpDiv => if (y =? 0)%Z then Unsup else Ok (VFloat (q_div (x # 1) (y # 1)))   (* x/0 is inf or NaN *)
  end.

(* at least one float *)
Definition float_op (o : aop) (p q : Q) : res value :=
  match o with
  | OpAdd => Ok (VFloat (q_add p q))
  | OpSub => Ok (VFloat (q_sub p q))
  | OpMul => Ok (VFloat (q_mul p q))
  | OpDiv => if q_is_zero q then Unsup else Ok (VFloat (q_div p q))
  end.

Inductive operand := ONum (v : value) | OStrNum | ONotNum.

(* Lua coerces strings that are numerals to numbers in arithmetic.  That conversion is outside the
   model: a string WITHOUT any decimal digit is certainly no numeral (Lua 5.3 also rejects "inf" and
   "nan"); a string with a digit MAY be one, and arithmetic on it is `Unsup`. *)
Fixpoint has_digit (s : string) : bool :=
  match s with
  | EmptyString => false
  | String c s' => let n := N_of_ascii c in ((48 <=? n)%N && (n <=? 57)%N) || has_digit s'
  end.

Definition operand_of (v : value) : operand :=
  match v with
  | VInt _ | VFloat _ => ONum v
  | VStr s => if has_digit s then OStrNum else ONotNum
  | _ => ONotNum
  end.

Definition num_arith (o : aop) (a b : value) : res value :=
  match a, b with
  | VInt x, VInt y => int_op o x y
  | VInt x, VFloat q => float_op o (x # 1) q
  | VFloat p, VInt y => float_op o p (y # 1)
  | VFloat p, VFloat q => float_op o p q
  | _, _ => Err
  end.

(* The body of __TUPLE_META.__add/__sub/__mul/__div, given the elements xs of the operand whose length
   drives the loop, the other operand b, and `rec x y` = the Lua value of `x o y` for x among xs.
   + : out[x] = __ADD(a[x], b[x]) (since /repo a9ac36e), - *: out[x] = a[x] o b[x].
   /: a[x] / b[x] when type(b) == "table", else a[x] / b.   `rec` is given accordingly. *)
Definition tuple_handler (o : aop) (rec : value -> value -> res value) (xs : list value) (b : value) : res value :=
  match b with
  | VTuple ys | VList ys => rmap VTuple (zipM rec xs ys)
  | VInt _ | VFloat _ | VBool _ | VLuaNil | VFun _ | VStr _ =>
      match o with
      | OpDiv => rmap VTuple (rmapM (fun x => rec x b) xs)       (* a[x] / b *)
      | _ => match xs with [] => Ok (VTuple []) | _ => Err end   (* b[x]: indexing a non-table; ("s")[x] is nil *)
      end
  | _ => match xs with [] => Ok (VTuple []) | _ => Unsup end     (* exotic second operand: not modelled *)
  end.

(* `a o b` as Lua evaluates it (o one of + - * /) *)
Fixpoint rt_arith (o : aop) (a b : value) {struct a} : res value :=
  match operand_of a, operand_of b with
  | ONum x, ONum y => num_arith o x y
  | ONum _, OStrNum | OStrNum, ONum _ | OStrNum, OStrNum => Unsup   (* a string coerced to a number *)
  | _, _ =>
      (* what the tuple metamethods do with a pair of components: __ADD for +, the raw operator otherwise *)
      let elem := fun x y =>
        match o, x, y with
        | OpAdd, VStr s, VStr t => Ok (VStr (s ++ t))
        | _, _, _ => rt_arith o x y
        end in
      match a with
      | VTuple xs => tuple_handler o elem xs b
      | VList xs =>                                            (* only the 2nd operand has __add *)
          match b with VTuple _ => tuple_handler o elem xs b | _ => Err end
      | VStr s =>
          match b with
          | VTuple _ => match s with EmptyString => Ok (VTuple []) | _ => Err end   (* #a = 0 / a[x] is nil *)
          | _ => Err
          end
      | VInt _ | VFloat _ | VBool _ | VLuaNil | VFun _ => Err  (* no metamethod / # of a non-table *)
      | _ => match b with VTuple _ => Unsup | _ => Err end      (* exotic first operand: not modelled *)
      end
  end.

(* __ADD(a, b): the emitted form of Sylt `a + b` *)
Definition rt_add (a b : value) : res value :=
  match a, b with
  | VStr s, VStr t => Ok (VStr (s ++ t))
  | _, _ => rt_arith OpAdd a b
  end.
Definition rt_sub := rt_arith OpSub.                            (* (a - b) *)
Definition rt_mul := rt_arith OpMul.                            (* (a * b) *)
Definition rt_div := rt_arith OpDiv.                            (* (a / b) *)

(* (-a) *)
Fixpoint rt_neg (a : value) : res value :=
  match a with
  | VInt z => Ok (VInt (- z))
  | VFloat q => Ok (VFloat (q_neg q))
  | VStr s => if has_digit s then Unsup else Err
  | VTuple xs => rmap VTuple (rmapM (fun x => rt_neg x) xs)     (* __unm: out[x] = -a[x] *)
  | _ => Err
  end.

(* ---- __INDEX ---- *)

(* a table key given as a number: floats with an integer value are normalised to that integer *)
Definition num_to_index (v : value) : option Z :=
  match v with
  | VInt z => Some z
  | VFloat q => if q_is_int q then Some (Qnum q) else None
  | _ => None
  end.

Definition rt_index (o i : value) : res value :=
  match o with
  | VLuaNil => Ok VLuaNil
  | VTuple vs | VList vs =>
      match num_to_index i with
      | Some z => if (0 <=? z)%Z then match nth_error vs (Z.to_nat z) with Some e => Ok e | None => Err end
                  else Err
      | None => Err                                            (* i + 1 on a non-number, or o[1.5] is nil *)
      end
  | VBlob fs =>
      match i with
      | VStr f => match tbl_get f fs with Some e => Ok e | None => Err end
      | _ => Err
      end
  | VVariant tag p =>
      match num_to_index i with
      | Some 1%Z => Ok (VStr tag)
      | Some 2%Z => Ok (match p with VLuaNil => VNil | _ => p end)
      | _ => Ok VNil
      end
  | _ => Unsup
  end.

(* ---- Maybe (std/maybe.sy) ---- *)

Definition mk_just (v : value) : value := VVariant "Just" v.
Definition lib_none : value := VVariant "None" VNil.          (* what preamble.lua builds: __VARIANT({"None", __NIL}) (since /repo c4844e5) *)
Definition src_none : value := VVariant "None" VNil.          (* what `Maybe.None` compiles to: __VARIANT{ "None", __NIL } *)

(* `case m do Just x -> ... None -> ... end` compares __INDEX(m, 1) with the variant names *)
Definition rt_is_just (m : value) : res bool :=
  match m with
  | VVariant tag _ => if String.eqb tag "Just" then Ok true else if String.eqb tag "None" then Ok false else Unsup
  | _ => Err
  end.
Definition rt_is_none (m : value) : res bool := rmap negb (rt_is_just m).
Definition rt_or_default (m d : value) : res value :=
  match m with
  | VVariant tag p =>
      if String.eqb tag "Just" then Ok (match p with VLuaNil => VNil | _ => p end)
      else if String.eqb tag "None" then Ok d else Unsup
  | _ => Err
  end.
Definition rt_maybe_map (f : value -> value) (m : value) : res value :=
  match m with
  | VVariant tag p =>
      if String.eqb tag "Just" then Ok (mk_just (f (match p with VLuaNil => VNil | _ => p end)))
      else if String.eqb tag "None" then Ok src_none else Unsup
  | _ => Err
  end.

(* ---- lists (preamble.lua list_*, std/list.sy) ---- *)

Fixpoint replace_nth {A : Type} (n : nat) (x : A) (l : list A) : list A :=
  match l, n with
  | [], _ => []
  | _ :: l', O => x :: l'
  | y :: l', S n' => y :: replace_nth n' x l'
  end.

Definition rt_list_push (l v : value) : res value :=            (* table.insert(l, v) *)
  match l with VList vs => Ok (VList (vs ++ [v])) | _ => Err end.

Definition rt_list_prepend (l v : value) : res value :=         (* table.insert(l, 1, v) *)
  match l with VList vs => Ok (VList (v :: vs)) | _ => Err end.

(* list_get: x = l[i+1]; Just x if x ~= nil, else the library's None *)
Definition rt_list_get (l : value) (i : Z) : res value :=
  match l with
  | VList vs =>
      if (0 <=? i)%Z then
        match nth_error vs (Z.to_nat i) with Some x => Ok (mk_just x) | None => Ok lib_none end
      else Ok lib_none
  | _ => Err
  end.

(* list_set: if i >= 0 and #l > i then l[i+1] = x end   (the guard i >= 0 since /repo 7ba9047) *)
Definition rt_list_set (l : value) (i : Z) (x : value) : res value :=
  match l with
  | VList vs =>
      if (i <? 0)%Z then Ok l
      else if (i <? Z.of_nat (length vs))%Z then Ok (VList (replace_nth (Z.to_nat i) x vs))
      else Ok l
  | _ => Err
  end.

(* list_pop: popped = list_get(l, #l - 1); list_set(l, #l - 1, nil) *)
Definition rt_list_pop (l : value) : res (value * value) :=
  match l with
  | VList vs =>
      match vs with
      | [] => Ok (l, lib_none)
      | _ => Ok (VList (removelast vs), mk_just (last vs VLuaNil))
      end
  | _ => Err
  end.

(* xx_len: counts the pairs of the table *)
Definition rt_len (c : value) : res value :=
  match c with
  | VList vs => Ok (vlen (length vs))
  | VDict es => Ok (vlen (length es))
  | VSet es => Ok (vlen (length es))
  | _ => Unsup
  end.

Definition rt_list_map (f : value -> value) (l : value) : res value :=
  match l with VList vs => Ok (VList (map f vs)) | _ => Err end.
Definition rt_list_filter (p : value -> bool) (l : value) : res value :=
  match l with VList vs => Ok (VList (filter p vs)) | _ => Err end.
(* a = f(v, a) for every v in order *)
Definition rt_list_fold (f : value -> value -> value) (a : value) (l : value) : res value :=
  match l with VList vs => Ok (fold_left (fun acc v => f v acc) vs a) | _ => Err end.
Definition rt_list_find (p : value -> bool) (l : value) : res value :=
  match l with
  | VList vs => Ok (match find p vs with Some x => mk_just x | None => lib_none end)
  | _ => Err
  end.
(* std/list.sy: contains :: fn l, x -> (find' l, pu y -> y == x end) -> isJust' *)
Definition rt_list_contains (l x : value) : res bool :=
  rbind (rt_list_find (fun y => rt_eq y x) l) rt_is_just.
(* std/list.sy: last :: fn l -> get' l, len(l) - 1 *)
Definition rt_list_last (l : value) : res value :=
  match l with VList vs => rt_list_get l (Z.of_nat (length vs) - 1) | _ => Err end.

(* ---- __KEY: the text under which dicts and sets keep an entry (since /repo aaf31ad) ---- *)

Fixpoint sconcat (l : list string) : string :=
  match l with [] => "" | x :: l' => x ++ sconcat l' end.

(* function __KEY(k), with the text of a float as a parameter (`fkey`) so that the laws can say what they
   need from it *)
Fixpoint rt_key_with (fkey : Q -> string) (k : value) : string :=
  match k with
  | VStr s => "s" ++ z_to_dec (Z.of_nat (String.length s)) ++ ":" ++ s            (* "s" .. #k .. ":" .. k *)
  | VInt z => "i" ++ z_to_dec z ++ ";"                                             (* "i" .. string.format("%d", k) .. ";" *)
  | VFloat q => "n" ++ fkey q ++ ";"                                               (* "n" .. string.format("%.17g", k) .. ";" *)
  | VTuple vs => "(" ++ sconcat (map (fun x => rt_key_with fkey x) vs) ++ ")"      (* "(" .. __KEY(k[1]) .. ... .. ")" *)
  | _ => "o" ++ rt_tostring k                                                      (* "o" .. tostring(k) *)
  end.

(* string.format("%.17g", q) *)
Definition fmt_g17 (q : Q) : string := fmt_g 17 q.
Definition rt_key (k : value) : string := rt_key_with fmt_g17 k.

(* ---- dicts (preamble.lua dict_*, std/dict.sy) ---- *)

Definition rt_dict_new : value := VDict [].
(* dict[__KEY(k)] = __TUPLE {k, v} *)
Definition rt_dict_update (d k v : value) : res value :=
  match d with VDict es => Ok (VDict (tbl_set (rt_key k) (k, v) es)) | _ => Err end.
(* dict[__KEY(k)] = nil *)
Definition rt_dict_remove (d k : value) : res value :=
  match d with VDict es => Ok (VDict (tbl_del (rt_key k) es)) | _ => Err end.
Definition rt_dict_get (d k : value) : res value :=
  match d with
  | VDict es => Ok (match tbl_get (rt_key k) es with Some (_, v) => mk_just v | None => lib_none end)
  | _ => Err
  end.
(* for _, e in pairs(l) do dict_update(out, e[1], e[2]) end *)
Definition rt_dict_from_list (l : value) : res value :=
  match l with
  | VList vs =>
      fold_left (fun acc e => rbind acc (fun d => match e with
                                                  | VTuple (k :: v :: _) => rt_dict_update d k v
                                                  | _ => Unsup
                                                  end)) vs (Ok rt_dict_new)
  | _ => Err
  end.
(* std/dict.sy: contains_key :: pu dict, key -> isJust' get' dict, key *)
Definition rt_dict_contains_key (d k : value) : res bool := rbind (rt_dict_get d k) rt_is_just.

(* ---- sets (preamble.lua set_*, std/set.sy) ---- *)

Definition rt_set_new : value := VSet [].
Definition rt_set_add (s k : value) : res value :=
  match s with VSet es => Ok (VSet (tbl_set (rt_key k) k es)) | _ => Err end.
Definition rt_set_remove (s k : value) : res value :=
  match s with VSet es => Ok (VSet (tbl_del (rt_key k) es)) | _ => Err end.
Definition rt_set_contains (s k : value) : res bool :=
  match s with VSet es => Ok (tbl_mem (rt_key k) es) | _ => Err end.
Definition rt_set_from_list (l : value) : res value :=
  match l with
  | VList vs => fold_left (fun acc e => rbind acc (fun s => rt_set_add s e)) vs (Ok rt_set_new)
  | _ => Err
  end.

(* ---- math helpers (std/math.sy; sign, div, floor, rem are Lua) ---- *)

Definition v_zero : value := VInt 0.

(* min :: pu a, b -> if a < b do a else do b end *)
Definition rt_min (a b : value) : res value := rbind (rt_lt a b) (fun c => Ok (if c then a else b)).
(* max :: pu a, b -> if a > b do a else do b end *)
Definition rt_max (a b : value) : res value := rbind (rt_gt a b) (fun c => Ok (if c then a else b)).
(* abs :: pu n -> if n < 0 do -n else do n end *)
Definition rt_abs (n : value) : res value :=
  rbind (rt_lt n v_zero) (fun c => if c then rt_neg n else Ok n).
(* clamp :: pu x, lo, hi -> min(hi, max(x, lo)) *)
Definition rt_clamp (x lo hi : value) : res value := rbind (rt_max x lo) (fun m => rt_min hi m).
(* function sign(x) if x > 0 then return 1 elseif x < 0 then return -1 else return 0 end end *)
Definition rt_sign (x : value) : res value :=
  rbind (rt_gt x v_zero) (fun c =>
    if c then Ok (VInt 1)
    else rbind (rt_lt x v_zero) (fun c' => Ok (if c' then VInt (-1) else VInt 0))).
(* math.floor: an integer *)
Definition rt_floor (x : value) : res value :=
  match x with
  | VInt z => Ok (VInt z)
  | VFloat q => Ok (VInt (q_floor q))
  | VStr s => if has_digit s then Unsup else Err
  | _ => Err
  end.
(* function div(a, b) if b == 0 then return 0 end return math.floor(a / b) end *)
Definition rt_idiv (a b : value) : res value :=
  if rt_eq b v_zero then Ok (VInt 0) else rbind (rt_div a b) rt_floor.
(* function rem(x, y) return math.abs(x % y) end
   x % y = x - floor(x/y)*y; integer % 0 is an error, float % 0 is NaN *)
Definition rt_rem (x y : value) : res value :=
  match x, y with
  | VInt a, VInt b => if (b =? 0)%Z then Err else Ok (VInt (Z.abs (Z.modulo a b)))
  | VInt a, VFloat q => if q_is_zero q then Unsup else Ok (VFloat (q_abs (q_mod (a # 1) q)))
  | VFloat p, VInt b => if (b =? 0)%Z then Unsup else Ok (VFloat (q_abs (q_mod p (b # 1))))
  | VFloat p, VFloat q => if q_is_zero q then Unsup else Ok (VFloat (q_abs (q_mod p q)))
  | _, _ => Err
  end.
