(* C02 / C03 (/repo 8f8db35): a tuple or list literal returns from the function only if one of its parts does.
   The `ret` component of the checker's result for a tuple / list of literals is None; hence a function with a declared
   non-void result whose body is a single definition of such a literal does not count as returning, and is rejected
   (before the fix a made-up unknown return type made `f :: fn -> int do l := [1] end` accepted; `f() + 1` is arithmetic
   on nil at run time). *)
From Coq Require Import String List NArith ZArith PArith Bool Lia FMapPositive.
From Sylt Require Import Syntax.Resolved Types.TyGraph Types.Tc Types.Ctx Types.TcInv Types.Reject Types.Mismatch.
Import ListNotations.
Local Open Scope tc_scope.

Section LiteralRet.
  Variable kinds : PositiveMap.t varkind.
  Variable g : nat.
  Notation G := (gfix g).
  Notation afix := (afix kinds G).
  Let PG : gpres G := gfix_pres g.
  Let PA f : apres (afix f) := afix_pres kinds G PG f.

  Definition is_lit (e : expr) : Prop := exists t, lit_type e = Some t /\ rigid t = true.

  Lemma lit_ret_none e f ctx s r s' : is_lit e -> r_expr (afix f) e ctx s = Ok (r, s') -> fst r = None.
  Proof.
    intros (t & L & R) H. destruct f as [|f]; [discriminate|]. rewrite (lit_eval kinds G f e t ctx s L R) in H.
    injection H as <- _. reflexivity.
  Qed.

  Lemma tuple_fold_ret f sp ctx : forall values tys s r s',
    Forall is_lit values ->
    foldM (fun (acc : option tyid * list tyid) (v : expr) =>
             '(iret, t) <- r_expr (afix f) v ctx ;; r' <- unify_option G sp (fst acc) iret ;; ret (r', snd acc ++ [t]))
          values (None, tys) s = Ok (r, s') -> fst r = None.
  Proof.
    induction values as [|v l IH]; intros tys s r s' Hl H; cbn [foldM] in H.
    - injection H as <- _. reflexivity.
    - inversion Hl as [|? ? Hv Hl']; subst.
      apply bind_inv in H as (acc1 & s1 & H1 & H).
      apply bind_inv in H1 as ([iret t] & s2 & Hr & H1). pose proof (lit_ret_none _ _ _ _ _ _ Hv Hr) as E. cbn [fst] in E. subst iret.
      cbn [fst unify_option] in H1. injection H1 as <- <-. exact (IH _ _ _ _ Hl' H).
  Qed.

  Lemma list_fold_ret f sp ctx inner : forall values s r s',
    Forall is_lit values ->
    foldM (fun (acc : option tyid) (v : expr) =>
             '(eret, et) <- r_expr (afix f) v ctx ;; unify G sp inner et ;;; unify_option G sp acc eret)
          values None s = Ok (r, s') -> r = None.
  Proof.
    induction values as [|v l IH]; intros s r s' Hl H; cbn [foldM] in H.
    - injection H as <- _. reflexivity.
    - inversion Hl as [|? ? Hv Hl']; subst.
      apply bind_inv in H as (acc1 & s1 & H1 & H).
      apply bind_inv in H1 as ([eret et] & s2 & Hr & H1). pose proof (lit_ret_none _ _ _ _ _ _ Hv Hr) as E. cbn [fst] in E. subst eret.
      apply bind_inv in H1 as (u & s3 & _ & H1). cbn [unify_option] in H1. injection H1 as <- <-. exact (IH _ _ _ Hl' H).
  Qed.

  (* the ret component of a tuple / list of literals is None *)
  Theorem collection_ret_none k values sp f ctx s r s' :
    Forall is_lit values -> r_expr (afix f) (ECollection k values sp) ctx s = Ok (r, s') -> fst r = None.
  Proof.
    intros Hl H. destruct f as [|f]; [discriminate|]. cbn [Tc.afix astep r_expr] in H. unfold expr_body in H.
    apply bind_inv in H as ([er ex] & s1 & H1 & H). cbv beta iota in H1.
    assert (Er : er = None).
    { destruct k.
      - apply bind_inv in H1 as ([ret0 tys] & s2 & Hf & H1). apply bind_inv in H1 as (t & s3 & _ & H1). injection H1 as <- _ _.
        exact (tuple_fold_ret f sp ctx values [] s _ _ Hl Hf).
      - apply bind_inv in H1 as (inner & s2 & _ & H1). apply bind_inv in H1 as (ret0 & s3 & Hf & H1).
        apply bind_inv in H1 as (t & s4 & _ & H1). injection H1 as <- _ _.
        exact (list_fold_ret f sp ctx inner values s2 _ _ Hl Hf). }
    subst er. apply bind_inv in H as (t & s2 & _ & H). destruct t; try (injection H as <- _; reflexivity).
    apply bind_inv in H as (c & s3 & _ & H). injection H as <- _. reflexivity.
  Qed.

  (* ---- a blob literal whose field initialisers are literals *)
  Lemma blob_fold_ret f sp ctx (given : fieldmap) : forall (fields : list (string * expr)) s r s',
    Forall (fun fe => is_lit (snd fe)) fields ->
    foldM (fun (acc : option tyid) (fe : string * expr) =>
             '(iret, ety) <- r_expr (afix f) (snd fe) ctx ;;
             acc' <- unify_option G sp acc iret ;;
             match flookup (fst fe) given with
             | Some (_, ft) => unify G (expr_span (snd fe)) ety ft ;;; ret acc'
             | None => panic PFieldIndex
             end) fields None s = Ok (r, s') -> r = None.
  Proof.
    induction fields as [|fe l IH]; intros s r s' Hl H; cbn [foldM] in H.
    - injection H as <- _. reflexivity.
    - inversion Hl as [|? ? Hv Hl']; subst.
      apply bind_inv in H as (acc1 & s1 & H1 & H).
      apply bind_inv in H1 as ([iret ety] & s2 & Hr & H1). pose proof (lit_ret_none _ _ _ _ _ _ Hv Hr) as E. cbn [fst] in E. subst iret.
      cbn [unify_option] in H1. rewrite (bind_ok _ _ _ _ _ (eq_refl : ret (@None tyid) s2 = Ok (None, s2))) in H1.
      destruct (flookup (fst fe) given) as [[gsp ft]|]; [|discriminate].
      apply bind_inv in H1 as (u & s3 & _ & H1). injection H1 as <- <-. exact (IH _ _ _ Hl' H).
  Qed.

  Theorem blob_ret_none v fields self sp f ctx s r s' :
    Forall (fun fe => is_lit (snd fe)) fields -> r_expr (afix f) (EBlob v fields self sp) ctx s = Ok (r, s') -> fst r = None.
  Proof.
    intros Hl H. destruct f as [|f]; [discriminate|]. cbn [Tc.afix astep r_expr] in H. unfold expr_body in H.
    apply bind_inv in H as ([er ex] & s1 & H1 & H). cbv beta iota in H1.
    assert (Er : er = None).
    { apply bind_inv in H1 as (bt & s2 & _ & H1). apply bind_inv in H1 as (blob_ty & s3 & _ & H1).
      apply bind_inv in H1 as (t & s4 & _ & H1). destruct t; try discriminate H1.
      apply bind_inv in H1 as (given & s5 & _ & H1). cbv zeta in H1.
      match type of H1 with (match ?l with _ => _ end) _ = _ => destruct l as [|e1 more] end; [|discriminate].
      apply bind_inv in H1 as (gb & s6 & _ & H1). apply bind_inv in H1 as (sty & s7 & _ & H1).
      apply bind_inv in H1 as (u8 & s8 & _ & H1). apply bind_inv in H1 as (ret0 & s9 & Hf & H1).
      apply bind_inv in H1 as (u & s10 & _ & H1). injection H1 as <- _ _.
      exact (blob_fold_ret f sp ctx given fields _ _ _ Hl Hf). }
    subst er. apply bind_inv in H as (t & s2 & _ & H). destruct t; try (injection H as <- _; reflexivity).
    apply bind_inv in H as (c & s3 & _ & H). injection H as <- _. reflexivity.
  Qed.

  (* a function with a declared non-void result whose body is `x := value`, for a value that never carries a return *)
  Theorem noret_body_rejected name params rty dname dvar dkind dty value dsp pure fsp f ctx s :
    is_void_ty rty = false ->
    (forall f' ctx' s0 r0 s0', r_expr (afix f') value ctx' s0 = Ok (r0, s0') -> fst r0 = None) -> wf s ->
    notok (r_expr (afix f) (EFunction name params rty [SDefinition dname dvar dkind dty value dsp] pure fsp) ctx s).
  Proof.
    intros Nv Hnr W [r s'] H. destruct f as [|f]; [discriminate|]. cbn [Tc.afix astep r_expr] in H. unfold expr_body in H.
    apply bind_inv in H as ([er ex] & s1 & H1 & _). cbv beta iota in H1.
    apply bind_inv in H1 as ([f_ty ret_ty] & s2 & _ & H1). cbv zeta in H1.
    apply bind_inv in H1 as ([actual implicit] & s3 & Hb & H1).
    unfold expression_block in Hb. cbn [block_split fst snd foldM] in Hb.
    apply bind_inv in Hb as (r1 & s4 & Hf & Hb). injection Hb as <- <- <-.
    apply bind_inv in Hf as (acc1 & s5 & Hs & Hf). injection Hf as <- <-.
    apply bind_inv in Hs as (sr & s6 & Hd & Hs). cbn [unify_option] in Hs.
    assert (Esr : sr = None).
    { destruct f as [|f]; [discriminate|]. cbn [Tc.afix astep r_stmt] in Hd. unfold stmt_body, definition in Hd.
      destruct (inside_pure (enter_fn pure ctx) && negb (immutable dkind)); [discriminate|].
      apply bind_inv in Hd as (vt & s7 & _ & Hd).
      apply bind_inv in Hd as (u8 & s8 & _ & Hd).
      apply bind_inv in Hd as (dt & s9 & _ & Hd).
      apply bind_inv in Hd as (u10 & s10 & _ & Hd).
      apply bind_inv in Hd as (u11 & s11 & _ & Hd).
      apply bind_inv in Hd as ([vret vty] & s12 & Hv & Hd).
      apply bind_inv in Hd as (u13 & s13 & _ & Hd). injection Hd as <- _.
      exact (Hnr _ _ _ _ _ Hv). }
    subst sr. injection Hs as <- <-.
    rewrite Nv in H1. cbn [unify_option] in H1.
    rewrite (bind_ok _ _ _ _ _ (eq_refl : ret (@None tyid) s6 = Ok (None, s6))) in H1.
    rewrite (bind_ok _ _ _ _ _ (eq_refl : ret (Some ret_ty) s6 = Ok (Some ret_ty, s6))) in H1.
    rewrite (bind_ok _ _ _ _ _ (eq_refl : ret true s6 = Ok (true, s6))) in H1.
    cbn [andb negb] in H1. discriminate H1.
  Qed.

  Theorem literal_body_rejected name params rty dname dvar dkind dty k values csp dsp pure fsp f ctx s :
    is_void_ty rty = false -> Forall is_lit values -> wf s ->
    notok (r_expr (afix f) (EFunction name params rty [SDefinition dname dvar dkind dty (ECollection k values csp) dsp] pure fsp) ctx s).
  Proof.
    intros Nv Hl W. apply noret_body_rejected; [exact Nv| |exact W].
    intros f' ctx' s0 r0 s0' H. exact (collection_ret_none _ _ _ _ _ _ _ _ Hl H).
  Qed.

  Theorem blob_literal_body_rejected name params rty dname dvar dkind dty v fields self bsp dsp pure fsp f ctx s :
    is_void_ty rty = false -> Forall (fun fe => is_lit (snd fe)) fields -> wf s ->
    notok (r_expr (afix f) (EFunction name params rty [SDefinition dname dvar dkind dty (EBlob v fields self bsp) dsp] pure fsp) ctx s).
  Proof.
    intros Nv Hl W. apply noret_body_rejected; [exact Nv| |exact W].
    intros f' ctx' s0 r0 s0' H. exact (blob_ret_none _ _ _ _ _ _ _ _ _ Hl H).
  Qed.
End LiteralRet.
