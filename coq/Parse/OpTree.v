(* Operator trees, their token rendering, and the two parenthesisations C13 compares.  Definitions only.

   [ox] is the class of expressions C13 quantifies over: the 13 binary operators, unary - and not,
   parentheses, and atoms = int literals and identifier-rooted postfix chains (field access `.n`, constant
   index `[k]`, calls `(e1, ..., en)` whose arguments are again [ox] trees).  [emb] maps an [ox] to the
   parser's public tree.  [pp] prints a tree LITERALLY (an [OParen] node is a pair of parentheses and
   nothing else inserts any); [minp] inserts only the parentheses the DOCUMENTED table requires;
   [fullp] parenthesises every operator application that is an operand. *)
From Coq Require Import List NArith Bool Arith.
From Sylt Require Import Syntax.Ast Syntax.Tok Parse.PrecTable.
Import ListNotations.

Inductive ox :=
| OInt (z : N)
| OGet (root : name) (ps : oposts)
| OBin (o : binop) (l r : ox)
| OUn (u : unop) (e : ox)
| OParen (e : ox)
with oposts :=
| PNil
| PField (n : name) (ps : oposts)
| PIndex (k : N) (ps : oposts)
| PCall (args : oargs) (ps : oposts)
with oargs :=
| ANil
| ACons (e : ox) (rest : oargs).

Fixpoint emb (e : ox) : expr :=
  match e with
  | OInt z => EInt z
  | OGet r ps => EGet (emb_posts (ARead r) ps)
  | OBin o l r => EBin o (emb l) (emb r)
  | OUn u x => EUn u (emb x)
  | OParen x => EParen (emb x)
  end
with emb_posts (a : assignable) (ps : oposts) {struct ps} : assignable :=
  match ps with
  | PNil => a
  | PField n ps' => emb_posts (AAccess a n) ps'
  | PIndex k ps' => emb_posts (AIndex a (EInt k)) ps'
  | PCall args ps' => emb_posts (ACall a (emb_args args)) ps'
  end
with emb_args (l : oargs) : list expr :=
  match l with
  | ANil => []
  | ACons e rest => emb e :: emb_args rest
  end.

(* literal token rendering *)
Fixpoint pp (e : ox) : list tok :=
  match e with
  | OInt z => [TInt z]
  | OGet r ps => TIdent r :: pp_posts ps
  | OBin o l r => pp l ++ bt o :: pp r
  | OUn u x => TK (doc_untok u) :: pp x
  | OParen x => TK KLeftParen :: pp x ++ [TK KRightParen]
  end
with pp_posts (ps : oposts) : list tok :=
  match ps with
  | PNil => []
  | PField n ps' => TK KDot :: TIdent n :: pp_posts ps'
  | PIndex k ps' => TK KLeftBracket :: TInt k :: TK KRightBracket :: pp_posts ps'
  | PCall args ps' => TK KLeftParen :: pp_args args ++ TK KRightParen :: pp_posts ps'
  end
with pp_args (l : oargs) : list tok :=
  match l with
  | ANil => []
  | ACons e rest =>
      match rest with
      | ANil => pp e
      | ACons _ _ => pp e ++ TK KComma :: pp_args rest
      end
  end.

(* side condition on names: identifiers at the root of a chain and field names do not start with an
   upper-case letter (`A.B` is an enum variant, `A {` / `a.B {` a blob instantiation) *)
Fixpoint lower_ok (e : ox) : bool :=
  match e with
  | OInt _ => true
  | OGet r ps => negb (is_capitalized r) && lower_posts ps
  | OBin _ l r => lower_ok l && lower_ok r
  | OUn _ x => lower_ok x
  | OParen x => lower_ok x
  end
with lower_posts (ps : oposts) : bool :=
  match ps with
  | PNil => true
  | PField n ps' => negb (is_capitalized n) && lower_posts ps'
  | PIndex _ ps' => lower_posts ps'
  | PCall args ps' => lower_args args && lower_posts ps'
  end
with lower_args (l : oargs) : bool :=
  match l with
  | ANil => true
  | ACons e rest => lower_ok e && lower_args rest
  end.

(* ---- parentheses required by the documented table ---- *)

Definition is_product (o : binop) : bool := negb (doc_below_unary o).

(* left operand l of `l o r` *)
Definition need_l (o : binop) (l : ox) : bool :=
  match l with
  | OBin o2 _ _ => doc_rank o2 <? doc_rank o     (* looser operator on the left of a tighter one *)
  | OUn _ _ => is_product o                     (* unary vs * / is not ordered by the statement *)
  | _ => false
  end.

(* right operand r of `l o r`: all operators associate to the left *)
Definition need_r (o : binop) (r : ox) : bool :=
  match r with
  | OBin o2 _ _ => doc_rank o2 <=? doc_rank o
  | OUn _ _ => is_product o
  | _ => false
  end.

(* operand of a unary operator: every binary operator (those the statement ranks below unary, and
   products, which it does not rank against unary at all) *)
Definition need_u (e : ox) : bool :=
  match e with
  | OBin _ _ _ => true
  | _ => false
  end.

Definition wrap (b : bool) (e : ox) : ox := if b then OParen e else e.

Fixpoint minp (e : ox) : ox :=
  match e with
  | OInt z => OInt z
  | OGet r ps => OGet r (minp_posts ps)
  | OBin o l r => OBin o (wrap (need_l o (minp l)) (minp l)) (wrap (need_r o (minp r)) (minp r))
  | OUn u x => OUn u (wrap (need_u (minp x)) (minp x))
  | OParen x => OParen (minp x)
  end
with minp_posts (ps : oposts) : oposts :=
  match ps with
  | PNil => PNil
  | PField n ps' => PField n (minp_posts ps')
  | PIndex k ps' => PIndex k (minp_posts ps')
  | PCall args ps' => PCall (minp_args args) (minp_posts ps')
  end
with minp_args (l : oargs) : oargs :=
  match l with
  | ANil => ANil
  | ACons e rest => ACons (minp e) (minp_args rest)
  end.

Definition is_op (e : ox) : bool :=
  match e with
  | OBin _ _ _ | OUn _ _ => true
  | _ => false
  end.

Fixpoint fullp (e : ox) : ox :=
  match e with
  | OInt z => OInt z
  | OGet r ps => OGet r (fullp_posts ps)
  | OBin o l r => OBin o (wrap (is_op (fullp l)) (fullp l)) (wrap (is_op (fullp r)) (fullp r))
  | OUn u x => OUn u (wrap (is_op (fullp x)) (fullp x))
  | OParen x => OParen (fullp x)
  end
with fullp_posts (ps : oposts) : oposts :=
  match ps with
  | PNil => PNil
  | PField n ps' => PField n (fullp_posts ps')
  | PIndex k ps' => PIndex k (fullp_posts ps')
  | PCall args ps' => PCall (fullp_args args) (fullp_posts ps')
  end
with fullp_args (l : oargs) : oargs :=
  match l with
  | ANil => ANil
  | ACons e rest => ACons (fullp e) (fullp_args rest)
  end.

Definition print_min (e : ox) : list tok := pp (minp e).
Definition print_full (e : ox) : list tok := pp (fullp e).

(* removing every parenthesis node *)
Fixpoint unparen (e : ox) : ox :=
  match e with
  | OInt z => OInt z
  | OGet r ps => OGet r (unparen_posts ps)
  | OBin o l r => OBin o (unparen l) (unparen r)
  | OUn u x => OUn u (unparen x)
  | OParen x => unparen x
  end
with unparen_posts (ps : oposts) : oposts :=
  match ps with
  | PNil => PNil
  | PField n ps' => PField n (unparen_posts ps')
  | PIndex k ps' => PIndex k (unparen_posts ps')
  | PCall args ps' => PCall (unparen_args args) (unparen_posts ps')
  end
with unparen_args (l : oargs) : oargs :=
  match l with
  | ANil => ANil
  | ACons e rest => ACons (unparen e) (unparen_args rest)
  end.

(* ---- "literal printing parses back" condition, in documented ranks only ---- *)
Fixpoint dwf (e : ox) : bool :=
  match e with
  | OInt _ => true
  | OGet _ ps => dwf_posts ps
  | OBin o l r => negb (need_l o l) && negb (need_r o r) && dwf l && dwf r
  | OUn _ x => negb (need_u x) && dwf x
  | OParen x => dwf x
  end
with dwf_posts (ps : oposts) : bool :=
  match ps with
  | PNil => true
  | PField _ ps' => dwf_posts ps'
  | PIndex _ ps' => dwf_posts ps'
  | PCall args ps' => dwf_args args && dwf_posts ps'
  end
with dwf_args (l : oargs) : bool :=
  match l with
  | ANil => true
  | ACons e rest => dwf e && dwf_args rest
  end.

(* what may follow the printed expression: the next token must not continue it.
   [nlf] is the parser's skip_newlines flag at that point. *)
Definition follow_tok (nlf : bool) (t : tok) : bool :=
  match t with
  | TComment => false
  | TK KNewline => negb nlf
  | TK KPrime | TK KLeftParen | TK KLeftBracket | TK KDot | TK KLeftBrace => false
  | _ => true
  end.
