(* The PLAIN MODELS the run-time library is compared with (definitions only; nothing here looks at
   preamble.lua):
   * for C19: structural equality, the lexicographic order and element-wise arithmetic, each defined by
     recursion on the TYPE of the operands;
   * for C18: lists (`list A` with the functions of Coq's List library), finite maps and finite sets
     (association lists without duplicate keys over a key type with decidable equality), `option`, and
     min/max/abs/clamp/sign/div/floor on Z and Q. *)
From Coq Require Import String Ascii List NArith ZArith QArith Qround Bool.
From Sylt Require Import Sem.Values.
Import ListNotations.

(* ------------------------------------------------------------------------------------------------ *)
(* C19: structural definitions, by recursion on the type                                            *)

(* a and b (both of type t) are the same value *)
Fixpoint seq_t (t : ty) (a b : value) {struct t} : Prop :=
  match t with
  | TNil | TBool | TInt | TStr | TFun => a = b
  | TFloat => exists p q, a = VFloat p /\ b = VFloat q /\ Qeq p q
  | TTuple ts =>
      match a, b with
      | VTuple xs, VTuple ys => all3 (fun t' x y => seq_t t' x y) ts xs ys
      | _, _ => False
      end
  | TList t' => match a, b with VList xs, VList ys => all2 (fun x y => seq_t t' x y) xs ys | _, _ => False end
  | TBlob fs =>
      match a, b with
      | VBlob fa, VBlob fb =>
          allP (fun nt => match tbl_get (fst nt) fa, tbl_get (fst nt) fb with
                          | Some x, Some y => seq_t (snd nt) x y
                          | _, _ => False
                          end) fs
      | _, _ => False
      end
  | TEnum vars =>
      match a, b with
      | VVariant ta pa, VVariant tb pb => ta = tb /\ with_assoc (fun t' => seq_t t' pa pb) ta vars
      | _, _ => False
      end
  end.

(* byte order on strings: a proper prefix is smaller, otherwise the first differing byte decides *)
Inductive str_lt : string -> string -> Prop :=
| str_lt_nil : forall c s, str_lt EmptyString (String c s)
| str_lt_head : forall c d s t, (N_of_ascii c < N_of_ascii d)%N -> str_lt (String c s) (String d t)
| str_lt_tail : forall c s t, str_lt s t -> str_lt (String c s) (String c t).

(* lexicographic order on equally long tuples, given the order and the equality of each component *)
Section Lex.
  Variable lt eq : ty -> value -> value -> Prop.
  Fixpoint lex3 (ts : list ty) (xs ys : list value) : Prop :=
    match ts, xs, ys with
    | t' :: ts', x :: xs', y :: ys' => lt t' x y \/ (eq t' x y /\ lex3 ts' xs' ys')
    | _, _, _ => False
    end.
End Lex.

(* a < b at an ordered type t: numbers by value, strings by bytes, tuples lexicographically *)
Fixpoint lt_t (t : ty) (a b : value) {struct t} : Prop :=
  match t with
  | TInt => exists x y, a = VInt x /\ b = VInt y /\ (x < y)%Z
  | TFloat => exists p q, a = VFloat p /\ b = VFloat q /\ Qlt p q
  | TStr => exists s u, a = VStr s /\ b = VStr u /\ str_lt s u
  | TTuple ts =>
      match a, b with
      | VTuple xs, VTuple ys => lex3 (fun t' x y => lt_t t' x y) seq_t ts xs ys
      | _, _ => False
      end
  | _ => False
  end.

(* element-wise combination of two values of a numeric type: fi on two ints, ff on two floats *)
Fixpoint pw2 (fi : Z -> Z -> res value) (ff : Q -> Q -> res value) (t : ty) (a b : value) {struct t} : res value :=
  match t with
  | TInt => match a, b with VInt x, VInt y => fi x y | _, _ => Err end
  | TFloat => match a, b with VFloat p, VFloat q => ff p q | _, _ => Err end
  | TTuple ts =>
      match a, b with
      | VTuple xs, VTuple ys => rmap VTuple (zipM3 (fun t' x y => pw2 fi ff t' x y) ts xs ys)
      | _, _ => Err
      end
  | _ => Err
  end.

(* every component of a combined with one number d (given by its value as a rational) *)
Fixpoint pw_scalar (ff : Q -> Q -> res value) (t : ty) (a : value) (d : Q) {struct t} : res value :=
  match t with
  | TInt => match a with VInt x => ff (x # 1) d | _ => Err end
  | TFloat => match a with VFloat p => ff p d | _ => Err end
  | TTuple ts =>
      match a with
      | VTuple xs => rmap VTuple (zipM2 (fun t' x => pw_scalar ff t' x d) ts xs)
      | _ => Err
      end
  | _ => Err
  end.

Fixpoint pw1 (fi : Z -> Z) (ff : Q -> Q) (t : ty) (a : value) {struct t} : res value :=
  match t with
  | TInt => match a with VInt x => Ok (VInt (fi x)) | _ => Err end
  | TFloat => match a with VFloat p => Ok (VFloat (ff p)) | _ => Err end
  | TTuple ts =>
      match a with
      | VTuple xs => rmap VTuple (zipM2 (fun t' x => pw1 fi ff t' x) ts xs)
      | _ => Err
      end
  | _ => Err
  end.

(* `+` with strings concatenating, element-wise (what the type checker's `add` admits) *)
Fixpoint pw_add (t : ty) (a b : value) {struct t} : res value :=
  match t with
  | TInt => match a, b with VInt x, VInt y => Ok (VInt (x + y)) | _, _ => Err end
  | TFloat => match a, b with VFloat p, VFloat q => Ok (VFloat (Qred (p + q))) | _, _ => Err end
  | TStr => match a, b with VStr s, VStr u => Ok (VStr (s ++ u)) | _, _ => Err end
  | TTuple ts =>
      match a, b with
      | VTuple xs, VTuple ys => rmap VTuple (zipM3 (fun t' x y => pw_add t' x y) ts xs ys)
      | _, _ => Err
      end
  | _ => Err
  end.

(* exact operations: ints stay ints under + - *; floats are rationals in lowest terms; `/` always gives
   a float and x/0 is outside the number model *)
Definition zs_add (x y : Z) : res value := Ok (VInt (x + y)).
Definition zs_sub (x y : Z) : res value := Ok (VInt (x - y)).
Definition zs_mul (x y : Z) : res value := Ok (VInt (x * y)).
Definition qs_add (p q : Q) : res value := Ok (VFloat (Qred (p + q))).
Definition qs_sub (p q : Q) : res value := Ok (VFloat (Qred (p - q))).
Definition qs_mul (p q : Q) : res value := Ok (VFloat (Qred (p * q))).
Definition qs_div (p q : Q) : res value := if Qeq_dec q 0 then Unsup else Ok (VFloat (Qred (p / q))).
Definition zs_div (x y : Z) : res value := qs_div (x # 1) (y # 1).

(* ------------------------------------------------------------------------------------------------ *)
(* C18: plain containers                                                                            *)

Section PlainMap.
  Variable K V : Type.
  Variable keqb : K -> K -> bool.

  (* a finite map: association list, at most one entry per key *)
  Definition pmap := list (K * V).

  Fixpoint m_lookup (k : K) (m : pmap) : option V :=
    match m with
    | [] => None
    | (k', v) :: m' => if keqb k k' then Some v else m_lookup k m'
    end.
  Fixpoint m_insert (k : K) (v : V) (m : pmap) : pmap :=
    match m with
    | [] => [(k, v)]
    | (k', v') :: m' => if keqb k k' then (k, v) :: m' else (k', v') :: m_insert k v m'
    end.
  Fixpoint m_remove (k : K) (m : pmap) : pmap :=
    match m with
    | [] => []
    | (k', v') :: m' => if keqb k k' then m_remove k m' else (k', v') :: m_remove k m'
    end.
  Definition m_mem (k : K) (m : pmap) : bool := match m_lookup k m with Some _ => true | None => false end.
  Definition m_size (m : pmap) : nat := length m.
  Definition m_from_list (l : list (K * V)) : pmap := fold_left (fun m kv => m_insert (fst kv) (snd kv) m) l [].
End PlainMap.
Arguments m_lookup {K V} keqb k m.
Arguments m_insert {K V} keqb k v m.
Arguments m_remove {K V} keqb k m.
Arguments m_mem {K V} keqb k m.
Arguments m_size {K V} m.
Arguments m_from_list {K V} keqb l.

(* a finite set of keys = a finite map to unit *)
Definition pset (K : Type) := list (K * unit).
Definition s_add {K} (keqb : K -> K -> bool) (k : K) (s : pset K) : pset K := m_insert keqb k tt s.
Definition s_remove {K} (keqb : K -> K -> bool) (k : K) (s : pset K) : pset K := m_remove keqb k s.
Definition s_mem {K} (keqb : K -> K -> bool) (k : K) (s : pset K) : bool := m_mem keqb k s.
Definition s_size {K} (s : pset K) : nat := length s.
Definition s_from_list {K} (keqb : K -> K -> bool) (l : list K) : pset K :=
  fold_left (fun s k => s_add keqb k s) l [].

(* plain list operations (0-based), on `list A` *)
Definition l_push {A} (l : list A) (x : A) : list A := l ++ [x].
Definition l_prepend {A} (l : list A) (x : A) : list A := x :: l.
Definition l_get {A} (l : list A) (i : Z) : option A :=
  if (0 <=? i)%Z then nth_error l (Z.to_nat i) else None.
Fixpoint l_set_nat {A} (l : list A) (n : nat) (x : A) : list A :=
  match l, n with
  | [], _ => []
  | _ :: l', O => x :: l'
  | y :: l', S n' => y :: l_set_nat l' n' x
  end.
(* out-of-range writes are ignored *)
Definition l_set {A} (l : list A) (i : Z) (x : A) : list A :=
  if (0 <=? i)%Z then l_set_nat l (Z.to_nat i) x else l.
Definition l_pop {A} (l : list A) : list A * option A :=
  match rev l with
  | [] => (l, None)
  | x :: r => (rev r, Some x)
  end.
Definition l_last {A} (l : list A) : option A := match rev l with [] => None | x :: _ => Some x end.
Definition l_fold {A B} (f : A -> B -> B) (a : B) (l : list A) : B := fold_left (fun acc x => f x acc) l a.
Definition l_contains {A} (aeqb : A -> A -> bool) (l : list A) (x : A) : bool := existsb (fun y => aeqb y x) l.

(* math helpers on Z and Q *)
Definition z_clamp (x lo hi : Z) : Z := if (x <? lo)%Z then lo else if (hi <? x)%Z then hi else x.
(* div: floor division, 0 for a zero divisor (Coq's Z.div has exactly these two properties) *)
Definition z_div (a b : Z) : Z := (a / b)%Z.
Definition q_min_spec (p q : Q) : Q := if Qlt_le_dec p q then p else q.
Definition q_max_spec (p q : Q) : Q := if Qlt_le_dec q p then p else q.
Definition q_abs_spec (p : Q) : Q := if Qlt_le_dec p 0 then Qopp p else p.
Definition q_sign_spec (p : Q) : Z := Z.sgn (Qnum p).
Definition q_floor_spec (p : Q) : Z := Qfloor p.
