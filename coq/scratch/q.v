From Coq Require Import String Ascii FMapPositive PArith NArith List.
Check String.compare. Check Ascii.compare. Check String.ltb. Check String.leb.
Check PositiveMap.gss. Check PositiveMap.gso. Check PositiveMap.gmapi. Print PositiveMap.map.
Check N.succ_pos. Search N.succ_pos.
Check String.compare_antisym. Search String.compare.
