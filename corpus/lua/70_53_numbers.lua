-- expect-final[jit]: loaderr
-- expect-wf[5.3]: ok
-- expect-wf[jit]: bad unexpected symbol near '/'
-- expect[5.3]: 1	-2	1.0	1.0	-4	1
-- expect[5.3]: 1	1	1.5	-1	1.0
-- expect[5.3]: 2	2.0	2.0	6	6.0	5	5.0
-- expect[5.3]: 3.0	1.5	4.0	1.0
-- expect[5.3]: true	true	true	integer	float	nil
-- expect[5.3]: 3	nil	7
-- expect[5.3]: -1	-1.0	2
-- expect[5.3]: 100.0	100	true
-- expect[5.3]: false	attempt to perform 'n//0'
-- expect[5.3]: false	attempt to perform 'n%%0'
-- expect[5.3]: 3	-4	4	5	2
-- expect[5.3]: 3	3.0	2.5	3	1.0
-- expect[5.3]: 1	1.0	-1
-- expect[5.3]: false	bad argument #2 to 'fmod' (zero)
-- expect[5.3]: 5	5.0	0.25
-- expect[5.3]: 3	3.0	3	3.0	3.5|4.0
-- expect[5.3]: 5	1e+15	100.0	1e+100
-- expect[5.3]: 10	10.0	16	10.0	5	5.0	0.5
-- expect[5.3]: 10	10.0	16	12	3.0
-- expect[5.3]: aa	el
-- expect[5.3]: 1.0
-- expect[5.3]: 2.0
-- expect[5.3]: 3.0
-- expect[5.3]: 1
-- expect[5.3]: 2
-- expect[5.3]: 3
-- expect[5.3]: 3
-- expect[5.3]: 2
-- expect[5.3]: a	2	3	true
-- expect[5.3]: 1	integer
-- expect[5.3]: 7
-- expect[5.3]: true	true	float	integer	float
-- expect[5.3]: 3.0	-2	-2.0	-16
-- expect[5.3]: 1	b
-- expect[5.3]: 3.1415926535898
-- expect[5.3]: 2.0	-3.0	-1.0	5.0
-- expect[5.3]: 9.2233720368548e+18	9007199254740992
-- expect[5.3]: idiv	idiv
-- expect[5.3]: false	attempt to perform arithmetic on a table value
-- Lua 5.3 integer / float subtypes.  (The jit dialect has no `//`: the chunk does not load there.)
print(3 // 2, -3 // 2, 3.0 // 2, 3 // 2.0, 7 // -2, 1 // 1)
print(3 % 2, -3 % 2, 3.5 % 2, 3 % -2, 3.0 % 2)
print(1 + 1, 1 + 1.0, 1.0 + 1.0, 2 * 3, 2 * 3.0, 7 - 2, 7 - 2.0)
print(6 / 2, 6 / 4, 2 ^ 2, 7 / 7)
print(1 == 1.0, 1 < 1.5, 2 <= 2.0, math.type(1), math.type(1.0), math.type("1"))
print(math.tointeger(3.0), math.tointeger(3.5), math.tointeger(7))
print(-(1), -(1.0), -(-2))
print(1e2, 100, 1e2 == 100)
print(pcall(function() return 1 // 0 end))
print(pcall(function() return 1 % 0 end))
print(math.floor(3.7), math.floor(-3.2), math.ceil(3.2), math.floor(5), math.floor(2.0))
print(math.abs(-3), math.abs(-3.0), math.max(1, 2.5), math.max(3, 2.5), math.min(1.0, 2))
print(math.fmod(7, 3), math.fmod(7.0, 3), math.fmod(-7, 3))
print(pcall(math.fmod, 1, 0))
print(math.modf(5), math.modf(5.25))
print(tostring(3), tostring(3.0), 3 .. "", 3.0 .. "", 3.5 .. "|" .. 2 ^ 2)
print(#tostring(1e15), tostring(1e15), tostring(10 ^ 2), tostring(1e100))
print(tonumber("10"), tonumber("10.0"), tonumber("0x10"), tonumber("1e1"), tonumber(" 5 "), tonumber("5."), tonumber(".5"))
print("10" + 0, "10.0" + 0, "0x10" + 0, "3" * "4", "3" / "1")
print(string.rep("a", 2.0), string.sub("hello", 2.0, 3))
for i = 1.0, 3 do print(i) end
for i = 1, 3.5 do print(i) end
for i = 3, 1.5, -1 do print(i) end
local tt = {}
tt[1.0] = "a"; tt[2] = "b"
print(tt[1], #tt, next({[3.0] = true}))
for k in pairs({[1.0] = "x"}) do print(k, math.type(k)) end
print(7 // 2 * 2 + 7 % 2)
print(1 // 1 == 1, 2 ^ 2 == 4, math.type(2 ^ 2), math.type(7 // 2), math.type(7 / 7))
print(#"abc" + 0.0, -"2", -"2.0", -"0x10")
print(select('#', 1.0), select(2.0, "a", "b"))
print(math.pi)
print(8 // 3.0, -8 // 3.0, 8 % -3.0, 5.5 // 1)
print(2 ^ 63, math.tointeger(2 ^ 53))
local I = setmetatable({}, {__idiv = function(a, b) return "idiv" end})
print(I // 1, 1 // I)
print(pcall(function() return {} // 1 end))
