(* C16 -- compilation is deterministic.  Pinned statements only. *)
From Coq Require Import String List NArith Bool Permutation.
From Sylt Require Import Det.Consumers Det.ConsumersProofs Det.DocHashSites Det.DocKeyTypes Det.HashKeys Det.DocEnvSites Gen.GenHashSites.
Import ListNotations.

Fixpoint sites_eqb (a : list site) (b : list (string * string * string * string)) : bool :=
  match a, b with
  | [], [] => true
  | s :: a', (f, fn, c, st) :: b' =>
      String.eqb (s_file s) f && String.eqb (s_fn s) fn && String.eqb (s_container s) c
      && String.eqb (s_stmt s) st && sites_eqb a' b'
  | _, _ => false
  end.

(* Obligation 1 (table tie): the iterations over hash containers found in /repo on this run are exactly
   the reviewed ones (same file, function, container and statement text, in the same order). *)
Theorem C16_sites_covered : sites_eqb doc_sites GenHashSites.sites = true.
Proof. vm_compute. reflexivity. Qed.

(* Obligation 2: every reviewed site consumes the iteration in an order-free way. *)
Theorem C16_all_sites_order_free : forallb (fun s => order_free (s_class s)) doc_sites = true.
Proof. vm_compute. reflexivity. Qed.

(* For every order-free consumer class, every payload-failure predicate and every two visiting orders
   of the same entries (keys distinct, as in a hash map), what the rest of the compiler can observe
   is the same. *)
Theorem C16_order_free_invariant : forall bad c l l',
  order_free c = true -> NoDup (keys l) -> Permutation l l' -> obs_eq (run bad c l) (run bad c l').
Proof. exact order_free_invariant. Qed.

(* Why FirstErr is not order-free (the shape the four repaired sites had): *)
Theorem C16_first_err_order_sensitive :
  exists bad l l', NoDup (keys l) /\ Permutation l l' /\ ~ obs_eq (run bad FirstErr l) (run bad FirstErr l').
Proof. exact first_err_order_sensitive. Qed.

(* Non-vacuity: a sorted-first-error consumer on two orders of three entries of which two fail. *)
Example C16_example :
  run (fun e => negb (snd e =? 0)%N) SortedFirstErr [(3, 7); (1, 0); (2, 5)]%N
  = run (fun e => negb (snd e =? 0)%N) SortedFirstErr [(2, 5); (3, 7); (1, 0)]%N.
Proof. vm_compute. reflexivity. Qed.

(* ---- hash KEYS: lookups must not depend on the random state either ---- *)
Fixpoint mentions (sub s : string) : bool :=
  match s with
  | EmptyString => match sub with EmptyString => true | _ => false end
  | String _ s' => orb (String.prefix sub s) (mentions sub s')
  end.

Fixpoint key_types_eqb (a : list key_type) (b : list (string * string * string * string * string * string)) : bool :=
  match a, b with
  | [], [] => true
  | k :: a', (f, t, d, e, o, h) :: b' =>
      String.eqb (k_file k) f && String.eqb (k_type k) t && String.eqb (k_derives k) d
      && String.eqb (k_eq k) e && String.eqb (k_ord k) o && String.eqb (k_hash k) h && key_types_eqb a' b'
  | _, _ => false
  end.

(* a derived Hash looks at every field: it is consistent only with an equality over every field, which a
   hand-written `eq` in this list is not; a hand-written hash must have been reviewed to read exactly the
   fields the equality reads; no Hash at all: the type cannot be a key *)
Definition key_consistent (k : key_type) : bool :=
  if mentions "Hash"%string (k_derives k) then false
  else match k_hash k, k_hash_fields k with
       | EmptyString, None => true
       | String _ _, Some fs => if list_eq_dec string_dec fs (k_eq_fields k) then true else false
       | _, _ => false
       end.

(* Obligation 3 (table tie): the hand-written PartialEq/Ord/Hash impls found in /repo on this run are
   exactly the reviewed ones (derives and impl bodies). *)
Theorem C16_key_types_covered : key_types_eqb doc_key_types GenHashSites.key_types = true.
Proof. vm_compute. reflexivity. Qed.

(* Obligation 4: every reviewed type hashes exactly what it compares (or is not hashable). *)
Theorem C16_key_types_consistent : forallb key_consistent doc_key_types = true.
Proof. vm_compute. reflexivity. Qed.

(* For any key type, key equality and any two hash functions that respect that equality: membership after
   any sequence of insertions, and the "declared twice" verdict of the parser's insert-if-absent loop, are
   the same -- they equal a specification that does not mention the hash function at all. *)
Theorem C16_contains_spec : forall (K : Type) (eqb : K -> K -> bool) h, respects K eqb h -> forall ks k,
  contains K eqb h (build K h ks) k = existsb (eqb k) ks.
Proof. exact contains_spec. Qed.

Theorem C16_duplicate_verdict_independent_of_hash : forall (K : Type) (eqb : K -> K -> bool) h1 h2,
  respects K eqb h1 -> respects K eqb h2 -> forall ks, has_duplicate K eqb h1 ks = has_duplicate K eqb h2 ks.
Proof. exact has_duplicate_independent_of_hash. Qed.

(* ... and why the contract matters (the shape Identifier had before /repo 1fc1000). *)
Theorem C16_inconsistent_hash_changes_the_verdict :
  exists (h1 h2 : N * N -> N) ks,
    respects (N * N) name_eqb h1 /\
    has_duplicate (N * N) name_eqb h1 ks = true /\ has_duplicate (N * N) name_eqb h2 ks = false.
Proof. exact inconsistent_hash_changes_the_verdict. Qed.


Print Assumptions C16_sites_covered.
Print Assumptions C16_all_sites_order_free.
Print Assumptions C16_order_free_invariant.
Print Assumptions C16_first_err_order_sensitive.
Print Assumptions C16_key_types_covered.
Print Assumptions C16_key_types_consistent.
Print Assumptions C16_contains_spec.
Print Assumptions C16_duplicate_verdict_independent_of_hash.
Print Assumptions C16_inconsistent_hash_changes_the_verdict.

(* ---- nothing but the sources is read ----
   The places where the five crates (and the macro crate) touch the clock, the environment, the command line, the
   current directory, directory listings, process / thread identity, random state, addresses or process-wide mutable
   state are regenerated from /repo on every run and must be exactly the reviewed ones; every reviewed one is the
   driver's argument parsing or feature-gated profiling code. *)
Theorem C16_env_sites_covered : env_sites_eqb doc_env_sites GenHashSites.env_sites = true.
Proof. vm_compute. reflexivity. Qed.

Theorem C16_env_sites_harmless : forallb env_site_harmless doc_env_sites = true.
Proof. vm_compute. reflexivity. Qed.
Print Assumptions C16_env_sites_covered.
Print Assumptions C16_env_sites_harmless.
