(* Driver for the extracted Sylt reference interpreter.
   Case line:  <resolved S-expression (tools/resolved_io.py)>
   Output:     SEM <final> <n> <hex line>...   final = done | assert | unreachable:<hex> | stuck:<hex> | fuel | unsup:<hex> | READFAIL *)
open Semmodel

let rec nat_of_int n = if n = 0 then O else S (nat_of_int (n - 1))
let string_of_chars (l : char list) = String.of_seq (List.to_seq l)
let hex_of_string s =
  if s = "" then "-" else begin
    let b = Buffer.create (2 * String.length s) in
    String.iter (fun c -> Buffer.add_string b (Printf.sprintf "%02x" (Char.code c))) s;
    Buffer.contents b end

let () =
  let fuel = nat_of_int (int_of_string Sys.argv.(1)) in
  let ic = open_in Sys.argv.(2) in
  (try
    while true do
      let line = input_line ic in
      (try
        let r = Rast_reader.read_resolved line in
        let res = run fuel r in
        let fin = match res.r_final with
          | ODone -> "done" | OAssert -> "assert"
          | OUnreachable m -> "unreachable:" ^ hex_of_string (string_of_chars m)
          | OStuck m -> "stuck:" ^ hex_of_string (string_of_chars m)
          | OFuel -> "fuel"
          | OUnsup m -> "unsup:" ^ hex_of_string (string_of_chars m) in
        let lines = List.map (fun l -> hex_of_string (string_of_chars l)) res.r_trace in
        print_endline (String.concat " " ("SEM" :: fin :: string_of_int (List.length lines) :: lines))
      with Failure m -> print_endline ("SEM READFAIL " ^ m))
    done
  with End_of_file -> ());
  close_in ic
