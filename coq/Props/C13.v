(* C13 -- Operators parse with the documented precedence and associativity.
   Only pinned statements, `exact`, table side conditions / examples by vm_compute, Print Assumptions.

   Reading guide.  [ox] (Parse/OpTree.v) is the class of expression trees the property quantifies over:
   the 13 binary operators, unary `-` / `not`, parentheses, int literals and identifier-rooted postfix
   chains (`a.b`, `t[0]`, `f(e1, .., en)` with arbitrary [ox] arguments, arbitrarily chained).
   [print_min e] inserts only the parentheses the DOCUMENTED table (Parse/PrecTable.v: doc_rank) requires;
   because the statement does not order unary operators against `* /`, a unary operator next to a product
   is always parenthesised: `-(a * b)` and `(-a) * b` (see C13_unary_product_printing; the real parser reads
   `-a * b` as `-(a * b)`, C13_unary_operand_level).  [print_full e] parenthesises every operator application
   that is an operand.  [emb] embeds [ox] into the parser's public tree; [strip_e] removes Parenthesis nodes.
   [parse_expression T f ts] is the model of sylt_parser::expression::expression run on the token list [ts]
   with fuel [f] and operator table [T]; the table used here is regenerated from expression.rs/parser.rs on
   every run (Gen/GenPrec.v). *)
From Coq Require Import String List NArith Bool Arith.
From Sylt Require Import Lex.Regex Lex.Logos Gen.GenTokens
  Syntax.Ast Syntax.Tok Parse.PrecTable Parse.Parser Parse.ParserProofs Parse.OpTree Parse.ExprRoundTrip
  Parse.Sugar Parse.StmtRoundTrip Gen.GenPrec.
Import ListNotations.

(* Obligation 1 (table tie): the operator table regenerated from the Rust source on this run orders the
   operators as the statement of C13 does. *)
Theorem C13_table_ok : prec_table_ok GenPrec.table = true.
Proof. vm_compute. reflexivity. Qed.

(* Obligation 2 (token tie): every token kind the regenerated token table can emit (skipped patterns
   aside) is known to the parser model. *)
Theorem C13_tokens_known :
  forallb (fun p => match p_cb p with CbSkip => true | _ => known_kind (p_kind p) end) gen_table = true.
Proof. vm_compute. reflexivity. Qed.

Definition gen_ptab : ptab := interp GenPrec.table.

(* any raw table accepted by the decidable check satisfies the propositional table conditions *)
Theorem C13_table_sound : forall R, prec_table_ok R = true -> tab_ok (interp R).
Proof.
  intros R H. apply tab_okb_sound. unfold prec_table_ok in H. apply andb_prop in H. exact (proj2 H).
Qed.

(* Round trip, minimal parentheses, generic in the table: for every table R accepted by [prec_table_ok],
   every tree e whose chain roots and field names are lower-case, and every continuation [rest] whose first
   token (if any) is not a comment, not ' ( [ . { and not a valid infix token: with enough fuel the parser
   returns exactly the tree of the minimally parenthesised form, stops exactly at [rest], and has consumed
   exactly the printed tokens.  Out-of-fuel is excluded by "forall f >= f0". *)
Theorem C13_roundtrip : forall R, prec_table_ok R = true ->
  forall e, lower_ok e = true ->
  forall rest, follow_rest (interp R) false rest ->
  exists f0, forall f, f0 <= f -> exists c,
    parse_expression (interp R) f (print_min e ++ rest) = Ok (emb (minp e), c)
    /\ post c = rest /\ consumed c = length (print_min e).
Proof. intros R H. exact (roundtrip_min (interp R) (C13_table_sound R H)). Qed.

Theorem C13_roundtrip_full : forall R, prec_table_ok R = true ->
  forall e, lower_ok e = true ->
  forall rest, follow_rest (interp R) false rest ->
  exists f0, forall f, f0 <= f -> exists c,
    parse_expression (interp R) f (print_full e ++ rest) = Ok (emb (fullp e), c)
    /\ post c = rest /\ consumed c = length (print_full e).
Proof. intros R H. exact (roundtrip_full (interp R) (C13_table_sound R H)). Qed.

(* the trees differ from e only by Parenthesis nodes *)
Theorem C13_min_is_e : forall e, strip_e (emb (minp e)) = strip_e (emb e).
Proof. exact strip_minp. Qed.
Theorem C13_full_is_e : forall e, strip_e (emb (fullp e)) = strip_e (emb e).
Proof. exact strip_fullp. Qed.

(* hence: minimal and full parenthesisation parse to the same tree (ignoring parenthesis nodes) *)
Theorem C13_same_tree : forall R, prec_table_ok R = true ->
  forall e, lower_ok e = true ->
  forall rest, follow_rest (interp R) false rest ->
  exists f0, forall f, f0 <= f -> exists t1 c1 t2 c2,
    parse_expression (interp R) f (print_min e ++ rest) = Ok (t1, c1)
    /\ parse_expression (interp R) f (print_full e ++ rest) = Ok (t2, c2)
    /\ strip_e t1 = strip_e (emb e) /\ strip_e t2 = strip_e (emb e)
    /\ post c1 = rest /\ post c2 = rest.
Proof. intros R H. exact (same_tree (interp R) (C13_table_sound R H)). Qed.

(* instantiated at the table regenerated on this run *)
Theorem C13_same_tree_gen :
  forall e, lower_ok e = true ->
  forall rest, follow_rest gen_ptab false rest ->
  exists f0, forall f, f0 <= f -> exists t1 c1 t2 c2,
    parse_expression gen_ptab f (print_min e ++ rest) = Ok (t1, c1)
    /\ parse_expression gen_ptab f (print_full e ++ rest) = Ok (t2, c2)
    /\ strip_e t1 = strip_e (emb e) /\ strip_e t2 = strip_e (emb e)
    /\ post c1 = rest /\ post c2 = rest.
Proof. exact (C13_same_tree GenPrec.table C13_table_ok). Qed.

(* equal trees evaluate equal, for any evaluation that ignores parenthesis nodes *)
Theorem C13_value : forall (V : Type) (ev : expr -> V), (forall e, ev e = ev (strip_e e)) ->
  forall t1 t2, strip_e t1 = strip_e t2 -> ev t1 = ev t2.
Proof. intros V ev H t1 t2 E. rewrite (H t1), (H t2), E. reflexivity. Qed.

(* results that are not out-of-fuel do not change with more fuel (all requests of the parser model) *)
Theorem C13_fuel_stable : forall T f g q, f <= g -> go T f q <> Fuel -> go T g q = go T f q.
Proof. exact go_mono_le. Qed.

(* ---- non-vacuity ---- *)

Definition nm (s : string) : name := ascii_name s.
Definition v (s : string) : ox := OGet (nm s) PNil.

(* a <=> b or c and d == e + f * g, with a unary minus, a call with two arguments, a field and an index *)
Definition ex1 : ox :=
  OBin AssertEq (v "a")
    (OBin Or (v "b")
       (OBin And (OUn Not (v "c"))
          (OBin (Cmp Equals) (OGet (nm "d") (PField (nm "x") (PIndex 0 PNil)))
             (OBin Add (OUn Neg (v "e"))
                (OBin Mul (OGet (nm "f") (PCall (ACons (OBin Sub (v "p") (v "q")) (ACons (OInt 2) ANil)) PNil))
                          (OInt 7)))))).

(* the same operators nested the other way round: every operand needs parentheses *)
Definition ex2 : ox :=
  OBin Mul (OBin Add (OBin (Cmp Less) (OBin And (OBin Or (OBin AssertEq (v "a") (v "b")) (v "c")) (v "d")) (v "e"))
                     (v "g")) (OUn Neg (OBin Sub (v "h") (OBin Sub (v "i") (v "j")))).

Example C13_example_hyps :
  lower_ok ex1 = true /\ lower_ok ex2 = true /\ follow_rest gen_ptab false [TK KNewline] /\ follow_rest gen_ptab false [].
Proof. vm_compute. repeat split; reflexivity. Qed.

Definition observe (r : res (expr * ctx)) : option (expr * list tok * nat) :=
  match r with Ok (t, c) => Some (t, post c, consumed c) | _ => None end.

Example C13_example_roundtrip :
  observe (parse_expression gen_ptab 60 (print_min ex1 ++ [TK KNewline]))
    = Some (emb (minp ex1), [TK KNewline], length (print_min ex1))
  /\ observe (parse_expression gen_ptab 60 (print_full ex1 ++ [TK KNewline]))
    = Some (emb (fullp ex1), [TK KNewline], length (print_full ex1))
  /\ observe (parse_expression gen_ptab 60 (print_min ex2)) = Some (emb (minp ex2), [], length (print_min ex2))
  /\ observe (parse_expression gen_ptab 60 (print_full ex2)) = Some (emb (fullp ex2), [], length (print_full ex2))
  /\ minp ex1 = ex1 /\ minp ex2 <> ex2
  /\ strip_e (emb (minp ex2)) = strip_e (emb (fullp ex2)).
Proof. vm_compute. repeat split; try reflexivity. discriminate. Qed.

(* The statement does not order unary operators against * and /: the minimal printer parenthesises both
   ways ... *)
Example C13_unary_product_printing :
  print_min (OUn Neg (OBin Mul (v "a") (v "b")))
    = [TK KMinus; TK KLeftParen; TIdent (nm "a"); TK KStar; TIdent (nm "b"); TK KRightParen]
  /\ print_min (OBin Mul (OUn Neg (v "a")) (v "b"))
    = [TK KLeftParen; TK KMinus; TIdent (nm "a"); TK KRightParen; TK KStar; TIdent (nm "b")]
  /\ print_min (OBin Add (OUn Neg (v "a")) (v "b")) = [TK KMinus; TIdent (nm "a"); TK KPlus; TIdent (nm "b")].
Proof. vm_compute. repeat split; reflexivity. Qed.

(* ... because the real parser parses a unary operand at the level of * and /: `-a * b` is `-(a * b)`,
   while `-a + b` is `(-a) + b`. *)
Example C13_unary_operand_level :
  observe (parse_expression gen_ptab 30 [TK KMinus; TIdent (nm "a"); TK KStar; TIdent (nm "b")])
    = Some (EUn Neg (EBin Mul (EGet (ARead (nm "a"))) (EGet (ARead (nm "b")))), [], 4)
  /\ observe (parse_expression gen_ptab 30 [TK KMinus; TIdent (nm "a"); TK KPlus; TIdent (nm "b")])
    = Some (EBin Add (EUn Neg (EGet (ARead (nm "a")))) (EGet (ARead (nm "b"))), [], 4).
Proof. vm_compute. repeat split; reflexivity. Qed.

(* ---- beyond the expression entry point ----
   The round trip is proved for the recursive request at an arbitrary context (any tokens behind the cursor, either
   newline mode, any legal follower), and every statement form reaches its expressions through that request; call
   arguments, index and field chains are inside the trees [ox] already.  Spelled out for the statement forms with a
   precedence-sensitive position (Parse/StmtRoundTrip.v): the statement that is parsed contains exactly the tree of
   the minimally parenthesised expression, and the cursor is at the newline (resp. `do`) that follows it.
   `a -> f(b)` is not an operator of the table: see StmtRoundTrip.v and C14_arrow_call. *)
Theorem C13_follow_nl_do : pt_valid gen_ptab (TK KNewline) = false /\ pt_valid gen_ptab (TK KDo) = false.
Proof. vm_compute. split; reflexivity. Qed.

Theorem C13_stmt_ret : forall e, lower_ok e = true ->
  forall p rest ov b, exists f0, forall f, f0 <= f ->
    go gen_ptab (S f) (QStmt (mkctx p (TK KRet :: print_min e ++ TK KNewline :: rest) ov b))
    = Ok (RS (SRet (Some (emb (minp e))))
             (pop_nl b (skip 1 (mkctx (rev (print_min e) ++ TK KRet :: p) (TK KNewline :: rest) ov false)))).
Proof.
  intros e L. destruct lower_minp_all as [LM _]. destruct dwf_minp_all as [DM _].
  exact (ret_roundtrip gen_ptab (C13_table_sound _ C13_table_ok) (proj1 C13_follow_nl_do) (minp e)
           ltac:(rewrite LM; exact L) (DM e)).
Qed.

Theorem C13_stmt_def : forall x k kind e,
  (k = KColonColon /\ kind = VConst) \/ (k = KColonEqual /\ kind = VMutable) ->
  name_eqb x self_name = false -> lower_ok e = true ->
  forall p rest ov b, exists f0, forall f, f0 <= f ->
    go gen_ptab (S f) (QStmt (mkctx p (TIdent x :: TK k :: print_min e ++ TK KNewline :: rest) ov b))
    = Ok (RS (SDef x kind TyImplied (emb (minp e)))
             (pop_nl b (skip 1 (mkctx (rev (print_min e) ++ TK k :: TIdent x :: p) (TK KNewline :: rest) ov false)))).
Proof.
  intros x k kind e Hk Hx L. destruct lower_minp_all as [LM _]. destruct dwf_minp_all as [DM _].
  exact (def_roundtrip gen_ptab (C13_table_sound _ C13_table_ok) (proj1 C13_follow_nl_do) x k kind (minp e) Hk Hx
           ltac:(rewrite LM; exact L) (DM e)).
Qed.

Theorem C13_stmt_assign : forall x k op e, assign_op (TK k) = Some op -> lower_ok e = true ->
  forall p rest ov b, exists f0, forall f, f0 <= f ->
    go gen_ptab (S (S f)) (QStmt (mkctx p (TIdent x :: TK k :: print_min e ++ TK KNewline :: rest) ov b))
    = Ok (RS (SAssign op (ARead x) (emb (minp e)))
             (pop_nl b (skip 1 (mkctx (rev (print_min e) ++ TK k :: TIdent x :: p) (TK KNewline :: rest) ov false)))).
Proof.
  intros x k op e Hop L. destruct lower_minp_all as [LM _]. destruct dwf_minp_all as [DM _].
  exact (assign_roundtrip gen_ptab (C13_table_sound _ C13_table_ok) (proj1 C13_follow_nl_do) x k op (minp e) Hop
           ltac:(rewrite LM; exact L) (DM e)).
Qed.

(* an expression as a statement (through the assignment probe of statement()) *)
Theorem C13_stmt_expr : forall e, lower_ok e = true ->
  forall p rest ov b, exists f0, forall f, f0 <= f ->
    go gen_ptab (S f) (QStmt (mkctx p (print_min e ++ TK KNewline :: rest) ov b))
    = Ok (RS (SExpr (emb (minp e)))
             (pop_nl b (skip 1 (mkctx (rev (print_min e) ++ p) (TK KNewline :: rest) ov false)))).
Proof.
  intros e L. destruct lower_minp_all as [LM _]. destruct dwf_minp_all as [DM _].
  exact (expr_stmt_roundtrip gen_ptab (C13_table_sound _ C13_table_ok) (proj1 C13_follow_nl_do) (minp e)
           ltac:(rewrite LM; exact L) (DM e)).
Qed.

(* `loop e do B`: the condition is the tree of e, the body is parsed from `do` *)
Theorem C13_loop_cond : forall e, lower_ok e = true ->
  forall p ts ov b, exists f0, forall f, f0 <= f -> forall body c3,
    go gen_ptab f (QStmt (mkctx (rev (print_min e) ++ TK KLoop :: p) (TK KDo :: ts) ov false)) = Ok (RS body c3) ->
    go gen_ptab (S f) (QStmt (mkctx p (TK KLoop :: print_min e ++ TK KDo :: ts) ov b))
    = loop_finish b (emb (minp e)) body c3.
Proof.
  intros e L. destruct lower_minp_all as [LM _]. destruct dwf_minp_all as [DM _].
  exact (loop_cond_step gen_ptab (C13_table_sound _ C13_table_ok) (proj2 C13_follow_nl_do) (minp e)
           ltac:(rewrite LM; exact L) (DM e)).
Qed.

(* `if e do ...` (condition parsed with newlines skipped): the first branch carries the tree of e *)
Theorem C13_if_cond : forall e, lower_ok e = true ->
  forall q p ts ov b, exists f0, forall f, f0 <= f ->
    go gen_ptab (S f) (QPrec q (mkctx p (TK KIf :: print_min e ++ TK KDo :: ts) ov b))
    = run (go gen_ptab f)
        (let* '(e1, c1) :=
           (let* '(body, c6) := block (mkctx (rev (print_min e) ++ TK KIf :: p) (TK KDo :: ts) ov b) in
            let* '(bs, c7) := call_Ifs (QElifs [IfBranch (Some (emb (minp e))) body] c6) in
            ok (EIf bs, c7)) in
         call (QLoop q e1 c1)).
Proof.
  intros e L. destruct lower_minp_all as [LM _]. destruct dwf_minp_all as [DM _].
  exact (if_cond_step gen_ptab (C13_table_sound _ C13_table_ok) (proj2 C13_follow_nl_do) (minp e)
           ltac:(rewrite LM; exact L) (DM e)).
Qed.

(* x = a + b * c <newline>  and  loop a < b + 1 do <newline> break <newline> end <newline> *)
Example C13_example_statements :
  (match parse_statement gen_ptab 40 ([TIdent (nm "x"); TK KEqual] ++ print_min (OBin Add (v "a") (OBin Mul (v "b") (v "c"))) ++ [TK KNewline])
   with Ok (s, _) => s = SAssign OpNop (ARead (nm "x")) (emb (OBin Add (v "a") (OBin Mul (v "b") (v "c")))) | _ => False end)
  /\ (match parse_statement gen_ptab 40 ([TK KLoop] ++ print_min (OBin (Cmp Less) (v "a") (OBin Add (v "b") (OInt 1)))
                                          ++ [TK KDo; TK KNewline; TK KBreak; TK KNewline; TK KEnd; TK KNewline])
       with Ok (SLoop c _, _) => c = emb (OBin (Cmp Less) (v "a") (OBin Add (v "b") (OInt 1))) | _ => False end).
Proof. vm_compute. split; reflexivity. Qed.

Print Assumptions C13_table_ok.
Print Assumptions C13_tokens_known.
Print Assumptions C13_table_sound.
Print Assumptions C13_roundtrip.
Print Assumptions C13_roundtrip_full.
Print Assumptions C13_min_is_e.
Print Assumptions C13_full_is_e.
Print Assumptions C13_same_tree.
Print Assumptions C13_same_tree_gen.
Print Assumptions C13_value.
Print Assumptions C13_fuel_stable.
Print Assumptions C13_follow_nl_do.
Print Assumptions C13_stmt_ret.
Print Assumptions C13_stmt_def.
Print Assumptions C13_stmt_assign.
Print Assumptions C13_stmt_expr.
Print Assumptions C13_loop_cond.
Print Assumptions C13_if_cond.

(* ---- source tie: the hand-written model behind these theorems mirrors the files below; the digests of their
   functions regenerated from /repo on this run equal the reviewed ones (coq/Doc/DocSrcDigest.v).  Any edit of
   such a function breaks this obligation: the differential tie and the oracle then decide (tools/check.py). *)
From Sylt Require Doc.SrcDigest Doc.DocSrcDigest Gen.GenSrcDigest.
Theorem C13_model_sources_reviewed :
  Sylt.Doc.SrcDigest.sources_reviewed ["sylt-parser/src/parser.rs"%string; "sylt-parser/src/expression.rs"%string; "sylt-parser/src/statement.rs"%string]
    Sylt.Doc.DocSrcDigest.doc_src_digests Sylt.Gen.GenSrcDigest.src_digests = true.
Proof. vm_compute. reflexivity. Qed.
Print Assumptions C13_model_sources_reviewed.
