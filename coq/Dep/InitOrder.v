(* The bridge between the dependency order of Dep/Topo.v and the initialisation semantics of Dep/InitSem.v:
   (1) in the order computed by `initialization_order`, every global a definition USES (reads, calls or
       assigns, at any depth) is defined by an EARLIER statement -- unless it is the variable of a function
       definition inside that statement (its own name: a function may call itself) -- provided the
       dependency sets are complete (`deps_complete_statement tgt`, true when assignment targets count);
   (2) an order with exactly that property is `ordered` in the sense of InitSem, hence safe to run. *)
From Coq Require Import String List NArith ZArith Bool Permutation.
From Sylt Require Import Syntax.Resolved Dep.Deps Dep.Topo Dep.TopoProofs Dep.DepProofs Dep.DepsComplete
     Dep.InitSem Dep.InitSemProofs.
Import ListNotations.

Theorem order_respects_uses tgt ss l :
  NoDup (dvars ss) -> initialization_order tgt ss = OOk l -> deps_complete_statement tgt ->
  forall l1 s l2 d, l = l1 ++ s :: l2 -> In d (uses_s s) -> In d (dvars ss) ->
  (exists s', In s' l1 /\ defined_var s' = Some d) \/ In d (fdefs_s s).
Proof.
  intros Hnd Ho Hc l1 s l2 d Hsplit Hu Hd.
  destruct (topo_sound tgt ss l Hnd Ho) as (_ & _ & Hord).
  destruct (Hc s d Hu) as [Hdep|Hf]; [left|right; exact Hf].
  eapply Hord; eauto.
Qed.

(* the same property, for the abstract programs of InitSem: "initialised by the environment, or defined
   earlier in the list, or the definition's own name when it is a function" *)
Lemma ordered_of_positions : forall defs (I0 : N -> Prop),
  (forall l1 v e l2 g, defs = l1 ++ (v, e) :: l2 -> In g (uses e) ->
     I0 g \/ In g (map fst l1) \/ (g = v /\ is_lam e = true)) ->
  ordered I0 defs.
Proof.
  induction defs as [|[v e] ds IH]; intros I0 H; cbn; [exact I|]. split.
  - intros g Hg. destruct (H [] v e ds g eq_refl Hg) as [Hi|[[]|Hs]]; auto.
  - apply IH. intros l1 w e0 l2 g Hsplit Hg.
    destruct (H ((v, e) :: l1) w e0 l2 g ltac:(rewrite Hsplit; reflexivity) Hg) as [Hi|[[<-|Hin]|Hs]]; auto.
Qed.

(* initialised before use: running definitions in an order in which every used global is defined earlier
   (or pre-initialised, or the function's own name) never reads or assigns an uninitialised global *)
Theorem init_before_use fuel defs s :
  store_ok s ->
  (forall l1 v e l2 g, defs = l1 ++ (v, e) :: l2 -> In g (uses e) ->
     inited s g \/ In g (map fst l1) \/ (g = v /\ is_lam e = true)) ->
  forall g, run fuel s defs <> RUninit g.
Proof. intros Hs H. apply init_safe; [exact Hs|]. apply ordered_of_positions. exact H. Qed.

Theorem order_respects_uses_counted tgt ss l :
  tgt = true -> NoDup (dvars ss) -> initialization_order tgt ss = OOk l ->
  forall l1 s l2 d, l = l1 ++ s :: l2 -> In d (uses_s s) -> In d (dvars ss) ->
  (exists s', In s' l1 /\ defined_var s' = Some d) \/ In d (fdefs_s s).
Proof. intros -> Hnd Ho. exact (order_respects_uses true ss l Hnd Ho deps_complete_when_targets_counted). Qed.

Lemma store_ok_empty : store_ok (fun _ => None).
Proof. intros g v H. discriminate. Qed.

(* a function reaches its caller through a pair stored in a global:
     g0 :: ();  k :: fn _ -> g0;  t :: (k, ());  x :: fst(t)(())        -- and the same with x first *)
Definition ex_defs : list (N * tm) :=
  [(0, TUnit); (1, TLam (TGlob 0)); (2, TPair (TGlob 1) TUnit); (3, TApp (TFst (TGlob 2)) TUnit)]%N.
Definition ex_bad : list (N * tm) :=
  [(3, TApp (TFst (TGlob 2)) TUnit); (0, TUnit); (1, TLam (TGlob 0)); (2, TPair (TGlob 1) TUnit)]%N.
Definition run_kind (r : run_out) : option (option N) :=
  match r with RDone _ => Some None | RUninit g => Some (Some g) | ROther => None end.

Example init_example :
  run_kind (run 10 (fun _ => None) ex_defs) = Some None
  /\ run_kind (run 10 (fun _ => None) ex_bad) = Some (Some 2%N)
  /\ ordered (inited (fun _ => None)) ex_defs.
Proof.
  split; [vm_compute; reflexivity|]. split; [vm_compute; reflexivity|].
  cbn. repeat split; intros g H; cbn in H; intuition (subst; auto).
Qed.
