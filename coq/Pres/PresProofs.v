(* fragment_preservation: C01 as a THEOREM for the fragment of Pres/Frag.v.

   For every resolved program r in the fragment, if the lowering (Back/IR.v) gives the IR `code` and the
   reference interpreter (Sem/SyltSem.v) ends with ODone / OAssert / OUnreachable, then LuaCore, running the
   abstract syntax of the emitted chunk -- the statements of preamble.lua followed by emit_ast code --
   from the initial Lua 5.3 state, with any sufficiently large fuel, prints the same lines and ends the
   same way.

   Structure: the global assignment V<pv> = print; the global definitions at chunk level (globals_sim, one
   P_exec each); `local function V<sv>` (rel_define_fun); the body of `start` (fbody_sim, on top of SimStmt.P_all:
   expressions, statements, statement lists and if-branch bodies together); fragment programs have no `ret`
   (NoRet.NR_all), a break/continue that reaches the body of `start` makes the reference run OStuck (outside
   good_final), and the interpreter never stops with ODone (SemSane); program_sim for any Lua state with
   the preamble invariant; the preamble run (Preamble.pre_runs, exec_block_app_run). *)
From Coq Require Import String Ascii List NArith ZArith QArith Bool Lia.
From Sylt Require Import Syntax.Resolved.
From Sylt Require Sem.Values Sem.Runtime Sem.SyltSem.
From Sylt Require Import Back.IR Back.Emit Back.ScopeProofs.
From Sylt Require Import Pres.EmitAst Pres.EmitRel Pres.Names Pres.LuaFuel Pres.LuaEv Pres.Preamble Pres.Tie.
From Sylt Require Import Pres.Frag.
From Sylt Require Import Pres.SimDefs Pres.SimOps Pres.SimVals.
From Sylt Require Import Pres.SimExpr Pres.LowerShape Pres.SimSteps Pres.SimExprProofs Pres.SimStmt Pres.NoExit Pres.NoRet.
From Sylt Require Pres.SemSane.
From Sylt Require Import Pres.RunEq.
From Sylt Require Import Lua.LuaAst Lua.LuaMap Lua.LuaNum Lua.LuaProofs Lua.LuaCore.
Import ListNotations.
Local Open Scope N_scope.

(* ------------------------------------------------------------------ the global assignment V<pv> = print *)

Lemma raw_eqb_str_l x k : raw_eqb (VStr x) k = true -> k = VStr x.
Proof. destruct k; cbn; try discriminate. intros H. apply String.eqb_eq in H. subst. reflexivity. Qed.

Lemma assoc_get_set_str y x v l :
  is_nil v = false ->
  assoc_get (VStr y) (assoc_set (VStr x) v l) = if String.eqb y x then v else assoc_get (VStr y) l.
Proof.
  intros Hv. induction l as [|[k' v'] l IH]; cbn [assoc_set assoc_get].
  - rewrite Hv. cbn [assoc_get raw_eqb]. reflexivity.
  - destruct (raw_eqb (VStr x) k') eqn:Hk.
    + apply raw_eqb_str_l in Hk. subst k'. cbn [assoc_get raw_eqb].
      destruct (String.eqb y x); reflexivity.
    + cbn [assoc_get]. rewrite IH. destruct (String.eqb_spec y x) as [->|Hne]; [|reflexivity].
      rewrite Hk. reflexivity.
Qed.

Lemma raw_get_set_str t x v y :
  is_nil v = false -> raw_get (raw_set t (VStr x) v) (VStr y) = if String.eqb y x then v else raw_get t (VStr y).
Proof. intros Hv. unfold raw_set, raw_get, hash_set. cbn [int_key norm_key t_hash]. apply assoc_get_set_str. exact Hv. Qed.

Lemma get_table_raw_set_in st id k v : get_table (raw_set_in st id k v) id = raw_set (get_table st id) k v.
Proof. unfold raw_set_in, put_table, get_table. cbn [s_tabs]. rewrite pget_pset_same. reflexivity. Qed.

Lemma Exec_assign_global E x ex st vs st1 :
  sget x E = None -> EvalList E [ex] st (ROk vs st1) ->
  raw_get (get_table st1 globals_id) (VStr x) = VNil -> t_meta (get_table st1 globals_id) = None ->
  Exec E (SAssign [EVar x] [ex]) st (ROk (E, SigNormal) (raw_set_in st1 globals_id (VStr x) (first vs))).
Proof.
  intros Hx [m H] Hnil Hmeta. exists (S (S (S (S (S m))))). intros k Hk.
  destruct k as [|[|[|[|k]]]]; try lia.
  cbn [exec eval_targets LuaCore.bind]. rewrite Hx. cbn [LuaCore.bind].
  rewrite H by lia. cbn [LuaCore.bind assign_all setindex].
  rewrite Hnil. cbn [is_nil]. unfold metamethod. rewrite Hmeta. reflexivity.
Qed.

Lemma fmt_var_neq_str v s : (forall t, s <> String "V"%char t) -> String.eqb s (fmt_var v) = false.
Proof. intros H. destruct (fmt_var_head v) as [t ->]. apply String.eqb_neq. apply H. Qed.

Lemma linv_set_global st v :
  linv st -> linv (raw_set_in st globals_id (VStr (fmt_var v)) (VBuiltin BPrint)).
Proof.
  intros [Hd [Ha Hty Has Hpr Hm] Hc Hn]. constructor.
  - exact Hd.
  - rewrite get_table_raw_set_in. constructor.
    + rewrite raw_get_set_str by reflexivity. rewrite fmt_var_neq_str by (intros t; discriminate). exact Ha.
    + rewrite raw_get_set_str by reflexivity. rewrite fmt_var_neq_str by (intros t; discriminate). exact Hty.
    + rewrite raw_get_set_str by reflexivity. rewrite fmt_var_neq_str by (intros t; discriminate). exact Has.
    + rewrite raw_get_set_str by reflexivity. rewrite fmt_var_neq_str by (intros t; discriminate). exact Hpr.
    + exact Hm.
  - exact Hc.
  - exact Hn.
Qed.

Lemma glob_set_global st v : glob (raw_set_in st globals_id (VStr (fmt_var v)) (VBuiltin BPrint)) (fmt_var v) (VBuiltin BPrint).
Proof. unfold glob. rewrite get_table_raw_set_in, raw_get_set_str by reflexivity. rewrite String.eqb_refl. reflexivity. Qed.


(* ------------------------------------------------------------------ the body of `start` *)

Lemma mapM_snoc {A B} (f : A -> M B) a x c ca c1 cx c' :
  mapM f a c = Ok (ca, c1) -> f x c1 = Ok (cx, c') -> mapM f (a ++ [x]) c = Ok (ca ++ [cx], c').
Proof.
  revert c ca. induction a as [|h t IH]; intros c ca Ha Hx.
  - destruct (mapM_nil_ok _ _ _ _ Ha) as [-> ->]. cbn [app mapM]. unfold IR.bind, IR.ret. rewrite Hx. reflexivity.
  - apply mapM_cons_ok in Ha as (y & c2 & ys & Hy & Hys & ->).
    cbn [app mapM]. unfold IR.bind, IR.ret. rewrite Hy. rewrite (IH _ _ Hys Hx). reflexivity.
Qed.

Section Sim.
Variable pv : N.
Variable sv : N.
Variable bound : N.
Variable u : counts.

Notation rel := (rel pv bound).
Notation ctx_ok := (ctx_ok bound).

Lemma frag_stmts_app k a : forall sc b sc',
  frag_stmts pv sv bound k sc (a ++ b) = Some sc' ->
  exists sc1 k', frag_stmts pv sv bound k sc a = Some sc1 /\ frag_stmts pv sv bound k' sc1 b = Some sc'.
Proof.
  revert k. induction a as [|s a IH]; intros k sc b sc' H.
  - exists sc, k. split; [|exact H]. destruct k; [discriminate | reflexivity].
  - destruct k as [|k]; [discriminate|]. cbn [app] in H. rewrite frag_stmts_cons in *.
    destruct (frag_stmt pv sv bound k sc s) as [sc0|]; [|discriminate].
    apply IH in H. exact H.
Qed.

(* what running the body of `start` gives on the Lua side: it falls off the end or returns *)
Definition stop_post (E : env) (stL : state) (b : block) (st' : sstate) : Prop :=
  exists ev stL', ExecS E b stL (RErr ev stL') /\ SyltSem.trace st' = s_out stL'.

Lemma stop_of_exit {A} ctx sc e c c' E stL b o st' :
  exit_post pv bound ctx sc e c c' E stL b (@SyltSem.RStop A o) st' -> stop_post E stL b st'.
Proof. intros (rl & Hx & (ev & stL' & -> & Htr)). exists ev, stL'. split; assumption. Qed.

Definition body_post (E : env) (stL : state) (b : block) (r : SyltSem.res sval) (st' : sstate) : Prop :=
  match r with
  | SyltSem.RVal _ =>
      exists E' sg stL', ExecS E b stL (ROk (E', sg) stL') /\
                         (sg = SigNormal \/ exists vs, sg = SigReturn vs) /\ SyltSem.trace st' = s_out stL'
  | SyltSem.RStop o => stop_post E stL b st'
  | SyltSem.RAbrupt _ => True
  end.

Lemma fbody_sim n g k body ctx c code c' e st r st' sc sc' l E stL F :
  SyltSem.block_value n e body st = (r, st') ->
  lower_fbody (statement g) (expression g) body ctx c = Ok (code, c') ->
  frag_stmts pv sv bound k sc body = Some sc' ->
  ucovers u code -> ctx_ok l F E c c' -> rel sc e st E stL -> interesting r -> noab r ->
  exists b l', cshape u l code b l' c c' /\ body_post E stL b r st'.
Proof.
  intros Hev Hlow Hfrag Hu Hctx Hrel Hint Hna.
  destruct n as [|n]; [cbn in Hev; inversion Hev; subst; destruct Hint|].
  cbn [SyltSem.block_value] in Hev. unfold lower_fbody in Hlow.
  destruct (rev body) as [|last init_rev] eqn:Hrev.
  - (* empty body *)
    assert (body = []) by (rewrite <- (rev_involutive body), Hrev; reflexivity). subst body.
    apply ret_ok in Hlow as [<- <-].
    unfold SyltSem.bind in Hev. destruct n as [|n]; [cbn in Hev; inversion Hev; subst; destruct Hint|].
    cbn in Hev. inversion Hev; subst r st'.
    eexists _, _. split; [apply cshape_nil|]. exists E, SigNormal, stL. splits; [apply XS_nil | left; reflexivity | apply (r_trace _ _ _ _ _ _ _ Hrel)].
  - assert (Hbody : body = rev init_rev ++ [last]) by (rewrite <- (rev_involutive body), Hrev; reflexivity).
    mon Hlow. apply lower_list_ok in Hm as (cs & Hmi & ->).
    destruct (frag_stmts_app _ _ _ _ _ Hfrag) as (sc1 & k' & Hfi & Hfl).
    destruct k' as [|k']; [discriminate|]. rewrite frag_stmts_cons in Hfl.
    destruct (frag_stmt pv sv bound k' sc1 last) as [sc2|] eqn:Hflast; [|discriminate Hfl].
    apply ucovers_app in Hu as [Hui Hul].
    assert (Hle : c <= c0 /\ c0 <= c').
    { destruct (L_stmts_all pv sv bound u g k (rev init_rev) ctx c cs c0 sc sc1 l Hmi Hfi) as (_ & _ & (_ & H1 & _)).
      split; [exact H1|]. destruct last; try (destruct (L_stmt_all pv sv bound u g k' _ ctx c0 a0 c' sc1 sc2 l Hm0 Hflast) as (_ & _ & (_ & H2 & _)); exact H2).
      destruct k' as [|k'']; [discriminate|]. rewrite frag_stmt_sexpr in Hflast. destruct (frag_expr pv sv bound k'' sc1 value) eqn:Hfe; [|discriminate Hflast].
      mon Hm0. destruct a as [cv rv]. destruct (L_expr_all pv sv bound u g k'' value ctx c0 cv rv c' sc1 l Hm Hfe) as (_ & _ & (_ & H2 & _) & _). exact H2. }
    destruct Hle as [Hc0 Hc0'].
    assert (Hctxi : ctx_ok l F E c c0) by (eapply ctx_sub; [exact Hctx | lia | lia]).
    assert (Hgen : SyltSem.bind (SyltSem.exec_block n e (rev init_rev ++ [last])) (fun _ : senv => SyltSem.ret (SV Values.VLuaNil)) st = (r, st') ->
                   statement g last ctx c0 = Ok (a0, c') ->
                   exists (b : block) (l' : alut), cshape u l (concat cs ++ a0) b l' c c' /\ body_post E stL b r st').
    { intros Hev' Hst.
      pose proof (mapM_snoc _ _ _ _ _ _ _ _ Hmi Hst) as Hmall.
      assert (Hcc : concat (cs ++ [a0]) = concat cs ++ a0) by (rewrite concat_app; cbn [concat]; rewrite app_nil_r; reflexivity).
      assert (Huall : ucovers u (concat (cs ++ [a0]))) by (rewrite Hcc; apply ucovers_app; split; assumption).
      unfold SyltSem.bind at 1 in Hev'.
      destruct (SyltSem.exec_block n e (rev init_rev ++ [last]) st) as [[e1|o|cc] st1] eqn:He1.
      3: { inversion Hev'; subst. destruct Hna. }
      2: { inversion Hev'; subst.
           destruct (proj1 (proj2 (proj2 (P_all pv sv bound u n))) g k _ ctx c _ c' e st _ st' sc sc' l E stL F He1 Hmall Hfrag Huall Hctx Hrel Hint)
             as (b1 & l1 & Hs1 & Hpost). rewrite Hcc in Hs1.
           eexists _, _. split; [exact Hs1 | cbn [stmt_post] in Hpost; cbn [body_post]; eapply stop_of_exit; exact Hpost]. }
      cbn in Hev'. inversion Hev'; subst r st'. clear Hev'.
      destruct (proj1 (proj2 (proj2 (P_all pv sv bound u n))) g k _ ctx c _ c' e st _ st1 sc sc' l E stL F He1 Hmall Hfrag Huall Hctx Hrel I)
        as (b1 & l1 & Hs1 & E1 & stL1 & F1 & (Hx1 & _ & Hrel1 & _) & _). rewrite Hcc in Hs1.
      eexists _, _. split; [exact Hs1|].
      exists E1, SigNormal, stL1. splits; [exact Hx1 | left; reflexivity | apply (r_trace _ _ _ _ _ _ _ Hrel1)]. }
    destruct last; try (apply Hgen; assumption).
    (* the last statement is an expression: its value is returned *)
    clear Hgen.
    destruct k' as [|k'']; [discriminate|]. rewrite frag_stmt_sexpr in Hflast.
    destruct (frag_expr pv sv bound k'' sc1 value) eqn:Hfe; [|discriminate Hflast].
    mon Hm0. destruct a as [code_v rv]. cbn [fst snd] in *.
    apply ucovers_app in Hul as [Huv Hur].
    assert (Hcrv : 1 <= count_of u rv) by (eapply Hur; [left; reflexivity | left; reflexivity]).
    assert (Hrest : forall l0, exists b2 l2, cshape u l0 code_v b2 l2 c0 c' /\ c0 <= rv /\ rv < c')
      by (intros l0; apply (L_expr_all pv sv bound u g k'' value ctx c0 code_v rv c' sc1 l0 Hm Hfe)).
    assert (Hret : forall l0, cshape u l0 [IReturn rv] (fst (agen_one u l0 (IReturn rv))) l0 c' c')
      by (intros l0; apply cshape_plain; [lia | reflexivity | reflexivity | reflexivity]).
    unfold SyltSem.bind at 1 in Hev.
    destruct (SyltSem.exec_block n e (rev init_rev) st) as [[e1|o|cc] st1] eqn:He1.
    3: { inversion Hev; subst. destruct Hna. }
    2: { inversion Hev; subst.
         destruct (proj1 (proj2 (proj2 (P_all pv sv bound u n))) g k _ ctx c _ c0 e st _ st' sc sc1 l E stL F He1 Hmi Hfi Hui Hctxi Hrel Hint)
           as (b1 & l1 & Hs1 & Hp1). apply stop_of_exit in Hp1 as (ev & stL1 & Hx1 & Htr).
         destruct (Hrest l1) as (b2 & l2 & Hs2 & _).
         eexists _, _. split; [eapply cshape_app; [exact Hs1|]; eapply cshape_app; [exact Hs2 | apply Hret]|].
         exists ev, stL1. split; [apply ExecS_app_stop; [exact Hx1 | intros []] | exact Htr]. }
    destruct (proj1 (proj2 (proj2 (P_all pv sv bound u n))) g k _ ctx c _ c0 e st _ st1 sc sc1 l E stL F He1 Hmi Hfi Hui Hctxi Hrel I)
      as (b1 & l1 & Hs1 & E1 & stL1 & F1 & Hok1 & _ & _).
    pose proof Hok1 as (Hx1 & _ & Hrel1 & _).
    assert (Hctx1 : ctx_ok l1 F1 E1 c0 c') by (eapply (ctx_afterS pv bound u); eassumption).
    destruct (SyltSem.eval n e1 value st1) as [[v_|o|cc] st2] eqn:He2.
    3: { inversion Hev; subst. destruct Hna. }
    2: { inversion Hev; subst.
         destruct (proj1 (P_all pv sv bound u n) g k'' value ctx c0 code_v rv c' e1 st1 _ st' sc1 l1 E1 stL1 F1 He2 Hm Hfe Huv Hctx1 Hrel1 Hint)
           as (b2 & l2 & Hs2 & _ & _ & Hp2). apply stop_of_exit in Hp2 as (ev & stL2 & Hx2 & Htr).
         eexists _, _. split; [eapply cshape_app; [exact Hs1|]; eapply cshape_app; [exact Hs2 | apply Hret]|].
         exists ev, stL2. split; [|exact Htr].
         eapply ExecS_app; [exact Hx1|]. apply ExecS_app_stop; [exact Hx2 | intros []]. }
    inversion Hev; subst r st'. clear Hev.
    destruct (proj1 (P_all pv sv bound u n) g k'' value ctx c0 code_v rv c' e1 st1 _ st2 sc1 l1 E1 stL1 F1 He2 Hm Hfe Huv Hctx1 Hrel1 I)
      as (b2 & l2 & Hs2 & _ & _ & E2 & stL2 & F2 & Hok2 & Hd2). specialize (Hd2 Hcrv).
    pose proof Hok2 as (Hx2 & _ & Hrel2 & _).
    eexists _, _. split; [eapply cshape_app; [exact Hs1|]; eapply cshape_app; [exact Hs2 | apply Hret]|].
    destruct (denotes_now _ _ _ _ _ Hd2 (r_wf _ _ _ _ _ _ _ Hrel2) (r_linv _ _ _ _ _ _ _ Hrel2)) as (lv & Hv & st3 & _ & Hm3 & Hx3).
    exists E2, (SigReturn [lv]), st3. splits.
    + eapply ExecS_app; [exact Hx1|]. eapply ExecS_app; [exact Hx2|].
      cbn [agen_one fst]. apply XS_stop; [|intros []].
      eapply Exec_do. apply ExecBlock_of_ExecS; [|repeat constructor | intros []].
      apply XS_stop; [|intros []]. apply Exec_return. apply EvalList_one. exact Hm3.
    + right. eauto.
    + rewrite (r_trace _ _ _ _ _ _ _ Hrel2). symmetry. apply Hx3.
Qed.
(* the global definitions at chunk level: run_outer executes them one after the other with the same fuel *)
Lemma globals_sim n g : forall gs k ctx c cs c' e st r st' sc sc' l E stL F,
  SyltSem.run_outer n e gs st = (r, st') ->
  mapM (fun s => statement g s ctx) gs c = Ok (cs, c') ->
  forallb is_plain_def gs = true ->
  frag_stmts pv sv bound k sc gs = Some sc' -> ucovers u (concat cs) -> ctx_ok l F E c c' -> rel sc e st E stL ->
  interesting r ->
  exists b l', cshape u l (concat cs) b l' c c' /\ stmt_post pv bound ctx sc sc' e F c c' E stL b r st'.
Proof.
  pose proof (proj1 (proj2 (P_all pv sv bound u n))) as IHs.
  induction gs as [|s ss IHss]; intros k ctx c cs c' e st r st' sc sc' l E stL F Hev Hm Hpl Hfrag Hu Hctx Hrel Hint.
  - destruct (mapM_nil_ok _ _ _ _ Hm) as [-> ->]. destruct k as [|k]; [discriminate|]. cbn in Hfrag. inversion Hfrag; subst sc'.
    cbn in Hev. inversion Hev; subst r st'.
    eexists _, _. split; [apply cshape_nil|]. cbn [stmt_post]. exists E, stL, F.
    split; [|split; [apply sext_refl | apply incl_refl]].
    split; [apply XS_nil|]. split; [apply wframe_refl|]. split; [exact Hrel | split; [apply F_new_refl | apply keep_refl]].
  - destruct k as [|k]; [discriminate|]. rewrite frag_stmts_cons in Hfrag.
    destruct (frag_stmt pv sv bound k sc s) as [sc1|] eqn:Hfs; [|discriminate Hfrag].
    cbn [forallb] in Hpl. apply andb_prop in Hpl as [Hps Hpl].
    apply mapM_cons_ok in Hm as (y & c1 & ys & Hy & Hys & ->). cbn [concat] in *.
    apply ucovers_app in Hu as [Huy Huys].
    destruct (L_stmt_all pv sv bound u g k s ctx c y c1 sc sc1 l Hy Hfs) as (_ & _ & (_ & Hc1 & _)).
    assert (Hrest : forall l0, exists b2 l2, cshape u l0 (concat ys) b2 l2 c1 c')
      by (intros l0; eapply (L_stmts_all pv sv bound u); eassumption).
    destruct (Hrest l) as (_ & _ & (_ & Hc1' & _)).
    assert (Hctxs : ctx_ok l F E c c1) by (eapply ctx_sub; [exact Hctx | lia | lia]).
    assert (Hstep : SyltSem.run_outer n e (s :: ss) st =
                    SyltSem.bind (SyltSem.exec n e s) (fun e' => SyltSem.run_outer n e' ss) st)
      by (destruct s; try discriminate Hps; reflexivity).
    rewrite Hstep in Hev. clear Hstep. unfold SyltSem.bind at 1 in Hev.
    destruct (SyltSem.exec n e s st) as [[e1|o|cc] st1] eqn:He1.
    2: { inversion Hev; subst.
         destruct (IHs g k s ctx c y c1 e st _ st' sc sc1 l E stL F He1 Hy Hfs Huy Hctxs Hrel Hint) as (b1 & l1 & Hs1 & Hp1).
         destruct (Hrest l1) as (b2 & l2 & Hs2).
         eexists _, _. split; [eapply cshape_app; eassumption|].
         cbn [stmt_post] in *. eapply exit_app; [exact Hp1 | lia]. }
    2: { inversion Hev; subst.
         destruct (IHs g k s ctx c y c1 e st _ st' sc sc1 l E stL F He1 Hy Hfs Huy Hctxs Hrel Hint) as (b1 & l1 & Hs1 & Hp1).
         destruct (Hrest l1) as (b2 & l2 & Hs2).
         eexists _, _. split; [eapply cshape_app; eassumption|].
         cbn [stmt_post] in *. eapply exit_app; [exact Hp1 | lia]. }
    destruct (IHs g k s ctx c y c1 e st _ st1 sc sc1 l E stL F He1 Hy Hfs Huy Hctxs Hrel I)
      as (b1 & l1 & Hs1 & E1 & stL1 & F1 & Hok1 & Hse1 & Hinc1).
    pose proof Hok1 as (Hx1 & _ & Hrel1 & _).
    assert (Hctx1 : ctx_ok l1 F1 E1 c1 c') by (eapply (ctx_afterS pv bound u); eassumption).
    destruct (IHss k ctx c1 ys c' e1 st1 r st' sc1 sc' l1 E1 stL1 F1 Hev Hys Hpl Hfrag Huys Hctx1 Hrel1 Hint)
      as (b2 & l2 & Hs2 & Hpost).
    eexists _, _. split; [eapply cshape_app; eassumption|].
    destruct r as [e2|o|cc].
    + destruct Hpost as (E2 & stL2 & F2 & Hok2 & Hse2 & Hinc2).
      exists E2, stL2, F2. split; [eapply (okstepS_trans pv bound); eassumption|].
      split; [eapply sext_trans; eassumption | eapply incl_tran; eassumption].
    + cbn [stmt_post] in *. eapply (exit_pre pv bound ctx sc sc1 e e1 st st1); eassumption.
    + cbn [stmt_post] in *. eapply (exit_pre pv bound ctx sc sc1 e e1 st st1); eassumption.
Qed.

(* `local function V<sv>() b end` at chunk level; SyltSem: a new cell that holds the new closure *)
Lemma rel_define_fun sc e st E stL body b :
  rel sc e st E stL -> ~ In sv sc -> sv <> pv -> sv < bound ->
  rel sc (start_env sv e st) (start_state sv body e st)
      (sset (fmt_var sv) (s_ncell stL) E)
      (set_cell (snd (alloc_closure (snd (alloc_cell stL VNil)) (mkClosure (sset (fmt_var sv) (s_ncell stL) E) [] b)))
                (s_ncell stL) (VFun (s_nclo stL))).
Proof.
  intros [Hv Hb Hi Hp Hpb HpE HpG Hwf Ht Hli] Hnin Hnpv Hsvb.
  assert (Hold : forall p, (p < s_ncell stL)%positive ->
            get_cell (set_cell (snd (alloc_closure (snd (alloc_cell stL VNil)) (mkClosure (sset (fmt_var sv) (s_ncell stL) E) [] b)))
                               (s_ncell stL) (VFun (s_nclo stL))) p = get_cell stL p).
  { intros p Hp'. rewrite get_cell_set_other by lia.
    change (get_cell (snd (alloc_cell stL VNil)) p = get_cell stL p). apply get_cell_alloc_old. exact Hp'. }
  unfold start_env, start_state. constructor.
  - intros w Hw. destruct (Hv w Hw) as (cc & x & p & H1 & H2 & H3 & H4).
    assert (Hne : w <> sv) by (intros ->; contradiction).
    exists cc, x, p. cbn [SyltSem.lookup SyltSem.cells]. destruct (N.eqb_spec sv w); [congruence|].
    splits; [exact H1 | apply nth_error_app_old; exact H2 | rewrite sget_sset_var by exact Hne; exact H3 |].
    rewrite Hold; [exact H4 | eapply wf_alloc; eassumption].
  - exact Hb.
  - intros v1 v2 cc H1 H2. cbn [SyltSem.lookup].
    destruct (N.eqb_spec sv v1) as [->|]; [contradiction|]. destruct (N.eqb_spec sv v2) as [->|]; [contradiction|].
    apply Hi; assumption.
  - destruct Hp as (cp & Hlkp & Hnthp & Hdist).
    exists cp. cbn [SyltSem.lookup SyltSem.cells]. destruct (N.eqb_spec sv pv); [congruence|].
    splits; [exact Hlkp | apply nth_error_app_old; exact Hnthp |].
    intros w Hw. destruct (N.eqb_spec sv w) as [->|]; [contradiction|]. apply Hdist. exact Hw.
  - exact Hpb.
  - rewrite sget_sset_var by (intros Heq; apply Hnpv; symmetry; exact Heq). exact HpE.
  - eapply glob_frame; [|exact HpG]. reflexivity.
  - pose proof (wfenv_local E stL sv VNil Hwf) as [HV Hin Ha]. constructor; [exact HV | exact Hin |].
    intros x p H. specialize (Ha x p H). cbn in *. exact Ha.
  - exact Ht.
  - apply linv_set_cell. destruct Hli as [Hd Hg [Hc] Hn]. constructor.
    + exact Hd.
    + exact Hg.
    + constructor. unfold alloc_closure, alloc_cell. cbn [snd s_clos s_nclo]. rewrite pget_pset_other; [exact Hc | lia].
    + unfold alloc_closure, alloc_cell. cbn [snd s_nclo]. lia.
Qed.

End Sim.
Section FBodyShape.
Variable pv : N.
Variable sv : N.
Variable bound : N.
Variable u : counts.

Lemma L_fbody g k body ctx c code c' sc sc' l :
  lower_fbody (statement g) (expression g) body ctx c = Ok (code, c') ->
  frag_stmts pv sv bound k sc body = Some sc' ->
  exists b l', cshape u l code b l' c c'.
Proof.
  intros Hlow Hfrag. unfold lower_fbody in Hlow.
  destruct (rev body) as [|last init_rev] eqn:Hrev.
  - apply ret_ok in Hlow as [<- <-]. eexists _, _. apply cshape_nil.
  - assert (Hbody : body = rev init_rev ++ [last]) by (rewrite <- (rev_involutive body), Hrev; reflexivity).
    rewrite Hbody in Hfrag. clear Hbody Hrev.
    mon Hlow. apply lower_list_ok in Hm as (cs & Hmi & ->).
    destruct (frag_stmts_app pv sv bound _ _ _ _ _ Hfrag) as (sc1 & k' & Hfi & Hfl).
    destruct k' as [|k']; [discriminate|]. rewrite frag_stmts_cons in Hfl.
    destruct (frag_stmt pv sv bound k' sc1 last) as [sc2|] eqn:Hflast; [|discriminate Hfl].
    destruct (L_stmts_all pv sv bound u g k (rev init_rev) ctx c cs c0 sc sc1 l Hmi Hfi) as (b1 & l1 & Hs1).
    destruct last; try (destruct (L_stmt_all pv sv bound u g k' _ ctx c0 a0 c' sc1 sc2 l1 Hm0 Hflast) as (b2 & l2 & Hs2);
                        eexists _, _; eapply cshape_app; eassumption).
    destruct k' as [|k'']; [discriminate|]. rewrite frag_stmt_sexpr in Hflast. destruct (frag_expr pv sv bound k'' sc1 value) eqn:Hfe; [|discriminate Hflast].
    mon Hm0. destruct a as [cv rv]. cbn [fst snd] in *.
    destruct (L_expr_all pv sv bound u g k'' value ctx c0 cv rv c' sc1 l1 Hm Hfe) as (b2 & l2 & Hs2 & _).
    eexists _, _. eapply cshape_app; [exact Hs1|]. eapply cshape_app; [exact Hs2|].
    apply (cshape_plain u l2 (IReturn rv) c' c'); [lia | reflexivity | reflexivity | reflexivity].
Qed.
End FBodyShape.


(* ------------------------------------------------------------------ the whole program *)

Definition same_final (o : SyltSem.outcome) (f : LuaCore.final) : Prop :=
  match o, f with
  | SyltSem.ODone, FDone => True
  | SyltSem.OAssert, FError _ => True
  | SyltSem.OUnreachable _, FError _ => True
  | _, _ => False
  end.

Definition good_final (o : SyltSem.outcome) : Prop :=
  match o with SyltSem.ODone | SyltSem.OAssert | SyltSem.OUnreachable _ => True | _ => False end.

Lemma pre_out : s_out st_pre = [].
Proof. vm_compute. reflexivity. Qed.

Lemma pre_ncell_env : forall x, sget x (PLeaf : env) = None.
Proof. intros x. unfold sget. destruct (pos_of_string x); reflexivity. Qed.


(* the variables a statement list adds to the scope are new ones, different from print and start *)
Lemma frag_stmt_scope pv sv bound k sc s sc' :
  frag_stmt pv sv bound k sc s = Some sc' -> sc' = sc \/ exists var, sc' = var :: sc /\ fresh_id pv sv bound sc var = true.
Proof.
  intros H. destruct k as [|k]; [discriminate|]. destruct s; try discriminate H.
  - destruct target; try discriminate H. rewrite frag_stmt_assign in H.
    destruct (assign_op op && memN var sc && frag_expr pv sv bound k sc value)%bool; inversion H; auto.
  - destruct (frag_stmt_def _ _ _ _ _ _ _ _ _ _ _ _ H) as (_ & Hf & _ & ->). right. eauto.
  - rewrite frag_stmt_loop in H.
    destruct (noexit_expr k condition && frag_expr pv sv bound k sc condition && is_some (frag_stmts pv sv bound k sc body))%bool; inversion H; auto.
  - inversion H; auto.
  - inversion H; auto.
  - rewrite frag_stmt_block in H. destruct (frag_stmts pv sv bound k sc statements); inversion H; auto.
  - rewrite frag_stmt_sexpr in H. destruct (frag_expr pv sv bound k sc value); inversion H; auto.
Qed.

Lemma frag_stmts_scope pv sv bound : forall ss k sc sc',
  frag_stmts pv sv bound k sc ss = Some sc' -> forall v, In v sc' -> In v sc \/ v <> sv.
Proof.
  induction ss as [|s ss IH]; intros k sc sc' H v Hv.
  - destruct k; [discriminate|]. cbn in H. inversion H; subst. left. exact Hv.
  - destruct k as [|k]; [discriminate|]. rewrite frag_stmts_cons in H.
    destruct (frag_stmt pv sv bound k sc s) as [sc1|] eqn:Hs; [|discriminate H].
    destruct (IH k sc1 sc' H v Hv) as [Hin|Hne]; [|right; exact Hne].
    destruct (frag_stmt_scope _ _ _ _ _ _ _ Hs) as [->|(var & -> & Hf)]; [left; exact Hin|].
    destruct Hin as [<-|Hin]; [|left; exact Hin].
    right. unfold fresh_id in Hf. frag_split Hf. apply negb_true_iff, N.eqb_neq in Hfr0. exact Hfr0.
Qed.

Lemma frag_inv k r :
  frag k r = true ->
  exists name pv kd t sp gs nm sv kd' t' fname ret body pure fsp dsp scg sc',
    r_stmts r = SExternalDefinition name pv kd t sp :: gs ++ [SDefinition nm sv kd' t' (EFunction fname [] ret body pure fsp) dsp] /\
    name = "print"%string /\ IR.find_start (Resolved.r_vars r) = Some sv /\ pv <> sv /\
    pv < N.of_nat (length (Resolved.r_vars r)) + 1 /\ sv < N.of_nat (length (Resolved.r_vars r)) + 1 /\
    forallb is_plain_def gs = true /\
    frag_stmts pv sv (N.of_nat (length (Resolved.r_vars r)) + 1) k [] gs = Some scg /\
    frag_stmts pv sv (N.of_nat (length (Resolved.r_vars r)) + 1) k scg body = Some sc'.
Proof.
  unfold frag. intros H.
  destruct (r_stmts r) as [|s0 rest]; [discriminate H|]. destruct s0; try discriminate H.
  destruct (split_last rest) as [[gs last]|] eqn:Hsl; [|discriminate H]. apply split_last_app in Hsl. subst rest.
  destruct last; try discriminate H. destruct value; try discriminate H. destruct params; try discriminate H.
  frag_split H.
  destruct (frag_stmts var var0 (N.of_nat (length (Resolved.r_vars r)) + 1) k [] gs) as [scg|] eqn:Hg; [|discriminate].
  destruct (frag_stmts var var0 (N.of_nat (length (Resolved.r_vars r)) + 1) k scg body) as [sc'|] eqn:Hb; [|discriminate].
  apply String.eqb_eq in H. apply negb_true_iff, N.eqb_neq in Hfr3. apply N.ltb_lt in Hfr2, Hfr1.
  change (Frag.find_start (Resolved.r_vars r)) with (IR.find_start (Resolved.r_vars r)) in Hfr4.
  destruct (IR.find_start (Resolved.r_vars r)) as [s|] eqn:Hs; [|discriminate]. apply N.eqb_eq in Hfr4. subst s.
  do 18 eexists. splits; try reflexivity; try eassumption.
Qed.

Lemma definition_fun f var name params ret body pure sp ctx :
  definition (S f) var (EFunction name params ret body pure sp) ctx =
  (_ <- fresh ;; bc <- lower_fbody (statement f) (expression f) body ctx ;;
   IR.ret (IFunction var (map (fun p => snd (fst (fst p))) params) :: bc ++ [IEnd])).
Proof. reflexivity. Qed.

Lemma mapM_app_ok {A B} (f : A -> M B) a b : forall c r c',
  mapM f (a ++ b) c = Ok (r, c') ->
  exists ra c1 rb, mapM f a c = Ok (ra, c1) /\ mapM f b c1 = Ok (rb, c') /\ r = ra ++ rb.
Proof.
  induction a as [|x a IH]; intros c r c' H.
  - exists [], c, r. splits; [reflexivity | exact H | reflexivity].
  - cbn [app] in H. apply mapM_cons_ok in H as (y & c2 & ys & Hy & Hys & ->).
    destruct (IH _ _ _ Hys) as (ra & c1 & rb & Ha & Hb & ->).
    exists (y :: ra), c1, rb. splits; [|exact Hb | reflexivity].
    cbn [mapM]. unfold IR.bind, IR.ret. rewrite Hy, Ha. reflexivity.
Qed.

Lemma mapM_ext_in {A B} (f g : A -> M B) l : (forall x, In x l -> f x = g x) -> forall c, mapM f l c = mapM g l c.
Proof.
  induction l as [|x l IH]; intros H c; [reflexivity|]. cbn [mapM]. unfold IR.bind.
  rewrite (H x (or_introl eq_refl)). destruct (g x c) as [[y c1]| |]; [|reflexivity|reflexivity].
  rewrite IH by (intros z Hz; apply H; right; exact Hz). reflexivity.
Qed.

Lemma compile_plain n s : is_plain_def s = true -> compile_stmt n s = statement (S n) s 0.
Proof. destruct s; try discriminate. intros _. reflexivity. Qed.

(* the program's statements, run in any Lua state that satisfies the preamble invariant, has printed nothing
   and has no global named V<n> *)
Definition res_state_of {A} (r : res A) : state := match r with ROk _ s => s | RErr _ s => s | RFuel s => s | RUnsup _ s => s end.

Definition lua_result (st0 : state) (code : list ir) (res : SyltSem.run_result) : Prop :=
  exists r st, ExecBlock PLeaf [] (emit_ast code) st0 r /\ res_state_of r = st /\
    rev (s_out st) = SyltSem.r_trace res /\
    match SyltSem.r_final res with
    | SyltSem.ODone => exists E, r = ROk (E, SigNormal) st
    | _ => exists v, r = RErr v st
    end.

Lemma program_sim k r code n res st0 :
  linv st0 -> s_out st0 = [] -> (forall v, raw_get (get_table st0 globals_id) (VStr (fmt_var v)) = VNil) ->
  frag k r = true -> lower n r = Ok code -> SyltSem.run n r = res -> good_final (SyltSem.r_final res) ->
  lua_result st0 code res.
Proof.
  intros Hlin0 Hout0 HnoV Hfrag Hlow Hrun Hgood. subst res.
  destruct (frag_inv k r Hfrag) as (name & pv & kd & t & sp & gs & nm & sv & kd' & t' & fname & ret & body & pure & fsp & dsp & scg & sc' &
                                    Hstmts & -> & Hstart & Hne & Hpvb & Hsvb & Hplain & Hfg & Hfb).
  set (bound := N.of_nat (length (Resolved.r_vars r)) + 1) in *.
  (* the lowering *)
  unfold lower in Hlow. rewrite Hstmts, Hstart in Hlow. fold bound in Hlow.
  match type of Hlow with match ?m bound with _ => _ end = _ => destruct (m bound) as [[code0 cend]| |] eqn:Hm; [|discriminate|discriminate] end.
  inversion Hlow; subst code0. clear Hlow.
  mon Hm. fresh_all.
  apply mapM_cons_ok in Hm0 as (y0 & c1 & ys & Hy0 & Hys & ->).
  cbn [compile_stmt] in Hy0. apply ret_ok in Hy0 as [<- <-].
  apply mapM_app_ok in Hys as (csg & cg & cst & Hmg & Hmst & ->).
  apply mapM_cons_ok in Hmst as (cdef & c2 & ynil & Hdef & Hnil & ->). apply mapM_nil_ok in Hnil as [-> ->].
  cbn [compile_stmt] in Hdef.
  destruct n as [|f]; [discriminate Hdef|].
  rewrite definition_fun in Hdef. cbn [map] in Hdef. mon Hdef. fresh_all.
  rename a0 into bc. rename c2 into cb. rename Hm0 into Hbody.
  rewrite (mapM_ext_in (compile_stmt (S f)) (fun s => statement (S (S f)) s 0) gs) in Hmg
    by (intros x Hx; apply compile_plain; rewrite forallb_forall in Hplain; apply Hplain; exact Hx).
  (* the reference interpreter *)
  destruct f as [|f'].
  { rewrite (run_fuel1 r pv sv kd t sp gs nm kd' t' fname ret body pure fsp dsp Hstmts Hstart Hplain) in Hgood. destruct Hgood. }
  rewrite (run_frag_eq r pv sv kd t sp gs nm kd' t' fname ret body pure fsp dsp f' Hstmts Hstart) in *.
  set (code := concat ([IExternal pv "print"] :: csg ++ [IFunction sv [] :: bc ++ [IEnd]]) ++ [ICall cb sv []]).
  assert (Hcodeq : code = IExternal pv "print" :: concat csg ++ (IFunction sv [] :: bc ++ [IEnd]) ++ [ICall cb sv []]).
  { unfold code. cbn [concat app]. rewrite concat_app. cbn [concat]. rewrite app_nil_r, <- app_assoc. reflexivity. }
  set (u := count_usages code).
  assert (Hucode : ucovers u code) by apply count_usages_covers.
  assert (Hug : ucovers u (concat csg)).
  { eapply ucovers_incl; [|exact Hucode]. intros x Hx. rewrite Hcodeq. right. apply in_or_app. left. exact Hx. }
  assert (Hubc : ucovers u bc).
  { eapply ucovers_incl; [|exact Hucode]. intros x Hx. rewrite Hcodeq. right. apply in_or_app. right. apply in_or_app. left.
    right. apply in_or_app. left. exact Hx. }
  (* the ranges of temporaries: globals in [bound, cg), the body of start in [cg + 1, cb) *)
  destruct (L_stmts_all pv sv bound u (S (S (S f'))) k gs 0 bound csg cg [] scg [] Hmg Hfg) as (_ & _ & (_ & Hbcg & _)).
  assert (HLf : forall l0, exists b l', cshape u l0 bc b l' (cg + 1) cb)
    by (intros l0; eapply (L_fbody pv sv bound u); eassumption).
  destruct (HLf []) as (_ & _ & (_ & Hcgcb & _)).
  set (prog := fun (bg b : block) => SAssign [EVar (fmt_var pv)] [EVar "print"] :: bg ++
                 [SLocalFun (fmt_var sv) [] b; SLocal [fmt_var cb] [ECall (EVar (fmt_var sv)) []]]).
  assert (Hemit : forall bg lg b l', cshape u [] (concat csg) bg lg bound cg -> cshape u lg bc b l' (cg + 1) cb ->
            emit_ast code = prog bg b /\ nolabel (prog bg b)).
  { intros bg lg b l' (Hemg & _ & Hfrg & Hnlg) (Hemb & _ & Hfrb & Hnlb).
    assert (Hlgsv : alut_get lg sv = None) by (rewrite Hfrg by lia; reflexivity).
    assert (Hl'cb : alut_get l' cb = None) by (rewrite Hfrb by lia; rewrite Hfrg by lia; reflexivity).
    assert (Hl'sv : alut_get l' sv = None) by (rewrite Hfrb by lia; exact Hlgsv).
    split.
    - apply (emit_ast_Emits code (prog bg b) l'). fold u. rewrite Hcodeq. unfold prog.
      apply (Em_op u [] (IExternal pv "print") _ _ l' eq_refl). cbn [agen_one snd].
      eapply Emits_app; [exact Hemg|].
      pose proof (Em_op u l' (ICall cb sv []) [] [] l' eq_refl (Em_nil u l')) as H.
      cbn [agen_one fst snd map app] in H. unfold aname, aexpand in H. rewrite Hl'cb, Hl'sv in H.
      pose proof (Em_fun u lg sv [] bc b l' [ICall cb sv []] _ l' Hemb H) as Hf.
      unfold aname in Hf. rewrite Hlgsv in Hf. cbn [map] in Hf.
      replace ((IFunction sv [] :: bc ++ [IEnd]) ++ [ICall cb sv []]) with (IFunction sv [] :: bc ++ [IEnd; ICall cb sv []])
        by (cbn [app]; rewrite <- app_assoc; reflexivity).
      exact Hf.
    - unfold prog. constructor; [reflexivity|]. apply nolabel_app; [exact Hnlg | repeat constructor]. }
  (* the Lua run: V<pv> = print *)
  set (st1 := raw_set_in st0 globals_id (VStr (fmt_var pv)) (VBuiltin BPrint)).
  assert (Hx1 : Exec PLeaf (SAssign [EVar (fmt_var pv)] [EVar "print"]) st0 (ROk (PLeaf, SigNormal) st1)).
  { apply (Exec_assign_global PLeaf (fmt_var pv) (EVar "print") st0 [VBuiltin BPrint] st0).
    - apply pre_ncell_env.
    - apply EvalList_one. apply EvalMulti_single; [reflexivity|].
      apply Eval_global; [apply pre_ncell_env | apply (g_print _ (li_genv _ Hlin0)) | reflexivity].
    - apply HnoV.
    - apply (g_nometa _ (li_genv _ Hlin0)). }
  assert (Hlin1 : linv st1) by (apply linv_set_global; exact Hlin0).
  assert (Hrel0 : rel pv bound [] [(pv, 0%nat)] print_state PLeaf st1).
  { constructor.
    - intros v [].
    - intros v [].
    - intros v1 v2 c [].
    - exists 0%nat. cbn [SyltSem.lookup]. rewrite N.eqb_refl. splits; [reflexivity | reflexivity | intros v []].
    - exact Hpvb.
    - apply pre_ncell_env.
    - apply glob_set_global.
    - constructor.
      + intros x p H. rewrite pre_ncell_env in H. discriminate.
      + intros x y p H _. rewrite pre_ncell_env in H. discriminate.
      + intros x p H. rewrite pre_ncell_env in H. discriminate.
    - exact (eq_sym Hout0).
    - exact Hlin1. }
  assert (Hctx0 : ctx_ok bound [] [] PLeaf bound cg).
  { constructor; [lia | intros t0 _; reflexivity | intros t0 [] | intros t0 _; apply pre_ncell_env]. }
  (* the global definitions *)
  destruct (SyltSem.run_outer (S (S f')) [(pv, 0%nat)] gs print_state) as [rg stg] eqn:Hrg.
  assert (Hintg : interesting rg).
  { destruct rg as [eg|o|cc]; [exact I | | cbn in Hgood; destruct Hgood]. cbn in Hgood. destruct o; try destruct Hgood; try exact I.
    exfalso. eapply run_outer_not_done. exact Hrg. }
  destruct (globals_sim pv sv bound u (S (S f')) (S (S (S f'))) gs k 0 bound csg cg _ _ rg stg [] scg [] PLeaf st1 []
              Hrg Hmg Hplain Hfg Hug Hctx0 Hrel0 Hintg) as (bg & lg & Hsg & Hpostg).
  destruct rg as [eg|o|cc]; [| |cbn in Hgood; destruct Hgood].
  2: { (* a global definition fails *)
       cbn [stmt_post] in Hpostg. destruct Hpostg as (rl & Hxg & (ev & stL' & -> & Htr)).
       destruct (HLf lg) as (b & l' & Hsb). destruct (Hemit bg lg b l' Hsg Hsb) as (Hcode & Hnlp).
       unfold lua_result. fold code. rewrite Hcode.
       exists (RErr ev stL'), stL'. splits.
       - apply ExecBlock_of_ExecS; [|exact Hnlp | intros []].
         unfold prog. eapply XS_cons; [exact Hx1|]. apply ExecS_app_stop; [exact Hxg | intros []].
       - reflexivity.
       - cbn [SyltSem.r_trace]. rewrite <- Htr. reflexivity.
       - cbn [SyltSem.r_final]. cbn in Hgood. destruct o; try destruct Hgood; eauto.
         exfalso. eapply run_outer_not_done. exact Hrg. }
  cbn [stmt_post] in Hpostg. destruct Hpostg as (Eg & stLg & Fg & Hokg & Hseg & Hincg).
  pose proof Hokg as (Hxg & Hfrg & Hrelg & Hng & Hkg).
  assert (Hctxg : ctx_ok bound lg Fg Eg cg cb).
  { assert (Hctx0' : ctx_ok bound [] [] PLeaf bound cb).
    { constructor; [lia | intros t0 _; reflexivity | intros t0 [] | intros t0 _; apply pre_ncell_env]. }
    eapply (ctx_afterS pv bound u); eassumption. }
  (* local function V<sv> *)
  set (b0 := estack u lg [] [] bc).
  set (csv := s_ncell stLg).
  set (E1 := sset (fmt_var sv) csv Eg).
  set (fid := s_nclo stLg).
  set (st2 := set_cell (snd (alloc_closure (snd (alloc_cell stLg VNil)) (mkClosure E1 [] b0))) csv (VFun fid)).
  assert (Hx2 : Exec Eg (SLocalFun (fmt_var sv) [] b0) stLg (ROk (E1, SigNormal) st2)) by apply Exec_localfun.
  assert (Hclo : pget fid (s_clos st2) = Some (mkClosure E1 [] b0)).
  { unfold st2, set_cell, alloc_closure, alloc_cell. cbn [snd s_clos s_nclo]. apply pget_pset_same. }
  assert (Hcell : get_cell st2 csv = VFun fid) by (unfold st2; apply get_cell_set_same).
  assert (Hsvg : ~ In sv scg).
  { intros Hin. destruct (frag_stmts_scope pv sv bound gs k [] scg Hfg sv Hin) as [[]|H]. apply H. reflexivity. }
  assert (Hrel2 : rel pv bound scg (start_env sv eg stg) (start_state sv body eg stg) E1 st2).
  { apply (rel_define_fun pv sv bound scg eg stg Eg stLg body b0 Hrelg Hsvg); [intros Heq; apply Hne; symmetry; exact Heq | exact Hsvb]. }
  assert (HE1sv : sget (fmt_var sv) E1 = Some csv) by apply sget_sset_same.
  assert (Hctx2 : ctx_ok bound lg Fg E1 (cg + 1) cb).
  { destruct Hctxg as [Hb Hl HF HE]. constructor; [lia | eapply lut_ok_sub; [exact Hl | lia | lia] | eapply F_out_sub; [exact HF | lia | lia] |].
    intros t0 Ht. unfold E1. rewrite sget_sset_var by lia. apply HE. lia. }
  destruct (SyltSem.block_value (S f') (start_env sv eg stg) body (start_state sv body eg stg)) as [rb stb] eqn:Hbv.
  assert (Hna : noab rb).
  { destruct rb as [v|o|[| |v]]; try exact I.
    - cbn in Hgood. destruct Hgood.
    - cbn in Hgood. destruct Hgood.
    - exact (proj2 (proj2 (proj2 (NR_all pv sv bound (S f')))) k scg sc' _ body _ _ stb Hfb Hbv). }
  assert (Hint : interesting rb).
  { destruct rb as [v|o|cc]; [exact I | | destruct Hna]. cbn in Hgood. destruct o; try destruct Hgood; try exact I.
    exfalso. eapply SemSane.block_value_not_done. exact Hbv. }
  destruct (fbody_sim pv sv bound u (S f') (S f') k body 0 (cg + 1) bc cb _ _ rb stb scg sc' lg E1 st2 Fg Hbv Hbody Hfb Hubc Hctx2 Hrel2 Hint Hna)
    as (b1 & l1 & Hs1 & Hpost).
  assert (Hb01 : b1 = b0) by (unfold b0; apply (Emits_block_fun u lg bc b1 l1); apply Hs1).
  subst b1. pose proof Hs1 as (_ & _ & _ & Hnl0).
  destruct (Hemit bg lg b0 l1 Hsg Hs1) as (Hcode & Hnlp).
  unfold lua_result. fold code. rewrite Hcode.
  assert (Hev_sv : Eval E1 (EVar (fmt_var sv)) st2 (ROk (VFun fid) st2)).
  { rewrite <- Hcell. apply Eval_local. exact HE1sv. }
  destruct rb as [v|o|cc]; [| |destruct Hna].
  - (* start returns *)
    destruct Hpost as (E' & sg & stL' & Hxb & Hsg' & Htr).
    assert (Hcall : exists vs, Call (VFun fid) [] st2 (ROk vs stL')).
    { destruct Hsg' as [->|[vs ->]].
      - exists []. eapply (Call_closure_normal fid (mkClosure E1 [] b0)); [exact Hclo | reflexivity |].
        cbn [c_body]. apply ExecBlock_of_ExecS; [exact Hxb | exact Hnl0 | intros []].
      - exists vs. eapply (Call_closure fid (mkClosure E1 [] b0)); [exact Hclo | reflexivity |].
        cbn [c_body]. apply ExecBlock_of_ExecS; [exact Hxb | exact Hnl0 | intros []]. }
    destruct Hcall as [vs Hcall].
    pose proof (Exec_local E1 [fmt_var cb] [ECall (EVar (fmt_var sv)) []] st2 vs stL'
                  (EvalList_one _ _ _ _ (EvalMulti_call _ _ _ _ _ (EvalCall_intro _ _ _ _ _ _ _ _ _ Hev_sv (EvalList_nil E1 st2) Hcall)))) as Hx3.
    set (Ef := fst (bind_locals E1 [fmt_var cb] vs stL')) in *. set (stf := snd (bind_locals E1 [fmt_var cb] vs stL')) in *.
    exists (ROk (Ef, SigNormal) stf), stf. splits.
    + apply ExecBlock_of_ExecS; [|exact Hnlp | intros []].
      unfold prog. eapply XS_cons; [exact Hx1|]. eapply ExecS_app; [exact Hxg|].
      eapply XS_cons; [exact Hx2|]. eapply XS_cons; [exact Hx3 | apply XS_nil].
    + reflexivity.
    + cbn [SyltSem.r_trace]. unfold stf. rewrite bind_locals_one. cbn [snd alloc_cell s_out]. rewrite <- Htr. reflexivity.
    + cbn [SyltSem.r_final]. eauto.
  - (* a failed assertion *)
    destruct Hpost as (ev & stL' & Hxb & Htr).
    assert (Hcall : Call (VFun fid) [] st2 (RErr ev stL')).
    { eapply (Call_closure_err fid (mkClosure E1 [] b0)); [exact Hclo | reflexivity |].
      cbn [c_body]. apply ExecBlock_of_ExecS; [exact Hxb | exact Hnl0 | intros []]. }
    assert (Hx3 : Exec E1 (SLocal [fmt_var cb] [ECall (EVar (fmt_var sv)) []]) st2 (RErr ev stL')).
    { apply Exec_local_err. apply EvalList_one. apply EvalMulti_call.
      eapply EvalCall_intro; [exact Hev_sv | apply EvalList_nil | exact Hcall]. }
    exists (RErr ev stL'), stL'. splits.
    + apply ExecBlock_of_ExecS; [|exact Hnlp | intros []].
      unfold prog. eapply XS_cons; [exact Hx1|]. eapply ExecS_app; [exact Hxg|].
      eapply XS_cons; [exact Hx2|]. apply XS_stop; [exact Hx3 | intros []].
    + reflexivity.
    + cbn [SyltSem.r_trace]. rewrite <- Htr. reflexivity.
    + cbn [SyltSem.r_final]. cbn in Hgood. destruct o; try destruct Hgood; eauto.
      exfalso. eapply SemSane.block_value_not_done. exact Hbv.
Qed.

Theorem fragment_preservation k r code n res :
  frag k r = true -> lower n r = Ok code -> SyltSem.run n r = res -> good_final (SyltSem.r_final res) ->
  exists m, forall m', (m <= m')%nat ->
    let out := run_block Lua53 m' (chunk_ast code) in
    o_trace out = SyltSem.r_trace res /\ same_final (SyltSem.r_final res) (o_final out).
Proof.
  intros Hfrag Hlow Hrun Hgood.
  destruct (program_sim k r code n res st_pre pre_linv pre_out pre_no_fmt_var Hfrag Hlow Hrun Hgood)
    as (rl & stf & Hex & Hst & Htr & Hfin).
  pose proof (exec_block_app_run pre_block pre_fuel PLeaf (init_state Lua53) PLeaf st_pre pre_nolabel pre_runs (emit_ast code) rl Hex)
    as [m Hm].
  exists m. intros m' Hm'. cbv zeta. unfold run_block, chunk_ast. rewrite (Hm m' Hm').
  destruct (SyltSem.r_final res) eqn:Hf; try destruct Hgood.
  - destruct Hfin as [E ->]. clear Hst.
    cbn [o_trace o_final same_final]. split; [|exact I]. unfold rev'. rewrite <- rev_alt. exact Htr.
  - destruct Hfin as [v ->]. clear Hst.
    cbn [o_trace o_final same_final]. split; [|exact I]. unfold rev'. rewrite <- rev_alt. exact Htr.
  - destruct Hfin as [v ->]. clear Hst.
    cbn [o_trace o_final same_final]. split; [|exact I]. unfold rev'. rewrite <- rev_alt. exact Htr.
Qed.
