-- expect-wf: bad invalid escape sequence
local s = "\256"
