(* Calls of top-level functions (stage 3b): the world of the callee, the relation at the entry of its body and
   back in the caller after the call; P_apply by the simulation of the body (P_fb) one level of fuel below;
   all simulations together (P_all), for every set of callable functions and every world. *)
From Coq Require Import String Ascii List NArith ZArith QArith Bool Lia.
From Sylt Require Import Syntax.Resolved.
From Sylt Require Sem.Values Sem.Runtime Sem.SyltSem.
From Sylt Require Import Back.IR Back.Emit Back.ScopeProofs.
From Sylt Require Import Pres.EmitAst Pres.EmitRel Pres.Names Pres.LuaFuel Pres.LuaEv Pres.Preamble.
From Sylt Require Import Pres.Frag.
From Sylt Require Import Pres.SimDefs Pres.SimOps Pres.SimVals.
From Sylt Require Import Pres.SimExpr Pres.LowerShape Pres.SimSteps Pres.SimExprProofs.
From Sylt Require Import Pres.LuaLoop.
From Sylt Require Import Pres.NoExit Pres.SimStmt Pres.RunEq.
From Sylt Require Import Lua.LuaAst Lua.LuaMap Lua.LuaNum Lua.LuaProofs Lua.LuaCore.
Import ListNotations.
Local Open Scope N_scope.

Ltac splits := repeat match goal with |- _ /\ _ => split end.

(* ------------------------------------------------------------------ function definitions at chunk level *)

(* the world after the definition of the function d *)
Definition world_add (W : world) (d : fdyn) : world :=
  mkWorld (fun c x => w_IS W c x \/ (c = fd_cf d /\ x = SyltSem.SClos (fd_ci d)))
          (fun p lv => w_IL W p lv \/ (p = fd_pf d /\ lv = VFun (fd_fid d)))
          (w_CS W) (w_CL W)
          (d :: w_funs W).

Section DefFun.
Variable pv : N.
Variable sv : N.
Variable bound : N.
Variable u : counts.

Notation ctx_ok := (ctx_ok bound).

(* the Lua state after `local function V<fv>(ps) b end` *)
Definition lua_def_state (stL : state) (E1 : env) (ps : list N) (b : block) : state :=
  set_cell (snd (alloc_closure (snd (alloc_cell stL VNil)) (mkClosure E1 (map fmt_var ps) b))) (s_ncell stL) (VFun (s_nclo stL)).

Lemma lua_def_old stL E1 ps b p : (p < s_ncell stL)%positive -> get_cell (lua_def_state stL E1 ps b) p = get_cell stL p.
Proof.
  intros Hp. unfold lua_def_state. rewrite get_cell_set_other by lia.
  change (get_cell (snd (alloc_cell stL VNil)) p = get_cell stL p). apply get_cell_alloc_old. exact Hp.
Qed.

Lemma linv_lua_def stL E1 ps b : linv stL -> linv (lua_def_state stL E1 ps b).
Proof.
  intros Hli. apply linv_set_cell. destruct Hli as [Hd Hg [Hc] Hn]. constructor.
  - exact Hd.
  - exact Hg.
  - constructor. unfold alloc_closure, alloc_cell. cbn [snd s_clos s_nclo]. rewrite pget_pset_other; [exact Hc | lia].
  - unfold alloc_closure, alloc_cell. cbn [snd s_nclo]. lia.
Qed.

(* `local function V<fv>(ps) <body> end` for a top-level function: it joins the callable functions and the
   world; the description d records its code, its cells and its closure environments *)
Lemma rel_define_function fl W sc e st E stL fv ps body g k scout bc ctx c c2 l :
  rel pv sv bound u fl W sc e st E stL ->
  (forall d, In d (w_funs W) -> In (fd_var d) (fnames fl)) ->
  fresh_id pv sv bound fl sc fv = true ->
  params_ok pv sv bound ((fv, length ps) :: fl) sc ps = true ->
  frag_stmts pv sv bound ((fv, length ps) :: fl) k (rev ps ++ sc) body = Some scout ->
  lower_fbody (statement g) (expression g) body ctx c = Ok (bc, c2) ->
  ucovers u bc -> bound <= c -> lut_ok bound l c c2 -> E_free E c c2 ->
  let E1 := sset (fmt_var fv) (s_ncell stL) E in
  let d := mkFdyn fv ps body sc ((fv, length ps) :: fl) g k scout bc ctx c c2 l
                  (length (SyltSem.cells st)) (length (SyltSem.clos st)) (def_env fv e st)
                  (s_ncell stL) (s_nclo stL) E1 in
  rel pv sv bound u ((fv, length ps) :: fl) (world_add W d) sc (def_env fv e st) (def_state fv ps body e st)
      E1 (lua_def_state stL E1 ps (fbody u d)) /\
  (forall d', In d' (w_funs (world_add W d)) -> In (fd_var d') (fnames ((fv, length ps) :: fl))).
Proof.
  intros Hrel Hall Hfresh Hpok Hfb Hlow Hub Hbc Hlut HEf E1 d.
  pose proof Hrel as [Hv Hb Hi Hp Hpb HpE HpG Hwf Ht Hli HW].
  destruct (fresh_id_inv _ _ _ _ _ _ Hfresh) as (Hnin & Hnpv & Hnsv & Hfvb).
  pose proof (fresh_id_fl _ _ _ _ _ _ Hfresh) as Hnfl.
  set (fl' := (fv, length ps) :: fl) in *.
  assert (Hold : forall p, (p < s_ncell stL)%positive -> get_cell (lua_def_state stL E1 ps (fbody u d)) p = get_cell stL p)
    by (intros p Hp'; apply lua_def_old; exact Hp').
  assert (Hwf1 : wfenv E1 (lua_def_state stL E1 ps (fbody u d))).
  { pose proof (wfenv_local E stL fv VNil Hwf) as [HV Hin Ha]. constructor; [exact HV | exact Hin |].
    intros x p H. specialize (Ha x p H). cbn in *. exact Ha. }
  assert (Hcl : forall v c0, In v sc -> SyltSem.lookup e v = Some c0 -> (c0 < length (SyltSem.cells st))%nat).
  { intros v c0 Hvin Hlk. destruct (Hv v Hvin) as (c1 & x & p & H1 & H2 & _). rewrite Hlk in H1. inversion H1; subst. apply nth_error_Some. congruence. }
  (* the static facts about the new function *)
  assert (Hstatic : fstatic pv sv bound u d).
  { constructor; cbn [d fd_var fd_params fd_body fd_sc fd_fl fd_g fd_k fd_scout fd_code fd_c fd_c' fd_lut fd_ef fd_Ef].
    - exact Hlow.
    - exact Hfb.
    - exact Hpok.
    - left. reflexivity.
    - splits; assumption.
    - exact Hb.
    - intros g0 [<-|Hg]; [split; assumption|]. unfold fnames in Hg. apply in_map_iff in Hg as ((f & ar) & <- & Hf).
      destruct (wi_cover _ _ _ _ _ _ _ _ _ _ _ HW f ar Hf) as (d0 & Hd0 & <- & _).
      destruct (wi_fun _ _ _ _ _ _ _ _ _ _ _ HW d0 Hd0) as (Hs0 & _ & _). destruct (fs_var _ _ _ _ _ Hs0) as (A & B & _). split; assumption.
    - exact Hub.
    - exact Hbc.
    - exact Hlut.
    - intros t0 Ht0. unfold E1. rewrite sget_sset_var by lia. apply HEf. exact Ht0.
    - unfold E1. rewrite sget_sset_var by (intros Heq; apply Hnpv; symmetry; exact Heq). exact HpE.
    - apply (wf_V _ _ Hwf1).
    - apply (wf_inj _ _ Hwf1).
    - destruct Hp as (cp & Hlkp & _). exists cp. unfold def_env. cbn [SyltSem.lookup]. destruct (N.eqb_spec fv pv); [congruence | exact Hlkp]. }
  (* how the old functions see the new environments *)
  assert (HvisS : forall d0, In d0 (w_funs W) -> fvisS pv (def_env fv e st) d0).
  { intros d0 Hd0. pose proof (Hall d0 Hd0) as Hvis0. destruct (wi_vsc _ _ _ _ _ _ _ _ _ _ _ HW d0 Hd0 Hvis0) as [Hisc Hifl].
    apply (fvisS_same pv e _ d0 (wi_visS _ _ _ _ _ _ _ _ _ _ _ HW d0 Hd0 Hvis0)).
    - unfold def_env. cbn [SyltSem.lookup]. destruct (N.eqb_spec fv (fd_var d0)) as [Heq|]; [|reflexivity]. exfalso. apply Hnfl. rewrite Heq. exact Hvis0.
    - intros g0 Hg. unfold def_env. cbn [SyltSem.lookup]. destruct (N.eqb_spec fv g0) as [Heq|]; [|reflexivity]. exfalso. subst g0.
      destruct Hg as [[Hg|Hg]|Hg]; [apply Hnin, Hisc, Hg | apply Hnfl; unfold fnames in *; apply (incl_map fst Hifl); exact Hg | apply Hnpv; exact Hg]. }
  assert (HvisL : forall d0, In d0 (w_funs W) -> fvisL E1 d0).
  { intros d0 Hd0. pose proof (Hall d0 Hd0) as Hvis0. destruct (wi_vsc _ _ _ _ _ _ _ _ _ _ _ HW d0 Hd0 Hvis0) as [Hisc Hifl].
    apply (fvisL_same E _ d0 (wi_visL _ _ _ _ _ _ _ _ _ _ _ HW d0 Hd0 Hvis0)).
    - apply sget_sset_var. intros Heq. apply Hnfl. rewrite <- Heq. exact Hvis0.
    - intros g0 [Hg|Hg]; apply sget_sset_var; intros Heq; subst g0;
        [apply Hnin, Hisc, Hg | apply Hnfl; unfold fnames in *; apply (incl_map fst Hifl); exact Hg]. }
  assert (HselfS : fvisS pv (def_env fv e st) d).
  { constructor; cbn [d fd_var fd_cf fd_ef]; [unfold def_env; cbn [SyltSem.lookup]; rewrite N.eqb_refl; reflexivity | reflexivity]. }
  assert (HselfL : fvisL E1 d).
  { constructor; cbn [d fd_var fd_pf fd_Ef]; [apply sget_sset_same | reflexivity]. }
  split.
  2: { intros d' [<-|Hd']; [left; reflexivity | right; apply Hall; exact Hd']. }
  constructor.
  - intros w Hw. destruct (Hv w Hw) as (cc & x & p & H1 & H2 & H3 & H4).
    assert (Hne : w <> fv) by (intros ->; contradiction).
    exists cc, x, p. unfold def_env, def_state. cbn [SyltSem.lookup SyltSem.cells]. destruct (N.eqb_spec fv w); [congruence|].
    splits; [exact H1 | apply nth_error_app_old; exact H2 | unfold E1; rewrite sget_sset_var by exact Hne; exact H3 |].
    rewrite Hold; [exact H4 | eapply wf_alloc; eassumption].
  - exact Hb.
  - intros v1 v2 cc H1 H2. unfold def_env. cbn [SyltSem.lookup].
    destruct (N.eqb_spec fv v1) as [->|]; [contradiction|]. destruct (N.eqb_spec fv v2) as [->|]; [contradiction|].
    apply Hi; assumption.
  - destruct Hp as (cp & Hlkp & Hnthp & Hdist).
    exists cp. unfold def_env, def_state. cbn [SyltSem.lookup SyltSem.cells]. destruct (N.eqb_spec fv pv); [congruence|].
    splits; [exact Hlkp | apply nth_error_app_old; exact Hnthp |].
    intros w Hw. destruct (N.eqb_spec fv w) as [->|]; [contradiction|]. apply Hdist. exact Hw.
  - exact Hpb.
  - unfold E1. rewrite sget_sset_var by (intros Heq; apply Hnpv; symmetry; exact Heq). exact HpE.
  - eapply glob_frame; [|exact HpG]. reflexivity.
  - exact Hwf1.
  - exact Ht.
  - apply linv_lua_def. exact Hli.
  - (* the world *)
    constructor; cbn [world_add w_IS w_IL w_CS w_CL w_funs].
    + intros c0 x [Hx|[-> ->]]; unfold def_state; cbn [SyltSem.cells].
      * pose proof (wi_IS _ _ _ _ _ _ _ _ _ _ _ HW c0 x Hx). rewrite nth_error_app1; [assumption | apply nth_error_Some; congruence].
      * cbn [d fd_cf fd_ci]. apply nth_error_app_new.
    + intros p lv [Hq|[-> ->]].
      * destruct (wi_IL _ _ _ _ _ _ _ _ _ _ _ HW p lv Hq) as [Ha Hlt]. split; [rewrite Hold by exact Hlt; exact Ha|].
        unfold lua_def_state, set_cell, alloc_closure, alloc_cell. cbn [snd s_ncell]. lia.
      * cbn [d fd_pf fd_fid]. split; [unfold lua_def_state; apply get_cell_set_same|].
        unfold lua_def_state, set_cell, alloc_closure, alloc_cell. cbn [snd s_ncell]. lia.
    + intros ci cl Hx. pose proof (wi_CS _ _ _ _ _ _ _ _ _ _ _ HW ci cl Hx) as Hn0.
      unfold def_state. cbn [SyltSem.clos]. rewrite nth_error_app1; [exact Hn0 | apply nth_error_Some; congruence].
    + intros fid c0 Hx. destruct (wi_CL _ _ _ _ _ _ _ _ _ _ _ HW fid c0 Hx) as [A B].
      unfold lua_def_state, set_cell, alloc_closure, alloc_cell. cbn [snd s_clos s_nclo]. rewrite pget_pset_other by lia. split; [exact A | lia].
    + intros d0 [<-|Hd0]; [left; reflexivity | right; apply Hall; exact Hd0].
    + intros d0 [<-|Hd0].
      * cbn [d fd_ci fd_params fd_body fd_ef fd_fid fd_Ef]. splits.
        -- unfold def_state. cbn [SyltSem.clos]. apply nth_error_app_new.
        -- unfold lua_def_state, set_cell, alloc_closure, alloc_cell. cbn [snd s_clos s_nclo]. apply pget_pset_same.
        -- apply (wf_alloc _ _ Hwf1).
        -- unfold lua_def_state, set_cell, alloc_closure, alloc_cell. cbn [snd s_nclo]. lia.
        -- unfold def_state. cbn [SyltSem.clos]. rewrite app_length. cbn [length]. lia.
      * destruct (wi_clos _ _ _ _ _ _ _ _ _ _ _ HW d0 Hd0) as (A & B & C & D & F).
        splits.
        -- unfold def_state. cbn [SyltSem.clos]. rewrite nth_error_app1 by exact F. exact A.
        -- unfold lua_def_state, set_cell, alloc_closure, alloc_cell. cbn [snd s_clos s_nclo]. rewrite pget_pset_other by lia. exact B.
        -- intros x p Hx. specialize (C x p Hx). unfold lua_def_state, set_cell, alloc_closure, alloc_cell. cbn [snd s_ncell]. lia.
        -- unfold lua_def_state, set_cell, alloc_closure, alloc_cell. cbn [snd s_nclo]. lia.
        -- unfold def_state. cbn [SyltSem.clos]. rewrite app_length. lia.
    + intros d0 [<-|Hd0].
      * splits; [exact Hstatic | right; split; reflexivity | right; split; reflexivity].
      * destruct (wi_fun _ _ _ _ _ _ _ _ _ _ _ HW d0 Hd0) as (A & B & C). splits; [exact A | left; exact B | left; exact C].
    + intros d1 d2 [<-|Hd1] [<-|Hd2] Hvis12.
      * splits; [exact HselfS | exact HselfL | apply incl_refl | apply incl_refl].
      * cbn [d fd_fl fd_ef fd_Ef fd_sc] in *. pose proof (Hall d2 Hd2) as Hvis2.
        destruct (wi_vsc _ _ _ _ _ _ _ _ _ _ _ HW d2 Hd2 Hvis2) as [Hisc Hifl].
        splits; [apply HvisS; exact Hd2 | apply HvisL; exact Hd2 | exact Hisc | apply incl_tl; exact Hifl].
      * exfalso. pose proof (Hall d1 Hd1) as Hvis1. destruct (wi_vsc _ _ _ _ _ _ _ _ _ _ _ HW d1 Hd1 Hvis1) as [_ Hifl].
        apply Hnfl. cbn [d fd_var] in Hvis12. unfold fnames in *. apply (incl_map fst Hifl). exact Hvis12.
      * apply (wi_inter _ _ _ _ _ _ _ _ _ _ _ HW d1 d2 Hd1 Hd2 Hvis12).
    + intros f ar [Heq|Hf].
      * inversion Heq; subst f ar. exists d. splits; [left; reflexivity | reflexivity | reflexivity].
      * destruct (wi_cover _ _ _ _ _ _ _ _ _ _ _ HW f ar Hf) as (d0 & A & B & C). exists d0. splits; [right; exact A | exact B | exact C].
    + intros d1 d2 [<-|Hd1] [<-|Hd2] Heq; [reflexivity | | |].
      * exfalso. apply Hnfl. cbn [d fd_var] in Heq. rewrite Heq. apply Hall. exact Hd2.
      * exfalso. apply Hnfl. cbn [d fd_var] in Heq. rewrite <- Heq. apply Hall. exact Hd1.
      * apply (wi_uniq _ _ _ _ _ _ _ _ _ _ _ HW d1 d2 Hd1 Hd2 Heq).
    + intros v c0 x Hvin Hlk [Hx|[-> _]]; unfold def_env in Hlk; cbn [SyltSem.lookup] in Hlk;
        (destruct (N.eqb_spec fv v) as [->|]; [contradiction|]).
      * exact (wi_scS _ _ _ _ _ _ _ _ _ _ _ HW v c0 x Hvin Hlk Hx).
      * cbn [d fd_cf] in Hlk. specialize (Hcl v _ Hvin Hlk). lia.
    + intros v Hvin [Heq|Hf]; [cbn [fst] in Heq; subst v; contradiction | exact (wi_scfl _ _ _ _ _ _ _ _ _ _ _ HW v Hvin Hf)].
    + intros v p lv Hvin Hq [Hx|[-> _]]; unfold E1 in Hq; rewrite sget_sset_var in Hq by (intros ->; contradiction).
      * exact (wi_lprot _ _ _ _ _ _ _ _ _ _ _ HW v p lv Hvin Hq Hx).
      * cbn [d fd_pf] in Hq. pose proof (wf_alloc _ _ Hwf _ _ Hq). lia.
    + intros d0 [<-|Hd0] _; [exact HselfS | apply HvisS; exact Hd0].
    + intros d0 [<-|Hd0] _; [exact HselfL | apply HvisL; exact Hd0].
    + intros d0 [<-|Hd0] _.
      * cbn [d fd_sc fd_fl]. split; apply incl_refl.
      * destruct (wi_vsc _ _ _ _ _ _ _ _ _ _ _ HW d0 Hd0 (Hall d0 Hd0)) as [A B]. split; [exact A | apply incl_tl; exact B].
Qed.

End DefFun.

(* ------------------------------------------------------------------ association lists with different keys *)

Lemma lookup_app_notin al e v : ~ In v (map fst al) -> SyltSem.lookup (al ++ e) v = SyltSem.lookup e v.
Proof.
  induction al as [|[k c] al IH]; intros Hn; [reflexivity|]. cbn [app SyltSem.lookup].
  destruct (N.eqb_spec k v) as [->|]; [exfalso; apply Hn; left; reflexivity | apply IH; intros H; apply Hn; right; exact H].
Qed.

Lemma lookup_app_in al e e' v : In v (map fst al) -> SyltSem.lookup (al ++ e) v = SyltSem.lookup (al ++ e') v.
Proof.
  induction al as [|[k c] al IH]; intros Hin; [destruct Hin|]. cbn [app SyltSem.lookup].
  destruct (N.eqb_spec k v) as [->|Hne]; [reflexivity|]. apply IH. destruct Hin as [H|H]; [contradiction | exact H].
Qed.

Lemma lookup_rev_nodup al : NoDup (map fst al) -> forall e v, SyltSem.lookup (rev al ++ e) v = SyltSem.lookup (al ++ e) v.
Proof.
  induction al as [|[k c] al IH]; intros Hnd e v; [reflexivity|].
  inversion Hnd as [|? ? Hnk Hnd']; subst. cbn [rev]. rewrite <- app_assoc. cbn [app].
  rewrite (IH Hnd' ((k, c) :: e) v). cbn [SyltSem.lookup].
  destruct (N.eqb_spec k v) as [->|Hne].
  - rewrite lookup_app_notin by exact Hnk. cbn [SyltSem.lookup]. rewrite N.eqb_refl. reflexivity.
  - destruct (in_dec N.eq_dec v (map fst al)) as [Hin|Hnin].
    + apply lookup_app_in. exact Hin.
    + rewrite !lookup_app_notin by exact Hnin. cbn [SyltSem.lookup]. destruct (N.eqb_spec k v); [contradiction | reflexivity].
Qed.

Section Sim.
Variable pv : N.
Variable sv : N.
Variable bound : N.
Variable u : counts.
Variable fl : list (N * nat).
Variable W : world.

Notation rel := (rel pv sv bound u fl W).
Notation winv := (winv pv sv bound u fl W).

(* the relation only looks at the Sylt environment through lookup *)
Lemma rel_lookup_ext sc e e' st E stL :
  (forall v, SyltSem.lookup e' v = SyltSem.lookup e v) -> rel sc e st E stL -> rel sc e' st E stL.
Proof.
  intros Hl [Hv Hb Hi Hp Hpb HpE HpG Hwf Ht Hli HW]. constructor; auto.
  - intros v Hin. destruct (Hv v Hin) as (c & x & p & H1 & H2 & H3 & H4). exists c, x, p. rewrite Hl. auto.
  - intros v1 v2 c. rewrite !Hl. apply Hi.
  - destruct Hp as (c & H1 & H2 & H3). exists c. rewrite Hl. splits; auto. intros v Hin. rewrite Hl. apply H3. exact Hin.
  - destruct HW as [H1 H2 HCS HCL Hav H3 H4 H5 H6 H7 H8 H9 H10 H11 H12 H13]. constructor; auto.
    + intros v c x Hin. rewrite Hl. apply H8. exact Hin.
    + intros d Hd Hvis. destruct (H11 d Hd Hvis) as [Ha Hb']. constructor; [rewrite Hl; exact Ha | intros g Hg; rewrite Hl; apply Hb'; exact Hg].
Qed.

(* a new user variable with a value on both sides (a parameter) *)
Lemma rel_define_var sc e st E stL var x lv :
  rel sc e st E stL -> fresh_id pv sv bound fl sc var = true -> vrel x lv ->
  rel (var :: sc) ((var, length (SyltSem.cells st)) :: e) (s_alloc st x)
      (sset (fmt_var var) (s_ncell stL) E) (snd (alloc_cell stL lv)).
Proof.
  intros Hrel Hfresh Hxl. destruct (fresh_id_inv _ _ _ _ _ _ Hfresh) as (Hnin & Hnpv & Hnsv & Hvb).
  pose proof (fresh_id_fl _ _ _ _ _ _ Hfresh) as Hnfl.
  pose proof Hrel as [Hv Hb Hi Hp Hpb HpE HpG Hwf Ht Hli HW].
  constructor.
  - intros w [<-|Hin].
    + exists (length (SyltSem.cells st)), x, (s_ncell stL).
      cbn [SyltSem.lookup]. rewrite N.eqb_refl. splits; [reflexivity | apply nth_error_app_new | apply sget_sset_same |].
      rewrite get_cell_alloc_new. exact Hxl.
    + destruct (Hv w Hin) as (cc & y & p & H1 & H2 & H3 & H4).
      assert (Hne : w <> var) by (intros ->; contradiction).
      exists cc, y, p. cbn [SyltSem.lookup]. destruct (N.eqb_spec var w); [congruence|].
      splits; [exact H1 | apply nth_error_app_old; exact H2 | rewrite sget_sset_var by exact Hne; exact H3 |].
      rewrite get_cell_alloc_old; [exact H4 | eapply wf_alloc; eassumption].
  - intros w [<-|Hin]; [split; assumption | apply Hb; exact Hin].
  - assert (Hold : forall w cc, In w sc -> SyltSem.lookup e w = Some cc -> (cc < length (SyltSem.cells st))%nat).
    { intros w cc Hin Hlk. destruct (Hv w Hin) as (cc' & y & p & H1 & H2 & _). rewrite Hlk in H1. inversion H1; subst.
      apply nth_error_Some. congruence. }
    intros v1 v2 cc H1 H2. cbn [SyltSem.lookup].
    destruct H1 as [<-|H1]; destruct H2 as [<-|H2]; rewrite ?N.eqb_refl.
    + auto.
    + destruct (N.eqb_spec var v2); [auto|]. intros Ha Hb2. inversion Ha; subst.
      specialize (Hold v2 _ H2 Hb2). lia.
    + destruct (N.eqb_spec var v1); [auto|]. intros Ha Hb2. inversion Hb2; subst.
      specialize (Hold v1 _ H1 Ha). lia.
    + destruct (N.eqb_spec var v1) as [->|]; [contradiction|]. destruct (N.eqb_spec var v2) as [->|]; [contradiction|].
      apply Hi; assumption.
  - destruct Hp as (cp & Hlkp & Hnthp & Hdist).
    exists cp. cbn [SyltSem.lookup]. destruct (N.eqb_spec var pv); [congruence|].
    splits; [exact Hlkp | apply nth_error_app_old; exact Hnthp |].
    intros w [<-|Hin]; rewrite ?N.eqb_refl.
    + intros Heq. inversion Heq; subst. assert (length (SyltSem.cells st) < length (SyltSem.cells st))%nat by (apply nth_error_Some; congruence). lia.
    + destruct (N.eqb_spec var w) as [->|]; [contradiction|]. apply Hdist. exact Hin.
  - exact Hpb.
  - rewrite sget_sset_var by (intros Heq; apply Hnpv; symmetry; exact Heq). exact HpE.
  - eapply glob_frame; [|exact HpG]. reflexivity.
  - apply wfenv_local. exact Hwf.
  - exact Ht.
  - apply linv_alloc_cell. exact Hli.
  - apply winv_define_user; assumption.
Qed.

(* ------------------------------------------------------------------ the parameters of a call *)

Lemma params_ok_inv : forall ps sc, params_ok pv sv bound fl sc ps = true ->
  NoDup ps /\ (forall p, In p ps -> ~ In p sc /\ p < bound /\ p <> pv /\ ~ In p (fnames fl)).
Proof.
  induction ps as [|p ps IH]; intros sc H; [split; [constructor | intros p []]|].
  cbn [params_ok] in H. apply andb_prop in H as [Hf Hr]. destruct (IH _ Hr) as [Hnd Hall].
  destruct (fresh_id_inv _ _ _ _ _ _ Hf) as (Hnin & Hnpv & _ & Hb). pose proof (fresh_id_fl _ _ _ _ _ _ Hf) as Hnfl.
  split.
  - constructor; [|exact Hnd]. intros Hin. destruct (Hall p Hin) as [Hn _]. apply Hn. left. reflexivity.
  - intros q [<-|Hq]; [auto|]. destruct (Hall q Hq) as (Hn & H2 & H3 & H4). splits; auto. intros Hin. apply Hn. right. exact Hin.
Qed.

Lemma bind_params : forall ps avs lvs sc e st E stL,
  rel sc e st E stL -> Forall2 vrel avs lvs -> length ps = length avs ->
  params_ok pv sv bound fl sc ps = true ->
  exists cs st1 E1 stL1,
    SyltSem.mapM SyltSem.new_cell avs st = (SyltSem.RVal cs, st1) /\
    bind_locals E (map fmt_var ps) lvs stL = (E1, stL1) /\
    rel (rev ps ++ sc) (rev (combine ps cs) ++ e) st1 E1 stL1 /\
    length cs = length ps /\
    (s_ncell stL <= s_ncell stL1)%positive /\
    (forall t, bound <= t -> sget (fmt_var t) E1 = sget (fmt_var t) E) /\
    (forall v, ~ In v ps -> sget (fmt_var v) E1 = sget (fmt_var v) E).
Proof.
  induction ps as [|p ps IH]; intros avs lvs sc e st E stL Hrel Hvs Hlen Hok.
  - destruct avs; [|discriminate Hlen]. inversion Hvs; subst.
    exists [], st, E, stL. splits; try reflexivity; auto; try lia.
  - destruct avs as [|av avs]; [discriminate Hlen|]. inversion Hvs as [|? lv ? lvs' Hv Hvs']; subst.
    cbn [params_ok] in Hok. apply andb_prop in Hok as [Hf Hr].
    pose proof (rel_define_var sc e st E stL p av lv Hrel Hf Hv) as Hrel1.
    destruct (IH avs lvs' (p :: sc) ((p, length (SyltSem.cells st)) :: e) (s_alloc st av)
                 (sset (fmt_var p) (s_ncell stL) E) (snd (alloc_cell stL lv)) Hrel1 Hvs' ltac:(cbn in Hlen; lia) Hr)
      as (cs & st1 & E1 & stL1 & Hm & Hbl & Hrel2 & Hlc & Hn & Ht & Hu).
    destruct (fresh_id_inv _ _ _ _ _ _ Hf) as (_ & _ & _ & Hpb).
    exists (length (SyltSem.cells st) :: cs), st1, E1, stL1. splits.
    + cbn [SyltSem.mapM]. unfold SyltSem.bind at 1. rewrite new_cell_eq. unfold SyltSem.bind at 1. rewrite Hm. reflexivity.
    + cbn [map bind_locals]. unfold alloc_cell at 1. cbn [first tl]. exact Hbl.
    + cbn [rev combine]. rewrite <- !app_assoc. exact Hrel2.
    + cbn [length]. lia.
    + cbn [alloc_cell snd s_ncell] in Hn. lia.
    + intros t Hbt. rewrite (Ht t Hbt). apply sget_sset_var. lia.
    + intros v Hnv. rewrite Hu by (intros Hin; apply Hnv; right; exact Hin). apply sget_sset_var. intros ->. apply Hnv. left. reflexivity.
Qed.

End Sim.



Section Body.
Variable pv : N.
Variable sv : N.
Variable bound : N.
Variable u : counts.
Variable fl : list (N * nat).
Variable W : world.

Notation rel := (rel pv sv bound u fl W).
Notation ctx_ok := (ctx_ok bound).

Lemma wsub_world_add d : wsub W (world_add W d).
Proof. unfold wsub, world_add. cbn. repeat split; auto. apply incl_tl, incl_refl. Qed.

(* statement lists: a statement (P_exec, the world stays) or a local function (it joins the world) and the rest *)
Lemma P_blk_succ n :
  (forall fl' W', P_exec pv sv bound u fl' W' n) -> (forall fl' W', P_blk pv sv bound u fl' W' n) ->
  P_blk pv sv bound u fl W (S n).
Proof.
  intros HE HB g k ss ctx c cs c' e st r st' sc sc' flr l E stL F Hev Hm Hfrag Hu Hctx Hrel Hint.
  destruct ss as [|s ss].
  - destruct (mapM_nil_ok _ _ _ _ Hm) as [-> ->]. destruct k as [|k]; [discriminate|]. cbn in Hfrag. inversion Hfrag; subst sc' flr.
    cbn in Hev. inversion Hev; subst r st'.
    eexists _, _. split; [apply cshape_nil|]. cbn [blk_post]. exists W, E, stL, F.
    splits; [apply XS_nil | apply wframe_refl | exact Hrel | apply wsub_refl | apply F_new_refl | apply keep_refl
             | intros v _; reflexivity | apply incl_refl | intros p lv Hq; left; exact Hq].
  - destruct k as [|k]; [discriminate|].
    apply mapM_cons_ok in Hm as (y & c1 & ys & Hy & Hys & ->). cbn [concat] in *.
    apply ucovers_app in Hu as [Huy Huys].
    pose proof Hctx as [Hbc Hlut HFo HEf].
    assert (Hlb : forall v, v < bound -> alut_get l v = None) by (intros v Hv; apply Hlut; right; exact Hv).
    cbn [SyltSem.exec_block] in Hev. unfold SyltSem.bind at 1 in Hev.
    destruct (is_fundef s) eqn:Hfd.
    + (* a local function *)
      destruct s; try discriminate Hfd. destruct value; try discriminate Hfd. rewrite frag_stmts_fun in Hfrag.
      match type of Hfrag with (if ?b then _ else _) = _ => destruct b eqn:Hc; [|discriminate Hfrag] end.
      apply andb_prop in Hc as [Hc Hfb]. apply andb_prop in Hc as [Hfr Hpok].
      set (ps := param_ids params) in *. set (fl' := (var, length ps) :: fl) in *.
      destruct (frag_stmts pv sv bound fl' k (rev ps ++ sc) body) as [scout|] eqn:Hfbody; [|discriminate Hfb].
      destruct g as [|[|g2]]; [cbn in Hy; discriminate Hy | cbn in Hy; discriminate Hy |].
      cbn [statement] in Hy. rewrite definition_fun in Hy. fold ps in Hy. mon Hy. fresh_all. rename a0 into bc.
      destruct n as [|[|n2]]; [cbn in Hev; inversion Hev; subst; destruct Hint | cbn in Hev; inversion Hev; subst; destruct Hint |].
      rewrite exec_def_fun in Hev. fold ps in Hev.
      apply ucovers_cons in Huy as [_ Huy]. apply ucovers_app in Huy as [Hubc _].
      destruct (L_fb_all pv sv bound u fl' g2 k body ctx (c + 1) bc c1 _ scout l Hm0 Hfbody) as (bb & l1 & Hsb).
      pose proof Hsb as (Hemb & Hcc1 & Hfr1 & Hnlb).
      destruct (fresh_id_inv _ _ _ _ _ _ Hfr) as (Hnin & Hnpv & Hnsv & Hvb).
      pose proof (fresh_id_fl _ _ _ _ _ _ Hfr) as Hnfl.
      destruct (L_stmts_all pv sv bound u fl' (S (S g2)) k ss ctx c1 ys c' sc (sc', flr) l1 Hys Hfrag) as (_ & _ & (_ & Hc1c' & _)).
      assert (Hlut1 : lut_ok bound l (c + 1) c1) by (eapply lut_ok_sub; [exact Hlut | lia | lia]).
      assert (HEf1 : E_free E (c + 1) c1) by (eapply E_free_sub; [exact HEf | lia | lia]).
      pose proof (wi_allvis _ _ _ _ _ _ _ _ _ _ _ (r_world _ _ _ _ _ _ _ _ _ _ _ Hrel)) as Hall.
      destruct (rel_define_function pv sv bound u fl W sc e st E stL var ps body g2 k scout bc ctx (c + 1) c1 l
                  Hrel Hall Hfr Hpok Hfbody Hm0 Hubc ltac:(lia) Hlut1 HEf1) as (Hrel1 & _).
      set (E1 := sset (fmt_var var) (s_ncell stL) E) in *.
      set (d := mkFdyn var ps body sc fl' g2 k scout bc ctx (c + 1) c1 l (length (SyltSem.cells st)) (length (SyltSem.clos st))
                       (def_env var e st) (s_ncell stL) (s_nclo stL) E1) in *.
      change (SimDefs.rel pv sv bound u fl' (world_add W d) sc (def_env var e st) (def_state var ps body e st) E1 (lua_def_state stL E1 ps (fbody u d))) in Hrel1.
      assert (Hbb : bb = fbody u d) by (unfold fbody; cbn [d fd_lut fd_code]; apply (Emits_block_fun u l bc bb l1 Hemb)).
      rewrite <- Hbb in Hrel1.
      assert (Hx1 : Exec E (SLocalFun (fmt_var var) (map fmt_var ps) bb) stL (ROk (E1, SigNormal) (lua_def_state stL E1 ps bb)))
        by apply Exec_localfun.
      assert (Hn1 : (s_ncell stL <= s_ncell (lua_def_state stL E1 ps bb))%positive)
        by (unfold lua_def_state, set_cell, alloc_closure, alloc_cell; cbn [snd s_ncell]; lia).
      assert (Hf1 : wframe bound c c1 E stL E1 (lua_def_state stL E1 ps bb)).
      { constructor.
        - intros t0 p0 Hb0 Hp0. unfold E1. rewrite sget_sset_var by lia. exact Hp0.
        - intros x p0 Hx. unfold E1 in Hx. destruct (String.eqb_spec x (fmt_var var)) as [->|Hne].
          + right. right. exists var. split; [reflexivity | exact Hvb].
          + left. rewrite sget_sset_other in Hx by exact Hne. exact Hx.
        - intros t0 p0 Hb0 _ Hp0. apply lua_def_old. eapply wf_alloc; [apply (r_wf _ _ _ _ _ _ _ _ _ _ _ Hrel) | exact Hp0].
        - exact Hn1. }
      assert (Hctx1 : ctx_ok l1 F E1 c1 c').
      { constructor; [lia | | eapply F_out_sub; [exact HFo | lia | lia] |].
        - intros t0 Ht0. rewrite Hfr1 by lia. apply Hlut. lia.
        - intros t0 Ht0. unfold E1. rewrite sget_sset_var by lia. apply HEf. lia. }
      assert (Hse1 : sext pv fl sc e (def_env var e st)).
      { intros w Hw. unfold def_env. cbn [SyltSem.lookup]. destruct (N.eqb_spec var w) as [->|]; [|reflexivity].
        destruct Hw as [Hw|[Hw|Hw]]; [contradiction | congruence | contradiction]. }
      assert (Hk1 : keep sc E E1) by (intros w Hw; unfold E1; apply sget_sset_var; intros ->; contradiction).
      assert (Hfn1 : incl (fnames fl) (fnames fl')) by (apply incl_tl, incl_refl).
      destruct (HB fl' (world_add W d) (S (S g2)) k ss ctx c1 ys c' (def_env var e st) (def_state var ps body e st) r st' sc sc' flr l1 E1
                   (lua_def_state stL E1 ps bb) F Hev Hys Hfrag Huys Hctx1 Hrel1 Hint) as (b2 & l2 & Hs2 & Hpost).
      eexists _, _. split; [eapply cshape_app; [apply cshape_fun; [exact Hsb | apply Hlb; exact Hvb] | exact Hs2]|].
      assert (Hxone : ExecS E [SLocalFun (fmt_var var) (map fmt_var ps) bb] stL (ROk (E1, SigNormal) (lua_def_state stL E1 ps bb)))
        by (apply ExecS_one; exact Hx1).
      destruct r as [e2|o|a].
      * cbn [blk_post] in *. destruct Hpost as (W2 & E2 & stL2 & F2 & Hx2 & Hf2 & Hr2 & Hw2 & HFn2 & Hk2 & Hs2' & Hi2 & Hwn2).
        exists W2, E2, stL2, F2.
        splits; [eapply ExecS_app; eassumption
                | eapply wframe_trans; [eapply wframe_widen; [exact Hf1 | lia | lia] | eapply wframe_widen; [exact Hf2 | lia | lia]]
                | exact Hr2 | eapply wsub_trans; [apply wsub_world_add | exact Hw2] | eapply F_new_widen; [exact HFn2 | lia | lia]
                | eapply keep_trans; eassumption | | exact Hi2 |].
        -- intros w Hw. rewrite Hs2'; [apply Hse1; exact Hw|]. destruct Hw as [Hw|[Hw|Hw]]; [left; exact Hw | right; left; exact Hw | right; right; right; exact Hw].
        -- intros p lv Hq. destruct (Hwn2 p lv Hq) as [[Hq'|[-> _]]|Hq']; [left; exact Hq' | right; cbn [d fd_pf]; lia | right; lia].
      * cbn [blk_post] in *.
        eapply (exit_pre_w pv sv bound u fl W fl' (world_add W d) ctx sc sc e (def_env var e st) st c c1 c1 c' c c' E stL _ E1 (lua_def_state stL E1 ps bb));
          [exact Hxone | exact Hf1 | exact Hk1 | exact Hrel | apply wsub_world_add | exact Hfn1 | exact Hse1 | apply incl_refl | exact Hpost | lia | lia | lia | lia].
      * cbn [blk_post] in *.
        eapply (exit_pre_w pv sv bound u fl W fl' (world_add W d) ctx sc sc e (def_env var e st) st c c1 c1 c' c c' E stL _ E1 (lua_def_state stL E1 ps bb));
          [exact Hxone | exact Hf1 | exact Hk1 | exact Hrel | apply wsub_world_add | exact Hfn1 | exact Hse1 | apply incl_refl | exact Hpost | lia | lia | lia | lia].
    + (* a statement *)
      rewrite (frag_stmts_plain _ _ _ _ _ _ _ _ Hfd) in Hfrag.
      destruct (frag_stmt pv sv bound fl k sc s) as [sc1|] eqn:Hs; [|discriminate Hfrag].
      destruct (L_stmt_all pv sv bound u fl g k s ctx c y c1 sc sc1 l Hy Hs) as (_ & _ & (_ & Hcc1 & _)).
      assert (HLr : forall l0, exists b2 l2, cshape u l0 (concat ys) b2 l2 c1 c')
        by (intros l0; eapply (L_stmts_all pv sv bound u fl g); eassumption).
      destruct (HLr l) as (_ & _ & (_ & Hc1c' & _)).
      assert (Hctxs : ctx_ok l F E c c1) by (eapply ctx_sub; [exact Hctx | lia | lia]).
      destruct (SyltSem.exec n e s st) as [[e1|o|a] st1] eqn:He1.
      2,3: (inversion Hev; subst;
            destruct (HE fl W g k s ctx c y c1 e st _ st' sc sc1 l E stL F He1 Hy Hs Huy Hctxs Hrel Hint) as (b1 & l1 & Hs1 & Hp1);
            destruct (HLr l1) as (b2 & l2 & Hs2);
            eexists _, _; (split; [eapply cshape_app; eassumption|]); cbn [stmt_post blk_post] in *;
            eapply exit_app; [exact Hp1 | exact Hc1c']).
      destruct (HE fl W g k s ctx c y c1 e st _ st1 sc sc1 l E stL F He1 Hy Hs Huy Hctxs Hrel I)
        as (b1 & l1 & Hs1 & E1 & stL1 & F1 & Hok1 & Hse1 & Hinc1).
      pose proof Hok1 as (Hx1 & Hf1 & Hrel1 & HFn1 & Hk1).
      assert (Hctx1 : ctx_ok l1 F1 E1 c1 c') by (eapply (ctx_afterS pv sv bound u fl W); eassumption).
      destruct (HB fl W g k ss ctx c1 ys c' e1 st1 r st' sc1 sc' flr l1 E1 stL1 F1 Hev Hys Hfrag Huys Hctx1 Hrel1 Hint)
        as (b2 & l2 & Hs2 & Hpost).
      eexists _, _. split; [eapply cshape_app; eassumption|].
      pose proof (wr_ncell _ _ _ _ _ _ _ Hf1) as Hn1.
      destruct r as [e2|o|a].
      * cbn [blk_post] in *. destruct Hpost as (W2 & E2 & stL2 & F2 & Hx2 & Hf2 & Hr2 & Hw2 & HFn2 & Hk2 & Hs2' & Hi2 & Hwn2).
        exists W2, E2, stL2, F2.
        splits; [eapply ExecS_app; eassumption
                | eapply wframe_trans; [eapply wframe_widen; [exact Hf1 | lia | lia] | eapply wframe_widen; [exact Hf2 | lia | lia]]
                | exact Hr2 | exact Hw2 | eapply F_new_trans; eassumption
                | intros w Hw; rewrite (Hk2 w (Hinc1 w Hw)); apply Hk1; exact Hw
                | eapply sext_trans; eassumption | eapply incl_tran; eassumption |].
        intros p lv Hq. destruct (Hwn2 p lv Hq) as [Hq'|Hq']; [left; exact Hq' | right; lia].
      * cbn [blk_post] in *. eapply (exit_pre pv sv bound u fl W ctx sc sc1 e e1 st st1); eassumption.
      * cbn [blk_post] in *. eapply (exit_pre pv sv bound u fl W ctx sc sc1 e e1 st st1); eassumption.
Qed.

(* the body block after a prefix that ended normally *)
Lemma fb_pre fl1 W1 sc sc1 e e1 E E1 stL stL1 b1 b2 r st' :
  ExecS E b1 stL (ROk (E1, SigNormal) stL1) -> wsub W W1 -> sext pv fl sc e e1 -> incl sc sc1 -> keep sc E E1 ->
  (s_ncell stL <= s_ncell stL1)%positive -> incl (fnames fl) (fnames fl1) ->
  fb_post pv sv bound u fl1 W1 sc1 e1 E1 stL1 b2 r st' -> fb_post pv sv bound u fl W sc e E stL (b1 ++ b2) r st'.
Proof.
  intros Hx1 Hw1 Hs1 Hi1 Hk1 Hn1 Hfl Hp.
  assert (Hsx : forall e2, sext pv fl1 sc1 e1 e2 -> sext pv fl sc e e2).
  { intros e2 H2 w Hw. rewrite H2; [apply Hs1; exact Hw|]. destruct Hw as [Hw|[Hw|Hw]]; [left; apply Hi1; exact Hw | right; left; exact Hw | right; right; apply Hfl; exact Hw]. }
  destruct r as [v|o|[| |v]]; cbn [fb_post] in *; try exact I.
  - destruct Hp as (fl2 & W2 & E2 & sg & stL2 & sc2 & e2 & Hx2 & Hsg & Hr2 & Hw2 & Hs2 & Hi2 & Hk2 & Hn2).
    exists fl2, W2, E2, sg, stL2, sc2, e2.
    splits; [eapply ExecS_app; eassumption | exact Hsg | exact Hr2 | eapply wsub_trans; eassumption | eapply Hsx; eassumption
             | eapply incl_tran; eassumption | intros w Hw; rewrite (Hk2 w (Hi1 w Hw)); apply Hk1; exact Hw | lia].
  - destruct Hp as (ev & stL2 & Hx2 & Htr). exists ev, stL2. split; [eapply ExecS_app; eassumption | exact Htr].
  - destruct Hp as (fl2 & W2 & sc2 & e2 & E2 & Er & stL2 & lv & Hx2 & Hv2 & Hr2 & Hw2 & Hs2 & Hi2 & Hk2 & Hn2).
    exists fl2, W2, sc2, e2, E2, Er, stL2, lv.
    splits; [eapply ExecS_app; eassumption | exact Hv2 | exact Hr2 | eapply wsub_trans; eassumption | eapply Hsx; eassumption
             | eapply incl_tran; eassumption | intros w Hw; rewrite (Hk2 w (Hi1 w Hw)); apply Hk1; exact Hw | lia].
Qed.

(* the body block stopped by a prefix *)
Lemma fb_app_stop {A} sc e E stL b1 b2 (x : A) r st' :
  match r with SyltSem.RVal _ => False | _ => True end ->
  fb_post pv sv bound u fl W sc e E stL b1 r st' -> fb_post pv sv bound u fl W sc e E stL (b1 ++ b2) r st'.
Proof.
  intros Hr Hp. destruct r as [v|o|[| |v]]; cbn [fb_post] in *; try exact I; try contradiction.
  - destruct Hp as (ev & stL2 & Hx2 & Htr). exists ev, stL2. split; [apply ExecS_app_stop; [exact Hx2 | intros []] | exact Htr].
  - destruct Hp as (fl2 & W2 & sc2 & e2 & E2 & Er & stL2 & lv & Hx2 & Hrest).
    exists fl2, W2, sc2, e2, E2, Er, stL2, lv. split; [apply ExecS_app_stop; [exact Hx2 | intros []] | exact Hrest].
Qed.

Lemma P_fb_zero : P_fb pv sv bound u fl W O.
Proof.
  intros g k body ctx c code c' e st r st' sc scout l E stL F Hev. cbn in Hev. inversion Hev; subst. intros. contradiction.
Qed.

Lemma P_fb_succ n :
  (forall fl' W', P_eval pv sv bound u fl' W' n) -> (forall fl' W', P_blk pv sv bound u fl' W' n) ->
  P_fb pv sv bound u fl W (S n).
Proof.
  intros IHe IHb g k body ctx c code c' e st r st' sc [sc' flr] l E stL F Hev Hlow Hfrag Hu Hctx Hrel Hint.
  pose proof Hctx as [Hbc Hlut HFo HEf].
  destruct (L_fb_all pv sv bound u fl g k body ctx c code c' sc (sc', flr) l Hlow Hfrag) as (b0 & l0 & Hs0).
  pose proof Hs0 as (_ & Hcc' & _).
  (* an abrupt end is outside what the post-condition says *)
  assert (Hab : r = SyltSem.RAbrupt SyltSem.CBreak \/ r = SyltSem.RAbrupt SyltSem.CContinue ->
                exists b l', cshape u l code b l' c c' /\ fb_post pv sv bound u fl W sc e E stL b r st').
  { intros [-> | ->]; exists b0, l0; (split; [exact Hs0 | exact I]). }
  clear Hs0.
  cbn [SyltSem.block_value] in Hev. unfold lower_fbody in Hlow.
  destruct (rev body) as [|last init_rev] eqn:Hrev.
  - (* empty body *)
    assert (body = []) by (rewrite <- (rev_involutive body), Hrev; reflexivity). subst body.
    apply ret_ok in Hlow as [<- <-].
    unfold SyltSem.bind in Hev. destruct n as [|n]; [cbn in Hev; inversion Hev; subst; destruct Hint|].
    cbn in Hev. inversion Hev; subst r st'.
    destruct k as [|k]; [discriminate|]. cbn in Hfrag. inversion Hfrag; subst sc' flr.
    eexists _, _. split; [apply cshape_nil|]. cbn [fb_post].
    exists fl, W, E, SigNormal, stL, sc, e.
    splits; [apply XS_nil | left; split; reflexivity | exact Hrel | apply wsub_refl | apply sext_refl | apply incl_refl | apply keep_refl | lia].
  - assert (Hbody : body = rev init_rev ++ [last]) by (rewrite <- (rev_involutive body), Hrev; reflexivity).
    mon Hlow. apply lower_list_ok in Hm as (cs & Hmi & ->).
    pose proof Hfrag as Hfrag0.
    destruct (frag_stmts_app pv sv bound _ _ _ _ _ _ Hfrag0) as (sc1 & fl1 & k' & Hfi & Hfl).
    apply ucovers_app in Hu as [Hui Hul].
    (* the last statement is not an expression: the value is nil *)
    assert (Hgen : SyltSem.bind (SyltSem.exec_block n e (rev init_rev ++ [last])) (fun _ : senv => SyltSem.ret (SV Values.VLuaNil)) st = (r, st') ->
                   statement g last ctx c0 = Ok (a0, c') ->
                   exists (b : block) (l' : alut), cshape u l (concat cs ++ a0) b l' c c' /\ fb_post pv sv bound u fl W sc e E stL b r st').
    { intros Hev' Hst.
      pose proof (mapM_snoc _ _ _ _ _ _ _ _ Hmi Hst) as Hmall.
      assert (Hcc : concat (cs ++ [a0]) = concat cs ++ a0) by (rewrite concat_app; cbn [concat]; rewrite app_nil_r; reflexivity).
      assert (Huall : ucovers u (concat (cs ++ [a0]))) by (rewrite Hcc; apply ucovers_app; split; assumption).
      unfold SyltSem.bind at 1 in Hev'.
      destruct (SyltSem.exec_block n e (rev init_rev ++ [last]) st) as [[e1|o|cc] st1] eqn:He1.
      3: { inversion Hev'; subst. destruct cc as [| |v]; [apply Hab; auto | apply Hab; auto |].
           destruct (IHb fl W g k _ ctx c _ c' e st _ st' sc sc' flr l E stL F He1 Hmall Hfrag0 Huall Hctx Hrel Hint)
             as (b1 & l1 & Hs1 & Hpost). rewrite Hcc in Hs1.
           eexists _, _. split; [exact Hs1|]. cbn [blk_post] in Hpost. eapply fb_of_exit. exact Hpost. }
      2: { inversion Hev'; subst.
           destruct (IHb fl W g k _ ctx c _ c' e st _ st' sc sc' flr l E stL F He1 Hmall Hfrag0 Huall Hctx Hrel Hint)
             as (b1 & l1 & Hs1 & Hpost). rewrite Hcc in Hs1.
           eexists _, _. split; [exact Hs1|]. cbn [blk_post fb_post] in *.
           destruct Hpost as (rl & Hx & (ev & stL' & -> & Htr)). exists ev, stL'. split; assumption. }
      cbn in Hev'. inversion Hev'; subst r st'. clear Hev'.
      destruct (IHb fl W g k _ ctx c _ c' e st _ st1 sc sc' flr l E stL F He1 Hmall Hfrag0 Huall Hctx Hrel I)
        as (b1 & l1 & Hs1 & W1 & E1 & stL1 & F1 & Hx1 & Hf1 & Hrel1 & Hw1 & _ & Hk1 & Hse1 & Hinc1 & _). rewrite Hcc in Hs1.
      eexists _, _. split; [exact Hs1|].
      exists flr, W1, E1, SigNormal, stL1, sc', e1.
      splits; [exact Hx1 | left; split; reflexivity | exact Hrel1 | exact Hw1 | exact Hse1 | exact Hinc1 | exact Hk1 | apply (wr_ncell _ _ _ _ _ _ _ Hf1)]. }
    destruct last; try (apply Hgen; assumption).
    (* the last statement is an expression: its value is returned *)
    clear Hgen.
    destruct k' as [|k']; [discriminate|]. rewrite (frag_stmts_plain pv sv bound fl1) in Hfl by reflexivity.
    destruct k' as [|k'']; [discriminate|]. rewrite frag_stmt_sexpr in Hfl.
    destruct (frag_expr pv sv bound fl1 k'' sc1 value) eqn:Hfe; [|discriminate Hfl].
    mon Hm0. destruct a as [code_v rv]. cbn [fst snd] in *.
    apply ucovers_app in Hul as [Huv Hur].
    assert (Hcrv : 1 <= count_of u rv) by (eapply Hur; [left; reflexivity | left; reflexivity]).
    assert (Hrest : forall l0, exists b2 l2, cshape u l0 code_v b2 l2 c0 c' /\ c0 <= rv /\ rv < c')
      by (intros lx; apply (L_expr_all pv sv bound u fl1 g k'' value ctx c0 code_v rv c' sc1 lx Hm Hfe)).
    destruct (Hrest l) as (_ & _ & (_ & Hc0' & _) & _).
    destruct (L_stmts_all pv sv bound u fl g k (rev init_rev) ctx c cs c0 sc (sc1, fl1) l Hmi Hfi) as (_ & _ & (_ & Hcc0 & _)).
    assert (Hret : forall l0, cshape u l0 [IReturn rv] (fst (agen_one u l0 (IReturn rv))) l0 c' c')
      by (intros lx; apply cshape_plain; [lia | reflexivity | reflexivity | reflexivity]).
    pose proof (frag_stmts_fnames pv sv bound _ _ _ _ _ _ Hfi) as Hfn.
    assert (Hctxi : ctx_ok l F E c c0) by (eapply ctx_sub; [exact Hctx | lia | lia]).
    unfold SyltSem.bind at 1 in Hev.
    destruct (SyltSem.exec_block n e (rev init_rev) st) as [[e1|o|cc] st1] eqn:He1.
    3: { inversion Hev; subst. destruct cc as [| |v]; [apply Hab; auto | apply Hab; auto |].
         destruct (IHb fl W g k _ ctx c _ c0 e st _ st' sc sc1 fl1 l E stL F He1 Hmi Hfi Hui Hctxi Hrel Hint)
           as (b1 & l1 & Hs1 & Hp1). destruct (Hrest l1) as (b2 & l2 & Hs2 & _).
         eexists _, _. split; [eapply cshape_app; [exact Hs1|]; eapply cshape_app; [exact Hs2 | apply Hret]|].
         cbn [blk_post] in Hp1. apply (fb_app_stop sc e E stL b1 _ tt); [exact I | eapply fb_of_exit; exact Hp1]. }
    2: { inversion Hev; subst.
         destruct (IHb fl W g k _ ctx c _ c0 e st _ st' sc sc1 fl1 l E stL F He1 Hmi Hfi Hui Hctxi Hrel Hint)
           as (b1 & l1 & Hs1 & Hp1). destruct (Hrest l1) as (b2 & l2 & Hs2 & _).
         eexists _, _. split; [eapply cshape_app; [exact Hs1|]; eapply cshape_app; [exact Hs2 | apply Hret]|].
         cbn [blk_post fb_post] in *. destruct Hp1 as (rl & Hx1 & (ev & stL1 & -> & Htr)).
         exists ev, stL1. split; [apply ExecS_app_stop; [exact Hx1 | intros []] | exact Htr]. }
    destruct (IHb fl W g k _ ctx c _ c0 e st _ st1 sc sc1 fl1 l E stL F He1 Hmi Hfi Hui Hctxi Hrel I)
      as (b1 & l1 & Hs1 & W1 & E1 & stL1 & F1 & Hx1 & Hf1 & Hrel1 & Hw1 & HFn1 & Hk1 & Hse1 & Hinc1 & _).
    assert (Hctx1 : ctx_ok l1 F1 E1 c0 c') by (eapply (ctx_after_blk bound u); eassumption).
    pose proof (wr_ncell _ _ _ _ _ _ _ Hf1) as Hn1.
    destruct (SyltSem.eval n e1 value st1) as [[v_|o|cc] st2] eqn:He2.
    3: { inversion Hev; subst. destruct cc as [| |v]; [apply Hab; auto | apply Hab; auto |].
         destruct (IHe fl1 W1 g k'' value ctx c0 code_v rv c' e1 st1 _ st' sc1 l1 E1 stL1 F1 He2 Hm Hfe Huv Hctx1 Hrel1 Hint)
           as (b2 & l2 & Hs2 & _ & _ & Hp2). cbn [eval_post] in Hp2.
         eexists _, _. split; [eapply cshape_app; [exact Hs1|]; eapply cshape_app; [exact Hs2 | apply Hret]|].
         eapply (fb_pre fl1 W1 sc sc1 e e1 E E1 stL stL1); try eassumption.
         eapply fb_of_exit. eapply exit_app; [exact Hp2 | apply N.le_refl]. }
    2: { inversion Hev; subst.
         destruct (IHe fl1 W1 g k'' value ctx c0 code_v rv c' e1 st1 _ st' sc1 l1 E1 stL1 F1 He2 Hm Hfe Huv Hctx1 Hrel1 Hint)
           as (b2 & l2 & Hs2 & _ & _ & Hp2). cbn [eval_post] in Hp2. destruct Hp2 as (rl & Hx2 & (ev & stL2 & -> & Htr)).
         eexists _, _. split; [eapply cshape_app; [exact Hs1|]; eapply cshape_app; [exact Hs2 | apply Hret]|].
         exists ev, stL2. split; [|exact Htr].
         eapply ExecS_app; [exact Hx1|]. apply ExecS_app_stop; [exact Hx2 | intros []]. }
    inversion Hev; subst r st'. clear Hev.
    destruct (IHe fl1 W1 g k'' value ctx c0 code_v rv c' e1 st1 _ st2 sc1 l1 E1 stL1 F1 He2 Hm Hfe Huv Hctx1 Hrel1 I)
      as (b2 & l2 & Hs2 & _ & _ & E2 & stL2 & F2 & Hok2 & Hd2). specialize (Hd2 Hcrv).
    pose proof Hok2 as (Hx2 & Hf2 & Hrel2 & _ & Hk2).
    eexists _, _. split; [eapply cshape_app; [exact Hs1|]; eapply cshape_app; [exact Hs2 | apply Hret]|].
    destruct (denotes_now _ _ _ _ _ Hd2 (r_wf _ _ _ _ _ _ _ _ _ _ _ Hrel2) (r_linv _ _ _ _ _ _ _ _ _ _ _ Hrel2)) as (lv & Hv & st3 & _ & Hm3 & Hx3).
    exists fl1, W1, E2, (SigReturn [lv]), st3, sc1, e1. splits.
    + eapply ExecS_app; [exact Hx1|]. eapply ExecS_app; [exact Hx2|].
      cbn [agen_one fst]. apply XS_stop; [|intros []].
      eapply Exec_do. apply ExecBlock_of_ExecS; [|repeat constructor | intros []].
      apply XS_stop; [|intros []]. apply Exec_return. apply EvalList_one. exact Hm3.
    + right. exists lv. split; [reflexivity | exact Hv].
    + eapply rel_cells_ext; eassumption.
    + exact Hw1.
    + exact Hse1.
    + exact Hinc1.
    + intros w Hw. rewrite (Hk2 w (Hinc1 w Hw)). apply Hk1. exact Hw.
    + pose proof (wr_ncell _ _ _ _ _ _ _ Hf2).
      destruct Hx3 as (_ & _ & _ & _ & _ & _ & Hn3 & _). lia.
Qed.

End Body.

Section Call.
Variable pv : N.
Variable sv : N.
Variable bound : N.
Variable u : counts.
Variable fl : list (N * nat).
Variable W : world.

Notation rel := (rel pv sv bound u fl W).
Notation winv := (winv pv sv bound u fl W).

(* ------------------------------------------------------------------ the world of the callee *)

(* during the call of d from the scope (sc, e, E) in the states (st, stL): the caller's variables that the
   callee does not see and all the caller's temporaries keep their content *)
Definition callee_world (d : fdyn) (sc : list N) (e : senv) (st : sstate) (E : env) (stL : state) : world :=
  mkWorld
    (fun c x => w_IS W c x \/
                exists v, In v sc /\ ~ In v (fd_sc d) /\ SyltSem.lookup e v = Some c /\ nth_error (SyltSem.cells st) c = Some x)
    (fun p lv => w_IL W p lv \/
                 (exists v, In v sc /\ ~ In v (fd_sc d) /\ sget (fmt_var v) E = Some p /\ get_cell stL p = lv) \/
                 (exists t, bound <= t /\ sget (fmt_var t) E = Some p /\ get_cell stL p = lv))
    (fun ci cl => nth_error (SyltSem.clos st) ci = Some cl)
    (fun fid c => pget fid (s_clos stL) = Some c /\ (fid < s_nclo stL)%positive)
    (filter (fun d' => memN (fd_var d') (fnames (fd_fl d))) (w_funs W)).

Lemma callee_funs d sc e st E stL d' :
  In d' (w_funs (callee_world d sc e st E stL)) <-> In d' (w_funs W) /\ In (fd_var d') (fnames (fd_fl d)).
Proof.
  cbn [callee_world w_funs]. rewrite filter_In. split; intros [A B]; (split; [exact A|]).
  - unfold memN in B. apply existsb_exists in B as (y & Hy & Heq). apply N.eqb_eq in Heq. subst. exact Hy.
  - unfold memN. apply existsb_exists. exists (fd_var d'). split; [exact B | apply N.eqb_refl].
Qed.

(* the relation at the closure environment of a callable function, in the world of its call *)
Lemma callee_rel d sc e st E stL :
  rel sc e st E stL -> In d (w_funs W) -> In (fd_var d) (fnames fl) ->
  SimDefs.rel pv sv bound u (fd_fl d) (callee_world d sc e st E stL) (fd_sc d) (fd_ef d) st (fd_Ef d) stL.
Proof.
  intros Hrel Hd Hvis.
  pose proof Hrel as [Hv Hb Hi Hp Hpb HpE HpG Hwf Ht Hli HW].
  destruct (wi_fun _ _ _ _ _ _ _ _ _ _ _ HW d Hd) as (Hst & HIS & HIL).
  destruct (wi_clos _ _ _ _ _ _ _ _ _ _ _ HW d Hd) as (Hclo & HcloL & Halloc & _).
  destruct (wi_visS _ _ _ _ _ _ _ _ _ _ _ HW d Hd Hvis) as [HnameS HagS].
  destruct (wi_visL _ _ _ _ _ _ _ _ _ _ _ HW d Hd Hvis) as [HnameL HagL].
  destruct (wi_vsc _ _ _ _ _ _ _ _ _ _ _ HW d Hd Hvis) as [Hisc Hifl].
  assert (HlkS : forall g, In g (fd_sc d) -> SyltSem.lookup (fd_ef d) g = SyltSem.lookup e g) by (intros g Hg; apply HagS; left; left; exact Hg).
  assert (HlkL : forall g, In g (fd_sc d) -> sget (fmt_var g) (fd_Ef d) = sget (fmt_var g) E) by (intros g Hg; apply HagL; left; exact Hg).
  constructor.
  - intros g Hg. destruct (Hv g (Hisc g Hg)) as (c & x & p & H1 & H2 & H3 & H4).
    exists c, x, p. rewrite (HlkS g Hg), (HlkL g Hg). auto.
  - apply (fs_scb _ _ _ _ _ Hst).
  - intros v1 v2 c H1 H2. rewrite (HlkS v1 H1), (HlkS v2 H2). apply Hi; apply Hisc; assumption.
  - destruct Hp as (cp & Hlkp & Hnthp & Hdist). exists cp.
    rewrite (HagS pv (or_intror eq_refl)). splits; [exact Hlkp | exact Hnthp |].
    intros g Hg. rewrite (HlkS g Hg). apply Hdist. apply Hisc. exact Hg.
  - exact Hpb.
  - apply (fs_EpvE _ _ _ _ _ Hst).
  - exact HpG.
  - constructor; [apply (fs_EV _ _ _ _ _ Hst) | apply (fs_Einj _ _ _ _ _ Hst) | exact Halloc].
  - exact Ht.
  - exact Hli.
  - constructor; cbn [callee_world w_IS w_IL w_CS w_CL].
    + intros c x [Hc|(v & _ & _ & _ & Hn)]; [apply (wi_IS _ _ _ _ _ _ _ _ _ _ _ HW); exact Hc | exact Hn].
    + intros p lv [Hq|[(v & _ & _ & Hq & Hc)|(t & _ & Hq & Hc)]].
      * apply (wi_IL _ _ _ _ _ _ _ _ _ _ _ HW); exact Hq.
      * split; [exact Hc | eapply wf_alloc; eassumption].
      * split; [exact Hc | eapply wf_alloc; eassumption].
    + intros ci cl H. exact H.
    + intros fid c H. exact H.
    + intros d' Hd'. apply callee_funs in Hd' as [_ H]. exact H.
    + intros d' Hd'. apply callee_funs in Hd' as [Hd' _]. apply (wi_clos _ _ _ _ _ _ _ _ _ _ _ HW d' Hd').
    + intros d' Hd'. apply callee_funs in Hd' as [Hd' _]. destruct (wi_fun _ _ _ _ _ _ _ _ _ _ _ HW d' Hd') as (A & B & C). splits; [exact A | left; exact B | left; exact C].
    + intros d1 d2 Hd1 Hd2. apply callee_funs in Hd1 as [Hd1 _]. apply callee_funs in Hd2 as [Hd2 _]. apply (wi_inter _ _ _ _ _ _ _ _ _ _ _ HW d1 d2 Hd1 Hd2).
    + intros f ar Hf. destruct (wi_cover _ _ _ _ _ _ _ _ _ _ _ HW f ar (Hifl _ Hf)) as (d' & A & B & C). exists d'. splits; [|exact B | exact C].
      apply callee_funs. split; [exact A|]. rewrite B. unfold fnames. change f with (fst (f, ar)). apply in_map. exact Hf.
    + intros d1 d2 Hd1 Hd2. apply callee_funs in Hd1 as [Hd1 _]. apply callee_funs in Hd2 as [Hd2 _]. apply (wi_uniq _ _ _ _ _ _ _ _ _ _ _ HW d1 d2 Hd1 Hd2).
    + intros g c x Hg Hlk [Hc|(v & Hvin & Hnv & Hlkv & _)].
      * rewrite (HlkS g Hg) in Hlk. exact (wi_scS _ _ _ _ _ _ _ _ _ _ _ HW g c x (Hisc g Hg) Hlk Hc).
      * rewrite (HlkS g Hg) in Hlk. assert (v = g) by (eapply Hi; [exact Hvin | apply Hisc; exact Hg | exact Hlkv | exact Hlk]).
        subst v. contradiction.
    + intros g Hg Hgf. apply (wi_scfl _ _ _ _ _ _ _ _ _ _ _ HW g (Hisc g Hg)). unfold fnames in *. apply (incl_map fst Hifl). exact Hgf.
    + intros g p lv Hg Hq [Hc|[(v & Hvin & Hnv & Hqv & _)|(t & Hbt & Hqt & _)]]; rewrite (HlkL g Hg) in Hq.
      * exact (wi_lprot _ _ _ _ _ _ _ _ _ _ _ HW g p lv (Hisc g Hg) Hq Hc).
      * assert (fmt_var v = fmt_var g) by (eapply wf_inj; eassumption). apply fmt_var_inj in H. subst v. contradiction.
      * assert (fmt_var t = fmt_var g) by (eapply wf_inj; eassumption). apply fmt_var_inj in H. subst t. destruct (Hb g (Hisc g Hg)). lia.
    + intros d' Hd' Hv'. apply callee_funs in Hd' as [Hd' _]. apply (wi_inter _ _ _ _ _ _ _ _ _ _ _ HW d d' Hd Hd' Hv').
    + intros d' Hd' Hv'. apply callee_funs in Hd' as [Hd' _]. apply (wi_inter _ _ _ _ _ _ _ _ _ _ _ HW d d' Hd Hd' Hv').
    + intros d' Hd' Hv'. apply callee_funs in Hd' as [Hd' _]. destruct (wi_inter _ _ _ _ _ _ _ _ _ _ _ HW d d' Hd Hd' Hv') as (_ & _ & A & B). split; assumption.
Qed.

(* back in the caller after the call *)
Lemma caller_back d sc e st E stL fl2 W2 sc2 e2 E2 st' stL' :
  rel sc e st E stL -> In d (w_funs W) -> In (fd_var d) (fnames fl) ->
  SimDefs.rel pv sv bound u fl2 W2 sc2 e2 st' E2 stL' -> wsub (callee_world d sc e st E stL) W2 ->
  incl (fd_sc d) sc2 ->
  (forall g, In g (fd_sc d) \/ g = pv -> SyltSem.lookup e2 g = SyltSem.lookup (fd_ef d) g) ->
  (forall g, In g (fd_sc d) -> sget (fmt_var g) E2 = sget (fmt_var g) (fd_Ef d)) ->
  (s_ncell stL <= s_ncell stL')%positive ->
  rel sc e st' E stL' /\ call_frame bound E stL stL'.
Proof.
  intros Hrel Hd Hvis Hrel' (HwS & HwL & HwCS & HwCL & _) Hinc HeS HeL Hnc.
  pose proof Hrel as [Hv Hb Hi Hp Hpb HpE HpG Hwf Ht Hli HW].
  pose proof Hrel' as [Hv' Hb' Hi' Hp' Hpb' HpE' HpG' Hwf' Ht' Hli' HW'].
  destruct (wi_visS _ _ _ _ _ _ _ _ _ _ _ HW d Hd Hvis) as [HnameS HagS].
  destruct (wi_visL _ _ _ _ _ _ _ _ _ _ _ HW d Hd Hvis) as [HnameL HagL].
  assert (HIS' : forall c x, w_IS (callee_world d sc e st E stL) c x -> nth_error (SyltSem.cells st') c = Some x)
    by (intros c x H; apply (wi_IS _ _ _ _ _ _ _ _ _ _ _ HW'), HwS; exact H).
  assert (HIL' : forall p lv, w_IL (callee_world d sc e st E stL) p lv -> get_cell stL' p = lv)
    by (intros p lv H; apply (wi_IL _ _ _ _ _ _ _ _ _ _ _ HW' p lv (HwL p lv H))).
  split.
  - constructor.
    + intros v Hin. destruct (in_dec N.eq_dec v (fd_sc d)) as [Hg|Hng].
      * destruct (Hv' v (Hinc v Hg)) as (c & x & p & H1 & H2 & H3 & H4).
        exists c, x, p. rewrite (HeS v (or_introl Hg)), (HagS v (or_introl (or_introl Hg))) in H1.
        rewrite (HeL v Hg), (HagL v (or_introl Hg)) in H3. auto.
      * destruct (Hv v Hin) as (c & x & p & H1 & H2 & H3 & H4).
        exists c, x, p. splits; [exact H1 | | exact H3 |].
        -- apply HIS'. right. exists v. auto.
        -- rewrite (HIL' p (get_cell stL p)); [exact H4|]. right. left. exists v. auto.
    + exact Hb.
    + exact Hi.
    + destruct Hp as (cp & Hlkp & Hnthp & Hdist). destruct Hp' as (cp' & Hlkp' & Hnthp' & _).
      rewrite (HeS pv (or_intror eq_refl)), (HagS pv (or_intror eq_refl)), Hlkp in Hlkp'. inversion Hlkp'; subst cp'.
      exists cp. auto.
    + exact Hpb.
    + exact HpE.
    + exact HpG'.
    + destruct Hwf as [HV Hinj Hal]. constructor; [exact HV | exact Hinj |]. intros x p Hx. specialize (Hal x p Hx). lia.
    + exact Ht'.
    + exact Hli'.
    + assert (HCS' : forall ci cl, nth_error (SyltSem.clos st) ci = Some cl -> nth_error (SyltSem.clos st') ci = Some cl)
        by (intros ci cl H; apply (wi_CS _ _ _ _ _ _ _ _ _ _ _ HW' ci cl), HwCS; exact H).
      assert (HCL' : forall fid c0, pget fid (s_clos stL) = Some c0 -> (fid < s_nclo stL)%positive ->
                                    pget fid (s_clos stL') = Some c0 /\ (fid < s_nclo stL')%positive)
        by (intros fid c0 H H'; apply (wi_CL _ _ _ _ _ _ _ _ _ _ _ HW' fid c0), HwCL; split; assumption).
      pose proof HW as HW0.
      destruct HW as [H1 H2 HCS HCL Hav H3 H4 H5 H6 H7 H8 H9 H10 H11 H12 H13]. constructor.
      * intros c x Hc. apply HIS'. left. exact Hc.
      * intros p lv Hq. apply (wi_IL _ _ _ _ _ _ _ _ _ _ _ HW' p lv), HwL. left. exact Hq.
      * intros ci cl Hc. apply HCS'. apply HCS. exact Hc.
      * intros fid c0 Hc. destruct (HCL fid c0 Hc) as [A B]. apply HCL'; assumption.
      * exact Hav.
      * intros d0 Hd0. destruct (H3 d0 Hd0) as (A & B & C & D & F).
        destruct (HCL' _ _ B D) as [B' D']. splits; [apply HCS'; exact A | exact B' | | exact D' | apply nth_error_Some; rewrite (HCS' _ _ A); discriminate].
        intros x p Hx. specialize (C x p Hx). lia.
      * exact H4.
      * exact H5.
      * exact H6.
      * exact H7.
      * exact H8.
      * exact H9.
      * exact H10.
      * exact H11.
      * exact H12.
      * exact H13.
  - split; [exact Hnc|]. intros t p Hbt Hq. apply HIL'. right. right. exists t. auto.
Qed.

(* ------------------------------------------------------------------ a call, by the simulation of the body *)

Lemma map_fst_combine {A B} : forall (l : list A) (l' : list B), length l = length l' -> map fst (combine l l') = l.
Proof. induction l as [|a l IH]; intros [|b l'] H; cbn in *; try reflexivity; try lia. rewrite IH by lia. reflexivity. Qed.

Lemma P_apply_succ n : (forall fl' W', SimExpr.P_fb pv sv bound u fl' W' n) -> P_apply pv sv bound u fl W (S n).
Proof.
  intros IHfb d avs lvs sc e st E stL r st' Hrel Hd Hvis Hvs Hap Hint.
  pose proof (r_world _ _ _ _ _ _ _ _ _ _ _ Hrel) as HW.
  destruct (wi_fun _ _ _ _ _ _ _ _ _ _ _ HW d Hd) as (Hst & _ & _).
  destruct (wi_clos _ _ _ _ _ _ _ _ _ _ _ HW d Hd) as (Hclo & HcloL & _).
  cbn [SyltSem.apply] in Hap. unfold SyltSem.bind at 1 in Hap. unfold SyltSem.get_clos in Hap. rewrite Hclo in Hap.
  cbn [SyltSem.cl_params SyltSem.cl_body SyltSem.cl_env] in Hap.
  destruct (Nat.eqb (length (fd_params d)) (length avs)) eqn:Hlen.
  2: { inversion Hap; subst. destruct Hint. }
  apply Nat.eqb_eq in Hlen.
  (* the world and the environment of the callee *)
  pose proof (callee_rel d sc e st E stL Hrel Hd Hvis) as Hrel0.
  set (W' := callee_world d sc e st E stL) in *.
  destruct (bind_params pv sv bound u (fd_fl d) W' (fd_params d) avs lvs (fd_sc d) (fd_ef d) st (fd_Ef d) stL Hrel0 Hvs Hlen
                        (fs_params _ _ _ _ _ Hst))
    as (cs & st1 & E1 & stL1 & Hm & Hbl & Hrel1 & Hlc & Hn1 & Ht1 & Hu1).
  unfold SyltSem.bind at 1 in Hap. rewrite Hm in Hap.
  destruct (params_ok_inv pv sv bound (fd_fl d) _ _ (fs_params _ _ _ _ _ Hst)) as [Hnd Hpall].
  assert (Hmf : map fst (combine (fd_params d) cs) = fd_params d) by (apply map_fst_combine; lia).
  set (ec := (combine (fd_params d) cs ++ fd_ef d)%list) in *.
  assert (Hlk : forall v, SyltSem.lookup ec v = SyltSem.lookup (rev (combine (fd_params d) cs) ++ fd_ef d) v)
    by (intros v; unfold ec; symmetry; apply lookup_rev_nodup; rewrite Hmf; exact Hnd).
  pose proof (rel_lookup_ext pv sv bound u (fd_fl d) W' _ _ ec _ _ _ Hlk Hrel1) as Hrel1'.
  assert (Hlkf : forall g, In g (fd_sc d) \/ g = pv -> SyltSem.lookup ec g = SyltSem.lookup (fd_ef d) g).
  { intros g Hg. unfold ec. apply lookup_app_notin. rewrite Hmf. intros Hin. destruct (Hpall g Hin) as (Hn & _ & Hnp & _).
    destruct Hg as [Hg|Hg]; [exact (Hn Hg) | exact (Hnp Hg)]. }
  destruct (SyltSem.block_value n ec (fd_body d) st1) as [rb st2] eqn:Hbv.
  assert (Hintb : interesting rb /\ match rb with SyltSem.RAbrupt SyltSem.CBreak | SyltSem.RAbrupt SyltSem.CContinue => False | _ => True end).
  { destruct rb as [v|o|[| |v]].
    - split; exact I.
    - inversion Hap; subst. split; [exact Hint | exact I].
    - inversion Hap; subst. destruct Hint.
    - inversion Hap; subst. destruct Hint.
    - split; exact I. }
  destruct Hintb as [Hintb Hnab].
  assert (Hctx : ctx_ok bound (fd_lut d) [] E1 (fd_c d) (fd_c' d)).
  { constructor; [apply (fs_bound _ _ _ _ _ Hst) | intros t Ht; apply (fs_lut _ _ _ _ _ Hst); exact Ht | intros t [] |].
    intros t Ht. rewrite Ht1 by (pose proof (fs_bound _ _ _ _ _ Hst); lia). apply (fs_Efree _ _ _ _ _ Hst). exact Ht. }
  destruct (IHfb (fd_fl d) W' (fd_g d) (fd_k d) (fd_body d) (fd_ctx d) (fd_c d) (fd_code d) (fd_c' d) ec st1 rb st2 _ (fd_scout d) (fd_lut d) E1 stL1 []
                 Hbv (fs_lower _ _ _ _ _ Hst) (fs_frag _ _ _ _ _ Hst) (fs_ucov _ _ _ _ _ Hst) Hctx Hrel1' Hintb)
    as (b & l' & Hs & Hpost).
  assert (Hb : b = fbody u d) by (unfold fbody; apply (Emits_block_fun u _ _ _ l'); apply Hs).
  pose proof Hs as (_ & _ & _ & Hnl). subst b.
  assert (Hbl' : bind_locals (c_env (mkClosure (fd_Ef d) (map fmt_var (fd_params d)) (fbody u d)))
                             (c_params (mkClosure (fd_Ef d) (map fmt_var (fd_params d)) (fbody u d))) lvs stL = (E1, stL1)) by exact Hbl.
  destruct rb as [v|o|[| |v]]; [| |destruct Hnab|destruct Hnab|].
  3: { (* an early return *)
    inversion Hap; subst r st'. clear Hap.
    destruct Hpost as (fl2 & W2 & sc2 & e2 & E2 & E' & stL' & lv & Hx & Hvl & Hrel2 & Hws & Hse & Hinc2 & Hk & Hnc2).
    assert (Hback : SimDefs.rel pv sv bound u fl W sc e st2 E stL' /\ call_frame bound E stL stL').
    { apply (caller_back d sc e st E stL fl2 W2 sc2 e2 E2 st2 stL' Hrel Hd Hvis Hrel2 Hws).
      - intros g Hg. apply Hinc2. apply in_or_app. right. exact Hg.
      - intros g Hg. rewrite <- (Hlkf g Hg). apply Hse. destruct Hg as [Hg|Hg]; [left; apply in_or_app; right; exact Hg | right; left; exact Hg].
      - intros g Hg. rewrite (Hk g (in_or_app _ _ _ (or_intror Hg))). apply Hu1. intros Hin. destruct (Hpall g Hin) as (Hn & _). exact (Hn Hg).
      - lia. }
    destruct Hback as [Hrelc Hcf].
    exists [lv], stL'. splits; [| exact Hvl | exact Hrelc | exact Hcf].
    eapply (Call_closure (fd_fid d) _ lvs stL E1 stL1 E' [lv] stL' HcloL Hbl').
    cbn [c_body]. apply ExecBlock_of_ExecS; [exact Hx | exact Hnl | intros []]. }
  - (* the body ends: back in the caller *)
    inversion Hap; subst r st'. clear Hap.
    destruct Hpost as (fl2 & W2 & E' & sg & stL' & sc2 & e2 & Hx & Hsg & Hrel2 & Hws & Hse & Hinc2 & Hk & Hnc2).
    assert (Hback : SimDefs.rel pv sv bound u fl W sc e st2 E stL' /\ call_frame bound E stL stL').
    { apply (caller_back d sc e st E stL fl2 W2 sc2 e2 E' st2 stL' Hrel Hd Hvis Hrel2 Hws).
      - intros g Hg. apply Hinc2. apply in_or_app. right. exact Hg.
      - intros g Hg. rewrite <- (Hlkf g Hg). apply Hse. destruct Hg as [Hg|Hg]; [left; apply in_or_app; right; exact Hg | right; left; exact Hg].
      - intros g Hg. rewrite (Hk g (in_or_app _ _ _ (or_intror Hg))). apply Hu1. intros Hin. destruct (Hpall g Hin) as (Hn & _). exact (Hn Hg).
      - lia. }
    destruct Hback as [Hrelc Hcf].
    destruct Hsg as [[-> ->]|(lv & -> & Hvl)].
    + exists [], stL'. splits; [|constructor | exact Hrelc | exact Hcf].
      eapply (Call_closure_normal (fd_fid d) _ lvs stL E1 stL1 E' stL' HcloL Hbl').
      cbn [c_body]. apply ExecBlock_of_ExecS; [exact Hx | exact Hnl | intros []].
    + exists [lv], stL'. splits; [| exact Hvl | exact Hrelc | exact Hcf].
      eapply (Call_closure (fd_fid d) _ lvs stL E1 stL1 E' [lv] stL' HcloL Hbl').
      cbn [c_body]. apply ExecBlock_of_ExecS; [exact Hx | exact Hnl | intros []].
  - inversion Hap; subst r st'. clear Hap.
    destruct Hpost as (ev & stL' & Hx & Htr). exists ev, stL'. split; [|exact Htr].
    eapply (Call_closure_err (fd_fid d) _ lvs stL E1 stL1 ev stL' HcloL Hbl').
    cbn [c_body]. apply ExecBlock_of_ExecS; [exact Hx | exact Hnl | intros []].
Qed.

End Call.

(* ------------------------------------------------------------------ all simulations together *)

Section All.
Variable pv : N.
Variable sv : N.
Variable bound : N.
Variable u : counts.

Definition P_all_at (n : nat) (fl : list (N * nat)) (W : world) : Prop :=
  P_eval pv sv bound u fl W n /\ P_exec pv sv bound u fl W n /\ P_blk pv sv bound u fl W n /\
  P_bv pv sv bound u fl W n /\ P_fb pv sv bound u fl W n /\ P_apply pv sv bound u fl W n.

Lemma P_apply_zero fl W : P_apply pv sv bound u fl W O.
Proof.
  intros d avs lvs sc e st E stL r st' _ _ _ _ Hap Hint. cbn in Hap. inversion Hap; subst. destruct Hint.
Qed.

(* by induction on the fuel of the reference interpreter, for every set of callable functions and every world:
   a call runs the body of the callee, in the world of the callee, with less fuel; a statement list runs in worlds
   that grow with the local functions it defines *)
Theorem P_all n : forall fl W, P_all_at n fl W.
Proof.
  induction n as [|n IH]; intros fl W.
  - split; [apply P_eval_zero|]. split; [apply P_exec_zero|]. split; [apply P_blk_zero|].
    split; [apply P_bv_zero|]. split; [apply P_fb_zero | apply P_apply_zero].
  - destruct (IH fl W) as (IHe & IHs & IHss & IHb & IHf & IHa).
    split; [apply P_eval_succ; assumption|]. split; [apply P_exec_succ; assumption|].
    split; [apply P_blk_succ; intros fl' W'; apply (IH fl' W')|].
    split; [apply P_bv_succ; [intros fl' W'; apply (IH fl' W') | assumption]|].
    split; [apply P_fb_succ; intros fl' W'; apply (IH fl' W')|].
    apply P_apply_succ. intros fl' W'. apply (IH fl' W').
Qed.

End All.
