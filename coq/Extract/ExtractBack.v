(* Extraction of the backend model.  Directives: only those of ExtrOcamlBasic and ExtrOcamlString. *)
From Coq Require Import Extraction ExtrOcamlBasic ExtrOcamlString.
From Sylt Require Import Syntax.Resolved Back.IR Back.Emit Back.Scope Back.RScope Back.CFlow.
Extraction Language OCaml.
Extraction "backmodel.ml" Emit.backend IR.lower Emit.count_usages Scope.ir_scoped Scope.first_unscoped RScope.rs_resolved
  CFlow.ir_cf_ok CFlow.first_cf_bad CFlow.loops_ok.
