"""Parser for Rust `{:?}` (derive(Debug)) output -> Python values.

  Name { a: v, b: w }   -> {"_": "Name", "a": v, "b": w}
  Name(v, w)            -> {"_": "Name", "args": [v, w]}
  Name                  -> "Name"            (also true/false/None/void/...)
  [a, b] / (a, b)       -> [a, b]
  {k: v, ...}           -> {"_": "map", "items": [[k, v], ...]}   (sorted by repr of key: HashMap order is random)
  {a, b}                -> {"_": "set", "items": [...]} (sorted)
  "str"                 -> ("str", value)  as a 2-tuple so that strings and bare names differ
  numbers               -> int / float
"""
import json


class F(float):
    """a float that remembers how Rust printed it"""
    def __new__(cls, text):
        o = float.__new__(cls, text)
        o.text = text
        return o


class P:
    def __init__(self, s):
        self.s = s
        self.i = 0

    def ws(self):
        while self.i < len(self.s) and self.s[self.i] in " \n\t":
            self.i += 1

    def peek(self):
        self.ws()
        return self.s[self.i] if self.i < len(self.s) else ""

    def expect(self, c):
        self.ws()
        assert self.s[self.i] == c, "expected %r at %d: %r" % (c, self.i, self.s[self.i:self.i + 40])
        self.i += 1

    def value(self):
        c = self.peek()
        if c == '"':
            return self.string()
        if c == "[":
            return self.seq("[", "]")
        if c == "(":
            return self.seq("(", ")")
        if c == "{":
            return self.mapset()
        if c == "'":
            j = self.s.index("'", self.i + 1)
            if self.s[self.i + 1] == "\\":
                j = self.s.index("'", self.i + 3)
            v = self.s[self.i + 1:j]
            self.i = j + 1
            return ("char", v)
        if c.isdigit() or c == "-":
            return self.number()
        if c == "*":   # sylt_common::Type::Unknown prints as `*`
            self.i += 1
            return "*"
        return self.named()

    def string(self):
        assert self.s[self.i] == '"'
        j = self.i + 1
        out = []
        while self.s[j] != '"':
            if self.s[j] == "\\":
                j += 1
                e = self.s[j]
                if e == "u":
                    k = self.s.index("}", j)
                    out.append(chr(int(self.s[j + 2:k], 16)))
                    j = k
                else:
                    out.append({"n": "\n", "t": "\t", "r": "\r", "0": "\0", "\\": "\\", '"': '"', "'": "'"}[e])
            else:
                out.append(self.s[j])
            j += 1
        self.i = j + 1
        return ("str", "".join(out))

    def number(self):
        j = self.i
        if self.s[j] == "-":
            j += 1
        if self.s.startswith("inf", j):
            t = self.s[self.i:j + 3]
            self.i = j + 3
            return F(t)
        while j < len(self.s) and (self.s[j].isalnum() or self.s[j] in ".+-_") and not (self.s[j] in "+-" and self.s[j - 1] not in "eE"):
            j += 1
        t = self.s[self.i:j]
        self.i = j
        try:
            return int(t)
        except ValueError:
            return F(t)

    def seq(self, o, c):
        self.expect(o)
        out = []
        while self.peek() != c:
            out.append(self.value())
            if self.peek() == ",":
                self.i += 1
        self.expect(c)
        return out

    def mapset(self):
        self.expect("{")
        items = []
        is_map = None
        while self.peek() != "}":
            k = self.value()
            if self.peek() == ":":
                self.i += 1
                v = self.value()
                items.append([k, v])
                is_map = True
            else:
                items.append(k)
                is_map = False
            if self.peek() == ",":
                self.i += 1
        self.expect("}")
        items.sort(key=lambda x: json.dumps(x, sort_keys=True, default=str))
        return {"_": "map" if is_map or is_map is None else "set", "items": items}

    def named(self):
        self.ws()
        j = self.i
        while j < len(self.s) and (self.s[j].isalnum() or self.s[j] in "_:"):
            j += 1
        name = self.s[self.i:j]
        assert name, "unexpected %r at %d" % (self.s[self.i:self.i + 30], self.i)
        self.i = j
        if name in ("NaN", "inf"):
            return F(name)
        c = self.peek()
        if c == "{":
            self.expect("{")
            d = {"_": name}
            while self.peek() != "}":
                self.ws()
                k = self.i
                while self.s[k].isalnum() or self.s[k] == "_":
                    k += 1
                key = self.s[self.i:k]
                self.i = k
                self.expect(":")
                d[key] = self.value()
                if self.peek() == ",":
                    self.i += 1
            self.expect("}")
            return d
        if c == "(":
            return {"_": name, "args": self.seq("(", ")")}
        return name


def parse(s):
    p = P(s)
    v = p.value()
    p.ws()
    assert p.i == len(p.s), "trailing input at %d" % p.i
    return v


def strip_spans(v):
    """Remove Span values and `span`/`definition` fields recursively."""
    if isinstance(v, dict):
        if v.get("_") == "Span":
            return None
        return {k: strip_spans(x) for k, x in v.items() if k not in ("span", "definition")}
    if isinstance(v, list):
        return [strip_spans(x) for x in v if not (isinstance(x, dict) and x.get("_") == "Span")]
    return v
