-- expect-wf: bad unfinished long comment
--[[ never closed
print(1)
