(* C10 -- function activations and closures do not interfere: the static half.
   Pinned statements only. *)
From Coq Require Import String List NArith ZArith Bool.
From Sylt Require Import Syntax.Resolved Back.IR Back.Emit Back.Scope Back.RScope Back.ScopeProofs.
From Sylt Require Lua.LuaAst Lua.LuaMap Lua.LuaCore Lua.LuaProofs.
Import ListNotations.

(* For every resolved program (any fuel) that is lexically scoped at the level of the resolved AST
   (RScope.rs_resolved: every variable is read or assigned only where a definition, parameter, case
   binding or global of the enclosing blocks makes it visible, in initialisation order) the flat IR
   produced by the lowering satisfies the scoping discipline of Back/Scope.v: every variable -- user
   variable or compiler temporary -- that an instruction reads or assigns was introduced before, in an
   enclosing block of the emitted Lua, by an instruction the generator turns into a `local`, a
   parameter or a top-level external; assignment targets are real locals, never inlinable
   temporaries; blocks are balanced.  Hence no temporary is a Lua global: each activation (and each
   loop iteration) gets its own. *)
Theorem C10_lower_scoped : forall (fuel : nat) (r : resolved) (code : list ir),
  rs_resolved fuel r = true -> lower fuel r = Ok code -> ir_scoped code = true.
Proof. exact lower_scoped. Qed.

(* The dynamic half rests on the Lua semantics: in the interpreter model every successful execution of a
   `local x1..xk = es` statement binds each xi to a cell that was NOT allocated before the statement
   (and the store only grows), so every activation of a function and every iteration of a loop gets
   its own variables and temporaries, and closures created afterwards capture those cells. *)
Theorem C10_local_fresh : forall n e xs es st e' sg st',
  LuaCore.exec n e (LuaAst.SLocal xs es) st = LuaCore.ROk (e', sg) st' ->
  sg = LuaCore.SigNormal /\ LuaProofs.st_le st st' /\
  forall x, In x xs -> exists c, LuaMap.sget x e' = Some c /\ ~ LuaProofs.allocated st c /\ LuaProofs.allocated st' c.
Proof. exact LuaProofs.local_fresh. Qed.

(* Non-vacuity of the checker: a chunk whose if-expression result is assigned without having been
   introduced is rejected, the same chunk with the introduction is accepted. *)
Example C10_checker_rejects_global_temp :
  ir_scoped [IBool 5 true; IIf 5; IInt 6 10%Z; IAssign 7 6; IEnd]%N = false.
Proof. vm_compute. reflexivity. Qed.
Example C10_checker_accepts_local_temp :
  ir_scoped [IDefine 7; IBool 5 true; IIf 5; IInt 6 10%Z; IAssign 7 6; IEnd]%N = true.
Proof. vm_compute. reflexivity. Qed.

(* Non-vacuity of the theorem: a recursive function holding an if-expression across the recursive
   call satisfies the hypothesis and lowers successfully. *)
Definition sp0 := mkSpan 0 1 1 1 1.
Definition ex_prog : resolved :=
  mkResolved
    [mkVar 0 "f" sp0 true Const; mkVar 1 "start" sp0 true Const; mkVar 2 "n" sp0 false Const]
    [SDefinition "f" 0 Const (TImplied sp0)
       (EFunction "lambda" [("n"%string, 2%N, sp0, TImplied sp0)] (TImplied sp0)
          [SStatementExpression
             (EBinOp Add
                (EIf [IfBranch (Some (EBinOp Greater (ERead 2 sp0) (EInt 1 sp0) sp0))
                               [SStatementExpression (EInt 10 sp0) sp0] sp0;
                      IfBranch None [SStatementExpression (EInt 20 sp0) sp0] sp0] sp0)
                (ECall (ERead 0 sp0) [EBinOp Sub (ERead 2 sp0) (EInt 1 sp0) sp0] sp0) sp0) sp0]
          false sp0) sp0;
     SDefinition "start" 1 Const (TImplied sp0)
       (EFunction "lambda" [] (TImplied sp0)
          [SStatementExpression (ECall (ERead 0 sp0) [EInt 3 sp0] sp0) sp0] false sp0) sp0].
Example C10_example_hypotheses :
  rs_resolved 20 ex_prog = true /\ (exists code, lower 20 ex_prog = Ok code).
Proof. split; [vm_compute; reflexivity|eexists; vm_compute; reflexivity]. Qed.

Print Assumptions C10_lower_scoped.
Print Assumptions C10_local_fresh.

(* ---- source tie: the hand-written model behind these theorems mirrors the files below; the digests of their
   functions regenerated from /repo on this run equal the reviewed ones (coq/Doc/DocSrcDigest.v).  Any edit of
   such a function breaks this obligation: the differential tie and the oracle then decide (tools/check.py). *)
From Sylt Require Doc.SrcDigest Doc.DocSrcDigest Gen.GenSrcDigest.
Theorem C10_model_sources_reviewed :
  Sylt.Doc.SrcDigest.sources_reviewed ["sylt-compiler/src/intermediate.rs"%string; "sylt-compiler/src/lua.rs"%string]
    Sylt.Doc.DocSrcDigest.doc_src_digests Sylt.Gen.GenSrcDigest.src_digests = true.
Proof. vm_compute. reflexivity. Qed.
Print Assumptions C10_model_sources_reviewed.
