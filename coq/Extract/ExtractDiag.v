(* Extraction of the C15 models.  Directives: only those of ExtrOcamlBasic and ExtrOcamlString. *)
From Coq Require Import Extraction ExtrOcamlBasic ExtrOcamlString.
From Sylt Require Import Diag.Conflict Diag.FileIds.
Extraction Language OCaml.
Extraction "diagmodel.ml" Conflict.conflict_lines FileIds.tree_state FileIds.namespace_to_file.
