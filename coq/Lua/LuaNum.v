(* Numbers of LuaCore: exact rationals kept in lowest terms, with a fast path for integers, and the
   conversion number -> string of Lua 5.1 / LuaJIT (`%.14g`).  Definitions only.

   OUT OF SCOPE (documented deviation from IEEE doubles): rounding, overflow, infinities, NaN and
   negative zero.  Operations whose IEEE result would be inf/NaN are reported by LuaCore as
   `Unsupported`.  On integers below 2^53 and on the dyadic/decimal fractions that occur in the
   test programs the results coincide with doubles as long as no rounding happens. *)
From Coq Require Import String Ascii List NArith ZArith QArith Bool.
From Sylt Require Import Lua.LuaLex.
Local Open Scope string_scope.

(* ---- decimal rendering ---- *)

Fixpoint n_to_dec_go (fuel : nat) (n : N) (acc : string) : string :=
  match fuel with
  | O => acc
  | S f =>
      let (q, r) := N.div_eucl n 10 in
      let acc' := String (ascii_of_N (48 + r)) acc in
      if (q =? 0)%N then acc' else n_to_dec_go f q acc'
  end.

(* a number has no more decimal digits than binary digits *)
Definition n_to_dec (n : N) : string := n_to_dec_go (S (N.to_nat (N.size n))) n "".

Definition z_to_dec (z : Z) : string :=
  match z with
  | Z0 => "0"
  | Zpos p => n_to_dec (Npos p)
  | Zneg p => "-" ++ n_to_dec (Npos p)
  end.

(* ---- arithmetic on normalised rationals ---- *)

Definition q_int (z : Z) : Q := Qmake z 1.
Definition q_is_int (q : Q) : bool := Pos.eqb (Qden q) 1.
Definition q_both_int (a b : Q) : bool := q_is_int a && q_is_int b.

Definition q_eqb (a b : Q) : bool := Z.eqb (Qnum a) (Qnum b) && Pos.eqb (Qden a) (Qden b).
Definition q_ltb (a b : Q) : bool :=
  if q_both_int a b then (Qnum a <? Qnum b)%Z
  else (Qnum a * Zpos (Qden b) <? Qnum b * Zpos (Qden a))%Z.
Definition q_leb (a b : Q) : bool :=
  if q_both_int a b then (Qnum a <=? Qnum b)%Z
  else (Qnum a * Zpos (Qden b) <=? Qnum b * Zpos (Qden a))%Z.
Definition q_is_zero (a : Q) : bool := Z.eqb (Qnum a) 0.

Definition q_add (a b : Q) : Q := if q_both_int a b then q_int (Qnum a + Qnum b) else Qred (Qplus a b).
Definition q_sub (a b : Q) : Q := if q_both_int a b then q_int (Qnum a - Qnum b) else Qred (Qminus a b).
Definition q_mul (a b : Q) : Q := if q_both_int a b then q_int (Qnum a * Qnum b) else Qred (Qmult a b).
Definition q_neg (a : Q) : Q := Qmake (- Qnum a) (Qden a).
Definition q_abs (a : Q) : Q := Qmake (Z.abs (Qnum a)) (Qden a).
(* b must not be zero *)
Definition q_div (a b : Q) : Q := Qred (Qdiv a b).
Definition q_floor (a : Q) : Z := Z.div (Qnum a) (Zpos (Qden a)).
(* towards zero *)
Definition q_trunc (a : Q) : Z := Z.quot (Qnum a) (Zpos (Qden a)).
Definition q_ceil (a : Q) : Z := (- q_floor (q_neg a))%Z.
(* Lua 5.1:  a % b = a - floor(a/b)*b ;  b must not be zero *)
Definition q_mod (a b : Q) : Q :=
  if q_both_int a b then q_int (Z.modulo (Qnum a) (Qnum b))
  else q_sub a (q_mul (q_int (q_floor (q_div a b))) b).
(* C fmod: a - trunc(a/b)*b ;  b must not be zero *)
Definition q_fmod (a b : Q) : Q := q_sub a (q_mul (q_int (q_trunc (q_div a b))) b).
(* integer exponent; a must not be zero when the exponent is negative *)
Definition q_pow (a : Q) (n : Z) : Q := Qred (Qpower a n).

(* Square root.  Exact on squares of rationals; otherwise the floor approximation to 20 decimal places
   (an assumption standing in for the correctly rounded double). *)
Definition q_sqrt (a : Q) : Q :=
  let n := Qnum a in
  let d := Zpos (Qden a) in
  let rn := Z.sqrt n in
  let rd := Z.sqrt d in
  if ((rn * rn =? n) && (rd * rd =? d))%Z then Qred (Qmake rn (Z.to_pos rd))
  else
    let scale := pow10 40 in
    Qred (Qmake (Z.sqrt (n * scale / d)) (Z.to_pos (pow10 20))).

(* ---- %.14g ---- *)

Fixpoint zeros (n : nat) : string :=
  match n with O => "" | S n' => String "0"%char (zeros n') end.

Fixpoint drop_zeros (s : string) : string :=      (* leading zeros of a reversed digit string *)
  match s with
  | String "0"%char s' => drop_zeros s'
  | _ => s
  end.

Definition strip_trailing_zeros (s : string) : string := srev (drop_zeros (srev s)).

Definition sig_digits : N := 14%N.

(* positive rational a = n/d: decimal exponent e with 10^e <= a < 10^(e+1) *)
Definition dec_exponent (n d : Z) : Z :=
  let e0 := (Z.of_nat (String.length (z_to_dec n)) - Z.of_nat (String.length (z_to_dec d)))%Z in
  let ge :=
    if (0 <=? e0)%Z then (pow10 (Z.to_N e0) * d <=? n)%Z
    else (d <=? n * pow10 (Z.to_N (- e0)))%Z in
  if ge then e0 else (e0 - 1)%Z.

(* round(n/d * 10^k) to nearest, ties to even *)
Definition round_scaled (n d : Z) (k : Z) : Z :=
  let num := if (0 <=? k)%Z then (n * pow10 (Z.to_N k))%Z else n in
  let den := if (0 <=? k)%Z then d else (d * pow10 (Z.to_N (- k)))%Z in
  let m := (num / den)%Z in
  let r := (num mod den)%Z in
  match (2 * r ?= den)%Z with
  | Gt => (m + 1)%Z
  | Eq => if Z.even m then m else (m + 1)%Z
  | Lt => m
  end.

Definition exp_text (e : Z) : string :=
  let a := z_to_dec (Z.abs e) in
  (if (e <? 0)%Z then "-" else "+") ++ (if (Z.abs e <? 10)%Z then "0" ++ a else a).

(* digits: the significant digits without trailing zeros, e: decimal exponent of the first one *)
Definition layout_g (digits : string) (e : Z) : string :=
  if ((e <? -4) || (Z.of_N sig_digits <=? e))%Z then
    match digits with
    | String c EmptyString => String c ("e" ++ exp_text e)
    | String c rest => String c ("." ++ rest ++ "e" ++ exp_text e)
    | EmptyString => "0"
    end
  else if (0 <=? e)%Z then
    let ip := S (Z.to_nat e) in
    let len := String.length digits in
    if Nat.leb len ip then digits ++ zeros (ip - len)
    else substring 0 ip digits ++ "." ++ substring ip (len - ip) digits
  else "0." ++ zeros (Z.to_nat (- e - 1)) ++ digits.

Definition fmt_g14 (q : Q) : string :=
  let n := Qnum q in
  let d := Zpos (Qden q) in
  if (n =? 0)%Z then "0"
  else if q_is_int q && (Z.abs n <? pow10 14)%Z then z_to_dec n
  else
    let a := Z.abs n in
    let e := dec_exponent a d in
    let m := round_scaled a d (Z.of_N sig_digits - 1 - e) in
    let '(m, e) := if (m =? pow10 sig_digits)%Z then (pow10 (sig_digits - 1), (e + 1)%Z) else (m, e) in
    (if (n <? 0)%Z then "-" else "") ++ layout_g (strip_trailing_zeros (z_to_dec m)) e.


(* ---- ADDITIVE: "%.<sd>g" for any number of significant digits (fmt_g14 = fmt_g 14) ---- *)
Definition layout_gn (sd : N) (digits : string) (e : Z) : string :=
  if ((e <? -4) || (Z.of_N sd <=? e))%Z then
    match digits with
    | String c EmptyString => String c ("e" ++ exp_text e)
    | String c rest => String c ("." ++ rest ++ "e" ++ exp_text e)
    | EmptyString => "0"
    end
  else if (0 <=? e)%Z then
    let ip := S (Z.to_nat e) in
    let len := String.length digits in
    if Nat.leb len ip then digits ++ zeros (ip - len)
    else substring 0 ip digits ++ "." ++ substring ip (len - ip) digits
  else "0." ++ zeros (Z.to_nat (- e - 1)) ++ digits.

Definition fmt_g (sd : N) (q : Q) : string :=
  let n := Qnum q in
  let d := Zpos (Qden q) in
  if (n =? 0)%Z then "0"
  else if q_is_int q && (Z.abs n <? pow10 sd)%Z then z_to_dec n
  else
    let a := Z.abs n in
    let e := dec_exponent a d in
    let m := round_scaled a d (Z.of_N sd - 1 - e) in
    let '(m, e) := if (m =? pow10 sd)%Z then (pow10 (sd - 1), (e + 1)%Z) else (m, e) in
    (if (n <? 0)%Z then "-" else "") ++ layout_gn sd (strip_trailing_zeros (z_to_dec m)) e.

(* ---- Lua 5.3: integer and float subtypes ---- *)

Fixpoint looks_like_int (s : string) : bool :=
  match s with
  | EmptyString => true
  | String c s' => (is_digit c || Ascii.eqb c "-"%char) && looks_like_int s'
  end.

(* lua_Number2str + the ".0" that tostringbuff adds when the text looks like an integer *)
Definition fmt_float53 (q : Q) : string :=
  let s := fmt_g14 q in if looks_like_int s then s ++ ".0" else s.

(* number -> string.  d53: Lua 5.3 dialect; fl: float subtype (always false in the LuaJIT dialect, where
   every number prints with %.14g).  64-bit wrap-around of integers is out of scope. *)
Definition fmt_num (d53 fl : bool) (q : Q) : string :=
  if d53 then (if fl then fmt_float53 q else z_to_dec (Qnum q)) else fmt_g14 q.
