-- expect-wf: ok
-- expect: deep	deep
-- expect: chained
-- expect: 3	s	long	q	0
-- expect: 20	true	5
-- expect: a
-- expect: 17
-- expect: 3
-- expect: a	b	2	2
-- expect: none	none	none
-- expect: 3
-- expect:
-- expect: function	nil	0
-- expect: 3
local t = {a = {b = {["c d"] = {e = "deep"}}}}
print(t.a.b["c d"].e, t["a"].b["c d"]["e"])
local function mk() return {x = function() return function() return "chained" end end} end
print(mk().x()())
local function id(v) return v end
print(id{1, 2, 3}[3], id"s", id[[long]], id'q', #id{})
print(({10, 20})[2], ("abc") == "abc", (id)(5))
local s = "a" -- comment after code
print(s) -- another
local long = [[
first line
second]]
print(#long)
local u = {
  1,
  2;
  3,
}
print(#u)
local v = {[1] = "a", [2] = "b", n = 2,}
print(v[1], v[2], v.n, #v)
local function noargs() return "none" end
print(noargs(), noargs( ), (noargs)())
do local x = 1 ; local y = 2 ; print(x + y) end
if true then elseif false then else end
while false do end
for _ = 1, 0 do end
repeat until true
local function empty() end
print(empty())
print(type(empty), type(nil), #{empty(), empty()})
x1, x2 = 1, 2 print(x1 + x2)
