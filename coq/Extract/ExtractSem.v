(* Extraction of the Sylt reference interpreter.  Directives: only ExtrOcamlBasic and ExtrOcamlString. *)
From Coq Require Import Extraction ExtrOcamlBasic ExtrOcamlString.
From Sylt Require Import Syntax.Resolved Sem.SyltSem.
Extraction Language OCaml.
Extraction "semmodel.ml" SyltSem.run.
