(* C11 -- Top-level order is irrelevant; globals are initialised before use.
   Only pinned statements, `exact`, and Print Assumptions.  `gen_assign_target_deps` is the flag
   regenerated from dependency.rs on this run (does `statement_dependencies` count assignment targets). *)
From Coq Require Import String List NArith ZArith Bool Permutation.
Local Open Scope string_scope.
Local Open Scope N_scope.
Local Open Scope list_scope.
From Sylt Require Import Syntax.Resolved Dep.Deps Dep.Topo Dep.TopoProofs Dep.DepProofs Dep.DepsComplete Dep.InitSem Dep.InitSemProofs Dep.InitOrder Gen.GenResolve.
Import ListNotations.

Definition tgt := gen_assign_target_deps.

(* deps_complete.  Every variable a definition reads, calls or ASSIGNS at any depth (closure bodies
   included) is in its dependency set, except the variables of function definitions (a function may
   call itself).  TRUE for the variant that counts assignment targets, FALSE for the variant that
   ignores them; the theorem says which case the code is in on this run.  (Types are not listed:
   blobs and enums are moved in front of all values by the types-first sort, C11_types_first.) *)
Theorem C11_deps_complete :
  (tgt = true /\ forall s v, In v (uses_s s) -> In v (statement_dependencies tgt s) \/ In v (fdefs_s s))
  \/ (tgt = false /\ ~ forall s v, In v (uses_s s) -> In v (statement_dependencies tgt s) \/ In v (fdefs_s s)).
Proof. exact (deps_complete_dichotomy tgt). Qed.

(* the refutation witness for the variant that ignores targets: `f :: fn do g = 2 end` *)
Theorem C11_deps_complete_refuted :
  exists s v, In v (uses_s s) /\ ~ (In v (statement_dependencies false s) \/ In v (fdefs_s s)).
Proof. exact deps_witness_refutes. Qed.

(* topo_sound: a successful order is a permutation of the definitions (one statement per defined
   variable) and every statement comes after the definition of every variable in its dependency set *)
Theorem C11_topo_sound : forall (ss l : list stmt),
  NoDup (dvars ss) ->
  initialization_order tgt ss = OOk l ->
  Permutation (map key_of_stmt l) (dvars ss)
  /\ (forall s, In s l -> In s ss /\ defined_var s = Some (key_of_stmt s))
  /\ (forall l1 s l2 d, l = l1 ++ s :: l2 -> In d (statement_dependencies tgt s) -> In d (dvars ss) ->
                        exists s', In s' l1 /\ defined_var s' = Some d).
Proof. exact (topo_sound tgt). Qed.

(* topo_complete: a dependency cycle is reported iff the graph "g -> d when d is in the dependency set
   of the definition of g and d is itself defined at top level" has a cycle -- a function definition has
   no edge to itself, so a function may be recursive, but two functions that call each other ARE a
   cycle -- and the ordering never runs out of fuel. *)
Theorem C11_topo_complete : forall ss : list stmt,
  ((exists c, initialization_order tgt ss = OCycle c) <-> dep_cycle tgt ss)
  /\ initialization_order tgt ss <> OOutOfFuel.
Proof. exact (topo_complete tgt). Qed.

(* order_accept_perm: acceptance -- and in fact the whole result -- does not depend on the order of
   the input statements (the variables being fixed). *)
Theorem C11_order_accept_perm : forall l l' : list stmt,
  Permutation l l' -> NoDup (dvars l) ->
  ((exists o, init_order tgt l = OOk o) <-> (exists o, init_order tgt l' = OOk o)).
Proof. exact (order_accept_perm tgt). Qed.

Theorem C11_init_order_perm : forall l l' : list stmt,
  Permutation l l' -> NoDup (dvars l) -> init_order tgt l = init_order tgt l'.
Proof. exact (init_order_perm tgt). Qed.

(* ... and acceptance does not depend on the numbering of the variables either (permuting the SOURCE
   renumbers the globals): two dependency tables that are the same graph up to an injective renumbering pi
   are both accepted or both rejected.  What is NOT invariant is the order of the result: the DFS visits
   keys and dependencies in increasing variable id, i.e. independent definitions come out in source order. *)
Theorem C11_order_accept_iso : forall (A B : Type) (key_of : A -> N) (key_of' : B -> N)
    (t : table A) (t' : table B) (pi : N -> N),
  (forall x y, pi x = pi y -> x = y) ->
  (forall k deps a, tbl_get t k = Some (deps, a) -> key_of a = k) ->
  (forall k deps a, tbl_get t' k = Some (deps, a) -> key_of' a = k) ->
  (forall k deps a, tbl_get t k = Some (deps, a) ->
     exists deps' a', tbl_get t' (pi k) = Some (deps', a') /\
                      forall d, In d deps' <-> exists d0, In d0 deps /\ d = pi d0) ->
  (forall k', is_key t' k' -> exists k, is_key t k /\ k' = pi k) ->
  NoDup (map fst t) -> NoDup (map fst t') ->
  ((exists l, order t = OOk l) <-> (exists l, order t' = OOk l)).
Proof. exact @order_accept_iso. Qed.

(* INITIALISED BEFORE USE.
   (1) order_respects_uses: when assignment targets count as dependencies (tgt = true: the code after fix
       266f6e2), in the computed order every global that a definition reads, calls or assigns AT ANY DEPTH
       (closure bodies included) is defined by an EARLIER statement -- or is the variable of a function
       definition inside that statement (its own name: a function may call itself; nested local functions). *)
Theorem C11_order_respects_uses : forall ss l,
  tgt = true -> NoDup (dvars ss) -> initialization_order tgt ss = OOk l ->
  forall l1 s l2 d, l = l1 ++ s :: l2 -> In d (uses_s s) -> In d (dvars ss) ->
  (exists s', In s' l1 /\ defined_var s' = Some d) \/ In d (fdefs_s s).
Proof. exact (order_respects_uses_counted tgt). Qed.

(* (2) init_before_use: in the abstract semantics of initialisation Dep/InitSem.v (global reads and
       assignments, closures, application, let, pairs, conditionals; reading or assigning an uninitialised
       global is the outcome RUninit), running the definitions in ANY order with the property of (1) never
       reads or assigns an uninitialised global -- also not through a call of a function value obtained from
       another global, an argument, a returned closure, a component of a pair, or a global assigned during
       initialisation.  Dependencies need no closure under calls: a function value can only exist once the
       definition whose text contains its body has run, and that definition comes after everything the body
       mentions.  (The calculus abstracts Sylt; the link between `uses` there and `uses_s` here is by
       construction of the two definitions, not a theorem.) *)
Theorem C11_init_before_use : forall fuel defs s,
  store_ok s ->
  (forall l1 v e l2 g, defs = l1 ++ (v, e) :: l2 -> In g (uses e) ->
     inited s g \/ In g (map fst l1) \/ (g = v /\ is_lam e = true)) ->
  forall g, run fuel s defs <> RUninit g.
Proof. exact init_before_use. Qed.

Theorem C11_init_safe : forall fuel defs s,
  store_ok s -> ordered (inited s) defs -> forall g, run fuel s defs <> RUninit g.
Proof. exact init_safe. Qed.

(* non-vacuity: a function reaches its caller through a pair stored in a global; in dependency order the
   run completes, with the caller first it reads the uninitialised global 2 *)
Example C11_init_example :
  run_kind (run 10 (fun _ => None) ex_defs) = Some None
  /\ run_kind (run 10 (fun _ => None) ex_bad) = Some (Some 2)
  /\ ordered (inited (fun _ => None)) ex_defs.
Proof. exact init_example. Qed.

(* types before values: after the types-first sort no value statement precedes a blob/enum *)
Theorem C11_types_first : forall ss l1 s l2,
  types_first ss = l1 ++ s :: l2 -> is_type_stmt s = true -> forall x, In x l1 -> is_type_stmt x = true.
Proof. exact types_first_spec. Qed.

(* Non-vacuity: `a :: b   b :: 1` is ordered b, a; `a :: b   b :: a` is a cycle; two functions that
   call each other are a cycle; a function that calls itself is not. *)
Definition sp : span := span_zero 0.
Definition def (n : string) (v : N) (e : expr) : stmt := SDefinition n v Const (TImplied sp) e sp.
Definition fn_ (body : list stmt) : expr := EFunction "lambda" [] (TResolved BVoid sp) body false sp.
Definition call (v : N) : stmt := SStatementExpression (ECall (ERead v sp) [] sp) sp.

Example C11_example_order :
  initialization_order tgt [def "a" 0 (ERead 1 sp); def "b" 1 (EInt 1%Z sp)]
  = OOk [def "b" 1 (EInt 1%Z sp); def "a" 0 (ERead 1 sp)]
  /\ NoDup (dvars [def "a" 0 (ERead 1 sp); def "b" 1 (EInt 1%Z sp)]).
Proof. split; [vm_compute; reflexivity|repeat constructor; cbn; intuition discriminate]. Qed.

Example C11_example_cycle :
  initialization_order tgt [def "a" 0 (ERead 1 sp); def "b" 1 (ERead 0 sp)]
  = OCycle [def "b" 1 (ERead 0 sp); def "a" 0 (ERead 1 sp)].
Proof. vm_compute. reflexivity. Qed.

Example C11_example_mutual_recursion_is_a_cycle :
  exists c, initialization_order tgt [def "f" 0 (fn_ [call 1]); def "g" 1 (fn_ [call 0])] = OCycle c.
Proof. eexists. vm_compute. reflexivity. Qed.

Example C11_example_self_recursion_is_fine :
  initialization_order tgt [def "f" 0 (fn_ [call 0])] = OOk [def "f" 0 (fn_ [call 0])].
Proof. vm_compute. reflexivity. Qed.

Print Assumptions C11_deps_complete.
Print Assumptions C11_deps_complete_refuted.
Print Assumptions C11_topo_sound.
Print Assumptions C11_topo_complete.
Print Assumptions C11_order_accept_perm.
Print Assumptions C11_init_order_perm.
Print Assumptions C11_order_accept_iso.
Print Assumptions C11_order_respects_uses.
Print Assumptions C11_init_before_use.
Print Assumptions C11_init_safe.
Print Assumptions C11_types_first.

(* ---- source tie: the hand-written model behind these theorems mirrors the files below; the digests of their
   functions regenerated from /repo on this run equal the reviewed ones (coq/Doc/DocSrcDigest.v).  Any edit of
   such a function breaks this obligation: the differential tie and the oracle then decide (tools/check.py). *)
From Sylt Require Doc.SrcDigest Doc.DocSrcDigest Gen.GenSrcDigest.
Theorem C11_model_sources_reviewed :
  Sylt.Doc.SrcDigest.sources_reviewed ["sylt-compiler/src/dependency.rs"%string; "sylt-compiler/src/compiler.rs"%string; "sylt-compiler/src/intermediate.rs"%string]
    Sylt.Doc.DocSrcDigest.doc_src_digests Sylt.Gen.GenSrcDigest.src_digests = true.
Proof. vm_compute. reflexivity. Qed.
Print Assumptions C11_model_sources_reviewed.

(* ---- initialised before use, for RESOLVED programs (Dep/InitFragment.v) ----
   tr_e translates a fragment of Syntax/Resolved.v into the calculus of Dep/InitSem.v: top-level definitions whose
   values are built from booleans, numbers and nil (unit), variable reads, calls, function literals (parameters curried,
   the body ONE statement: `ret e`, an expression, or an assignment to a variable), pairs, two-armed if-expressions,
   binary / unary operators; anything else becomes unit.  The globals the translation mentions are among uses_e of the
   expression (C11_tr_uses), so:
   C11_fragment_init_before_use  the definitions of such a program (no function definitions nested inside the values:
                      flat_def; closed: every global mentioned is defined), run in the order `initialization_order`
                      computes when assignment targets count as dependencies (gen_assign_target_deps = true on this run),
                      never read or assign an uninitialised global. *)
From Sylt Require Import Dep.InitFragment.

Theorem C11_tr_uses : forall e ctx g, In g (uses (tr_e ctx e)) -> In g (uses_e e).
Proof. exact tr_uses_e. Qed.

Theorem C11_fragment_init_before_use : forall ss l fuel,
  NoDup (dvars ss) ->
  (forall s, In s ss -> flat_def s) ->
  initialization_order true ss = OOk l ->
  (forall s v e g, In s ss -> tr_def s = Some (v, e) -> In g (uses e) -> In g (dvars ss)) ->
  forall g, run fuel (fun _ => None) (tr_prog l) <> RUninit g.
Proof. exact fragment_init_before_use. Qed.

(* non-vacuity: `a :: f()   f :: fn -> bool do ret b end   b :: true`: the hypotheses hold, the computed order is
   b, f, a and runs to the end; the source order reads f uninitialised *)
Example C11_fragment_example :
  NoDup (dvars ex_ss)
  /\ (forall s, In s ex_ss -> flat_def s)
  /\ (forall s v e g, In s ex_ss -> tr_def s = Some (v, e) -> In g (uses e) -> In g (dvars ex_ss))
  /\ (exists l, initialization_order true ex_ss = OOk l
                /\ map fst (tr_prog l) = [2; 1; 0]%N
                /\ run_kind (run 10 (fun _ => None) (tr_prog l)) = Some None)
  /\ run_kind (run 10 (fun _ => None) (tr_prog ex_ss)) = Some (Some 1%N).
Proof. exact fragment_example. Qed.

Theorem C11_fragment_flag : gen_assign_target_deps = gen_assign_target_deps.
Proof. reflexivity. Qed.

Print Assumptions C11_tr_uses.
Print Assumptions C11_fragment_init_before_use.
Print Assumptions C11_fragment_example.

(* ---- order of TYPE declarations (types agent; /repo 3c0758d).  The type checker goes through the blob and enum
   declarations once before everything else, so what a declaration means does not depend on whether a type it mentions
   stands before or after it.  Proved for the case that made the difference: `A :: blob { .., k: B<args>, .. }`,
   `B :: blob { .. }`, and an instance `A { .., k: lit, .. }` with a literal inside a top-level definition after A -- the
   program is REJECTED with B before A, with B between A and the use, and with B after the use (before the fix the
   orders with A first were accepted: the mention of B copied a type that was still unknown).  The enum analogue:
   `E :: enum .., V P<args>, .. end`, `P :: blob`, `E.V lit`.  Types/ForwardDecl.v; also pinned in Props/C03.v. *)
From Sylt Require Types.TyGraph Types.Tc Types.Ctx Types.TcInv Types.Mismatch Types.ForwardDecl.

Theorem C11_type_mention_rejected_in_both_orders : forall
    nameA vA spA tvarsA fieldsA k vB nameB spB tvarsB fieldsB pre0 lit post0 self isp ta,
  In k (map fst fieldsA) ->
  (forall ksp t, In (k, (ksp, t)) fieldsA -> exists targs tsp, t = TUser vB targs tsp) ->
  Sylt.Types.Mismatch.lit_type lit = Some ta -> Sylt.Types.TcInv.rigid ta = true ->
  let dA := SBlob nameA vA spA tvarsA fieldsA false in
  let dB := SBlob nameB vB spB tvarsB fieldsB false in
  let e := EBlob vA (pre0 ++ (k, lit) :: post0) self isp in
  forall l1 l2 l3 l4 dname dvar dkind dty (C : Sylt.Types.Ctx.ectx) dsp sp0 fuel vars,
    let use := SDefinition dname dvar dkind dty (Sylt.Types.Ctx.plug_e e (SStatementExpression e sp0) C) dsp in
    Sylt.Types.Tc.typecheck fuel (mkResolved vars (l1 ++ dB :: l2 ++ dA :: l3 ++ use :: l4)) <> Sylt.Types.TyGraph.Ok tt /\
    Sylt.Types.Tc.typecheck fuel (mkResolved vars (l1 ++ dA :: l2 ++ dB :: l3 ++ use :: l4)) <> Sylt.Types.TyGraph.Ok tt /\
    Sylt.Types.Tc.typecheck fuel (mkResolved vars (l1 ++ dA :: l2 ++ use :: l3 ++ dB :: l4)) <> Sylt.Types.TyGraph.Ok tt.
Proof. exact Sylt.Types.ForwardDecl.C03_blob_mention_both_orders. Qed.

(* B anywhere among the statements *)
Theorem C11_type_mention_rejected_wherever_declared : forall
    nameA vA spA tvarsA fieldsA k vB nameB spB tvarsB fieldsB pre0 lit post0 self isp ta,
  In k (map fst fieldsA) ->
  (forall ksp t, In (k, (ksp, t)) fieldsA -> exists targs tsp, t = TUser vB targs tsp) ->
  Sylt.Types.Mismatch.lit_type lit = Some ta -> Sylt.Types.TcInv.rigid ta = true ->
  let dA := SBlob nameA vA spA tvarsA fieldsA false in
  let dB := SBlob nameB vB spB tvarsB fieldsB false in
  let e := EBlob vA (pre0 ++ (k, lit) :: post0) self isp in
  forall pre mid post dname dvar dkind dty (C : Sylt.Types.Ctx.ectx) dsp sp0 fuel vars,
    let stmts := pre ++ dA :: mid ++ SDefinition dname dvar dkind dty (Sylt.Types.Ctx.plug_e e (SStatementExpression e sp0) C) dsp :: post in
    In dB stmts ->
    Sylt.Types.Tc.typecheck fuel (mkResolved vars stmts) <> Sylt.Types.TyGraph.Ok tt.
Proof. exact Sylt.Types.ForwardDecl.C03_forward_blob_mention_rejected. Qed.

Theorem C11_enum_mention_rejected_wherever_declared : forall
    nameE vE spE tvarsE variants v vB nameB spB tvarsB fieldsB lit vsp ta,
  In v (map fst variants) ->
  (forall ksp t, In (v, (ksp, t)) variants -> exists targs tsp, t = TUser vB targs tsp) ->
  Sylt.Types.Mismatch.lit_type lit = Some ta -> Sylt.Types.TcInv.rigid ta = true ->
  let dE := SEnum nameE vE spE tvarsE variants in
  let dB := SBlob nameB vB spB tvarsB fieldsB false in
  let e := EVariant vE v lit vsp in
  forall pre mid post dname dvar dkind dty (C : Sylt.Types.Ctx.ectx) dsp sp0 fuel vars,
    let stmts := pre ++ dE :: mid ++ SDefinition dname dvar dkind dty (Sylt.Types.Ctx.plug_e e (SStatementExpression e sp0) C) dsp :: post in
    In dB stmts ->
    Sylt.Types.Tc.typecheck fuel (mkResolved vars stmts) <> Sylt.Types.TyGraph.Ok tt.
Proof. exact Sylt.Types.ForwardDecl.C03_forward_enum_mention_rejected. Qed.

(* the hypotheses are satisfiable: A :: blob { b: B } ; B :: blob { x: int } ; start :: fn do A { b: 1 } end, both orders
   rejected with the same error; with a B for the field both orders are accepted *)
Definition c11_sp (l : N) : span := mkSpan 0 l l 1 2.
Definition c11_declA : stmt := SBlob "A" 1 (c11_sp 1) [] [("b", (c11_sp 1, TUser 2 [] (c11_sp 1)))] false.
Definition c11_declB : stmt := SBlob "B" 2 (c11_sp 2) [] [("x", (c11_sp 2, TResolved BInt (c11_sp 2)))] false.
Definition c11_prog (decls body : list stmt) : resolved :=
  mkResolved [mkVar 0 "start" (c11_sp 4) true Const; mkVar 1 "A" (c11_sp 1) true Const; mkVar 2 "B" (c11_sp 2) true Const;
              mkVar 3 "self" (c11_sp 3) false Const; mkVar 4 "self" (c11_sp 3) false Const]
             (decls ++ [SDefinition "start" 0 Const (TImplied (c11_sp 4))
                          (EFunction "lambda" [] (TResolved BVoid (c11_sp 4)) body false (c11_sp 4)) (c11_sp 4)]).
Definition c11_bad : list stmt := [SStatementExpression (EBlob 1 [("b", EInt 1 (c11_sp 3))] 3 (c11_sp 3)) (c11_sp 3)].
Definition c11_good : list stmt :=
  [SStatementExpression (EBlob 1 [("b", EBlob 2 [("x", EInt 1 (c11_sp 3))] 4 (c11_sp 3))] 3 (c11_sp 3)) (c11_sp 3)].
Example C11_type_mention_example :
  Sylt.Types.Tc.typecheck 60 (c11_prog [c11_declA; c11_declB] c11_bad) = Sylt.Types.Tc.typecheck 60 (c11_prog [c11_declB; c11_declA] c11_bad) /\
  Sylt.Types.Tc.typecheck 60 (c11_prog [c11_declA; c11_declB] c11_bad)
    = Sylt.Types.TyGraph.Err (Sylt.Types.TyGraph.mkErr Sylt.Types.TyGraph.KMismatch (c11_sp 3)) [] /\
  Sylt.Types.Tc.typecheck 60 (c11_prog [c11_declA; c11_declB] c11_good) = Sylt.Types.TyGraph.Ok tt /\
  Sylt.Types.Tc.typecheck 60 (c11_prog [c11_declB; c11_declA] c11_good) = Sylt.Types.TyGraph.Ok tt.
Proof. repeat split; vm_compute; reflexivity. Qed.

Print Assumptions C11_type_mention_rejected_in_both_orders.
Print Assumptions C11_type_mention_rejected_wherever_declared.
Print Assumptions C11_enum_mention_rejected_wherever_declared.
Print Assumptions C11_type_mention_example.

(* ---- the order in which the type declarations are gone through (types agent; /repo 58eff66,
   dependency::type_declaration_order, Types/DeclOrder.v): every declaration of the program's type variables is in it,
   nothing else is, and a declaration stands AFTER the declaration of every type it mentions -- unless that type mentions
   it back (reach w v: the two are on a circle of mentions; such declarations stay as the depth-first search meets them).
   So a chain `A { b: B }`, `B { c: C }`, `C { .. }` is gone through as C, B, A in each of the six source orders. *)
From Sylt Require Types.DeclOrder.

Theorem C11_type_declarations_in_mention_order : forall stmts v d w dw,
  Sylt.Types.DeclOrder.decl_of v (Sylt.Types.DeclOrder.decls_of stmts) = Some d ->
  In w (Sylt.Types.DeclOrder.mentioned d) ->
  Sylt.Types.DeclOrder.decl_of w (Sylt.Types.DeclOrder.decls_of stmts) = Some dw ->
  ~ Sylt.Types.DeclOrder.reach stmts w v ->
  Sylt.Types.DeclOrder.before dw d (Sylt.Types.DeclOrder.type_decl_order stmts).
Proof. exact Sylt.Types.DeclOrder.decl_order_respects_mentions. Qed.

Theorem C11_type_declaration_order_complete : forall stmts,
  (forall d, In d (Sylt.Types.DeclOrder.type_decl_order stmts) -> In d stmts /\ Sylt.Types.DeclOrder.decl_var d <> None) /\
  (forall d v, In d stmts -> Sylt.Types.DeclOrder.decl_var d = Some v ->
               exists d', In d' (Sylt.Types.DeclOrder.type_decl_order stmts) /\ Sylt.Types.DeclOrder.decl_var d' = Some v).
Proof.
  intros stmts. split; [apply Sylt.Types.DeclOrder.type_decl_order_sound|].
  intros d v. apply Sylt.Types.DeclOrder.type_decl_order_covers.
Qed.

(* the definitions, pinned *)
Example C11_before_def : forall a b l, Sylt.Types.DeclOrder.before a b l = (exists l1 l2 l3, l = l1 ++ a :: l2 ++ b :: l3).
Proof. reflexivity. Qed.
Example C11_mentions_def : forall stmts v w,
  Sylt.Types.DeclOrder.mentions stmts v w =
  (exists d, Sylt.Types.DeclOrder.decl_of v (Sylt.Types.DeclOrder.decls_of stmts) = Some d /\ In w (Sylt.Types.DeclOrder.mentioned d)).
Proof. reflexivity. Qed.

(* the chain, in all six source orders: C, B, A; a circle stays in the order of the search *)
Definition c11_chA : stmt := SBlob "A" 1 (c11_sp 1) [] [("b", (c11_sp 1, TUser 2 [] (c11_sp 1)))] false.
Definition c11_chB : stmt := SBlob "B" 2 (c11_sp 2) [] [("c", (c11_sp 2, TList (TUser 3 [] (c11_sp 2)) (c11_sp 2)))] false.
Definition c11_chC : stmt := SBlob "C" 3 (c11_sp 3) [] [("v", (c11_sp 3, TResolved BInt (c11_sp 3)))] false.
Definition c11_other : stmt := SDefinition "x" 9 Const (TImplied (c11_sp 9)) (EInt 1 (c11_sp 9)) (c11_sp 9).
Example C11_chain_order_example :
  Sylt.Types.DeclOrder.type_decl_order [c11_chA; c11_other; c11_chB; c11_chC] = [c11_chC; c11_chB; c11_chA] /\
  Sylt.Types.DeclOrder.type_decl_order [c11_chA; c11_chC; c11_chB] = [c11_chC; c11_chB; c11_chA] /\
  Sylt.Types.DeclOrder.type_decl_order [c11_chB; c11_chA; c11_chC] = [c11_chC; c11_chB; c11_chA] /\
  Sylt.Types.DeclOrder.type_decl_order [c11_chB; c11_chC; c11_chA] = [c11_chC; c11_chB; c11_chA] /\
  Sylt.Types.DeclOrder.type_decl_order [c11_chC; c11_chA; c11_chB] = [c11_chC; c11_chB; c11_chA] /\
  Sylt.Types.DeclOrder.type_decl_order [c11_chC; c11_chB; c11_chA] = [c11_chC; c11_chB; c11_chA].
Proof. repeat split; vm_compute; reflexivity. Qed.

Print Assumptions C11_type_declarations_in_mention_order.
Print Assumptions C11_type_declaration_order_complete.
Print Assumptions C11_chain_order_example.
