-- expect: 1	2	nil
-- expect: 1	2
-- expect: 2	1
-- expect: 4	20	nil
-- expect: 1	2	3	nil
-- expect: 1	10
-- expect: 0	1	2
-- expect: global1	nil
-- expect: 1	nil
-- expect: 1,2
-- expect: 2	3
-- expect: 42	42	42
-- expect: 7
-- expect: nil
-- expect: nil
-- expect: set	set2
local a, b, c = 1, 2
print(a, b, c)
local x, y = 1, 2, 3
print(x, y)
x, y = y, x
print(x, y)
-- reference manual 2.4.3: the i in a[i] is evaluated before i is assigned
local i = 3
local t = {}
i, t[i] = i + 1, 20
print(i, t[3], t[4])
local function f() return 1, 2, 3 end
local p, q, r, s = f()
print(p, q, r, s)
local p2, q2 = f(), 10
print(p2, q2)
local p3, q3, r3 = 0, f()
print(p3, q3, r3)
g1, g2 = "global1"
print(g1, g2)
local t2 = {}
t2.a, t2.b = 1
print(t2.a, t2.b)
-- right-hand sides are evaluated left to right, all before any store
local log = {}
local function ev(n) log[#log + 1] = n; return n end
local u, v = ev(1), ev(2)
print(table.concat(log, ","))
local m, n = 1, 2
m, n = n, m + n
print(m, n)
-- globals are fields of _G
gv = 42
print(_G.gv, _G["gv"], rawget(_G, "gv"))
_G.hv = 7
print(hv)
print(undefined_global)
-- local without value
local nothing
print(nothing)
-- assignment to a field of a nested table
local deep = {a = {b = {}}}
deep.a.b.c = "set"
deep["a"]["b"]["d"] = deep.a.b.c .. "2"
print(deep.a.b.c, deep.a.b.d)
