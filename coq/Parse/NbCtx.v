(* C14 line breaks inside brackets, whole files of the full language: the cursor level.
   Token lists without comments.  [NB d l l']: at bracket depth [d] the two lists are equal except for newline
   tokens inside "simple" bracket groups - ( ... ), [ ... ], { ... } whose content has no fn / pu / if / case
   (brackets may nest).  An opening bracket may also be read as a plain token (then its content has to be related
   at depth 0 again: equal, or with simple groups of its own), so groups that contain blocks are allowed, they just
   have to be the same on both sides up to THEIR inner simple groups.
   [R d c c']: two cursors over such lists; inside a simple group the newline flag is on and both cursors stand on a
   token that is not a newline. *)
From Coq Require Import List NArith Bool Arith Lia.
From Sylt Require Import Syntax.Ast Syntax.Tok Parse.PrecTable Parse.Parser Parse.ParserProofs Parse.BlankCtx.
From Sylt Require Parse.LayoutSim Parse.LayoutStmt.
Import ListNotations.

Definition opener := LayoutSim.opener.
Definition closer := LayoutSim.closer.
Definition frag_tok := LayoutSim.frag_tok.

Inductive NB : nat -> list tok -> list tok -> Prop :=
| NB_nil d : NB d [] []
| NB_any t l l' : NB 0 l l' -> NB 0 (t :: l) (t :: l')
| NB_open d t l l' : opener t = true -> NB (S d) l l' -> NB d (t :: l) (t :: l')
| NB_tok d t l l' : opener t = false -> closer t = false -> isNL t = false -> frag_tok t = true ->
    NB (S d) l l' -> NB (S d) (t :: l) (t :: l')
| NB_close d t l l' : closer t = true -> NB d l l' -> NB (S d) (t :: l) (t :: l')
| NB_nll d l l' : NB (S d) l l' -> NB (S d) (NLt :: l) l'
| NB_nlr d l l' : NB (S d) l l' -> NB (S d) l (NLt :: l').

Lemma NB_sym d l l' : NB d l l' -> NB d l' l.
Proof. induction 1; eauto using NB. Qed.

Lemma opener_notNL t : opener t = true -> isNL t = false.
Proof. destruct t as [| | | | | |k|]; try discriminate. destruct k; try discriminate; reflexivity. Qed.
Lemma closer_notNL t : closer t = true -> isNL t = false.
Proof. destruct t as [| | | | | |k|]; try discriminate. destruct k; try discriminate; reflexivity. Qed.
Lemma closer_not_opener t : closer t = true -> opener t = false.
Proof. destruct t as [| | | | | |k|]; try discriminate. destruct k; try discriminate; reflexivity. Qed.

(* dropping a newline inside a simple group *)
Lemma NB_drop_l d l l' : NB (S d) (NLt :: l) l' -> NB (S d) l l'.
Proof.
  intros H. remember (NLt :: l) as x eqn:Ex. remember (S d) as n eqn:En. revert l d Ex En.
  induction H; intros l0 d0 Ex En; try discriminate; inversion Ex; subst.
  - apply opener_notNL in H. discriminate H.
  - discriminate.
  - apply closer_notNL in H. discriminate H.
  - inversion En; subst. exact H.
  - inversion En; subst. apply NB_nlr. apply (IHNB l0 d0 eq_refl eq_refl).
Qed.

Lemma NB_drop_r d l l' : NB (S d) l (NLt :: l') -> NB (S d) l l'.
Proof. intros H. apply NB_sym. apply NB_drop_l. apply NB_sym. exact H. Qed.

Lemma NB_dropNL_l d : forall l l', NB (S d) l l' -> NB (S d) (dropNL l) l'.
Proof.
  induction l as [|t l IH]; intros l' H; [exact H|]. destruct (isNL t) eqn:E.
  - apply isNL_spec in E. subst t. cbn [dropNL NLt]. apply IH. apply NB_drop_l. exact H.
  - rewrite (proj2 (cnt_nonNL t l E)). exact H.
Qed.

Lemma NB_dropNL d l l' : NB (S d) l l' -> NB (S d) (dropNL l) (dropNL l').
Proof. intros H. apply NB_dropNL_l. apply NB_sym. apply NB_dropNL_l. apply NB_sym. exact H. Qed.

(* at depth 0 the newlines are the same *)
Lemma NB0_runs l l' : NB 0 l l' -> cntNL l = cntNL l' /\ NB 0 (dropNL l) (dropNL l').
Proof.
  intros H. remember 0 as d eqn:Ed. induction H; try discriminate.
  - split; [reflexivity|constructor].
  - specialize (IHNB eq_refl). destruct (isNL t) eqn:E.
    + apply isNL_spec in E. subst t. cbn [cntNL dropNL NLt]. destruct IHNB as [X Y]. split; [rewrite X; reflexivity|exact Y].
    + destruct (cnt_nonNL t l E) as [C1 D1]. destruct (cnt_nonNL t l' E) as [C2 D2]. rewrite C1, C2, D1, D2.
      split; [reflexivity|apply NB_any; exact H].
  - subst d. pose proof (opener_notNL t H) as E.
    destruct (cnt_nonNL t l E) as [C1 D1]. destruct (cnt_nonNL t l' E) as [C2 D2]. rewrite C1, C2, D1, D2.
    split; [reflexivity|apply NB_open; assumption].
Qed.

(* heads *)
Definition headNN (l : list tok) : Prop := match l with t :: _ => isNL t = false | [] => True end.

Lemma dropNL_headNN l : headNN (dropNL l).
Proof.
  induction l as [|t l IH]; [exact I|]. destruct (isNL t) eqn:E.
  - apply isNL_spec in E. subst t. exact IH.
  - rewrite (proj2 (cnt_nonNL t l E)). exact E.
Qed.

(* what a step over the first token leaves *)
Inductive NBhead : nat -> tok -> list tok -> list tok -> Prop :=
| NBh_any t l l' : NB 0 l l' -> NBhead 0 t l l'
| NBh_open d t l l' : opener t = true -> NB (S d) l l' -> NBhead d t l l'
| NBh_tok d t l l' : opener t = false -> closer t = false -> frag_tok t = true -> NB (S d) l l' -> NBhead (S d) t l l'
| NBh_close d t l l' : closer t = true -> NB d l l' -> NBhead (S d) t l l'.

Lemma NB_head d t l r : NB d (t :: l) r -> (0 < d -> isNL t = false /\ headNN r) ->
  exists l', r = t :: l' /\ NBhead d t l l'.
Proof.
  intros H. remember (t :: l) as x eqn:Ex. revert t l Ex.
  induction H; intros t0 l0 Ex Hd; try discriminate; inversion Ex; subst.
  - eexists. split; [reflexivity|]. apply NBh_any. exact H.
  - eexists. split; [reflexivity|]. apply NBh_open; assumption.
  - eexists. split; [reflexivity|]. apply NBh_tok; assumption.
  - eexists. split; [reflexivity|]. apply NBh_close; assumption.
  - destruct (Hd ltac:(lia)) as [X _]. discriminate X.
  - destruct (Hd ltac:(lia)) as [_ X]. discriminate X.
Qed.

Lemma NB_nil_l d r : NB d [] r -> (0 < d -> headNN r) -> r = [].
Proof.
  intros H Hd. remember [] as x eqn:Ex. induction H; try discriminate; try reflexivity.
  specialize (Hd ltac:(lia)). discriminate Hd.
Qed.

(* ------------------------------------------------------------------------------------------- *)
(* cursors *)

Record R (d : nat) (c c' : ctx) : Prop := mkR {
  r_nl : nl c' = nl c;
  r_over : over c' = over c;
  r_ov : 0 < over c -> post c = [] /\ post c' = [];
  r_post : NB d (post c) (post c');
  r_pre : d = 0 -> hd_error (pre c) = hd_error (pre c');
  r_in : 0 < d -> nl c = true /\ headNN (post c) /\ headNN (post c');
  r_nc : nocom (pre c) /\ nocom (post c) /\ nocom (pre c') /\ nocom (post c') }.

Lemma R_token d c c' : R d c c' -> token c' = token c.
Proof.
  intros H. pose proof (r_post _ _ _ H) as B. unfold token. destruct (post c) as [|t l] eqn:E.
  - rewrite (NB_nil_l d _ B); [reflexivity|]. intros Hd. apply (r_in _ _ _ H Hd).
  - destruct (NB_head d t l _ B) as (l' & -> & _); [|reflexivity].
    intros Hd. destruct (r_in _ _ _ H Hd) as (_ & X & Y). rewrite E in X. split; assumption.
Qed.

Lemma R_nl d c c' : R d c c' -> nl c' = nl c.
Proof. apply r_nl. Qed.

Lemma R_is_k d k c c' : R d c c' -> is_k k c' = is_k k c.
Proof. intros H. unfold is_k. rewrite (R_token _ _ _ H). reflexivity. Qed.

Lemma R_nocom d c c' : R d c c' -> nocom (post c) /\ nocom (post c').
Proof. intros H. destruct (r_nc _ _ _ H) as (_ & X & _ & Y). split; assumption. Qed.

(* the flag may be set to anything at depth 0, and to what it is anywhere *)
Lemma R_set_nl0 b c c' : R 0 c c' -> R 0 (set_nl b c) (set_nl b c').
Proof.
  intros [H1 H2 H3 H4 H5 H6 H7]. constructor; cbn [set_nl nl over pre post]; try assumption; [reflexivity|intros X; lia].
Qed.

Lemma R_set_same d b c c' : R d c c' -> b = nl c -> R d (set_nl b c) (set_nl b c').
Proof.
  intros [H1 H2 H3 H4 H5 H6 H7] ->. constructor; cbn [set_nl nl over pre post]; try assumption; reflexivity.
Qed.

Lemma over0 d c c' : R d c c' -> post c <> [] -> over c = 0.
Proof.
  intros H Ne. destruct (over c) eqn:E; [reflexivity|]. destruct (r_ov _ _ _ H ltac:(lia)) as [X _]. contradiction.
Qed.

Lemma hd_repeat a x x' : hd_error x = hd_error x' -> hd_error (repeat NLt a ++ x) = hd_error (repeat NLt a ++ x').
Proof. intros H. destruct a; [exact H|reflexivity]. Qed.

(* the cursor after a step: the token list [l] ahead, the flag [fl] in force *)
Definition after (fl : bool) (o : nat) (p l : list tok) : ctx :=
  mkctx (if fl then repeat NLt (cntNL l) ++ p else p) (if fl then dropNL l else l) o fl.

Lemma R_mk d fl o p p' l l' : NB d l l' -> (0 < d -> fl = true) -> (d = 0 -> hd_error p = hd_error p') ->
  nocom p -> nocom l -> nocom p' -> nocom l' -> (0 < o -> l = [] /\ l' = []) ->
  R d (after fl o p l) (after fl o p' l').
Proof.
  intros B Hf Hp N1 N2 N3 N4 Ho. unfold after. destruct fl.
  - constructor; cbn [nl over pre post]; try reflexivity.
    + intros X. destruct (Ho X) as [-> ->]. split; reflexivity.
    + destruct d as [|d]; [apply (NB0_runs _ _ B)|apply NB_dropNL; exact B].
    + intros ->. destruct (NB0_runs _ _ B) as [E _]. rewrite E. apply hd_repeat. apply Hp. reflexivity.
    + intros _. split; [reflexivity|split; apply dropNL_headNN].
    + repeat split; try (apply nocom_app; split; [apply nocom_repeat|assumption]); apply nocom_dropNL; assumption.
  - assert (d = 0) by (destruct d; [reflexivity|specialize (Hf ltac:(lia)); discriminate Hf]). subst d.
    constructor; cbn [nl over pre post]; try reflexivity; try assumption.
    + intros X. lia.
    + repeat split; assumption.
Qed.

Lemma skip1_after c t l : nocom (post c) -> post c = t :: l -> skip 1 c = after (nl c) (over c) (t :: pre c) l.
Proof. intros N E. rewrite (skip1_eq c N). unfold skip1_spec, after. rewrite E. destruct (nl c); reflexivity. Qed.

Lemma cnt_dropNL l : cntNL (dropNL l) = 0 /\ dropNL (dropNL l) = dropNL l.
Proof.
  induction l as [|t l IH]; [split; reflexivity|]. destruct (isNL t) eqn:E.
  - apply isNL_spec in E. subst t. exact IH.
  - rewrite (proj2 (cnt_nonNL t l E)). apply (cnt_nonNL t l E).
Qed.

Lemma push_true_skip1 c t l : nocom (post c) -> post c = t :: l ->
  fst (push_nl true (skip 1 c)) = after true (over c) (t :: pre c) l.
Proof.
  intros N E. unfold push_nl. cbn [fst]. rewrite (skip1_after c t l N E).
  assert (Nl : nocom l) by (rewrite E in N; apply nocom_cons in N; exact (proj2 N)).
  rewrite skip0_eq by (unfold after; cbn [set_nl post]; destruct (nl c); [apply nocom_dropNL|]; exact Nl).
  unfold skip0_spec, after. cbn [set_nl nl pre post over]. destruct (nl c).
  - destruct (cnt_dropNL l) as [C D]. rewrite C, D. reflexivity.
  - reflexivity.
Qed.

(* a step over a token that is not a bracket (inside a simple group: not a closing bracket either) *)
Lemma R_skip1 d c c' : R d c c' -> opener (token c) = false -> (0 < d -> closer (token c) = false) ->
  R d (skip 1 c) (skip 1 c').
Proof.
  intros H Ho Hc. destruct (r_nc _ _ _ H) as (N1 & N2 & N3 & N4). pose proof (r_post _ _ _ H) as B.
  pose proof (R_token _ _ _ H) as Tk. unfold token in Ho, Hc, Tk.
  destruct (post c) as [|t l] eqn:E.
  - assert (E' : post c' = []) by (apply (NB_nil_l d _ B); intros Hd; apply (r_in _ _ _ H Hd)).
    rewrite (skip1_eq c) by (rewrite E; exact N2). rewrite (skip1_eq c' N4). unfold skip1_spec. rewrite E, E'.
    rewrite (r_nl _ _ _ H), (r_over _ _ _ H). constructor; cbn [nl over pre post]; try reflexivity.
    + intros _. split; reflexivity.
    + constructor.
    + apply (r_pre _ _ _ H).
    + intros Hd. destruct (r_in _ _ _ H Hd) as (X & _ & _). split; [exact X|split; exact I].
    + repeat split; assumption.
  - destruct (NB_head d t l _ B) as (l' & E' & Hh).
    { intros Hd. destruct (r_in _ _ _ H Hd) as (_ & X & Y). rewrite E in X. split; assumption. }
    rewrite (skip1_after c t l ltac:(rewrite E; exact N2) E), (skip1_after c' t l' N4 E').
    rewrite (r_nl _ _ _ H), (r_over _ _ _ H).
    rewrite E' in N4. apply nocom_cons in N4. destruct N4 as [Nt N4]. apply nocom_cons in N2. destruct N2 as [_ N2].
    assert (O0 : 0 < over c -> l = [] /\ l' = []) by (intros X; destruct (r_ov _ _ _ H X) as [Y _]; rewrite E in Y; discriminate Y).
    assert (Np : nocom (t :: pre c)) by (apply nocom_cons; split; assumption).
    assert (Np' : nocom (t :: pre c')) by (apply nocom_cons; split; assumption).
    inversion Hh; subst.
    + apply R_mk; try assumption; [intros X; lia|reflexivity].
    + congruence.
    + apply R_mk; try assumption; [intros _; apply (r_in _ _ _ H ltac:(lia))|intros X; discriminate X].
    + rewrite (Hc ltac:(lia)) in H0. discriminate H0.
Qed.

(* the link between the depth at which a bracket is opened, the depth inside, and the flag saved at the opening *)
Definition link (d d' : nat) (old : bool) : Prop := (d' = 0 /\ d = 0) \/ (d' = S d /\ (0 < d -> old = true)).

Lemma R_open d c c' : R d c c' -> opener (token c) = true ->
  exists d', link d d' (nl c) /\ R d' (fst (push_nl true (skip 1 c))) (fst (push_nl true (skip 1 c'))).
Proof.
  intros H Ho. destruct (r_nc _ _ _ H) as (N1 & N2 & N3 & N4). pose proof (r_post _ _ _ H) as B.
  unfold token in Ho. destruct (post c) as [|t l] eqn:E; [discriminate Ho|].
  destruct (NB_head d t l _ B) as (l' & E' & Hh).
  { intros Hd. destruct (r_in _ _ _ H Hd) as (_ & X & Y). rewrite E in X. split; assumption. }
  rewrite (push_true_skip1 c t l ltac:(rewrite E; exact N2) E), (push_true_skip1 c' t l' N4 E'). rewrite (r_over _ _ _ H).
  rewrite E' in N4. apply nocom_cons in N4. destruct N4 as [Nt N4]. apply nocom_cons in N2. destruct N2 as [_ N2].
  assert (O0 : 0 < over c -> l = [] /\ l' = []) by (intros X; destruct (r_ov _ _ _ H X) as [Y _]; rewrite E in Y; discriminate Y).
  assert (Np : nocom (t :: pre c)) by (apply nocom_cons; split; assumption).
  assert (Np' : nocom (t :: pre c')) by (apply nocom_cons; split; assumption).
  inversion Hh; subst.
  - exists 0. split; [left; split; reflexivity|]. apply R_mk; try assumption; [intros X; lia|reflexivity].
  - exists (S d). split; [right; split; [reflexivity|intros Hd; apply (r_in _ _ _ H Hd)]|].
    apply R_mk; try assumption; [reflexivity|intros X; discriminate X].
  - congruence.
  - rewrite (closer_not_opener t H0) in Ho. discriminate Ho.
Qed.

Lemma R_close d d' old c c' : R d' c c' -> closer (token c) = true -> link d d' old ->
  R d (skip 1 (pop_nl old c)) (skip 1 (pop_nl old c')).
Proof.
  intros H Hc L. destruct (r_nc _ _ _ H) as (N1 & N2 & N3 & N4). pose proof (r_post _ _ _ H) as B.
  unfold token in Hc. destruct (post c) as [|t l] eqn:E; [discriminate Hc|].
  destruct (NB_head d' t l _ B) as (l' & E' & Hh).
  { intros Hd. destruct (r_in _ _ _ H Hd) as (_ & X & Y). rewrite E in X. split; assumption. }
  unfold pop_nl.
  rewrite (skip1_after (set_nl old c) t l) by (cbn [set_nl post]; first [rewrite E; exact N2|exact E]).
  rewrite (skip1_after (set_nl old c') t l') by (cbn [set_nl post]; first [exact N4|exact E']).
  cbn [set_nl nl over pre]. rewrite (r_over _ _ _ H).
  rewrite E' in N4. apply nocom_cons in N4. destruct N4 as [Nt N4]. apply nocom_cons in N2. destruct N2 as [_ N2].
  assert (O0 : 0 < over c -> l = [] /\ l' = []) by (intros X; destruct (r_ov _ _ _ H X) as [Y _]; rewrite E in Y; discriminate Y).
  assert (Np : nocom (t :: pre c)) by (apply nocom_cons; split; assumption).
  assert (Np' : nocom (t :: pre c')) by (apply nocom_cons; split; assumption).
  inversion Hh; subst.
  - destruct L as [[_ ->]|[X _]]; [|discriminate X]. apply R_mk; try assumption; [intros X; lia|reflexivity].
  - rewrite (closer_not_opener t Hc) in H0. discriminate H0.
  - congruence.
  - destruct L as [[X _]|[X Y]]; [discriminate X|]. injection X as <-.
    apply R_mk; try assumption; reflexivity.
Qed.

(* push_nl without a bracket: at depth 0 anything, inside a group only "on" *)
Lemma R_push0 b c c' : R 0 c c' -> R 0 (fst (push_nl b c)) (fst (push_nl b c')) /\ snd (push_nl b c') = snd (push_nl b c).
Proof.
  intros H. unfold push_nl. cbn [fst snd]. split; [|apply (r_nl _ _ _ H)].
  destruct (r_nc _ _ _ H) as (N1 & N2 & N3 & N4).
  rewrite (skip0_eq (set_nl b c)) by exact N2. rewrite (skip0_eq (set_nl b c')) by exact N4.
  unfold skip0_spec. cbn [set_nl nl pre post over]. destruct b; [|apply R_set_nl0; exact H].
  rewrite (r_over _ _ _ H).
  apply (R_mk 0 true (over c) (pre c) (pre c') (post c) (post c')); try assumption.
  - apply (r_post _ _ _ H).
  - intros X. lia.
  - intros _. apply (r_pre _ _ _ H). reflexivity.
  - apply (r_ov _ _ _ H).
Qed.

Lemma headNN_cnt l : headNN l -> cntNL l = 0 /\ dropNL l = l.
Proof. destruct l as [|t l]; [split; reflexivity|]. intros H. apply (cnt_nonNL t l H). Qed.

Lemma R_pushS d c c' : R (S d) c c' ->
  R (S d) (fst (push_nl true c)) (fst (push_nl true c')) /\ snd (push_nl true c') = snd (push_nl true c).
Proof.
  intros H. unfold push_nl. cbn [fst snd]. split; [|apply (r_nl _ _ _ H)].
  destruct (r_nc _ _ _ H) as (N1 & N2 & N3 & N4). destruct (r_in _ _ _ H ltac:(lia)) as (En & Hh & Hh').
  rewrite (skip0_eq (set_nl true c)) by exact N2. rewrite (skip0_eq (set_nl true c')) by exact N4.
  unfold skip0_spec. cbn [set_nl nl pre post over].
  destruct (headNN_cnt _ Hh) as [C D]. destruct (headNN_cnt _ Hh') as [C' D']. rewrite C, D, C', D'. cbn [repeat app].
  destruct H as [H1 H2 H3 H4 H5 H6 H7]. rewrite En in H1.
  constructor; cbn [nl over pre post]; try assumption; [reflexivity|].
  intros X. destruct (H6 X) as (_ & Y & Z). split; [reflexivity|split; assumption].
Qed.

Lemma R_skip_nls d c c' : R d c c' -> R d (skip_nls c) (skip_nls c').
Proof.
  intros H. destruct (r_nc _ _ _ H) as (N1 & N2 & N3 & N4).
  rewrite (skip_nls_eq c N2), (skip_nls_eq c' N4). unfold skip_nls_spec. destruct d as [|d].
  - destruct (NB0_runs _ _ (r_post _ _ _ H)) as [C B]. rewrite <- C.
    constructor; cbn [nl over pre post].
    + apply (r_nl _ _ _ H).
    + apply (r_over _ _ _ H).
    + intros X. destruct (r_ov _ _ _ H X) as [-> ->]. split; reflexivity.
    + exact B.
    + intros _. apply hd_repeat. apply (r_pre _ _ _ H). reflexivity.
    + intros X. lia.
    + repeat split; try (apply nocom_app; split; [apply nocom_repeat|assumption]); apply nocom_dropNL; assumption.
  - destruct (r_in _ _ _ H ltac:(lia)) as (En & Hh & Hh').
    destruct (headNN_cnt _ Hh) as [C D]. destruct (headNN_cnt _ Hh') as [C' D']. rewrite C, D, C', D'. cbn [repeat app].
    destruct H as [H1 H2 H3 H4 H5 H6 H7]. constructor; cbn [nl over pre post]; assumption.
Qed.

Lemma skip_nls_not_opener c : nocom (post c) -> isNL (token (skip_nls c)) = false.
Proof. apply skip_nls_token. Qed.

Lemma R_skip_if d k c c' : R d c c' -> opener (TK k) = false -> closer (TK k) = false -> R d (skip_if k c) (skip_if k c').
Proof.
  intros H Ho Hc. unfold skip_if. rewrite (R_is_k _ k _ _ H). destruct (is_k k c) eqn:E; [|exact H].
  assert (Tk : token c = TK k).
  { unfold is_k in E. destruct (token c) as [| | | | | |k0|]; try discriminate E. cbn [tok_is] in E.
    f_equal. destruct k, k0; try discriminate E; reflexivity. }
  apply R_skip1; [exact H|rewrite Tk; exact Ho|intros _; rewrite Tk; exact Hc].
Qed.

Lemma R_after_arg d c c' : R d c c' -> R d (after_arg c) (after_arg c').
Proof.
  intros H. unfold after_arg. cbv zeta.
  assert (H0 : R d (skip_nls c) (skip_nls c')) by (apply R_skip_nls; exact H).
  rewrite (R_token _ _ _ H), (R_token _ _ _ H0).
  destruct (tok_is KComma (token c) || tok_is KNewline (token c) && tok_is KComma (token (skip_nls c))) eqn:E; [|exact H].
  apply R_skip_nls.
  assert (Tk : token (skip_nls c) = TK KComma).
  { apply orb_prop in E. destruct E as [E|E].
    - assert (X : token c = TK KComma).
      { destruct (token c) as [| | | | | |k0|]; try discriminate E. destruct k0; try discriminate E. reflexivity. }
      destruct (r_nc _ _ _ H) as (_ & N2 & _ & _). rewrite (skip_nls_eq c N2). unfold skip_nls_spec, token in *. cbn [post].
      destruct (post c) as [|t l]; [discriminate X|]. subst t. reflexivity.
    - apply andb_prop in E. destruct E as [_ E].
      destruct (token (skip_nls c)) as [| | | | | |k0|]; try discriminate E. destruct k0; try discriminate E. reflexivity. }
  apply R_skip1; [exact H0|rewrite Tk; reflexivity|intros _; rewrite Tk; reflexivity].
Qed.

(* Context::prev in the `loop` arm (depth 0) *)
Lemma R_prev c c' cp cp' : R 0 c c' -> prev c = Some cp -> prev c' = Some cp' ->
  is_k KNewline cp' = is_k KNewline cp /\
  (is_k KNewline cp = true -> R 0 (skip 1 cp) (skip 1 cp')).
Proof.
  intros H E E'. destruct (r_nc _ _ _ H) as (N1 & N2 & N3 & N4).
  rewrite (prev_eq c N1 N2) in E. rewrite (prev_eq c' N3 N4) in E'. injection E as <-. injection E' as <-.
  rewrite !token_isNL. unfold prev_spec. rewrite (r_over _ _ _ H).
  destruct (over c) as [|o] eqn:Eo.
  - pose proof (r_pre _ _ _ H eq_refl) as P.
    destruct (pre c) as [|t p] eqn:Ep, (pre c') as [|t' p'] eqn:Ep'; try discriminate P.
    + rewrite (R_token _ _ _ H). split; [reflexivity|]. intros T. apply R_skip1; [exact H| |intros X; lia].
      apply isNL_spec in T. rewrite T. reflexivity.
    + cbn [hd_error] in P. injection P as <-. unfold token. cbn [post]. split; [reflexivity|].
      intros T. apply isNL_spec in T. subst t.
      assert (Nl : nocom (NLt :: post c)) by (apply nocom_cons; split; [reflexivity|assumption]).
      assert (Nl' : nocom (NLt :: post c')) by (apply nocom_cons; split; [reflexivity|assumption]).
      rewrite (skip1_after (mkctx p (NLt :: post c) 0 (nl c)) NLt (post c) Nl eq_refl).
      rewrite (skip1_after (mkctx p' (NLt :: post c') 0 (nl c')) NLt (post c') Nl' eq_refl).
      cbn [nl over pre]. rewrite (r_nl _ _ _ H).
      apply nocom_cons in N1. destruct N1 as [_ N1]. apply nocom_cons in N3. destruct N3 as [_ N3].
      apply R_mk; try assumption; try (apply nocom_cons; split; [reflexivity|assumption]).
      * apply (r_post _ _ _ H).
      * intros X. lia.
      * reflexivity.
      * intros X. lia.
  - destruct (r_ov _ _ _ H ltac:(lia)) as [X Y]. unfold token. cbn [post]. rewrite X, Y. cbn [isNL].
    split; [reflexivity|discriminate].
Qed.

(* multi-token steps *)
Lemma R_skip2_0 c c' t2 : R 0 c c' -> opener (token c) = false -> isNL (token c) = false ->
  token (skip 1 c) = t2 -> opener t2 = false -> isNL t2 = false -> t2 <> TEOF -> R 0 (skip 2 c) (skip 2 c').
Proof.
  intros H O1 N1 E2 O2 N2 NE.
  assert (H1 : R 0 (skip 1 c) (skip 1 c')) by (apply R_skip1; [exact H|exact O1|intros X; lia]).
  assert (H2 : R 0 (skip 1 (skip 1 c)) (skip 1 (skip 1 c'))) by (apply R_skip1; [exact H1|rewrite E2; exact O2|intros X; lia]).
  destruct (nl c) eqn:En.
  - destruct (r_nc _ _ _ H) as (M1 & M2 & M3 & M4). pose proof (r_post _ _ _ H) as B.
    unfold token in O1, N1. destruct (post c) as [|t1 l] eqn:E.
    { exfalso. rewrite (skip1_eq c) in E2 by (rewrite E; exact M2). unfold skip1_spec, token in E2. rewrite E in E2.
      cbn in E2. congruence. }
    destruct (NB_head 0 t1 l _ B ltac:(intros X; lia)) as (l' & E' & Hh).
    assert (Bl : NB 0 l l') by (inversion Hh; subst; [assumption|congruence]).
    destruct l as [|x rest].
    { exfalso. rewrite (skip1_eq c) in E2 by (rewrite E; exact M2). unfold skip1_spec, token in E2. rewrite E, En in E2.
      cbn in E2. congruence. }
    destruct (NB_head 0 x rest _ Bl ltac:(intros X; lia)) as (rest' & El' & _).
    assert (En' : nl c' = true) by (rewrite (r_nl _ _ _ H); exact En).
    rewrite (skip2_true c t1 x rest ltac:(rewrite E; exact M2) E En).
    rewrite (skip2_true c' t1 x rest' M4 ltac:(rewrite E', El'; reflexivity) En').
    destruct (isNL x); assumption.
  - rewrite (LayoutStmt.skip2_eq c En), (LayoutStmt.skip2_eq c') by (rewrite (r_nl _ _ _ H); exact En). exact H2.
Qed.
