(* C14 -- Call/return sugar and layout never change meaning: the parser- and lexer-level part.
   Only pinned statements, `exact`, table side conditions / examples by vm_compute, Print Assumptions.

   What is proved (for every operator table accepted by prec_table_ok; instantiated at the regenerated one):
     C14_prime_call     f' a1, .., an  and  f(a1, .., an)  parse to the same tree, the prime call's argument list
                        ending where [prime_end] says;
     C14_arrow_call     a -> f(b1, .., bn)  parses to ArrowCall(a, f, [b1..bn])  (that ArrowCall resolves like
                        f(a, b1, .., bn) is the resolver's business, not shown here);
     C14_paren          two printings of an operator tree that differ only in parentheses parse to trees that
                        differ only in Parenthesis nodes;
     C14_loop_do_*      `loop do` computes the condition `true` and parses its body from `do`, exactly as
                        `loop true do` does; conditional equivalence [C14_loop_do_conditional];
     C14_layout_*       Context.token / skip(0) / skip(1) / look-ahead cannot see comments, nor newlines while
                        skip_newlines is on (which `(`, `[`, call arguments and blob braces turn on);
     C14_ws_token       lexer: whatever follows a token text on which all live patterns die (white space
                        does, for every finite token text checked below) leaves that token unchanged.
     C14_nl_in_brackets two token lists of the expression fragment (no fn/pu/if/case) that differ only by comments
                        anywhere and by newlines inside ( ) [ ] { } at any depth get the same result from
                        `expression` (same tree, or both rejected) -- a simulation through every reachable step;
     C14_statement_pre_insensitive / C14_loop_do_unconditional / C14_loop_do_converse
                        (Parse/PreSim.v) a statement's tree and end do not depend on the tokens behind the cursor -
                        a simulation through every step function, using the progress facts of ParserTotal.v to keep
                        Context::prev inside the statement's own tokens - hence `loop do B` parses if and only if
                        `loop true do B` does, to the same statement, ending in the same place.
     C14_nl_in_brackets_statement_settled (Parse/LayoutStmt.v) the same at STATEMENT level (definitions with type
                        annotations, assignments, declarations, use/from, ret, loops, do-blocks; no fn/pu/if/case):
                        with at least parse_fuel on both sides both inputs are accepted with the same tree or both
                        rejected.  (The first formulation, same fuel on both sides with matching out-of-fuel
                        outcomes, is REFUTED below: C14_nl_in_brackets_statement_level_same_fuel_refuted.)
     C14_ws_insert_whole_input (Lex/WsInsert.v) the LEXER, whole input: a non-empty run of spaces / tabs / carriage returns
                        inserted at a token boundary of the source text (the text before it is the concatenation of
                        the first tokens) leaves the sequence of kinds and payloads of the non-comment tokens unchanged.
                        Proved for the regenerated token table: after at least one character the live patterns are all
                        white-space free (a white-space character kills them), or the set after one `/`, or exactly
                        the inside of a string / of a comment / of a white-space run (a white-space character leaves
                        the set as it is); the table-specific facts are checked by computation below.
     C14_respace        (Lex/WsInsert.v) the same for ANY NUMBER of places at once and for REPLACING white space by other
                        white space: tabs vs spaces, indentation, trailing white space; C14_crlf_same: CR LF line
                        ends instead of LF, when no string literal runs over a line end (needed: example).
     C14_respace_same_parser_input, C14_crlf_same_parser_input, C14_ws_insert_same_parser_input (Parse/SourceLayout.v)
                        the same with the comments kept: the token list the PARSER is given (map classify (lex ..))
                        is literally the same, hence C14_respace_same_program / C14_crlf_same_program: source text
                        to tree, the same outcome.
     C14_blank_lines_program (Parse/BlankCtx.v, Parse/BlankSim.v) BLANK LINES anywhere (every nesting level; comment-only
                        lines count as blank): both files accepted with the same tree up to EmptyStatements at every
                        level (Syntax/DropEmpty.v), or both rejected - by a stuttering simulation of the whole parser.
     C14_blank_line_lexer, C14_blank_line_source (Lex/WsInsert.v nl_insert_raw) a blank line added to the SOURCE TEXT
                        after a line break: one more Newline token, nothing else changes; hence the above applies.
     C14_nl_in_brackets_full (Parse/NbCtx.v, Parse/NbSim.v) LINE BREAKS INSIDE BRACKETS for whole files of the FULL
                        language: no restriction on the file; the bracket groups in which newlines differ must not
                        contain fn / pu / if / case (other groups may, they just have to agree).
   Nothing of this file is left as an unproved Prop except the refuted first formulation
   C14_nl_in_brackets_statement_level (kept visible next to its refutation).  *)
From Coq Require Import String List NArith Bool Arith.
From Sylt Require Import Lex.Regex Lex.Logos Lex.LayoutProofs Gen.GenTokens
  Syntax.Ast Syntax.Tok Parse.PrecTable Parse.Parser Parse.ParserProofs Parse.OpTree Parse.ExprRoundTrip
  Parse.Sugar Parse.Layout Parse.LayoutSim Parse.ParserTotal Parse.PreSim Parse.LayoutStmt Gen.GenPrec.
From Sylt Require Parse.SimGen Parse.CommentSim.
From Sylt Require Lex.WsInsert Parse.SourceLayout.
From Sylt Require Syntax.DropEmpty Parse.BlankCtx Parse.BlankSim.
From Sylt Require Parse.NbCtx Parse.NbSim.
From Sylt Require Import Syntax.SugarNF Parse.StmtRoundTrip Parse.SugarNFProofs.
Import ListNotations.

Definition gen_ptab : ptab := interp GenPrec.table.

(* table side conditions, re-checked against the regenerated table on every run *)
Theorem C14_table_ok : prec_table_ok GenPrec.table = true.
Proof. vm_compute. reflexivity. Qed.

Theorem C14_arrow_ok : arrow_ok gen_ptab.
Proof. split; vm_compute; [reflexivity|]. repeat constructor. Qed.

Theorem C14_do_not_infix : pt_valid gen_ptab (TK KDo) = false.
Proof. vm_compute. reflexivity. Qed.

Lemma gen_ok : tab_ok gen_ptab.
Proof. apply tab_okb_sound. pose proof C14_table_ok as H. unfold prec_table_ok in H. apply andb_prop in H. exact (proj2 H). Qed.

(* ---- prime call ---- *)
Theorem C14_prime_call : forall fn args,
  is_capitalized fn = false -> lower_args args = true -> dwf_args args = true ->
  forall rest, prime_end gen_ptab false rest ->
  exists f0, forall f, f0 <= f -> exists c1 c2,
    parse_expression gen_ptab f (prime_tokens fn args ++ rest) = Ok (call_tree fn args, c1)
    /\ parse_expression gen_ptab f (paren_tokens fn args ++ rest) = Ok (call_tree fn args, c2)
    /\ post c1 = rest /\ post c2 = rest.
Proof. exact (prime_call gen_ptab gen_ok). Qed.

(* ---- arrow call ---- *)
Theorem C14_arrow_call : forall l fn args,
  atomic l = true -> lower_ok l = true -> dwf l = true ->
  is_capitalized fn = false -> lower_args args = true -> dwf_args args = true ->
  forall rest, follow_rest gen_ptab false rest ->
  exists f0, forall f, f0 <= f -> exists c,
    parse_expression gen_ptab f (pp l ++ TK KArrow :: paren_tokens fn args ++ rest) = Ok (arrow_tree l fn args, c)
    /\ post c = rest.
Proof. intros l fn args. exact (arrow_call_parses gen_ptab gen_ok l fn args C14_arrow_ok). Qed.

(* ---- redundant parentheses ---- *)
Theorem C14_paren : forall e1 e2, unparen e1 = unparen e2 ->
  lower_ok e1 = true -> dwf e1 = true -> lower_ok e2 = true -> dwf e2 = true ->
  forall rest, follow_rest gen_ptab false rest ->
  exists f0, forall f, f0 <= f -> exists t1 c1 t2 c2,
    parse_expression gen_ptab f (pp e1 ++ rest) = Ok (t1, c1) /\ parse_expression gen_ptab f (pp e2 ++ rest) = Ok (t2, c2)
    /\ strip_e t1 = strip_e t2 /\ post c1 = rest /\ post c2 = rest.
Proof. exact (paren_insignificant gen_ptab gen_ok). Qed.

(* ---- loop do ---- *)
Theorem C14_loop_do_step : forall p ts ov b f body c3,
  go gen_ptab f (QStmt (mkctx (TK KLoop :: p) (TK KDo :: ts) ov false)) = Ok (RS body c3) ->
  go gen_ptab (S f) (QStmt (mkctx p (TK KLoop :: TK KDo :: ts) ov b)) = loop_finish b (EBool true) body c3.
Proof. exact (loop_do_step gen_ptab). Qed.

Theorem C14_loop_true_do_step : forall p ts ov b f body c3,
  go gen_ptab (S (S f)) (QStmt (mkctx (TBool true :: TK KLoop :: p) (TK KDo :: ts) ov false)) = Ok (RS body c3) ->
  go gen_ptab (S (S (S f))) (QStmt (mkctx p (TK KLoop :: TBool true :: TK KDo :: ts) ov b))
  = loop_finish b (EBool true) body c3.
Proof. intros p ts ov b f body c3. exact (loop_true_do_step gen_ptab p ts ov b f body c3 C14_do_not_infix). Qed.

Theorem C14_loop_do_conditional : forall p ts ov b f body c3 c3',
  go gen_ptab (S (S f)) (QStmt (mkctx (TK KLoop :: p) (TK KDo :: ts) ov false)) = Ok (RS body c3) ->
  go gen_ptab (S (S f)) (QStmt (mkctx (TBool true :: TK KLoop :: p) (TK KDo :: ts) ov false)) = Ok (RS body c3') ->
  same_modulo_pre c3 c3' -> prev_smp c3 c3' ->
  same_out (go gen_ptab (S (S (S f))) (QStmt (mkctx p (TK KLoop :: TK KDo :: ts) ov b)))
           (go gen_ptab (S (S (S f))) (QStmt (mkctx p (TK KLoop :: TBool true :: TK KDo :: ts) ov b))).
Proof. intros p ts ov b f body c3 c3'. exact (loop_do_conditional gen_ptab p ts ov b f body c3 c3' C14_do_not_infix). Qed.

(* ---- layout, parser side ---- *)
Theorem C14_layout_token : forall c c', layout_eq c c' -> token c = token c'.
Proof. exact layout_token. Qed.
Theorem C14_layout_skip : forall c c', layout_eq c c' -> layout_eq (skip 1 c) (skip 1 c').
Proof. exact layout_skip1. Qed.
Theorem C14_layout_lookahead : forall c c', layout_eq c c' -> look2 c = look2 c' /\ look3 c = look3 c'.
Proof. intros c c' H. split; [exact (layout_look2 c c' H)|exact (layout_look3 c c' H)]. Qed.
Theorem C14_layout_enter_bracket : forall c c', erase true (post c) = erase true (post c') ->
  layout_eq (fst (push_nl true c)) (fst (push_nl true c')).
Proof. exact layout_push_true. Qed.

(* newlines inside brackets and comments anywhere: the expression parser cannot tell the difference *)
Theorem C14_bracket_sane : bracket_sane gen_ptab.
Proof.
  intros t [H|H]; destruct t as [| | | | | |k|]; try discriminate; destruct k; try discriminate;
    vm_compute; split; reflexivity.
Qed.

Theorem C14_nl_in_brackets : forall ts ts' f,
  insignificant_diff ts ts' -> frag ts -> frag ts' ->
  (match ts with TComment :: _ => False | _ => True end) ->
  (match ts' with TComment :: _ => False | _ => True end) ->
  match parse_expression gen_ptab f ts, parse_expression gen_ptab f ts' with
  | Ok (e, c), Ok (e', c') => e = e' /\ rel false [] c c'
  | Err _ _, Err _ _ => True
  | Fuel, Fuel => True
  | Panic, Panic => True
  | _, _ => False
  end.
Proof. exact (nl_in_brackets gen_ptab C14_bracket_sane). Qed.

(* ---- layout, lexer side ---- *)
Theorem C14_ws_token : forall a w w' rest rest', a <> [] ->
  dies_after gen_table a w = true -> dies_after gen_table a w' = true ->
  next_raw gen_table (a ++ w :: rest) = next_raw gen_table (a ++ w' :: rest').
Proof. exact (ws_insert_token gen_table). Qed.

(* ---- the statement parser does not look behind the cursor; `loop do` == `loop true do` ---- *)
Theorem C14_total_ok : total_ok gen_ptab.
Proof. apply total_ok_interp. vm_compute. reflexivity. Qed.

Theorem C14_statement_pre_insensitive : forall f c c' s c3, same_modulo_pre c c' ->
  go gen_ptab f (QStmt c) = Ok (RS s c3) ->
  exists c3', go gen_ptab f (QStmt c') = Ok (RS s c3') /\ same_modulo_pre c3 c3' /\ prev_smp c3 c3'.
Proof. exact (statement_pre_insensitive gen_ptab C14_total_ok). Qed.

Theorem C14_loop_do_unconditional : forall p ts ov b f s c,
  go gen_ptab f (QStmt (mkctx p (TK KLoop :: TK KDo :: ts) ov b)) = Ok (RS s c) ->
  exists g c', go gen_ptab g (QStmt (mkctx p (TK KLoop :: TBool true :: TK KDo :: ts) ov b)) = Ok (RS s c')
               /\ same_modulo_pre c c'.
Proof. exact (loop_do gen_ptab C14_total_ok C14_do_not_infix). Qed.

Theorem C14_loop_do_converse : forall p ts ov b f s c,
  go gen_ptab f (QStmt (mkctx p (TK KLoop :: TBool true :: TK KDo :: ts) ov b)) = Ok (RS s c) ->
  exists g c', go gen_ptab g (QStmt (mkctx p (TK KLoop :: TK KDo :: ts) ov b)) = Ok (RS s c')
               /\ same_modulo_pre c c'.
Proof. exact (loop_do_converse gen_ptab C14_total_ok C14_do_not_infix). Qed.

(* ---- C14_nl_in_brackets_statement_level, as it was stated, is false ---- *)
(* do <nl> x = ( 1 2 <nl> 3 <nl> ... <nl> 14 ) <nl> end <nl>   against the same without the inner line breaks:
   `1 2` is a syntax error; the first input resumes at each inner line break (one more round of the block loop
   per line), the second at the end of the line.  With fuel 8 the second has reported its error while the
   first is still out of fuel. *)
Definition refute_mid (with_nl : bool) : list tok :=
  flat_map (fun n => if with_nl then [TK KNewline; TInt (N.of_nat n)] else [TInt (N.of_nat n)]) (seq 3 12).
Definition refute_ts (with_nl : bool) : list tok :=
  [TK KDo; TK KNewline; TIdent (ascii_name "x"); TK KEqual; TK KLeftParen; TInt 1; TInt 2] ++ refute_mid with_nl
  ++ [TK KRightParen; TK KNewline; TK KEnd; TK KNewline].

Theorem C14_nl_in_brackets_statement_level_same_fuel_refuted : ~ nl_in_brackets_statement_level gen_ptab.
Proof.
  intros H. specialize (H (refute_ts true) (refute_ts false) 8).
  assert (D : insignificant_diff (refute_ts true) (refute_ts false)).
  { unfold insignificant_diff. vm_compute.
    repeat first [ apply E_nil
                 | apply E_tok; [reflexivity|reflexivity|reflexivity|]
                 | apply E_open; [reflexivity|]
                 | apply E_close; [reflexivity|]
                 | apply E_close0; [reflexivity|]
                 | apply E_trl; [reflexivity|] ]. }
  assert (F1 : frag (refute_ts true)) by (vm_compute; repeat constructor).
  assert (F2 : frag (refute_ts false)) by (vm_compute; repeat constructor).
  specialize (H D F1 F2 I I). vm_compute in H. exact H.
Qed.

(* ---- the corrected statement, proved ---- *)
Theorem C14_nl_in_brackets_statement_settled : forall ts ts' f,
  insignificant_diff ts ts' -> frag ts -> frag ts' ->
  (match ts with TComment :: _ => False | _ => True end) ->
  (match ts' with TComment :: _ => False | _ => True end) ->
  parse_fuel ts <= f -> parse_fuel ts' <= f ->
  match parse_statement gen_ptab f ts, parse_statement gen_ptab f ts' with
  | Ok (s, _), Ok (s', _) => s = s'
  | Err _ _, Err _ _ => True
  | _, _ => False
  end.
Proof. exact (nl_in_brackets_statement_settled gen_ptab C14_bracket_sane C14_total_ok). Qed.

(* ---- whole programs: comments ---- *)
(* Two files (token lists, as sylt_parser's module() receives them) that are equal once the comment tokens are
   removed - comment lines, comments at the end of a line, before the first token, inside brackets, anywhere -
   are both rejected, or both accepted with the same top-level statements (equal trees) up to EmptyStatements
   (a comment before a blank line, or after the last statement, leaves an EmptyStatement that carries it).  At
   every fuel, with the same kind of outcome; every statement form, fn/if/case bodies included.  The file must
   contain a token other than a comment: a file consisting of a comment without a line break is rejected while
   the empty file is accepted (known finding).  Parse/SimGen.v + Parse/CommentSim.v. *)
Theorem C14_comments_anywhere : forall ts ts' f,
  CommentSim.ec ts = CommentSim.ec ts' -> hd TEOF (CommentSim.ec ts) <> TEOF ->
  match parse_program gen_ptab f ts, parse_program gen_ptab f ts' with
  | Ok (ss, _), Ok (ss', _) => SimGen.noempty ss = SimGen.noempty ss'
  | Err _ _, Err _ _ => True
  | Fuel, Fuel => True
  | Panic, Panic => True
  | _, _ => False
  end.
Proof. exact (CommentSim.comments_anywhere gen_ptab C14_total_ok). Qed.

(* the same for one statement: the same tree *)
Theorem C14_comments_statement : forall ts ts' f, CommentSim.ec ts = CommentSim.ec ts' ->
  (match ts with TComment :: _ => False | _ => True end) ->
  (match ts' with TComment :: _ => False | _ => True end) ->
  match parse_statement gen_ptab f ts, parse_statement gen_ptab f ts' with
  | Ok (s, _), Ok (s', _) => s = s'
  | Err _ _, Err _ _ => True
  | Fuel, Fuel => True
  | Panic, Panic => True
  | _, _ => False
  end.
Proof. exact (CommentSim.comments_statement gen_ptab C14_total_ok). Qed.

(* ---- the sugar normal form (Syntax/SugarNF.v): the parser half of "all surface variants compile to the same code" ----
   [snf_e] / [snf_s] / [snf_program] erase Parenthesis nodes, turn `a -> f(b)` into `f(a, b)`, turn a trailing expression
   statement of a function body into `ret`, and drop EmptyStatements.  Every surface variant pair of C14 parses to
   trees with equal normal forms (prime calls and `loop do` even to equal trees: C14_prime_call,
   C14_loop_do_unconditional). *)
Theorem C14_nf_paren : forall e1 e2, unparen e1 = unparen e2 ->
  lower_ok e1 = true -> dwf e1 = true -> lower_ok e2 = true -> dwf e2 = true ->
  forall rest, follow_rest gen_ptab false rest ->
  exists f0, forall f, f0 <= f -> exists t1 c1 t2 c2,
    parse_expression gen_ptab f (pp e1 ++ rest) = Ok (t1, c1) /\ parse_expression gen_ptab f (pp e2 ++ rest) = Ok (t2, c2)
    /\ snf_e t1 = snf_e t2 /\ post c1 = rest /\ post c2 = rest.
Proof. exact (nf_paren gen_ptab gen_ok). Qed.

Theorem C14_nf_prime : forall fn args, is_capitalized fn = false -> lower_args args = true -> dwf_args args = true ->
  forall rest, prime_end gen_ptab false rest ->
  exists f0, forall f, f0 <= f -> exists t1 c1 t2 c2,
    parse_expression gen_ptab f (prime_tokens fn args ++ rest) = Ok (t1, c1)
    /\ parse_expression gen_ptab f (paren_tokens fn args ++ rest) = Ok (t2, c2)
    /\ snf_e t1 = snf_e t2 /\ post c1 = rest /\ post c2 = rest.
Proof. exact (nf_prime gen_ptab gen_ok). Qed.

Theorem C14_nf_arrow : forall l fn args,
  atomic l = true -> lower_ok l = true -> dwf l = true ->
  is_capitalized fn = false -> lower_args args = true -> dwf_args args = true ->
  forall rest, follow_rest gen_ptab false rest ->
  exists f0, forall f, f0 <= f -> exists t1 c1 t2 c2,
    parse_expression gen_ptab f (pp l ++ TK KArrow :: paren_tokens fn args ++ rest) = Ok (t1, c1)
    /\ parse_expression gen_ptab f (paren_tokens fn (ACons l args) ++ rest) = Ok (t2, c2)
    /\ snf_e t1 = snf_e t2 /\ post c1 = rest /\ post c2 = rest.
Proof. intros l fn args. exact (nf_arrow gen_ptab gen_ok l fn args C14_arrow_ok). Qed.

(* the implicit return value: a function body that ends in the expression statement `e` and one that ends in `ret e` *)
Theorem C14_nf_implicit_ret : forall ps r b v pu,
  snf_e (EFn ps r (b ++ [SExpr v]) pu) = snf_e (EFn ps r (b ++ [SRet (Some v)]) pu).
Proof. exact snf_implicit_ret. Qed.

(* ... and its parser half for operator trees: the statement `e` and the statement `ret e` carry the same tree *)
Theorem C14_nf_tail_statement : forall e, lower_ok e = true -> dwf e = true ->
  forall p p' rest rest' ov ov' b b', exists f0, forall f, f0 <= f -> exists c c',
    go gen_ptab (S f) (QStmt (mkctx p (pp e ++ TK KNewline :: rest) ov b)) = Ok (RS (SExpr (emb e)) c)
    /\ go gen_ptab (S f) (QStmt (mkctx p' (TK KRet :: pp e ++ TK KNewline :: rest') ov' b')) = Ok (RS (SRet (Some (emb e))) c')
    /\ tail_ret [nf_s (strip_s (SExpr (emb e)))] = tail_ret [nf_s (strip_s (SRet (Some (emb e))))].
Proof.
  intros e. apply (nf_tail_statement gen_ptab gen_ok); [vm_compute; reflexivity|exact C14_do_not_infix].
Qed.

(* comments and blank lines at the top level: files with the same statements up to EmptyStatements
   (the conclusion of C14_comments_anywhere) have the same normal form *)
Theorem C14_nf_program : forall ss ss', SimGen.noempty ss = SimGen.noempty ss' -> snf_program ss = snf_program ss'.
Proof. exact snf_program_of_noempty. Qed.

(* ... and for whole files of the fragment (the module loop with its error recovery): the same top-level
   statements up to EmptyStatements, or both rejected *)
Theorem C14_nl_in_brackets_program : forall ts ts' f,
  insignificant_diff ts ts' -> frag ts -> frag ts' ->
  (match ts with TComment :: _ => False | _ => True end) ->
  (match ts' with TComment :: _ => False | _ => True end) ->
  parse_fuel ts <= f -> parse_fuel ts' <= f ->
  match parse_program gen_ptab f ts, parse_program gen_ptab f ts' with
  | Ok (ss, _), Ok (ss', _) => SimGen.noempty ss = SimGen.noempty ss'
  | Err _ _, Err _ _ => True
  | _, _ => False
  end.
Proof. exact (nl_in_brackets_program gen_ptab C14_bracket_sane C14_total_ok). Qed.

(* comments, end to end on the parser side: two files that differ only in comments have the same normal form *)
Theorem C14_comments_same_normal_form : forall ts ts' f ss c ss' c',
  CommentSim.ec ts = CommentSim.ec ts' -> hd TEOF (CommentSim.ec ts) <> TEOF ->
  parse_program gen_ptab f ts = Ok (ss, c) -> parse_program gen_ptab f ts' = Ok (ss', c') ->
  snf_program ss = snf_program ss'.
Proof.
  intros ts ts' f ss c ss' c' H Hne E E'. pose proof (C14_comments_anywhere ts ts' f H Hne) as G.
  rewrite E, E' in G. apply snf_program_of_noempty. exact G.
Qed.

(* ---- blank lines, whole files, every nesting level ----
   [ts'] is [ts] with more blank lines: newlines added next to newlines (anywhere: between top-level statements,
   inside function bodies, blocks, branches of if / case, inside brackets), and at the start of the file.  Compared are
   the token lists WITHOUT their comments, so a comment-only line counts as a blank line, and comments may differ.
   With at least parse_fuel on both sides (any amounts): both files are accepted and the trees are equal after
   removing the EmptyStatements from every statement list (Syntax/DropEmpty.v: the resolver never looks at them,
   C14_resolve_drops_empties below), or both are rejected.
   Proof (Parse/BlankCtx.v, Parse/BlankSim.v): a STUTTERING simulation of the whole parser - the two runs are in step
   except at the heads of the loops for which a newline is a no-op (the statement loop of a block, where the right
   run produces one more EmptyStatement; the case-branch loop; the blob-field loop; the module loop), where the right
   run goes round once more for every newline the left list does not have; results are compared up to
   EmptyStatements, out of fuel is a wildcard that the totality theorem removes at the end, error contexts are
   not compared (a block that has recorded an error never answers Ok). *)
Theorem C14_nl_plain : Parse.BlankSim.nl_plain gen_ptab.
Proof. split; vm_compute; reflexivity. Qed.

Theorem C14_blank_lines_program : forall ts ts' f f',
  Parse.BlankSim.more_blank_lines (CommentSim.ec ts) (CommentSim.ec ts') -> hd TEOF (CommentSim.ec ts) <> TEOF ->
  parse_fuel ts <= f -> parse_fuel ts' <= f' ->
  match parse_program gen_ptab f ts, parse_program gen_ptab f' ts' with
  | Ok (ss, _), Ok (ss', _) => Syntax.DropEmpty.de_program ss = Syntax.DropEmpty.de_program ss'
  | Err _ _, Err _ _ => True
  | _, _ => False
  end.
Proof. exact (Parse.BlankSim.blank_lines_program gen_ptab C14_total_ok C14_nl_plain). Qed.

(* the hypothesis on token lists with their comments: blank lines added, comments untouched *)
Theorem C14_more_blank_lines_with_comments : forall ts ts',
  Parse.BlankSim.more_blank_lines ts ts' -> Parse.BlankSim.more_blank_lines (CommentSim.ec ts) (CommentSim.ec ts').
Proof. exact Parse.BlankSim.more_blank_lines_ec. Qed.

(* the definitions used, pinned *)
Example C14_blank_lines_defs :
  (forall ts ts', Parse.BlankSim.more_blank_lines ts ts' <->
                  exists k r0, ts' = (repeat (TK KNewline) k ++ r0)%list /\ Parse.BlankCtx.BL ts r0) /\
  Parse.BlankCtx.BL [] [] /\
  (forall t l l', Parse.BlankCtx.BL l l' -> Parse.BlankCtx.BL (t :: l) (t :: l')) /\
  (forall l l', Parse.BlankCtx.BL (TK KNewline :: l) (TK KNewline :: l') ->
                Parse.BlankCtx.BL (TK KNewline :: l) (TK KNewline :: TK KNewline :: l')) /\
  (forall ss, Syntax.DropEmpty.de_program ss = Syntax.DropEmpty.drop_with Syntax.DropEmpty.de_s ss) /\
  Syntax.DropEmpty.de_program [SEmpty; SBlock [SEmpty; SBreak; SEmpty]; SEmpty; SLoop (EBool true) SEmpty]
  = [SBlock [SBreak]; SLoop (EBool true) SEmpty].
Proof.
  split; [intros ts ts'; split; intros H; exact H|]. split; [constructor|]. split; [intros; constructor; assumption|].
  split; [intros; apply Parse.BlankCtx.BL_dup; assumption|]. split; reflexivity.
Qed.
Print Assumptions C14_blank_lines_program.

(* ---- line breaks inside brackets, whole files of the FULL language (no `frag` restriction on the file) ----
   [NB 0 ts ts']: the two token lists (without their comments) are equal except for newline tokens inside SIMPLE
   bracket groups: ( ... ), [ ... ], { ... } whose content has no fn / pu / if / case (brackets nest).  An opening
   bracket may also be read as a plain token, so groups that contain blocks are allowed - they have to be the same on
   both sides up to their own inner simple groups.  Everything else of the language is allowed everywhere.
   With at least parse_fuel on both sides: both files are accepted, with the same tree (the same top-level statements
   up to EmptyStatements when comments differ), or both are rejected.
   Parse/NbCtx.v (the cursor level), Parse/NbSim.v (a simulation of the whole parser in which the bracket depth is
   threaded through every request; entering and leaving a group restores the saved flag, [link]). *)
Theorem C14_nl_in_brackets_full : forall ts ts' f f',
  Parse.NbCtx.NB 0 (CommentSim.ec ts) (CommentSim.ec ts') ->
  hd TEOF (CommentSim.ec ts) <> TEOF -> hd TEOF (CommentSim.ec ts') <> TEOF ->
  parse_fuel ts <= f -> parse_fuel ts' <= f' ->
  match parse_program gen_ptab f ts, parse_program gen_ptab f' ts' with
  | Ok (ss, _), Ok (ss', _) => SimGen.noempty ss = SimGen.noempty ss'
  | Err _ _, Err _ _ => True
  | _, _ => False
  end.
Proof. exact (Parse.NbSim.nl_in_brackets_full gen_ptab C14_total_ok C14_bracket_sane). Qed.

(* without comments: the same tree *)
Theorem C14_nl_in_brackets_full_nocom : forall ts ts' f f',
  Parse.BlankCtx.nocom ts -> Parse.NbCtx.NB 0 ts ts' -> parse_fuel ts <= f -> parse_fuel ts' <= f' ->
  match parse_program gen_ptab f ts, parse_program gen_ptab f' ts' with
  | Ok (ss, _), Ok (ss', _) => ss = ss'
  | Err _ _, Err _ _ => True
  | _, _ => False
  end.
Proof. exact (Parse.NbSim.nl_in_brackets_full_nocom gen_ptab C14_total_ok C14_bracket_sane). Qed.

(* the relation, pinned by its rules *)
Example C14_NB_rules :
  (forall d, Parse.NbCtx.NB d [] []) /\
  (forall t l l', Parse.NbCtx.NB 0 l l' -> Parse.NbCtx.NB 0 (t :: l) (t :: l')) /\
  (forall d t l l', opener t = true -> Parse.NbCtx.NB (S d) l l' -> Parse.NbCtx.NB d (t :: l) (t :: l')) /\
  (forall d t l l', opener t = false -> closer t = false -> Parse.BlankCtx.isNL t = false -> frag_tok t = true ->
                    Parse.NbCtx.NB (S d) l l' -> Parse.NbCtx.NB (S d) (t :: l) (t :: l')) /\
  (forall d t l l', closer t = true -> Parse.NbCtx.NB d l l' -> Parse.NbCtx.NB (S d) (t :: l) (t :: l')) /\
  (forall d l l', Parse.NbCtx.NB (S d) l l' -> Parse.NbCtx.NB (S d) (TK KNewline :: l) l') /\
  (forall d l l', Parse.NbCtx.NB (S d) l l' -> Parse.NbCtx.NB (S d) l (TK KNewline :: l')).
Proof.
  split; [constructor|]. split; [intros; apply Parse.NbCtx.NB_any; assumption|].
  split; [intros; apply Parse.NbCtx.NB_open; assumption|]. split; [intros; apply Parse.NbCtx.NB_tok; assumption|].
  split; [intros; apply Parse.NbCtx.NB_close; assumption|]. split; [intros; apply Parse.NbCtx.NB_nll; assumption|].
  intros; apply Parse.NbCtx.NB_nlr; assumption.
Qed.
Print Assumptions C14_nl_in_brackets_full.

(* ---- stated, refuted above, kept visible ---- *)
Definition C14_nl_in_brackets_statement_level : Prop := nl_in_brackets_statement_level gen_ptab.   (* refuted above *)

(* ---- the lexer, whole input: white space inserted at a token boundary ---- *)
(* the three patterns that are not white-space free, and the others before / between them *)
Definition C14_dpat : pat := mkPat "" (XLit []) 0 CbUnit.
Definition C14_pString : pat := nth 6 gen_table C14_dpat.
Definition C14_pComment : pat := nth 72 gen_table C14_dpat.
Definition C14_pWhitespace : pat := nth 73 gen_table C14_dpat.
Definition C14_before_string : live := firstn 6 (start_live gen_table).
Definition C14_after_string : live := firstn 65 (skipn 7 (start_live gen_table)).

(* the facts about the table are checked by computation *)
Ltac c14_table_fact := first [vm_compute; reflexivity | split; vm_compute; reflexivity].
Lemma C14_tab_L0 : start_live gen_table
  = (C14_before_string ++ [(C14_pString, Lex.WsInsert.S0)] ++ C14_after_string
     ++ [(C14_pComment, Lex.WsInsert.C0); (C14_pWhitespace, Lex.WsInsert.W0)])%list.
Proof. vm_compute. reflexivity. Qed.
Lemma C14_tab_E1 : Lex.WsInsert.allw C14_before_string = true.
Proof. vm_compute. reflexivity. Qed.
Lemma C14_tab_E2 : Lex.WsInsert.allw C14_after_string = true.
Proof. vm_compute. reflexivity. Qed.
Lemma C14_tab_34 : step_live 34 C14_before_string = [] /\ step_live 34 C14_after_string = [].
Proof. split; vm_compute; reflexivity. Qed.
Lemma C14_tab_47 : step_live 47 (step_live 47 C14_before_string ++ step_live 47 C14_after_string)%list = [].
Proof. vm_compute. reflexivity. Qed.
Lemma C14_tab_cbW : p_cb C14_pWhitespace = CbSkip.
Proof. reflexivity. Qed.
Lemma C14_tab_cbC : p_cb C14_pComment = CbComment /\ p_kind C14_pComment = "Comment"%string.
Proof. split; reflexivity. Qed.

Theorem C14_ws_insert_whole_input : ws_insert_statement gen_table.
Proof.
  apply (Lex.WsInsert.ws_insert gen_table C14_pString C14_pComment C14_pWhitespace C14_before_string C14_after_string);
    c14_table_fact.
Qed.
Print Assumptions C14_ws_insert_whole_input.

(* spelled out *)
Theorem C14_ws_insert_spelled : forall s1 s2 ws rs1, ws <> [] -> forallb is_ws_char ws = true ->
  concat (map r_text rs1) = s1 ->
  raw_lex (length (s1 ++ s2)) gen_table (s1 ++ s2) = rs1 ++ raw_lex (length s2) gen_table s2 ->
  kinds (lex gen_table (s1 ++ ws ++ s2)) = kinds (lex gen_table (s1 ++ s2)).
Proof. intros s1 s2 ws rs1 Hne Hws Hc H. apply C14_ws_insert_whole_input; [exact Hne|exact Hws|exists rs1; split; assumption]. Qed.

(* ---- re-spacing: other white space between the tokens, at any number of places at once ----
   [weave] builds the new text from the raw tokens of [s] (Logos.raw_lex tiles the input: tokens, skipped white
   space, pieces that are no token) and one white-space string per raw token: a skipped token is REPLACED by its
   string (not empty), any other token is FOLLOWED by its string (possibly empty); [u0] goes in front.
   Tabs instead of spaces, other indentation, trailing white space, CR before LF are all of this form.
   The statement is an equation, so it also reads from the re-spaced text to the original. *)
Theorem C14_skip_ok : Lex.LexerProofs.skip_ok gen_table = true.
Proof. vm_compute. reflexivity. Qed.

Theorem C14_respace : forall s u0 us,
  length us = length (raw_lex (length s) gen_table s) ->
  forallb is_ws_char u0 = true ->
  Forall Lex.WsInsert.u_ok (combine (raw_lex (length s) gen_table s) us) ->
  kinds (lex gen_table (u0 ++ Lex.WsInsert.weave (combine (raw_lex (length s) gen_table s) us)))
  = kinds (lex gen_table s).
Proof.
  apply (Lex.WsInsert.respace gen_table C14_pString C14_pComment C14_pWhitespace C14_before_string C14_after_string);
    c14_table_fact.
Qed.
Print Assumptions C14_respace.

(* the definitions used in the statement, pinned *)
Example C14_respace_defs :
  (forall ru, Lex.WsInsert.nt ru
              = if Lex.WsInsert.is_skip (fst ru) then snd ru else (r_text (fst ru) ++ snd ru)%list) /\
  (forall rus, Lex.WsInsert.weave rus = concat (map Lex.WsInsert.nt rus)) /\
  (forall r, Lex.WsInsert.is_skip r = match r_kind r with KSkip => true | _ => false end) /\
  (forall ru, Lex.WsInsert.u_ok ru <->
              forallb is_ws_char (snd ru) = true /\ (Lex.WsInsert.is_skip (fst ru) = true -> snd ru <> [])).
Proof. split; [reflexivity|split; [reflexivity|split; [reflexivity|intros ru; split; intros H; exact H]]]. Qed.

(* CRLF line ends: every LF becomes CR LF.  Hypothesis (decidable, by computation on the input): no raw token
   other than the line-break token itself contains a line break - that is, no string literal runs over a line end. *)
Theorem C14_crlf_same : forall s,
  forallb Lex.WsInsert.nl_alone (raw_lex (length s) gen_table s) = true ->
  kinds (lex gen_table (Lex.WsInsert.crlf s)) = kinds (lex gen_table s).
Proof.
  apply (Lex.WsInsert.crlf_same gen_table C14_pString C14_pComment C14_pWhitespace C14_before_string C14_after_string);
    c14_table_fact.
Qed.
Print Assumptions C14_crlf_same.

Example C14_crlf_defs :
  (forall s, Lex.WsInsert.crlf s = flat_map (fun c => if (c =? 10)%N then [13%N; 10%N] else [c]) s) /\
  (forall r, Lex.WsInsert.nl_alone r
             = (eqb_list (r_text r) [10%N] || negb (existsb (N.eqb 10) (r_text r)))).
Proof. split; reflexivity. Qed.

(* ---- the same, for what the PARSER is given ----
   Entry.drive runs the parser model on [map classify (lex gen_table source)]: all tokens, comments too (a comment
   is one token without text).  Re-spaced source text and CR LF line ends give the parser literally the same token
   list - hence the same tree, the same consumed count and the same error positions (as token indices). *)
Theorem C14_ws_insert_same_parser_input : forall s1 s2 ws rs1, ws <> [] -> forallb is_ws_char ws = true ->
  concat (map r_text rs1) = s1 ->
  raw_lex (length (s1 ++ s2)) gen_table (s1 ++ s2) = rs1 ++ raw_lex (length s2) gen_table s2 ->
  map classify (lex gen_table (s1 ++ ws ++ s2)) = map classify (lex gen_table (s1 ++ s2)).
Proof.
  intros s1 s2 ws rs1 Hne Hws Hc H. apply Parse.SourceLayout.same_ckinds_same_tokens.
  apply (Lex.WsInsert.ws_insert_c gen_table C14_pString C14_pComment C14_pWhitespace C14_before_string C14_after_string
           C14_tab_L0 C14_tab_E1 C14_tab_E2 C14_tab_34 C14_tab_47 C14_tab_cbW C14_tab_cbC);
    [exact Hne|exact Hws|exists rs1; split; assumption].
Qed.

Theorem C14_respace_same_parser_input : forall s u0 us,
  length us = length (raw_lex (length s) gen_table s) ->
  forallb is_ws_char u0 = true ->
  Forall Lex.WsInsert.u_ok (combine (raw_lex (length s) gen_table s) us) ->
  map classify (lex gen_table (u0 ++ Lex.WsInsert.weave (combine (raw_lex (length s) gen_table s) us)))
  = map classify (lex gen_table s).
Proof.
  intros s u0 us Hl Hu0 Hu. apply Parse.SourceLayout.same_ckinds_same_tokens.
  apply (Lex.WsInsert.respace_c gen_table C14_pString C14_pComment C14_pWhitespace C14_before_string C14_after_string
           C14_tab_L0 C14_tab_E1 C14_tab_E2 C14_tab_34 C14_tab_47 C14_tab_cbW C14_tab_cbC C14_skip_ok); assumption.
Qed.

Theorem C14_crlf_same_parser_input : forall s,
  forallb Lex.WsInsert.nl_alone (raw_lex (length s) gen_table s) = true ->
  map classify (lex gen_table (Lex.WsInsert.crlf s)) = map classify (lex gen_table s).
Proof.
  intros s H. apply Parse.SourceLayout.same_ckinds_same_tokens.
  apply (Lex.WsInsert.crlf_same_c gen_table C14_pString C14_pComment C14_pWhitespace C14_before_string C14_after_string
           C14_tab_L0 C14_tab_E1 C14_tab_E2 C14_tab_34 C14_tab_47 C14_tab_cbW C14_tab_cbC C14_skip_ok); assumption.
Qed.

(* whole files, source text to tree: the same outcome for every fuel (tree, or error positions, or out of fuel) *)
Corollary C14_crlf_same_program : forall T f s,
  forallb Lex.WsInsert.nl_alone (raw_lex (length s) gen_table s) = true ->
  parse_program T f (map classify (lex gen_table (Lex.WsInsert.crlf s)))
  = parse_program T f (map classify (lex gen_table s)).
Proof. intros T f s H. rewrite (C14_crlf_same_parser_input s H). reflexivity. Qed.

Corollary C14_respace_same_program : forall T f s u0 us,
  length us = length (raw_lex (length s) gen_table s) ->
  forallb is_ws_char u0 = true ->
  Forall Lex.WsInsert.u_ok (combine (raw_lex (length s) gen_table s) us) ->
  parse_program T f (map classify (lex gen_table (u0 ++ Lex.WsInsert.weave (combine (raw_lex (length s) gen_table s) us))))
  = parse_program T f (map classify (lex gen_table s)).
Proof. intros T f s u0 us Hl Hu0 Hu. rewrite (C14_respace_same_parser_input s u0 us Hl Hu0 Hu). reflexivity. Qed.

Print Assumptions C14_ws_insert_same_parser_input.
Print Assumptions C14_respace_same_parser_input.
Print Assumptions C14_crlf_same_program.

(* ---- a blank line in the SOURCE TEXT ----
   The line-break character inserted right after a line-break token of the source (or at the very start): the
   lexer gives one more Newline token there (Lex/WsInsert.v, nl_insert_raw: every other raw token is unchanged -
   a regex without the line-break character dies on it, after the line-break token nothing goes on), so the
   parser's token list has one more blank line and C14_blank_lines_program applies.  With C14_respace on top the
   new line may contain white space. *)
Definition C14_pNewline : pat := nth 65 gen_table C14_dpat.
Lemma C14_tab_n0 : Lex.WsInsert.n0 C14_before_string = true /\ Lex.WsInsert.n0 C14_after_string = true.
Proof. split; vm_compute; reflexivity. Qed.
Lemma C14_tab_N :
  best_nullable (step_live 10 C14_before_string ++ step_live 10 C14_after_string)%list None = Some C14_pNewline /\
  p_cb C14_pNewline = CbUnit /\ p_kind C14_pNewline = "Newline"%string.
Proof. split; [vm_compute; reflexivity|split; reflexivity]. Qed.

Theorem C14_blank_line_lexer : forall s1 s2 rs1,
  concat (map r_text rs1) = s1 ->
  raw_lex (length (s1 ++ s2)) gen_table (s1 ++ s2) = rs1 ++ raw_lex (length s2) gen_table s2 ->
  Lex.WsInsert.ends10 rs1 ->
  raw_lex (length (s1 ++ 10%N :: s2)) gen_table (s1 ++ 10%N :: s2)
  = (rs1 ++ mkR (KTok "Newline" PNone) [10%N] :: raw_lex (length s2) gen_table s2)%list.
Proof.
  intros s1 s2 rs1.
  exact (Lex.WsInsert.nl_insert_raw gen_table C14_pString C14_pComment C14_pWhitespace C14_before_string C14_after_string
           C14_tab_L0 C14_tab_E1 C14_tab_E2 C14_tab_34 C14_tab_47 C14_pNewline C14_tab_n0 C14_tab_N rs1 s1 s2).
Qed.

Theorem C14_blank_line_source : forall s1 s2 rs1 f f',
  concat (map r_text rs1) = s1 ->
  raw_lex (length (s1 ++ s2)) gen_table (s1 ++ s2) = rs1 ++ raw_lex (length s2) gen_table s2 ->
  Lex.WsInsert.ends10 rs1 ->
  hd TEOF (CommentSim.ec (map classify (lex gen_table (s1 ++ s2)))) <> TEOF ->
  parse_fuel (map classify (lex gen_table (s1 ++ s2))) <= f ->
  parse_fuel (map classify (lex gen_table (s1 ++ 10%N :: s2))) <= f' ->
  match parse_program gen_ptab f (map classify (lex gen_table (s1 ++ s2))),
        parse_program gen_ptab f' (map classify (lex gen_table (s1 ++ 10%N :: s2))) with
  | Ok (ss, _), Ok (ss', _) => Syntax.DropEmpty.de_program ss = Syntax.DropEmpty.de_program ss'
  | Err _ _, Err _ _ => True
  | _, _ => False
  end.
Proof.
  intros s1 s2 rs1 f f' Hc H He Hne Hf Hf'.
  destruct (Lex.WsInsert.nl_insert_c gen_table C14_pString C14_pComment C14_pWhitespace C14_before_string C14_after_string
              C14_tab_L0 C14_tab_E1 C14_tab_E2 C14_tab_34 C14_tab_47 C14_pNewline C14_tab_n0 C14_tab_N
              s1 s2 rs1 Hc H He) as [EA EB].
  pose proof (Lex.WsInsert.tiled_last gen_table C14_pString C14_pComment C14_pWhitespace C14_before_string C14_after_string
              C14_tab_L0 C14_pNewline C14_tab_n0 C14_tab_N rs1 s1 s2 Hc H He) as TL.
  apply C14_blank_lines_program; [|exact Hne|exact Hf|exact Hf'].
  apply Parse.BlankSim.more_blank_lines_ec.
  apply (Parse.SourceLayout.blank_line_tokens _ _ (Lex.WsInsert.rks rs1) (Lex.WsInsert.rks (raw_lex (length s2) gen_table s2)) EA EB).
  destruct TL as [->|(rs0 & ->)]; [left; reflexivity|right]. exists (Lex.WsInsert.rks rs0).
  rewrite Lex.WsInsert.rks_app. reflexivity.
Qed.
Print Assumptions C14_blank_line_source.

(* the hypothesis pinned: the text before the insertion point is empty or ends with a token whose text is the
   line-break character *)
Example C14_ends10_def :
  Lex.WsInsert.ends10 [] /\
  (forall r rs, Lex.WsInsert.ends10 (r :: rs) <-> r_text (last (r :: rs) (mkR (KTok "Newline" PNone) [10%N])) = [10%N]).
Proof. split; [exact I|]. intros r rs. split; intros H; exact H. Qed.


(* ---- non-vacuity ---- *)
Definition nm (s : string) : name := ascii_name s.
Definition v (s : string) : ox := OGet (nm s) PNil.
Definition two_args : oargs := ACons (v "a") (ACons (OBin Add (v "b") (OInt 1)) ANil).
Definition observe (r : res (expr * ctx)) : option (expr * list tok * nat) :=
  match r with Ok (t, c) => Some (t, post c, consumed c) | _ => None end.
Definition observe_s (r : res (stmt * ctx)) : option (stmt * list tok) :=
  match r with Ok (t, c) => Some (t, post c) | _ => None end.

(* f' a, b + 1 <newline> x   and   f(a, b + 1) <newline> x *)
Example C14_example_prime :
  prime_end gen_ptab false [TK KNewline; TIdent (nm "x")] /\ prime_end gen_ptab false [TK KEnd] /\ prime_end gen_ptab false []
  /\ observe (parse_expression gen_ptab 40 (prime_tokens (nm "f") two_args ++ [TK KNewline; TIdent (nm "x")]))
     = Some (call_tree (nm "f") two_args, [TK KNewline; TIdent (nm "x")], 7)
  /\ observe (parse_expression gen_ptab 40 (paren_tokens (nm "f") two_args ++ [TK KNewline; TIdent (nm "x")]))
     = Some (call_tree (nm "f") two_args, [TK KNewline; TIdent (nm "x")], 8).
Proof. vm_compute. repeat split; try reflexivity; try discriminate; auto. Qed.

(* the argument list continues behind line breaks, blank lines and comment-only lines when a comma follows
   (before or after the comma): this is why prime_end looks at [first_sig] *)
Example C14_example_prime_continuation :
  observe (parse_expression gen_ptab 40
     (prime_tokens (nm "f") (ACons (OInt 1) ANil) ++ [TK KNewline; TK KNewline; TComment; TK KNewline; TK KComma;
                                                      TK KNewline; TK KNewline; TInt 2]))
  = Some (EGet (ACall (ARead (nm "f")) [EInt 1; EInt 2]), [], 11)
  /\ ~ prime_end gen_ptab false [TK KNewline; TK KNewline; TComment; TK KNewline; TK KComma; TInt 2].
Proof. vm_compute. split; [reflexivity|]. intros (_ & _ & _ & H). apply H. reflexivity. Qed.

Example C14_example_arrow :
  observe (parse_expression gen_ptab 40 (pp (v "a") ++ TK KArrow :: paren_tokens (nm "f") (ACons (v "b") ANil)))
  = Some (EGet (AArrowCall (EGet (ARead (nm "a"))) (ARead (nm "f")) [EGet (ARead (nm "b"))]), [], 6).
Proof. vm_compute. reflexivity. Qed.

(* loop do <nl> break <nl> end <nl>   vs   loop true do <nl> break <nl> end <nl> *)
Example C14_example_loop_do :
  observe_s (parse_statement gen_ptab 40
               [TK KLoop; TK KDo; TK KNewline; TK KBreak; TK KNewline; TK KEnd; TK KNewline])
  = observe_s (parse_statement gen_ptab 40
               [TK KLoop; TBool true; TK KDo; TK KNewline; TK KBreak; TK KNewline; TK KEnd; TK KNewline])
  /\ observe_s (parse_statement gen_ptab 40
               [TK KLoop; TK KDo; TK KNewline; TK KBreak; TK KNewline; TK KEnd; TK KNewline])
     = Some (SLoop (EBool true) (SBlock [SEmpty; SBreak]), []).
Proof. vm_compute. split; reflexivity. Qed.

(* f ( <nl> 1 , <nl> // c <nl> 2 <nl> )   vs   f ( 1 , 2 ) *)
Example C14_example_nl_in_brackets :
  option_map fst (observe (parse_expression gen_ptab 40
     [TIdent (nm "f"); TK KLeftParen; TK KNewline; TInt 1; TK KComma; TK KNewline; TComment; TK KNewline; TInt 2;
      TK KNewline; TK KRightParen]))
  = option_map fst (observe (parse_expression gen_ptab 40
     [TIdent (nm "f"); TK KLeftParen; TInt 1; TK KComma; TInt 2; TK KRightParen])).
Proof. vm_compute. reflexivity. Qed.

(* the hypotheses of C14_nl_in_brackets are satisfiable: f(t[0], [1, 2], A { x: 1 }) with line breaks and comments *)
Definition nlb_clean : list tok :=
  [TIdent (nm "f"); TK KLeftParen; TIdent (nm "t"); TK KLeftBracket; TInt 0; TK KRightBracket; TK KComma;
   TK KLeftBracket; TInt 1; TK KComma; TInt 2; TK KRightBracket; TK KComma;
   TIdent (nm "A"); TK KLeftBrace; TIdent (nm "x"); TK KColon; TInt 1; TK KRightBrace; TK KRightParen; TK KNewline].
Definition nlb_dirty : list tok :=
  [TIdent (nm "f"); TComment; TK KLeftParen; TK KNewline; TIdent (nm "t"); TK KLeftBracket; TK KNewline; TInt 0;
   TK KNewline; TK KRightBracket; TK KNewline; TK KComma; TComment; TK KNewline;
   TK KLeftBracket; TInt 1; TK KNewline; TK KComma; TInt 2; TK KRightBracket; TK KComma; TK KNewline;
   TIdent (nm "A"); TK KLeftBrace; TK KNewline; TIdent (nm "x"); TK KColon; TK KNewline; TInt 1; TK KNewline;
   TK KRightBrace; TK KNewline; TK KRightParen; TComment; TK KNewline].

Example C14_example_nlb_hyps : insignificant_diff nlb_clean nlb_dirty /\ frag nlb_clean /\ frag nlb_dirty.
Proof.
  split; [|split; repeat constructor].
  unfold insignificant_diff, nlb_clean, nlb_dirty.
  repeat first [ apply E_nil
               | apply E_tok; [reflexivity|reflexivity|reflexivity|]
               | apply E_open; [reflexivity|]
               | apply E_close; [reflexivity|]
               | apply E_close0; [reflexivity|]
               | apply E_trr; [reflexivity|] ].
Qed.

Example C14_example_nlb_result :
  option_map fst (observe (parse_expression gen_ptab 60 nlb_clean))
  = option_map fst (observe (parse_expression gen_ptab 60 nlb_dirty))
  /\ option_map fst (observe (parse_expression gen_ptab 60 nlb_clean)) <> None.
Proof. vm_compute. split; [reflexivity|discriminate]. Qed.

(* statement level: a loop over a block with a typed definition, a call and a blob literal; line breaks and
   comments inside the brackets only.  The hypotheses of C14_nl_in_brackets_statement_settled hold and both inputs
   are accepted (so the theorem says: with the same tree); the refutation pair is rejected on both sides. *)
Definition nls_clean : list tok :=
  [TK KLoop; TIdent (nm "c"); TK KDo; TK KNewline;
   TIdent (nm "x"); TK KColon; TK KLeftParen; TK KIntType; TK KComma; TK KLeftBracket; TK KIntType; TK KRightBracket;
   TK KRightParen; TK KEqual; TK KLeftParen; TInt 1; TK KComma; TK KLeftBracket; TInt 2; TK KRightBracket; TK KRightParen; TK KNewline;
   TIdent (nm "f"); TK KLeftParen; TIdent (nm "x"); TK KComma; TIdent (nm "A"); TK KLeftBrace; TIdent (nm "v"); TK KColon; TInt 3;
   TK KRightBrace; TK KRightParen; TK KNewline;
   TK KLoop; TK KDo; TK KBreak; TK KEnd; TK KEnd; TK KNewline].
Definition nls_dirty : list tok :=
  [TK KLoop; TIdent (nm "c"); TComment; TK KDo; TK KNewline;
   TIdent (nm "x"); TK KColon; TK KLeftParen; TK KNewline; TK KIntType; TK KComma; TK KNewline; TK KLeftBracket; TK KNewline;
   TK KIntType; TK KRightBracket; TK KNewline;
   TK KRightParen; TK KEqual; TK KLeftParen; TInt 1; TK KComma; TComment; TK KNewline; TK KLeftBracket; TInt 2; TK KNewline;
   TK KRightBracket; TK KRightParen; TComment; TK KNewline;
   TIdent (nm "f"); TK KLeftParen; TK KNewline; TIdent (nm "x"); TK KComma; TK KNewline; TIdent (nm "A"); TK KLeftBrace; TK KNewline;
   TIdent (nm "v"); TK KColon; TK KNewline; TInt 3; TK KNewline;
   TK KRightBrace; TK KNewline; TK KRightParen; TK KNewline;
   TK KLoop; TK KDo; TK KBreak; TK KEnd; TK KEnd; TComment; TK KNewline].

Example C14_example_nls :
  insignificant_diff nls_clean nls_dirty /\ frag nls_clean /\ frag nls_dirty
  /\ observe_s (parse_statement gen_ptab (parse_fuel nls_dirty) nls_clean)
     = observe_s (parse_statement gen_ptab (parse_fuel nls_dirty) nls_dirty)
  /\ observe_s (parse_statement gen_ptab (parse_fuel nls_dirty) nls_clean) <> None
  /\ (exists c es c' es', parse_statement gen_ptab 200 (refute_ts true) = Err c es
                          /\ parse_statement gen_ptab 200 (refute_ts false) = Err c' es').
Proof.
  split; [|split; [repeat constructor|split; [repeat constructor|]]].
  - unfold insignificant_diff, nls_clean, nls_dirty.
    repeat first [ apply E_nil
                 | apply E_tok; [reflexivity|reflexivity|reflexivity|]
                 | apply E_open; [reflexivity|]
                 | apply E_close; [reflexivity|]
                 | apply E_close0; [reflexivity|]
                 | apply E_trr; [reflexivity|] ].
  - vm_compute. split; [reflexivity|split; [discriminate|]]. repeat eexists.
Qed.

(* comments: // header <nl> <nl> f :: fn x: int -> int do // c <nl> // line <nl> ret x + 1 // c <nl> end <nl> // tail
   against the same without any comment.  Both accepted; the commented one has one more EmptyStatement (the header comment before the blank line). *)
Definition cm_clean : list tok :=
  [TK KNewline; TK KNewline; TIdent (nm "f"); TK KColonColon; TK KFn; TIdent (nm "x"); TK KColon; TK KIntType; TK KArrow; TK KIntType;
   TK KDo; TK KNewline; TK KNewline; TK KRet; TIdent (nm "x"); TK KPlus; TInt 1; TK KNewline; TK KEnd; TK KNewline].
Definition cm_dirty : list tok :=
  [TComment; TK KNewline; TK KNewline; TIdent (nm "f"); TK KColonColon; TK KFn; TIdent (nm "x"); TK KColon; TK KIntType; TK KArrow;
   TK KIntType; TK KDo; TComment; TK KNewline; TComment; TK KNewline; TK KRet; TIdent (nm "x"); TK KPlus; TComment; TInt 1; TComment;
   TK KNewline; TK KEnd; TK KNewline; TComment].
Example C14_example_comments :
  CommentSim.ec cm_dirty = CommentSim.ec cm_clean /\ hd TEOF (CommentSim.ec cm_dirty) <> TEOF
  /\ (exists ss c ss' c', parse_program gen_ptab 60 cm_clean = Ok (ss, c) /\ parse_program gen_ptab 60 cm_dirty = Ok (ss', c')
                          /\ length ss = 1 /\ length ss' = 2 /\ SimGen.noempty ss = SimGen.noempty ss').
Proof. vm_compute. split; [reflexivity|split; [discriminate|]]. repeat eexists. Qed.

(* white space after identifier, number, operator and keyword texts: the live patterns die *)
Definition codes (s : string) : list N := ascii_name s.
Example C14_example_ws_dies :
  forallb (fun a => forallb (fun w => dies_after gen_table (codes a) w) [32; 9; 13]%N)
          ["foo"; "x1"; "_"; "12"; "1.5"; "+"; "=="; "<=>"; "->"; "'"; "("; ")"; "do"; "end"; "loop"; "ret"; "not";
           "true"; """s"""]%string = true.
Proof. vm_compute. reflexivity. Qed.

Example C14_example_ws_lex :
  kinds (lex gen_table (codes "foo  +	1 // c")) = kinds (lex gen_table (codes "foo+1")).
Proof. vm_compute. reflexivity. Qed.

(* re-spacing and CRLF on a small program: the hypotheses hold, the texts differ, the tokens do not *)
Definition C14_src_lf : list N :=
  (codes "main :: fn do // count" ++ [10]%N ++ codes "  a := 1 + 2" ++ [10]%N ++ codes "end" ++ [10]%N)%list.
Definition C14_src_respaced : list N :=
  (codes "	main	::  fn do   // count  " ++ [13; 10]%N ++ codes "		a :=  1	+ 2 	" ++ [13; 10]%N ++ codes "end  " ++ [10]%N)%list.
Example C14_example_respace :
  kinds (lex gen_table C14_src_respaced) = kinds (lex gen_table C14_src_lf) /\ C14_src_respaced <> C14_src_lf.
Proof. split; [vm_compute; reflexivity|discriminate]. Qed.
Example C14_example_crlf :
  forallb Lex.WsInsert.nl_alone (raw_lex (length C14_src_lf) gen_table C14_src_lf) = true /\
  Lex.WsInsert.crlf C14_src_lf
  = (codes "main :: fn do // count" ++ [13; 10]%N ++ codes "  a := 1 + 2" ++ [13; 10]%N ++ codes "end" ++ [13; 10]%N)%list /\
  kinds (lex gen_table (Lex.WsInsert.crlf C14_src_lf)) = kinds (lex gen_table C14_src_lf).
Proof.
  assert (H : forallb Lex.WsInsert.nl_alone (raw_lex (length C14_src_lf) gen_table C14_src_lf) = true)
    by (vm_compute; reflexivity).
  split; [exact H|split; [vm_compute; reflexivity|exact (C14_crlf_same C14_src_lf H)]].
Qed.
(* the hypothesis of C14_crlf_same is needed: a string literal over a line end has the line end in its payload *)
Example C14_example_crlf_string :
  let s := (codes "x = ""a" ++ [10]%N ++ codes "b""")%list in
  forallb Lex.WsInsert.nl_alone (raw_lex (length s) gen_table s) = false /\
  kinds (lex gen_table (Lex.WsInsert.crlf s)) <> kinds (lex gen_table s).
Proof. split; [vm_compute; reflexivity|vm_compute; discriminate]. Qed.
(* blank lines inside a function body, before `end`, at the start and the end of the file: the hypothesis of
   C14_blank_lines_program holds, the trees differ, they are equal up to EmptyStatements *)
Definition C14_src_blank : list N :=
  ([10]%N ++ codes "main :: fn do // count" ++ [10; 10]%N ++ codes "  a := 1 + 2" ++ [10; 10; 10]%N ++ codes "end" ++ [10; 10]%N)%list.
Ltac c14_bl := first [ apply Parse.BlankCtx.BL_nil | (apply Parse.BlankCtx.BL_dup; c14_bl) | (apply Parse.BlankCtx.BL_cons; c14_bl) ].
Example C14_example_blank_lines :
  let ts := map classify (lex gen_table C14_src_lf) in
  let ts' := map classify (lex gen_table C14_src_blank) in
  Parse.BlankSim.more_blank_lines (CommentSim.ec ts) (CommentSim.ec ts') /\
  (exists ss c ss' c', parse_program gen_ptab (parse_fuel ts) ts = Ok (ss, c) /\
                       parse_program gen_ptab (parse_fuel ts') ts' = Ok (ss', c') /\ ss <> ss' /\
                       Syntax.DropEmpty.de_program ss = Syntax.DropEmpty.de_program ss').
Proof.
  split.
  - vm_compute. exists 1. eexists. split; [reflexivity|]. c14_bl.
  - vm_compute. do 4 eexists. split; [reflexivity|]. split; [reflexivity|]. split; [discriminate|reflexivity].
Qed.

(* a blank line added to the source text of the example (after its first line): the hypotheses hold *)
Example C14_example_blank_line_source :
  let s1 := (codes "main :: fn do // count" ++ [10]%N)%list in
  let s2 := (codes "  a := 1 + 2" ++ [10]%N ++ codes "end" ++ [10]%N)%list in
  (s1 ++ s2)%list = C14_src_lf /\
  exists rs1, concat (map r_text rs1) = s1 /\
              raw_lex (length (s1 ++ s2)) gen_table (s1 ++ s2) = (rs1 ++ raw_lex (length s2) gen_table s2)%list /\
              Lex.WsInsert.ends10 rs1 /\
              hd TEOF (CommentSim.ec (map classify (lex gen_table (s1 ++ s2)))) <> TEOF.
Proof.
  split; [vm_compute; reflexivity|].
  exists (firstn 10 (raw_lex (length C14_src_lf) gen_table C14_src_lf)).
  split; [vm_compute; reflexivity|split; [vm_compute; reflexivity|split; [vm_compute; reflexivity|vm_compute; discriminate]]].
Qed.

(* line breaks inside the brackets of a program with functions, a lambda in parentheses and an if: the hypothesis of
   C14_nl_in_brackets_full holds, the token lists differ, the trees are equal *)
Definition C14_src_brk1 : list N :=
  (codes "add :: fn a: int, b: int -> int do" ++ [10]%N ++ codes "  ret a + b" ++ [10]%N ++ codes "end" ++ [10]%N ++
   codes "main :: fn do" ++ [10]%N ++ codes "  l := [1, 2, add(3, 4)]" ++ [10]%N ++
   codes "  g := (fn x: int -> int do" ++ [10]%N ++ codes "    ret add(x, 1)" ++ [10]%N ++ codes "  end)" ++ [10]%N ++
   codes "  if add(1, 2) > 2 do" ++ [10]%N ++ codes "    l = [g(5)]" ++ [10]%N ++ codes "  end" ++ [10]%N ++ codes "end" ++ [10]%N)%list.
Definition C14_src_brk2 : list N :=
  (codes "add :: fn a: int, b: int -> int do" ++ [10]%N ++ codes "  ret a + b" ++ [10]%N ++ codes "end" ++ [10]%N ++
   codes "main :: fn do" ++ [10]%N ++ codes "  l := [" ++ [10]%N ++ codes "    1," ++ [10]%N ++ codes "    2, add(3," ++ [10; 10]%N ++
   codes "      4)" ++ [10]%N ++ codes "  ]" ++ [10]%N ++
   codes "  g := (fn x: int -> int do" ++ [10]%N ++ codes "    ret add(x," ++ [10]%N ++ codes "            1)" ++ [10]%N ++ codes "  end)" ++ [10]%N ++
   codes "  if add(1," ++ [10]%N ++ codes "         2) > 2 do" ++ [10]%N ++ codes "    l = [g(" ++ [10]%N ++ codes "5)]" ++ [10]%N ++
   codes "  end" ++ [10]%N ++ codes "end" ++ [10]%N)%list.
Ltac c14_nb := first [ apply Parse.NbCtx.NB_nil
                     | (apply Parse.NbCtx.NB_nll; c14_nb) | (apply Parse.NbCtx.NB_nlr; c14_nb)
                     | (apply Parse.NbCtx.NB_open; [reflexivity|c14_nb])
                     | (apply Parse.NbCtx.NB_close; [reflexivity|c14_nb])
                     | (apply Parse.NbCtx.NB_tok; [reflexivity|reflexivity|reflexivity|reflexivity|c14_nb])
                     | (apply Parse.NbCtx.NB_any; c14_nb) ].
Example C14_example_nl_in_brackets_full :
  let ts := map classify (lex gen_table C14_src_brk1) in
  let ts' := map classify (lex gen_table C14_src_brk2) in
  Parse.NbCtx.NB 0 (CommentSim.ec ts) (CommentSim.ec ts') /\ ts <> ts' /\
  (exists ss c c', parse_program gen_ptab (parse_fuel ts) ts = Ok (ss, c) /\
                   parse_program gen_ptab (parse_fuel ts') ts' = Ok (ss, c') /\ length ss = 2).
Proof.
  split; [vm_compute; c14_nb|]. split; [vm_compute; discriminate|].
  vm_compute. do 3 eexists. split; [reflexivity|]. split; reflexivity.
Qed.

(* FINDING (reported, corpus/c14/suggested_constraint_linebreak.diff): inside brackets a line break between a type
   variable and the ':' of its constraint list changes acceptance - the look-ahead steps over the newline, skip(2)
   counted it.  Repaired in /repo 7100aa8 (skip(1).skip(1)); the model follows: both layouts are accepted now.
   (C14_nl_in_brackets_full does not cover this shape because `fn` is not allowed inside a simple group.) *)
Example C14_finding_constraint_linebreak_fixed :
  let a := (codes "f : (fn<V: CmpEqu> *V -> void) : external" ++ [10]%N)%list in
  let b := (codes "f : (fn<V" ++ [10]%N ++ codes ": CmpEqu> *V -> void) : external" ++ [10]%N)%list in
  let ta := map classify (lex gen_table a) in let tb := map classify (lex gen_table b) in
  (exists ss c, parse_program gen_ptab (parse_fuel ta) ta = Ok (ss, c)) /\
  (exists ss c, parse_program gen_ptab (parse_fuel tb) tb = Ok (ss, c)).
Proof. split; vm_compute; eexists; eexists; reflexivity. Qed.

Example C14_example_source_to_tree :
  map classify (lex gen_table C14_src_respaced) = map classify (lex gen_table C14_src_lf) /\
  (exists ss c, parse_program gen_ptab (parse_fuel (map classify (lex gen_table C14_src_lf)))
                  (map classify (lex gen_table C14_src_lf)) = Ok (ss, c) /\ ss <> []) /\
  parse_program gen_ptab (parse_fuel (map classify (lex gen_table (Lex.WsInsert.crlf C14_src_lf))))
    (map classify (lex gen_table (Lex.WsInsert.crlf C14_src_lf)))
  = parse_program gen_ptab (parse_fuel (map classify (lex gen_table C14_src_lf)))
      (map classify (lex gen_table C14_src_lf)).
Proof.
  split; [vm_compute; reflexivity|split].
  - vm_compute. eexists. eexists. split; [reflexivity|discriminate].
  - rewrite (C14_crlf_same_parser_input C14_src_lf) by (vm_compute; reflexivity). reflexivity.
Qed.

Print Assumptions C14_table_ok.
Print Assumptions C14_arrow_ok.
Print Assumptions C14_do_not_infix.
Print Assumptions C14_prime_call.
Print Assumptions C14_arrow_call.
Print Assumptions C14_paren.
Print Assumptions C14_loop_do_step.
Print Assumptions C14_loop_true_do_step.
Print Assumptions C14_loop_do_conditional.
Print Assumptions C14_total_ok.
Print Assumptions C14_statement_pre_insensitive.
Print Assumptions C14_loop_do_unconditional.
Print Assumptions C14_loop_do_converse.
Print Assumptions C14_nl_in_brackets_statement_level_same_fuel_refuted.
Print Assumptions C14_nl_in_brackets_statement_settled.
Print Assumptions C14_nl_in_brackets_program.
Print Assumptions C14_comments_anywhere.
Print Assumptions C14_comments_statement.
Print Assumptions C14_nf_paren.
Print Assumptions C14_nf_prime.
Print Assumptions C14_nf_arrow.
Print Assumptions C14_nf_implicit_ret.
Print Assumptions C14_nf_tail_statement.
Print Assumptions C14_nf_program.
Print Assumptions C14_comments_same_normal_form.
Print Assumptions C14_layout_token.
Print Assumptions C14_layout_skip.
Print Assumptions C14_layout_lookahead.
Print Assumptions C14_layout_enter_bracket.
Print Assumptions C14_bracket_sane.
Print Assumptions C14_nl_in_brackets.
Print Assumptions C14_ws_token.

(* ---- source tie: the hand-written model behind these theorems mirrors the files below; the digests of their
   functions regenerated from /repo on this run equal the reviewed ones (coq/Doc/DocSrcDigest.v).  Any edit of
   such a function breaks this obligation: the differential tie and the oracle then decide (tools/check.py). *)
From Sylt Require Doc.SrcDigest Doc.DocSrcDigest Gen.GenSrcDigest.
Theorem C14_model_sources_reviewed :
  Sylt.Doc.SrcDigest.sources_reviewed ["sylt-parser/src/parser.rs"%string; "sylt-parser/src/expression.rs"%string; "sylt-parser/src/statement.rs"%string]
    Sylt.Doc.DocSrcDigest.doc_src_digests Sylt.Gen.GenSrcDigest.src_digests = true.
Proof. vm_compute. reflexivity. Qed.
Print Assumptions C14_model_sources_reviewed.

(* ---------------------------------------------------------------------------------------------------------------
   C14, after the parser: parentheses and spans do not change the emitted Lua (resolver agent; models Resolve/*,
   Dep/*, Back/IR.v + Emit.v, whose source ties are pinned in Props/C09.v, C11.v and the backend properties).
   Fully qualified names: nothing is imported into the parser's name space.

   C14_resolve_erases_parens  removing every Parenthesis node from the parser's AST (Resolve/Parens.v strip_parens)
                      does not change the result of name resolution at all: the same variable table and statements
                      with the same spans, or the same first error -- for every AST and every setting of the
                      regenerated flags, although the stripped program is resolved with less fuel.  (This needs
                      fn is_function_literal to look through parentheses: until /repo b5cd999 `f :: (fn .. f() .. end)`
                      was not a function definition for the resolver -- found by this proof, repaired, and checked on
                      every run by the translator gen_resolve.py and the C09 oracle family paren-fn.)
   C14_lower_ignores_spans / C14_backend_ignores_spans
                      the lowering and the emitted text do not depend on any span of the resolved program except the
                      LINE of an `<!>` statement (printed in "Reached unreachable code on line N"): `er` erases all
                      others; C14_unreachable_line_matters shows that this one cannot be erased.
   C14_init_order_ignores_spans  the dependency order commutes with the erasure of spans.
   C14_parens_same_lua the whole pipeline AST -> resolve -> order -> type check -> emitted text gives the same
                      result (every verdict, every byte) for `ast` and `strip_parens ast`.
   C14_spans_same_lua  everything after name resolution: two resolved programs equal modulo spans are ordered alike
                      and, when the type checker accepts both, emit the same text.
   NOT covered: the step text -> AST (above: parentheses only add Parenthesis nodes; the columns of later tokens
   shift, which is why spans are quotiented out in C14_spans_same_lua); that the resolver's result is natural in
   line / column numbers; that the type checker's verdict does not depend on spans (a hypothesis of
   C14_spans_same_lua: both programs accepted). *)
From Sylt Require Resolve.PAst Resolve.Resolver Resolve.Parens Resolve.ParensProofs Resolve.ParensLua
     Dep.Topo Dep.SpanOrder Back.IR Back.Emit Back.SpanProofs Types.Tc.

Theorem C14_resolve_erases_parens : forall fl ast,
  Sylt.Resolve.Resolver.resolve fl (Sylt.Resolve.Parens.strip_parens ast) = Sylt.Resolve.Resolver.resolve fl ast.
Proof. exact Sylt.Resolve.ParensProofs.resolve_erases_parens. Qed.

Theorem C14_resolve_fuel_erases_parens : forall fl ast fuel fuel',
  (Sylt.Resolve.Resolver.fuel_of ast <= fuel)%nat ->
  (Sylt.Resolve.Resolver.fuel_of (Sylt.Resolve.Parens.strip_parens ast) <= fuel')%nat ->
  Sylt.Resolve.Resolver.resolve_fuel fl fuel' (Sylt.Resolve.Parens.strip_parens ast)
  = Sylt.Resolve.Resolver.resolve_fuel fl fuel ast.
Proof. exact Sylt.Resolve.ParensProofs.resolve_fuel_erases_parens. Qed.

Theorem C14_lower_ignores_spans : forall fuel r,
  Sylt.Back.IR.lower fuel (Sylt.Back.SpanProofs.er r) = Sylt.Back.IR.lower fuel r.
Proof. exact Sylt.Back.SpanProofs.lower_ignores_spans. Qed.

Theorem C14_backend_ignores_spans : forall fuel req r1 r2,
  Sylt.Back.SpanProofs.same_modulo_spans r1 r2 ->
  Sylt.Back.Emit.backend fuel req r1 = Sylt.Back.Emit.backend fuel req r2.
Proof. exact Sylt.Back.SpanProofs.backend_ignores_spans. Qed.

Theorem C14_init_order_ignores_spans : forall tgt ss,
  Sylt.Dep.Topo.init_order tgt (map Sylt.Back.SpanProofs.er_s ss)
  = Sylt.Dep.SpanOrder.omap Sylt.Back.SpanProofs.er_s (Sylt.Dep.Topo.init_order tgt ss).
Proof. exact Sylt.Dep.SpanOrder.init_order_er. Qed.

Theorem C14_parens_same_lua : forall fl tgt fuel_tc fuel req ast,
  Sylt.Resolve.ParensLua.pipeline fl tgt fuel_tc fuel req (Sylt.Resolve.Parens.strip_parens ast)
  = Sylt.Resolve.ParensLua.pipeline fl tgt fuel_tc fuel req ast.
Proof. exact Sylt.Resolve.ParensLua.parens_same_lua. Qed.

Theorem C14_spans_same_lua : forall tgt fuel_tc fuel req r1 r2 l1,
  Sylt.Back.SpanProofs.same_modulo_spans r1 r2 ->
  Sylt.Dep.Topo.init_order tgt (Sylt.Syntax.Resolved.r_stmts r1) = Sylt.Dep.Topo.OOk l1 ->
  exists l2, Sylt.Dep.Topo.init_order tgt (Sylt.Syntax.Resolved.r_stmts r2) = Sylt.Dep.Topo.OOk l2
    /\ map Sylt.Back.SpanProofs.er_s l1 = map Sylt.Back.SpanProofs.er_s l2
    /\ forall out1 out2,
         Sylt.Types.Tc.compile_after_order (Sylt.Back.Emit.backend fuel req) fuel_tc
           (Sylt.Syntax.Resolved.mkResolved (Sylt.Syntax.Resolved.r_vars r1) l1) = Sylt.Types.Tc.COk out1 ->
         Sylt.Types.Tc.compile_after_order (Sylt.Back.Emit.backend fuel req) fuel_tc
           (Sylt.Syntax.Resolved.mkResolved (Sylt.Syntax.Resolved.r_vars r2) l2) = Sylt.Types.Tc.COk out2 ->
         out1 = out2.
Proof. exact Sylt.Resolve.ParensLua.spans_same_lua. Qed.

(* non-vacuity: the line of an `<!>` survives the erasure and changes the text; and a program with parentheses around a
   recursive local function literal and around operands is resolved exactly like the program without them *)
Theorem C14_unreachable_line_matters :
  let prog l := Sylt.Syntax.Resolved.mkResolved
                  [Sylt.Syntax.Resolved.mkVar 0 "start" Sylt.Back.SpanProofs.sp0 true Sylt.Syntax.Resolved.Const]
                  [Sylt.Syntax.Resolved.SDefinition "start" 0 Sylt.Syntax.Resolved.Const
                     (Sylt.Syntax.Resolved.TImplied Sylt.Back.SpanProofs.sp0)
                     (Sylt.Syntax.Resolved.EFunction "start" [] (Sylt.Syntax.Resolved.TImplied Sylt.Back.SpanProofs.sp0)
                        [Sylt.Syntax.Resolved.SUnreachable (Sylt.Syntax.Resolved.mkSpan 0 l l 1 4)] false
                        Sylt.Back.SpanProofs.sp0) Sylt.Back.SpanProofs.sp0] in
  Sylt.Back.Emit.backend 10 None (prog 3%N) <> Sylt.Back.Emit.backend 10 None (prog 4%N)
  /\ Sylt.Back.Emit.backend 10 None (prog 3%N) = Sylt.Back.Emit.backend 10 None (Sylt.Back.SpanProofs.er (prog 3%N)).
Proof. exact Sylt.Back.SpanProofs.unreachable_line_matters. Qed.

Print Assumptions C14_resolve_erases_parens.
Print Assumptions C14_resolve_fuel_erases_parens.
Print Assumptions C14_lower_ignores_spans.
Print Assumptions C14_backend_ignores_spans.
Print Assumptions C14_init_order_ignores_spans.
Print Assumptions C14_parens_same_lua.
Print Assumptions C14_spans_same_lua.
Print Assumptions C14_unreachable_line_matters.

(* ---- parentheses together with the columns they shift (Resolve/SpanMapProofs.v, Resolve/PositionsLua.v) ----
   C14_resolve_natural   name resolution is natural in line and column numbers: for a function phi on spans that keeps
                      the file id of every span and is injective (the resolver reads the file id of a span and compares
                      the spans of the namespace entries of two `use` statements; nothing else), resolving the AST with
                      phi applied to every span gives the resolved program with phi applied to every span, or errors of
                      the same kinds in the same order.
   C14_parens_and_positions_resolve / C14_parens_and_positions_same_lua
                      if a2 is a1 with redundant parentheses inserted -- as ASTs: strip_parens a2 = a1 with such a phi
                      that also keeps the first line of every span -- both are accepted by name resolution with results
                      equal modulo spans (or both rejected, same kinds), ordered alike, and emit the same text when the
                      type checker accepts both.
   Limit: a FUNCTION phi exists when no node outside the new parentheses has exactly the span of the expression
   inside them (a parenthesised expression statement is the counter-example: statement and expression share a span
   before, not after); the relational form C14_columns_resolve below has no such limit.  The parser step text -> AST
   (that inserting parentheses yields such an a2) and the type checker's indifference to spans stay outside. *)
From Sylt Require Resolve.SpanMap Resolve.SpanMapProofs Resolve.PositionsLua.

Theorem C14_resolve_natural : forall phi : Sylt.Syntax.Resolved.span -> Sylt.Syntax.Resolved.span,
  (forall s, Sylt.Syntax.Resolved.sp_file (phi s) = Sylt.Syntax.Resolved.sp_file s) ->
  (forall a b, phi a = phi b -> a = b) ->
  forall fl fuel ast,
  Sylt.Resolve.SpanMapProofs.res_nat phi (Sylt.Resolve.Resolver.resolve_fuel fl fuel ast)
    (Sylt.Resolve.Resolver.resolve_fuel fl fuel (Sylt.Resolve.SpanMap.mp_ast phi ast)).
Proof. exact Sylt.Resolve.SpanMapProofs.resolve_fuel_natural. Qed.

Theorem C14_parens_and_positions_resolve : forall phi : Sylt.Syntax.Resolved.span -> Sylt.Syntax.Resolved.span,
  (forall s, Sylt.Syntax.Resolved.sp_file (phi s) = Sylt.Syntax.Resolved.sp_file s) ->
  (forall s, Sylt.Syntax.Resolved.sp_line0 (phi s) = Sylt.Syntax.Resolved.sp_line0 s) ->
  (forall a b, phi a = phi b -> a = b) ->
  forall fl a1 a2,
  Sylt.Resolve.Parens.strip_parens a2 = Sylt.Resolve.SpanMap.mp_ast phi a1 ->
  match Sylt.Resolve.Resolver.resolve fl a1, Sylt.Resolve.Resolver.resolve fl a2 with
  | Sylt.Resolve.Resolver.Ok r1, Sylt.Resolve.Resolver.Ok r2 => Sylt.Back.SpanProofs.same_modulo_spans r1 r2
  | Sylt.Resolve.Resolver.Err es1, Sylt.Resolve.Resolver.Err es2 =>
      map Sylt.Resolve.Resolver.e_kind es2 = map Sylt.Resolve.Resolver.e_kind es1
  | Sylt.Resolve.Resolver.Panic s1, Sylt.Resolve.Resolver.Panic s2 => s1 = s2
  | Sylt.Resolve.Resolver.OutOfFuel, Sylt.Resolve.Resolver.OutOfFuel => True
  | _, _ => False
  end.
Proof. exact Sylt.Resolve.PositionsLua.parens_and_positions_resolve. Qed.

Theorem C14_parens_and_positions_same_lua : forall phi : Sylt.Syntax.Resolved.span -> Sylt.Syntax.Resolved.span,
  (forall s, Sylt.Syntax.Resolved.sp_file (phi s) = Sylt.Syntax.Resolved.sp_file s) ->
  (forall s, Sylt.Syntax.Resolved.sp_line0 (phi s) = Sylt.Syntax.Resolved.sp_line0 s) ->
  (forall a b, phi a = phi b -> a = b) ->
  forall fl tgt fuel_tc fuel req a1 a2 r1 l1,
  Sylt.Resolve.Parens.strip_parens a2 = Sylt.Resolve.SpanMap.mp_ast phi a1 ->
  Sylt.Resolve.Resolver.resolve fl a1 = Sylt.Resolve.Resolver.Ok r1 ->
  Sylt.Dep.Topo.init_order tgt (Sylt.Syntax.Resolved.r_stmts r1) = Sylt.Dep.Topo.OOk l1 ->
  exists r2 l2, Sylt.Resolve.Resolver.resolve fl a2 = Sylt.Resolve.Resolver.Ok r2
    /\ Sylt.Dep.Topo.init_order tgt (Sylt.Syntax.Resolved.r_stmts r2) = Sylt.Dep.Topo.OOk l2
    /\ forall out1 out2,
         Sylt.Types.Tc.compile_after_order (Sylt.Back.Emit.backend fuel req) fuel_tc
           (Sylt.Syntax.Resolved.mkResolved (Sylt.Syntax.Resolved.r_vars r1) l1) = Sylt.Types.Tc.COk out1 ->
         Sylt.Types.Tc.compile_after_order (Sylt.Back.Emit.backend fuel req) fuel_tc
           (Sylt.Syntax.Resolved.mkResolved (Sylt.Syntax.Resolved.r_vars r2) l2) = Sylt.Types.Tc.COk out2 ->
         out1 = out2.
Proof. exact Sylt.Resolve.PositionsLua.parens_and_positions_same_lua. Qed.

(* non-vacuity: `x := 1 + 2` and `x := (1 + 2)`, with the columns the parentheses shift: the hypotheses hold, both are
   accepted, the resolved programs differ (in spans) and are equal modulo spans *)
Theorem C14_positions_example :
  Sylt.Resolve.Parens.strip_parens Sylt.Resolve.PositionsLua.ex_a2
  = Sylt.Resolve.SpanMap.mp_ast Sylt.Resolve.PositionsLua.ex_phi Sylt.Resolve.PositionsLua.ex_a1
  /\ (exists r1 r2,
        Sylt.Resolve.Resolver.resolve (Sylt.Resolve.Resolver.mkFlags true true true true false) Sylt.Resolve.PositionsLua.ex_a1
        = Sylt.Resolve.Resolver.Ok r1
        /\ Sylt.Resolve.Resolver.resolve (Sylt.Resolve.Resolver.mkFlags true true true true false) Sylt.Resolve.PositionsLua.ex_a2
           = Sylt.Resolve.Resolver.Ok r2
        /\ r1 <> r2 /\ Sylt.Back.SpanProofs.same_modulo_spans r1 r2).
Proof. exact Sylt.Resolve.PositionsLua.positions_example. Qed.

Print Assumptions C14_resolve_natural.
Print Assumptions C14_parens_and_positions_resolve.
Print Assumptions C14_parens_and_positions_same_lua.
Print Assumptions C14_positions_example.

(* ---- the relational form (Resolve/SpanMapRel.v, Resolve/ColumnsLua.v): no function between the spans of the two
   programs is needed, so EVERY insertion of redundant parentheses is covered (a parenthesised expression statement
   included).  same_modulo_parens_and_columns a1 a2: the ASTs are equal after removing every Parenthesis node and
   forgetting the columns and the last line of every span (file id and first line stay).  Side condition on each
   program: the names of two `use` statements are not on the same line of the same file (the resolver compares
   these spans; statements are separated by newlines) -- computable (use_names_separatedb) and evaluated on every real
   tree of the C09 tie. *)
From Sylt Require Resolve.SpanMapRel Resolve.ColumnsLua.

Theorem C14_columns_resolve : forall fl a1 a2,
  Sylt.Resolve.ColumnsLua.same_modulo_parens_and_columns a1 a2 ->
  Sylt.Resolve.ColumnsLua.use_names_separated (Sylt.Resolve.Parens.strip_parens a1) ->
  Sylt.Resolve.ColumnsLua.use_names_separated (Sylt.Resolve.Parens.strip_parens a2) ->
  match Sylt.Resolve.Resolver.resolve fl a1, Sylt.Resolve.Resolver.resolve fl a2 with
  | Sylt.Resolve.Resolver.Ok r1, Sylt.Resolve.Resolver.Ok r2 => Sylt.Back.SpanProofs.same_modulo_spans r1 r2
  | Sylt.Resolve.Resolver.Err es1, Sylt.Resolve.Resolver.Err es2 =>
      map Sylt.Resolve.Resolver.e_kind es2 = map Sylt.Resolve.Resolver.e_kind es1
  | Sylt.Resolve.Resolver.Panic s1, Sylt.Resolve.Resolver.Panic s2 => s1 = s2
  | Sylt.Resolve.Resolver.OutOfFuel, Sylt.Resolve.Resolver.OutOfFuel => True
  | _, _ => False
  end.
Proof. exact Sylt.Resolve.ColumnsLua.columns_resolve. Qed.

Theorem C14_columns_same_lua : forall fl tgt fuel_tc fuel req a1 a2 r1 l1,
  Sylt.Resolve.ColumnsLua.same_modulo_parens_and_columns a1 a2 ->
  Sylt.Resolve.ColumnsLua.use_names_separated (Sylt.Resolve.Parens.strip_parens a1) ->
  Sylt.Resolve.ColumnsLua.use_names_separated (Sylt.Resolve.Parens.strip_parens a2) ->
  Sylt.Resolve.Resolver.resolve fl a1 = Sylt.Resolve.Resolver.Ok r1 ->
  Sylt.Dep.Topo.init_order tgt (Sylt.Syntax.Resolved.r_stmts r1) = Sylt.Dep.Topo.OOk l1 ->
  exists r2 l2, Sylt.Resolve.Resolver.resolve fl a2 = Sylt.Resolve.Resolver.Ok r2
    /\ Sylt.Dep.Topo.init_order tgt (Sylt.Syntax.Resolved.r_stmts r2) = Sylt.Dep.Topo.OOk l2
    /\ forall out1 out2,
         Sylt.Types.Tc.compile_after_order (Sylt.Back.Emit.backend fuel req) fuel_tc
           (Sylt.Syntax.Resolved.mkResolved (Sylt.Syntax.Resolved.r_vars r1) l1) = Sylt.Types.Tc.COk out1 ->
         Sylt.Types.Tc.compile_after_order (Sylt.Back.Emit.backend fuel req) fuel_tc
           (Sylt.Syntax.Resolved.mkResolved (Sylt.Syntax.Resolved.r_vars r2) l2) = Sylt.Types.Tc.COk out2 ->
         out1 = out2.
Proof. exact Sylt.Resolve.ColumnsLua.columns_same_lua. Qed.

Theorem C14_use_names_separatedb_sound : forall ast,
  Sylt.Resolve.ColumnsLua.use_names_separatedb ast = true -> Sylt.Resolve.ColumnsLua.use_names_separated ast.
Proof. exact Sylt.Resolve.ColumnsLua.use_names_separatedb_sound. Qed.

(* non-vacuity: the expression statement `g()` and `(g())`: the hypotheses hold, both are accepted, the resolved
   programs differ in spans and are equal modulo spans (no function on spans relates the two ASTs: the statement and the
   call share a span in the first and not in the second) *)
Theorem C14_columns_example :
  Sylt.Resolve.ColumnsLua.same_modulo_parens_and_columns Sylt.Resolve.ColumnsLua.ex_b1 Sylt.Resolve.ColumnsLua.ex_b2
  /\ Sylt.Resolve.ColumnsLua.use_names_separated (Sylt.Resolve.Parens.strip_parens Sylt.Resolve.ColumnsLua.ex_b1)
  /\ Sylt.Resolve.ColumnsLua.use_names_separated (Sylt.Resolve.Parens.strip_parens Sylt.Resolve.ColumnsLua.ex_b2)
  /\ (exists r1 r2,
        Sylt.Resolve.Resolver.resolve (Sylt.Resolve.Resolver.mkFlags true true true true false) Sylt.Resolve.ColumnsLua.ex_b1
        = Sylt.Resolve.Resolver.Ok r1
        /\ Sylt.Resolve.Resolver.resolve (Sylt.Resolve.Resolver.mkFlags true true true true false) Sylt.Resolve.ColumnsLua.ex_b2
           = Sylt.Resolve.Resolver.Ok r2
        /\ r1 <> r2 /\ Sylt.Back.SpanProofs.same_modulo_spans r1 r2).
Proof. exact Sylt.Resolve.ColumnsLua.columns_example. Qed.

Print Assumptions C14_columns_resolve.
Print Assumptions C14_columns_same_lua.
Print Assumptions C14_use_names_separatedb_sound.
Print Assumptions C14_columns_example.

(* ---- EmptyStatements (Resolve/Empties.v, EmptiesProofs.v): blank lines and comment-only lines ----
   C14_resolve_drops_empties  removing every EmptyStatement from every statement list of the parser's AST (module
                      level, function bodies, blocks, branches of if / case; the single-statement body of a loop stays)
                      does not change the result of name resolution at all.
   C14_empty_statements_same_lua  the whole pipeline gives the same result for `ast` and `drop_empties ast`;
   C14_parens_and_empties_same_lua  two ASTs with equal normal forms drop_empties (strip_parens _) have the same pipeline
                      result (every verdict, every byte);
   C14_layout_resolve / C14_layout_same_lua  the relational form with the columns (the C14_columns theorems), now modulo
                      EmptyStatements too: same_modulo_layout a1 a2 := the ASTs are equal after removing Parenthesis nodes
                      and EmptyStatements and forgetting the columns and last line of every span. *)
From Sylt Require Resolve.Empties Resolve.EmptiesProofs.

Theorem C14_resolve_drops_empties : forall fl ast,
  Sylt.Resolve.Resolver.resolve fl (Sylt.Resolve.Empties.drop_empties ast) = Sylt.Resolve.Resolver.resolve fl ast.
Proof. exact Sylt.Resolve.EmptiesProofs.resolve_drops_empties. Qed.

Theorem C14_empty_statements_same_lua : forall fl tgt fuel_tc fuel req ast,
  Sylt.Resolve.ParensLua.pipeline fl tgt fuel_tc fuel req (Sylt.Resolve.Empties.drop_empties ast)
  = Sylt.Resolve.ParensLua.pipeline fl tgt fuel_tc fuel req ast.
Proof. exact Sylt.Resolve.ParensLua.empties_same_lua. Qed.

Theorem C14_parens_and_empties_same_lua : forall fl tgt fuel_tc fuel req a1 a2,
  Sylt.Resolve.Empties.drop_empties (Sylt.Resolve.Parens.strip_parens a1)
  = Sylt.Resolve.Empties.drop_empties (Sylt.Resolve.Parens.strip_parens a2) ->
  Sylt.Resolve.ParensLua.pipeline fl tgt fuel_tc fuel req a1 = Sylt.Resolve.ParensLua.pipeline fl tgt fuel_tc fuel req a2.
Proof. exact Sylt.Resolve.ParensLua.parens_and_empties_same_lua. Qed.

Theorem C14_layout_resolve : forall fl a1 a2,
  Sylt.Resolve.ColumnsLua.same_modulo_layout a1 a2 ->
  Sylt.Resolve.ColumnsLua.use_names_separated (Sylt.Resolve.ColumnsLua.layout_nf a1) ->
  Sylt.Resolve.ColumnsLua.use_names_separated (Sylt.Resolve.ColumnsLua.layout_nf a2) ->
  match Sylt.Resolve.Resolver.resolve fl a1, Sylt.Resolve.Resolver.resolve fl a2 with
  | Sylt.Resolve.Resolver.Ok r1, Sylt.Resolve.Resolver.Ok r2 => Sylt.Back.SpanProofs.same_modulo_spans r1 r2
  | Sylt.Resolve.Resolver.Err es1, Sylt.Resolve.Resolver.Err es2 =>
      map Sylt.Resolve.Resolver.e_kind es2 = map Sylt.Resolve.Resolver.e_kind es1
  | Sylt.Resolve.Resolver.Panic s1, Sylt.Resolve.Resolver.Panic s2 => s1 = s2
  | Sylt.Resolve.Resolver.OutOfFuel, Sylt.Resolve.Resolver.OutOfFuel => True
  | _, _ => False
  end.
Proof. exact Sylt.Resolve.ColumnsLua.layout_resolve. Qed.

Theorem C14_layout_same_lua : forall fl tgt fuel_tc fuel req a1 a2 r1 l1,
  Sylt.Resolve.ColumnsLua.same_modulo_layout a1 a2 ->
  Sylt.Resolve.ColumnsLua.use_names_separated (Sylt.Resolve.ColumnsLua.layout_nf a1) ->
  Sylt.Resolve.ColumnsLua.use_names_separated (Sylt.Resolve.ColumnsLua.layout_nf a2) ->
  Sylt.Resolve.Resolver.resolve fl a1 = Sylt.Resolve.Resolver.Ok r1 ->
  Sylt.Dep.Topo.init_order tgt (Sylt.Syntax.Resolved.r_stmts r1) = Sylt.Dep.Topo.OOk l1 ->
  exists r2 l2, Sylt.Resolve.Resolver.resolve fl a2 = Sylt.Resolve.Resolver.Ok r2
    /\ Sylt.Dep.Topo.init_order tgt (Sylt.Syntax.Resolved.r_stmts r2) = Sylt.Dep.Topo.OOk l2
    /\ forall out1 out2,
         Sylt.Types.Tc.compile_after_order (Sylt.Back.Emit.backend fuel req) fuel_tc
           (Sylt.Syntax.Resolved.mkResolved (Sylt.Syntax.Resolved.r_vars r1) l1) = Sylt.Types.Tc.COk out1 ->
         Sylt.Types.Tc.compile_after_order (Sylt.Back.Emit.backend fuel req) fuel_tc
           (Sylt.Syntax.Resolved.mkResolved (Sylt.Syntax.Resolved.r_vars r2) l2) = Sylt.Types.Tc.COk out2 ->
         out1 = out2.
Proof. exact Sylt.Resolve.ColumnsLua.layout_same_lua. Qed.

Print Assumptions C14_resolve_drops_empties.
Print Assumptions C14_empty_statements_same_lua.
Print Assumptions C14_parens_and_empties_same_lua.
Print Assumptions C14_layout_resolve.
Print Assumptions C14_layout_same_lua.

(* ---- arrow calls (Resolve/Arrow.v, ArrowProofs.v) ----
   dearrow rewrites every `x -> f(args)` (AArrowCall x f args) to `f(x, args)` (ACall f (x :: args)).
   C14_resolve_arrow  with the three restore flags on (the code as it is: C09_flags), on a well-formed AST whose arrow
                      calls have simple callees (a name or an access chain after `->`): name resolution accepts the
                      program with result r if and only if it accepts the de-sugared program with the same r.
                      Proved for the scope-list specification and transported by C09_resolve_refines_nsfirst.
   C14_arrow_same_lua an accepted program and its de-sugared form have the same pipeline result (every later verdict,
                      every byte).
   Error case, precisely: the receiver of an arrow call is resolved BEFORE the callee, the first argument of the plain
   call AFTER it.  A rejected program stays rejected (C14_resolve_arrow, contrapositive); when both the receiver and
   the callee fail to resolve, the FIRST error -- the only one the model, like the tie, records -- is the receiver's in
   `zz -> yy(4)` and the callee's in `yy(zz, 4)` (checked on the real compiler).  A callee that is a compound expression
   with function literals inside would number their variables differently in the two forms: excluded by
   arrows_simple.  Prime calls `f' a, b` need no theorem here: the parser builds the Call node (C14_prime_call). *)
From Sylt Require Resolve.Wf Resolve.Arrow Resolve.ArrowProofs Resolve.RefineProofs Gen.GenResolve.

Theorem C14_resolve_arrow : forall fl ast r,
  Sylt.Resolve.RefineProofs.restores fl = true -> Sylt.Resolve.Wf.wf_ast ast = true ->
  Sylt.Resolve.Arrow.arrows_simple ast = true ->
  (Sylt.Resolve.Resolver.resolve fl ast = Sylt.Resolve.Resolver.Ok r
   <-> Sylt.Resolve.Resolver.resolve fl (Sylt.Resolve.Arrow.dearrow ast) = Sylt.Resolve.Resolver.Ok r).
Proof. exact Sylt.Resolve.ArrowProofs.resolve_arrow. Qed.

Theorem C14_arrow_same_lua : forall fl tgt fuel_tc fuel req ast r,
  Sylt.Resolve.RefineProofs.restores fl = true -> Sylt.Resolve.Wf.wf_ast ast = true ->
  Sylt.Resolve.Arrow.arrows_simple ast = true ->
  Sylt.Resolve.Resolver.resolve fl ast = Sylt.Resolve.Resolver.Ok r ->
  Sylt.Resolve.ParensLua.pipeline fl tgt fuel_tc fuel req (Sylt.Resolve.Arrow.dearrow ast)
  = Sylt.Resolve.ParensLua.pipeline fl tgt fuel_tc fuel req ast.
Proof. exact Sylt.Resolve.ParensLua.arrow_same_lua. Qed.

(* the hypothesis on the flags holds of the code of this run *)
Theorem C14_arrow_flags : Sylt.Resolve.RefineProofs.restores Sylt.Gen.GenResolve.gen_rflags = true.
Proof. vm_compute. reflexivity. Qed.

Print Assumptions C14_resolve_arrow.
Print Assumptions C14_arrow_same_lua.
Print Assumptions C14_arrow_flags.
