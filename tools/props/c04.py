"""C04 -- constants are immutable and pure functions stay pure."""
import collections

import typed_gen as tg
import vlib
from props import c03 as base

GEN = ["GenSrcDigest"]
TRUSTED = base.TRUSTED + [
    "that parameters, `::` definitions and case bindings are entered as VarKind::Const in the resolver's variable table "
    "is established by the oracle (planted assignments to them) and by the resolver model's own tie, not by a theorem here",
]
ASSUMPTIONS = base.ASSUMPTIONS
EXPLANATION = ("Theorems over the type-checker model: assignment to a Const variable is rejected in every context; the "
               "TypeCtx at every position inside a `pu` function has inside_pure set (pure_ctx_monotone), and under it "
               "assignments, `:=` definitions, reads of mutable variables and calls of non-`pu` callees are rejected at any "
               "depth; unification of a `pu` with an `fn` function type fails.  The statement 'an impure function is not "
               "accepted where a pu type is declared' is refuted for the model (and the real compiler) through a plain `fn` "
               "annotation: known finding C04-purity-laundering.  Correspondence and oracle as for C03, with the forbidden "
               "constructs planted inside nested closures, branches and loops of pure functions and through aliases; the "
               "oracle demands a type error.")

_m = base._m
build = base.build


def classify(kind, sk, info):
    if kind.split("@")[0] == "impure-laundered":
        return "C04-purity-laundering"
    return None


def plants_of(t, g, r):
    return tg.c04_plants(t)


def tie(ctx):
    cases = base.corpus_cases("C04") + [c for c in base.repo_test_cases() if c[0].startswith("repo:pure/") or c[0].startswith("repo:assignment/")]
    bs = base.bases(ctx, base.nbases(ctx))
    r = vlib.rng(ctx.seed, "c04-tie")
    per = 40 if ctx.tier == "quick" else 50
    for bi, (t, g) in enumerate(bs):
        plants = tg.c04_plants(t)
        for p in r.sample(plants, min(per, len(plants))):
            cases.append(("plant:%d:%s:%s%d" % (bi, p[0], p[1], p[2]), tg.case_line(base.render_plant(t, p))))
    recs = base.tie_run(cases)
    return base.summarize_tie("typecheck", recs,
                              "corpus + /repo/tests/pure and /repo/tests/assignment (std bundled) + a random sample of planted "
                              "constant assignments and purity violations in generated programs; compared: accept/reject and "
                              "kind, file, line of the first error; distinct by label")


def always(ctx):
    viol, dist = base.sweep(ctx, plants_of, "C04", classify, demand_type_error=True)
    ctx.c04_viol = viol
    out, _ = base.report_sweep(ctx, "C04", viol, dist)
    return out


def search(ctx):
    viol = getattr(ctx, "c04_viol", None)
    if viol is None:
        viol, _ = base.sweep(ctx, plants_of, "C04", classify, demand_type_error=True)
    known = base.known_ids("C04")
    unknown = [v for v in viol if v[0] is None or v[0] not in known]
    if not unknown:
        return None
    unknown.sort(key=lambda v: len(v[3]))
    cls, k, info, src, bad = unknown[0]
    small = src
    if bad == "accepted":
        payload = tg.C04_KINDS.get(k, (None, None))[0]
        needles = [l.strip() for l in payload] if payload else []

        def still(cands):
            acc = base.accepted(cands)
            return [a and all(n in c for n in needles) for a, c in zip(acc, cands)]
        small = base.shrink_program(src, still)
    return {"source": small, "kind": k, "position": info, "class": cls,
            "what": "planted %s: %s (the property demands Err with a type error)" % (k, bad),
            "failing_inputs_found": len(unknown)}


def replay_known(ctx, kf):
    src = (kf.get("witness") or {}).get("source")
    if not src:
        return True
    return base.accepted([src])[0]


def replay(ctx, rep):
    fi = rep.get("failing_input") or {}
    if not fi:
        print("nothing to replay: no failing input in this file")
        return 0
    vlib.build_harness()
    l = vlib.harness("compileb", [tg.case_line(fi["source"])])[0]
    v = tg.real_verdict(l)
    bad = v[0] != "ERR" or not str(v[1]).startswith("Type:")
    print("replay:", fi.get("what"), "->", v, "VIOLATION" if bad else "property holds")
    return 1 if bad else 0
