(* Arrow calls resolve like the calls they abbreviate: for the scope-list specification (Resolve/ResolveSpec.v), and
   hence -- through resolve_refines_restores -- for the resolver with the three restore flags on, on well-formed ASTs
   whose arrow calls have simple callees: `resolve fl ast = Ok r` if and only if `resolve fl (dearrow ast) = Ok r`.
   The receiver of an arrow call is resolved BEFORE the callee, the first argument of the plain call AFTER it: when
   both fail to resolve, the first error differs (the receiver's in the arrow call, the callee's in the call); the
   model, like the tie, records the first error only, so the error case is stated as "both are rejected". *)
From Coq Require Import String List NArith ZArith Bool Lia Arith.
From Sylt Require Import Syntax.Resolved Resolve.PAst Resolve.Resolver Resolve.ResolveSpec Resolve.Wf Resolve.Arrow
     Resolve.ImportProofs Resolve.ImportFix Resolve.RefineProofs Resolve.TotalProofs.
Import ListNotations.
Local Open Scope list_scope.

(* ---- computations that leave the tables alone ---- *)
Definition same_tabs (st st' : rstate) : Prop := st_ns st' = st_ns st /\ st_n2f st' = st_n2f st.

Lemma same_tabs_refl st : same_tabs st st. Proof. split; reflexivity. Qed.
Lemma same_tabs_sym a b : same_tabs a b -> same_tabs b a. Proof. intros [A B]. split; congruence. Qed.
Lemma same_tabs_trans a b c : same_tabs a b -> same_tabs b c -> same_tabs a c.
Proof. intros [A B] [C D]. split; congruence. Qed.

Definition kn {A} (m : M A) : Prop := forall st a st', m st = Ok (a, st') -> same_tabs st st'.

Lemma kn_ret {A} (a : A) : kn (ret a).
Proof. intros st b st' E. inversion E; subst. apply same_tabs_refl. Qed.
Lemma kn_fail {A} k sp : kn (@fail A k sp).
Proof. intros st b st' E. discriminate E. Qed.
Lemma kn_bind {A B} (m : M A) (k : A -> M B) : kn m -> (forall a, kn (k a)) -> kn (bind m k).
Proof.
  intros Hm Hk st b st' E. apply bind_ok in E as (a & s1 & E1 & E2).
  eapply same_tabs_trans; [eapply Hm; eauto|eapply Hk; eauto].
Qed.
Lemma kn_lift {A} (g : rstate -> res A) : kn (lift g).
Proof. intros st b st' E. unfold lift in E. destruct (g st); inversion E; subst. apply same_tabs_refl. Qed.
Lemma kn_new_var i k : kn (new_var i k).
Proof. intros st b st' E. unfold new_var, new_var_g in E. inversion E; subst. split; reflexivity. Qed.
Lemma kn_mapM {X Y} (g : X -> M Y) l : (forall x, In x l -> kn (g x)) -> kn (mapM g l).
Proof.
  induction l as [|x l IH]; intros H; cbn [mapM]; [apply kn_ret|].
  apply kn_bind; [apply H; left; reflexivity|]. intros y.
  apply kn_bind; [apply IH; intros z Hz; apply H; right; exact Hz|]. intros ys. apply kn_ret.
Qed.
Lemma kn_optM {X Y} (g : X -> M Y) o : (forall x, kn (g x)) -> kn (optM g o).
Proof. intros H. destruct o; cbn [optM]; [|apply kn_ret]. apply kn_bind; [apply H|]. intros y. apply kn_ret. Qed.
Lemma kn_seq (rs : env -> pstmt -> M (option stmt * env)) l : (forall e x, In x l -> kn (rs e x)) -> forall e, kn (seq_with rs e l).
Proof.
  induction l as [|x l IH]; intros H e; cbn [seq_with]; [apply kn_ret|].
  apply kn_bind; [apply H; left; reflexivity|]. intros r.
  apply kn_bind; [apply IH; intros e' z Hz; apply H; right; exact Hz|]. intros rest. apply kn_ret.
Qed.
Lemma kn_params ps : forall e, kn (params_spec e ps).
Proof.
  induction ps as [|[n t] ps IH]; intros e; cbn [params_spec]; [apply kn_ret|].
  apply kn_bind; [apply kn_new_var|]. intros v. apply kn_bind; [apply kn_lift|]. intros t'.
  apply kn_bind; [apply IH|]. intros r. apply kn_ret.
Qed.

Section Spec.
Variable lf : bool.

Lemma kn_all : forall f,
  (forall e x, kn (expr_s lf f e x)) /\ (forall e a, kn (assign_s lf f e a)) /\ (forall e s, kn (stmt_s lf f e s)).
Proof.
  induction f as [|f (IHe & IHa & IHs)].
  - split; [|split]; intros ? ? ? ? ? E; discriminate E.
  - assert (Hb : forall e op a b sp, kn (binop_with (expr_s lf f e) op a b sp)).
    { intros. unfold binop_with. apply kn_bind; [apply IHe|]. intros x. apply kn_bind; [apply IHe|]. intros y. apply kn_ret. }
    assert (Hu : forall e op a sp, kn (uniop_with (expr_s lf f e) op a sp)).
    { intros. unfold uniop_with. apply kn_bind; [apply IHe|]. intros x. apply kn_ret. }
    assert (Hseq : forall e l, kn (seq_with (stmt_s lf f) e l)) by (intros; apply kn_seq; intros; apply IHs).
    split; [|split].
    + intros e x. destruct x; cbn [expr_s]; try apply Hb; try apply Hu; try apply kn_ret; try apply IHe; try apply IHa.
      * apply kn_bind; [|intros y; apply kn_ret]. apply kn_mapM. intros b _. destruct b as [c body bsp].
        apply kn_bind; [apply kn_optM; intros; apply IHe|]. intros c'.
        apply kn_bind; [apply Hseq|]. intros b'. apply kn_ret.
      * apply kn_bind; [apply IHe|]. intros tm'.
        apply kn_bind.
        { apply kn_mapM. intros b _. destruct b as [pat v body].
          apply kn_bind; [apply kn_optM; intros; apply kn_new_var|]. intros v'.
          apply kn_bind; [apply Hseq|]. intros b'. apply kn_ret. }
        intros brs'. apply kn_bind; [apply kn_optM; intros; apply Hseq|]. intros ft'. apply kn_ret.
      * apply kn_bind; [apply kn_params|]. intros ps. apply kn_bind; [apply kn_lift|]. intros rt'.
        apply kn_bind; [apply Hseq|]. intros b'. apply kn_ret.
      * apply kn_bind; [apply kn_lift|]. intros b. apply kn_bind; [apply kn_new_var|]. intros sv.
        apply kn_bind; [|intros y; apply kn_ret]. apply kn_mapM. intros [n v] _.
        apply kn_bind; [apply IHe|]. intros v'. apply kn_ret.
      * apply kn_bind; [apply kn_mapM; intros; apply IHe|]. intros y. apply kn_ret.
      * apply kn_bind; [apply kn_mapM; intros; apply IHe|]. intros y. apply kn_ret.
    + intros e a. destruct a; cbn [assign_s].
      * apply kn_bind; [apply kn_lift|]. intros v. apply kn_ret.
      * apply kn_bind; [apply IHa|]. intros x. destruct x; try apply kn_fail.
        apply kn_bind; [apply IHe|]. intros y. apply kn_ret.
      * apply kn_bind; [apply IHa|]. intros x. apply kn_bind; [apply kn_mapM; intros; apply IHe|]. intros y. apply kn_ret.
      * apply kn_bind; [apply IHe|]. intros z. apply kn_bind; [apply IHa|]. intros x.
        apply kn_bind; [apply kn_mapM; intros; apply IHe|]. intros y. apply kn_ret.
      * apply kn_bind; [apply kn_lift|]. intros ns. destruct ns as [ns|].
        -- apply kn_bind; [apply kn_lift|]. intros o. destruct o as [[v|g s0]|]; [apply kn_ret|apply kn_fail|apply kn_fail].
        -- apply kn_bind; [apply IHa|]. intros v. apply kn_ret.
      * apply kn_bind; [apply IHa|]. intros x. apply kn_bind; [apply IHe|]. intros y. apply kn_ret.
      * apply IHe.
    + intros e s. destruct s; cbn [stmt_s]; try apply kn_ret.
      * apply kn_bind; [apply kn_lift|]. intros v. apply kn_bind; [apply kn_lift|]. intros fs. apply kn_ret.
      * apply kn_bind; [apply kn_lift|]. intros v. apply kn_bind; [apply kn_lift|]. intros fs. apply kn_ret.
      * apply kn_bind; [apply IHe|]. intros y. apply kn_bind; [apply IHa|]. intros x. apply kn_ret.
      * destruct e as [|sc e'].
        -- apply kn_bind; [apply kn_new_var|]. intros m. apply kn_bind; [apply IHe|]. intros y.
           apply kn_bind; [apply kn_lift|]. intros v. apply kn_bind; [apply kn_lift|]. intros t'. apply kn_ret.
        -- destruct (is_function value).
           ++ apply kn_bind; [apply kn_new_var|]. intros v. apply kn_bind; [apply IHe|]. intros y.
              apply kn_bind; [apply kn_lift|]. intros t'. apply kn_ret.
           ++ apply kn_bind; [apply IHe|]. intros y. apply kn_bind; [apply kn_new_var|]. intros v.
              apply kn_bind; [apply kn_lift|]. intros t'. apply kn_ret.
      * apply kn_bind; [apply kn_lift|]. intros v. apply kn_bind; [apply kn_lift|]. intros t'. apply kn_ret.
      * apply kn_bind; [apply IHe|]. intros c. apply kn_bind; [apply IHs|]. intros b. apply kn_ret.
      * apply kn_bind; [apply kn_optM; intros; apply IHe|]. intros v. apply kn_ret.
      * apply kn_bind; [apply Hseq|]. intros b. apply kn_ret.
      * apply kn_bind; [apply IHe|]. intros v. apply kn_ret.
Qed.

End Spec.

(* ---- a simple callee only reads, and only the tables and the (explicit) environment ---- *)
Lemma lookup_global_tabs st st' n x : same_tabs st st' -> lookup_global st' n x = lookup_global st n x.
Proof. intros [A B]. unfold lookup_global. rewrite A, B. reflexivity. Qed.

Lemma lookup_env_tabs st st' e x sp : same_tabs st st' -> lookup (with_env st' e) x sp = lookup (with_env st e) x sp.
Proof.
  intros H. unfold lookup. cbn [with_env st_stack]. destruct (stack_find (env_flat e) x); [reflexivity|].
  rewrite (lookup_global_tabs (with_env st e) (with_env st' e)); [reflexivity|]. destruct H; split; cbn; assumption.
Qed.

Lemma namespace_file_tabs st st' n a : same_tabs st st' -> namespace_file st' n a = namespace_file st n a.
Proof.
  intros H. revert n. induction a; intros n; cbn [namespace_file]; try reflexivity.
  - rewrite (lookup_global_tabs st st'); auto.
  - rewrite IHa. destruct (namespace_file st n a) as [[f|]| | |]; cbn; try reflexivity.
    destruct H as [A B]. rewrite B. destruct (f2n_get (st_n2f st) f); [|reflexivity].
    rewrite (lookup_global_tabs st st'); [reflexivity|split; assumption].
Qed.

Lemma namespace_list_tabs st st' n a : same_tabs st st' -> namespace_list st' n a = namespace_list st n a.
Proof.
  intros H. unfold namespace_list. rewrite (namespace_file_tabs st st' n a H). destruct H as [A B]. rewrite B. reflexivity.
Qed.

Section Sim.
Variable lf : bool.

Lemma simple_reads : forall f e a, simple_callee a = true ->
  forall st st' x s1, same_tabs st st' -> assign_s lf f e a st = Ok (x, s1) ->
  s1 = st /\ assign_s lf f e a st' = Ok (x, st').
Proof.
  induction f as [|f IH]; intros e a Ha st st' x s1 HT E; [discriminate E|].
  destruct a; try discriminate Ha; cbn [assign_s] in E |- *.
  - unfold bind, lookup_in, lift in E |- *. rewrite (lookup_env_tabs st st' e _ _ HT).
    destruct (lookup (with_env st e) (i_name i) (i_span i)); try discriminate E. inversion E; subst. auto.
  - cbn [simple_callee] in Ha. unfold bind at 1 in E. unfold bind at 1. unfold lift at 1 in E. unfold lift at 1.
    assert (RS : root_on_stack (with_env st' e) a = root_on_stack (with_env st e) a) by reflexivity.
    rewrite RS, (namespace_list_tabs st st' _ _ HT).
    destruct (if lf && root_on_stack (with_env st e) a then Ok None else namespace_list st (sp_file sp) a) as [ns| | |];
      try discriminate E.
    destruct ns as [ns|].
    + unfold bind, lift in E |- *. rewrite (lookup_global_tabs st st' _ _ HT).
      destruct (lookup_global st ns (i_name field)) as [[[v|g s0]|]| | |]; try discriminate E. inversion E; subst. auto.
    + unfold bind in E |- *. destruct (assign_s lf f e a st) as [[v s2]| | |] eqn:E2; try discriminate E.
      destruct (IH e a Ha st st' v s2 HT E2) as [-> E3]. rewrite E3. inversion E; subst. auto.
Qed.

(* ---- equal as far as success goes ---- *)
Definition okeq {A} (m m' : M A) : Prop := forall st r, m st = Ok r <-> m' st = Ok r.

Lemma okeq_refl {A} (m : M A) : okeq m m. Proof. intros st r. reflexivity. Qed.
Lemma okeq_trans {A} (a b c : M A) : okeq a b -> okeq b c -> okeq a c.
Proof. intros H1 H2 st r. rewrite (H1 st r). apply H2. Qed.
Lemma okeq_ext {A} (m m' : M A) : (forall st, m st = m' st) -> okeq m m'.
Proof. intros H st r. rewrite H. reflexivity. Qed.

Lemma bind_ok_iff {A B} (m : M A) (k : A -> M B) st r :
  bind m k st = Ok r <-> exists a s1, m st = Ok (a, s1) /\ k a s1 = Ok r.
Proof.
  unfold bind. destruct (m st) as [[a s1]| | |]; split; try discriminate; eauto;
    try (intros (a0 & s0 & E & _); discriminate E).
  intros (a0 & s0 & E & K). inversion E; subst. exact K.
Qed.

Lemma okeq_bind {A B} (m m' : M A) (k k' : A -> M B) :
  okeq m m' -> (forall a, okeq (k a) (k' a)) -> okeq (bind m k) (bind m' k').
Proof.
  intros Hm Hk st r. rewrite !bind_ok_iff. split; intros (a & s1 & E & K); exists a, s1.
  - split; [apply Hm, E|apply Hk, K].
  - split; [apply Hm, E|apply Hk, K].
Qed.

Lemma okeq_mapM {X X' Y} (h : X -> X') (G : X -> M Y) (G' : X' -> M Y) l :
  (forall x, In x l -> okeq (G x) (G' (h x))) -> okeq (mapM G l) (mapM G' (map h l)).
Proof.
  induction l as [|x l IH]; intros H; cbn [mapM map]; [apply okeq_refl|].
  apply okeq_bind; [apply H; left; reflexivity|]. intros y.
  apply okeq_bind; [apply IH; intros z Hz; apply H; right; exact Hz|]. intros ys. apply okeq_refl.
Qed.

Lemma okeq_seq (h : pstmt -> pstmt) (rs rs' : env -> pstmt -> M (option stmt * env)) l :
  (forall e x, In x l -> okeq (rs e x) (rs' e (h x))) -> forall e, okeq (seq_with rs e l) (seq_with rs' e (map h l)).
Proof.
  induction l as [|x l IH]; intros H e; cbn [seq_with map]; [apply okeq_refl|].
  apply okeq_bind; [apply H; left; reflexivity|]. intros r.
  apply okeq_bind; [apply IH; intros e' z Hz; apply H; right; exact Hz|]. intros rest. apply okeq_refl.
Qed.

Lemma bind_assoc {A B C} (m : M A) (k : A -> M B) (h : B -> M C) st :
  bind (bind m k) h st = bind m (fun a => bind (k a) h) st.
Proof. unfold bind. destruct (m st) as [[a s]| | |]; reflexivity. Qed.

(* a computation that leaves the tables alone commutes with a reading one *)
Lemma okeq_swap {A B} (X : M A) (F : M expr) (K : A -> expr -> M B) :
  kn X ->
  (forall st st' x s1, same_tabs st st' -> F st = Ok (x, s1) -> s1 = st /\ F st' = Ok (x, st')) ->
  okeq (x <- X ;; fv <- F ;; K x fv) (fv <- F ;; x <- X ;; K x fv).
Proof.
  intros HX HF st r. rewrite !bind_ok_iff. split.
  - intros (x & s1 & EX & E). apply bind_ok_iff in E as (fv & s2 & EF & EK).
    pose proof (HX _ _ _ EX) as T. destruct (HF s1 st fv s2 (same_tabs_sym _ _ T) EF) as [-> EF'].
    exists fv, st. split; [exact EF'|]. apply bind_ok_iff. exists x, s1. auto.
  - intros (fv & s0 & EF & E). destruct (HF st st fv s0 (same_tabs_refl st) EF) as [-> _].
    apply bind_ok_iff in E as (x & s1 & EX & EK). exists x, s1. split; [exact EX|].
    apply bind_ok_iff. pose proof (HX _ _ _ EX) as T. destruct (HF st s1 fv st T EF) as [_ EF']. exists fv, s1. auto.
Qed.

Lemma da_simple a : simple_callee a = true -> da_a a = a.
Proof. induction a; cbn; intros H; try discriminate H; [reflexivity|]. rewrite IHa; auto. Qed.

Lemma is_function_da v : is_function (da_e v) = is_function v.
Proof. induction v; cbn [da_e is_function]; auto. Qed.

Definition Oe (f : nat) : Prop := forall e x, as_e x = true -> okeq (expr_s lf f e x) (expr_s lf f e (da_e x)).
Definition Oa (f : nat) : Prop := forall e a, as_a a = true -> okeq (assign_s lf f e a) (assign_s lf f e (da_a a)).
Definition Os (f : nat) : Prop := forall e s, as_s s = true -> okeq (stmt_s lf f e s) (stmt_s lf f e (da_s s)).

Ltac ksplit :=
  repeat match goal with
         | H0 : (_ && _) = true |- _ => let H1 := fresh "Hp" in apply andb_true_iff in H0 as [H0 H1]
         end.

Section Step.
Variable f : nat.
Hypothesis IHe : Oe f.
Hypothesis IHa : Oa f.
Hypothesis IHs : Os f.

Lemma o_args e l : all_with as_e l = true -> okeq (mapM (expr_s lf f e) l) (mapM (expr_s lf f e) (map da_e l)).
Proof. intros H. apply okeq_mapM. intros x Hx. apply IHe. eapply all_with_in; eauto. Qed.

Lemma o_seq e l : all_with as_s l = true -> okeq (seq_with (stmt_s lf f) e l) (seq_with (stmt_s lf f) e (map da_s l)).
Proof. intros H. apply okeq_seq. intros e' x Hx. apply IHs. eapply all_with_in; eauto. Qed.

Lemma o_optM e o : (match o with Some c => as_e c | None => true end) = true ->
  okeq (optM (expr_s lf f e) o) (optM (expr_s lf f e) (match o with Some c => Some (da_e c) | None => None end)).
Proof.
  intros H. destruct o as [c|]; cbn [optM]; [|apply okeq_refl].
  apply okeq_bind; [apply IHe; exact H|]. intros y. apply okeq_refl.
Qed.

Lemma o_binop e op a b sp : as_e a && as_e b = true ->
  okeq (binop_with (expr_s lf f e) op a b sp) (binop_with (expr_s lf f e) op (da_e a) (da_e b) sp).
Proof.
  intros H. apply andb_true_iff in H as [H1 H2]. unfold binop_with.
  apply okeq_bind; [apply IHe; exact H1|]. intros x. apply okeq_bind; [apply IHe; exact H2|]. intros y. apply okeq_refl.
Qed.

Lemma o_uniop e op a sp : as_e a = true ->
  okeq (uniop_with (expr_s lf f e) op a sp) (uniop_with (expr_s lf f e) op (da_e a) sp).
Proof. intros H. unfold uniop_with. apply okeq_bind; [apply IHe; exact H|]. intros x. apply okeq_refl. Qed.

Lemma ostep_e : Oe (S f).
Proof.
  intros e x Hp. destruct x; cbn [da_e expr_s]; cbn [as_e] in Hp; try apply okeq_refl.
  - apply IHa; assumption.
  - apply o_binop; assumption.
  - apply o_binop; assumption.
  - apply o_binop; assumption.
  - apply o_binop; assumption.
  - apply o_uniop; assumption.
  - apply o_binop; assumption.
  - apply o_binop; assumption.
  - apply o_binop; assumption.
  - apply o_binop; assumption.
  - apply o_uniop; assumption.
  - apply IHe; assumption.
  - (* PIf *)
    apply okeq_bind; [|intros y; apply okeq_refl].
    apply okeq_mapM. intros b Hb. pose proof (all_with_in _ _ _ Hp Hb) as Hpb.
    destruct b as [c body bsp]. cbn [da_b]. cbn beta iota in Hpb. apply andb_true_iff in Hpb as [Hc Hbody].
    apply okeq_bind; [apply o_optM; exact Hc|]. intros c'.
    apply okeq_bind; [unfold scope_with; apply o_seq; exact Hbody|]. intros b'. apply okeq_refl.
  - (* PCase *)
    ksplit. apply okeq_bind; [apply IHe; assumption|]. intros tm'.
    apply okeq_bind.
    { apply okeq_mapM. intros b Hb.
      match goal with H : all_with _ branches = true |- _ => pose proof (all_with_in _ _ _ H Hb) as Hpb end.
      destruct b as [pat v body]. cbn [da_c]. cbn beta iota in Hpb.
      apply okeq_bind; [apply okeq_refl|]. intros v'.
      apply okeq_bind; [apply o_seq; exact Hpb|]. intros b'. apply okeq_refl. }
    intros brs'. apply okeq_bind; [|intros y; apply okeq_refl].
    destruct fall_through as [ft|]; cbn [optM]; [|apply okeq_refl].
    apply okeq_bind; [unfold scope_with; apply o_seq; assumption|]. intros y. apply okeq_refl.
  - (* PFunction *)
    apply okeq_bind; [apply okeq_refl|]. intros ps. apply okeq_bind; [apply okeq_refl|]. intros rt'.
    apply okeq_bind; [apply o_seq; assumption|]. intros b'. apply okeq_refl.
  - (* PBlob *)
    apply okeq_bind; [apply okeq_refl|]. intros b. apply okeq_bind; [apply okeq_refl|]. intros sv.
    apply okeq_bind; [|intros y; apply okeq_refl].
    apply (okeq_mapM (fun f0 : string * pexpr => (fst f0, da_e (snd f0)))). intros [n v] Hx.
    pose proof (all_with_in _ _ _ Hp Hx) as Hv. cbn [fst snd] in *. rewrite is_function_da.
    apply okeq_bind; [apply IHe; exact Hv|]. intros v'. apply okeq_refl.
  - apply okeq_bind; [apply o_args; assumption|]. intros y. apply okeq_refl.
  - apply okeq_bind; [apply o_args; assumption|]. intros y. apply okeq_refl.
Qed.

Lemma ostep_a : Oa (S f).
Proof.
  intros e a Hp. destruct a; cbn [da_a assign_s]; cbn [as_a] in Hp; try apply okeq_refl.
  - ksplit. apply okeq_bind; [apply IHa; assumption|]. intros x.
    destruct x; try apply okeq_refl. apply okeq_bind; [apply IHe; assumption|]. intros y. apply okeq_refl.
  - ksplit. apply okeq_bind; [apply IHa; assumption|]. intros x.
    apply okeq_bind; [apply o_args; assumption|]. intros y. apply okeq_refl.
  - (* the arrow call *)
    ksplit. rewrite (da_simple a Hp). cbn [mapM].
    eapply okeq_trans.
    { apply (okeq_swap (expr_s lf f e extra) (assign_s lf f e a)
               (fun x fv => args' <- mapM (expr_s lf f e) args ;; ret (ECall fv (x :: args') sp))).
      - apply (proj1 (kn_all lf f)).
      - intros st st' x s1 HT E. eapply simple_reads; eauto. }
    apply okeq_bind; [apply okeq_refl|]. intros fv.
    eapply okeq_trans; [|apply okeq_ext; intros st; symmetry; apply bind_assoc].
    apply okeq_bind; [apply IHe; assumption|]. intros x.
    eapply okeq_trans; [|apply okeq_ext; intros st; symmetry; apply bind_assoc].
    apply okeq_bind; [apply o_args; assumption|]. intros ys. apply okeq_refl.
  - (* AAccess *)
    assert (E : forall st, (if lf && root_on_stack (with_env st e) (da_a a) then Ok None
                            else namespace_list st (sp_file sp) (da_a a))
                           = (if lf && root_on_stack (with_env st e) a then Ok None else namespace_list st (sp_file sp) a)).
    { intros st. assert (C : chain_root (da_a a) = chain_root a) by (clear; induction a; cbn; auto).
      assert (NF : forall n, namespace_file st n (da_a a) = namespace_file st n a).
      { clear. induction a; intros n; cbn; auto. rewrite IHa. reflexivity. }
      unfold root_on_stack, namespace_list. rewrite C, NF. reflexivity. }
    apply okeq_bind; [apply okeq_ext; intros st; unfold lift; rewrite E; reflexivity|]. intros ns.
    destruct ns as [ns|]; [apply okeq_refl|].
    apply okeq_bind; [apply IHa; assumption|]. intros v. apply okeq_refl.
  - ksplit. apply okeq_bind; [apply IHa; assumption|]. intros x.
    apply okeq_bind; [apply IHe; assumption|]. intros y. apply okeq_refl.
  - apply IHe; assumption.
Qed.

Lemma ostep_s : Os (S f).
Proof.
  intros e s Hp. destruct s; cbn [da_s]; try apply okeq_refl.
  - (* PAssignment *)
    cbn [stmt_s]. cbn [as_s] in Hp. ksplit.
    apply okeq_bind; [apply IHe; assumption|]. intros y. apply okeq_bind; [apply IHa; assumption|]. intros x. apply okeq_refl.
  - (* PDefinition *)
    cbn [stmt_s]. cbn [as_s] in Hp. destruct e as [|sc e'].
    + apply okeq_bind; [apply okeq_refl|]. intros m. apply okeq_bind; [apply IHe; assumption|]. intros y. apply okeq_refl.
    + rewrite is_function_da. destruct (is_function value).
      * apply okeq_bind; [apply okeq_refl|]. intros v. apply okeq_bind; [apply IHe; assumption|]. intros y. apply okeq_refl.
      * apply okeq_bind; [apply IHe; assumption|]. intros y. apply okeq_refl.
  - (* PLoop *)
    cbn [stmt_s]. cbn [as_s] in Hp. ksplit.
    apply okeq_bind; [apply IHe; assumption|]. intros c. apply okeq_bind; [apply IHs; assumption|]. intros b. apply okeq_refl.
  - (* PRet *)
    destruct value as [v|]; [|apply okeq_refl]. cbn [stmt_s]. cbn [as_s] in Hp.
    apply okeq_bind; [|intros y; apply okeq_refl]. cbn [optM].
    apply okeq_bind; [apply IHe; assumption|]. intros y. apply okeq_refl.
  - (* PBlock *)
    cbn [stmt_s]. cbn [as_s] in Hp. apply okeq_bind; [unfold scope_with; apply o_seq; assumption|]. intros b. apply okeq_refl.
  - (* PStatementExpression *)
    cbn [stmt_s]. cbn [as_s] in Hp. apply okeq_bind; [apply IHe; assumption|]. intros v. apply okeq_refl.
Qed.

End Step.

Lemma o_all : forall f, Oe f /\ Oa f /\ Os f.
Proof.
  induction f as [|f (IHe & IHa & IHs)].
  - split; [|split]; intros e x _; apply okeq_refl.
  - split; [apply ostep_e; assumption|]. split; [apply ostep_a; assumption|apply ostep_s; assumption].
Qed.

End Sim.

(* ---------------------------------------------------------------------------------------------- *)
(* the passes before the statements do not look inside expressions *)
Lemma defined_ident_da s : defined_ident (da_s s) = defined_ident s.
Proof. destruct s; try reflexivity. destruct value; reflexivity. Qed.

Lemma pstmt_span_da s : pstmt_span (da_s s) = pstmt_span s.
Proof. destruct s; try reflexivity. destruct value; reflexivity. Qed.

Lemma add_definitions_da ss : forall t st, add_definitions (map da_s ss) t st = add_definitions ss t st.
Proof.
  induction ss as [|s ss IH]; intros t st; cbn [map add_definitions]; [reflexivity|].
  rewrite defined_ident_da, pstmt_span_da. destruct (defined_ident s) as [[i k]|]; [|apply IH].
  apply bind_ext; [reflexivity|]. intros v s1. destruct (ns_get t (i_name i)); [reflexivity|apply IH].
Qed.

Lemma pass1_da ast st :
  for_each insert_namespace_and_add_definitions (dearrow ast) st
  = for_each insert_namespace_and_add_definitions ast st.
Proof.
  unfold dearrow. rewrite for_each_map. apply for_each_ext. intros m s.
  unfold insert_namespace_and_add_definitions, da_module. cbn [m_stmts m_file].
  apply bind_ext; [intros s1; apply add_definitions_da|reflexivity].
Qed.

Lemma rgv_da f ss : forall st, resolve_global_variables f (map da_s ss) st = resolve_global_variables f ss st.
Proof.
  induction ss as [|s ss IH]; intros st; cbn [map resolve_global_variables]; [reflexivity|].
  apply bind_ext; [|intros u s1; apply IH]. intros s1. destruct s; try reflexivity. destruct value; reflexivity.
Qed.

Lemma quiet_stmt_da f s st : quiet_stmt f (da_s s) st = quiet_stmt f s st.
Proof. destruct s; try reflexivity. destruct value; reflexivity. Qed.

Lemma quiet_round_da ast st : quiet_round (dearrow ast) st = quiet_round ast st.
Proof.
  unfold quiet_round, dearrow. rewrite for_each_map. apply for_each_ext. intros m s.
  unfold quiet_pass, da_module. cbn [m_stmts m_file]. rewrite for_each_map. apply for_each_ext. intros x s1.
  apply quiet_stmt_da.
Qed.

Lemma import_rounds_da ast n : forall st, import_rounds n (dearrow ast) st = import_rounds n ast st.
Proof.
  induction n as [|n IH]; intros st; cbn [import_rounds]; [reflexivity|].
  rewrite quiet_round_da. destruct (quiet_round ast st) as [[u s]| | |]; try reflexivity.
  destruct (Nat.eqb (names_count s) (names_count st)); [reflexivity|apply IH].
Qed.

Lemma import_items_da ast : import_items (dearrow ast) = import_items ast.
Proof.
  unfold import_items, dearrow. induction ast as [|m ast IH]; cbn; [reflexivity|]. rewrite IH. f_equal.
  induction (m_stmts m) as [|s ss IHs]; cbn; [reflexivity|]. rewrite IHs. f_equal.
  destruct s; try reflexivity. destruct value; reflexivity.
Qed.

Lemma import_pass_da b ast st : import_pass b (dearrow ast) st = import_pass b ast st.
Proof.
  unfold import_pass. apply bind_ext.
  - intros s. destruct b; [|reflexivity]. rewrite import_items_da. apply import_rounds_da.
  - intros u s. unfold report_pass, dearrow. rewrite for_each_map. apply for_each_ext. intros m s1.
    unfold da_module. cbn [m_stmts m_file]. apply rgv_da.
Qed.

Lemma flat_stmts_da ast : flat_map m_stmts (dearrow ast) = map da_s (flat_map m_stmts ast).
Proof.
  unfold dearrow. induction ast as [|m ast IH]; cbn; [reflexivity|]. rewrite IH, map_app. reflexivity.
Qed.

Lemma init_state_da ast : init_state (dearrow ast) = init_state ast.
Proof. unfold init_state, dearrow. rewrite map_map. reflexivity. Qed.


(* depth, hence the fuel computed from the program, is the same *)
Lemma depth_e_da : forall e, depth_e (da_e e) = depth_e e
with depth_a_da : forall a, depth_a (da_a a) = depth_a a
with depth_s_da : forall s, depth_s (da_s s) = depth_s s.
Proof.
  - destruct e; cbn [da_e depth_e]; try reflexivity; try (now rewrite ?depth_e_da, ?depth_a_da).
    + f_equal. induction branches as [|b l IH]; cbn; [reflexivity|]. rewrite IH. f_equal.
      destruct b as [c body sp']. cbn. f_equal.
      * destruct c; [apply depth_e_da|reflexivity].
      * induction body as [|a l' IH']; cbn; [reflexivity|]. now rewrite depth_s_da, IH'.
    + f_equal. rewrite depth_e_da. f_equal. f_equal.
      * induction branches as [|b l IH]; cbn; [reflexivity|]. rewrite IH. f_equal.
        destruct b. cbn. induction body as [|a l' IH']; cbn; [reflexivity|]. now rewrite depth_s_da, IH'.
      * destruct fall_through as [l|]; [|reflexivity].
        induction l as [|a l' IH']; cbn; [reflexivity|]. now rewrite depth_s_da, IH'.
    + f_equal. induction body as [|a l IH]; cbn; [reflexivity|]. now rewrite depth_s_da, IH.
    + f_equal. induction fields as [|[k a] l IH]; cbn; [reflexivity|]. cbn in IH. now rewrite depth_e_da, IH.
    + f_equal. induction values as [|a l IH]; cbn; [reflexivity|]. now rewrite depth_e_da, IH.
    + f_equal. induction values as [|a l IH]; cbn; [reflexivity|]. now rewrite depth_e_da, IH.
  - destruct a; cbn [da_a depth_a]; try reflexivity; try (now rewrite ?depth_e_da, ?depth_a_da).
    + f_equal. rewrite depth_a_da. f_equal. induction args as [|a0 l IH]; cbn; [reflexivity|]. now rewrite depth_e_da, IH.
    + f_equal. rewrite depth_a_da. cbn [list_max]. rewrite depth_e_da.
      assert (E : list_max depth_e (map da_e args) = list_max depth_e args).
      { induction args as [|a0 l IH]; cbn; [reflexivity|]. now rewrite depth_e_da, IH. }
      rewrite E. lia.
  - destruct s; cbn [da_s depth_s]; try reflexivity; try (now rewrite ?depth_e_da, ?depth_a_da, ?depth_s_da).
    + destruct value as [v|]; cbn [da_s depth_s]; [now rewrite depth_e_da|reflexivity].
    + f_equal. induction statements as [|a l IH]; cbn; [reflexivity|]. now rewrite depth_s_da, IH.
Qed.

Lemma fuel_of_da ast : fuel_of (dearrow ast) = fuel_of ast.
Proof.
  unfold fuel_of, dearrow. f_equal. induction ast as [|m ast IH]; cbn; [reflexivity|]. rewrite IH. f_equal.
  induction (m_stmts m) as [|s l IHl]; cbn; [reflexivity|]. now rewrite depth_s_da, IHl.
Qed.

(* well-formedness is kept *)
Lemma wf_e_da : forall e, wf_e (da_e e) = wf_e e
with wf_a_da : forall a, wf_a (da_a a) = wf_a a
with wf_s_da : forall s, wf_s (da_s s) = wf_s s.
Proof.
  - destruct e; cbn [da_e wf_e]; try reflexivity; try (now rewrite ?wf_e_da, ?wf_a_da).
    + induction branches as [|b l IH]; cbn; [reflexivity|]. rewrite IH. f_equal.
      destruct b as [c body sp']. cbn. f_equal.
      * destruct c; [apply wf_e_da|reflexivity].
      * induction body as [|a l' IH']; cbn; [reflexivity|]. now rewrite wf_s_da, IH'.
    + rewrite wf_e_da. f_equal; [f_equal|].
      * induction branches as [|b l IH]; cbn; [reflexivity|]. rewrite IH. f_equal.
        destruct b. cbn. induction body as [|a l' IH']; cbn; [reflexivity|]. now rewrite wf_s_da, IH'.
      * destruct fall_through as [l|]; [|reflexivity].
        induction l as [|a l' IH']; cbn; [reflexivity|]. now rewrite wf_s_da, IH'.
    + induction body as [|a l IH]; cbn; [reflexivity|]. now rewrite wf_s_da, IH.
    + induction fields as [|[k a] l IH]; cbn; [reflexivity|]. cbn in IH. now rewrite wf_e_da, IH.
    + induction values as [|a l IH]; cbn; [reflexivity|]. now rewrite wf_e_da, IH.
    + induction values as [|a l IH]; cbn; [reflexivity|]. now rewrite wf_e_da, IH.
  - destruct a; cbn [da_a wf_a]; try reflexivity; try (now rewrite ?wf_e_da, ?wf_a_da).
    + rewrite wf_a_da. f_equal. induction args as [|a0 l IH]; cbn; [reflexivity|]. now rewrite wf_e_da, IH.
    + rewrite wf_a_da.
      assert (E : all_with wf_e (map da_e args) = all_with wf_e args).
      { induction args as [|a0 l IH]; cbn; [reflexivity|]. now rewrite wf_e_da, IH. }
      change (all_with wf_e (da_e extra :: map da_e args)) with (wf_e (da_e extra) && all_with wf_e (map da_e args)).
      rewrite wf_e_da, E.
      destruct (wf_e extra), (wf_a a), (all_with wf_e args); reflexivity.
  - destruct s; cbn [da_s wf_s]; try reflexivity; try (now rewrite ?wf_e_da, ?wf_a_da, ?wf_s_da).
    + rewrite wf_e_da, wf_s_da. f_equal. f_equal. destruct s; try reflexivity. destruct value; reflexivity.
    + destruct value as [v|]; cbn [da_s wf_s]; [now rewrite wf_e_da|reflexivity].
    + induction statements as [|a l IH]; cbn; [reflexivity|]. now rewrite wf_s_da, IH.
Qed.

Lemma wf_ast_da ast : wf_ast (dearrow ast) = wf_ast ast.
Proof.
  unfold wf_ast, dearrow. induction ast as [|m ast IH]; cbn; [reflexivity|]. rewrite IH. f_equal.
  induction (m_stmts m) as [|s l IHl]; cbn; [reflexivity|]. rewrite IHl. f_equal.
  destruct s; cbn; try reflexivity; try (now rewrite wf_e_da); destruct value; reflexivity.
Qed.

(* ---- the specification, then the code ---- *)
Theorem spec_arrow lf fx ast r : arrows_simple ast = true ->
  (resolve_spec_g lf fx ast = Ok r <-> resolve_spec_g lf fx (dearrow ast) = Ok r).
Proof.
  intros HA. unfold resolve_spec_g. rewrite fuel_of_da. unfold resolve_spec_fuel, resolve_spec_m. rewrite init_state_da.
  set (fuel := fuel_of ast).
  assert (HS : all_with as_s (flat_map m_stmts ast) = true).
  { clear - HA. unfold arrows_simple in HA. induction ast as [|m ast IH]; [reflexivity|]. cbn in HA.
    apply andb_true_iff in HA as [Hm Ha]. cbn [flat_map]. specialize (IH Ha). clear Ha.
    induction (m_stmts m) as [|s l IHl]; [exact IH|]. cbn in Hm. apply andb_true_iff in Hm as [Hs Hl]. cbn. rewrite Hs. cbn. apply IHl, Hl. }
  assert (E : okeq
    (_ <- for_each insert_namespace_and_add_definitions ast ;; _ <- import_pass fx ast ;;
     out <- seq_with (stmt_s lf fuel) [] (flat_map m_stmts ast) ;;
     start <- lift (fun st => lookup_global st 0 "start") ;;
     match start with None => fail ENoStart (span_zero 0) | Some _ => ret out end)
    (_ <- for_each insert_namespace_and_add_definitions (dearrow ast) ;; _ <- import_pass fx (dearrow ast) ;;
     out <- seq_with (stmt_s lf fuel) [] (flat_map m_stmts (dearrow ast)) ;;
     start <- lift (fun st => lookup_global st 0 "start") ;;
     match start with None => fail ENoStart (span_zero 0) | Some _ => ret out end)).
  { apply okeq_bind; [apply okeq_ext; intros st; symmetry; apply pass1_da|]. intros _.
    apply okeq_bind; [apply okeq_ext; intros st; symmetry; apply import_pass_da|]. intros _.
    apply okeq_bind; [|intros out; apply okeq_refl]. rewrite flat_stmts_da.
    apply okeq_seq. intros e x Hx. apply (proj2 (proj2 (o_all lf fuel))). eapply all_with_in; eauto. }
  specialize (E (init_state ast)). revert E.
  generalize ((_ <- for_each insert_namespace_and_add_definitions ast ;; _ <- import_pass fx ast ;;
               out <- seq_with (stmt_s lf fuel) [] (flat_map m_stmts ast) ;;
               start <- lift (fun st => lookup_global st 0 "start") ;;
               match start with None => fail ENoStart (span_zero 0) | Some _ => ret out end) (init_state ast)).
  generalize ((_ <- for_each insert_namespace_and_add_definitions (dearrow ast) ;; _ <- import_pass fx (dearrow ast) ;;
               out <- seq_with (stmt_s lf fuel) [] (flat_map m_stmts (dearrow ast)) ;;
               start <- lift (fun st => lookup_global st 0 "start") ;;
               match start with None => fail ENoStart (span_zero 0) | Some _ => ret out end) (init_state ast)).
  intros b a E.
  destruct a as [[out st]| | |], b as [[out' st']| | |]; try (split; intros X; discriminate X).
  - pose proof (proj1 (E (out, st)) eq_refl) as X. inversion X; subst. reflexivity.
  - pose proof (proj1 (E (out, st)) eq_refl) as X. discriminate X.
  - pose proof (proj1 (E (out, st)) eq_refl) as X. discriminate X.
  - pose proof (proj1 (E (out, st)) eq_refl) as X. discriminate X.
  - pose proof (proj2 (E (out', st')) eq_refl) as X. discriminate X.
  - pose proof (proj2 (E (out', st')) eq_refl) as X. discriminate X.
  - pose proof (proj2 (E (out', st')) eq_refl) as X. discriminate X.
Qed.

(* resolve_arrow: for the code with the three restore flags on *)
Theorem resolve_arrow fl ast r :
  restores fl = true -> wf_ast ast = true -> arrows_simple ast = true ->
  (resolve fl ast = Ok r <-> resolve fl (dearrow ast) = Ok r).
Proof.
  intros Hr Hw Ha.
  rewrite (resolve_refines_restores fl Hr ast Hw).
  rewrite (resolve_refines_restores fl Hr (dearrow ast)); [|rewrite wf_ast_da; exact Hw].
  apply spec_arrow. exact Ha.
Qed.
