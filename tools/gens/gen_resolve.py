"""GenResolve: re-reads sylt-compiler/src/name_resolution.rs, dependency.rs and sylt-common/src/lib.rs and
emits coq/Gen/GenResolve.v:
  * gen_rflags: whether `fn if_branch`, `fn case_branch` and the `fall_through` arm of `fn expression`
    restore the scope stack (`self.stack.truncate(`), and whether the `AK::Access` arm of `fn assignable`
    looks the root of `x.f` up on the scope stack before the namespace table, and whether `pub fn resolve`
    repeats the use / from-use pass (result dropped) until a round adds no name before the pass that reports
    -- the five flags of Resolve/Resolver.v;
  * gen_assign_target_deps: whether the `S::Assignment` arm of `statement_dependencies` also takes the
    dependencies of the assignment *target* (Dep/Deps.v);
  * gen_std_libs: the names in STD_LIB_FILES (Resolve/Modules.v: `use <name>` of one of these is a library).
Shape facts the models rely on are checked; anything unexpected raises Untranslatable."""
import os
import re

import gen_tables
from gen_tables import Untranslatable

NAME = "GenResolve"


def _read(rel):
    p = os.path.join(gen_tables.REPO, rel)
    try:
        return open(p, encoding="utf-8").read()
    except OSError as e:
        raise Untranslatable("cannot read %s: %s" % (rel, e))


def _strip_comments(s):
    return re.sub(r"//[^\n]*", "", s)


def _braced(src, start):
    """text of the brace-matched block starting at the first `{` at or after `start`"""
    i = src.find("{", start)
    if i < 0:
        raise Untranslatable("no block")
    depth = 0
    j = i
    while j < len(src):
        if src[j] == "{":
            depth += 1
        elif src[j] == "}":
            depth -= 1
            if depth == 0:
                return src[i:j + 1]
        j += 1
    raise Untranslatable("unbalanced braces")


def _fn_body(src, name):
    m = re.search(r"\bfn\s+%s\b" % re.escape(name), src)
    if not m:
        raise Untranslatable("fn %s not found" % name)
    return _braced(src, m.end())


def generate():
    nr = _strip_comments(_read("sylt-compiler/src/name_resolution.rs"))
    block = _fn_body(nr, "block")
    block_tr = "truncate(" in block
    if_tr = block_tr or "truncate(" in _fn_body(nr, "if_branch")
    case_tr = "truncate(" in _fn_body(nr, "case_branch")
    expr = _fn_body(nr, "expression")
    m = re.search(r"let\s+fall_through\s*=\s*match\s+fall_through", expr)
    if not m:
        raise Untranslatable("name_resolution.rs: fall_through arm of fn expression not found")
    ft = _braced(expr, m.end())
    else_tr = block_tr or "truncate(" in ft
    # `x.f`: which function decides whether x is a namespace, and does it look at the scope stack first
    assignable = _fn_body(nr, "assignable")
    m2 = re.search(r"AK::Access\(\s*assignable\s*,\s*ident\s*\)\s*=>\s*match\s+self\s*\.\s*(\w+)\s*\(", assignable)
    if not m2:
        raise Untranslatable("name_resolution.rs: AK::Access arm of fn assignable not found")
    if m2.group(1) == "namespace_list":
        local_first = False
    else:
        helper = _fn_body(nr, m2.group(1))
        if "self.stack" in helper and "namespace_list" in helper:
            local_first = True
        else:
            raise Untranslatable("name_resolution.rs: AK::Access uses %s, which is not understood" % m2.group(1))
    # shape facts: Block statements and functions do restore the stack
    stmt = _fn_body(nr, "statement")
    if "truncate(" not in stmt or "truncate(ss)" not in expr:
        raise Untranslatable("name_resolution.rs: Block / Function no longer truncate the stack")

    # "is this value a function literal" (the variable of a function definition is declared before its body; `self`
    # is visible in function fields of a blob instance): the model's PAst.is_function looks through parentheses,
    # as fn is_function_literal does; both sites have to use it
    if not re.search(r"\bfn\s+is_function_literal\b", nr):
        raise Untranslatable("name_resolution.rs: fn is_function_literal is gone (does a parenthesised function "
                             "literal count as a function again?)")
    ifl = _fn_body(nr, "is_function_literal")
    if not (re.search(r"ExpressionKind::Function\s*\{\s*\.\.\s*\}\s*=>\s*true", ifl)
            and re.search(r"ExpressionKind::Parenthesis\(\s*(\w+)\s*\)\s*=>\s*is_function_literal\(\s*\1\s*\)", ifl)
            and re.search(r"_\s*=>\s*false", ifl)):
        raise Untranslatable("name_resolution.rs: fn is_function_literal is not understood")
    if not re.search(r"if\s+is_function_literal\(\s*field\s*\)", expr) \
            or not re.search(r"else\s+if\s+is_function_literal\(\s*value\s*\)", stmt) \
            or re.search(r"matches!\(\s*(field|value)\s*\.\s*kind\s*,[^)]*Function", expr + stmt):
        raise Untranslatable("name_resolution.rs: the function-literal tests of blob fields / definitions are not "
                             "the calls of is_function_literal the model mirrors")

    # the import pass of `pub fn resolve`: once per module in tree.modules order, or first repeated with the
    # errors dropped until no name is added
    top = _fn_body(nr, "resolve")
    calls = [m.start() for m in re.finditer(r"\.resolve_global_variables\(", top)]
    checked = re.findall(r"resolver\s*\.\s*resolve_global_variables\([^;]*\)\s*\?\s*;", top)
    if len(calls) == 1 and len(checked) == 1 and not re.search(r"\b(loop|while)\b", top):
        fixpoint = False
    else:
        lm = re.search(r"\bloop\b", top)
        if not lm or len(calls) != 2 or len(checked) != 1:
            raise Untranslatable("name_resolution.rs: the import pass of fn resolve is not understood")
        loop_body = _braced(top, lm.end())
        after = top[top.find(loop_body) + len(loop_body):]
        quiet = re.search(r"let\s+_\s*=\s*resolver\s*\.\s*resolve_global_variables\(", loop_body)
        counts = re.findall(r"resolver\s*\.\s*(\w+)\(\)", loop_body)
        brk = re.search(r"if\s+resolver\s*\.\s*(\w+)\(\)\s*==\s*before\s*\{\s*break\s*;?\s*\}", loop_body)
        if not (quiet and brk and counts.count(brk.group(1)) == 2
                and re.search(r"let\s+before\s*=\s*resolver\s*\.\s*%s\(\)" % brk.group(1), loop_body)
                and ".resolve_global_variables(" in after and "insert_namespace_and_add_definitions" not in after):
            raise Untranslatable("name_resolution.rs: the loop around the import pass of fn resolve is not understood")
        counter = _fn_body(nr, brk.group(1))
        if not re.search(r"self\s*\.\s*namespaces\s*\.\s*values\(\)\s*\.\s*map\(\s*\|\s*(\w+)\s*\|\s*\1\s*\.\s*len\(\)\s*\)\s*\.\s*sum\(\)", counter):
            raise Untranslatable("name_resolution.rs: fn %s is not the number of names in all namespaces" % brk.group(1))
        fixpoint = True

    dep = _strip_comments(_read("sylt-compiler/src/dependency.rs"))
    sd = _fn_body(dep, "statement_dependencies")
    m = re.search(r"S::Assignment\s*\{([^}]*)\}\s*=>\s*([^\n]*(?:\n(?!\s*S::)[^\n]*)*)", sd)
    if not m:
        raise Untranslatable("dependency.rs: S::Assignment arm not found")
    target_deps = "target" in m.group(1) and "target" in m.group(2)

    lib = _read("sylt-common/src/lib.rs")
    m = re.search(r"const\s+STD_LIB_FILES[^=]*=\s*&\[(.*?)\];", lib, re.S)
    if not m:
        raise Untranslatable("lib.rs: STD_LIB_FILES not found")
    entries = re.findall(r'\(\s*"([A-Za-z0-9_]+)"\s*,\s*include_str!\("([^"]+)"\)', m.group(1))
    if not entries:
        raise Untranslatable("lib.rs: no library names")
    names = [e[0] for e in entries]
    std_uses = []
    for nm, rel in entries:
        src = _strip_comments(_read(os.path.normpath(os.path.join("sylt-common/src", rel))))
        uses = []
        for line in src.split("\n"):
            mm = re.match(r"\s*use\s+([/A-Za-z0-9_]+)", line) or re.match(r"\s*from\s+([/A-Za-z0-9_]+)\s+use\b", line)
            if mm:
                uses.append(mm.group(1))
        std_uses.append((nm, uses))

    def b(x):
        return "true" if x else "false"

    out = ["(* GENERATED by tools/gens/gen_resolve.py from name_resolution.rs, dependency.rs, sylt-common/src/lib.rs -- do not edit *)",
           "From Coq Require Import String List.",
           "From Sylt Require Import Resolve.Resolver.",
           "Import ListNotations.",
           "Local Open Scope string_scope.",
           "",
           "Definition gen_rflags : rflags := mkFlags %s %s %s %s %s." % (b(if_tr), b(case_tr), b(else_tr), b(local_first), b(fixpoint)),
           "Definition gen_assign_target_deps : bool := %s." % b(target_deps),
           "Definition gen_std_libs : list string := [%s]." % "; ".join('"%s"' % n for n in names),
           "(* the `use` / `from .. use` paths of every std file, in order *)",
           "Definition gen_std_uses : list (string * list string) := [%s]." % "; ".join(
               '("%s", [%s])' % (n, "; ".join('"%s"' % u for u in us)) for n, us in std_uses),
           ""]
    return "GenResolve.v", "\n".join(out)
