-- expect-final: loaderr
-- expect-wf[5.3]: bad unsupported: bitwise
-- expect-wf[jit]: bad unexpected symbol near '&'
-- NOTE: Lua 5.3 loads this; LuaCore does not model the bitwise operators
local x = 1 & 2
