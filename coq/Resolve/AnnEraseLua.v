(* C08, from the parser's AST: the resolver treats an annotated program and the program with its annotations erased
   alike (Resolve/AnnEraseProofs.v), and from two resolved programs that are equal modulo annotations the same bytes
   are emitted when the type checker accepts both (Types/Erasure.v C08_bytes).  Composition and the program of the
   round-5 seed as an example. *)
From Coq Require Import String List NArith ZArith Bool.
From Sylt Require Import Syntax.Resolved Resolve.PAst Resolve.Resolver Resolve.AnnErase Resolve.AnnEraseProofs
     Types.TyGraph Types.Tc Types.Erasure Back.IR Back.Emit.
Import ListNotations.
Local Open Scope string_scope.

Theorem resolver_then_bytes fl hd hp hr fuel_tc fuel req ast r1 r2 out1 out2 :
  (forall st t t', ty_r st t = Resolver.Ok t' -> exists t'', ty_r st (hd t) = Resolver.Ok t'') ->
  (forall st t t', ty_r st t = Resolver.Ok t' -> exists t'', ty_r st (hp t) = Resolver.Ok t'') ->
  (forall st t t', ty_r st t = Resolver.Ok t' -> exists t'', ty_r st (hr t) = Resolver.Ok t'') ->
  resolve fl ast = Resolver.Ok r1 ->
  resolve fl (erase_ann hd hp hr ast) = Resolver.Ok r2 ->
  compile_after_order (Emit.backend fuel req) fuel_tc r1 = COk out1 ->
  compile_after_order (Emit.backend fuel req) fuel_tc r2 = COk out2 ->
  out1 = out2.
Proof.
  intros Hd Hp Hr R1 R2 C1 C2.
  destruct (resolve_erase_ann hd hp hr Hd Hp Hr fl ast r1 R1) as (r' & E & S). rewrite E in R2. inversion R2; subst.
  eapply C08_bytes; eauto.
Qed.

Corollary resolver_then_bytes_all fl fuel_tc fuel req ast r1 r2 out1 out2 :
  resolve fl ast = Resolver.Ok r1 ->
  resolve fl (erase_all_annotations ast) = Resolver.Ok r2 ->
  compile_after_order (Emit.backend fuel req) fuel_tc r1 = COk out1 ->
  compile_after_order (Emit.backend fuel req) fuel_tc r2 = COk out2 ->
  out1 = out2.
Proof. apply (resolver_then_bytes fl implied implied implied); apply implied_keeps. Qed.

(* ---- the seed's program ----
     twice :: fn f: fn int -> int -> fn int -> int do ret f end
     step :: fn n: int -> int do ret n end
     start :: fn do
         step: fn int -> int : twice(step)       /   step :: twice(step)
     end
   In both the `step` inside the initialiser is the GLOBAL step: a value definition enters scope after its value,
   with or without an annotation. *)
Definition sp_ (l c0 c1 : N) : span := mkSpan 0 l l c0 c1.
Definition id_ (s : string) (l c0 c1 : N) : ident := mkIdent s (sp_ l c0 c1).
Definition t_int (l c : N) : pty := PTResolved BInt (sp_ l c (c + 3)).
Definition t_fn (l c : N) : pty := PTFn [] [t_int l (c + 3)] (t_int l (c + 10)) false (sp_ l c (c + 13)).

Definition seed_prog (ann : pty) : past :=
  [mkModule (File "/main.sy") 0
     [PDefinition (id_ "twice" 1 1 6) Const (PTImplied (sp_ 1 1 6))
        (PFunction "lambda" [(id_ "f" 1 13 14, t_fn 1 16)] (t_fn 1 33)
           [PRet (Some (PGet (ARead (id_ "f" 1 54 55) (sp_ 1 54 55)) (sp_ 1 54 55))) (sp_ 1 50 55)] false (sp_ 1 10 59))
        (sp_ 1 1 59);
      PDefinition (id_ "step" 2 1 5) Const (PTImplied (sp_ 2 1 5))
        (PFunction "lambda" [(id_ "n" 2 12 13, t_int 2 15)] (t_int 2 22)
           [PRet (Some (PGet (ARead (id_ "n" 2 33 34) (sp_ 2 33 34)) (sp_ 2 33 34))) (sp_ 2 29 34)] false (sp_ 2 9 38))
        (sp_ 2 1 38);
      PDefinition (id_ "start" 3 1 6) Const (PTImplied (sp_ 3 1 6))
        (PFunction "lambda" [] (PTResolved BVoid (sp_ 3 10 12))
           [PDefinition (id_ "step" 4 5 9) Const ann
              (PGet (ACall (ARead (id_ "twice" 4 27 32) (sp_ 4 27 32))
                           [PGet (ARead (id_ "step" 4 33 37) (sp_ 4 33 37)) (sp_ 4 33 37)] (sp_ 4 27 38)) (sp_ 4 27 38))
              (sp_ 4 5 38)]
           false (sp_ 3 10 5)) (sp_ 3 1 5)]].

Definition seed_annotated : past := seed_prog (t_fn 4 11).
Definition seed_plain : past := seed_prog (PTImplied (sp_ 4 11 24)).

(* the variable the `step` inside the local definition's initialiser resolves to, and the variable the definition
   declares *)
Definition inner_step (r : resolved) : option (N * N) :=
  match r_stmts r with
  | [_; _; SDefinition _ _ _ _ (EFunction _ _ _ [SDefinition _ local _ _ (ECall _ [ERead v _] _) _] _ _) _] => Some (v, local)
  | _ => None
  end.

Definition var_is_global_step (r : resolved) (v : N) : bool :=
  match nth_error (r_vars r) (N.to_nat v) with
  | Some x => String.eqb (v_name x) "step" && v_global x
  | None => false
  end.

Example seed_example : forall fl,
  erase_ann implied (fun t => t) (fun t => t) seed_annotated = seed_plain
  /\ exists r1 r2 g l,
       resolve fl seed_annotated = Resolver.Ok r1 /\ resolve fl seed_plain = Resolver.Ok r2
       /\ inner_step r1 = Some (g, l) /\ inner_step r2 = Some (g, l)
       /\ g <> l /\ var_is_global_step r1 g = true /\ var_is_global_step r2 g = true
       /\ r1 <> r2 /\ same_modulo_annotations r1 r2.
Proof.
  intros fl. split; [vm_compute; reflexivity|].
  destruct fl as [[] [] [] [] []];
    (eexists; eexists; eexists; eexists; split; [vm_compute; reflexivity|]; split; [vm_compute; reflexivity|];
     split; [vm_compute; reflexivity|]; split; [vm_compute; reflexivity|];
     split; [intros E; discriminate E|]; split; [vm_compute; reflexivity|]; split; [vm_compute; reflexivity|];
     split; [intros E; discriminate E|vm_compute; reflexivity]).
Qed.

(* ---- with the dependency order in between (Dep/AnnOrder.v) ----
   compile_after_order (Types/Tc.v) is "type-check, then lower what was given": it does NOT contain the ordering step of
   compiler.rs (initialization_order + the types-first sort), which runs between name resolution and the type checker.
   That step is Dep/Topo.v init_order; here it is put in between. *)
From Sylt Require Import Dep.Deps Dep.Topo Dep.AnnOrder.

Theorem resolver_order_backend_erase fl tgt fuel req ast r1 r2 l1 :
  resolve fl ast = Resolver.Ok r1 ->
  resolve fl (erase_all_annotations ast) = Resolver.Ok r2 ->
  ann_deps_ok tgt (r_stmts r1) = true -> ann_deps_ok tgt (r_stmts r2) = true ->
  init_order tgt (r_stmts r1) = OOk l1 ->
  exists l2, init_order tgt (r_stmts r2) = OOk l2
    /\ Emit.backend fuel req (mkResolved (r_vars r1) l1) = Emit.backend fuel req (mkResolved (r_vars r2) l2).
Proof.
  intros R1 R2 O1 O2 H1.
  destruct (resolve_erase_all fl ast r1 R1) as (r' & E & S). rewrite E in R2. inversion R2; subst.
  exact (order_then_backend_erase_ok tgt fuel req r1 r2 l1 S O1 O2 H1).
Qed.

(* the seed's program: the hypotheses hold and the ordered programs emit the same text *)
Example seed_order_example :
  exists r1 r2 l1 l2,
    resolve (mkFlags true true true false false) seed_annotated = Resolver.Ok r1
    /\ resolve (mkFlags true true true false false) seed_plain = Resolver.Ok r2
    /\ ann_deps_ok true (r_stmts r1) = true /\ ann_deps_ok true (r_stmts r2) = true
    /\ init_order true (r_stmts r1) = OOk l1 /\ init_order true (r_stmts r2) = OOk l2
    /\ Emit.backend 20 None (mkResolved (r_vars r1) l1) = Emit.backend 20 None (mkResolved (r_vars r2) l2).
Proof.
  eexists. eexists. eexists. eexists.
  split; [vm_compute; reflexivity|]. split; [vm_compute; reflexivity|].
  split; [vm_compute; reflexivity|]. split; [vm_compute; reflexivity|].
  split; [vm_compute; reflexivity|]. split; [vm_compute; reflexivity|]. vm_compute. reflexivity.
Qed.

(* with the syntactic hypothesis of Dep/AnnTypes.v instead of ann_deps_ok *)
From Sylt Require Import Dep.AnnTypes.

Theorem resolver_order_backend_types2 fl tgt fuel req ast r1 r2 l1 :
  resolve fl ast = Resolver.Ok r1 ->
  resolve fl (erase_all_annotations ast) = Resolver.Ok r2 ->
  ann_types_only tgt (r_stmts r1) = true -> ann_types_only tgt (r_stmts r2) = true ->
  init_order tgt (r_stmts r1) = OOk l1 ->
  exists l2, init_order tgt (r_stmts r2) = OOk l2
    /\ Emit.backend fuel req (mkResolved (r_vars r1) l1) = Emit.backend fuel req (mkResolved (r_vars r2) l2).
Proof.
  intros R1 R2 O1 O2 H1. apply (resolver_order_backend_erase fl tgt fuel req ast r1 r2 l1 R1 R2); auto using ann_types_only_deps_ok.
Qed.

(* ... and the erased side needs no hypothesis (Resolve/AnnErasePost.v) *)
From Sylt Require Import Resolve.AnnErasePost.

Theorem resolver_order_backend_types fl tgt fuel req ast r1 r2 l1 :
  resolve fl ast = Resolver.Ok r1 ->
  resolve fl (erase_all_annotations ast) = Resolver.Ok r2 ->
  ann_types_only tgt (r_stmts r1) = true ->
  init_order tgt (r_stmts r1) = OOk l1 ->
  exists l2, init_order tgt (r_stmts r2) = OOk l2
    /\ Emit.backend fuel req (mkResolved (r_vars r1) l1) = Emit.backend fuel req (mkResolved (r_vars r2) l2).
Proof.
  intros R1 R2 O1 H1. apply (resolver_order_backend_types2 fl tgt fuel req ast r1 r2 l1 R1 R2 O1); [|exact H1].
  exact (erased_ann_types_only fl implied implied tgt ast r2 R2).
Qed.

(* the dependency order gives the same verdict, with the one hypothesis *)
Theorem resolver_order_verdict_types fl tgt ast r1 r2 :
  resolve fl ast = Resolver.Ok r1 ->
  resolve fl (erase_all_annotations ast) = Resolver.Ok r2 ->
  ann_types_only tgt (r_stmts r1) = true ->
  onf (initialization_order tgt (r_stmts r1)) = onf (initialization_order tgt (r_stmts r2)).
Proof.
  intros R1 R2 O1. destruct (resolve_erase_all fl ast r1 R1) as (r' & E & S). rewrite E in R2. inversion R2; subst.
  apply order_verdict_erase_types; [exact S|exact O1|].
  exact (erased_ann_types_only fl implied implied tgt ast r2 E).
Qed.
