(* alpha: consistently renamed programs (Resolve/Alpha.v) resolve to the same program up to the names
   kept for diagnostics -- by induction on the fuel with an invariant `R` relating the two resolver
   states: same variable numbering, scope stacks holding the same variables under the paired names of
   the context, namespace tables equal up to the renaming g of global names. *)
From Coq Require Import String List NArith ZArith Bool Lia Arith.
From Sylt Require Import Syntax.Resolved Resolve.PAst Resolve.Resolver Resolve.Alpha.
Import ListNotations.
Local Open Scope string_scope.
Local Open Scope list_scope.

Section Sim.
Variable fl : rflags.
Variable g : string -> string.
Variable is_ns : N -> string -> bool.
Variable sure_ns : N -> passign -> bool.
Hypothesis g_inj : forall x y, g x = g y -> x = y.

Notation alpha_e := (alpha_e fl g is_ns sure_ns).
Notation alpha_a := (alpha_a fl g is_ns sure_ns).
Notation alpha_s := (alpha_s fl g is_ns sure_ns).
Notation alpha_ifb := (alpha_ifb fl g is_ns sure_ns).
Notation alpha_cb := (alpha_cb fl g is_ns sure_ns).
Notation alpha_ft := (alpha_ft fl g is_ns sure_ns).
Notation alpha_oe := (alpha_oe fl g is_ns sure_ns).
Notation alpha_param := (alpha_param fl g is_ns sure_ns).
Notation alpha_fld := (alpha_fld fl g is_ns sure_ns).
Notation ctx_var := (ctx_var g).
Notation id_ref := (id_ref g).
Notation id_glob := (id_glob g).
Notation alpha_ty := (alpha_ty g).
Notation alpha_ta := (alpha_ta g).
Notation alpha_tns := (alpha_tns g).
Notation alpha_ns := (alpha_ns g).

(* ---- namespace tables up to g ---- *)

Definition ns_map (t : nstable) : nstable := map (fun p => (g (fst p), snd p)) t.
Definition nss_map (l : list (file_or_lib * nstable)) := map (fun p => (fst p, ns_map (snd p))) l.

Lemma ns_get_map t x : ns_get (ns_map t) (g x) = ns_get t x.
Proof.
  induction t as [|[k v] t IH]; cbn; [reflexivity|].
  destruct (String.eqb_spec x k) as [->|Hne].
  - rewrite String.eqb_refl. reflexivity.
  - destruct (String.eqb_spec (g x) (g k)) as [E|_]; [apply g_inj in E; contradiction|exact IH].
Qed.

Lemma fol_get_map l f : fol_get (nss_map l) f = option_map ns_map (fol_get l f).
Proof.
  induction l as [|[k v] l IH]; cbn; [reflexivity|]. destruct (fol_eqb f k); [reflexivity|exact IH].
Qed.

(* the part of the states that never changes while statements are resolved *)
Record GR (st st' : rstate) : Prop := mkGR {
  gr_n2f : st_n2f st' = st_n2f st;
  gr_ns : st_ns st' = nss_map (st_ns st);
  gr_isns : forall fid x f sp, lookup_global st fid x = Ok (Some (NNamespace f sp)) -> is_ns fid x = true;
  gr_isns' : forall fid x f sp, lookup_global st' fid x = Ok (Some (NNamespace f sp)) -> is_ns fid x = true;
  gr_sure : forall fid a, sure_ns fid a = true -> exists ns, namespace_list st fid a = Ok (Some ns)
}.

Lemma lookup_global_rel st st' fid x : GR st st' -> lookup_global st' fid (g x) = lookup_global st fid x.
Proof.
  intros [Hn Hs _ _ _]. unfold lookup_global. rewrite Hn, Hs.
  destruct (n2f_get (st_n2f st) fid) as [f|]; [|reflexivity].
  rewrite fol_get_map. destruct (fol_get (st_ns st) f) as [t|]; cbn; [|reflexivity].
  rewrite ns_get_map. reflexivity.
Qed.

(* ---- the invariant ---- *)

Record R (G : ctx) (st st' : rstate) : Prop := mkR {
  r_names : map fst (st_stack st) = map fst G;
  r_names' : map fst (st_stack st') = map snd G;
  r_ids : map snd (st_stack st) = map snd (st_stack st');
  r_next : st_next st = st_next st';
  r_vars : map erase_var (st_vars st) = map erase_var (st_vars st');
  r_gr : GR st st'
}.

Lemma stack_find_rel (s s' : list (string * N)) (G : ctx) x x' :
  map fst s = map fst G -> map fst s' = map snd G -> map snd s = map snd s' ->
  ctx_var G x x' = true ->
  stack_find s' x' = stack_find s x /\ (stack_find s x = None -> g x = x').
Proof.
  revert s s'. induction G as [|[a a'] G IH]; intros s s' H1 H2 H3 Hc.
  - destruct s; [|discriminate]. destruct s'; [|discriminate]. cbn in Hc |- *.
    apply String.eqb_eq in Hc. auto.
  - destruct s as [|[n r] s]; [discriminate|]. destruct s' as [|[n' r'] s']; [discriminate|].
    cbn in H1, H2, H3. injection H1 as -> H1. injection H2 as -> H2. injection H3 as -> H3.
    cbn in Hc |- *. destruct (String.eqb a x) eqn:E1, (String.eqb a' x') eqn:E2; try discriminate.
    + split; [reflexivity|discriminate].
    + apply IH; assumption.
Qed.

Lemma lookup_rel G st st' x x' sp :
  R G st st' -> ctx_var G x x' = true -> lookup st' x' sp = lookup st x sp.
Proof.
  intros [H1 H2 H3 _ _ Hg] Hc. destruct (stack_find_rel _ _ _ _ _ H1 H2 H3 Hc) as [Hf Hn].
  unfold lookup. rewrite Hf. destruct (stack_find (st_stack st) x); [reflexivity|].
  rewrite <- (Hn eq_refl). rewrite (lookup_global_rel _ _ _ _ Hg). reflexivity.
Qed.

(* ---- namespace paths ---- *)

Lemma namespace_file_rel st st' fid a a' :
  GR st st' -> alpha_ns a a' -> namespace_file st' fid a' = namespace_file st fid a.
Proof.
  intros Hg Ha. induction Ha as [i i' sp [Hi _]|a a' i i' sp _ IH [Hi _]]; cbn.
  - rewrite <- Hi, (lookup_global_rel _ _ _ _ Hg). reflexivity.
  - rewrite IH. destruct (namespace_file st fid a) as [[f|]| | |]; cbn; try reflexivity.
    rewrite (gr_n2f _ _ Hg). destruct (f2n_get (st_n2f st) f); [|reflexivity].
    rewrite <- Hi, (lookup_global_rel _ _ _ _ Hg). reflexivity.
Qed.

Lemma namespace_list_rel st st' fid a a' :
  GR st st' -> alpha_ns a a' -> namespace_list st' fid a' = namespace_list st fid a.
Proof.
  intros Hg Ha. unfold namespace_list. rewrite (namespace_file_rel _ _ _ _ _ Hg Ha), (gr_n2f _ _ Hg). reflexivity.
Qed.

(* lookup_global panics exactly when the file id has no namespace table, whatever the name *)
Definition gpanic (st : rstate) (fid : N) : option string :=
  match n2f_get (st_n2f st) fid with
  | None => Some "lookup_global: namespace_to_file"
  | Some f => match fol_get (st_ns st) f with None => Some "lookup_global: namespaces" | Some _ => None end
  end.

Lemma lookup_global_shape st fid x :
  match gpanic st fid with
  | Some s => lookup_global st fid x = Panic s
  | None => exists o, lookup_global st fid x = Ok o
  end.
Proof.
  unfold gpanic, lookup_global. destruct (n2f_get (st_n2f st) fid); [|reflexivity].
  destruct (fol_get (st_ns st) f); [eauto|reflexivity].
Qed.

Lemma gpanic_rel st st' fid : GR st st' -> gpanic st' fid = gpanic st fid.
Proof.
  intros [Hn Hs _ _ _]. unfold gpanic. rewrite Hn, Hs. destruct (n2f_get (st_n2f st) fid); [|reflexivity].
  rewrite fol_get_map. destruct (fol_get (st_ns st) f); reflexivity.
Qed.

Lemma namespace_file_not_ns st fid a :
  (forall x f sp, lookup_global st fid x = Ok (Some (NNamespace f sp)) -> is_ns fid x = true) ->
  not_ns is_ns fid a ->
  namespace_file st fid a = match chain_root a, gpanic st fid with
                            | Some _, Some s => Panic s
                            | _, _ => Ok None
                            end.
Proof.
  intros Hs. unfold not_ns. induction a; cbn; intros Hn; try reflexivity.
  - pose proof (lookup_global_shape st fid (i_name i)) as Hsh.
    destruct (gpanic st fid) as [s|]; [rewrite Hsh; reflexivity|].
    destruct Hsh as [o E]. rewrite E. cbn. destruct o as [[r|f nsp]|]; try reflexivity.
    apply Hs in E. congruence.
  - rewrite (IHa Hn). destruct (chain_root a), (gpanic st fid); reflexivity.
Qed.

Lemma chain_root_rel : forall G a a' G1, alpha_a G a a' G1 ->
  (chain_root a = None <-> chain_root a' = None).
Proof.
  intros G a a' G1 Ha. induction Ha; cbn; try tauto; try (split; discriminate).
  - (* qualified: both are chains of reads/accesses *)
    match goal with Hn : Alpha.alpha_ns _ _ _ |- _ =>
      clear - Hn; induction Hn; cbn; [split; discriminate|assumption] end.
Qed.

Lemma namespace_type_list_rel st st' fid t t' :
  GR st st' -> alpha_tns t t' -> namespace_type_list st' fid t' = namespace_type_list st fid t.
Proof.
  intros Hg Ha. induction Ha as [i i' sp [Hi Hs]|t t' i i' sp _ IH [Hi Hs]]; cbn.
  - rewrite <- Hi, (lookup_global_rel _ _ _ _ Hg), (gr_n2f _ _ Hg), Hs. reflexivity.
  - rewrite IH. destruct (namespace_type_list st fid t); cbn; try reflexivity.
    rewrite <- Hi, (lookup_global_rel _ _ _ _ Hg), (gr_n2f _ _ Hg), Hs. reflexivity.
Qed.

Lemma ty_assignable_rel G st st' t t' :
  R G st st' -> alpha_ta G t t' -> ty_assignable st' t' = ty_assignable st t.
Proof.
  intros HR Ha. destruct Ha as [i i' sp [Hc Hs]|t t' i i' sp Hn [Hi Hs]]; cbn.
  - rewrite <- Hs. eapply lookup_rel; eauto.
  - rewrite (namespace_type_list_rel _ _ _ _ _ (r_gr _ _ _ HR) Hn).
    destruct (namespace_type_list st (sp_file sp) t); cbn; try reflexivity.
    rewrite <- Hi, (lookup_global_rel _ _ _ _ (r_gr _ _ _ HR)), Hs. reflexivity.
Qed.

(* ---- types: resolved identically (a resolved type carries no binder names) ---- *)

Definition sum_with {A} (f : A -> nat) : list A -> nat :=
  fix go (l : list A) : nat := match l with [] => 0 | x :: xs => f x + go xs end.

Fixpoint pty_size (t : pty) : nat :=
  S (match t with
     | PTUser _ args _ => sum_with pty_size args
     | PTFn _ ps r _ _ => sum_with pty_size ps + pty_size r
     | PTTuple ts _ => sum_with pty_size ts
     | PTList t' _ | PTGrouping t' _ => pty_size t'
     | _ => 0
     end).

Lemma sum_with_in {A} (f : A -> nat) l a : In a l -> f a <= sum_with f l.
Proof. induction l as [|x l IH]; cbn; intros []; subst; [lia|]. specialize (IH H). lia. Qed.

Lemma mapR_rel {A B} (f f' : A -> res B) (P : A -> A -> Prop) l l' :
  Forall2 P l l' -> (forall x x', In x l -> P x x' -> f' x' = f x) -> mapR f' l' = mapR f l.
Proof.
  induction 1 as [|x x' l l' Hx _ IH]; intros H; [reflexivity|]. cbn.
  rewrite (H x x' (or_introl eq_refl) Hx). destruct (f x); cbn; try reflexivity.
  rewrite IH; [reflexivity|]. intros y y' Hy. apply H. right. assumption.
Qed.

Lemma ty_r_rel G st st' : R G st st' -> forall n t t', pty_size t <= n -> alpha_ty G t t' -> ty_r st' t' = ty_r st t.
Proof.
  intros HR. induction n as [|n IH]; intros t t' Hsz Ha; [destruct t; cbn in Hsz; lia|].
  destruct Ha; cbn [ty_r pty_size] in *; try reflexivity.
  - rewrite (ty_assignable_rel _ _ _ _ _ HR H). destruct (ty_assignable st t); cbn; try reflexivity.
    rewrite (mapR_rel (ty_r st) (ty_r st') (alpha_ty G) args args' H0); [reflexivity|].
    intros x x' Hx Hxx. apply IH; [|assumption]. pose proof (sum_with_in pty_size _ _ Hx). lia.
  - rewrite (mapR_rel (ty_r st) (ty_r st') (alpha_ty G) ps ps' H).
    + destruct (mapR (ty_r st) ps); cbn; try reflexivity. rewrite (IH r r'); [reflexivity|lia|assumption].
    + intros x x' Hx Hxx. apply IH; [|assumption]. pose proof (sum_with_in pty_size _ _ Hx). lia.
  - rewrite (mapR_rel (ty_r st) (ty_r st') (alpha_ty G) ts ts' H); [reflexivity|].
    intros x x' Hx Hxx. apply IH; [|assumption]. pose proof (sum_with_in pty_size _ _ Hx). lia.
  - rewrite (IH t t'); [reflexivity|lia|assumption].
  - apply IH; [lia|assumption].
Qed.

Lemma ty_rel G st st' t t' : R G st st' -> alpha_ty G t t' -> ty_r st' t' = ty_r st t.
Proof. intros HR Ha. eapply ty_r_rel; eauto. Qed.

(* ---------------------------------------------------------------------------------------------- *)
(* relational reasoning about the resolver monad *)

Definition rel_res {A} (ra : A -> A -> Prop) (G' : ctx) (r r' : res (A * rstate)) : Prop :=
  match r, r' with
  | Ok (a, s), Ok (a', s') => ra a a' /\ R G' s s'
  | Err e, Err e' => e = e'
  | Panic _, Panic _ => True
  | OutOfFuel, OutOfFuel => True
  | _, _ => False
  end.

Definition sim {A} (G G' : ctx) (ra : A -> A -> Prop) (m m' : M A) : Prop :=
  forall st st', R G st st' -> rel_res ra G' (m st) (m' st').

Lemma sim_ret {A} G (ra : A -> A -> Prop) a a' : ra a a' -> sim G G ra (ret a) (ret a').
Proof. intros H st st' HR. cbn. auto. Qed.

Lemma sim_bind {A B} G G1 G2 (ra : A -> A -> Prop) (rb : B -> B -> Prop) m m' k k' :
  sim G G1 ra m m' -> (forall a a', ra a a' -> sim G1 G2 rb (k a) (k' a')) ->
  sim G G2 rb (bind m k) (bind m' k').
Proof.
  intros Hm Hk st st' HR. specialize (Hm st st' HR). unfold bind, rel_res in *.
  destruct (m st) as [[a s1]| | |], (m' st') as [[a' s1']| | |]; try contradiction; auto.
  destruct Hm as [Ha HR1]. apply Hk; assumption.
Qed.

Lemma sim_fail {A} G G' (ra : A -> A -> Prop) k sp : sim G G' ra (fail k sp) (fail k sp).
Proof. intros st st' _. cbn. reflexivity. Qed.

(* a read-only computation that gives equal results on related states *)
Lemma sim_lift {A} G (ra : A -> A -> Prop) (f f' : rstate -> res A) :
  (forall st st', R G st st' -> f' st' = f st) -> (forall a, ra a a) ->
  sim G G ra (lift f) (lift f').
Proof.
  intros H Hr st st' HR. unfold lift. rewrite (H st st' HR).
  destruct (f st); cbn; auto.
Qed.

Definition Re (x x' : expr) : Prop := erase_e x = erase_e x'.
Definition Rs (x x' : option stmt) : Prop := option_map erase_s x = option_map erase_s x'.
Definition Rl {X} (er : X -> X) (l l' : list X) : Prop := map er l = map er l'.

(* lists processed left to right *)
Lemma sim_mapM {X Y} (P : ctx -> X -> X -> ctx -> Prop) (er : Y -> Y) (f : X -> M Y) :
  (forall G x x' G1, P G x x' G1 -> sim G G1 (fun y y' => er y = er y') (f x) (f x')) ->
  forall G l l' G1, thread P G l l' G1 -> sim G G1 (Rl er) (mapM f l) (mapM f l').
Proof.
  intros Hf G l l' G1 Ht. induction Ht as [G|G Ga Gb x x' l l' Hx _ IH]; cbn [mapM].
  - apply sim_ret. reflexivity.
  - eapply sim_bind; [apply Hf; exact Hx|]. intros y y' Hy.
    eapply sim_bind; [exact IH|]. intros ys ys' Hys. apply sim_ret. unfold Rl in *. cbn. congruence.
Qed.

Lemma sim_block (rs : pstmt -> M (option stmt)) :
  (forall G s s' G1, alpha_s G s s' G1 -> sim G G1 Rs (rs s) (rs s')) ->
  forall G l l' G1, thread alpha_s G l l' G1 -> sim G G1 (Rl erase_s) (block_with rs l) (block_with rs l').
Proof.
  intros Hf G l l' G1 Ht. induction Ht as [G|G Ga Gb x x' l l' Hx _ IH]; cbn [block_with].
  - apply sim_ret. reflexivity.
  - eapply sim_bind; [apply Hf; exact Hx|]. intros y y' Hy.
    eapply sim_bind; [exact IH|]. intros ys ys' Hys. apply sim_ret. unfold Rl, Rs in *.
    destruct y, y'; cbn in *; try discriminate; congruence.
Qed.

(* ---- the stack primitives ---- *)

Lemma R_same_length G st st' : R G st st' -> length (st_stack st) = length G /\ length (st_stack st') = length G.
Proof.
  intros [H1 H2 _ _ _ _]. split.
  - rewrite <- (map_length fst (st_stack st)), H1, map_length. reflexivity.
  - rewrite <- (map_length fst (st_stack st')), H2, map_length. reflexivity.
Qed.

Lemma GR_ext st st' s1 s1' :
  GR st st' -> st_ns s1 = st_ns st -> st_n2f s1 = st_n2f st -> st_ns s1' = st_ns st' -> st_n2f s1' = st_n2f st' ->
  GR s1 s1'.
Proof.
  intros [A B C D E] H1 H2 H3 H4. constructor.
  - congruence.
  - congruence.
  - intros fid x f sp. unfold lookup_global. rewrite H1, H2. apply C.
  - intros fid x f sp. unfold lookup_global. rewrite H3, H4. apply D.
  - intros fid a Hs. destruct (E fid a Hs) as [ns Hns]. exists ns. rewrite <- Hns.
    unfold namespace_list.
    assert (Hnf : forall a0, namespace_file s1 fid a0 = namespace_file st fid a0).
    { induction a0; cbn; try reflexivity.
      - unfold lookup_global. rewrite H1, H2. reflexivity.
      - rewrite IHa0. destruct (namespace_file st fid a0) as [[f|]| | |]; cbn; try reflexivity.
        rewrite H2. destruct (f2n_get (st_n2f st) f); [|reflexivity].
        unfold lookup_global. rewrite H1, H2. reflexivity. }
    rewrite Hnf, H2. reflexivity.
Qed.

Lemma sim_stack_len G : sim G G (fun n n' => n = n' /\ n = length G) stack_len stack_len.
Proof.
  intros st st' HR. destruct (R_same_length _ _ _ HR) as [L1 L2]. cbn. rewrite L1, L2. auto.
Qed.

Lemma skipn_map {X Y} (f : X -> Y) n l : skipn n (map f l) = map f (skipn n l).
Proof. revert l; induction n; intros [|x l]; cbn; auto. Qed.

Lemma sim_truncate G len : sim G (ctx_truncate len G) (fun _ _ => True) (truncate len) (truncate len).
Proof.
  intros st st' HR. destruct (R_same_length _ _ _ HR) as [L1 L2]. destruct HR as [H1 H2 H3 H4 H5 H6].
  cbn. split; [exact I|]. unfold truncate_to, ctx_truncate. rewrite L1, L2.
  constructor; cbn [st_stack st_next st_vars]; auto.
  - rewrite <- !skipn_map. congruence.
  - rewrite <- !skipn_map. congruence.
  - rewrite <- !skipn_map. congruence.
  - eapply GR_ext; eauto.
Qed.

Lemma sim_truncate_if G b len :
  sim G (ctx_truncate_if b len G) (fun _ _ => True) (truncate_if b len) (truncate_if b len).
Proof. destruct b; cbn; [apply sim_truncate|apply sim_ret; exact I]. Qed.

Lemma sim_push_name G n n' r : sim G ((n, n') :: G) (fun _ _ => True) (push_name n r) (push_name n' r).
Proof.
  intros st st' [H1 H2 H3 H4 H5 H6]. cbn. split; [exact I|].
  constructor; cbn [st_stack st_next st_vars map fst snd]; auto; try congruence.
  eapply GR_ext; eauto.
Qed.

Lemma sim_new_var G i i' k : i_span i = i_span i' ->
  sim G G eq (new_var i k) (new_var i' k).
Proof.
  intros Hs st st' [H1 H2 H3 H4 H5 H6]. cbn. rewrite H4. split; [reflexivity|].
  constructor; cbn [st_stack st_next st_vars map]; auto; try congruence.
  - unfold erase_var at 1 3. cbn. rewrite Hs, H5. reflexivity.
  - eapply GR_ext; eauto.
Qed.

Lemma sim_push_var G i i' k : i_span i = i_span i' ->
  sim G ((i_name i, i_name i') :: G) eq (push_var i k) (push_var i' k).
Proof.
  intros Hs. unfold push_var. eapply sim_bind; [apply sim_new_var; exact Hs|]. intros r r' <-.
  eapply sim_bind; [apply sim_push_name|]. intros _ _ _. apply sim_ret. reflexivity.
Qed.

Lemma sim_set_stack_nil G : sim G [] (fun _ _ => True) (set_stack []) (set_stack []).
Proof.
  intros st st' [H1 H2 H3 H4 H5 H6]. cbn. split; [exact I|]. constructor; cbn; auto. eapply GR_ext; eauto.
Qed.

Lemma sim_get_stack G : sim G G (fun s s' => (s = [] <-> G = []) /\ (s' = [] <-> G = [])) get_stack get_stack.
Proof.
  intros st st' HR. destruct (R_same_length _ _ _ HR) as [L1 L2]. cbn. split; [|assumption].
  assert (Hl : forall {X Y} (l : list X) (m : list Y), length l = length m -> (l = [] <-> m = [])).
  { intros X Y [|x l] [|y m] E; cbn in E; try discriminate; split; intros; try reflexivity; discriminate. }
  split; apply Hl; assumption.
Qed.

Lemma sim_ty G t t' : alpha_ty G t t' -> sim G G eq (lift (fun st => ty_r st t)) (lift (fun st => ty_r st t')).
Proof. intros Ha. apply sim_lift; [|reflexivity]. intros st st' HR. eapply ty_rel; eauto. Qed.

Lemma sim_weaken {A} G G' (ra rb : A -> A -> Prop) m m' :
  (forall a a', ra a a' -> rb a a') -> sim G G' ra m m' -> sim G G' rb m m'.
Proof.
  intros H Hs st st' HR. specialize (Hs st st' HR). unfold rel_res in *.
  destruct (m st) as [[a s1]| | |], (m' st') as [[a' s1']| | |]; auto. destruct Hs; auto.
Qed.

(* ---------------------------------------------------------------------------------------------- *)
(* the simulation, one fuel level at a time *)

Definition erase_ifb (b : ifbranch) : ifbranch :=
  match b with IfBranch c body bsp => IfBranch (option_map erase_e c) (map erase_s body) bsp end.
Definition erase_cb (b : casebranch) : casebranch :=
  match b with CaseBranch p psp v body bsp => CaseBranch p psp v (map erase_s body) bsp end.
Definition erase_param (p : string * N * span * ty) : string * N * span * ty :=
  match p with (_, v, psp, t) => (""%string, v, psp, t) end.
Definition erase_fld (f : string * expr) : string * expr := (fst f, erase_e (snd f)).

Definition Se (f : nat) : Prop :=
  forall G e e' G1, alpha_e G e e' G1 -> sim G G1 Re (expr_r fl f e) (expr_r fl f e').
Definition Sa (f : nat) : Prop :=
  forall G a a' G1, alpha_a G a a' G1 -> sim G G1 Re (assign_r fl f a) (assign_r fl f a').
Definition Ss (f : nat) : Prop :=
  forall G s s' G1, alpha_s G s s' G1 -> sim G G1 Rs (stmt_r fl f s) (stmt_r fl f s').

Lemma Re_read e e' v sp : Re e e' -> e = ERead v sp -> e' = ERead v sp.
Proof. unfold Re. intros H ->. destruct e'; cbn in H; try discriminate. congruence. Qed.

Lemma Re_not_read e e' : Re e e' -> (forall v sp, e <> ERead v sp) -> forall v sp, e' <> ERead v sp.
Proof.
  unfold Re. intros H Hn v sp ->. destruct e; cbn in H; try discriminate. eapply Hn. reflexivity.
Qed.

Lemma Re_cases e e' : Re e e' ->
  (exists v sp, e = ERead v sp /\ e' = ERead v sp)
  \/ ((forall v sp, e <> ERead v sp) /\ (forall v sp, e' <> ERead v sp)).
Proof.
  intros H. destruct e; try (right; split; [discriminate|eapply Re_not_read; [exact H|discriminate]]).
  left. exists var, sp. split; [reflexivity|]. eapply Re_read; eauto.
Qed.

Section Step.
Variable f : nat.
Hypothesis IHe : Se f.
Hypothesis IHa : Sa f.
Hypothesis IHs : Ss f.

Lemma sim_optM_e G o o' G1 :
  alpha_oe G o o' G1 ->
  sim G G1 (fun y y' => option_map erase_e y = option_map erase_e y') (optM (expr_r fl f) o) (optM (expr_r fl f) o').
Proof.
  intros H. destruct H as [G|G G1 e e' He]; cbn [optM].
  - apply sim_ret. reflexivity.
  - eapply sim_bind; [apply IHe; exact He|]. intros y y' Hy. apply sim_ret. cbn. unfold Re in Hy. congruence.
Qed.

Lemma sim_binop G G1 G2 op a a' b b' sp :
  alpha_e G a a' G1 -> alpha_e G1 b b' G2 ->
  sim G G2 Re (binop_with (expr_r fl f) op a b sp) (binop_with (expr_r fl f) op a' b' sp).
Proof.
  intros Ha Hb. unfold binop_with. eapply sim_bind; [apply IHe; exact Ha|]. intros x x' Hx.
  eapply sim_bind; [apply IHe; exact Hb|]. intros y y' Hy. apply sim_ret. unfold Re in *. cbn. congruence.
Qed.

Lemma sim_uniop G G1 op a a' sp :
  alpha_e G a a' G1 -> sim G G1 Re (uniop_with (expr_r fl f) op a sp) (uniop_with (expr_r fl f) op a' sp).
Proof.
  intros Ha. unfold uniop_with. eapply sim_bind; [apply IHe; exact Ha|]. intros x x' Hx.
  apply sim_ret. unfold Re in *. cbn. congruence.
Qed.

Lemma sim_blocks G l l' G1 :
  thread alpha_s G l l' G1 -> sim G G1 (Rl erase_s) (block_with (stmt_r fl f) l) (block_with (stmt_r fl f) l').
Proof. apply sim_block. exact IHs. Qed.

Lemma sim_ifb G b b' G1 :
  alpha_ifb G b b' G1 ->
  sim G G1 (fun y y' => erase_ifb y = erase_ifb y')
      (if_branch_with fl (expr_r fl f) (stmt_r fl f) b) (if_branch_with fl (expr_r fl f) (stmt_r fl f) b').
Proof.
  intros H. destruct H as [G G1 G2 c c' body body' sp Hc Hb]. cbn [if_branch_with].
  eapply sim_bind; [apply sim_optM_e; exact Hc|]. intros x x' Hx.
  eapply sim_bind; [apply sim_stack_len|]. intros n n' [<- ->].
  eapply sim_bind; [apply sim_blocks; exact Hb|]. intros y y' Hy.
  eapply sim_bind; [apply sim_truncate_if|]. intros _ _ _.
  apply sim_ret. cbn. unfold Rl in Hy. congruence.
Qed.

Lemma sim_cb G b b' G1 :
  alpha_cb G b b' G1 ->
  sim G G1 (fun y y' => erase_cb y = erase_cb y')
      (case_branch_with fl (stmt_r fl f) b) (case_branch_with fl (stmt_r fl f) b').
Proof.
  intros H. destruct H as [G G2 pat body body' Hb|G G2 pat v v' body body' Hv Hb]; cbn [case_branch_with optM].
  - eapply sim_bind; [apply sim_stack_len|]. intros n n' [<- ->].
    eapply sim_bind; [apply sim_ret; reflexivity|]. intros o o' <-.
    eapply sim_bind; [apply sim_blocks; exact Hb|]. intros y y' Hy.
    eapply sim_bind; [apply sim_truncate_if|]. intros _ _ _.
    apply sim_ret. cbn. unfold Rl in Hy. congruence.
  - eapply sim_bind; [apply sim_stack_len|]. intros n n' [<- ->].
    eapply sim_bind.
    { eapply sim_bind; [apply sim_push_var; exact Hv|]. intros r r' <-. apply sim_ret. reflexivity. }
    intros o o' <-.
    eapply sim_bind; [apply sim_blocks; exact Hb|]. intros y y' Hy.
    eapply sim_bind; [apply sim_truncate_if|]. intros _ _ _.
    apply sim_ret. cbn. unfold Rl in Hy. congruence.
Qed.

Lemma sim_param G p p' G1 :
  alpha_param G p p' G1 -> sim G G1 (fun y y' => erase_param y = erase_param y') (param_r p) (param_r p').
Proof.
  intros H. destruct H as [G n n' t t' Hn Ht]. cbn [param_r].
  eapply sim_bind; [apply sim_push_var; exact Hn|]. intros v v' <-.
  eapply sim_bind; [apply sim_ty; exact Ht|]. intros x x' <-.
  apply sim_ret. cbn. unfold id_bind in Hn. rewrite Hn. reflexivity.
Qed.

Lemma sim_fld G sv p p' G1 :
  alpha_fld G p p' G1 ->
  sim G G1 (fun y y' => erase_fld y = erase_fld y')
      (blob_field_with (expr_r fl f) sv p) (blob_field_with (expr_r fl f) sv p').
Proof.
  intros H. destruct H as [G G1 n e e' Hf He]. cbn [blob_field_with].
  eapply sim_bind; [apply sim_stack_len|]. intros k k' [<- ->].
  rewrite <- Hf. destruct (is_function e).
  - eapply sim_bind; [apply sim_push_name|]. intros _ _ _.
    eapply sim_bind; [apply IHe; exact He|]. intros y y' Hy.
    eapply sim_bind; [apply sim_truncate|]. intros _ _ _.
    apply sim_ret. unfold erase_fld, Re in *. cbn. congruence.
  - eapply sim_bind; [apply (sim_ret G (fun _ _ : unit => True)); exact I|]. intros _ _ _.
    eapply sim_bind; [apply IHe; exact He|]. intros y y' Hy.
    eapply sim_bind; [apply sim_truncate|]. intros _ _ _.
    apply sim_ret. unfold erase_fld, Re in *. cbn. congruence.
Qed.

Lemma step_e : Se (S f).
Proof.
  intros G e e' G1 H. destruct H; cbn [expr_r].
  - apply IHa. assumption.
  - eapply sim_binop; eauto.
  - eapply sim_binop; eauto.
  - eapply sim_binop; eauto.
  - eapply sim_binop; eauto.
  - eapply sim_binop; eauto.
  - eapply sim_binop; eauto.
  - eapply sim_binop; eauto.
  - eapply sim_binop; eauto.
  - eapply sim_uniop; eauto.
  - eapply sim_uniop; eauto.
  - apply IHe. assumption.
  - (* PIf *)
    eapply sim_bind; [eapply (sim_mapM alpha_ifb erase_ifb); [apply sim_ifb|eassumption]|].
    intros x x' Hx. apply sim_ret. unfold Re, Rl in *. cbn. fold erase_ifb. congruence.
  - (* PCase *)
    eapply sim_bind; [apply IHe; eassumption|]. intros t t' Ht.
    eapply sim_bind; [eapply (sim_mapM alpha_cb erase_cb); [apply sim_cb|eassumption]|]. intros x x' Hx.
    eapply sim_bind.
    { instantiate (1 := fun y y' => option_map (map erase_s) y = option_map (map erase_s) y').
      match goal with H : Alpha.alpha_ft _ _ _ _ _ _ _ _ |- _ => destruct H end; cbn [optM].
      - apply sim_ret. reflexivity.
      - eapply sim_bind with (ra := Rl erase_s);
          [|intros b0 b0' Hb0; apply sim_ret; cbn; unfold Rl in Hb0; rewrite Hb0; reflexivity].
        eapply sim_bind; [apply sim_stack_len|]. intros n n' [<- ->].
        eapply sim_bind; [apply sim_blocks; eassumption|]. intros y y' Hy.
        eapply sim_bind; [apply sim_truncate_if|]. intros _ _ _. apply sim_ret. exact Hy. }
    intros y y' Hy. apply sim_ret. unfold Re, Rl in *. cbn. fold erase_cb. congruence.
  - (* PFunction *)
    eapply sim_bind; [apply sim_stack_len|]. intros n n' [<- ->].
    eapply sim_bind; [eapply (sim_mapM alpha_param erase_param); [apply sim_param|eassumption]|]. intros ps0 ps0' Hps.
    eapply sim_bind; [apply sim_ty; eassumption|]. intros r0 r0' <-.
    eapply sim_bind; [apply sim_blocks; eassumption|]. intros y y' Hy.
    eapply sim_bind; [apply sim_truncate|]. intros _ _ _.
    apply sim_ret. unfold Re, Rl in *. cbn. fold erase_param. congruence.
  - (* PBlob *)
    eapply sim_bind.
    { apply (sim_lift G (@eq N)); [|reflexivity]. intros st st' HR. eapply ty_assignable_rel; eauto. }
    intros b0 b0' <-.
    eapply sim_bind; [apply sim_new_var; reflexivity|]. intros sv sv' <-.
    eapply sim_bind; [eapply (sim_mapM alpha_fld erase_fld); [intros; apply sim_fld; eassumption|eassumption]|].
    intros x x' Hx. apply sim_ret. unfold Re, Rl in *. cbn. fold erase_fld.
    change (map (fun f0 : string * expr => (fst f0, erase_e (snd f0)))) with (map erase_fld). congruence.
  - (* PTuple *)
    eapply sim_bind; [eapply (sim_mapM alpha_e erase_e); [exact IHe|eassumption]|].
    intros x x' Hx. apply sim_ret. unfold Re, Rl in *. cbn. congruence.
  - (* PList *)
    eapply sim_bind; [eapply (sim_mapM alpha_e erase_e); [exact IHe|eassumption]|].
    intros x x' Hx. apply sim_ret. unfold Re, Rl in *. cbn. congruence.
  - apply sim_ret. reflexivity.
  - apply sim_ret. reflexivity.
  - apply sim_ret. reflexivity.
  - apply sim_ret. reflexivity.
  - apply sim_ret. reflexivity.
Qed.

Lemma sim_args G l l' G1 :
  thread alpha_e G l l' G1 -> sim G G1 (Rl erase_e) (mapM (expr_r fl f) l) (mapM (expr_r fl f) l').
Proof. intros H. eapply (sim_mapM alpha_e erase_e); [exact IHe|exact H]. Qed.

(* what follows the namespace test of `a.x` once the namespace is known *)
Lemma sim_ns_member G ns i i' sp :
  g (i_name i) = i_name i' -> i_span i = i_span i' ->
  sim G G Re
    (o <- lift (fun st => lookup_global st ns (i_name i)) ;;
     match o with
     | Some (NName v) => ret (ERead v (i_span i))
     | Some (NNamespace _ _) => fail ENamespaceFound sp
     | None => fail ENothingMatched sp
     end)
    (o <- lift (fun st => lookup_global st ns (i_name i')) ;;
     match o with
     | Some (NName v) => ret (ERead v (i_span i'))
     | Some (NNamespace _ _) => fail ENamespaceFound sp
     | None => fail ENothingMatched sp
     end).
Proof.
  intros Hg Hs. eapply sim_bind.
  { apply (sim_lift G (@eq (option name))); [|reflexivity]. intros st st' HR.
    rewrite <- Hg. apply lookup_global_rel. exact (r_gr _ _ _ HR). }
  intros o o' <-. destruct o as [[v|f0 nsp]|].
  - apply sim_ret. rewrite Hs. reflexivity.
  - apply sim_fail.
  - apply sim_fail.
Qed.

Lemma stack_has_l (s : list (string * N)) (G : ctx) x :
  map fst s = map fst G -> (match stack_find s x with Some _ => true | None => false end) = ctx_has_l G x.
Proof.
  revert s. induction G as [|[a a'] G IH]; intros [|[n r] s] H; try discriminate; [reflexivity|].
  cbn in H. injection H as -> H. cbn. destruct (String.eqb a x); [reflexivity|]. cbn. apply IH. assumption.
Qed.

Lemma stack_has_r (s : list (string * N)) (G : ctx) x :
  map fst s = map snd G -> (match stack_find s x with Some _ => true | None => false end) = ctx_has_r G x.
Proof.
  revert s. induction G as [|[a a'] G IH]; intros [|[n r] s] H; try discriminate; [reflexivity|].
  cbn in H. injection H as -> H. cbn. destruct (String.eqb a' x); [reflexivity|]. cbn. apply IH. assumption.
Qed.

Lemma access_ns_applies G st st' fid a a' :
  R G st st' -> ns_applies fl G a a' ->
  access_namespace fl st fid a = namespace_list st fid a /\ access_namespace fl st' fid a' = namespace_list st' fid a'.
Proof.
  intros HR [Hf|[Hl Hr]]; unfold access_namespace; [rewrite Hf; auto|].
  unfold root_on_stack. split.
  - destruct (chain_root a) as [x|]; [|rewrite andb_false_r; reflexivity].
    rewrite (stack_has_l _ G x (r_names _ _ _ HR)), Hl, andb_false_r. reflexivity.
  - destruct (chain_root a') as [x|]; [|rewrite andb_false_r; reflexivity].
    rewrite (stack_has_r _ G x (r_names' _ _ _ HR)), Hr, andb_false_r. reflexivity.
Qed.

Lemma access_roots_local G st st' fid a a' :
  R G st st' -> access_local_first fl = true -> roots_local G a a' ->
  access_namespace fl st fid a = Ok None /\ access_namespace fl st' fid a' = Ok None.
Proof.
  intros HR Hf Hl. unfold roots_local in Hl. unfold access_namespace, root_on_stack. rewrite Hf.
  destruct (chain_root a) as [x|], (chain_root a') as [x'|]; try contradiction. destruct Hl as [H1 H2].
  rewrite (stack_has_l _ G x (r_names _ _ _ HR)), H1, (stack_has_r _ G x' (r_names' _ _ _ HR)), H2. auto.
Qed.

Definition access_k (a : passign) (i : ident) (sp : span) (ns : option N) : M expr :=
  match ns with
  | Some ns =>
      o <- lift (fun st => lookup_global st ns (i_name i)) ;;
      match o with
      | Some (NName v) => ret (ERead v (i_span i))
      | Some (NNamespace _ _) => fail ENamespaceFound sp
      | None => fail ENothingMatched sp
      end
  | None => v <- assign_r fl f a ;; ret (EBlobAccess v (i_name i) (i_span i))
  end.

Lemma assign_access_eq a i sp st :
  assign_r fl (S f) (AAccess a i sp) st =
  match access_namespace fl st (sp_file sp) a with
  | Ok ns => access_k a i sp ns st
  | Err e => Err e
  | Panic s => Panic s
  | OutOfFuel => OutOfFuel
  end.
Proof.
  cbn [assign_r]. unfold bind at 1. unfold lift at 1.
  destruct (access_namespace fl st (sp_file sp) a) as [[ns|]| | |]; reflexivity.
Qed.

Lemma step_a : Sa (S f).
Proof.
  intros G a a' G1 H. destruct H.
  - (* ARead *) cbn [assign_r].
    destruct H as [Hc Hs]. eapply sim_bind.
    { apply (sim_lift G (@eq N)); [|reflexivity]. intros st st' HR. rewrite <- Hs. eapply lookup_rel; eauto. }
    intros v v' <-. apply sim_ret. rewrite Hs. reflexivity.
  - (* AVariant *) cbn [assign_r].
    eapply sim_bind; [apply IHa; eassumption|]. intros x x' Hx.
    destruct (Re_cases _ _ Hx) as [(v & sp0 & -> & ->)|[Hn Hn']].
    + eapply sim_bind; [apply IHe; eassumption|]. intros y y' Hy. apply sim_ret. unfold Re in *. cbn. congruence.
    + destruct x; try (exfalso; eapply Hn; reflexivity);
        destruct x'; try (exfalso; eapply Hn'; reflexivity); apply sim_fail.
  - (* ACall *) cbn [assign_r].
    eapply sim_bind; [apply IHa; eassumption|]. intros x x' Hx.
    eapply sim_bind; [apply sim_args; eassumption|]. intros y y' Hy.
    apply sim_ret. unfold Re, Rl in *. cbn. congruence.
  - (* AArrowCall *) cbn [assign_r].
    eapply sim_bind; [apply IHe; eassumption|]. intros z z' Hz.
    eapply sim_bind; [apply IHa; eassumption|]. intros fn0 fn0' Hfn.
    eapply sim_bind; [apply sim_args; eassumption|]. intros y y' Hy.
    apply sim_ret. unfold Re, Rl in *. cbn. congruence.
  - (* AAccess, certainly a namespace path *)
    destruct H2 as [Hg Hs]. intros st st' HR. rewrite !assign_access_eq.
    destruct (access_ns_applies _ _ _ (sp_file sp) _ _ HR H) as [-> ->].
    rewrite (namespace_list_rel _ _ _ _ _ (r_gr _ _ _ HR) H1).
    destruct (gr_sure _ _ (r_gr _ _ _ HR) _ _ H0) as [ns Hns]. rewrite Hns. unfold access_k.
    apply (sim_ns_member G ns i i' sp Hg Hs st st' HR).
  - (* AAccess, undetermined *)
    intros st st' HR. rewrite !assign_access_eq.
    destruct (access_ns_applies _ _ _ (sp_file sp) _ _ HR H) as [-> ->].
    rewrite (namespace_list_rel _ _ _ _ _ (r_gr _ _ _ HR) H0).
    destruct (namespace_list st (sp_file sp) a) as [[ns|]| | |]; cbn [rel_res]; auto; unfold access_k.
    + apply (sim_ns_member G ns i i' sp H4 H3 st st' HR).
    + revert st st' HR. fold (sim G G Re (v <- assign_r fl f a ;; ret (EBlobAccess v (i_name i) (i_span i)))
                                    (v <- assign_r fl f a' ;; ret (EBlobAccess v (i_name i') (i_span i')))).
      eapply sim_bind; [apply IHa; eassumption|]. intros x x' Hx. apply sim_ret. unfold Re in *. cbn. congruence.
  - (* AAccess, certainly a field access *)
    intros st st' HR. rewrite !assign_access_eq.
    destruct (access_ns_applies _ _ _ (sp_file sp) _ _ HR H) as [-> ->]. unfold namespace_list.
    rewrite (namespace_file_not_ns st (sp_file sp) a (gr_isns _ _ (r_gr _ _ _ HR) (sp_file sp)) H0).
    rewrite (namespace_file_not_ns st' (sp_file sp) a' (gr_isns' _ _ (r_gr _ _ _ HR) (sp_file sp)) H1).
    rewrite (gpanic_rel _ _ (sp_file sp) (r_gr _ _ _ HR)).
    pose proof (chain_root_rel _ _ _ _ H2) as Hcr.
    assert (Hfb : rel_res Re G1 (access_k a i sp None st) (access_k a' i sp None st')).
    { unfold access_k. revert st st' HR.
      fold (sim G G1 Re (v <- assign_r fl f a ;; ret (EBlobAccess v (i_name i) (i_span i)))
                        (v <- assign_r fl f a' ;; ret (EBlobAccess v (i_name i) (i_span i)))).
      eapply sim_bind; [apply IHa; eassumption|]. intros y y' Hy. apply sim_ret. unfold Re in *. cbn. congruence. }
    destruct (chain_root a) as [x|] eqn:E1, (chain_root a') as [x'|] eqn:E2.
    + destruct (gpanic st (sp_file sp)); cbn [rbind rel_res]; [exact I|exact Hfb].
    + exfalso. destruct Hcr as [_ B]. discriminate (B eq_refl).
    + exfalso. destruct Hcr as [A _]. discriminate (A eq_refl).
    + cbn [rbind]. exact Hfb.
  - (* AAccess, the root is a declaration in scope and the code looks there first *)
    intros st st' HR. rewrite !assign_access_eq.
    destruct (access_roots_local _ _ _ (sp_file sp) _ _ HR H H0) as [-> ->]. unfold access_k.
    revert st st' HR.
    fold (sim G G1 Re (v <- assign_r fl f a ;; ret (EBlobAccess v (i_name i) (i_span i)))
                      (v <- assign_r fl f a' ;; ret (EBlobAccess v (i_name i) (i_span i)))).
    eapply sim_bind; [apply IHa; eassumption|]. intros y y' Hy. apply sim_ret. unfold Re in *. cbn. congruence.
  - (* AIndex *) cbn [assign_r].
    eapply sim_bind; [apply IHa; eassumption|]. intros x x' Hx.
    eapply sim_bind; [apply IHe; eassumption|]. intros y y' Hy.
    apply sim_ret. unfold Re in *. cbn. congruence.
  - (* AExpression *) cbn [assign_r]. apply IHe. assumption.
Qed.

Lemma fields_r_rel G st st' fs fs' :
  R G st st' -> Forall2 (fun x x' => fst x = fst x' /\ alpha_ty G (snd x) (snd x')) fs fs' ->
  fields_r st' fs' = fields_r st fs.
Proof.
  intros HR H. induction H as [|[i t] [i' t'] l l' [Hi Ht] _ IH]; [reflexivity|].
  cbn in Hi, Ht. subst i'. cbn [fields_r]. rewrite IH. rewrite (ty_rel _ _ _ _ _ HR Ht). reflexivity.
Qed.

Lemma sim_fields G fs fs' :
  Forall2 (fun x x' => fst x = fst x' /\ alpha_ty G (snd x) (snd x')) fs fs' ->
  sim G G eq (fields_m fs) (fields_m fs').
Proof.
  intros H. unfold fields_m. apply sim_lift; [|reflexivity]. intros st st' HR.
  rewrite (fields_r_rel _ _ _ _ _ HR H). reflexivity.
Qed.

Lemma sim_lookup G x x' sp :
  ctx_var G x x' = true -> sim G G eq (lift (fun st => lookup st x sp)) (lift (fun st => lookup st x' sp)).
Proof. intros Hc. apply sim_lift; [|reflexivity]. intros st st' HR. eapply lookup_rel; eauto. Qed.

Lemma step_s : Ss (S f).
Proof.
  intros G s s' G1 H. destruct H; cbn [stmt_r].
  - apply sim_ret. reflexivity.
  - apply sim_ret. reflexivity.
  - apply sim_ret. reflexivity.
  - (* PBlobDef *)
    destruct H as [Hc Hsn].
    eapply sim_bind; [apply sim_lookup; eassumption|]. intros v v' <-.
    eapply sim_bind; [apply sim_fields; eassumption|]. intros x x' <-.
    apply sim_ret. reflexivity.
  - (* PEnumDef *)
    destruct H as [Hc Hsn].
    eapply sim_bind; [apply sim_lookup; eassumption|]. intros v v' <-.
    eapply sim_bind; [apply sim_fields; eassumption|]. intros x x' <-.
    apply sim_ret. reflexivity.
  - (* PExternalDefinition *)
    destruct H as [Hc Hs].
    eapply sim_bind; [apply sim_lookup; eassumption|]. intros v v' <-.
    eapply sim_bind; [apply sim_ty; eassumption|]. intros x x' <-.
    apply sim_ret. unfold Rs. cbn. rewrite Hs. reflexivity.
  - (* PDefinition, global *)
    destruct H as [Hg Hs].
    eapply sim_bind; [apply sim_get_stack|]. intros st0 st0' [[_ A] [_ B]].
    rewrite (A eq_refl), (B eq_refl).
    eapply sim_bind with (ra := fun p p' => Re (fst p) (fst p') /\ snd p = snd p').
    { eapply sim_bind; [apply (sim_push_var [] (mkIdent (stack_begin_name (i_name i)) (i_span i))
                                           (mkIdent (stack_begin_name (i_name i')) (i_span i')) k); exact Hs|].
      intros m m' _. cbn [i_name].
      eapply sim_bind; [apply IHe; eassumption|]. intros y y' Hy.
      eapply sim_bind; [apply sim_set_stack_nil|]. intros _ _ _.
      eapply sim_bind; [apply (sim_lookup [] (i_name i) (i_name i') sp); cbn; apply String.eqb_eq; exact Hg|].
      intros v v' <-. apply sim_ret. cbn. auto. }
    intros p p' [Hp1 Hp2].
    eapply sim_bind; [apply sim_ty; eassumption|]. intros x x' <-.
    apply sim_ret. unfold Rs, Re in *. cbn. rewrite Hs, Hp2. congruence.
  - (* PDefinition, local function *)
    eapply sim_bind; [apply sim_get_stack|]. intros st0 st0' [[A _] [B _]].
    destruct st0 as [|e0 st0]; [exfalso; apply H; apply A; reflexivity|].
    destruct st0' as [|e0' st0']; [exfalso; apply H; apply B; reflexivity|].
    rewrite H0, H1.
    eapply sim_bind with (ra := fun p p' => Re (fst p) (fst p') /\ snd p = snd p').
    { eapply sim_bind; [apply sim_push_var; eassumption|]. intros v v' <-.
      eapply sim_bind; [apply IHe; eassumption|]. intros y y' Hy. apply sim_ret. cbn. auto. }
    intros p p' [Hp1 Hp2].
    eapply sim_bind; [apply sim_ty; eassumption|]. intros x x' <-.
    apply sim_ret. unfold Rs, Re, id_bind in *. cbn. rewrite H2, Hp2. congruence.
  - (* PDefinition, local value *)
    eapply sim_bind; [apply sim_get_stack|]. intros st0 st0' [[A _] [B _]].
    destruct st0 as [|e0 st0]; [exfalso; apply H; apply A; reflexivity|].
    destruct st0' as [|e0' st0']; [exfalso; apply H; apply B; reflexivity|].
    rewrite H0, H1.
    eapply sim_bind with (ra := fun p p' => Re (fst p) (fst p') /\ snd p = snd p').
    { eapply sim_bind; [apply IHe; eassumption|]. intros y y' Hy.
      eapply sim_bind; [apply sim_push_var; eassumption|]. intros v v' <-. apply sim_ret. cbn. auto. }
    intros p p' [Hp1 Hp2].
    eapply sim_bind; [apply sim_ty; eassumption|]. intros x x' <-.
    apply sim_ret. unfold Rs, Re, id_bind in *. cbn. rewrite H2, Hp2. congruence.
  - (* PAssignment *)
    eapply sim_bind; [apply IHe; eassumption|]. intros y y' Hy.
    eapply sim_bind; [apply IHa; eassumption|]. intros x x' Hx.
    apply sim_ret. unfold Rs, Re in *. cbn. congruence.
  - (* PLoop *)
    eapply sim_bind; [apply IHe; eassumption|]. intros y y' Hy.
    eapply sim_bind; [apply IHs; eassumption|]. intros x x' Hx.
    apply sim_ret. unfold Rs, Re in *. cbn. destruct x, x'; cbn in Hx; try discriminate; cbn; congruence.
  - apply sim_ret. reflexivity.
  - apply sim_ret. reflexivity.
  - (* PRet *)
    eapply sim_bind; [apply sim_optM_e; eassumption|]. intros y y' Hy.
    apply sim_ret. unfold Rs. cbn. congruence.
  - (* PBlock *)
    eapply sim_bind; [apply sim_stack_len|]. intros n n' [<- ->].
    eapply sim_bind; [apply sim_blocks; eassumption|]. intros y y' Hy.
    eapply sim_bind; [apply sim_truncate|]. intros _ _ _.
    apply sim_ret. unfold Rs, Rl in *. cbn. congruence.
  - (* PStatementExpression *)
    eapply sim_bind; [apply IHe; eassumption|]. intros y y' Hy.
    apply sim_ret. unfold Rs, Re in *. cbn. congruence.
  - apply sim_ret. reflexivity.
Qed.

End Step.

Lemma sim_all : forall f, Se f /\ Sa f /\ Ss f.
Proof.
  induction f as [|f (IHe & IHa & IHs)].
  - repeat split; intros G x x' G1 _ st st' _; exact I.
  - split; [apply step_e|split; [apply step_a|apply step_s]]; assumption.
Qed.

(* ---------------------------------------------------------------------------------------------- *)
(* the two namespace passes *)

Record Rp (st st' : rstate) : Prop := mkRp {
  rp_stack : st_stack st = [] /\ st_stack st' = [];
  rp_next : st_next st = st_next st';
  rp_vars : map erase_var (st_vars st) = map erase_var (st_vars st');
  rp_n2f : st_n2f st' = st_n2f st;
  rp_ns : st_ns st' = nss_map (st_ns st)
}.

Definition rel_p {A} (ra : A -> A -> Prop) (r r' : res (A * rstate)) : Prop :=
  match r, r' with
  | Ok (a, s), Ok (a', s') => ra a a' /\ Rp s s'
  | Err e, Err e' => e = e'
  | Panic _, Panic _ => True
  | OutOfFuel, OutOfFuel => True
  | _, _ => False
  end.

Lemma relp_bind {A B} (ra : A -> A -> Prop) (rb : B -> B -> Prop) (m m' : M A) (k k' : A -> M B) st st' :
  rel_p ra (m st) (m' st') ->
  (forall a a' s s', ra a a' -> Rp s s' -> rel_p rb (k a s) (k' a' s')) ->
  rel_p rb (bind m k st) (bind m' k' st').
Proof.
  intros Hm Hk. unfold bind, rel_p in *.
  destruct (m st) as [[a s1]| | |], (m' st') as [[a' s1']| | |]; try contradiction; auto.
  destruct Hm. apply Hk; assumption.
Qed.

Lemma defined_ident_rel s s' :
  alpha_s [] s s' [] ->
  match defined_ident s, defined_ident s' with
  | Some (i, k), Some (i', k') => g (i_name i) = i_name i' /\ i_span i = i_span i' /\ k = k'
  | None, None => True
  | _, _ => False
  end /\ pstmt_span s = pstmt_span s'.
Proof.
  intros H. inversion H; subst; cbn; auto;
    try (match goal with Hx : Alpha.id_ref _ [] _ _ |- _ =>
           destruct Hx as [Hc Hs]; cbn in Hc; apply String.eqb_eq in Hc; auto end);
    try (match goal with Hx : Alpha.id_glob _ _ _ |- _ => destruct Hx; auto end);
    try (exfalso; match goal with Hx : [] <> [] |- _ => apply Hx; reflexivity end).
Qed.

Lemma add_definitions_rel ss ss' :
  Forall2 (fun s s' => alpha_s [] s s' []) ss ss' ->
  forall t st st', Rp st st' ->
  rel_p (fun t1 t1' => t1' = ns_map t1) (add_definitions ss t st) (add_definitions ss' (ns_map t) st').
Proof.
  induction 1 as [|s s' ss ss' Hs _ IH]; intros t st st' HR; cbn [add_definitions].
  - cbn. auto.
  - destruct (defined_ident_rel _ _ Hs) as [Hd Hsp].
    destruct (defined_ident s) as [[i k]|], (defined_ident s') as [[i' k']|]; try contradiction; [|apply IH; assumption].
    destruct Hd as (Hg & Hsi & <-). unfold bind, new_global, new_var_g.
    destruct HR as [[S1 S2] Hn Hv Hf Hns]. rewrite <- Hn.
    rewrite <- Hg, ns_get_map. destruct (ns_get t (i_name i)).
    + cbn. rewrite Hsp. reflexivity.
    + change ((g (i_name i), NName (st_next st)) :: ns_map t) with (ns_map ((i_name i, NName (st_next st)) :: t)).
      apply IH. constructor; cbn; auto. unfold erase_var at 1 3. cbn. rewrite Hsi, Hv. reflexivity.
Qed.

Lemma fol_set_map l f t : fol_set (nss_map l) f (ns_map t) = nss_map (fol_set l f t).
Proof.
  unfold nss_map. induction l as [|[k v] l IH]; cbn; [reflexivity|].
  destruct (fol_eqb f k); cbn; [reflexivity|]. f_equal. exact IH.
Qed.

Lemma pass1_rel p p' :
  Forall2 (alpha_module fl g is_ns sure_ns) p p' ->
  forall st st', Rp st st' ->
  rel_p (fun _ _ => True) (for_each insert_namespace_and_add_definitions p st)
        (for_each insert_namespace_and_add_definitions p' st').
Proof.
  induction 1 as [|m m' p p' (Hf & Hid & Hss) _ IH]; intros st st' HR; cbn [for_each].
  - cbn. auto.
  - eapply relp_bind with (ra := fun _ _ : unit => True).
    + unfold insert_namespace_and_add_definitions. eapply relp_bind.
      * pose proof (add_definitions_rel _ _ Hss [] st st' HR) as Ha. cbn [ns_map map] in Ha. exact Ha.
      * intros t1 t1' s1 s1' -> [[S1 S2] Hn Hv Hn2 Hns]. unfold set_namespace. cbn.
        split; [exact I|]. constructor; cbn; auto. rewrite Hns, <- Hf. apply fol_set_map.
    + intros _ _ s1 s1' _ HR1. apply IH. assumption.
Qed.

Lemma import_name_rel f nm nm' v k sp st st' :
  g nm = nm' -> Rp st st' ->
  rel_p (fun _ _ => True) (import_name f nm v k sp st) (import_name f nm' v k sp st').
Proof.
  intros <- [[S1 S2] Hn Hv Hn2 Hns]. unfold import_name. rewrite Hns, fol_get_map.
  destruct (fol_get (st_ns st) f) as [t|]; cbn; [|exact I].
  rewrite ns_get_map. destruct (ns_get t nm) as [old|].
  - destruct (name_eqb old v); cbn; [|reflexivity]. split; [exact I|]. constructor; auto.
  - unfold set_namespace. cbn. split; [exact I|]. constructor; cbn; auto.
    rewrite Hns. change ((g nm, v) :: ns_map t) with (ns_map ((nm, v) :: t)). apply fol_set_map.
Qed.

Lemma from_imports_rel f file sp imps imps' :
  Forall2 (fun p p' => id_glob (fst p) (fst p') /\
                       match snd p, snd p' with
                       | None, None => True
                       | Some a, Some a' => id_glob a a'
                       | _, _ => False
                       end) imps imps' ->
  forall st st', Rp st st' ->
  rel_p (fun _ _ => True) (from_imports f file sp imps st) (from_imports f file sp imps' st').
Proof.
  induction 1 as [|[nm al] [nm' al'] l l' [[Hg Hs] Ha] _ IH]; intros st st' HR; cbn [from_imports].
  - cbn. auto.
  - cbn [fst snd] in *.
    assert (Hy : g (i_name match al with Some a => a | None => nm end) = i_name match al' with Some a => a | None => nm' end
                 /\ i_span match al with Some a => a | None => nm end = i_span match al' with Some a => a | None => nm' end).
    { destruct al, al'; try contradiction; [destruct Ha; auto|auto]. }
    destruct Hy as [Hy1 Hy2].
    eapply relp_bind with (ra := fun o o' => o' = option_map ns_map o).
    + unfold get_ns. cbn. rewrite (rp_ns _ _ HR), fol_get_map. auto.
    + intros o o' s1 s1' -> HR1. destruct o as [from_ns|]; cbn [option_map]; [|cbn; reflexivity].
      rewrite <- Hg, ns_get_map. destruct (ns_get from_ns (i_name nm)) as [v|]; [|cbn; rewrite Hs; reflexivity].
      eapply relp_bind with (ra := fun _ _ : unit => True).
      * rewrite <- Hy2. apply import_name_rel; eassumption.
      * intros _ _ s2 s2' _ HR2. apply IH. assumption.
Qed.

Lemma pass2_module_rel f ss ss' :
  Forall2 (fun s s' => alpha_s [] s s' []) ss ss' ->
  forall st st', Rp st st' ->
  rel_p (fun _ _ => True) (resolve_global_variables f ss st) (resolve_global_variables f ss' st').
Proof.
  induction 1 as [|s s' ss ss' Hs _ IH]; intros st st' HR; cbn [resolve_global_variables].
  - cbn. auto.
  - eapply relp_bind with (ra := fun _ _ : unit => True); [|intros _ _ s1 s1' _ HR1; apply IH; assumption].
    inversion Hs; subst; try (cbn; auto; fail).
    + (* use *)
      assert (Hi : id_glob (usename_ident nm) (usename_ident nm')) by (destruct nm, nm'; try contradiction; assumption).
      destruct Hi as [Hg Hsp]. cbn zeta.
      eapply relp_bind with (ra := fun o o' => o' = option_map ns_map o).
      * unfold get_ns. cbn. rewrite (rp_ns _ _ HR), fol_get_map. auto.
      * intros o o' s1 s1' -> HR1. destruct o; cbn [option_map].
        -- rewrite <- Hsp. apply import_name_rel; assumption.
        -- cbn. rewrite Hsp. reflexivity.
    + (* from use *) apply from_imports_rel; assumption.
Qed.

Lemma pass2_rel p p' :
  Forall2 (alpha_module fl g is_ns sure_ns) p p' ->
  forall st st', Rp st st' ->
  rel_p (fun _ _ => True)
        (for_each (fun m => resolve_global_variables (m_file m) (m_stmts m)) p st)
        (for_each (fun m => resolve_global_variables (m_file m) (m_stmts m)) p' st').
Proof.
  induction 1 as [|m m' p p' (Hf & Hid & Hss) _ IH]; intros st st' HR; cbn [for_each].
  - cbn. auto.
  - eapply relp_bind with (ra := fun _ _ : unit => True); [|intros _ _ s1 s1' _ HR1; apply IH; assumption].
    rewrite <- Hf. apply pass2_module_rel; assumption.
Qed.

(* the import pass repeated to a fixpoint *)
Lemma try_rel (m m' : M unit) st st' :
  Rp st st' -> rel_p (fun _ _ : unit => True) (m st) (m' st') -> rel_p (fun _ _ : unit => True) (try_ m st) (try_ m' st').
Proof.
  intros HR H. unfold try_, rel_p in *.
  destruct (m st) as [[a s]| | |], (m' st') as [[a' s']| | |]; try contradiction; auto.
Qed.

Lemma for_each_rel {X} (P : X -> X -> Prop) (h h' : X -> M unit) l l' :
  Forall2 P l l' ->
  (forall x x' st st', P x x' -> Rp st st' -> rel_p (fun _ _ : unit => True) (h x st) (h' x' st')) ->
  forall st st', Rp st st' -> rel_p (fun _ _ : unit => True) (for_each h l st) (for_each h' l' st').
Proof.
  intros HF Hh. induction HF as [|x x' l l' Hx _ IH]; intros st st' HR; cbn [for_each].
  - cbn. auto.
  - eapply relp_bind with (ra := fun _ _ : unit => True); [apply Hh; assumption|].
    intros _ _ s1 s1' _ HR1. apply IH. assumption.
Qed.

Lemma quiet_stmt_rel f s s' st st' :
  alpha_s [] s s' [] -> Rp st st' ->
  rel_p (fun _ _ : unit => True) (quiet_stmt f s st) (quiet_stmt f s' st').
Proof.
  intros Hs HR. pose proof Hs as Hs0. inversion Hs; subst; try (cbn; auto; fail).
  - (* use *) cbn [quiet_stmt]. apply try_rel; [assumption|]. apply pass2_module_rel; [|assumption].
    constructor; [assumption|constructor].
  - (* from use *) cbn [quiet_stmt].
    eapply for_each_rel; [eassumption| |assumption].
    intros it it' s1 s1' Hit HR1. apply try_rel; [assumption|]. apply from_imports_rel; [|assumption].
    constructor; [exact Hit|constructor].
Qed.

Lemma names_count_map l : fold_right (fun p n => length (snd p) + n) 0 (nss_map l)
                          = fold_right (fun p n => length (snd p) + n) 0 l.
Proof.
  unfold nss_map, ns_map. induction l as [|[k t] l IH]; cbn; [reflexivity|]. rewrite map_length, IH. reflexivity.
Qed.

Lemma names_count_rel st st' : Rp st st' -> names_count st' = names_count st.
Proof. intros HR. unfold names_count. rewrite (rp_ns _ _ HR). apply names_count_map. Qed.

Lemma quiet_round_rel p p' :
  Forall2 (alpha_module fl g is_ns sure_ns) p p' ->
  forall st st', Rp st st' -> rel_p (fun _ _ : unit => True) (quiet_round p st) (quiet_round p' st').
Proof.
  intros Ha. unfold quiet_round. eapply for_each_rel; [exact Ha|].
  intros m m' st st' (Hf & Hid & Hss) HR. rewrite <- Hf. unfold quiet_pass.
  eapply for_each_rel; [exact Hss| |assumption].
  intros s s' s1 s1' Hs HR1. apply quiet_stmt_rel; assumption.
Qed.

Lemma import_rounds_rel p p' :
  Forall2 (alpha_module fl g is_ns sure_ns) p p' ->
  forall n st st', Rp st st' -> rel_p (fun _ _ : unit => True) (import_rounds n p st) (import_rounds n p' st').
Proof.
  intros Ha. induction n as [|n IH]; intros st st' HR; cbn [import_rounds]; [exact I|].
  pose proof (quiet_round_rel _ _ Ha _ _ HR) as Hq.
  destruct (quiet_round p st) as [[[] s1]| | |], (quiet_round p' st') as [[[] s1']| | |]; try contradiction; auto.
  destruct Hq as [_ HR1]. rewrite (names_count_rel _ _ HR1), (names_count_rel _ _ HR).
  destruct (Nat.eqb (names_count s1) (names_count st)); [cbn; auto|apply IH; assumption].
Qed.

Lemma import_items_rel p p' : Forall2 (alpha_module fl g is_ns sure_ns) p p' -> import_items p = import_items p'.
Proof.
  unfold import_items. induction 1 as [|m m' p p' (_ & _ & Hss) _ IH]; cbn; [reflexivity|]. rewrite IH. f_equal.
  clear IH. induction Hss as [|s s' l l' Hs _ IHl]; cbn; [reflexivity|]. rewrite IHl. f_equal.
  inversion Hs; subst; cbn; try reflexivity.
  match goal with HF : Forall2 _ ?a ?b |- length ?a = length ?b => clear - HF; induction HF; cbn; congruence end.
Qed.

Lemma import_pass_rel b p p' :
  Forall2 (alpha_module fl g is_ns sure_ns) p p' ->
  forall st st', Rp st st' ->
  rel_p (fun _ _ : unit => True) (import_pass b p st) (import_pass b p' st').
Proof.
  intros Ha st st' HR. unfold import_pass.
  eapply relp_bind with (ra := fun _ _ : unit => True).
  - destruct b; [|cbn; auto]. rewrite <- (import_items_rel _ _ Ha). apply import_rounds_rel; assumption.
  - intros _ _ s1 s1' _ HR1. apply pass2_rel; assumption.
Qed.

(* ---------------------------------------------------------------------------------------------- *)
(* whole programs *)

Hypothesis g_start : g "start" = "start".

(* the state after the two namespace passes *)
Definition passes (ast : past) : res (unit * rstate) :=
  (_ <- for_each insert_namespace_and_add_definitions ast ;; import_pass (imports_fixpoint fl) ast) (init_state ast).

(* `is_ns` over-approximates the namespace names of every file; `sure_ns` under-approximates the
   namespace paths *)
Definition ns_sound (st : rstate) : Prop :=
  forall fid x f sp, lookup_global st fid x = Ok (Some (NNamespace f sp)) -> is_ns fid x = true.
Definition sure_sound (st : rstate) : Prop :=
  forall fid a, sure_ns fid a = true -> exists ns, namespace_list st fid a = Ok (Some ns).

Definition res_rel (r r' : res resolved) : Prop :=
  match r, r' with
  | Ok x, Ok x' => erase x = erase x'
  | Err e, Err e' => e = e'
  | Panic _, Panic _ => True
  | OutOfFuel, OutOfFuel => True
  | _, _ => False
  end.

Lemma thread_flat p p' :
  Forall2 (alpha_module fl g is_ns sure_ns) p p' ->
  thread alpha_s [] (flat_map m_stmts p) (flat_map m_stmts p') [].
Proof.
  induction 1 as [|m m' p p' (_ & _ & Hss) _ IH]; cbn; [constructor|].
  induction Hss as [|s s' l l' Hs _ IHl]; cbn; [exact IH|]. econstructor; eauto.
Qed.

Lemma init_Rp p p' : Forall2 (alpha_module fl g is_ns sure_ns) p p' -> Rp (init_state p) (init_state p').
Proof.
  intros H. constructor; cbn; auto.
  induction H as [|m m' p p' (Hf & Hid & _) _ IH]; cbn; [reflexivity|]. rewrite Hf, Hid, IH. reflexivity.
Qed.

Theorem alpha_resolve_fuel fuel p p' :
  alpha_ast fl g is_ns sure_ns p p' ->
  (forall st, passes p = Ok (tt, st) -> ns_sound st /\ sure_sound st) ->
  (forall st, passes p' = Ok (tt, st) -> ns_sound st) ->
  res_rel (resolve_fuel fl fuel p) (resolve_fuel fl fuel p').
Proof.
  intros Ha Hs Hs'. unfold alpha_ast in Ha.
  pose proof (pass1_rel _ _ Ha _ _ (init_Rp _ _ Ha)) as H1.
  unfold resolve_fuel, resolve_m, passes in *. unfold bind at 1 5. unfold bind in Hs at 1. unfold bind in Hs' at 1.
  destruct (for_each insert_namespace_and_add_definitions p (init_state p)) as [[[] s1]| | |],
           (for_each insert_namespace_and_add_definitions p' (init_state p')) as [[[] s1']| | |];
    try contradiction; cbn [rel_p res_rel] in *; auto.
  destruct H1 as [_ HR1]. pose proof (import_pass_rel (imports_fixpoint fl) _ _ Ha _ _ HR1) as H2.
  unfold bind at 1 4.
  destruct (import_pass (imports_fixpoint fl) p s1) as [[[] s2]| | |],
           (import_pass (imports_fixpoint fl) p' s1') as [[[] s2']| | |];
    try contradiction; cbn [rel_p res_rel] in *; auto.
  destruct H2 as [_ [[S1 S2] Hn Hv Hn2 Hns]].
  destruct (Hs _ eq_refl) as [Hsound Hsure]. pose proof (Hs' _ eq_refl) as Hsound'.
  assert (HR : R [] s2 s2').
  { constructor; [rewrite S1; reflexivity|rewrite S2; reflexivity|rewrite S1, S2; reflexivity|exact Hn|exact Hv|].
    constructor; assumption. }
  pose proof (sim_block (stmt_r fl fuel) (proj2 (proj2 (sim_all fuel))) _ _ _ _ (thread_flat _ _ Ha) _ _ HR) as Hb.
  unfold bind at 1 3.
  destruct (block_with (stmt_r fl fuel) (flat_map m_stmts p) s2) as [[out s3]| | |],
           (block_with (stmt_r fl fuel) (flat_map m_stmts p') s2') as [[out' s3']| | |];
    try contradiction; cbn [rel_res res_rel] in *; auto.
  destruct Hb as [Hout HR3]. unfold bind, lift.
  rewrite <- (lookup_global_rel s3 s3' 0%N "start" (r_gr _ _ _ HR3)), g_start.
  destruct (lookup_global s3' 0 "start") as [[nm|]| | |]; cbn; auto.
  unfold erase. cbn. rewrite !map_rev, (r_vars _ _ _ HR3). unfold Rl in Hout. rewrite Hout. reflexivity.
Qed.

(* the same for `resolve`, whose fuel is computed from the program *)
Corollary alpha_resolve p p' :
  alpha_ast fl g is_ns sure_ns p p' -> fuel_of p = fuel_of p' ->
  (forall st, passes p = Ok (tt, st) -> ns_sound st /\ sure_sound st) ->
  (forall st, passes p' = Ok (tt, st) -> ns_sound st) ->
  res_rel (resolve fl p) (resolve fl p').
Proof. intros Ha Hf Hs Hs'. unfold resolve. rewrite <- Hf. apply alpha_resolve_fuel; assumption. Qed.

End Sim.
