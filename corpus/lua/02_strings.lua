-- expect-error: attempt to concatenate a boolean value
-- expect: a	b
-- expect: 3	3	ABA
-- expect: single "double"	double 'single'
-- expect: true
-- expect: with ]] inside
-- expect: 1
-- expect: true	true	true	true	false
-- expect: true	true	true	false
-- expect: ell	llo	ello	lo	hello
-- expect: true	he	ell
-- expect: 65	98	97	98	99
-- expect:
-- expect: Hi	true
-- expect: ababab	true
-- expect: 4	ABC	abc
-- expect: nil	true	12	s
-- expect[jit]: 12	31	100	nil	nil	nil	-7	5	nil
-- expect[5.3]: 12	31	100.0	nil	nil	nil	-7	5	nil
-- expect: nil	number	string	table	function	function	boolean
-- expect: concat12
-- expect: \n is not a newline	2
-- expect: true
-- expect: skipped	q"uote	it's
-- expect: 4	hi
-- expect: after long comment
-- expect: after level-2 comment
print("a\tb")
print(#"a\nb", #"\65\066\x41", "\65\066\x41")
print('single "double"', "double 'single'")
print([[long
string]] == "long\nstring")
print([==[with ]] inside]==])
print(#[[
x]])
print("abc" < "abd", "abc" < "abcd", "Z" < "a", "" < "a", "a" < "")
print("abc" == "abc", "abc" ~= "abd", "a" <= "a", "b" >= "c")
print(string.sub("hello", 2, 4), string.sub("hello", -3), string.sub("hello", 2), string.sub("hello", 4, 100), string.sub("hello", 0))
print(string.sub("hello", 3, 2) == "", string.sub("hello", -100, 2), string.sub("hello", 2, -2))
print(string.byte("A"), string.byte("abc", 2), string.byte("abc", 1, 3))
print(string.byte("", 1))
print(string.char(72, 105), string.char() == "")
print(string.rep("ab", 3), string.rep("x", 0) == "")
print(string.len("four"), string.upper("abC"), string.lower("ABc"))
print(tostring(nil), tostring(true), tostring(12), tostring("s"))
print(tonumber("12"), tonumber("  0x1F  "), tonumber("1e2"), tonumber("abc"), tonumber("12abc"), tonumber(""), tonumber("-7"), tonumber(5), tonumber(nil))
print(type(nil), type(1), type("s"), type({}), type(print), type(function() end), type(true))
print("con" .. "cat" .. 1 .. 2)
print("\\n is not a newline", #"\\n")
print("a\
b" == "a\nb")
print("\z   skipped", "q\"uote", 'it\'s')
print(#"\0abc", "\104\105")
-- comments: short and long
--[[ long
comment ]] print("after long comment")
--[==[ another
]] still comment
]==] print("after level-2 comment")
--[ not long
print("x" .. 1.5 .. true == nil)
