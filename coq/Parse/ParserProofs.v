(* Generic facts about the fuelled parser model: results that are not [Fuel] are stable under more fuel
   (one lemma, [run_mono], by induction on programs), and how [run] goes through [ptry]. *)
From Coq Require Import List NArith Bool Arith Lia.
From Sylt Require Import Syntax.Ast Syntax.Tok Parse.PrecTable Parse.Parser.
Import ListNotations.

Lemma go_S T f q : go T (S f) q = run (go T f) (step T q).
Proof. reflexivity. Qed.

Lemma run_mono {A : Type} (r1 r2 : req -> res out) :
  (forall q, r1 q <> Fuel -> r2 q = r1 q) ->
  forall m : prog A, run r1 m <> Fuel -> run r2 m = run r1 m.
Proof.
  intros M m. induction m as [r|q kOk IHok kErr IHerr]; intros H.
  - reflexivity.
  - cbn [run] in *. destruct (r1 q) as [o|c es| |] eqn:E.
    + rewrite (M q) by (rewrite E; discriminate). rewrite E. apply IHok. exact H.
    + rewrite (M q) by (rewrite E; discriminate). rewrite E. apply IHerr. exact H.
    + exfalso. apply H. reflexivity.
    + rewrite (M q) by (rewrite E; discriminate). rewrite E. reflexivity.
Qed.

Lemma go_mono T f : forall q, go T f q <> Fuel -> go T (S f) q = go T f q.
Proof.
  induction f as [|f IH]; intros q H.
  - exfalso. apply H. reflexivity.
  - rewrite go_S. rewrite (go_S T f q). apply run_mono; [exact IH|]. rewrite <- go_S. exact H.
Qed.

Lemma go_mono_le T f g q : f <= g -> go T f q <> Fuel -> go T g q = go T f q.
Proof.
  induction 1 as [|g Hle IH]; intros H; [reflexivity|].
  rewrite go_mono; [apply IH; exact H|]. rewrite IH by exact H. exact H.
Qed.

Lemma go_ok_le T f g q x : f <= g -> go T f q = Ok x -> go T g q = Ok x.
Proof. intros Hle H. rewrite (go_mono_le T f g q Hle); [exact H|]. rewrite H. discriminate. Qed.

Lemma go_err_le T f g q c es : f <= g -> go T f q = Err c es -> go T g q = Err c es.
Proof. intros Hle H. rewrite (go_mono_le T f g q Hle); [exact H|]. rewrite H. discriminate. Qed.

Lemma run_ptry {A B : Type} (rec : req -> res out) (m : prog A) (k : A -> prog B)
  (e : ctx -> list nat -> prog B) :
  run rec (ptry m k e) =
  match run rec m with
  | Ok a => run rec (k a)
  | Err c es => run rec (e c es)
  | Fuel => Fuel
  | Panic => Panic
  end.
Proof.
  induction m as [r|q kOk IHok kErr IHerr].
  - destruct r; reflexivity.
  - cbn [ptry run]. destruct (rec q); auto.
Qed.

Lemma run_call (rec : req -> res out) (q : req) : run rec (call q) = rec q.
Proof. unfold call. cbn [run]. destruct (rec q); reflexivity. Qed.

Lemma run_ret {A : Type} (rec : req -> res out) (r : res A) : run rec (Ret r) = r.
Proof. reflexivity. Qed.

(* ------------------------------------------------------------------------------------------- *)
(* Context::prev finds a token to stop on as soon as there is a non-comment token behind the cursor *)

Definition not_comment (t : tok) : bool := match t with TComment => false | _ => true end.

Lemma unwind_some : forall pre post,
  existsb not_comment pre = true \/ match post with t :: _ => not_comment t = true | [] => True end ->
  exists r, unwind pre post = Some r.
Proof.
  induction pre as [|x pre IH]; intros post H.
  - destruct H as [H|H]; [discriminate|]. destruct post as [|t post]; [eexists; reflexivity|].
    destruct t; try (eexists; reflexivity). discriminate.
  - destruct post as [|t post]; [eexists; reflexivity|].
    destruct t; try (eexists; reflexivity).
    cbn [unwind]. apply IH. destruct H as [H|H]; [|discriminate].
    cbn [existsb] in H. destruct x; cbn [not_comment] in *; try (right; reflexivity). left. exact H.
Qed.

Lemma strip_pre_app b ts : forall p, exists l, fst (strip b ts p) = l ++ p.
Proof.
  induction ts as [|t ts IH]; intros p; [exists []; reflexivity|].
  destruct t as [| | | | | |k|]; try (exists []; reflexivity).
  - cbn [strip]. destruct (IH (TComment :: p)) as [l Hl]. exists (l ++ [TComment]). rewrite Hl, <- app_assoc. reflexivity.
  - destruct k; try (exists []; reflexivity). cbn [strip]. destruct b; [|exists []; reflexivity].
    destruct (IH (TK KNewline :: p)) as [l Hl]. exists (l ++ [TK KNewline]). rewrite Hl, <- app_assoc. reflexivity.
Qed.

Lemma prev_some_of_pre c : over c = 0 -> existsb not_comment (pre c) = true -> exists cp, prev c = Some cp.
Proof.
  intros Ho H. unfold prev. rewrite Ho. destruct (pre c) as [|t p] eqn:Ep; [discriminate|].
  destruct (unwind_some p (t :: post c)) as [[p1 p2] E].
  - cbn [existsb] in H. destruct t; cbn [not_comment] in *; try (right; reflexivity). left. exact H.
  - rewrite E. eexists. reflexivity.
Qed.

(* after eating a token that is not a comment, prev() has something to stop on *)
Lemma prev_skip1_some c : token c <> TComment -> exists cp, prev (skip 1 c) = Some cp.
Proof.
  intros Tk. unfold skip, token in *. destruct (post c) as [|t ts] eqn:Ep.
  - cbn [adv strip]. unfold prev. cbn [over]. rewrite Nat.add_comm. cbn [Nat.add]. eexists. reflexivity.
  - cbn [adv].
    assert (A : adv ts match t with TComment => 1 | _ => 0 end (t :: pre c) = (t :: pre c, ts, 0)).
    { destruct t; try (destruct ts; reflexivity). congruence. }
    rewrite A. destruct (strip_pre_app (nl c) ts (t :: pre c)) as [l Hl].
    destruct (strip (nl c) ts (t :: pre c)) as [p2 q2] eqn:Es. cbn [fst] in Hl. subst p2.
    destruct (over c + 0) as [|o] eqn:Eo.
    + apply prev_some_of_pre; cbn [over pre]; [reflexivity|].
      rewrite existsb_app. cbn [existsb]. destruct t; cbn [not_comment]; try (rewrite orb_true_r; reflexivity).
      congruence.
    + unfold prev. cbn [over]. eexists. reflexivity.
Qed.
