-- expect: true	false	false	true
-- expect: true	false	false	true
-- expect: le called
-- expect: true
-- expect: le called
-- expect: false
-- expect[jit]: false	attempt to compare table with number
-- expect[5.3]: false	attempt to index a number value
-- expect: false	attempt to compare number with string
-- expect: false	attempt to compare two table values
-- expect: false	attempt to compare nil with number
-- expect: false	attempt to compare two boolean values
-- expect[jit]: false	attempt to compare two table values
-- expect[5.3]: false	attempt to compare number with nil
-- expect: true	true	false	true
-- expect: true
local mt = {}
mt.__lt = function(a, b) return a.v < b.v end
local function new(v) return setmetatable({v = v}, mt) end
local a, b = new(1), new(2)
print(a < b, b < a, a > b, b > a)
-- without __le:  a <= b  is  not (b < a)
print(a <= b, b <= a, a >= b, a <= a)
mt.__le = function(x, y) print("le called"); return x.v <= y.v end
print(a <= b)
print(a >= b)
print(pcall(function() return a < 1 end))
print(pcall(function() return 1 < "2" end))
print(pcall(function() return {} < {} end))
print(pcall(function() return nil < 1 end))
print(pcall(function() return true < false end))
-- the two operands must have the same __lt
local mt2 = {__lt = function() return true end}
local c = setmetatable({}, mt2)
print(pcall(function() return a < c end))
print("a" < "b", "10" < "9", 10 < 9, "a" <= "a")
mt.__lt = function() return 0 end
print(a < b)
