-- expect-wf: bad undefined label 'top'
::top::
local function f() goto top end
