"""Shared machinery for the checks: paths, builds, running the real implementation (harness) and the
extracted models, sharding, PRNG, shrinking, evidence and replay files."""
import concurrent.futures
import fcntl
import hashlib
import json
import os
import random
import re
import subprocess
import sys
import tempfile
import time

HERE = os.path.dirname(os.path.abspath(__file__))
VERIF = os.path.dirname(HERE)
REPO = os.environ.get("VERIF_REPO", "/repo")
BUILD = os.path.join(VERIF, "build")
COQ = os.path.join(VERIF, "coq")
HARNESS_BIN = os.path.join(BUILD, "target", "release", "verif-harness")
HARNESS_DBG = os.path.join(BUILD, "target", "debug", "verif-harness")
SYLT_BIN = os.path.join(BUILD, "target", "release", "sylt")
NCPU = min(16, os.cpu_count() or 4)
GUARD = "sylt_lang_sylt_lang_verif"

os.makedirs(BUILD, exist_ok=True)
os.makedirs(os.path.join(BUILD, "tmp"), exist_ok=True)


def log(*a):
    print(*a, file=sys.stderr, flush=True)


def hexs(s):
    if isinstance(s, str):
        s = s.encode("utf-8")
    return s.hex() if s else "-"


def unhex(h):
    return b"" if h == "-" else bytes.fromhex(h)


class Lock:
    """Serialises build steps between concurrently running checks."""

    def __init__(self, name="build"):
        self.path = os.path.join(BUILD, "." + name + ".lock")

    def __enter__(self):
        self.f = open(self.path, "w")
        fcntl.flock(self.f, fcntl.LOCK_EX)
        return self

    def __exit__(self, *a):
        fcntl.flock(self.f, fcntl.LOCK_UN)
        self.f.close()


def run(cmd, cwd=None, timeout=None, env=None, check=False, input=None):
    e = dict(os.environ)
    e.update({"CARGO_NET_OFFLINE": "true", "LC_ALL": "C.UTF-8", "VERIF_SCRATCH": os.path.join(BUILD, "tmp")})
    if env:
        e.update(env)
    p = subprocess.run(cmd, cwd=cwd, timeout=timeout, env=e, stdout=subprocess.PIPE, stderr=subprocess.STDOUT,
                       input=input)
    out = p.stdout.decode("utf-8", "replace")
    if check and p.returncode != 0:
        raise RuntimeError("command failed (%d): %s\n%s" % (p.returncode, " ".join(cmd), out[-4000:]))
    return p.returncode, out


# ------------------------------------------------------------------------------------------------
# builds

def build_harness(debug=False):
    """(Re)build the Rust harness against /repo's current working tree."""
    hdir = os.path.join(VERIF, "harness")
    with Lock("cargo"):
        lock = os.path.join(hdir, "Cargo.lock")
        src_lock = os.path.join(REPO, "Cargo.lock")
        if os.path.exists(src_lock):
            want = open(src_lock).read()
            # keep the harness package entry out: cargo adds it itself
            if not os.path.exists(lock):
                open(lock, "w").write(want)
        cmd = ["cargo", "build", "--offline"] + ([] if debug else ["--release"])
        env = {"RUSTFLAGS": "--cfg %s -Awarnings" % GUARD, "CARGO_TARGET_DIR": os.path.join(BUILD, "target")}
        rc, out = run(cmd, cwd=hdir, env=env, timeout=1800)
        if rc != 0:
            # a stale lock file can be the reason: retry once from /repo's lock
            if os.path.exists(src_lock):
                open(lock, "w").write(open(src_lock).read())
                rc, out = run(cmd, cwd=hdir, env=env, timeout=1800)
        return rc == 0, out


def build_sylt_bin():
    """Build the real `sylt` binary from /repo's working tree into our target dir."""
    with Lock("cargo"):
        env = {"RUSTFLAGS": "--cfg %s -Awarnings" % GUARD, "CARGO_TARGET_DIR": os.path.join(BUILD, "target")}
        rc, out = run(["cargo", "build", "--offline", "--release", "-p", "sylt", "--bin", "sylt"], cwd=REPO, env=env,
                      timeout=1800)
        return rc == 0, out


COQPROJECT_HEADER = """-Q . Sylt
-arg -w -arg -notation-overridden,-deprecated-hint-without-locality,-deprecated-instance-without-locality
"""


def coq_files():
    out = []
    for root, dirs, files in os.walk(COQ):
        rel = os.path.relpath(root, COQ)
        if rel.split(os.sep)[0] in ("Extract", "scratch"):
            continue
        for f in files:
            if f.endswith(".v") and not f.startswith("."):
                out.append(os.path.normpath(os.path.join(rel, f)))
    return sorted(out)


def coq_makefile():
    """_CoqProject is generated: every .v under coq/ except Extract/ and scratch/."""
    mk = os.path.join(COQ, "Makefile")
    cp = os.path.join(COQ, "_CoqProject")
    want = COQPROJECT_HEADER + "\n".join(coq_files()) + "\n"
    have = open(cp).read() if os.path.exists(cp) else ""
    if want != have or not os.path.exists(mk):
        open(cp, "w").write(want)
        run(["coq_makefile", "-f", "_CoqProject", "-o", "Makefile"], cwd=COQ, check=True)


def coq_make(targets, timeout=1500, keep_going=False):
    """make the given .vo targets (full .vo build).  Returns (ok, output)."""
    with Lock("coq"):
        coq_makefile()
        rc, out = run(["timeout", str(timeout), "make", "-j%d" % NCPU] + (["-k"] if keep_going else []) + targets,
                      cwd=COQ, timeout=timeout + 30)
        return rc == 0, out


def coq_props(prop_id, timeout=1500):
    """Compile Props/<id>.v afresh (so that Print Assumptions output is produced) after its
    dependencies.  Returns dict(ok, output, theorems, assumptions, failed_theorem)."""
    src = os.path.join(COQ, "Props", prop_id + ".v")
    text = open(src, encoding="utf-8").read()
    theorems = re.findall(r"^(?:Theorem|Lemma)\s+([A-Za-z0-9_']+)", text, re.M)
    with Lock("coq"):
        coq_makefile()
        for ext in (".vo", ".vok", ".vos", ".glob"):
            try:
                os.remove(os.path.join(COQ, "Props", prop_id + ext))
            except FileNotFoundError:
                pass
        rc, out = run(["timeout", str(timeout), "make", "-j%d" % NCPU, "Props/%s.vo" % prop_id], cwd=COQ,
                      timeout=timeout + 30)
    res = {"ok": rc == 0, "output": out, "theorems": theorems, "assumptions": {}, "failed": None}
    if rc != 0:
        m = re.search(r'File "\./(.+?)", line (\d+)', out)
        if m:
            fpath, line = m.group(1), int(m.group(2))
            res["failed_file"] = fpath
            res["failed_line"] = line
            try:
                lines = open(os.path.join(COQ, fpath), encoding="utf-8").read().split("\n")
                for i in range(min(line, len(lines)) - 1, -1, -1):
                    mm = re.match(r"^(?:Theorem|Lemma|Example|Definition|Fixpoint)\s+([A-Za-z0-9_']+)", lines[i])
                    if mm:
                        res["failed"] = "%s:%s" % (fpath, mm.group(1))
                        break
            except Exception:
                pass
        if res["failed"] is None:
            res["failed"] = "Props/%s.v (build failed)" % prop_id
        return res
    # Print Assumptions output, in order of the commands in the file
    printed = re.findall(r"^Print Assumptions\s+([A-Za-z0-9_']+)\.", text, re.M)
    blocks = []
    cur = None
    for l in out.split("\n"):
        if l.startswith("Closed under the global context"):
            blocks.append([])
            cur = None
        elif l.startswith("Axioms:"):
            cur = []
            blocks.append(cur)
        elif cur is not None:
            if l.strip() == "" or l.startswith("COQ") or l.startswith("make"):
                cur = None
            else:
                cur.append(l.strip())
    for i, name in enumerate(printed):
        res["assumptions"][name] = blocks[i] if i < len(blocks) else ["<missing Print Assumptions output>"]
    return res


FORBIDDEN = re.compile(r"\b(Admitted|admit|Axiom|Axioms|Parameter|Parameters|Conjecture|Hypothesis|Variable|Variables)\b"
                       r"|Unset\s+Guard|bypass_check|type-in-type|impredicative-set|Admit Obligations")


def strip_coq_comments(t):
    out, depth, i = [], 0, 0
    while i < len(t):
        if t.startswith("(*", i):
            depth += 1
            i += 2
        elif t.startswith("*)", i) and depth:
            depth -= 1
            i += 2
        else:
            if depth == 0:
                out.append(t[i])
            elif t[i] == "\n":
                out.append("\n")
            i += 1
    return "".join(out)


def hygiene():
    """Scan the whole development for forbidden declarations.  `Variable`/`Hypothesis` are allowed only
    inside a Section."""
    bad = []
    for root, _, files in os.walk(COQ):
        if os.path.relpath(root, COQ).split(os.sep)[0] == "scratch":
            continue      # not part of the project (never compiled by the Makefile, git-ignored)
        for f in files:
            if not f.endswith(".v"):
                continue
            p = os.path.join(root, f)
            t = strip_coq_comments(open(p, encoding="utf-8").read())
            # strip string literals
            t = re.sub(r'"[^"]*"', '""', t)
            depth = 0
            for ln, line in enumerate(t.split("\n"), 1):
                if re.match(r"\s*Section\b", line):
                    depth += 1
                if re.match(r"\s*End\b", line) and depth:
                    depth -= 1
                for m in FORBIDDEN.finditer(line):
                    w = m.group(0)
                    if w in ("Variable", "Variables", "Hypothesis") and depth > 0:
                        continue
                    bad.append("%s:%d: %s" % (os.path.relpath(p, COQ), ln, w))
    for extra in ("_CoqProject",):
        t = open(os.path.join(COQ, extra)).read()
        if "type-in-type" in t or "impredicative-set" in t:
            bad.append("_CoqProject: forbidden flag")
    return bad


def build_ocaml(name, extract_v, driver_ml, modname, includes=()):
    """Extract (coqc on Extract/<extract_v>) and build ocaml/<driver_ml>; cached by content hash of the
    .vo files it depends on.  Returns (ok, path-to-binary, output)."""
    out_dir = os.path.join(BUILD, "ocaml", name)
    os.makedirs(out_dir, exist_ok=True)
    exe = os.path.join(out_dir, name + "_driver")
    h = hashlib.sha256()
    for root, _, files in sorted(os.walk(COQ)):
        for f in sorted(files):
            if f.endswith(".v"):
                h.update(open(os.path.join(root, f), "rb").read())
    h.update(open(os.path.join(VERIF, "ocaml", driver_ml), "rb").read())
    for inc in includes:
        h.update(open(os.path.join(VERIF, "ocaml", inc), "rb").read())
    stamp = os.path.join(out_dir, "stamp")
    if os.path.exists(exe) and os.path.exists(stamp) and open(stamp).read() == h.hexdigest():
        return True, exe, "cached"
    with Lock("ocaml-" + name):
        # the libraries the extraction file requires must be consistent with each other: (re)build them through make
        # (a library compiled against an older version of one of its dependencies makes coqc refuse the Require)
        req = []
        for m in re.finditer(r"From Sylt Require (?:Import|Export)?\s*([^.]*(?:\.[A-Za-z][^.]*)*?)\.\s*\n",
                             open(os.path.join(COQ, "Extract", extract_v)).read()):
            req += m.group(1).split()
        targets = sorted(set(m.replace(".", "/") + ".vo" for m in req if os.path.exists(os.path.join(COQ, m.replace(".", "/") + ".v"))))
        if targets:
            coq_make(targets)
        rc, out = run(["timeout", "600", "coqc", "-Q", COQ, "Sylt", os.path.join(COQ, "Extract", extract_v)],
                      cwd=out_dir, timeout=660)
        if rc != 0:
            return False, exe, out
        import shutil
        shutil.copy(os.path.join(VERIF, "ocaml", driver_ml), os.path.join(out_dir, driver_ml))
        inc_files = []
        for inc in includes:
            # shared OCaml sources are included textually after `open <ExtractedModule>`
            txt = "open %s\n" % (modname[0].upper() + modname[1:]) + open(os.path.join(VERIF, "ocaml", inc)).read()
            open(os.path.join(out_dir, inc), "w").write(txt)
            inc_files.append(inc)
        rc, out2 = run(["ocamlfind", "ocamlopt", "-package", "unix", "-linkpkg", "-O3", "-w", "-a", modname + ".mli", modname + ".ml"] + inc_files +
                       [driver_ml, "-o", exe], cwd=out_dir, timeout=900)
        if rc != 0:
            return False, exe, out + out2
        open(stamp, "w").write(h.hexdigest())
    return True, exe, out


# ------------------------------------------------------------------------------------------------
# running case files

def tmpfile(suffix=""):
    fd, p = tempfile.mkstemp(suffix=suffix, dir=os.path.join(BUILD, "tmp"))
    os.close(fd)
    return p


def _limit_memory():
    """child processes (harness, extracted drivers) get at most 10 GiB of address space: a case that needs more is a
    crash of that case, not an out-of-memory kill of the whole machine"""
    import resource
    lim = 10 << 30
    try:
        resource.setrlimit(resource.RLIMIT_AS, (lim, lim))
    except (ValueError, OSError):
        pass


def run_lines(cmd_prefix, cases, timeout_s=10, extra_env=None):
    """Run `cmd_prefix + [casefile]` and return one output line per case.  The harness exits with
    status 3 after printing TIMEOUT for a hanging case; resume after it."""
    if not cases:
        return []
    results = []
    start = 0
    while start < len(cases):
        path = tmpfile(".cases")
        with open(path, "w") as f:
            f.write("\n".join(cases[start:]) + "\n")
        cmd = list(cmd_prefix)
        try:
            p = subprocess.run(cmd + [path], stdout=subprocess.PIPE, stderr=subprocess.PIPE, preexec_fn=_limit_memory,
                               env=dict(os.environ, VERIF_SCRATCH=os.path.join(BUILD, "tmp"), **(extra_env or {})),
                               timeout=max(900, timeout_s * 4 + len(cases) * 2))
            out = p.stdout.decode("utf-8", "replace").split("\n")
            rc = p.returncode
        except subprocess.TimeoutExpired as e:
            out = (e.stdout or b"").decode("utf-8", "replace").split("\n")
            rc = 124
        finally:
            os.remove(path)
        if out and out[-1] == "":
            out.pop()
        got = out[:len(cases) - start]
        results.extend(got)
        start += len(got)
        if start < len(cases):
            if rc == 3 and got and got[-1] == "TIMEOUT":
                continue  # resume after the hanging case
            # crashed (stack overflow, abort): mark the case and go on
            results.append("CRASH rc=%s" % rc)
            start += 1
    return results


def sharded(fn, cases, nshards=None):
    """Run fn(list_of_cases) -> list_of_lines over shards in parallel threads, preserving order."""
    n = nshards or NCPU
    if len(cases) < 4 * n:
        return fn(cases)
    size = (len(cases) + n - 1) // n
    chunks = [cases[i:i + size] for i in range(0, len(cases), size)]
    with concurrent.futures.ThreadPoolExecutor(max_workers=n) as ex:
        outs = list(ex.map(fn, chunks))
    res = []
    for o in outs:
        res.extend(o)
    return res


def harness(sub, cases, timeout_s=40, debug=False, env=None, pre=()):
    binp = HARNESS_DBG if debug else HARNESS_BIN
    return sharded(lambda cs: run_lines([binp, "--timeout", str(timeout_s)] + list(pre) + [sub], cs, timeout_s, env),
                   cases)


def model(exe, args, cases):
    return sharded(lambda cs: run_lines([exe] + list(args), cs, 60), cases)


# ------------------------------------------------------------------------------------------------
# PRNG, shrinking

def rng(seed, salt=""):
    return random.Random("%s/%s" % (seed, salt))


def shrink_seq(seq, fails, max_rounds=200):
    """Greedy delta debugging on a sequence.  fails(list_of_candidates) -> list of bools (batched)."""
    cur = list(seq)
    rounds = 0
    chunk = max(1, len(cur) // 2)
    while chunk >= 1 and rounds < max_rounds:
        rounds += 1
        cands = []
        for i in range(0, len(cur), chunk):
            c = cur[:i] + cur[i + chunk:]
            if len(c) < len(cur):
                cands.append(c)
        if not cands:
            break
        res = fails(cands)
        for c, r in zip(cands, res):
            if r:
                cur = c
                break
        else:
            if chunk == 1:
                break
            chunk = max(1, chunk // 2)
            continue
        chunk = min(chunk, max(1, len(cur) // 2))
    return cur


# ------------------------------------------------------------------------------------------------
# evidence / replay / known findings

def write_replay(prop_id, payload):
    d = os.path.join(VERIF, "evidence", "replay")
    os.makedirs(d, exist_ok=True)
    blob = json.dumps(payload, indent=1, sort_keys=True, ensure_ascii=False)
    h = hashlib.sha256(blob.encode("utf-8")).hexdigest()[:12]
    p = os.path.join(d, "%s-%s.json" % (prop_id, h))
    open(p, "w", encoding="utf-8").write(blob + "\n")
    return p


def coqchk(prop_id):
    """coqchk -o on the compiled property file (re-checks it and every library it depends on with the
    independent checker and prints the axioms they rely on)."""
    import time as _t
    t0 = _t.time()
    cmd = ["coqchk", "-silent", "-o", "-Q", ".", "Sylt", "Sylt.Props.%s" % prop_id]
    with Lock("coq"):
        rc, out = run(cmd, cwd=COQ, timeout=3600)
    summary = out[out.find("CONTEXT SUMMARY"):] if "CONTEXT SUMMARY" in out else out[-1500:]
    axioms = ""
    import re as _re
    m = _re.search(r"\* Axioms:(.*?)\n\s*\n\* Constants", summary, _re.S)
    if m:
        axioms = " ".join(m.group(1).split())
    clean = all(("* %s: <none>" % k) in summary for k in (
        "Constants/Inductives relying on type-in-type", "Constants/Inductives relying on unsafe (co)fixpoints",
        "Inductives whose positivity is assumed"))
    ok = rc == 0 and axioms == "<none>" and clean
    return {"ok": ok, "cmd": " ".join(cmd), "axioms": axioms, "summary": " ".join(summary.split())[:1200],
            "output": out[-2000:], "wall_s": round(_t.time() - t0, 1)}


def known_findings(prop_id):
    p = os.path.join(VERIF, "known_findings.jsonl")
    out = []
    if os.path.exists(p):
        for l in open(p, encoding="utf-8"):
            l = l.strip()
            if not l or l.startswith("#"):
                continue
            e = json.loads(l)
            if e.get("property") == prop_id:
                out.append(e)
    return out


def write_evidence(prop_id, ev):
    p = os.path.join(VERIF, "evidence", prop_id + ".json")
    os.makedirs(os.path.dirname(p), exist_ok=True)
    with open(p, "w", encoding="utf-8") as f:
        json.dump(ev, f, indent=1, ensure_ascii=False)
        f.write("\n")
    return p
