(* C05: loop and entry-point rules, tuple shapes (the blob / enum rules are in ShapesDecl.v). *)
From Coq Require Import String List NArith ZArith PArith Bool Lia FMapPositive.
From Sylt Require Import Syntax.Resolved Types.TyGraph Types.Tc Types.Ctx Types.TcInv Types.Reject Types.Mismatch.
Import ListNotations.
Local Open Scope tc_scope.

(* ------------------------------------------------------------------ at_e / at_s in terms of ctx_at *)

Lemma at_ctx_at (Pe Ps : tctx -> Prop) :
  (forall C ctx, at_e Pe Ps C ctx <-> (if is_shole_e C then Ps (ctx_at_e C ctx) else Pe (ctx_at_e C ctx))) /\
  (forall C ctx, at_s Pe Ps C ctx <-> (if is_shole_s C then Ps (ctx_at_s C ctx) else Pe (ctx_at_s C ctx))).
Proof.
  assert (X : forall n,
    (forall C ctx, ectx_size C <= n ->
       (at_e Pe Ps C ctx <-> (if is_shole_e C then Ps (ctx_at_e C ctx) else Pe (ctx_at_e C ctx)))) /\
    (forall C ctx, sctx_size C <= n ->
       (at_s Pe Ps C ctx <-> (if is_shole_s C then Ps (ctx_at_s C ctx) else Pe (ctx_at_s C ctx))))).
  { induction n as [|n [IHe IHs]]; split; intros C ctx Hn.
    - destruct C; cbn in Hn; lia.
    - destruct C; cbn in Hn; lia.
    - destruct C; cbn [at_e is_shole_e ctx_at_e]; cbn [ectx_size] in Hn; try tauto;
        try (apply IHe; lia); try (apply IHs; lia).
    - destruct C; cbn [at_s is_shole_s ctx_at_s]; cbn [sctx_size] in Hn; try tauto;
        try (apply IHe; lia); try (apply IHs; lia). }
  split; intros C ctx; [apply (proj1 (X (ectx_size C)))|apply (proj2 (X (sctx_size C)))]; lia.
Qed.

(* ------------------------------------------------------------------ loop_ctx *)

Lemma inside_loop_enter_fn pure ctx : inside_loop (enter_fn pure ctx) = false.
Proof. unfold enter_fn, enter_pure. destruct pure; reflexivity. Qed.

(* loop_ctx: the checker's inside_loop flag at a position is true iff the position is inside the BODY of a
   loop OF THE SAME FUNCTION (true of the model since c3c408a; it was false before: the flag used to be
   inherited by nested functions).  The condition of a loop is not part of a loop body, not even of an
   enclosing loop's (in_own_loop resets at a condition, as the checker does since fcfe8d3). *)
Theorem loop_ctx :
  (forall C ctx, inside_loop (ctx_at_e C ctx) = in_own_loop_e C (inside_loop ctx)) /\
  (forall C ctx, inside_loop (ctx_at_s C ctx) = in_own_loop_s C (inside_loop ctx)).
Proof.
  assert (X : forall n,
    (forall C ctx, ectx_size C <= n -> inside_loop (ctx_at_e C ctx) = in_own_loop_e C (inside_loop ctx)) /\
    (forall C ctx, sctx_size C <= n -> inside_loop (ctx_at_s C ctx) = in_own_loop_s C (inside_loop ctx))).
  { induction n as [|n [IHe IHs]]; split; intros C ctx Hn.
    - destruct C; cbn in Hn; lia.
    - destruct C; cbn in Hn; lia.
    - destruct C; cbn [ctx_at_e in_own_loop_e]; cbn [ectx_size] in Hn; try reflexivity;
        try (apply IHe; lia); try (apply IHs; lia).
      all: try (rewrite IHs by lia; rewrite inside_loop_enter_fn; reflexivity).
    - destruct C; cbn [ctx_at_s in_own_loop_s]; cbn [sctx_size] in Hn; try reflexivity;
        try (apply IHe; lia); try (apply IHs; lia).
      all: try (rewrite IHs by lia; reflexivity); try (rewrite IHe by lia; reflexivity). }
  split; intros C ctx; [apply (proj1 (X (ectx_size C)))|apply (proj2 (X (sctx_size C)))]; lia.
Qed.

Theorem pure_ctx :
  (forall C ctx, inside_pure (ctx_at_e C ctx) = through_pure_e C || inside_pure ctx) /\
  (forall C ctx, inside_pure (ctx_at_s C ctx) = through_pure_s C || inside_pure ctx).
Proof.
  assert (X : forall n,
    (forall C ctx, ectx_size C <= n -> inside_pure (ctx_at_e C ctx) = through_pure_e C || inside_pure ctx) /\
    (forall C ctx, sctx_size C <= n -> inside_pure (ctx_at_s C ctx) = through_pure_s C || inside_pure ctx)).
  { induction n as [|n [IHe IHs]]; split; intros C ctx Hn.
    - destruct C; cbn in Hn; lia.
    - destruct C; cbn in Hn; lia.
    - destruct C; cbn [ctx_at_e through_pure_e]; cbn [ectx_size] in Hn; try reflexivity;
        try (apply IHe; lia); try (apply IHs; lia).
      all: try (rewrite IHs by lia; unfold enter_fn, enter_pure; destruct pure, (through_pure_s c), (inside_pure ctx);
                reflexivity).
    - destruct C; cbn [ctx_at_s through_pure_s]; cbn [sctx_size] in Hn; try reflexivity;
        try (apply IHe; lia); try (apply IHs; lia).
      all: try (rewrite IHs by lia; reflexivity); try (rewrite IHe by lia; reflexivity). }
  split; intros C ctx; [apply (proj1 (X (ectx_size C)))|apply (proj2 (X (sctx_size C)))]; lia.
Qed.

(* `break` / `continue`: rejected exactly when the flag is off *)
Lemma break_local kinds G sp f ctx s (st : stmt) :
  st = SBreak sp \/ st = SContinue sp ->
  inside_loop ctx = false -> notok (r_stmt (afix kinds G f) st ctx s).
Proof.
  intros [-> | ->] L; (destruct f as [|f]; [apply notok_fuel|]);
    cbn [afix astep r_stmt]; unfold stmt_body; rewrite L; apply notok_fail.
Qed.

Lemma break_accepted kinds G sp f ctx s (st : stmt) :
  st = SBreak sp \/ st = SContinue sp ->
  inside_loop ctx = true -> r_stmt (afix kinds G (S f)) st ctx s = Ok (None, s).
Proof. intros [-> | ->] L; cbn [afix astep r_stmt]; unfold stmt_body; rewrite L; reflexivity. Qed.

(* break / continue that is not inside a loop of the same function is rejected, wherever it stands *)
Theorem break_outside_loop_rejected kinds G (PG : gpres G) (he : expr) (st : stmt) sp :
  st = SBreak sp \/ st = SContinue sp ->
  forall f,
    (forall C ctx s, wf s -> is_shole_e C = true -> in_own_loop_e C (inside_loop ctx) = false ->
                     notok (r_expr (afix kinds G f) (plug_e he st C) ctx s)) /\
    (forall C ctx s, wf s -> is_shole_s C = true -> in_own_loop_s C (inside_loop ctx) = false ->
                     notok (r_stmt (afix kinds G f) (plug_s he st C) ctx s)).
Proof.
  intros Hst f.
  destruct (placement_gen kinds G PG he st f) as [Pe Ps].
  destruct (at_ctx_at (rej_e kinds G he) (rej_s kinds G st)) as [Ae As].
  destruct loop_ctx as [Le Ls].
  split; intros C ctx s W Hh Hl.
  - apply Pe; [assumption|]. apply Ae. rewrite Hh. intros f' s' _. apply (break_local kinds G sp); [assumption|].
    rewrite Le. assumption.
  - apply Ps; [assumption|]. apply As. rewrite Hh. intros f' s' _. apply (break_local kinds G sp); [assumption|].
    rewrite Ls. assumption.
Qed.

(* ------------------------------------------------------------------ start_required *)

(* no global variable called `start`: rejected *)
Theorem start_required fuel vars stmts :
  find_start vars = None -> typecheck fuel (mkResolved vars stmts) <> Ok tt.
Proof.
  intros H. apply typecheck_notok. intros s W. unfold solve. rewrite H.
  apply bind_notok_r. intros ? ?. apply bind_notok_r. intros ? ?. apply notok_fail.
Qed.

(* a `start` whose type is known not to be a function of no arguments: rejected (the unification with
   `fn -> void` at the end of solve fails) *)
Lemma start_wrong_type kinds g R stmts v s :
  wf s -> apres R ->
  (forall s0 u s', wf s0 -> iterM (fun st => outer_statement kinds (gfix g) R st ctx_new) stmts s0 = Ok (u, s') ->
                forall t, var_ty kinds (v_id v) s' = Ok (t, s') ->
                exists h, head s' t = Some h /\ is_unknown h = false /\ same_shape h (HFn [] 1%positive PUndefined) = false) ->
  notok (solve kinds (gfix g) R stmts (Some v) s).
Proof.
  intros W PR H. unfold solve.
  apply bind_cases; [apply pres_iterM; intros; apply pres_outer_statement; [apply gfix_pres|assumption]|assumption|].
  intros u0 s0 _ W0 _.
  apply bind_cases; [apply pres_iterM; intros; apply pres_outer_statement; [apply gfix_pres|assumption]|assumption|].
  intros u s1 H1 W1 E1.
  apply bind_cases; [apply pres_push|assumption|]. intros vd s2 H2 W2 E2.
  apply bind_cases; [apply pres_push|assumption|]. intros st s3 H3 W3 E3.
  destruct (push_spec _ _ _ _ W2 H3) as (_ & _ & Hst).
  unfold notok, bind at 1. destruct (var_ty kinds (v_id v) s3) as [[t s4]| | |] eqn:Ev; try discriminate.
  assert (s4 = s3).
  { unfold var_ty in Ev. destruct (PositiveMap.find _ kinds); [|discriminate]. now injection Ev. }
  subst s4.
  assert (Ev1 : var_ty kinds (v_id v) s1 = Ok (t, s1)).
  { unfold var_ty in *. destruct (PositiveMap.find _ kinds); [|discriminate]. injection Ev as <-. reflexivity. }
  destruct (H _ _ _ W0 H1 _ Ev1) as (h & Hh & Uh & Sh).
  assert (E13 : ext s1 s3) by (eapply ext_trans; eassumption).
  destruct E13 as (_ & _ & _ & E4 & _). destruct (E4 _ _ Hh Uh) as (h' & Hh' & Sh').
  unfold or_else_err.
  assert (N : notok ((unify (gfix g) (v_def v) t st ;;; ret tt) s3)).
  { apply bind_notok_l. apply (unify_rejects g _ t st s3 h' _ W3 Hh' Hst); [eapply same_shape_known; eassumption|reflexivity|].
    destruct (same_shape h' (HFn [] vd PUndefined)) eqn:X; [|reflexivity].
    rewrite <- Sh. symmetry. eapply same_shape_trans; [exact Sh'|].
    destruct h'; cbn in X |- *; try discriminate; assumption. }
  destruct ((unify (gfix g) (v_def v) t st ;;; ret tt) s3) as [[? ?]| | |] eqn:Eu; try discriminate.
  exfalso. eapply N. reflexivity.
Qed.
