(* C19 -- Composite values compare, order and combine structurally.
   Only pinned statements, `exact`, vm_compute for table side conditions / examples / refutation
   witnesses, and Print Assumptions.

   The theorems are about Sem/Runtime.v, the model of preamble.lua's metamethods under Lua 5.3 dispatch
   (tied to the text of preamble.lua by the correspondence of tools/props/c19.py); the "structural
   definitions" seq_t / lt_t / pw2 / pw1 / pw_scalar / pw_add are in Sem/Containers.v and are defined by
   recursion on the TYPE of the operands, so every theorem quantifies over all (nested) types.
   Numbers are exact rationals: NaN (for which == is not reflexive) is outside the model. *)
From Coq Require Import String List ZArith QArith Bool.
From Sylt Require Import Lua.LuaNum Sem.Values Sem.Runtime Sem.Containers Sem.RuntimeLaws Sem.DocRuntime Gen.GenPreamble.
Import ListNotations.
Local Open Scope string_scope.

(* Obligation 1 (table tie): lua.rs emits the operators as documented: `+` as __ADD(a, b), `- * /` and
   the comparisons as the Lua operators (hence through the metamethods), `!=` as `~=`, unary minus as (-a). *)
Theorem C19_op_templates : ops_eqb doc_ops GenPreamble.op_templates = true.
Proof. vm_compute. reflexivity. Qed.

(* Obligation 2 (table tie): every global of preamble.lua is the reviewed one (name, shape, text digest). *)
Theorem C19_preamble_doc : pdoc_eqb doc_preamble GenPreamble.preamble_defs = true.
Proof. vm_compute. reflexivity. Qed.

(* == on values of one type decides structural equality: tuples, lists, blobs (field order irrelevant),
   enum values, at any nesting depth *)
Theorem C19_eq_struct : forall t a b, vty t a -> vty t b -> (rt_eq a b = true <-> seq_t t a b).
Proof. exact eq_struct. Qed.

Theorem C19_eq_refl : forall t a, vty t a -> rt_eq a a = true.
Proof. exact eq_refl_rt. Qed.

Theorem C19_eq_sym : forall t a b, vty t a -> vty t b -> rt_eq a b = rt_eq b a.
Proof. exact eq_sym_rt. Qed.

Theorem C19_eq_trans : forall t a b c, vty t a -> vty t b -> vty t c ->
  rt_eq a b = true -> rt_eq b c = true -> rt_eq a c = true.
Proof. exact eq_trans_rt. Qed.

(* != is the complement of == *)
Theorem C19_neq_compl : forall a b, rt_neq a b = negb (rt_eq a b).
Proof. exact neq_compl. Qed.

Theorem C19_neq_struct : forall t a b, vty t a -> vty t b -> (rt_neq a b = true <-> ~ seq_t t a b).
Proof. exact neq_struct. Qed.

(* the specification order (numbers by value, strings by bytes, tuples lexicographically) is a strict total
   order compatible with structural equality, at every ordered type *)
Theorem C19_order_spec : forall t, ord_ty t = true -> ord_props t.
Proof. exact lt_strict_total_order. Qed.

(* < never fails on operands of one ordered type and is that order; in particular < on tuples is the
   lexicographic order induced by the component orders (lt_t at TTuple is lex3) *)
Theorem C19_lt_lex : forall t, ord_ty t = true -> forall a b, vty t a -> vty t b ->
  exists c, rt_lt a b = Ok c /\ (c = true <-> lt_t t a b).
Proof. exact lt_struct. Qed.

Theorem C19_le_struct : forall t, ord_ty t = true -> forall a b, vty t a -> vty t b ->
  exists c, rt_le a b = Ok c /\ (c = true <-> lt_t t a b \/ seq_t t a b).
Proof. exact le_struct. Qed.

Theorem C19_le_iff : forall t a b, ord_ty t = true -> vty t a -> vty t b ->
  (rt_le a b = Ok true <-> rt_lt a b = Ok true \/ rt_eq a b = true).
Proof. exact le_iff. Qed.

Theorem C19_gt_flip : forall a b, rt_gt a b = rt_lt b a.
Proof. exact gt_flip. Qed.

Theorem C19_ge_flip : forall a b, rt_ge a b = rt_le b a.
Proof. exact ge_flip. Qed.

Theorem C19_lt_irrefl : forall t a, ord_ty t = true -> vty t a -> rt_lt a a = Ok false.
Proof. exact lt_irrefl_rt. Qed.

Theorem C19_lt_trans : forall t a b c, ord_ty t = true -> vty t a -> vty t b -> vty t c ->
  rt_lt a b = Ok true -> rt_lt b c = Ok true -> rt_lt a c = Ok true.
Proof. exact lt_trans_rt. Qed.

(* exactly one of a < b, a == b, b < a *)
Theorem C19_lt_trichotomy : forall t a b, ord_ty t = true -> vty t a -> vty t b ->
  (rt_lt a b = Ok true /\ rt_eq a b = false /\ rt_lt b a = Ok false) \/
  (rt_lt a b = Ok false /\ rt_eq a b = true /\ rt_lt b a = Ok false) \/
  (rt_lt a b = Ok false /\ rt_eq a b = false /\ rt_lt b a = Ok true).
Proof. exact lt_trichotomy_rt. Qed.

(* the four comparison operators describe one order: a <= b exactly when not b < a *)
Theorem C19_le_not_gt : forall t a b, ord_ty t = true -> vty t a -> vty t b ->
  exists c, rt_lt b a = Ok c /\ rt_le a b = Ok (negb c).
Proof. exact le_not_gt. Qed.

(* the checker also lets < and > compare an int with a float: by mathematical value *)
Theorem C19_lt_int_float : forall x q, rt_lt (VInt x) (VFloat q) = Ok (q_ltb (x # 1) q) /\
                                       rt_lt (VFloat q) (VInt x) = Ok (q_ltb q (x # 1)).
Proof. exact lt_int_float. Qed.

(* + - * on numbers and nested tuples of numbers, / of a tuple by a tuple: element-wise
   (ints stay ints under + - *; / gives floats; a zero divisor is outside the number model) *)
Theorem C19_arith_pointwise : forall o t, num_ty t = true -> forall a b, vty t a -> vty t b ->
  rt_arith o a b = pw2 (spec_fi o) (spec_ff o) t a b.
Proof. exact arith_pointwise. Qed.

Theorem C19_arith_closed : forall o, o <> OpDiv -> forall t, num_ty t = true -> forall a b, vty t a -> vty t b ->
  exists r, rt_arith o a b = Ok r /\ vty t r.
Proof. exact arith_closed. Qed.

(* / of a (nested) tuple by a number (int or float) of value dq *)
Theorem C19_div_scalar : forall t, num_ty t = true -> forall a d dq, vty t a -> num_q d = Some dq ->
  rt_div a d = pw_scalar qs_div t a dq.
Proof. exact div_scalar_pointwise. Qed.

(* unary minus (admitted by the type checker on (nested) tuples of numbers since /repo 612fb00) *)
Theorem C19_neg_pointwise : forall t, num_ty t = true -> forall a, vty t a -> rt_neg a = pw1 Z.opp Qopp t a.
Proof. exact neg_pointwise. Qed.

(* + on strings concatenates *)
Theorem C19_add_str_concat : forall s u, rt_add (VStr s) (VStr u) = Ok (VStr (s ++ u)).
Proof. exact add_str_concat. Qed.

(* + on everything the type checker's `add` admits -- numbers, strings and (nested) tuples of them -- is
   element-wise, strings concatenating also INSIDE tuples (since /repo a9ac36e; before, this statement was
   refuted by ("a", 1) + ("b", 2)) *)
Theorem C19_add_pointwise : forall t, add_ty t = true -> forall a b, vty t a -> vty t b ->
  rt_add a b = pw_add t a b.
Proof. exact add_pointwise. Qed.

(* THE TYPING SIDE ("all pairs of them of equal type"): `admits o t` is the class of operand types typechecker.rs
   admits for `a o b` (equ: every type; cmp: int, float, str and tuples of them; add: the same; sub mul div:
   int, float and tuples of them -- a reviewed predicate, compared with the real checker's accept/reject by
   tools/props/c19.py).  For every operator, every admitted type and every two values of that type the
   operator returns a value of the result type; the only exclusion is `/` with a zero component in the divisor
   (outside the number model), and even then it is never a run-time error. *)
Theorem C19_bop_defined : forall o t a b, admits o t = true -> vty t a -> vty t b ->
  rt_bop o a b <> Err /\
  ((o <> BDiv \/ nonzero t b) -> exists r, rt_bop o a b = Ok r /\ vty (res_ty o t) r).
Proof. exact bop_defined. Qed.

Theorem C19_neg_closed : forall t, num_ty t = true -> forall a, vty t a -> exists r, rt_neg a = Ok r /\ vty t r.
Proof. exact neg_closed. Qed.

(* Non-vacuity: a nested type with an enum, a list and tuples has values, and the operators compute on them. *)
Example C19_example_typed :
  vty (TTuple [TInt; TTuple [TStr; TFloat]; TList (TMaybe TInt)])
      (VTuple [VInt 1; VTuple [VStr "a, b"; VFloat (1 # 2)]; VList [VVariant "Just" (VInt 2); VVariant "None" VNil]]).
Proof. simpl. repeat split; eauto. exists (1 # 2). split; reflexivity. Qed.

Example C19_example_ops :
  rt_lt (VTuple [VInt 1; VTuple [VStr "a"; VFloat (1 # 2)]]) (VTuple [VInt 1; VTuple [VStr "a"; VFloat (2 # 3)]]) = Ok true /\
  rt_sub (VTuple [VInt 1; VTuple [VFloat (5 # 2)]]) (VTuple [VInt 3; VTuple [VFloat (1 # 2)]])
    = Ok (VTuple [VInt (-2); VTuple [VFloat (2 # 1)]]) /\
  rt_div (VTuple [VInt 1; VInt 4]) (VInt 2) = Ok (VTuple [VFloat (1 # 2); VFloat (2 # 1)]) /\
  rt_tostring (VTuple [VFloat (1 # 2); VFloat (2 # 1); VInt 2]) = "(0.5, 2.0, 2)" /\
  rt_add (VTuple [VStr "a"; VInt 1]) (VTuple [VStr "b"; VInt 2]) = Ok (VTuple [VStr "ab"; VInt 3]) /\
  rt_eq (VBlob [("x", VInt 1); ("y", VStr "s")]) (VBlob [("y", VStr "s"); ("x", VInt 1)]) = true.
Proof. vm_compute. repeat split; reflexivity. Qed.

Print Assumptions C19_op_templates.
Print Assumptions C19_preamble_doc.
Print Assumptions C19_eq_struct.
Print Assumptions C19_eq_refl.
Print Assumptions C19_eq_sym.
Print Assumptions C19_eq_trans.
Print Assumptions C19_neq_compl.
Print Assumptions C19_neq_struct.
Print Assumptions C19_order_spec.
Print Assumptions C19_lt_lex.
Print Assumptions C19_le_struct.
Print Assumptions C19_le_iff.
Print Assumptions C19_gt_flip.
Print Assumptions C19_ge_flip.
Print Assumptions C19_lt_irrefl.
Print Assumptions C19_lt_trans.
Print Assumptions C19_lt_trichotomy.
Print Assumptions C19_le_not_gt.
Print Assumptions C19_lt_int_float.
Print Assumptions C19_arith_pointwise.
Print Assumptions C19_arith_closed.
Print Assumptions C19_div_scalar.
Print Assumptions C19_neg_pointwise.
Print Assumptions C19_add_str_concat.
Print Assumptions C19_add_pointwise.
Print Assumptions C19_bop_defined.
Print Assumptions C19_neg_closed.
