(* SCRATCH (not part of the project build): the model of the proposed __KEY(k) of
   corpus/c18/suggested_key_encoding.diff and its injectivity on ALL admitted key types (ints, floats,
   strings and nested tuples of them).  Compile with
       coqc -Q /verif/coq Sylt coq/scratch/key_encoding.v
   When the patch is applied to /repo: move rt_key into Sem/Runtime.v (instantiating fkey with LuaNum's
   "%.17g" formatter, see corpus/c18/README.md), replace `rt_tostring k` by `rt_key k` in rt_dict_update /
   rt_dict_remove / rt_dict_get / rt_set_add / rt_set_remove / rt_set_contains and `ts` in
   ContainerLaws.Keyed, and use key_inj_all below as the `key_inj` hypothesis of the history theorems.

   The float leaf: __KEY prints a float with string.format("%.17g").  That 17 significant digits identify an
   IEEE double is a fact about doubles; the model's floats are exact rationals, for which no fixed number of
   digits is injective.  So the text function for floats is a section variable `fkey` with the two properties
   that are used: injective (on the floats that occur) and free of ';'. *)
From Coq Require Import String Ascii List NArith ZArith QArith Bool Lia.
From Sylt Require Import Lua.LuaNum Sem.Values Sem.Runtime Sem.Containers Sem.RuntimeLaws Sem.ContainerLaws.
Import ListNotations.
Local Close Scope Q_scope.
Local Open Scope string_scope.

Section KeyEncoding.
  Variable fkey : Q -> string.

  Fixpoint no_semi (s : string) : bool :=
    match s with
    | EmptyString => true
    | String c s' => negb (N.eqb (N_of_ascii c) 59) && no_semi s'
    end.

  Hypothesis fkey_inj : forall p q, q_wf p -> q_wf q -> fkey p = fkey q -> p = q.
  Hypothesis fkey_no_semi : forall q, no_semi (fkey q) = true.

  Fixpoint sconcat (l : list string) : string :=
    match l with [] => "" | x :: l' => x ++ sconcat l' end.

  (* function __KEY(k) *)
  Fixpoint rt_key (k : value) : string :=
    match k with
    | VStr s => "s" ++ z_to_dec (Z.of_nat (String.length s)) ++ ":" ++ s         (* "s" .. #k .. ":" .. k *)
    | VInt z => "i" ++ z_to_dec z ++ ";"                                          (* "i" .. format("%d", k) .. ";" *)
    | VFloat q => "n" ++ fkey q ++ ";"                                            (* "n" .. format("%.17g", k) .. ";" *)
    | VTuple vs => "(" ++ sconcat (map (fun x => rt_key x) vs) ++ ")"             (* "(" .. __KEY(k[1]) .. ... .. ")" *)
    | _ => "o" ++ rt_tostring k
    end.

  (* the admitted key types *)
  Fixpoint key_ty (t : ty) : bool :=
    match t with
    | TInt | TFloat | TStr => true
    | TTuple ts => forallb key_ty ts
    | _ => false
    end.

  Lemma no_semi_split : forall a a' r r', no_semi a = true -> no_semi a' = true ->
    a ++ String ";" r = a' ++ String ";" r' -> a = a' /\ r = r'.
  Proof.
    induction a as [|c a IH]; intros [|c' a'] r r' Ha Ha' E; simpl in *.
    - inversion E. auto.
    - inversion E; subst c'. simpl in Ha'. discriminate.
    - inversion E; subst c. simpl in Ha. discriminate.
    - inversion E; subst c'. apply andb_true_iff in Ha. apply andb_true_iff in Ha'.
      destruct (IH a' r r') as [-> ->]; tauto.
  Qed.

  Lemma same_length_split : forall a a' r r' : string, String.length a = String.length a' ->
    a ++ r = a' ++ r' -> a = a' /\ r = r'.
  Proof.
    induction a as [|c a IH]; intros [|c' a'] r r' L E; simpl in *; try discriminate.
    - auto.
    - inversion E; subst c'. destruct (IH a' r r') as [-> ->]; auto.
  Qed.

  (* the encoding is prefix-free at every key type: whatever follows, the key can be read back *)
  Definition key_at (t : ty) : Prop :=
    forall a b r r', vty t a -> vty t b -> rt_key a ++ r = rt_key b ++ r' -> a = b /\ r = r'.

  Lemma sconcat_inj : forall ts, Forall key_at ts ->
    forall xs ys r r', all2 vty ts xs -> all2 vty ts ys ->
    sconcat (map rt_key xs) ++ r = sconcat (map rt_key ys) ++ r' -> xs = ys /\ r = r'.
  Proof.
    induction 1 as [|t ts Ht _ IH]; intros [|x xs] [|y ys] r r'; simpl; try tauto.
    intros [Tx Txs] [Ty Tys] E. rewrite !string_app_assoc in E.
    destruct (Ht x y _ _ Tx Ty E) as [-> E2]. destruct (IH xs ys r r' Txs Tys E2) as [-> ->]. auto.
  Qed.

  Theorem key_prefix_free : forall t, key_ty t = true -> key_at t.
  Proof.
    induction t using ty_ind'; simpl; try discriminate; intros Hk a b r r' Ha Hb E.
    - (* int *) destruct Ha as [x ->], Hb as [y ->]. cbn [rt_key] in E. cbn [append] in E. inversion E as [E1].
      rewrite !string_app_assoc in E1.
      destruct (dec_prefix_unique _ _ _ _ (z_to_dec_dec x) (z_to_dec_dec y)
                  (eq_refl : ok_rest (";" ++ r)) (eq_refl : ok_rest (";" ++ r')) E1) as [E2 E3].
      apply z_to_dec_inj in E2. subst. inversion E3. auto.
    - (* float *) destruct Ha as [p [-> Wp]], Hb as [q [-> Wq]]. cbn [rt_key] in E. cbn [append] in E.
      inversion E as [E1]. rewrite !string_app_assoc in E1. cbn [append] in E1.
      destruct (no_semi_split _ _ _ _ (fkey_no_semi p) (fkey_no_semi q) E1) as [E2 ->].
      rewrite (fkey_inj p q Wp Wq E2). auto.
    - (* str *) destruct Ha as [s ->], Hb as [u ->]. cbn [rt_key] in E. cbn [append] in E. inversion E as [E1].
      rewrite !string_app_assoc in E1.
      destruct (dec_prefix_unique _ _ _ _ (z_to_dec_dec _) (z_to_dec_dec _)
                  (eq_refl : ok_rest (":" ++ s ++ r)) (eq_refl : ok_rest (":" ++ u ++ r')) E1) as [E2 E3].
      apply z_to_dec_inj in E2. apply Nat2Z.inj in E2. cbn [append] in E3. inversion E3 as [E4].
      destruct (same_length_split _ _ _ _ E2 E4) as [-> ->]. auto.
    - (* tuple *) match goal with H0 : Forall _ ?l |- _ => rename l into tys end.
      destruct a; try contradiction. destruct b; try contradiction.
      cbn [rt_key] in E. cbn [append] in E. inversion E as [E1]. rewrite !string_app_assoc in E1.
      assert (HK : Forall key_at tys).
      { rewrite forallb_forall in Hk. rewrite Forall_forall in *. auto. }
      change (map (fun x => rt_key x) vs) with (map rt_key vs) in E1.
      change (map (fun x => rt_key x) vs0) with (map rt_key vs0) in E1.
      destruct (sconcat_inj tys HK vs vs0 _ _ Ha Hb E1) as [-> E2]. cbn [append] in E2. inversion E2. auto.
  Qed.

  (* INJECTIVITY on all admitted key types *)
  Theorem key_inj_all : forall t a b, key_ty t = true -> vty t a -> vty t b -> rt_key a = rt_key b -> a = b.
  Proof.
    intros t a b Hk Ha Hb E.
    destruct (key_prefix_free t Hk a b "" "" Ha Hb) as [-> _]; [|reflexivity].
    rewrite !string_app_nil_r. exact E.
  Qed.

  (* the two collisions of the open finding are gone (the tuple one for every fkey) *)
  Example key_tuple_strings :
    rt_key (VTuple [VStr "a, b"; VStr "c"]) <> rt_key (VTuple [VStr "a"; VStr "b, c"]).
  Proof. vm_compute. discriminate. Qed.
End KeyEncoding.

(* for key types without floats no assumption is left *)
Fixpoint key_ty_nofloat (t : ty) : bool :=
  match t with
  | TInt | TStr => true
  | TTuple ts => forallb key_ty_nofloat ts
  | _ => false
  end.

Lemma vty_nofloat_key : forall f g t, key_ty_nofloat t = true -> forall a, vty t a -> rt_key f a = rt_key g a.
Proof.
  intros f g. induction t using ty_ind'; simpl; try discriminate; intros Hk a Ha.
  - destruct Ha as [x ->]. reflexivity.
  - destruct Ha as [x ->]. reflexivity.
  - destruct a; try contradiction. cbn [rt_key].
    assert (M : map (fun x => rt_key f x) vs = map (fun x => rt_key g x) vs); [|rewrite M; reflexivity].
    rewrite forallb_forall in Hk. rewrite Forall_forall in H. simpl in Ha.
    assert (X : forall t, In t ts -> forall a, vty t a -> rt_key f a = rt_key g a) by (intros t0 Hin a0 Ta; apply (H t0 Hin (Hk t0 Hin) a0 Ta)).
    clear H Hk. revert vs Ha. induction ts as [|t ts IH]; intros [|x xs]; simpl; try tauto.
    intros [Tx Txs]. f_equal.
    + apply (X t (or_introl eq_refl) x Tx).
    + apply IH; [|exact Txs]. intros t0 Hin a0 Ta. exact (X t0 (or_intror Hin) a0 Ta).
Qed.

Lemma key_ty_nofloat_key_ty : forall t, key_ty_nofloat t = true -> key_ty t = true.
Proof.
  induction t using ty_ind'; simpl; try discriminate; auto.
  intros Hk. rewrite forallb_forall in *. rewrite Forall_forall in H. auto.
Qed.

(* a float text function that is trivially injective and ';'-free is not needed: any fkey will do *)
Theorem key_inj_nofloat : forall fkey t a b, key_ty_nofloat t = true -> vty t a -> vty t b ->
  rt_key fkey a = rt_key fkey b -> a = b.
Proof.
  intros fkey t a b Hk Ha Hb E.
  (* use the generic theorem with a float text that satisfies the hypotheses on the (absent) floats:
     numerator "/" denominator *)
  set (g := fun q : Q => (z_to_dec (Qnum q) ++ "/" ++ z_to_dec (Zpos (Qden q)))%string).
  rewrite (vty_nofloat_key fkey g t Hk a Ha), (vty_nofloat_key fkey g t Hk b Hb) in E.
  revert E. clear fkey. revert t a b Hk Ha Hb.
  assert (G1 : forall q, no_semi (g q) = true).
  { intros q. unfold g.
    assert (D : forall s, looks_like_int s = true -> no_semi s = true).
    { induction s as [|c s IH]; [reflexivity|]. rewrite looks_like_int_cons. intros X. apply andb_true_iff in X.
      destruct X as [X1 X2]. simpl. rewrite (IH X2), andb_true_r. unfold dec_char in X1.
      destruct (N.eqb_spec (N_of_ascii c) 59) as [E|E]; [|reflexivity]. rewrite E in X1. discriminate. }
    assert (A : forall s u, no_semi s = true -> no_semi u = true -> no_semi (s ++ u) = true).
    { induction s; simpl; intros u X Y; [exact Y|]. apply andb_true_iff in X. destruct X as [X1 X2].
      rewrite X1, (IHs u X2 Y). reflexivity. }
    apply A; [apply D, z_to_dec_dec | apply (A "/"%string); [reflexivity | apply D, z_to_dec_dec]]. }
  assert (G2 : forall p q, q_wf p -> q_wf q -> g p = g q -> p = q).
  { intros [n d] [n' d'] _ _. unfold g. simpl Qnum. simpl Qden. intros E.
    destruct (dec_prefix_unique _ _ _ _ (z_to_dec_dec n) (z_to_dec_dec n')
                (eq_refl : ok_rest ("/" ++ z_to_dec (Zpos d))) (eq_refl : ok_rest ("/" ++ z_to_dec (Zpos d'))) E) as [E1 E2].
    apply z_to_dec_inj in E1. cbn [append] in E2. inversion E2 as [E3].
    change (z_to_dec (Zpos d) = z_to_dec (Zpos d')) in E3. apply z_to_dec_inj in E3.
    inversion E3. subst. reflexivity. }
  intros t a b Hk Ha Hb E. apply (key_inj_all g G2 G1 t a b (key_ty_nofloat_key_ty t Hk) Ha Hb E).
Qed.

Print Assumptions key_inj_all.
Print Assumptions key_inj_nofloat.
