(* Generic facts about the fuelled parser model: results that are not [Fuel] are stable under more fuel
   (one lemma, [run_mono], by induction on programs), and how [run] goes through [ptry]. *)
From Coq Require Import List NArith Bool Arith Lia.
From Sylt Require Import Syntax.Ast Syntax.Tok Parse.PrecTable Parse.Parser.
Import ListNotations.

Lemma go_S T f q : go T (S f) q = run (go T f) (step T q).
Proof. reflexivity. Qed.

Lemma run_mono {A : Type} (r1 r2 : req -> res out) :
  (forall q, r1 q <> Fuel -> r2 q = r1 q) ->
  forall m : prog A, run r1 m <> Fuel -> run r2 m = run r1 m.
Proof.
  intros M m. induction m as [r|q kOk IHok kErr IHerr]; intros H.
  - reflexivity.
  - cbn [run] in *. destruct (r1 q) as [o| |] eqn:E.
    + rewrite (M q) by (rewrite E; discriminate). rewrite E. apply IHok. exact H.
    + rewrite (M q) by (rewrite E; discriminate). rewrite E. apply IHerr. exact H.
    + exfalso. apply H. reflexivity.
Qed.

Lemma go_mono T f : forall q, go T f q <> Fuel -> go T (S f) q = go T f q.
Proof.
  induction f as [|f IH]; intros q H.
  - exfalso. apply H. reflexivity.
  - rewrite go_S. rewrite (go_S T f q). apply run_mono; [exact IH|]. rewrite <- go_S. exact H.
Qed.

Lemma go_mono_le T f g q : f <= g -> go T f q <> Fuel -> go T g q = go T f q.
Proof.
  induction 1 as [|g Hle IH]; intros H; [reflexivity|].
  rewrite go_mono; [apply IH; exact H|]. rewrite IH by exact H. exact H.
Qed.

Lemma go_ok_le T f g q x : f <= g -> go T f q = Ok x -> go T g q = Ok x.
Proof. intros Hle H. rewrite (go_mono_le T f g q Hle); [exact H|]. rewrite H. discriminate. Qed.

Lemma go_err_le T f g q : f <= g -> go T f q = Err -> go T g q = Err.
Proof. intros Hle H. rewrite (go_mono_le T f g q Hle); [exact H|]. rewrite H. discriminate. Qed.

Lemma run_ptry {A B : Type} (rec : req -> res out) (m : prog A) (k : A -> prog B) (e : prog B) :
  run rec (ptry m k e) =
  match run rec m with
  | Ok a => run rec (k a)
  | Err => run rec e
  | Fuel => Fuel
  end.
Proof.
  induction m as [r|q kOk IHok kErr IHerr].
  - destruct r; reflexivity.
  - cbn [ptry run]. destruct (rec q); auto.
Qed.

Lemma run_call (rec : req -> res out) (q : req) : run rec (call q) = rec q.
Proof. unfold call. cbn [run]. destruct (rec q); reflexivity. Qed.

Lemma run_ret {A : Type} (rec : req -> res out) (r : res A) : run rec (Ret r) = r.
Proof. reflexivity. Qed.
