(* Extraction of the driver model.  Directives: only those of ExtrOcamlBasic and ExtrOcamlString. *)
From Coq Require Import Extraction ExtrOcamlBasic ExtrOcamlString.
From Sylt Require Import Driver.DriverModel Gen.GenDriver.
Extraction Language OCaml.
Extraction "drivermodel.ml" DriverModel.main GenDriver.gen_strings.
