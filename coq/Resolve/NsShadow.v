(* `no_ns_shadow`: a computable condition under which looking the root of `x.f` up in the namespace
   table first (what the code does) and looking it up in the scope first (the documented rule) coincide:

     no binder of the program -- parameter, local definition, case binding, `self`, the marker of a global
     initialiser -- has a name x such that some access chain `x.a.b` written in file F has root x while x
     is a namespace name of F (or F has no namespace table).

   "Namespace name of F" is read off the state after the two namespace passes (`passes_state`), so
   namespaces re-exported through `from .. use` count as well.  Definitions only. *)
From Coq Require Import String List NArith ZArith Bool.
From Sylt Require Import Syntax.Resolved Resolve.PAst Resolve.Resolver Resolve.Wf.
Import ListNotations.
Local Open Scope string_scope.
Local Open Scope list_scope.

Definition cat_with {A} (f : A -> list string) : list A -> list string :=
  fix go (l : list A) : list string := match l with [] => [] | x :: xs => f x ++ go xs end.

(* every name a binder of the term can put on the scope stack *)
Fixpoint bnd_e (x : pexpr) : list string :=
  match x with
  | PGet a _ => bnd_a a
  | PAdd a b _ | PSub a b _ | PMul a b _ | PDiv a b _ | PComparison a _ b _ | PAssertEq a b _
  | PAnd a b _ | POr a b _ => bnd_e a ++ bnd_e b
  | PNeg a _ | PNot a _ | PParenthesis a _ => bnd_e a
  | PIf brs _ =>
      cat_with (fun b => match b with PIfBranch c body _ =>
                  (match c with Some c => bnd_e c | None => [] end) ++ cat_with bnd_s body end) brs
  | PCase tm brs ft _ =>
      bnd_e tm
      ++ cat_with (fun b => match b with PCaseBranch _ v body =>
                     (match v with Some i => [i_name i] | None => [] end) ++ cat_with bnd_s body end) brs
      ++ (match ft with Some b => cat_with bnd_s b | None => [] end)
  | PFunction _ params _ body _ _ => map (fun p => i_name (fst p)) params ++ cat_with bnd_s body
  | PBlob _ fields _ => "self" :: cat_with (fun f => bnd_e (snd f)) fields
  | PTuple vs _ | PList vs _ => cat_with bnd_e vs
  | _ => []
  end
with bnd_a (a : passign) : list string :=
  match a with
  | ARead _ _ => []
  | AVariant x _ v _ => bnd_a x ++ bnd_e v
  | ACall f args _ => bnd_a f ++ cat_with bnd_e args
  | AArrowCall x f args _ => bnd_e x ++ bnd_a f ++ cat_with bnd_e args
  | AAccess x _ _ => bnd_a x
  | AIndex x i _ => bnd_a x ++ bnd_e i
  | AExpression e _ => bnd_e e
  end
with bnd_s (s : pstmt) : list string :=
  match s with
  | PAssignment _ t v _ => bnd_a t ++ bnd_e v
  | PDefinition i _ _ v _ => i_name i :: stack_begin_name (i_name i) :: bnd_e v
  | PLoop c b _ => bnd_e c ++ bnd_s b
  | PRet (Some v) _ => bnd_e v
  | PBlock ss _ => cat_with bnd_s ss
  | PStatementExpression v _ => bnd_e v
  | _ => []
  end.

Definition binder_names (ast : past) : list string := cat_with (fun m => cat_with bnd_s (m_stmts m)) ast.

Fixpoint mem_name (x : string) (l : list string) : bool :=
  match l with [] => false | y :: l' => String.eqb x y || mem_name x l' end.

Section Chk.
Variable B : list string.               (* names that may be on the scope stack *)
Variable plain : N -> string -> bool.   (* (file id, x): x is certainly not a namespace name of that file *)

Definition inB (x : string) : bool := mem_name x B.

(* the root of an access chain written in file `fid` is harmless *)
Definition root_ok (fid : N) (a : passign) : bool :=
  match chain_root a with Some x => negb (inB x) || plain fid x | None => true end.

Fixpoint chk_e (x : pexpr) : bool :=
  match x with
  | PGet a _ => chk_a a
  | PAdd a b _ | PSub a b _ | PMul a b _ | PDiv a b _ | PComparison a _ b _ | PAssertEq a b _
  | PAnd a b _ | POr a b _ => chk_e a && chk_e b
  | PNeg a _ | PNot a _ | PParenthesis a _ => chk_e a
  | PIf brs _ =>
      all_with (fun b => match b with PIfBranch c body _ =>
                  (match c with Some c => chk_e c | None => true end) && all_with chk_s body end) brs
  | PCase tm brs ft _ =>
      chk_e tm
      && all_with (fun b => match b with PCaseBranch _ v body =>
                     (match v with Some i => inB (i_name i) | None => true end) && all_with chk_s body end) brs
      && (match ft with Some b => all_with chk_s b | None => true end)
  | PFunction _ params _ body _ _ => all_with (fun p => inB (i_name (fst p))) params && all_with chk_s body
  | PBlob _ fields _ => inB "self" && all_with (fun f => chk_e (snd f)) fields
  | PTuple vs _ | PList vs _ => all_with chk_e vs
  | _ => true
  end
with chk_a (a : passign) : bool :=
  match a with
  | ARead _ _ => true
  | AVariant x _ v _ => chk_a x && chk_e v
  | ACall f args _ => chk_a f && all_with chk_e args
  | AArrowCall x f args _ => chk_e x && chk_a f && all_with chk_e args
  | AAccess x _ sp => root_ok (sp_file sp) x && chk_a x
  | AIndex x i _ => chk_a x && chk_e i
  | AExpression e _ => chk_e e
  end
with chk_s (s : pstmt) : bool :=
  match s with
  | PAssignment _ t v _ => chk_a t && chk_e v
  | PDefinition i _ _ v _ => inB (i_name i) && inB (stack_begin_name (i_name i)) && chk_e v
  | PLoop c b _ => chk_e c && chk_s b
  | PRet (Some v) _ => chk_e v
  | PBlock ss _ => all_with chk_s ss
  | PStatementExpression v _ => chk_e v
  | _ => true
  end.

End Chk.

(* the state after `insert_namespace_and_add_definitions` and the import pass (`fx`: repeated to a
   fixpoint or not, Resolver.import_pass) *)
Definition passes_state (fx : bool) (ast : past) : option rstate :=
  match (_ <- for_each insert_namespace_and_add_definitions ast ;; import_pass fx ast) (init_state ast) with
  | Ok (_, st) => Some st
  | _ => None
  end.

Definition plain_in (st : rstate) (fid : N) (x : string) : bool :=
  match lookup_global st fid x with
  | Ok (Some (NNamespace _ _)) => false
  | Ok _ => true
  | _ => false
  end.

Definition no_ns_shadow (fx : bool) (ast : past) : bool :=
  match passes_state fx ast with
  | Some st => all_with (fun m => all_with (chk_s (binder_names ast) (plain_in st)) (m_stmts m)) ast
  | None => true         (* the namespace passes fail: rejected whatever the rule for `x.f` *)
  end.
