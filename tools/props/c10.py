"""C10 -- function activations and closures do not interfere (static half: no free V-names)."""
import collections
import glob
import os

import luatext
import prog_gen
import resolved_io
import vlib

GEN = ["GenSrcDigest"]
TRUSTED = [
    "Coq 8.16.1 kernel; no axioms",
    "coq/Back/IR.v + Back/Emit.v as the model of intermediate.rs + lua.rs: tied byte-for-byte to the real compiler's output on every run (all accepted programs of /repo/tests + generated programs), fed with the real resolver's output through the cfg-guarded hook sylt_compiler::verif::phases",
    "tools/resolved_io.py + tools/rustdebug.py + ocaml/rast_reader.ml (conversion of the hook's Debug dump into the Coq type Syntax/Resolved.v)",
    "extraction: ExtrOcamlBasic + ExtrOcamlString only; ocaml/back_driver.ml",
    "tools/luatext.py: the independent scan of the real Lua text for V-names outside any binding (relies on the one-instruction-per-line shapes lua.rs emits)",
    "modelled, not verified: that a Lua `local` is fresh per execution and captured by reference (Lua semantics; the dynamic half of C10 needs the Lua interpreter model)",
]
ASSUMPTIONS = ["programs are compiled with --no-std and declare the externals they use (generated), or with std (tests)"]
EXPLANATION = ("Static half of C10. Theorem C10_lower_scoped (Coq, all programs): if the resolved program is lexically scoped "
               "(rs_resolved) then the lowered IR introduces every variable -- user variable or temporary -- as a Lua local, parameter or "
               "top-level external in an enclosing block before it is read or assigned, and only real locals are assignment targets; so no "
               "temporary is a Lua global shared between activations. The model is tied byte-for-byte to the real compiler's output and the "
               "hypothesis is evaluated on the real resolver's output for every program of the tie; an independent scan of the real Lua text "
               "looks for V-names outside any binding.")

_m = {}


def build(ctx):
    # ExtractBack.v also extracts Back/CFlow.v (used by C06), which Props/C10.v does not import
    ok, out = vlib.coq_make(["Back/CFlow.vo"])
    if not ok:
        return ok, out
    ok, exe, out = vlib.build_ocaml("back", "ExtractBack.v", "back_driver.ml", "backmodel", includes=["rast_reader.ml"])
    _m["exe"] = exe
    return ok, out


def preamble():
    return open(os.path.join(vlib.REPO, "sylt-compiler/src/preamble.lua"), "rb").read()


def test_programs():
    files = sorted(glob.glob(os.path.join(vlib.REPO, "tests", "**", "*.sy"), recursive=True))
    allfiles = {}
    for f in files:
        try:
            allfiles[f] = open(f, encoding="utf-8").read()
        except UnicodeDecodeError:
            pass
    filemap = "\t".join("%s=%s" % (f, vlib.hexs(s)) for f, s in allfiles.items())
    return [("test", f, "std\t%s\t%s" % (f, filemap)) for f in allfiles]


def gen_cases(ctx):
    n = 250 if ctx.tier == "quick" else 4000
    out = []
    for i in range(n):
        src = prog_gen.program(vlib.rng(ctx.seed, "c10-%d" % i), 3)
        out.append(("gen", src, "nostd\t/main.sy\t/main.sy=%s" % vlib.hexs(src)))
    return out + test_programs()


def run(ctx, cases):
    lines = [c[2] for c in cases]
    ph = vlib.harness("phases", lines, timeout_s=60)
    ctx.last_phases = ph   # for C06: the real IR dump of every case
    real = vlib.harness("compile", lines, timeout_s=60)
    pre = preamble()
    mcases, idx = [], []
    for i, p in enumerate(ph):
        d, tail = resolved_io.parse_phases_line(p)
        if "ordered" in d and tail.startswith("OK") and real[i].startswith("OK "):
            try:
                mcases.append("-\t" + resolved_io.resolved_sexp(d["vars"], d["ordered"]))
                idx.append(i)
            except Exception as e:
                pass
    mo = vlib.model(_m["exe"], [], mcases)
    rows = []
    for i, m in zip(idx, mo):
        body = vlib.unhex(real[i][3:])
        ok_pre = body.startswith(pre)
        body = body[len(pre):].decode("utf-8", "replace")
        rows.append((i, m, body, ok_pre))
    return rows, real


def tie(ctx):
    cases = gen_cases(ctx)
    rows, real = run(ctx, cases)
    mism = []
    dist = collections.Counter()
    outcome = collections.Counter(r.split(" ")[0] for r in real)
    unscoped = []
    rsbad = []
    free = []
    for i, m, body, ok_pre in rows:
        cls = cases[i][0]
        dist[cls] += 1
        parts = m.split(" ")
        if parts[0] != "OK":
            mism.append({"class": cls, "program": cases[i][1][:2000], "model": m[:200], "real": "OK"})
            continue
        mtext = vlib.unhex(parts[1]).decode("utf-8", "replace")
        if mtext != body or not ok_pre:
            a, b = body.split("\n"), mtext.split("\n")
            k = next((j for j, (x, y) in enumerate(zip(a, b)) if x != y), min(len(a), len(b)))
            if len(mism) < 10:
                mism.append({"class": cls, "program": cases[i][1][:3000], "line": k + 1,
                             "real": a[k] if k < len(a) else "<eof>", "model": b[k] if k < len(b) else "<eof>",
                             "preamble_identical": ok_pre})
        if len(parts) > 2 and parts[2] != "SCOPED":
            unscoped.append((i, parts[2]))
        if len(parts) > 3 and parts[3] != "RSOK":
            rsbad.append(i)
        fv = luatext.free_v_names(body)
        if fv:
            free.append((i, fv[:3]))
    ctx.c10 = {"cases": cases, "free": free, "unscoped": unscoped}
    # the static property itself, on the real output and on the model's IR
    for i, fv in free[:3]:
        ctx.brk("oracle:free-V-name", "%s: %s" % (cases[i][1][:200].replace("\n", "\\n"), fv))
    for i, w in unscoped[:3]:
        if not any(i == j for j, _ in free):
            ctx.brk("model:ir_scoped", "%s at IR instruction %s" % (cases[i][1][:200].replace("\n", "\\n"), w))
    dist["accepted"] = len(rows)
    dist["resolved_level_scoping_rejected"] = len(rsbad)
    ctx.c10["rsbad"] = rsbad
    for i in rsbad[:3]:
        # the hypothesis of C10_lower_scoped fails on the real resolver's output: the theorem says nothing here
        ctx.brk("hypothesis:rs_resolved", "the real resolver's output is not lexically scoped: " + cases[i][1][:300].replace("\n", "\\n"))
    samples = []
    for i, m, body, _ in rows[:2]:
        samples.append({"class": cases[i][0], "program": cases[i][1][:400], "lua_lines": len(body.split("\n"))})
    return {"name": "lua-text", "ok": not mism, "mismatches": mism, "evaluations": len(cases),
            "distinct_nontrivial": len(set(c[1] for i, c in enumerate(cases) if any(r[0] == i for r in rows[:100000]))),
            "rule": "generated recursion/closure-dense typed programs (G-prog) + every program under /repo/tests; the backend model is fed "
                    "the real resolver output (phases hook) and its Lua text is compared byte for byte with the real output; "
                    "non-trivial = accepted by the real compiler (a Lua text exists); distinct by source",
            "samples": samples or ["<none>"],
            "distribution": {"classes": dict(dist), "real_outcomes": dict(outcome), "programs_with_free_V_names": len(free),
                             "programs_model_unscoped": len(unscoped)}}


def always(ctx):
    """dynamic oracle for "each activation has its own locals": containers created inside functions from literals
    (tools/hist_gen.py activation_programs: called twice / recursive / closure factory / loop / accumulator argument),
    compiled by the real compiler, run by LuaCore, compared with a fresh container per evaluation of the literal"""
    import hist_gen
    n = 40 if ctx.tier == "quick" else 600
    bad = hist_gen.check_activation_programs(ctx, n)
    ctx.c10_activation = bad
    for src, exp, got in bad[:3]:
        ctx.brk("oracle:activation-containers", "expected %s got %s in\n%s" % (exp[:12], got[:12], src[:1500]))
    return {"activation_container_programs": n, "activation_container_failures": len(bad)}


def search(ctx):
    act = getattr(ctx, "c10_activation", None)
    if act:
        src, exp, got = act[0]          # sorted by size: the smallest failing program
        return {"program": src, "files": {"/main.sy": src}, "expected": exp, "actual": got,
                "what": "a container literal inside a function is not a new container for every activation / closure / iteration",
                "programs_affected": len(act)}
    st = getattr(ctx, "c10", None)
    if st is None:
        return None
    if st["free"]:
        gens = [x for x in st["free"] if st["cases"][x[0]][0] == "gen"]
        i, fv = min(gens or st["free"], key=lambda x: len(st["cases"][x[0]][1]))
        cls, src, line = st["cases"][i]
        if cls == "gen":
            src = shrink_program(ctx, src)
            line = "nostd\t/main.sy\t/main.sy=%s" % vlib.hexs(src)
        real = vlib.harness("compile", [line], timeout_s=60)[0]
        body = vlib.unhex(real[3:])[len(preamble()):].decode("utf-8", "replace")
        fv = luatext.free_v_names(body)
        return {"program": src if cls == "gen" else "file " + src, "free_v_names": fv[:6],
                "what": "the emitted Lua assigns/reads a V-name outside any local/parameter binding: a Lua global shared by all activations",
                "lua_body": body[:4000], "case_line": line if cls == "gen" else None,
                "programs_affected": len(st["free"])}
    # dynamic half: reference interpreter vs Lua interpreter model on the recursion/closure-dense programs
    try:
        from props import c01
        ok, out = c01.build(ctx)
        if ok:
            gens = [c[1] for c in st["cases"] if c[0] == "gen"][: (200 if ctx.tier == "quick" else 2000)]
            import glob as _g
            gens = [open(f).read() for f in sorted(_g.glob(os.path.join(vlib.VERIF, "corpus", "c01", "*.sy")))] + gens
            res = c01.compare(ctx, gens)
            bad = [(g, d) for g, (v, d) in zip(gens, res) if v == "diff"]
            if bad:
                src, d = min(bad, key=lambda x: len(x[0]))
                lines = src.rstrip("\n").split("\n")
                small = vlib.shrink_seq(lines, lambda cands: [v == "diff" for v, _ in c01.compare(ctx, ["\n".join(c) + "\n" for c in cands])],
                                        max_rounds=40)
                src2 = "\n".join(small) + "\n"
                v, d2 = c01.compare(ctx, [src2])[0]
                return {"program": src2, "difference": d2 if v == "diff" else d,
                        "what": "a value held across a call (or captured by a closure) differs between the reference interpreter and the "
                                "emitted Lua run in the Lua interpreter model", "programs_affected": len(bad)}
    except Exception as e:
        vlib.log("dynamic search failed:", repr(e))
    return None


def has_free(ctx, srcs):
    lines = ["nostd\t/main.sy\t/main.sy=%s" % vlib.hexs(s) for s in srcs]
    real = vlib.harness("compile", lines, timeout_s=60)
    pre = preamble()
    out = []
    for r in real:
        if not r.startswith("OK "):
            out.append(False)
            continue
        body = vlib.unhex(r[3:])[len(pre):].decode("utf-8", "replace")
        out.append(bool(luatext.free_v_names(body)))
    return out


def shrink_program(ctx, src):
    lines = src.rstrip("\n").split("\n")
    small = vlib.shrink_seq(lines, lambda cands: has_free(ctx, ["\n".join(c) + "\n" for c in cands]), max_rounds=60)
    return "\n".join(small) + "\n"


def replay_known(ctx, kf):
    return False


def replay(ctx, rep):
    fi = rep.get("failing_input") or {}
    if not fi or not fi.get("case_line"):
        print("nothing to replay")
        return 0
    vlib.build_harness()
    r = has_free(ctx, [fi["program"]])[0]
    print("free V-names present:", r)
    return 1 if r else 0
