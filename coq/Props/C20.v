(* C20 -- Driver contract: exit status, all-or-nothing output, flags.
   Only pinned statements, `exact`, `vm_compute` for the table side condition and examples, and
   Print Assumptions. *)
From Coq Require Import String List NArith Bool.
From Sylt Require Import Driver.DriverModel Driver.DriverProofs Driver.DocDriver Gen.GenDriver
                         Syntax.Resolved Back.IR Back.Emit.
Import ListNotations.
Local Open Scope string_scope.

(* Obligation 1 (table tie, drift detector): the option table of `struct Args`, the arms of
   `match &args.output` (pattern, call skeleton, normalised text), compile_with_reader_to_writer, `fn main`,
   every expect() message and the strings the model prints, as regenerated from sylt/src/lib.rs,
   sylt/src/main.rs and sylt-common/src/error.rs on this run, are the hand-reviewed ones. *)
Theorem C20_driver_table :
  driver_table_eqb GenDriver.options GenDriver.output_arms GenDriver.run_file_rest GenDriver.compile_uses
                   GenDriver.compile_body GenDriver.main_skeleton GenDriver.main_body
                   GenDriver.expect_messages GenDriver.gen_strings = true.
Proof. vm_compute. reflexivity. Qed.

(* Exit status.  For every flag set that names a file and does not ask for help, and every world in
   which `lua` can be started (run mode) resp. the output file can be created and write_all succeeds
   (-o FILE), and in which the compiler does not return an empty error list:
   status 0 <-> compilation succeeded /\ (run mode -> the child wrote nothing to stderr). *)
Theorem C20_exit_zero_iff : forall st f w,
  compiles_something f -> os_cooperates f w -> errors_nonempty w ->
  (r_status (main st f w) = 0%N <-> exists bytes, w_compile w = COk bytes /\ execution_succeeded f w bytes).
Proof. exact exit_zero_iff. Qed.

(* The same without any hypothesis on the world: every way to reach status 0. *)
Theorem C20_exit_zero_iff_full : forall st f w, compiles_something f ->
  (r_status (main st f w) = 0%N <->
   (w_compile w = CErr [] /\ (output_mode_of f = ORun -> w_lua_found w = true))
   \/ exists bytes, w_compile w = COk bytes /\
        match output_mode_of f with
        | ORun => w_lua_found w = true /\ c_stderr (w_child w bytes) = ""
        | OStdout => True
        | OFile _ => w_create w = CreateOk /\ w_write w = WroteAll
        end).
Proof. exact exit_zero_iff_full. Qed.

(* --help and the missing file argument. *)
Theorem C20_help_exit : forall st f w, f_help f = true ->
  main st f w = mkResult 0 ("Usage: " ++ w_argv0 w ++ " [OPTIONS]" ++ nl ++ nl ++ w_usage w ++ nl) "" Untouched None.
Proof. exact help_exit. Qed.

Theorem C20_no_file_exit : forall st f w, f_help f = false -> f_args f = [] ->
  main st f w = mkResult 1 (w_usage w ++ nl) (main_err (s_no_file st)) Untouched None.
Proof. exact no_file_exit. Qed.

(* The statuses are 0, 1 and 101 (panic), and 101 arises exactly at the two expect() sites: `lua`
   cannot be started, File::create fails after a successful compilation. *)
Theorem C20_exit_status_range : forall st f w,
  r_status (main st f w) = 0%N \/ r_status (main st f w) = 1%N \/ r_status (main st f w) = 101%N.
Proof. exact exit_status_range. Qed.

Theorem C20_panic_iff : forall st f w, compiles_something f ->
  (r_status (main st f w) = 101%N <->
   (output_mode_of f = ORun /\ w_lua_found w = false) \/
   (exists p bytes e, output_mode_of f = OFile p /\ w_compile w = COk bytes /\ w_create w = CreateFails e)).
Proof. exact panic_iff. Qed.

(* Every error is printed, in order, then the summary; status 1; the output file is untouched. *)
Theorem C20_errors_all_printed : forall st f w es,
  compiles_something f -> w_compile w = CErr es -> es <> [] ->
  (output_mode_of f = ORun -> w_lua_found w = true) ->
  let r := main st f w in
  r_status r = 1%N /\
  r_stdout r = print_errors es /\
  r_stderr r = main_err (dec (length es) ++ s_errors_suffix st) /\
  r_file r = Untouched.
Proof. exact errors_all_printed. Qed.

Theorem C20_errors_in_order : forall es1 e es2,
  print_errors (es1 ++ e :: es2) = print_errors es1 ++ e ++ nl ++ print_errors es2.
Proof. exact errors_in_order. Qed.

Theorem C20_lua_error_printed : forall st f w bytes,
  compiles_something f -> output_mode_of f = ORun -> w_lua_found w = true ->
  w_compile w = COk bytes -> c_stderr (w_child w bytes) <> "" ->
  let r := main st f w in
  let c := w_child w bytes in
  r_status r = 1%N /\
  r_stdout r = c_stdout c ++ print_errors [s_lua_error st ++ c_stderr c] /\
  r_stderr r = main_err ("1" ++ s_errors_suffix st) /\
  r_child r = Some (mkChildRun bytes true).
Proof. exact lua_error_printed. Qed.

Theorem C20_child_gets_program : forall st f w bytes,
  compiles_something f -> output_mode_of f = ORun -> w_lua_found w = true -> w_compile w = COk bytes ->
  r_child (main st f w) = Some (mkChildRun bytes true).
Proof. exact child_gets_program. Qed.

(* -o FILE: untouched whenever compilation fails (for every flag set, every world) ... *)
Theorem C20_o_file_untouched_on_error : forall st f w es,
  w_compile w = CErr es -> r_file (main st f w) = Untouched.
Proof. exact o_file_untouched_on_error. Qed.

(* ... never touched in the other modes ... *)
Theorem C20_file_untouched_in_other_modes : forall st f w,
  (forall p, output_mode_of f <> OFile p) -> r_file (main st f w) = Untouched.
Proof. exact file_untouched_in_other_modes. Qed.

(* ... and, when the write does not fail, FILE is untouched or holds exactly the compiled bytes (and then
   the status is 0). *)
Theorem C20_o_file_all_or_nothing : forall st f w,
  write_succeeds w ->
  r_file (main st f w) = Untouched \/
  (exists bytes, w_compile w = COk bytes /\ r_file (main st f w) = Holds bytes /\ r_status (main st f w) = 0%N).
Proof. exact o_file_all_or_nothing. Qed.

(* For EVERY world (write_all: a short write is not success): status 0 in -o FILE mode means FILE holds the
   complete program. *)
Theorem C20_o_file_status_zero_complete : forall st f w p,
  compiles_something f -> output_mode_of f = OFile p -> errors_nonempty w ->
  r_status (main st f w) = 0%N ->
  exists bytes, w_compile w = COk bytes /\ r_file (main st f w) = Holds bytes.
Proof. exact o_file_status_zero_complete. Qed.

(* Without the hypothesis `write_succeeds` all-or-nothing is still FALSE for the code as written: a write
   that fails after File::create (full disk, file-size limit) leaves FILE truncated / partly written, with
   status 1.  (Open known finding; needs write-to-temporary + rename.) *)
Theorem C20_o_file_failed_write_refuted : forall st,
  exists f w bytes, compiles_something f /\ w_compile w = COk bytes /\
    r_status (main st f w) = 1%N /\ r_file (main st f w) = Holds "a" /\ bytes = "abc".
Proof. exact o_file_failed_write_refuted. Qed.

(* -o - writes to stdout the bytes -o FILE writes to the file. *)
Theorem C20_o_dash_same_bytes : forall st f1 f2 w p bytes,
  compiles_something f1 -> compiles_something f2 ->
  output_mode_of f1 = OStdout -> output_mode_of f2 = OFile p ->
  w_compile w = COk bytes -> w_create w = CreateOk -> w_write w = WroteAll ->
  r_stdout (main st f1 w) = bytes /\ r_file (main st f2 w) = Holds bytes /\
  r_status (main st f1 w) = 0%N /\ r_status (main st f2 w) = 0%N /\
  r_stdout (main st f2 w) = "" /\ r_file (main st f1 w) = Untouched.
Proof. exact o_dash_same_bytes. Qed.

(* --require M, over the emitter model (Back/Emit.v, byte-exact against lua.rs): the program is
   preamble ++ require line ++ exactly what is emitted without the flag; the require line is empty
   without the flag and `require "<M without a .lua suffix>"` with it, so it mentions `require` once
   (plus whatever M itself contains). *)
Theorem C20_require_once : forall preamble req ops,
  preamble ++ emit_after_preamble req ops = preamble ++ require_line req ++ emit_after_preamble None ops.
Proof. exact require_once. Qed.

Theorem C20_require_line_none : require_line None = "".
Proof. exact require_line_none. Qed.

Theorem C20_require_line_some : forall m, require_line (Some m) = "require """ ++ strip_lua_suffix m ++ """".
Proof. exact require_line_some. Qed.

Theorem C20_strip_lua_suffix_spec : forall m,
  (exists b, m = b ++ ".lua" /\ strip_lua_suffix m = b) \/
  ((forall b, m <> b ++ ".lua") /\ strip_lua_suffix m = m).
Proof. exact strip_lua_suffix_spec. Qed.

Theorem C20_require_line_count : forall m,
  occurrences "require" (require_line (Some m)) = 1 + occurrences "require" (strip_lua_suffix m ++ """").
Proof. exact require_line_count. Qed.

(* --no-std: stated, covered by the oracle only (emitted Lua of programs that do not use std, with
   and without --no-std, run in the Lua model: same printed trace). *)
Definition C20_no_std_same_behaviour_statement := no_std_same_behaviour_statement.

(* Non-vacuity: two errors, -o FILE, run through the model with the regenerated strings. *)
Example C20_example :
  let f := mkFlags (Some "out.lua") None true 1 false ["main.sy"] in
  let w := mkWorld (CErr ["e1"; "e2"]) CreateOk WroteAll true (fun _ => mkChildOut "" "" 0) "usage" "sylt" in
  main gen_strings f w
  = mkResult 1 ("e1" ++ nl ++ "e2" ++ nl) ("Error: ""2 errors occured.""" ++ nl) Untouched None.
Proof. vm_compute. reflexivity. Qed.

Print Assumptions C20_driver_table.
Print Assumptions C20_exit_zero_iff.
Print Assumptions C20_exit_zero_iff_full.
Print Assumptions C20_help_exit.
Print Assumptions C20_no_file_exit.
Print Assumptions C20_exit_status_range.
Print Assumptions C20_panic_iff.
Print Assumptions C20_errors_all_printed.
Print Assumptions C20_errors_in_order.
Print Assumptions C20_lua_error_printed.
Print Assumptions C20_child_gets_program.
Print Assumptions C20_o_file_untouched_on_error.
Print Assumptions C20_file_untouched_in_other_modes.
Print Assumptions C20_o_file_all_or_nothing.
Print Assumptions C20_o_file_status_zero_complete.
Print Assumptions C20_o_file_failed_write_refuted.
Print Assumptions C20_o_dash_same_bytes.
Print Assumptions C20_require_once.
Print Assumptions C20_require_line_none.
Print Assumptions C20_require_line_some.
Print Assumptions C20_strip_lua_suffix_spec.
Print Assumptions C20_require_line_count.
