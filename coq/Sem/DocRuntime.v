(* HAND-REVIEWED documentation of which function of Sem/Runtime.v models which definition of
   sylt-compiler/src/preamble.lua and of std/*.sy, and of how lua.rs emits the operators.

   Each row carries the digest of the definition's text AS REVIEWED.  Props/C18.v and Props/C19.v prove
   (vm_compute) that the tables regenerated from /repo on every run (Gen/GenPreamble.v) equal these
   lists: a new, renamed, re-shaped or edited helper breaks `C18_preamble_doc` / `C18_std_doc` /
   `C19_op_templates`, the check then runs the oracle, and the row (and the model) must be reviewed.
   `Modelled f`: behaviour modelled by Runtime.f and compared with the real text by the correspondence.
   `Internal`: plumbing that is reflected in the representation of values, not a function of its own.
   `OutOfModel why`: not covered by C18/C19 (named in the evidence). *)
From Coq Require Import String Ascii List Bool.
Import ListNotations.
Local Open Scope string_scope.

Inductive status := Modelled (rt : string) | Internal (what : string) | OutOfModel (why : string).

Record pdoc := mkP { p_name : string; p_shape : string; p_digest : string; p_status : status }.
Record sdoc := mkS { s_file : string; s_name : string; s_kind : string; s_digest : string; s_status : status }.

Definition is_modelled (s : status) : bool := match s with Modelled _ => true | _ => false end.

(* preamble.lua, in file order *)
Definition doc_preamble : list pdoc := [
  mkP "__NIL" "table" "7588ba9ab53ccf0d" (Internal "the value VNil");
  mkP "__IDENTITY" "fn:1" "f0a057b57e6b6756" (OutOfModel "only behind unsafe_force");
  mkP "__SEEN" "table" "15334d4ac5979638" (Internal "cycle guard of __tostring; values are trees");
  mkP "__INDEX" "fn:2" "5c63dcb1715c0aa6" (Modelled "rt_index");
  mkP "__ASSIGN_INDEX" "fn:3" "654774ee00525a11" (OutOfModel "element assignment l[i] = v is not part of C18/C19");
  mkP "__ADD" "fn:2" "ebdde8d077df1a5b" (Modelled "rt_add");
  mkP "__VARIANT_META" "table" "378d14657a5be924" (Internal "constructor VVariant");
  mkP "__VARIANT_META.__newindex" "fn:0" "eb27e750c3dd2724" (OutOfModel "immutability guard");
  mkP "__VARIANT_META.__eq" "fn:2" "9f4a7c52c33de50f" (Modelled "rt_eq");
  mkP "__VARIANT_META.__tostring" "fn:1" "d9fab5d538d714c1" (Modelled "rt_tostring");
  mkP "__VARIANT" "fn:1" "f7e8bafe611ebf61" (Internal "constructor VVariant");
  mkP "__TUPLE_META" "table" "c3674d7d9e34d1d3" (Internal "constructor VTuple");
  mkP "__TUPLE_META.__newindex" "fn:0" "b8debd4a494ec511" (OutOfModel "immutability guard");
  mkP "__TUPLE_META.__add" "fn:2" "3615c6c492ba02fe" (Modelled "rt_arith OpAdd");
  mkP "__TUPLE_META.__sub" "fn:2" "c82b3f6e9ad1935f" (Modelled "rt_arith OpSub");
  mkP "__TUPLE_META.__div" "fn:2" "1f16bf10f6a3af31" (Modelled "rt_arith OpDiv");
  mkP "__TUPLE_META.__mul" "fn:2" "66e19dc32f7f2e21" (Modelled "rt_arith OpMul");
  mkP "__TUPLE_META.__unm" "fn:1" "966c414c6299be2d" (Modelled "rt_neg");
  mkP "__TUPLE_META.__eq" "fn:2" "0a5098a080987ce1" (Modelled "rt_eq");
  mkP "__TUPLE_META.__lt" "fn:2" "e5539294cedf2726" (Modelled "rt_lt");
  mkP "__TUPLE_META.__le" "fn:2" "f0d3cdb0b05b19e1" (Modelled "rt_le");
  mkP "__TUPLE_META.__tostring" "fn:1" "2d8510e528874e6c" (Modelled "rt_tostring");
  mkP "__TUPLE" "fn:1" "d2b6ecbf89e55770" (Internal "constructor VTuple");
  mkP "__LIST_META" "table" "57745fcf64812c45" (Internal "constructor VList");
  mkP "__LIST_META.__eq" "fn:2" "a567ea57255787ba" (Modelled "rt_eq");
  mkP "__LIST_META.__lt" "fn:2" "994257d48ee4d11f" (Modelled "rt_lt");
  mkP "__LIST_META.__le" "fn:2" "d45a4d187cf010ca" (Modelled "rt_le");
  mkP "__LIST_META.__tostring" "fn:1" "0401cb863c9a2b9b" (Modelled "rt_tostring");
  mkP "__LIST" "fn:1" "c9ea3e1d442e57ee" (Internal "constructor VList");
  mkP "__DICT_META" "table" "e92c6ba1a0816f42" (OutOfModel "never emitted by lua.rs");
  mkP "__DICT_META.__eq" "fn:2" "ab1c36c6abf83fe8" (OutOfModel "never emitted by lua.rs");
  mkP "__DICT_META.__tostring" "fn:1" "b09bf6804461e62e" (OutOfModel "never emitted by lua.rs");
  mkP "__DICT" "fn:1" "15c768923d50cd82" (OutOfModel "never emitted by lua.rs");
  mkP "__SET_META" "table" "567658dadca32096" (OutOfModel "never emitted by lua.rs");
  mkP "__SET_META.__eq" "fn:2" "ebef058f3ad6ed7e" (OutOfModel "never emitted by lua.rs");
  mkP "__SET_META.__tostring" "fn:1" "0e27c3203eb2a5f3" (OutOfModel "never emitted by lua.rs");
  mkP "__SET" "fn:1" "588f9b4724f10fb4" (OutOfModel "never emitted by lua.rs");
  mkP "__BLOB_META" "table" "9f1b10d3cab7e688" (Internal "constructor VBlob");
  mkP "__BLOB_META.__eq" "fn:2" "c5f4eee7c7092494" (Modelled "rt_eq");
  mkP "__BLOB_META.__tostring" "fn:1" "8f413aaa35e9e77c" (Modelled "rt_tostring");
  mkP "__BLOB" "fn:1" "16d7e6b014b1f339" (Internal "constructor VBlob");
  mkP "atan2" "fn:2" "7c5add9b7d78bc44" (OutOfModel "transcendental");
  mkP "list_random_choice" "fn:1" "f45ab746a8edff9e" (OutOfModel "random");
  mkP "varargs" "fn:1" "eb4f7148adcc6d47" (OutOfModel "not bound by std");
  mkP "list_for_each" "fn:2" "834e55ce81884ca1" (OutOfModel "effectful callback; not in C18's list");
  mkP "list_map" "fn:2" "a704db4e01405175" (Modelled "rt_list_map");
  mkP "list_get" "fn:2" "597bb2302d022e06" (Modelled "rt_list_get");
  mkP "list_set" "fn:3" "f1149f21f0d916e0" (Modelled "rt_list_set");
  mkP "list_fold" "fn:3" "f10aa7e4b506bb09" (Modelled "rt_list_fold");
  mkP "list_filter" "fn:2" "0694e52acab40788" (Modelled "rt_list_filter");
  mkP "list_push" "alias:table.insert" "ec7d2b456d860eaa" (Modelled "rt_list_push");
  mkP "list_prepend" "fn:2" "7bcb994328b25b9c" (Modelled "rt_list_prepend");
  mkP "list_find" "fn:2" "6d459a2fc52c984c" (Modelled "rt_list_find");
  mkP "xx_len" "fn:1" "dad5186079255066" (Modelled "rt_len");
  mkP "clear" "fn:1" "c675d8a49553b07a" (OutOfModel "not bound by std");
  mkP "sin" "alias:math.sin" "cb958296d30b377a" (OutOfModel "transcendental");
  mkP "cos" "alias:math.cos" "e4237917ce04cb15" (OutOfModel "transcendental");
  mkP "as_float" "fn:1" "bae14d0524012f72" (OutOfModel "identity on numbers; conversions are not in C18's list");
  mkP "as_int" "fn:1" "878edfc9f1eed9f3" (OutOfModel "conversions are not in C18's list");
  mkP "floor" "alias:math.floor" "efab722bc418190b" (Modelled "rt_floor");
  mkP "as_char" "fn:1" "79ab2bfbf75e7012" (OutOfModel "conversions are not in C18's list (also builds the library None)");
  mkP "as_chars" "fn:1" "9d291d88abb6efc5" (OutOfModel "conversions are not in C18's list");
  mkP "split" "fn:1" "dde77d8a7bd4d668" (OutOfModel "string.gmatch");
  mkP "sqrt" "alias:math.sqrt" "7f40bd5700042aa4" (OutOfModel "irrational results");
  mkP "div" "fn:2" "1324cfff4c39af0f" (Modelled "rt_idiv");
  mkP "sign" "fn:1" "7dd51ac5dbce98ab" (Modelled "rt_sign");
  mkP "rem" "fn:2" "d396dde3abc3a88d" (Modelled "rt_rem");
  mkP "pow" "alias:math.pow" "011465336307eb53" (OutOfModel "transcendental");
  mkP "__CRASH" "fn:1" "1441c2618c268e69" (OutOfModel "crash helper");
  mkP "reflect" "call:__CRASH" "8d61327d8e3e99b9" (OutOfModel "crashes by design");
  mkP "debug_assertions" "call:__CRASH" "0c23fb26514c6fd6" (OutOfModel "crashes by design");
  mkP "thread_sleep" "call:__CRASH" "cc96c14d019a747f" (OutOfModel "crashes by design");
  mkP "list_pop" "fn:1" "ada92e229b3c9807" (Modelled "rt_list_pop");
  mkP "as_str" "alias:tostring" "2cc1bbe1ad109af2" (Modelled "rt_tostring");
  mkP "print" "alias:print" "f7baf4a2707f1ce0" (Internal "the observation: print(tostring(v))");
  mkP "dbg" "fn:1" "4db410e809bec9b2" (OutOfModel "print and return");
  mkP "unsafe_force" "alias:__IDENTITY" "378d2b90c382d9ba" (OutOfModel "identity");
  mkP "random" "alias:math.random" "09ef7bf5beacb272" (OutOfModel "random");
  mkP "randint" "alias:math.random" "4f3da66eef8d76e8" (OutOfModel "random");
  mkP "__LUA_DICT_META" "table" "9ee1f32cf44f07b9" (Internal "constructor VDict");
  mkP "__LUA_DICT_META.__eq" "fn:2" "80b4a3c84a039b6a" (Modelled "rt_eq");
  mkP "__LUA_DICT_META.__tostring" "fn:1" "cc1859051be1cdf3" (Modelled "rt_tostring");
  (* since /repo aaf31ad: the injective text under which dicts and sets keep an entry *)
  mkP "__KEY" "fn:1" "0c6b7de4ffa0daea" (Modelled "rt_key");
  mkP "dict_new" "fn:0" "d3c2c6eff357513f" (Modelled "rt_dict_new");
  mkP "dict_from_list" "fn:1" "0096bacf8b8f431a" (Modelled "rt_dict_from_list");
  mkP "dict_update" "fn:3" "4bd67fe2d6f4682c" (Modelled "rt_dict_update");
  mkP "dict_remove" "fn:2" "ebc70ccd091f210e" (Modelled "rt_dict_remove");
  mkP "dict_get" "fn:2" "efb4fb4d59ae37fa" (Modelled "rt_dict_get");
  mkP "dict_for_each" "fn:2" "eaf58e0cdfbc71d2" (OutOfModel "effectful callback; not in C18's list");
  mkP "dict_map" "fn:2" "7988373d4c325c1e" (OutOfModel "not in C18's list");
  mkP "__LUA_SET_META" "table" "52a29af136b43d1c" (Internal "constructor VSet");
  mkP "__LUA_SET_META.__eq" "fn:2" "7e7b73e29383f9c4" (Modelled "rt_eq");
  mkP "__LUA_SET_META.__tostring" "fn:1" "9351f772d4407dcc" (Modelled "rt_tostring");
  mkP "set_new" "fn:0" "149e879a9976c942" (Modelled "rt_set_new");
  mkP "set_from_list" "fn:1" "af7d986006e87f13" (Modelled "rt_set_from_list");
  mkP "set_add" "fn:2" "ef9a0429c62220c0" (Modelled "rt_set_add");
  mkP "set_remove" "fn:2" "e51acde60993b907" (Modelled "rt_set_remove");
  mkP "set_contains" "fn:2" "d1e47b5b6331ccc2" (Modelled "rt_set_contains");
  mkP "set_for_each" "fn:2" "24cc271bd52e77fd" (OutOfModel "effectful callback; not in C18's list");
  mkP "set_map" "fn:2" "cf1ef528f13ce03c" (OutOfModel "not in C18's list (returns a table with the DICT metatable)")
].

(* std/*.sy, in file order.  An `external` is bound to the preamble global of the same name; an alias
   is the function it names. *)
Definition doc_std : list sdoc := [
  mkS "common.sy" "dbg" "external" "58f5982a73ff9c3b" (OutOfModel "print and return");
  mkS "common.sy" "args" "external" "6105b0fde643c79d" (OutOfModel "NOT BOUND by preamble.lua (calling it is a Lua error)");
  mkS "common.sy" "thread_sleep" "external" "e973caf47ec7f90e" (OutOfModel "crashes by design");
  mkS "common.sy" "print" "external" "ac9033444e018adb" (Modelled "print");
  mkS "common.sy" "spy" "sylt" "440e70943ff55d07" (OutOfModel "debug helper");
  mkS "common.sy" "split" "external" "ae1c24a6d419bee8" (OutOfModel "string.gmatch");
  mkS "common.sy" "as_float" "external" "62f5267be19aab4c" (OutOfModel "identity on numbers; conversions are not in C18's list");
  mkS "common.sy" "as_int" "external" "a9fc854130d2d6ac" (OutOfModel "conversions are not in C18's list");
  mkS "common.sy" "as_char" "external" "19bdfe5684ac4b7b" (OutOfModel "conversions are not in C18's list (also builds the library None)");
  mkS "common.sy" "as_chars" "external" "d7a5fd76c79e7583" (OutOfModel "conversions are not in C18's list");
  mkS "common.sy" "as_str" "external" "8a34437ed8d366bc" (Modelled "rt_tostring");
  mkS "dict.sy" "Dict" "type" "caa647427b8722c2" (Internal "type declaration");
  mkS "dict.sy" "xx_len" "external" "8b0e8a49b740d6cf" (Modelled "rt_len");
  mkS "dict.sy" "len" "alias:xx_len" "a90c05a4f9680ce8" (Modelled "rt_len");
  mkS "dict.sy" "dict_new" "external" "54c8abbe675c5f29" (Modelled "rt_dict_new");
  mkS "dict.sy" "dict_update" "external" "d00da5b7dc5c98e4" (Modelled "rt_dict_update");
  mkS "dict.sy" "dict_remove" "external" "8b3bd2c65a290e9c" (Modelled "rt_dict_remove");
  mkS "dict.sy" "dict_from_list" "external" "6f004c619ed41291" (Modelled "rt_dict_from_list");
  mkS "dict.sy" "from_list" "alias:dict_from_list" "fc91f749f23ab03d" (Modelled "rt_dict_from_list");
  mkS "dict.sy" "new" "alias:dict_new" "318bb966891d8b2e" (Modelled "rt_dict_new");
  mkS "dict.sy" "update" "alias:dict_update" "137c08235448b8c1" (Modelled "rt_dict_update");
  mkS "dict.sy" "remove" "alias:dict_remove" "a502bcc4aeefe4ba" (Modelled "rt_dict_remove");
  mkS "dict.sy" "dict_get" "external" "5872ffacd8097833" (Modelled "rt_dict_get");
  mkS "dict.sy" "get" "alias:dict_get" "3edd1cd7affa93e1" (Modelled "rt_dict_get");
  mkS "dict.sy" "dict_map" "external" "1103d6f6e51af475" (OutOfModel "not in C18's list");
  mkS "dict.sy" "dict_for_each" "external" "750432bc3ed6d8aa" (OutOfModel "effectful callback; not in C18's list");
  mkS "dict.sy" "map" "alias:dict_map" "91ad3264c002df6b" (OutOfModel "not in C18's list");
  mkS "dict.sy" "for_each" "alias:dict_for_each" "6a2bb4d6bcffd1e1" (OutOfModel "effectful callback; not in C18's list");
  mkS "dict.sy" "contains_key" "sylt" "9f64aeff947ea3f5" (Modelled "rt_dict_contains_key");
  mkS "list.sy" "list_random_choice" "external" "686fa7c7269cfa00" (OutOfModel "random");
  mkS "list.sy" "random_choice" "alias:list_random_choice" "8c539dcaafb3058e" (OutOfModel "random");
  mkS "list.sy" "list_for_each" "external" "44573938f6569a42" (OutOfModel "effectful callback; not in C18's list");
  mkS "list.sy" "for_each" "alias:list_for_each" "6ff8beeb51a34eb7" (OutOfModel "effectful callback; not in C18's list");
  mkS "list.sy" "list_map" "external" "9d2fd64f86fbfaaa" (Modelled "rt_list_map");
  mkS "list.sy" "map" "alias:list_map" "e271dcd4ef877811" (Modelled "rt_list_map");
  mkS "list.sy" "list_get" "external" "5506b6725a13e6b4" (Modelled "rt_list_get");
  mkS "list.sy" "get" "alias:list_get" "3eeacf0984fbf8eb" (Modelled "rt_list_get");
  mkS "list.sy" "list_set" "external" "abb953841cfed5b3" (Modelled "rt_list_set");
  mkS "list.sy" "set" "alias:list_set" "51634ad5873d77c8" (Modelled "rt_list_set");
  mkS "list.sy" "list_fold" "external" "52e8b89c56d6a65b" (Modelled "rt_list_fold");
  mkS "list.sy" "fold" "alias:list_fold" "812ed60a28a7c96f" (Modelled "rt_list_fold");
  mkS "list.sy" "list_filter" "external" "bb070980eca26246" (Modelled "rt_list_filter");
  mkS "list.sy" "filter" "alias:list_filter" "7f06a2c8fb075d6a" (Modelled "rt_list_filter");
  mkS "list.sy" "list_push" "external" "1bde70df0558d628" (Modelled "rt_list_push");
  mkS "list.sy" "push" "alias:list_push" "35d63d598aa305e9" (Modelled "rt_list_push");
  mkS "list.sy" "list_prepend" "external" "6abc7b6a19826576" (Modelled "rt_list_prepend");
  mkS "list.sy" "prepend" "alias:list_prepend" "ef49f55871e5b00d" (Modelled "rt_list_prepend");
  mkS "list.sy" "list_pop" "external" "4da2d96ed8038117" (Modelled "rt_list_pop");
  mkS "list.sy" "pop" "alias:list_pop" "8df89ddb0f3118f5" (Modelled "rt_list_pop");
  mkS "list.sy" "xx_len" "external" "c6b4c9ab67d9fccc" (Modelled "rt_len");
  mkS "list.sy" "len" "alias:xx_len" "a90c05a4f9680ce8" (Modelled "rt_len");
  mkS "list.sy" "list_find" "external" "356a75dd22c4fe9e" (Modelled "rt_list_find");
  mkS "list.sy" "find" "alias:list_find" "e187f728b53df307" (Modelled "rt_list_find");
  mkS "list.sy" "contains" "sylt" "f7c6605a98f831c6" (Modelled "rt_list_contains");
  mkS "list.sy" "last" "sylt" "6365639c3772f961" (Modelled "rt_list_last");
  mkS "math.sy" "tau" "sylt" "9ac763182e3f61ba" (OutOfModel "not in C18's list");
  mkS "math.sy" "pi" "sylt" "7e0c4889c115d788" (OutOfModel "not in C18's list");
  mkS "math.sy" "e" "sylt" "cc6f290c75ad5d04" (OutOfModel "not in C18's list");
  mkS "math.sy" "abs" "sylt" "b79e192277256f29" (Modelled "rt_abs");
  mkS "math.sy" "atan2" "external" "0cc1d29ef65bffda" (OutOfModel "transcendental");
  mkS "math.sy" "sin" "external" "6bea29982f9fd08a" (OutOfModel "transcendental");
  mkS "math.sy" "cos" "external" "bf729a634e594f03" (OutOfModel "transcendental");
  mkS "math.sy" "floor" "external" "4bbabb395c67fea3" (Modelled "rt_floor");
  mkS "math.sy" "sqrt" "external" "70fb806d6fa29476" (OutOfModel "irrational results");
  mkS "math.sy" "sign" "external" "1ded99d49d1f5df0" (Modelled "rt_sign");
  mkS "math.sy" "clamp" "sylt" "6c0338fd822d1e6d" (Modelled "rt_clamp");
  mkS "math.sy" "min" "sylt" "017e0bdd8e52d786" (Modelled "rt_min");
  mkS "math.sy" "max" "sylt" "572da36cca7724c5" (Modelled "rt_max");
  mkS "math.sy" "rem" "external" "2b73ad604e05671b" (Modelled "rt_rem");
  mkS "math.sy" "pow" "external" "a40c4c0d1f49e32b" (OutOfModel "transcendental");
  mkS "math.sy" "div" "external" "803035b8bf3361d5" (Modelled "rt_idiv");
  mkS "math.sy" "angle" "sylt" "63d74ac07ff3ea65" (OutOfModel "not in C18's list");
  mkS "math.sy" "magnitude_squared" "sylt" "95ab1dd9eaa08dad" (OutOfModel "not in C18's list");
  mkS "math.sy" "magnitude" "sylt" "5990e8928dda51e5" (OutOfModel "not in C18's list");
  mkS "math.sy" "normalize" "sylt" "d77de4ffc1f88b01" (OutOfModel "not in C18's list");
  mkS "math.sy" "reflect" "external" "cc44bde6fd58429d" (OutOfModel "crashes by design");
  mkS "math.sy" "dot" "sylt" "7318c81e8710b1b7" (OutOfModel "not in C18's list");
  mkS "math.sy" "random" "external" "94fbdc367faaa178" (OutOfModel "random");
  mkS "math.sy" "randint" "external" "c596a7771ec14461" (OutOfModel "random");
  mkS "maybe.sy" "Maybe" "type" "43b13712062c52c0" (Internal "type declaration");
  mkS "maybe.sy" "orDefault" "sylt" "3ae8d72234d6acb3" (Modelled "rt_or_default");
  mkS "maybe.sy" "andThen" "sylt" "e30ed61869be463e" (OutOfModel "not in C18's list");
  mkS "maybe.sy" "flatten" "sylt" "ff617e108421ecdd" (OutOfModel "not in C18's list");
  mkS "maybe.sy" "isJust" "sylt" "1579c36b7a75a71c" (Modelled "rt_is_just");
  mkS "maybe.sy" "isNone" "sylt" "602cf87eb35bc168" (Modelled "rt_is_none");
  mkS "maybe.sy" "map" "sylt" "079bafe355d1aa40" (Modelled "rt_maybe_map");
  mkS "set.sy" "Set" "type" "458c5403d7e162db" (Internal "type declaration");
  mkS "set.sy" "xx_len" "external" "589c0152528ee2cb" (Modelled "rt_len");
  mkS "set.sy" "len" "alias:xx_len" "a90c05a4f9680ce8" (Modelled "rt_len");
  mkS "set.sy" "set_new" "external" "33bf87ef847242c0" (Modelled "rt_set_new");
  mkS "set.sy" "set_add" "external" "641918d52f821464" (Modelled "rt_set_add");
  mkS "set.sy" "set_remove" "external" "6601349e139254e1" (Modelled "rt_set_remove");
  mkS "set.sy" "set_from_list" "external" "748ae356c7a2ca1a" (Modelled "rt_set_from_list");
  mkS "set.sy" "from_list" "alias:set_from_list" "aa30086c6b471c9b" (Modelled "rt_set_from_list");
  mkS "set.sy" "new" "alias:set_new" "046fb57a791b960f" (Modelled "rt_set_new");
  mkS "set.sy" "add" "alias:set_add" "7e85e051cdbf7a0d" (Modelled "rt_set_add");
  mkS "set.sy" "remove" "alias:set_remove" "30f4552ecb765e87" (Modelled "rt_set_remove");
  mkS "set.sy" "set_map" "external" "2f5b8240161bb65e" (OutOfModel "not in C18's list (returns a table with the DICT metatable)");
  mkS "set.sy" "set_for_each" "external" "93efaef5c68ab4bb" (OutOfModel "effectful callback; not in C18's list");
  mkS "set.sy" "map" "alias:set_map" "1b59df280ee743a6" (OutOfModel "not in C18's list (returns a table with the DICT metatable)");
  mkS "set.sy" "for_each" "alias:set_for_each" "0670b17cdc17cdc3" (OutOfModel "effectful callback; not in C18's list");
  mkS "set.sy" "set_contains" "external" "8cb3e41751c12591" (Modelled "rt_set_contains");
  mkS "set.sy" "contains" "alias:set_contains" "d506dfef631d566f" (Modelled "rt_set_contains");
  mkS "unsafe.sy" "unsafe_force" "external" "049ee8e864fe8b16" (OutOfModel "identity")
].

(* lua.rs: the Lua text each operator / constructor is emitted as, and the Runtime function that is what
   Lua 5.1 then evaluates (metamethod dispatch included) *)
Definition doc_ops : list (string * string * string) := [
  ("Nil", "__NIL", "VNil");
  ("Add", "__ADD({}, {})", "rt_add");
  ("Sub", "({} - {})", "rt_sub");
  ("Mul", "({} * {})", "rt_mul");
  ("Div", "({} / {})", "rt_div");
  ("Neg", "(-{})", "rt_neg");
  ("Equals", "({} == {})", "rt_eq");
  ("NotEquals", "({} ~= {})", "rt_neq");
  ("Less", "({} < {})", "rt_lt");
  ("LessEqual", "({} <= {})", "rt_le");
  ("Greater", "({} > {})", "rt_gt");
  ("GreaterEqual", "({} >= {})", "rt_ge");
  ("Not", "(not {})", "negb");
  ("List", "__LIST{{ {} }}", "VList");
  ("Tuple", "__TUPLE{{ {} }}", "VTuple");
  ("Variant", "__VARIANT{{ ""{}"", {} }}", "VVariant");
  (* since /repo 2dc2918 an index read is a statement of its own: evaluated where it is written *)
  ("Index", "local {} = __INDEX({}, {})", "rt_index");
  ("Blob", "__BLOB{{ {} }}", "VBlob");
  ("AssignIndex", "__ASSIGN_INDEX({}, {}, {})", "(not modelled)")
].

(* ---- comparisons with the regenerated tables (used by Props/C18.v, C19.v) ---- *)

Fixpoint pdoc_eqb (a : list pdoc) (b : list (string * string * string)) : bool :=
  match a, b with
  | [], [] => true
  | p :: a', (n, s, d) :: b' =>
      String.eqb (p_name p) n && String.eqb (p_shape p) s && String.eqb (p_digest p) d && pdoc_eqb a' b'
  | _, _ => false
  end.

Fixpoint sdoc_eqb (a : list sdoc) (b : list (string * string * string * string)) : bool :=
  match a, b with
  | [], [] => true
  | p :: a', (f, n, k, d) :: b' =>
      String.eqb (s_file p) f && String.eqb (s_name p) n && String.eqb (s_kind p) k && String.eqb (s_digest p) d
      && sdoc_eqb a' b'
  | _, _ => false
  end.

Fixpoint ops_eqb (a : list (string * string * string)) (b : list (string * string)) : bool :=
  match a, b with
  | [], [] => true
  | (o, t, _) :: a', (o', t') :: b' => String.eqb o o' && String.eqb t t' && ops_eqb a' b'
  | _, _ => false
  end.

Definition preamble_status (n : string) : option status :=
  option_map p_status (find (fun p => String.eqb (p_name p) n) doc_preamble).

(* the preamble global a std name finally denotes: an external is itself, an alias is resolved in its file *)
Fixpoint strip_prefix (p s : string) : option string :=
  match p with
  | EmptyString => Some s
  | String c p' =>
      match s with
      | String d s' => if Ascii.eqb c d then strip_prefix p' s' else None
      | EmptyString => None
      end
  end.

Definition std_target (d : sdoc) : option string :=
  if String.eqb (s_kind d) "external" then Some (s_name d) else strip_prefix "alias:" (s_kind d).

(* every std external / alias documented as Modelled is bound by preamble.lua to a definition that is
   documented as Modelled (or is `print`) *)
Definition functions_covered : bool :=
  forallb (fun d =>
             if is_modelled (s_status d) then
               match std_target d with
               | Some g => match preamble_status g with
                           | Some (Modelled _) => true
                           | Some (Internal _) => String.eqb g "print"
                           | _ => false
                           end
               | None => String.eqb (s_kind d) "sylt"      (* written in Sylt: tied by its digest *)
               end
             else true) doc_std.

(* the operations the text of C18 names are all documented as modelled *)
Definition c18_names : list (string * string) :=
  [("list.sy", "push"); ("list.sy", "prepend"); ("list.sy", "pop"); ("list.sy", "get"); ("list.sy", "set");
   ("list.sy", "len"); ("list.sy", "map"); ("list.sy", "filter"); ("list.sy", "fold"); ("list.sy", "find");
   ("list.sy", "contains"); ("list.sy", "last");
   ("dict.sy", "new"); ("dict.sy", "from_list"); ("dict.sy", "update"); ("dict.sy", "get"); ("dict.sy", "contains_key");
   ("dict.sy", "remove"); ("dict.sy", "len");
   ("set.sy", "new"); ("set.sy", "from_list"); ("set.sy", "add"); ("set.sy", "contains"); ("set.sy", "remove"); ("set.sy", "len");
   ("maybe.sy", "isJust"); ("maybe.sy", "isNone"); ("maybe.sy", "orDefault"); ("maybe.sy", "map");
   ("math.sy", "min"); ("math.sy", "max"); ("math.sy", "abs"); ("math.sy", "clamp"); ("math.sy", "sign");
   ("math.sy", "div"); ("math.sy", "floor")].

Definition c18_names_modelled : bool :=
  forallb (fun fn =>
             existsb (fun d => String.eqb (s_file d) (fst fn) && String.eqb (s_name d) (snd fn) && is_modelled (s_status d))
                     doc_std) c18_names.
