(* The simulation relation between the reference interpreter (Sem/SyltSem.v) and LuaCore running the
   emitted statements (Pres/EmitAst.v), for the fragment of Pres/Frag.v.

   vrel      Sylt values  ~  Lua values
   rel       Sylt (env, state) ~ Lua (env, state): every user variable in scope is the Lua local V<id>, bound
             to a cell holding a related value; `print` is the Lua global V<pv>; traces agree; the preamble
             invariant `linv` holds
   fut F     "future" of a Lua configuration: the frozen temporaries F keep their binding and their value
   denotes   a (possibly inlined) Lua expression evaluates, without side effects other than allocating
             garbage cells, to a value related to sv -- in EVERY future of the configuration.  This is the
             invariant that makes the usage-count inlining of single-use temporaries sound: the expression
             is evaluated at its use site, later than where the Sylt program computed the value. *)
From Coq Require Import String Ascii List NArith ZArith QArith Bool Lia.
From Sylt Require Import Syntax.Resolved.
From Sylt Require Sem.Values Sem.Runtime Sem.SyltSem.
From Sylt Require Import Back.IR Back.Emit.
From Sylt Require Import Pres.EmitAst Pres.EmitRel Pres.Names Pres.LuaFuel Pres.LuaEv Pres.Preamble.
From Sylt Require Import Pres.Frag.
From Sylt Require Import Lua.LuaAst Lua.LuaMap Lua.LuaNum Lua.LuaProofs Lua.LuaCore.
Import ListNotations.
Local Open Scope N_scope.

Notation sstate := SyltSem.state.
Notation senv := SyltSem.env.
Notation sval := SyltSem.sval.
Notation SV := SyltSem.SV.

Inductive vrel : sval -> value -> Prop :=
| vr_int z : vrel (SV (Values.VInt z)) (VNum false (q_int z))
| vr_bool b : vrel (SV (Values.VBool b)) (VBool b)
| vr_nil : vrel (SV Values.VLuaNil) VNil
| vr_str s : vrel (SV (Values.VStr s)) (VStr s).

(* ------------------------------------------------------------------ Lua states and environments *)

(* st' is st plus newly allocated cells *)
Definition cells_ext (st st' : state) : Prop :=
  s_tabs st' = s_tabs st /\ s_ntab st' = s_ntab st /\ s_clos st' = s_clos st /\ s_nclo st' = s_nclo st /\
  s_out st' = s_out st /\ s_dialect st' = s_dialect st /\ (s_ncell st <= s_ncell st')%positive /\
  forall c, (c < s_ncell st)%positive -> get_cell st' c = get_cell st c.

Lemma cells_ext_refl st : cells_ext st st.
Proof. unfold cells_ext. repeat split; auto; lia. Qed.

Lemma cells_ext_trans a b c : cells_ext a b -> cells_ext b c -> cells_ext a c.
Proof.
  unfold cells_ext. intros (T1 & N1 & C1 & M1 & O1 & D1 & L1 & G1) (T2 & N2 & C2 & M2 & O2 & D2 & L2 & G2).
  repeat split; try congruence; try lia.
  intros p Hp. rewrite G2 by lia. apply G1. exact Hp.
Qed.

Lemma cells_ext_alloc st v : cells_ext st (snd (alloc_cell st v)).
Proof.
  unfold cells_ext, alloc_cell, get_cell. cbn [snd s_tabs s_ntab s_clos s_nclo s_out s_dialect s_ncell s_cells].
  repeat split; auto; try lia. intros c Hc. rewrite pget_pset_other by lia. reflexivity.
Qed.

Lemma cells_ext_linv st st' : cells_ext st st' -> linv st -> linv st'.
Proof.
  intros (T & N & C & M & O & D & L & G) H. eapply linv_frame; [exact H | exact T | exact D | | lia].
  intros id c Hc. rewrite C. exact Hc.
Qed.

Lemma cells_ext_glob st st' x v : cells_ext st st' -> glob st x v -> glob st' x v.
Proof. intros (T & _) H. eapply glob_frame; eassumption. Qed.

(* names are V<id>, pairwise bound to different cells, all allocated *)
Record wfenv (E : env) (st : state) : Prop := mkWfenv {
  wf_V : forall x p, sget x E = Some p -> exists v, x = fmt_var v;
  wf_inj : forall x y p, sget x E = Some p -> sget y E = Some p -> x = y;
  wf_alloc : forall x p, sget x E = Some p -> (p < s_ncell st)%positive
}.

Definition env_incl (E E' : env) : Prop := forall x p, sget x E = Some p -> sget x E' = Some p.

Lemma env_incl_refl E : env_incl E E. Proof. intros x p H; exact H. Qed.
Lemma env_incl_trans a b c : env_incl a b -> env_incl b c -> env_incl a c.
Proof. intros H1 H2 x p H. apply H2, H1, H. Qed.

(* every V<t> bound in E has t < c *)
Definition E_lt (E : env) (c : N) : Prop := forall t p, sget (fmt_var t) E = Some p -> t < c.

Lemma E_lt_mono E c c' : E_lt E c -> c <= c' -> E_lt E c'.
Proof. intros H Hc t p Ht. specialize (H t p Ht). lia. Qed.

Lemma wfenv_ext E st st' : wfenv E st -> (s_ncell st <= s_ncell st')%positive -> wfenv E st'.
Proof. intros [HV Hi Ha] Hl. constructor; auto. intros x p H. specialize (Ha x p H). lia. Qed.

Lemma sget_sset_var t t' (p : positive) (E : env) : t <> t' -> sget (fmt_var t) (sset (fmt_var t') p E) = sget (fmt_var t) E.
Proof. intros H. apply sget_sset_other. apply fmt_var_neq. exact H. Qed.

(* a new local V<t> in a fresh cell *)
Lemma wfenv_local E st t v :
  wfenv E st -> wfenv (sset (fmt_var t) (s_ncell st) E) (snd (alloc_cell st v)).
Proof.
  intros [HV Hi Ha]. constructor.
  - intros x p H. destruct (string_dec x (fmt_var t)) as [->|Hne]; [eauto|].
    rewrite sget_sset_other in H by exact Hne. eauto.
  - intros x y p Hx Hy.
    destruct (string_dec x (fmt_var t)) as [->|Hx']; destruct (string_dec y (fmt_var t)) as [->|Hy']; auto.
    + rewrite sget_sset_same in Hx. rewrite sget_sset_other in Hy by exact Hy'.
      inversion Hx; subst. specialize (Ha _ _ Hy). lia.
    + rewrite sget_sset_same in Hy. rewrite sget_sset_other in Hx by exact Hx'.
      inversion Hy; subst. specialize (Ha _ _ Hx). lia.
    + rewrite sget_sset_other in Hx, Hy by assumption. eauto.
  - intros x p H. cbn [alloc_cell snd s_ncell].
    destruct (string_dec x (fmt_var t)) as [->|Hne].
    + rewrite sget_sset_same in H. inversion H; subst. lia.
    + rewrite sget_sset_other in H by exact Hne. specialize (Ha _ _ H). lia.
Qed.

Lemma env_incl_local E t p c : E_lt E c -> c <= t -> env_incl E (sset (fmt_var t) p E).
Proof.
  intros Hlt Hc x q H. destruct (string_dec x (fmt_var t)) as [->|Hne].
  - specialize (Hlt _ _ H). lia.
  - rewrite sget_sset_other by exact Hne. exact H.
Qed.

Lemma E_lt_local E t p c : E_lt E c -> t < c -> E_lt (sset (fmt_var t) p E) c.
Proof.
  intros Hlt Hc t' q H. destruct (N.eq_dec t' t) as [->|Hne]; [exact Hc|].
  rewrite sget_sset_var in H by exact Hne. eauto.
Qed.

Lemma get_cell_alloc_old st v p : (p < s_ncell st)%positive -> get_cell (snd (alloc_cell st v)) p = get_cell st p.
Proof. intros H. apply (cells_ext_alloc st v). exact H. Qed.

Lemma get_cell_alloc_new st v : get_cell (snd (alloc_cell st v)) (s_ncell st) = v.
Proof. unfold alloc_cell, get_cell. cbn [snd s_cells]. rewrite pget_pset_same. reflexivity. Qed.

Lemma get_cell_set_same st p v : get_cell (set_cell st p v) p = v.
Proof. unfold set_cell, get_cell. cbn [s_cells]. rewrite pget_pset_same. reflexivity. Qed.
Lemma get_cell_set_other st p q v : q <> p -> get_cell (set_cell st p v) q = get_cell st q.
Proof. intros H. unfold set_cell, get_cell. cbn [s_cells]. rewrite pget_pset_other by exact H. reflexivity. Qed.

Lemma linv_set_cell st p v : linv st -> linv (set_cell st p v).
Proof. intros H. eapply linv_frame; [exact H | reflexivity | reflexivity | auto | cbn; lia]. Qed.
Lemma linv_alloc_cell st v : linv st -> linv (snd (alloc_cell st v)).
Proof. intros H. eapply linv_frame; [exact H | reflexivity | reflexivity | auto | cbn; lia]. Qed.
Lemma linv_emit_line st s : linv st -> linv (emit_line st s).
Proof. intros H. eapply linv_frame; [exact H | reflexivity | reflexivity | auto | cbn; lia]. Qed.

(* ------------------------------------------------------------------ futures, denotation *)

Definition fut (F : list N) (E : env) (st : state) (E2 : env) (st2 : state) : Prop :=
  forall t p, In t F -> sget (fmt_var t) E = Some p ->
              sget (fmt_var t) E2 = Some p /\ get_cell st2 p = get_cell st p.

Lemma fut_refl F E st : fut F E st E st.
Proof. intros t p _ H. auto. Qed.

Lemma fut_trans F E1 s1 E2 s2 E3 s3 : fut F E1 s1 E2 s2 -> fut F E2 s2 E3 s3 -> fut F E1 s1 E3 s3.
Proof.
  intros H1 H2 t p Ht Hp. destruct (H1 t p Ht Hp) as [Ha Hb]. destruct (H2 t p Ht Ha) as [Hc Hd].
  split; [exact Hc | congruence].
Qed.

Lemma fut_mono F F' E1 s1 E2 s2 : incl F' F -> fut F E1 s1 E2 s2 -> fut F' E1 s1 E2 s2.
Proof. intros Hi H t p Ht Hp. apply H; auto. Qed.

Lemma fut_cells_ext F E st st' : wfenv E st -> cells_ext st st' -> fut F E st E st'.
Proof.
  intros Hwf Hx t p _ Hp. split; [exact Hp|]. apply Hx. eapply wf_alloc; eassumption.
Qed.

Lemma fut_incl_cells F E st E' st' :
  env_incl E E' -> (forall x p, sget x E = Some p -> get_cell st' p = get_cell st p) -> fut F E st E' st'.
Proof. intros Hi Hc t p _ Hp. split; [apply Hi; exact Hp | eapply Hc; exact Hp]. Qed.

(* ex evaluates to exactly one value, lv, allocating at most garbage cells (both in a single-value
   position and as the last expression of a list, where a call would pass on ALL its results) *)
Definition PureEval (E : env) (st : state) (ex : expr) (lv : value) : Prop :=
  exists st', Eval E ex st (ROk lv st') /\ EvalMulti E ex st (ROk [lv] st') /\ cells_ext st st'.

Lemma PureEval_noncall E st ex lv st' :
  is_call ex = false -> Eval E ex st (ROk lv st') -> cells_ext st st' -> PureEval E st ex lv.
Proof. intros Hc H Hx. exists st'. split; [exact H | split; [apply EvalMulti_single; assumption | exact Hx]]. Qed.

Lemma PureEval_call E st f args lv st' :
  EvalCall E f args st (ROk [lv] st') -> cells_ext st st' -> PureEval E st (ECall f args) lv.
Proof.
  intros H Hx. exists st'. split; [apply (Eval_call _ _ _ _ [lv]); exact H | split; [apply EvalMulti_call; exact H | exact Hx]].
Qed.

(* the futures we quantify over: well-formed environments whose V-names are bounded, states with the
   preamble invariant *)
Definition denotes (F : list N) (E : env) (st : state) (ex : expr) (sv : sval) : Prop :=
  forall E2 st2, fut F E st E2 st2 -> wfenv E2 st2 -> linv st2 ->
                 exists lv, vrel sv lv /\ PureEval E2 st2 ex lv.

Lemma denotes_mono F F2 E st E2 st2 ex sv :
  denotes F E st ex sv -> fut F E st E2 st2 -> incl F F2 -> denotes F2 E2 st2 ex sv.
Proof.
  intros Hd Hf Hi E3 st3 Hf3 Hwf Hinv. apply Hd; auto.
  eapply fut_trans; [exact Hf|]. eapply fut_mono; eassumption.
Qed.

Lemma denotes_now F E st ex sv :
  denotes F E st ex sv -> wfenv E st -> linv st -> exists lv, vrel sv lv /\ PureEval E st ex lv.
Proof. intros H Hwf Hinv. apply H; auto. apply fut_refl. Qed.

(* a frozen temporary that is a local *)
Lemma denotes_local F E st t p sv :
  In t F -> sget (fmt_var t) E = Some p -> vrel sv (get_cell st p) -> denotes F E st (EVar (fmt_var t)) sv.
Proof.
  intros Ht Hp Hv E2 st2 Hf _ _. destruct (Hf t p Ht Hp) as [Hp2 Hc].
  exists (get_cell st p). split; [exact Hv|].
  apply (PureEval_noncall _ _ _ _ st2); [reflexivity | | apply cells_ext_refl].
  rewrite <- Hc. apply Eval_local. exact Hp2.
Qed.

Lemma PureEval_paren E st ex lv : PureEval E st ex lv -> PureEval E st (EParen ex) lv.
Proof. intros (st' & H & _ & Hx). apply (PureEval_noncall _ _ _ _ st'); [reflexivity | apply Eval_paren; exact H | exact Hx]. Qed.

Lemma denotes_paren F E st ex sv : denotes F E st ex sv -> denotes F E st (EParen ex) sv.
Proof.
  intros H E2 st2 Hf Hwf Hinv. destruct (H E2 st2 Hf Hwf Hinv) as (lv & Hv & Hp).
  exists lv. split; [exact Hv | apply PureEval_paren; exact Hp].
Qed.

(* ------------------------------------------------------------------ the main relation *)

(* ---- top-level functions (stage 3b).  A function is described by a record with the static facts about
   its code and the dynamic ones (which cells, which closures); a `world` fixes, for the run of one function
   body, the functions that exist and the cells whose content cannot change during that run: the cells of
   the function names and, inside a call, the cells of the caller that the callee cannot reach. ---- *)
Record fdyn := mkFdyn {
  fd_var : N; fd_params : list N; fd_body : list Resolved.stmt;
  fd_sc : list N;                 (* the global values its body sees *)
  fd_fl : list (N * nat);         (* the functions its body can call: the earlier ones and itself *)
  fd_g : nat; fd_k : nat; fd_scout : list N * list (N * nat);
  fd_code : list ir; fd_ctx : N; fd_c : N; fd_c' : N; fd_lut : alut;
  fd_cf : nat; fd_ci : nat; fd_ef : senv;            (* Sylt: cell of the name, closure index, closure environment *)
  fd_pf : positive; fd_fid : positive; fd_Ef : env   (* Lua: cell of the name, closure id, closure environment *)
}.

Record world := mkWorld {
  w_IS : nat -> sval -> Prop;          (* Sylt cells with a fixed content *)
  w_IL : positive -> value -> Prop;    (* Lua cells with a fixed content *)
  w_CS : nat -> SyltSem.closure -> Prop;     (* Sylt closure-table entries that stay *)
  w_CL : positive -> closure -> Prop;        (* Lua closure-table entries that stay *)
  w_funs : list fdyn                   (* the functions that can be called by name: all of them are visible *)
}.

Definition fnames (fl : list (N * nat)) : list N := map fst fl.

(* a world that fixes at least what another one fixes *)
Definition wsub (W W' : world) : Prop :=
  (forall c x, w_IS W c x -> w_IS W' c x) /\ (forall p lv, w_IL W p lv -> w_IL W' p lv) /\
  (forall ci cl, w_CS W ci cl -> w_CS W' ci cl) /\ (forall fid c, w_CL W fid c -> w_CL W' fid c) /\
  incl (w_funs W) (w_funs W').
Lemma wsub_refl W : wsub W W. Proof. repeat split; auto. apply incl_refl. Qed.
Lemma wsub_trans W1 W2 W3 : wsub W1 W2 -> wsub W2 W3 -> wsub W1 W3.
Proof. intros (A & B & C & D & F) (A' & B' & C' & D' & F'). repeat split; auto. eapply incl_tran; eassumption. Qed.

Section Rel.
Variable pv : N.       (* the id of the external print *)
Variable sv : N.       (* the id of start *)
Variable bound : N.    (* |r_vars| + 1: where the temporaries start *)
Variable u : counts.   (* the usage counts of the whole program *)

(* what a function's body can name besides its parameters and locals *)
Definition fvis (d : fdyn) (g : N) : Prop := In g (fd_sc d) \/ In g (fnames (fd_fl d)).

(* the facts about a function that never change *)
Record fstatic (d : fdyn) : Prop := mkFstatic {
  fs_lower : lower_fbody (statement (fd_g d)) (expression (fd_g d)) (fd_body d) (fd_ctx d) (fd_c d) = Ok (fd_code d, fd_c' d);
  fs_frag : frag_stmts pv sv bound (fd_fl d) (fd_k d) (rev (fd_params d) ++ fd_sc d) (fd_body d) = Some (fd_scout d);
  fs_params : params_ok pv sv bound (fd_fl d) (fd_sc d) (fd_params d) = true;
  fs_self : In (fd_var d, length (fd_params d)) (fd_fl d);
  fs_var : fd_var d < bound /\ fd_var d <> pv /\ fd_var d <> sv;
  fs_scb : forall g, In g (fd_sc d) -> g < bound /\ g <> pv;
  fs_flb : forall g, In g (fnames (fd_fl d)) -> g < bound /\ g <> pv;
  fs_ucov : ucovers u (fd_code d);
  fs_bound : bound <= fd_c d;
  fs_lut : forall t, (fd_c d <= t < fd_c' d \/ t < bound) -> alut_get (fd_lut d) t = None;
  fs_Efree : forall t, fd_c d <= t < fd_c' d -> sget (fmt_var t) (fd_Ef d) = None;
  fs_EpvE : sget (fmt_var pv) (fd_Ef d) = None;
  fs_EV : forall x p, sget x (fd_Ef d) = Some p -> exists v, x = fmt_var v;
  fs_Einj : forall x y p, sget x (fd_Ef d) = Some p -> sget y (fd_Ef d) = Some p -> x = y;
  fs_print : exists cp, SyltSem.lookup (fd_ef d) pv = Some cp
}.

(* the body of the Lua closure of a function *)
Definition fbody (d : fdyn) : block := estack u (fd_lut d) [] [] (fd_code d).

(* a function as seen from an environment in which it can be called: the name is bound to its cells, and the
   closure environments agree with this one on everything the body of the function can name *)
Record fvisS (e : senv) (d : fdyn) : Prop := mkFvisS {
  vs_name : SyltSem.lookup e (fd_var d) = Some (fd_cf d);
  vs_agree : forall g, fvis d g \/ g = pv -> SyltSem.lookup (fd_ef d) g = SyltSem.lookup e g
}.
Record fvisL (E : env) (d : fdyn) : Prop := mkFvisL {
  vl_name : sget (fmt_var (fd_var d)) E = Some (fd_pf d);
  vl_agree : forall g, fvis d g -> sget (fmt_var g) (fd_Ef d) = sget (fmt_var g) E
}.

Section World.
Variable fl : list (N * nat).   (* the functions that can be called from the code being run *)
Variable W : world.

(* the Lua cells of the variables in scope can be written: their content is not fixed *)
Definition lprot_ok (sc : list N) (E : env) : Prop :=
  forall v p lv, In v sc -> sget (fmt_var v) E = Some p -> ~ w_IL W p lv.

Record winv (sc : list N) (e : senv) (st : sstate) (E : env) (stL : state) : Prop := mkWinv {
  (* state *)
  wi_IS : forall c x, w_IS W c x -> nth_error (SyltSem.cells st) c = Some x;
  wi_IL : forall p lv, w_IL W p lv -> get_cell stL p = lv /\ (p < s_ncell stL)%positive;
  wi_CS : forall ci cl, w_CS W ci cl -> nth_error (SyltSem.clos st) ci = Some cl;
  wi_CL : forall fid c, w_CL W fid c -> pget fid (s_clos stL) = Some c /\ (fid < s_nclo stL)%positive;
  wi_allvis : forall d, In d (w_funs W) -> In (fd_var d) (fnames fl);
  wi_clos : forall d, In d (w_funs W) ->
            nth_error (SyltSem.clos st) (fd_ci d) = Some (SyltSem.mkClos (fd_params d) (fd_body d) (fd_ef d)) /\
            pget (fd_fid d) (s_clos stL) = Some (mkClosure (fd_Ef d) (map fmt_var (fd_params d)) (fbody d)) /\
            (forall x p, sget x (fd_Ef d) = Some p -> (p < s_ncell stL)%positive) /\
            (fd_fid d < s_nclo stL)%positive /\ (fd_ci d < length (SyltSem.clos st))%nat;
  (* the functions *)
  wi_fun : forall d, In d (w_funs W) ->
           fstatic d /\ w_IS W (fd_cf d) (SyltSem.SClos (fd_ci d)) /\ w_IL W (fd_pf d) (VFun (fd_fid d));
  wi_inter : forall d d', In d (w_funs W) -> In d' (w_funs W) -> In (fd_var d') (fnames (fd_fl d)) ->
             fvisS (fd_ef d) d' /\ fvisL (fd_Ef d) d' /\ incl (fd_sc d') (fd_sc d) /\ incl (fd_fl d') (fd_fl d);
  wi_cover : forall f ar, In (f, ar) fl -> exists d, In d (w_funs W) /\ fd_var d = f /\ length (fd_params d) = ar;
  wi_uniq : forall d d', In d (w_funs W) -> In d' (w_funs W) -> fd_var d = fd_var d' -> d = d';
  (* the current scope *)
  wi_scS : forall v c x, In v sc -> SyltSem.lookup e v = Some c -> ~ w_IS W c x;
  wi_scfl : forall v, In v sc -> ~ In v (fnames fl);
  wi_lprot : lprot_ok sc E;
  wi_visS : forall d, In d (w_funs W) -> In (fd_var d) (fnames fl) -> fvisS e d;
  wi_visL : forall d, In d (w_funs W) -> In (fd_var d) (fnames fl) -> fvisL E d;
  wi_vsc : forall d, In d (w_funs W) -> In (fd_var d) (fnames fl) -> incl (fd_sc d) sc /\ incl (fd_fl d) fl
}.
End World.

Variable fl : list (N * nat).
Variable W : world.

Record rel (sc : list N) (e : senv) (st : sstate) (E : env) (stL : state) : Prop := mkRel {
  r_vars : forall v, In v sc ->
           exists c x p, SyltSem.lookup e v = Some c /\ nth_error (SyltSem.cells st) c = Some x /\
                         sget (fmt_var v) E = Some p /\ vrel x (get_cell stL p);
  r_scb : forall v, In v sc -> v < bound /\ v <> pv;
  r_sinj : forall v1 v2 c, In v1 sc -> In v2 sc ->
           SyltSem.lookup e v1 = Some c -> SyltSem.lookup e v2 = Some c -> v1 = v2;
  r_print : exists c, SyltSem.lookup e pv = Some c /\ nth_error (SyltSem.cells st) c = Some (SyltSem.SExt "print") /\
                      forall v, In v sc -> SyltSem.lookup e v <> Some c;
  r_pvb : pv < bound;
  r_pvE : sget (fmt_var pv) E = None;
  r_pvG : glob stL (fmt_var pv) (VBuiltin BPrint);
  r_wf : wfenv E stL;
  r_trace : SyltSem.trace st = s_out stL;
  r_linv : linv stL;
  r_world : winv fl W sc e st E stL
}.

(* ---- the world invariant under the changes of state and environment the simulation makes ---- *)

Lemma winv_states_gen sc e st E stL st' stL' :
  winv fl W sc e st E stL ->
  (forall c x, w_IS W c x -> nth_error (SyltSem.cells st') c = nth_error (SyltSem.cells st) c) ->
  (forall ci, (ci < length (SyltSem.clos st))%nat -> nth_error (SyltSem.clos st') ci = nth_error (SyltSem.clos st) ci) ->
  (length (SyltSem.clos st) <= length (SyltSem.clos st'))%nat ->
  (forall p lv, w_IL W p lv -> get_cell stL' p = get_cell stL p) ->
  (s_ncell stL <= s_ncell stL')%positive ->
  (forall fid, (fid < s_nclo stL)%positive -> pget fid (s_clos stL') = pget fid (s_clos stL)) ->
  (s_nclo stL <= s_nclo stL')%positive ->
  winv fl W sc e st' E stL'.
Proof.
  intros [H1 H2 HCS HCL Hav H3 H4 H5 H6 H7 H8 H9 H10 H11 H12 H13] Hs Hc Hcl Hl Hn Hlc Hnc.
  constructor; auto.
  - intros c x Hx. rewrite (Hs c x Hx). apply H1. exact Hx.
  - intros p lv Hp. destruct (H2 p lv Hp) as [Ha Hb]. split; [rewrite (Hl p lv Hp); exact Ha | lia].
  - intros ci cl Hx. pose proof (HCS ci cl Hx) as Hn0. rewrite Hc; [exact Hn0 | apply nth_error_Some; congruence].
  - intros fid c0 Hx. destruct (HCL fid c0 Hx) as [Ha Hb]. split; [rewrite (Hlc _ Hb); exact Ha | lia].
  - intros d Hd. destruct (H3 d Hd) as (Ha & Hb & Hcc & Hf & Hci).
    split; [rewrite (Hc _ Hci); exact Ha|]. split; [rewrite (Hlc _ Hf); exact Hb|].
    split; [intros x p Hx; specialize (Hcc x p Hx); lia|]. split; lia.
Qed.

Lemma winv_states sc e st E stL st' stL' :
  winv fl W sc e st E stL ->
  (forall c x, w_IS W c x -> nth_error (SyltSem.cells st') c = nth_error (SyltSem.cells st) c) ->
  SyltSem.clos st' = SyltSem.clos st ->
  (forall p lv, w_IL W p lv -> get_cell stL' p = get_cell stL p) ->
  (s_ncell stL <= s_ncell stL')%positive -> s_clos stL' = s_clos stL -> s_nclo stL' = s_nclo stL ->
  winv fl W sc e st' E stL'.
Proof.
  intros Hw Hs Hc Hl Hn Hlc Hnc. apply (winv_states_gen sc e st E stL st' stL' Hw Hs); auto.
  - intros ci _. rewrite Hc. reflexivity.
  - rewrite Hc. lia.
  - intros fid _. rewrite Hlc. reflexivity.
  - rewrite Hnc. lia.
Qed.

(* the same states, another scope and environments *)
Lemma winv_env sc e st E stL sc' e' E' :
  winv fl W sc e st E stL ->
  (forall v c x, In v sc' -> SyltSem.lookup e' v = Some c -> ~ w_IS W c x) ->
  (forall v, In v sc' -> ~ In v (fnames fl)) ->
  lprot_ok W sc' E' ->
  (forall d, In d (w_funs W) -> In (fd_var d) (fnames fl) -> fvisS e' d) ->
  (forall d, In d (w_funs W) -> In (fd_var d) (fnames fl) -> fvisL E' d) ->
  (forall d, In d (w_funs W) -> In (fd_var d) (fnames fl) -> incl (fd_sc d) sc' /\ incl (fd_fl d) fl) ->
  winv fl W sc' e' st E' stL.
Proof. intros [H1 H2 HCS HCL Hav H3 H4 H5 H6 H7 H8 H9 H10 H11 H12 H13] A B C D F G. constructor; auto. Qed.

(* every name a callable function's body can see, and the function names, are user variables *)
Lemma winv_fvis_bound sc e st E stL d g :
  winv fl W sc e st E stL -> In d (w_funs W) -> fvis d g \/ g = fd_var d -> g < bound /\ g <> pv.
Proof.
  intros Hw Hd Hg. destruct (wi_fun _ _ _ _ _ _ _ Hw d Hd) as (Hs & _ & _).
  destruct Hg as [[Hg|Hg]|Hg]; [apply (fs_scb _ Hs); exact Hg | apply (fs_flb _ Hs); exact Hg | subst g; destruct (fs_var _ Hs) as (A & B & _); split; assumption].
Qed.

(* a Lua environment that differs from E only on temporaries and on one new user variable that no function sees *)
Lemma fvisL_same E E' d :
  fvisL E d -> sget (fmt_var (fd_var d)) E' = sget (fmt_var (fd_var d)) E ->
  (forall g, fvis d g -> sget (fmt_var g) E' = sget (fmt_var g) E) -> fvisL E' d.
Proof.
  intros [Ha Hb] H1 H2. constructor; [rewrite H1; exact Ha|]. intros g Hg. rewrite (H2 g Hg). apply Hb. exact Hg.
Qed.

Lemma fvisS_same e e' d :
  fvisS e d -> SyltSem.lookup e' (fd_var d) = SyltSem.lookup e (fd_var d) ->
  (forall g, fvis d g \/ g = pv -> SyltSem.lookup e' g = SyltSem.lookup e g) -> fvisS e' d.
Proof.
  intros [Ha Hb] H1 H2. constructor; [rewrite H1; exact Ha|]. intros g Hg. rewrite (H2 g Hg). apply Hb. exact Hg.
Qed.

(* a new temporary local on the Lua side *)
Lemma winv_local_temp sc e st E stL t v :
  winv fl W sc e st E stL -> (forall w, In w sc -> w < bound /\ w <> pv) -> bound <= t ->
  winv fl W sc e st (sset (fmt_var t) (s_ncell stL) E) (snd (alloc_cell stL v)).
Proof.
  intros Hw Hb Hbt.
  assert (Hw1 : winv fl W sc e st E (snd (alloc_cell stL v))).
  { apply (winv_states sc e st E stL st (snd (alloc_cell stL v)) Hw); auto.
    - intros p lv Hp. apply get_cell_alloc_old. apply (wi_IL _ _ _ _ _ _ _ Hw p lv Hp).
    - cbn; lia. }
  apply (winv_env sc e st E (snd (alloc_cell stL v)) sc e _ Hw1).
  - apply (wi_scS _ _ _ _ _ _ _ Hw).
  - apply (wi_scfl _ _ _ _ _ _ _ Hw).
  - intros w p lv Hin Hx. rewrite sget_sset_var in Hx by (destruct (Hb w Hin); lia).
    eapply (wi_lprot _ _ _ _ _ _ _ Hw); eassumption.
  - apply (wi_visS _ _ _ _ _ _ _ Hw).
  - intros d Hd Hv. apply (fvisL_same E); [apply (wi_visL _ _ _ _ _ _ _ Hw d Hd Hv) | |].
    + apply sget_sset_var. destruct (winv_fvis_bound _ _ _ _ _ d (fd_var d) Hw Hd (or_intror eq_refl)). lia.
    + intros g Hg. apply sget_sset_var. destruct (winv_fvis_bound _ _ _ _ _ d g Hw Hd (or_introl Hg)). lia.
  - apply (wi_vsc _ _ _ _ _ _ _ Hw).
Qed.

(* garbage cells on the Lua side *)
Lemma rel_cells_ext sc e st E stL stL' : rel sc e st E stL -> cells_ext stL stL' -> rel sc e st E stL'.
Proof.
  intros [Hv Hb Hi Hp Hpb HpE HpG Hwf Ht Hl HW] Hx. constructor.
  - intros v Hin. destruct (Hv v Hin) as (c & x & p & H1 & H2 & H3 & H4).
    exists c, x, p. repeat split; auto. destruct Hx as (_ & _ & _ & _ & _ & _ & _ & Hg).
    rewrite Hg; [exact H4 | eapply wf_alloc; eassumption].
  - exact Hb.
  - exact Hi.
  - exact Hp.
  - exact Hpb.
  - exact HpE.
  - eapply cells_ext_glob; eassumption.
  - eapply wfenv_ext; [exact Hwf | apply Hx].
  - destruct Hx as (_ & _ & _ & _ & Ho & _). congruence.
  - eapply cells_ext_linv; eassumption.
  - destruct Hx as (_ & _ & Hc & Hnc & _ & _ & Hn & Hg).
    apply (winv_states sc e st E stL st stL' HW); auto.
    intros p lv Hp'. apply Hg. apply (wi_IL _ _ _ _ _ _ _ HW p lv Hp').
Qed.

(* a new temporary local *)
Lemma rel_local_temp sc e st E stL t v :
  rel sc e st E stL -> bound <= t ->
  rel sc e st (sset (fmt_var t) (s_ncell stL) E) (snd (alloc_cell stL v)).
Proof.
  intros [Hv Hb Hi Hp Hpb HpE HpG Hwf Ht Hl HW] Hbt. constructor.
  - intros w Hin. destruct (Hv w Hin) as (c & x & p & H1 & H2 & H3 & H4).
    exists c, x, p. repeat split; auto.
    + rewrite sget_sset_var; [exact H3 | destruct (Hb w Hin); lia].
    + rewrite get_cell_alloc_old; [exact H4 | eapply wf_alloc; eassumption].
  - exact Hb.
  - exact Hi.
  - exact Hp.
  - exact Hpb.
  - rewrite sget_sset_var; [exact HpE | lia].
  - eapply glob_frame; [|exact HpG]. reflexivity.
  - apply wfenv_local. exact Hwf.
  - exact Ht.
  - apply linv_alloc_cell. exact Hl.
  - apply winv_local_temp; assumption.
Qed.

(* writing the cell of a temporary *)
Lemma rel_set_temp sc e st E stL t p v :
  rel sc e st E stL -> bound <= t -> sget (fmt_var t) E = Some p -> (forall lv, ~ w_IL W p lv) ->
  rel sc e st E (set_cell stL p v).
Proof.
  intros [Hv Hb Hi Hp Hpb HpE HpG Hwf Ht Hl HW] Hbt Htp Hnp. constructor.
  - intros w Hin. destruct (Hv w Hin) as (c & x & q & H1 & H2 & H3 & H4).
    exists c, x, q. repeat split; auto.
    rewrite get_cell_set_other; [exact H4|].
    intros ->. assert (fmt_var w = fmt_var t) by (eapply wf_inj; eassumption).
    apply fmt_var_inj in H. destruct (Hb w Hin). lia.
  - exact Hb.
  - exact Hi.
  - exact Hp.
  - exact Hpb.
  - exact HpE.
  - eapply glob_frame; [|exact HpG]. reflexivity.
  - eapply wfenv_ext; [exact Hwf | cbn; lia].
  - exact Ht.
  - apply linv_set_cell. exact Hl.
  - apply (winv_states sc e st E stL st (set_cell stL p v) HW); auto; [|cbn; lia].
    intros q lv Hq. apply get_cell_set_other. intros ->. exact (Hnp lv Hq).
Qed.

End Rel.
