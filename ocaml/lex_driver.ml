(* Driver for the extracted lexer model: reads hex-encoded UTF-8 sources, one per line, prints the
   same canonical token line as `verif-harness lex`. *)
open Lexmodel

let rec pos_of_int n = if n = 1 then XH else if n land 1 = 1 then XI (pos_of_int (n lsr 1)) else XO (pos_of_int (n lsr 1))
let n_of_int n = if n = 0 then N0 else Npos (pos_of_int n)
let rec int_of_pos = function XH -> 1 | XO p -> 2 * int_of_pos p | XI p -> 2 * int_of_pos p + 1
let int_of_n = function N0 -> 0 | Npos p -> int_of_pos p

(* decimal rendering of a possibly huge N: only used for Int payloads <= i64::MAX *)
let rec int64_of_pos = function XH -> 1L | XO p -> Int64.mul 2L (int64_of_pos p) | XI p -> Int64.add (Int64.mul 2L (int64_of_pos p)) 1L
let string_of_n = function N0 -> "0" | Npos p -> Int64.to_string (int64_of_pos p)

let unhex s =
  if s = "-" then Bytes.empty else begin
    let n = String.length s / 2 in
    let b = Bytes.create n in
    for i = 0 to n - 1 do
      Bytes.set b i (Char.chr (int_of_string ("0x" ^ String.sub s (2*i) 2)))
    done; b end

let hex_of_string s =
  if s = "" then "-" else begin
    let b = Buffer.create (2 * String.length s) in
    String.iter (fun c -> Buffer.add_string b (Printf.sprintf "%02x" (Char.code c))) s;
    Buffer.contents b end

let decode_utf8 (b : Bytes.t) : int list =
  let n = Bytes.length b in
  let rec go i acc =
    if i >= n then List.rev acc else
    let c = Char.code (Bytes.get b i) in
    let g k = Char.code (Bytes.get b (i+k)) land 0x3f in
    if c < 0x80 then go (i+1) (c :: acc)
    else if c < 0xe0 then go (i+2) ((((c land 0x1f) lsl 6) lor g 1) :: acc)
    else if c < 0xf0 then go (i+3) ((((c land 0x0f) lsl 12) lor (g 1 lsl 6) lor g 2) :: acc)
    else go (i+4) ((((c land 0x07) lsl 18) lor (g 1 lsl 12) lor (g 2 lsl 6) lor g 3) :: acc)
  in go 0 []

let encode_utf8 (cps : int list) : string =
  let b = Buffer.create 16 in
  List.iter (fun c ->
    if c < 0x80 then Buffer.add_char b (Char.chr c)
    else if c < 0x800 then (Buffer.add_char b (Char.chr (0xc0 lor (c lsr 6))); Buffer.add_char b (Char.chr (0x80 lor (c land 0x3f))))
    else if c < 0x10000 then (Buffer.add_char b (Char.chr (0xe0 lor (c lsr 12))); Buffer.add_char b (Char.chr (0x80 lor ((c lsr 6) land 0x3f))); Buffer.add_char b (Char.chr (0x80 lor (c land 0x3f))))
    else (Buffer.add_char b (Char.chr (0xf0 lor (c lsr 18))); Buffer.add_char b (Char.chr (0x80 lor ((c lsr 12) land 0x3f))); Buffer.add_char b (Char.chr (0x80 lor ((c lsr 6) land 0x3f))); Buffer.add_char b (Char.chr (0x80 lor (c land 0x3f))))) cps;
  Buffer.contents b

let string_of_chars (l : char list) = String.of_seq (List.to_seq l)
let text_hex (l : n list) = hex_of_string (encode_utf8 (List.map int_of_n l))

let () =
  let tab = if Sys.argv.(1) = "doc" then doc_tab else gen_table in
  let ic = open_in Sys.argv.(2) in
  (try
    while true do
      let line = input_line ic in
      let cps = List.map n_of_int (decode_utf8 (unhex line)) in
      let toks = lex tab cps in
      let b = Buffer.create 256 in
      Buffer.add_string b "T";
      List.iter (fun t ->
        let kind = string_of_chars t.t_kind in
        let pl = match t.t_pl with
          | PNone -> "-"
          | PText s -> text_hex s
          | PInt z -> hex_of_string (string_of_n z)
          | PFloatText s -> text_hex s
          | PBool true -> hex_of_string "true"
          | PBool false -> hex_of_string "false" in
        let sp = t.t_span in
        Buffer.add_string b (Printf.sprintf " %s/%s/%d/%d/%d/%d" kind pl
          (int_of_n sp.line_start) (int_of_n sp.line_end) (int_of_n sp.col_start) (int_of_n sp.col_end))) toks;
      print_endline (Buffer.contents b)
    done
  with End_of_file -> ());
  close_in ic
