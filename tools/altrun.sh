#!/bin/bash
# usage: tools/altrun.sh <repo-worktree> <ID> [ID...]
# Runs the checks against ANOTHER checkout of the repository without touching /repo or /verif:
# copies /verif to a scratch directory, points the harness at the worktree, and runs check.py there.
set -e
wt=$1; shift
alt=/tmp/verif-alt-$(echo "$wt" | md5sum | cut -c1-8)
mkdir -p "$alt"
rsync -a --delete --exclude .git --exclude build/target --exclude build/tmp --exclude evidence/replay /verif/ "$alt"/
mkdir -p "$alt/build/tmp"
sed -i "s|path = \"/repo/|path = \"$wt/|" "$alt/harness/Cargo.toml"
sed -i "s|/verif/build/target|$alt/build/target|" "$alt/harness/.cargo/config.toml"
cp "$wt/Cargo.lock" "$alt/harness/Cargo.lock"
cd "$alt"
for id in "$@"; do
  VERIF_REPO="$wt" python3 tools/check.py "$id" 2>&1 | grep -E "^VIOLATION|^KNOWN|^$id:|BROKEN" | cut -c1-400
  f=$(ls -t "$alt"/evidence/replay/$id-*.json 2>/dev/null | head -1)
  [ -n "$f" ] && echo "replay: $f"
done
