(* Every place in the five crates that can panic by construction (unreachable!/panic!/assert!/unwrap/
   expect/remove(0)), reviewed BY HAND: why it cannot fire on the compile path, or which model covers it.
   Props/C07.v proves that the list regenerated from /repo on every run equals this one (same file,
   function, kind, multiplicity), so a new panic site breaks the obligation and the totality oracle runs. *)
From Coq Require Import String List.
Import ListNotations.
Local Open Scope string_scope.

Inductive pclass :=
| Guarded     (* an earlier phase or a local invariant excludes it (reason in the comment) *)
| Modelled    (* on a path covered by a Coq model; the model represents it as Panic / proves it away *)
| Rendering   (* only while rendering an error for display *)
| Driver.     (* command-line driver / OS interaction, outside compile() (see C20) *)

Record psite := mkPS { p_file : string; p_fn : string; p_kind : string; p_count : nat; p_class : pclass }.

Definition doc_sites : list psite := [
  (* line.unwrap() on a BufRead line of a file that was opened: fails only on an I/O error or invalid UTF-8 in a file read from disk while rendering; sources served by the reader were already read as UTF-8 *)
  mkPS "sylt-common/src/error.rs" "write_source_line_from_file_at" ".unwrap" 1 Rendering;
  (* tree() always yields at least the main module when it returns Ok *)
  mkPS "sylt-compiler/src/compiler.rs" "compile" "assert!" 1 Guarded;
  (* tree() visits every file once (visited set), so no path occurs twice in modules *)
  mkPS "sylt-compiler/src/compiler.rs" "extract_namespaces" "unreachable!" 1 Guarded;
  (* spans carry file ids assigned by tree(); every id is in namespace_id_to_file *)
  mkPS "sylt-compiler/src/compiler.rs" "file_from_namespace" ".unwrap" 1 Guarded;
  (* resolve() fails unless a global named start exists in file 0 *)
  mkPS "sylt-compiler/src/intermediate.rs" "compile" ".unwrap" 1 Guarded;
  (* Back/IR.v definition: the lowering of a function expression starts with IFunction *)
  mkPS "sylt-compiler/src/intermediate.rs" "definition" "unreachable!" 1 Modelled;
  (* Back/IR.v expression: BinOp::Nop never occurs in an expression (only assignments carry it) *)
  mkPS "sylt-compiler/src/intermediate.rs" "expression" "unreachable!" 1 Modelled;
  (* Back/IR.v statement: assignment targets/ops are checked by the type checker (Assignability), type declarations inside functions are rejected by it (fix e6cc715) *)
  mkPS "sylt-compiler/src/intermediate.rs" "statement" "unreachable!" 3 Modelled;
  (* ty_assignable returns Type::UserType or an error *)
  mkPS "sylt-compiler/src/name_resolution.rs" "expression" "unreachable!" 1 Guarded;
  (* min() over an array of two Options is Some; the inner value may be None and is cloned as such *)
  mkPS "sylt-compiler/src/name_resolution.rs" "find_similar_name" ".unwrap" 1 Guarded;
  (* only called on results built by resolution_error!, which always holds one CompileError *)
  mkPS "sylt-compiler/src/name_resolution.rs" "help" "panic!" 1 Guarded;
  (* only called on results built by resolution_error! *)
  mkPS "sylt-compiler/src/name_resolution.rs" "help_no_span" "panic!" 1 Guarded;
  (* a Namespace entry is only inserted for a file that has a namespace (resolve_global_variables checks contains_key) *)
  mkPS "sylt-compiler/src/name_resolution.rs" "namespace_type_list" ".unwrap" 1 Guarded;
  (* the current file's namespace was inserted by insert_namespace_and_add_definitions for every module *)
  mkPS "sylt-compiler/src/name_resolution.rs" "resolve_global_variables" ".unwrap" 2 Guarded;
  (* definition() is only called with Statement::Definition *)
  mkPS "sylt-compiler/src/typechecker.rs" "definition" "unreachable!" 1 Guarded;
  (* an if-expression has at least one branch (parser) *)
  mkPS "sylt-compiler/src/typechecker.rs" "expression" ".unwrap" 1 Guarded;
  (* index expressions are integer literals (parser: assignable_index); BinOp::Nop never occurs in an expression *)
  mkPS "sylt-compiler/src/typechecker.rs" "expression" "unreachable!" 2 Guarded;
  (* only called on results built by err_type_error! *)
  mkPS "sylt-compiler/src/typechecker.rs" "help" "panic!" 1 Guarded;
  (* only called on results built by err_type_error! *)
  mkPS "sylt-compiler/src/typechecker.rs" "help_no_span" "panic!" 1 Guarded;
  (* span.file_id of a declared blob is a loaded file *)
  mkPS "sylt-compiler/src/typechecker.rs" "inner_bake_type" ".unwrap" 1 Guarded;
  (* the parser only builds Resolved(Void|Nil|Unknown|Int|Float|Bool|String) *)
  mkPS "sylt-compiler/src/typechecker.rs" "inner_resolve_type" "unreachable!" 1 Guarded;
  (* outer_statement in the parser only lets definitions, type declarations and imports through *)
  mkPS "sylt-compiler/src/typechecker.rs" "outer_statement" "unreachable!" 1 Guarded;
  (* not a tuple implies exactly one expression was parsed before the closing parenthesis (else expect! raised) *)
  mkPS "sylt-parser/src/expression.rs" "grouping_or_tuple" ".remove(0)" 1 Guarded;
  (* the same token was matched against the same list a few lines above *)
  mkPS "sylt-parser/src/expression.rs" "infix" "unreachable!" 1 Guarded;
  (* detail_if_error! is only applied to results whose errors are SyntaxErrors (unused macro in the pinned tree) *)
  mkPS "sylt-parser/src/parser.rs" "parse_sep_end_by" "unreachable!" 1 Guarded;
  (* a grouping holds exactly one type (expect! on the closing parenthesis raised otherwise) *)
  mkPS "sylt-parser/src/parser.rs" "parse_type" ".remove(0)" 1 Guarded;
  (* parse_type_constraint_argument stops only at '+' ',' '>' (EOF raises before) *)
  mkPS "sylt-parser/src/parser.rs" "parse_type" "unreachable!" 1 Guarded;
  (* the preamble library parses (it is a fixed source shipped with the compiler; exercised by every std run) *)
  mkPS "sylt-parser/src/parser.rs" "tree" ".expect" 1 Guarded;
  (* path.parent() of the main file: None only for the paths '' and '/', which name no file; library_source of a known library name *)
  mkPS "sylt-parser/src/parser.rs" "tree" ".unwrap" 3 Driver;
  (* the lookahead that selected this arm saw '::' or ':=' *)
  mkPS "sylt-parser/src/statement.rs" "item" "unreachable!" 1 Guarded;
  (* a use path that reached here has at least one identifier segment ('/' alone raises 'Using root requires alias'); identifiers are UTF-8 *)
  mkPS "sylt-parser/src/statement.rs" "statement" ".unwrap" 2 Guarded;
  (* ctx.file is a file path with a file name, so it has a parent *)
  mkPS "sylt-parser/src/statement.rs" "use_path" ".unwrap" 1 Guarded;
  (* Lex/Logos.v: token boundaries are char boundaries (C17_tiles), so char_at_byte is Some there *)
  mkPS "sylt-tokenizer/src/tokenizer.rs" "string_to_tokens" ".unwrap" 4 Modelled;
  (* main() refuses an empty argument list before calling *)
  mkPS "sylt/src/lib.rs" "compile_with_reader_to_writer" ".expect" 1 Driver;
  (* spawning `lua` / creating the output file: OS behaviour (C20) *)
  mkPS "sylt/src/lib.rs" "run_file_with_reader" ".expect" 2 Driver;
  (* child process plumbing: OS behaviour (C20) *)
  mkPS "sylt/src/lib.rs" "run_file_with_reader" ".unwrap" 3 Driver
].
