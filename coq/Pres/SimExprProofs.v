(* P_eval_all: the simulation for the expressions of the fragment (statement in Pres/SimExpr.v), by induction
   on the fuel of the reference interpreter.  Cases: variable reads, print calls, + - * and the
   comparisons (through __ADD / Lua operators), <=> (assert), and/or (the conditional assignment shape
   with its result variable), not, unary minus, literals. *)
From Coq Require Import String Ascii List NArith ZArith QArith Bool Lia.
From Sylt Require Import Syntax.Resolved.
From Sylt Require Sem.Values Sem.Runtime Sem.SyltSem.
From Sylt Require Import Back.IR Back.Emit Back.ScopeProofs.
From Sylt Require Import Pres.EmitAst Pres.EmitRel Pres.Names Pres.LuaFuel Pres.LuaEv Pres.Preamble.
From Sylt Require Import Pres.Frag.
From Sylt Require Import Pres.SimDefs Pres.SimOps Pres.SimVals.
From Sylt Require Import Pres.SimExpr Pres.LowerShape Pres.SimSteps.
From Sylt Require Import Lua.LuaAst Lua.LuaMap Lua.LuaNum Lua.LuaProofs Lua.LuaCore.
Import ListNotations.
Local Open Scope N_scope.

Section Sim.
Variable pv : N.
Variable sv : N.
Variable bound : N.
Variable u : counts.
Variable fl : list (N * kind).
Variable W : world.

Notation okstep := (okstep pv sv bound u fl W).
Notation rel := (rel pv sv bound u fl W).
Notation ctx_ok := (ctx_ok bound).
Notation P_eval := (P_eval pv sv bound u fl W).
Notation eval_post := (eval_post pv sv bound u fl W).

Lemma okstep_trans sc e st2 F F1 F2 c c0 c1 E stL b1 E1 stL1 b2 E2 stL2 st1 :
  okstep sc e st1 F c c0 E stL b1 E1 stL1 F1 -> okstep sc e st2 F1 c0 c1 E1 stL1 b2 E2 stL2 F2 ->
  c <= c0 -> c0 <= c1 -> okstep sc e st2 F c c1 E stL (b1 ++ b2) E2 stL2 F2.
Proof.
  intros (Hx1 & Hf1 & Hr1 & Hn1 & Hk1) (Hx2 & Hf2 & Hr2 & Hn2 & Hk2) Ha Hb.
  split; [eapply ExecS_app; eassumption|]. split.
  - eapply wframe_trans; [eapply wframe_widen; [exact Hf1 | lia | lia] | eapply wframe_widen; [exact Hf2 | lia | lia]].
  - split; [exact Hr2 | split; [eapply F_new_trans; eassumption | eapply keep_trans; eassumption]].
Qed.

(* all pieces stated for the same range *)
Lemma okstep_trans' sc e st2 F F1 F2 c c' E stL b1 E1 stL1 b2 E2 stL2 st1 :
  okstep sc e st1 F c c' E stL b1 E1 stL1 F1 -> okstep sc e st2 F1 c c' E1 stL1 b2 E2 stL2 F2 ->
  okstep sc e st2 F c c' E stL (b1 ++ b2) E2 stL2 F2.
Proof.
  intros (Hx1 & Hf1 & Hr1 & (Hi1 & Hn1) & Hk1) (Hx2 & Hf2 & Hr2 & (Hi2 & Hn2) & Hk2).
  split; [eapply ExecS_app; eassumption|]. split; [eapply wframe_trans; eassumption|].
  split; [exact Hr2|]. split; [|eapply keep_trans; eassumption]. split; [eapply incl_tran; eassumption|].
  intros t Ht. destruct (Hn2 t Ht) as [H|H]; [apply Hn1; exact H | right; exact H].
Qed.

Lemma okstep_widen sc e st F F' a b c c' E stL bl E' stL' :
  okstep sc e st F a b E stL bl E' stL' F' -> c <= a -> b <= c' -> okstep sc e st F c c' E stL bl E' stL' F'.
Proof.
  intros (Hx & Hf & Hr & Hn & Hk) Ha Hb. split; [exact Hx|]. split; [eapply wframe_widen; eassumption|].
  split; [exact Hr | split; [eapply F_new_widen; eassumption | exact Hk]].
Qed.

(* a denotation established before a step survives it *)
Lemma denotes_step sc e st F1 F2 c0 c1 E1 stL1 b E2 stL2 ex sv_ :
  denotes F1 E1 stL1 ex sv_ -> okstep sc e st F1 c0 c1 E1 stL1 b E2 stL2 F2 -> F_out bound F1 c0 c1 ->
  denotes F2 E2 stL2 ex sv_.
Proof.
  intros Hd (_ & Hf & _ & (Hi & _) & _) Ho. eapply denotes_mono; [exact Hd | eapply fut_wframe; eassumption | exact Hi].
Qed.

Lemma ldenotes_step sc e st F1 F2 c0 c1 E1 stL1 b E2 stL2 ex lv :
  ldenotes F1 E1 stL1 ex lv -> okstep sc e st F1 c0 c1 E1 stL1 b E2 stL2 F2 -> F_out bound F1 c0 c1 ->
  ldenotes F2 E2 stL2 ex lv.
Proof.
  intros Hd (_ & Hf & _ & (Hi & _) & _) Ho. eapply ldenotes_mono; [exact Hd | eapply fut_wframe; eassumption | exact Hi].
Qed.

Lemma ctx_after sc e st l F E stL c c0 c1 l1 b E1 stL1 F1 code bl :
  ctx_ok l F E c c1 -> cshape u l code bl l1 c c0 -> okstep sc e st F c c0 E stL b E1 stL1 F1 ->
  ctx_ok l1 F1 E1 c0 c1.
Proof.
  intros Hc (_ & Hle & Hfr & _) (_ & Hf & _ & Hn & _). eapply ctx_step; eassumption.
Qed.

Lemma smapM_one {A B} (f : A -> SyltSem.M B) a st :
  SyltSem.mapM f [a] st =
  match f a st with
  | (SyltSem.RVal y, st1) => (SyltSem.RVal [y], st1)
  | (SyltSem.RStop o, st1) => (SyltSem.RStop o, st1)
  | (SyltSem.RAbrupt c, st1) => (SyltSem.RAbrupt c, st1)
  end.
Proof. cbn [SyltSem.mapM]. unfold SyltSem.bind. destruct (f a st) as [[y|o|c] st1]; reflexivity. Qed.

(* a step in a range disjoint from [a, b) keeps the context of [a, b) *)
Lemma ctx_disj l F E st a b x y l' F' E' st' :
  ctx_ok l F E a b -> lut_frame l l' x y -> F_new F F' x y -> wframe bound x y E st E' st' ->
  bound <= x -> (y <= a \/ b <= x) -> ctx_ok l' F' E' a b.
Proof.
  intros [Hb Hl HF HE] Hfr [_ Hn] Hf Hbx Hd. constructor.
  - exact Hb.
  - intros t Ht. rewrite Hfr by lia. apply Hl. exact Ht.
  - intros t Ht. destruct (Hn t Ht) as [H|H]; [apply HF; exact H | split; lia].
  - intros t Ht. destruct (sget (fmt_var t) E') as [q|] eqn:Hs; [|reflexivity].
    destruct (wr_new _ _ _ _ _ _ _ Hf _ _ Hs) as [H'|[(t' & Heq & Hr)|(t' & Heq & Hr)]].
    + rewrite HE in H' by exact Ht. discriminate.
    + apply fmt_var_inj in Heq. subst. lia.
    + apply fmt_var_inj in Heq. subst. lia.
Qed.

Lemma cshape_nil' l c c' : c <= c' -> cshape u l [] [] l c c'.
Proof. intros H. eapply cshape_widen; [apply (cshape_nil u l c) | lia | exact H]. Qed.

Lemma okstep_lframe sc e st F c c' E stL b E' stL' F' :
  okstep sc e st F c c' E stL b E' stL' F' -> wframe bound c c' E stL E' stL' /\ F_new F F' c c'.
Proof. intros (_ & Hf & _ & Hn & _). split; assumption. Qed.

Notation xpost := (exit_post pv sv bound u fl W).

Lemma okstep_exit {A} ctx sc e st st1 F F1 c c0 c1 E stL b1 E1 stL1 b2 (r : SyltSem.res A) st' :
  okstep sc e st1 F c c0 E stL b1 E1 stL1 F1 -> rel sc e st E stL ->
  xpost ctx sc e c0 c1 E1 stL1 b2 r st' -> c <= c0 -> c0 <= c1 ->
  xpost ctx sc e c c1 E stL (b1 ++ b2) r st'.
Proof.
  intros Hok Hrel Hx Ha Hb.
  eapply (exit_pre pv sv bound u fl W ctx sc sc e e st st1); [exact Hok | exact Hrel | apply sext_refl | apply incl_refl | exact Hx | exact Ha | exact Hb].
Qed.

Lemma okstep_exit' {A} ctx sc e st st1 F F1 c c' E stL b1 E1 stL1 b2 (r : SyltSem.res A) st' :
  okstep sc e st1 F c c' E stL b1 E1 stL1 F1 -> rel sc e st E stL ->
  xpost ctx sc e c c' E1 stL1 b2 r st' -> xpost ctx sc e c c' E stL (b1 ++ b2) r st'.
Proof.
  intros Hok Hrel Hx.
  eapply (exit_pre_gen pv sv bound u fl W ctx sc sc e e st st1); [exact Hok | exact Hrel | apply sext_refl | apply incl_refl | exact Hx | | | |]; lia.
Qed.

Lemma xpost_widen {A} ctx sc e c c' a b E stL bl (r : SyltSem.res A) st' :
  xpost ctx sc e c c' E stL bl r st' -> a <= c -> c' <= b -> xpost ctx sc e a b E stL bl r st'.
Proof.
  intros (rl & Hx & Hok) Ha Hb. exists rl. split; [exact Hx|].
  destruct r as [x|o|[| |v]]; cbn [exit_ok] in *; try contradiction; try exact Hok.
  - destruct Hok as (E' & stL' & -> & Hr & Hk). exists E', stL'. split; [reflexivity | split; [exact Hr | eapply xkeep_widen; eassumption]].
  - destruct Hok as (E' & stL' & -> & Hr & Hk). exists E', stL'. split; [reflexivity | split; [exact Hr | eapply xkeep_widen; eassumption]].
  - destruct Hok as (E' & stL' & lv & -> & Hv & Hr & Hk). exists E', stL', lv. split; [reflexivity | split; [exact Hv | split; [exact Hr | eapply xkeep_widen; eassumption]]].
Qed.

(* two sub-expressions evaluated one after the other (binary operators, <=>) *)
Lemma eval_two n g k x1 x2 ctx c code_a va c0 code_b vb c1 c' e st sc l E stL F :
  P_eval n ->
  expression g x1 ctx c = Ok ((code_a, va), c0) -> expression g x2 ctx c0 = Ok ((code_b, vb), c1) ->
  frag_expr pv sv bound fl k sc x1 = true -> frag_expr pv sv bound fl k sc x2 = true ->
  ucovers u code_a -> ucovers u code_b -> c1 <= c' -> ctx_ok l F E c c' -> rel sc e st E stL ->
  exists b1 l1 b2 l2,
    cshape u l code_a b1 l1 c c0 /\ cshape u l1 code_b b2 l2 c0 c1 /\
    c <= va /\ va < c0 /\ c0 <= vb /\ vb < c1 /\
    match SyltSem.eval n e x1 st with
    | (SyltSem.RVal va_, st1) =>
        match SyltSem.eval n e x2 st1 with
        | (SyltSem.RVal vb_, st2) =>
            exists E2 stL2 F2,
              okstep sc e st2 F c c1 E stL (b1 ++ b2) E2 stL2 F2 /\ ctx_ok l2 F2 E2 c1 c' /\
              (1 <= count_of u va -> denotes F2 E2 stL2 (aexpand l2 va) va_) /\
              (1 <= count_of u vb -> denotes F2 E2 stL2 (aexpand l2 vb) vb_)
        | (r2, st2) => interesting r2 -> xpost ctx sc e c c1 E stL (b1 ++ b2) r2 st2
        end
    | (r1, st1) => interesting r1 -> xpost ctx sc e c c1 E stL (b1 ++ b2) r1 st1
    end.
Proof.
  intros IH Ha Hb Hfa Hfb Hua Hub Hc1 Hctx Hrel.
  destruct (L_expr_all pv sv bound u fl g k x1 ctx c code_a va c0 sc l Ha Hfa) as (b1' & l1' & Hs1' & Hva1 & Hva2).
  pose proof Hs1' as (_ & Hc0 & _).
  assert (Hsb : forall l0, exists b2 l2, cshape u l0 code_b b2 l2 c0 c1 /\ c0 <= vb /\ vb < c1)
    by (intros l0; apply (L_expr_all pv sv bound u fl g k x2 ctx c0 code_b vb c1 sc l0 Hb Hfb)).
  destruct (Hsb l1') as (b2' & l2' & Hs2' & Hvb1 & Hvb2). pose proof Hs2' as (_ & Hc01 & _).
  assert (Hctxa : ctx_ok l F E c c0) by (eapply ctx_sub; [exact Hctx | lia | lia]).
  assert (Hfail1 : forall r1 st1, SyltSem.eval n e x1 st = (r1, st1) -> (forall v, r1 <> SyltSem.RVal v) ->
             exists b1 l1 b2 l2, cshape u l code_a b1 l1 c c0 /\ cshape u l1 code_b b2 l2 c0 c1 /\
               (interesting r1 -> xpost ctx sc e c c1 E stL (b1 ++ b2) r1 st1)).
  { intros r1 st1 He1 Hnv. destruct (interesting_dec r1) as [Hg|Hng].
    - destruct (IH g k x1 ctx c code_a va c0 e st _ st1 sc l E stL F He1 Ha Hfa Hua Hctxa Hrel Hg)
        as (b1 & l1 & Hs1 & _ & _ & Hp1).
      destruct (Hsb l1) as (b2 & l2 & Hs2 & _ & _).
      exists b1, l1, b2, l2. splits; try assumption. intros _.
      destruct r1 as [v| |]; [exfalso; eapply Hnv; reflexivity | |]; (eapply exit_app; [exact Hp1 | lia]).
    - exists b1', l1', b2', l2'. splits; try assumption. intros Hg. contradiction. }
  destruct (SyltSem.eval n e x1 st) as [r1 st1] eqn:He1.
  destruct r1 as [va_|o|cc].
  2,3: destruct (Hfail1 _ _ eq_refl ltac:(intros v; discriminate)) as (b1 & l1 & b2 & l2 & H1 & H2 & H3);
       exists b1, l1, b2, l2; splits; assumption.
  destruct (IH g k x1 ctx c code_a va c0 e st _ st1 sc l E stL F He1 Ha Hfa Hua Hctxa Hrel I)
    as (b1 & l1 & Hs1 & _ & _ & E1 & stL1 & F1 & Hok1 & Hd1).
  pose proof Hok1 as (Hx1 & _ & Hrel1 & _).
  assert (Hctx1 : ctx_ok l1 F1 E1 c0 c') by (eapply ctx_after; eassumption).
  assert (Hctxb : ctx_ok l1 F1 E1 c0 c1) by (eapply ctx_sub; [exact Hctx1 | lia | lia]).
  destruct (SyltSem.eval n e x2 st1) as [r2 st2] eqn:He2.
  destruct r2 as [vb_|o|cc].
  - destruct (IH g k x2 ctx c0 code_b vb c1 e st1 _ st2 sc l1 E1 stL1 F1 He2 Hb Hfb Hub Hctxb Hrel1 I)
      as (b2 & l2 & Hs2 & _ & _ & E2 & stL2 & F2 & Hok2 & Hd2).
    exists b1, l1, b2, l2. splits; try assumption.
    exists E2, stL2, F2. splits.
    + eapply okstep_trans; [exact Hok1 | exact Hok2 | lia | lia].
    + eapply ctx_after; eassumption.
    + intros Hcv. replace (aexpand l2 va) with (aexpand l1 va).
      * eapply denotes_step; [exact (Hd1 Hcv) | exact Hok2 | apply (cx_F _ _ _ _ _ _ Hctxb)].
      * unfold aexpand. destruct Hs2 as (_ & _ & Hfr2 & _). rewrite Hfr2 by lia. reflexivity.
    + exact Hd2.
  - destruct (interesting_dec (@SyltSem.RStop sval o)) as [Hg|Hng].
    + destruct (IH g k x2 ctx c0 code_b vb c1 e st1 _ st2 sc l1 E1 stL1 F1 He2 Hb Hfb Hub Hctxb Hrel1 Hg)
        as (b2 & l2 & Hs2 & _ & _ & Hp2).
      exists b1, l1, b2, l2. splits; try assumption. intros _.
      eapply okstep_exit; [exact Hok1 | exact Hrel | exact Hp2 | lia | lia].
    + destruct (Hsb l1) as (b2 & l2 & Hs2 & _ & _).
      exists b1, l1, b2, l2. splits; try assumption. intros Hg. contradiction.
  - destruct (interesting_dec (@SyltSem.RAbrupt sval cc)) as [Hg|Hng].
    + destruct (IH g k x2 ctx c0 code_b vb c1 e st1 _ st2 sc l1 E1 stL1 F1 He2 Hb Hfb Hub Hctxb Hrel1 Hg)
        as (b2 & l2 & Hs2 & _ & _ & Hp2).
      exists b1, l1, b2, l2. splits; try assumption. intros _.
      eapply okstep_exit; [exact Hok1 | exact Hrel | exact Hp2 | lia | lia].
    + destruct (Hsb l1) as (b2 & l2 & Hs2 & _ & _).
      exists b1, l1, b2, l2. splits; try assumption. intros Hg. contradiction.
Qed.

(* the conditional tail of and/or:  if <cond> then <code_b>; V<t> = <vb> end,
   with V<t> already holding the literal `lit` *)
Lemma sc_branch n g k x2 ctx cb0 code_b vb cb1 c c' e st sc l E stL F t p cond (lit go : bool) :
  P_eval n ->
  expression g x2 ctx cb0 = Ok ((code_b, vb), cb1) -> frag_expr pv sv bound fl k sc x2 = true ->
  ucovers u code_b -> 1 <= count_of u t -> 1 <= count_of u vb ->
  bound <= c -> c <= cb0 -> cb1 <= c' -> c <= t < c' -> ~ (cb0 <= t < cb1) ->
  ctx_ok l F E cb0 cb1 -> rel sc e st E stL ->
  sget (fmt_var t) E = Some p -> (forall lv, ~ w_P W p lv) -> get_cell stL p = VBool lit -> alut_get l t = None ->
  denotes F E stL (aexpand l cond) (SV (Values.VBool go)) ->
  exists bl l',
    cshape u l (IIf cond :: (code_b ++ [IAssign t vb]) ++ [IEnd]) bl l' c c' /\ alut_get l' t = None /\
    match (if go then SyltSem.eval n e x2 st else (SyltSem.RVal (SV (Values.VBool lit)), st)) with
    | (SyltSem.RVal sv_, st2) =>
        exists stL', okstep sc e st2 F c c' E stL bl E stL' (t :: F) /\
                     denotes (t :: F) E stL' (EVar (fmt_var t)) sv_
    | (r2, st2) => interesting r2 -> xpost ctx sc e c c' E stL bl r2 st2
    end.
Proof.
  intros IH Hb Hfb Hub Hct Hcvb Hbc Hc0 Hc1 Ht Htb Hctx Hrel Hp Hnp Hcell Hlt Hdc.
  pose proof (r_wf _ _ _ _ _ _ _ _ _ _ _ Hrel) as Hwf. pose proof (r_linv _ _ _ _ _ _ _ _ _ _ _ Hrel) as Hli.
  assert (Hsb : forall l0, exists b2 l2, cshape u l0 code_b b2 l2 cb0 cb1 /\ cb0 <= vb /\ vb < cb1)
    by (intros l0; apply (L_expr_all pv sv bound u fl g k x2 ctx cb0 code_b vb cb1 sc l0 Hb Hfb)).
  (* the block, given the block of code_b *)
  assert (Hmk : forall b2 l2, cshape u l code_b b2 l2 cb0 cb1 ->
            cshape u l (IIf cond :: (code_b ++ [IAssign t vb]) ++ [IEnd])
                   [SIf (aexpand l cond) (b2 ++ fst (agen_one u l2 (IAssign t vb))) []] l2 c c' /\ alut_get l2 t = None).
  { intros b2 l2 Hs2. split.
    - apply cshape_if. eapply cshape_app'; [eapply cshape_widen; [exact Hs2 | lia | lia]|].
      apply (cshape_plain u l2 (IAssign t vb) c c'); [lia | reflexivity | reflexivity | apply used_plain].
    - destruct Hs2 as (_ & _ & Hfr & _). rewrite Hfr by exact Htb. exact Hlt. }
  (* the condition *)
  destruct (denotes_now _ _ _ _ _ Hdc Hwf Hli) as (lc & Hvc & stc & Hevc & _ & Hxc).
  inversion Hvc; subst lc.
  assert (Hrelc : rel sc e st E stc) by (eapply rel_cells_ext; eassumption).
  assert (Hfc : lframe c c' E stL E stc) by (apply lframe_cells_ext; assumption).
  assert (Hpal : (p < s_ncell stL)%positive) by (eapply wf_alloc; eassumption).
  assert (Hcellc : get_cell stc p = VBool lit) by (rewrite <- Hcell; apply Hxc; exact Hpal).
  assert (Hoc : s_out stc = s_out stL) by apply Hxc.
  assert (Hfail : forall r2 st2, SyltSem.eval n e x2 st = (r2, st2) -> (forall v, r2 <> SyltSem.RVal v) ->
            go = true ->
            exists bl l', cshape u l (IIf cond :: (code_b ++ [IAssign t vb]) ++ [IEnd]) bl l' c c' /\ alut_get l' t = None /\
              (interesting r2 -> xpost ctx sc e c c' E stL bl r2 st2)).
  { intros r2 st2 He2 Hnv ->. destruct (interesting_dec r2) as [Hg|Hng].
    - destruct (IH g k x2 ctx cb0 code_b vb cb1 e st _ st2 sc l E stc F He2 Hb Hfb Hub Hctx Hrelc Hg)
        as (b2 & l2 & Hs2 & _ & _ & Hp2).
      destruct (Hmk b2 l2 Hs2) as (Hshape & Hlt2).
      eexists _, _. split; [exact Hshape|]. split; [exact Hlt2|]. intros _.
      assert (Hp2' : xpost ctx sc e c c' E stc (b2 ++ fst (agen_one u l2 (IAssign t vb))) r2 st2).
      { destruct r2 as [v| |]; [exfalso; eapply Hnv; reflexivity | |];
          (eapply xpost_widen; [eapply exit_app; [exact Hp2 | apply N.le_refl] | lia | lia]). }
      eapply (exit_if pv sv bound u fl W ctx sc e c c' E stL (aexpand l cond) _ [] (VBool true) stc); [exact Hwf | exact Hevc | exact Hxc | | exact Hp2'].
      cbn [truthy]. apply nolabel_app; [apply Hs2 | apply agen_one_nolabel; reflexivity].
    - destruct (Hsb l) as (b2 & l2 & Hs2 & _). destruct (Hmk b2 l2 Hs2) as (Hshape & Hlt2).
      eexists _, _. split; [exact Hshape|]. split; [exact Hlt2|]. intros Hg. contradiction. }
  destruct go.
  - (* the branch is taken *)
    destruct (SyltSem.eval n e x2 st) as [[svb|o|cc] st2] eqn:He2.
    + destruct (IH g k x2 ctx cb0 code_b vb cb1 e st _ st2 sc l E stc F He2 Hb Hfb Hub Hctx Hrelc I)
        as (b2 & l2 & Hs2 & Hvb1 & Hvb2 & E2 & stL2 & F2 & Hok2 & Hd2). specialize (Hd2 Hcvb).
      destruct (Hmk b2 l2 Hs2) as (Hshape & Hlt2).
      eexists _, _. split; [exact Hshape|]. split; [exact Hlt2|].
      destruct Hok2 as (Hx2 & Hf2 & Hrel2 & (Hi2 & Hn2) & Hk2).
      assert (Hp2 : sget (fmt_var t) E2 = Some p) by (apply (wr_incl _ _ _ _ _ _ _ Hf2); [lia | exact Hp]).
      destruct (step_assign_temp pv sv bound u fl W sc e st2 F2 c c' E2 stL2 l2 t vb p svb Hrel2 Hbc Ht Hct Hp2 Hnp Hlt2 Hd2)
        as (stL3 & lv & (Hx3 & Hf3 & Hrel3 & _ & Hk3) & Hc3 & Hv3).
      assert (Hf23 : wframe bound c c' E stc E2 stL3).
      { eapply wframe_trans; [eapply wframe_widen; [exact Hf2 | lia | lia] | exact Hf3]. }
      assert (Hinner : ExecBlock E [] (b2 ++ fst (agen_one u l2 (IAssign t vb))) stc (ROk (E2, SigNormal) stL3)).
      { apply ExecBlock_of_ExecS; [eapply ExecS_app; eassumption | | intros []].
        apply nolabel_app; [apply Hs2 | apply agen_one_nolabel; reflexivity]. }
      exists stL3. split.
      * split; [apply ExecS_one; eapply Exec_if; [exact Hevc | exact Hinner]|].
        split; [eapply wframe_trans; [apply lframe_w; exact Hfc | eapply wframe_forget; exact Hf23]|].
        split; [|split; [split; [apply incl_tl, incl_refl | intros t' [<-|Ht']; [right; exact Ht | left; exact Ht']] | apply keep_refl]].
        eapply (rel_restrict pv sv bound u fl W sc e st e st2 E E2 stc stL3); [exact Hrelc | exact Hrel3 | eapply keep_trans; eassumption | apply (wr_incl _ _ _ _ _ _ _ Hf23) | apply (wr_ncell _ _ _ _ _ _ _ Hf23)].
      * eapply denotes_local; [left; reflexivity | exact Hp | rewrite Hc3; exact Hv3].
    + apply (Hfail (SyltSem.RStop o) st2 eq_refl); [intros v; discriminate | reflexivity].
    + apply (Hfail (SyltSem.RAbrupt cc) st2 eq_refl); [intros v; discriminate | reflexivity].
  - (* the branch is skipped *)
    destruct (Hsb l) as (b2 & l2 & Hs2 & _). destruct (Hmk b2 l2 Hs2) as (Hshape & Hlt2).
    eexists _, _. split; [exact Hshape|]. split; [exact Hlt2|].
    exists stc. split.
    + split; [apply ExecS_one; eapply Exec_if; [exact Hevc|]; cbn [truthy]; exists 1%nat; intros [|j] Hj; [lia | reflexivity]|].
      split; [apply lframe_w; exact Hfc|]. split; [exact Hrelc|].
      split; [split; [apply incl_tl, incl_refl | intros t' [<-|Ht']; [right; exact Ht | left; exact Ht']] | apply keep_refl].
    + eapply denotes_local; [left; reflexivity | exact Hp | rewrite Hcellc; constructor].
Qed.

Definition sc_mid (mid : option N) (va : N) : list ir := match mid with Some na => [INot na va] | None => [] end.
Definition sc_cond (mid : option N) (va : N) : N := match mid with Some na => na | None => va end.
Definition sc_go (mid : option N) (ba : bool) : bool := match mid with Some _ => negb ba | None => ba end.

(* everything after the first operand of and (mid = None, lit = false) / or (mid = Some neg_a, lit = true) *)
Lemma sc_tail n g k x2 ctx c0 code_b vb c1 c c' e st1 sc l1 E1 stL1 F1 t flg mid va (lit ba : bool) :
  P_eval n ->
  expression g x2 ctx c0 = Ok ((code_b, vb), c1) -> frag_expr pv sv bound fl k sc x2 = true -> ucovers u code_b ->
  1 <= count_of u t -> 1 <= count_of u flg -> 1 <= count_of u vb ->
  bound <= c -> c <= c0 -> c1 <= t < c' -> c1 <= flg < c' -> t <> flg ->
  (forall na, mid = Some na -> c1 <= na < c' /\ na <> t /\ na <> flg /\ 1 <= count_of u na) ->
  va < c0 ->
  ctx_ok l1 F1 E1 c0 c' -> rel sc e st1 E1 stL1 ->
  denotes F1 E1 stL1 (aexpand l1 va) (SV (Values.VBool ba)) ->
  exists bl l',
    cshape u l1 ([IDefine t; IBool flg lit; IAssign t flg] ++ sc_mid mid va ++ IIf (sc_cond mid va) :: (code_b ++ [IAssign t vb]) ++ [IEnd]) bl l' c c' /\
    alut_get l' t = None /\
    match (if sc_go mid ba then SyltSem.eval n e x2 st1 else (SyltSem.RVal (SV (Values.VBool lit)), st1)) with
    | (SyltSem.RVal sv_, st2) =>
        exists E' stL' F', okstep sc e st2 F1 c c' E1 stL1 bl E' stL' F' /\ denotes F' E' stL' (EVar (fmt_var t)) sv_
    | (r2, st2) => interesting r2 -> xpost ctx sc e c c' E1 stL1 bl r2 st2
    end.
Proof.
  intros IH Hm0 Hfr Hub Hct Hcfl Hcvb Hbc Hc0 Htr' Hflr' Htfl Hmid Hvalt Hctx1 Hrel1 Hd1.
  destruct (L_expr_all pv sv bound u fl g k x2 ctx c0 code_b vb c1 sc l1 Hm0 Hfr) as (_ & _ & (_ & Hc01 & _) & Hvb1 & Hvb2).
  assert (Hbt : bound <= t) by (destruct Hctx1; lia).
  assert (Hctxt : ctx_ok l1 F1 E1 t (t + 1)) by (eapply ctx_sub; [exact Hctx1 | lia | lia]).
  assert (Htr : t <= t < t + 1) by lia.
  assert (Hflr : flg <= flg < flg + 1) by lia.
  (* local V<t> = nil *)
  destruct (step_define_temp pv sv bound u fl W sc e st1 F1 t (t + 1) E1 stL1 l1 t Hrel1 Hctxt Htr Hct)
    as (E2 & stL2 & p & Hokd & Hp & _ & Hnp).
  pose proof Hokd as (_ & _ & Hrel2 & _). destruct (okstep_lframe _ _ _ _ _ _ _ _ _ _ _ _ Hokd) as (Hfd & Hnd).
  (* the literal *)
  assert (Hctx2f : ctx_ok l1 F1 E2 flg (flg + 1)).
  { eapply ctx_disj; [eapply ctx_sub; [exact Hctx1 | lia | lia] | apply lut_frame_refl | exact Hnd | exact Hfd | exact Hbt | lia]. }
  destruct (finish_iis pv sv bound u fl W sc e st1 F1 flg (flg + 1) E2 stL2 l1 flg (if lit then ETrue else EFalse) _ Hrel2 Hctx2f Hflr (denotes_bool F1 E2 stL2 lit))
    as (E3 & stL3 & F3 & Hokf & Hdf). specialize (Hdf Hcfl).
  set (l1f := snd (aiis u l1 flg (if lit then ETrue else EFalse))) in *.
  pose proof Hokf as (_ & _ & Hrel3 & _). destruct (okstep_lframe _ _ _ _ _ _ _ _ _ _ _ _ Hokf) as (Hff & Hnf).
  assert (Hp3 : sget (fmt_var t) E3 = Some p) by (apply (wr_incl _ _ _ _ _ _ _ Hff); [exact Hbt | exact Hp]).
  assert (Hlt1 : alut_get l1 t = None) by (apply (cx_lut _ _ _ _ _ _ Hctx1); left; lia).
  assert (Hltf : alut_get l1f t = None) by (unfold l1f; rewrite aiis_lut by lia; exact Hlt1).
  (* V<t> = lit *)
  destruct (step_assign_temp pv sv bound u fl W sc e st1 F3 t (t + 1) E3 stL3 l1f t flg p _ Hrel3 Hbt Htr Hct Hp3 Hnp Hltf Hdf)
    as (stL4 & lv4 & Hoka & Hc4 & Hv4).
  assert (Hc4' : get_cell stL4 p = VBool lit) by (rewrite Hc4; inversion Hv4; reflexivity).
  pose proof Hoka as (_ & _ & Hrel4 & _). destruct (okstep_lframe _ _ _ _ _ _ _ _ _ _ _ _ Hoka) as (Hfa & Hna).
  assert (HF3 : forall x, x <> flg -> F_out bound F3 x (x + 1) <-> F_out bound F3 x (x + 1)) by (intros; reflexivity).
  assert (Hctx4 : forall a b, c0 <= a -> b <= c' -> (b <= t \/ t + 1 <= a) -> (b <= flg \/ flg + 1 <= a) -> ctx_ok l1f F3 E3 a b).
  { intros a b Ha Hb Hdt Hdf'.
    eapply (ctx_disj l1f F3 E3 stL3 a b t (t + 1)); [|apply lut_frame_refl | exact Hna | exact Hfa | exact Hbt | lia].
    eapply (ctx_disj l1 F1 E2 stL2 a b flg (flg + 1)); [|apply aiis_frame; lia | exact Hnf | exact Hff | lia | lia].
    eapply (ctx_disj l1 F1 E1 stL1 a b t (t + 1)); [|apply lut_frame_refl | exact Hnd | exact Hfd | exact Hbt | lia].
    eapply ctx_sub; [exact Hctx1 | lia | lia]. }
  assert (Hdva : denotes F3 E3 stL4 (aexpand l1f va) (SV (Values.VBool ba))).
  { replace (aexpand l1f va) with (aexpand l1 va) by (unfold aexpand, l1f; rewrite aiis_lut by lia; reflexivity).
    eapply denotes_step; [|exact Hoka|].
    - eapply denotes_step; [|exact Hokf | apply (cx_F _ _ _ _ _ _ Hctx2f)].
      eapply denotes_step; [exact Hd1 | exact Hokd | apply (cx_F _ _ _ _ _ _ Hctxt)].
    - intros t' Ht'. destruct Hnf as [_ Hnf]. destruct (Hnf t' Ht') as [H|H].
      + apply (cx_F _ _ _ _ _ _ Hctxt). exact H.
      + split; lia. }
  assert (Hpre3 : okstep sc e st1 F1 c c' E1 stL1
                    (fst (agen_one u l1 (IDefine t)) ++ fst (aiis u l1 flg (if lit then ETrue else EFalse)) ++ fst (agen_one u l1f (IAssign t flg))) E3 stL4 F3).
  { eapply okstep_trans'; [eapply okstep_widen; [exact Hokd | lia | lia]|].
    eapply okstep_trans'; [eapply okstep_widen; [exact Hokf | lia | lia]|].
    eapply okstep_widen; [exact Hoka | lia | lia]. }
  assert (Hsh3 : cshape u l1 [IDefine t; IBool flg lit; IAssign t flg]
                   (fst (agen_one u l1 (IDefine t)) ++ fst (aiis u l1 flg (if lit then ETrue else EFalse)) ++ fst (agen_one u l1f (IAssign t flg))) l1f c c').
  { eapply cshape_cons'; [apply (cshape_plain u l1 (IDefine t) c c'); [lia | reflexivity | reflexivity | apply used_plain]|].
    eapply cshape_cons'; [eapply (cshape_iis u l1 (IBool flg lit) flg _ c c'); [lia | reflexivity | reflexivity]|].
    apply (cshape_plain u l1f (IAssign t flg) c c'); [lia | reflexivity | reflexivity | apply used_plain]. }
  (* or: the negated condition *)
  assert (Hmidstep : exists E5 stL5 F5 l5 bm,
             cshape u l1f (sc_mid mid va) bm l5 c c' /\ okstep sc e st1 F3 c c' E3 stL4 bm E5 stL5 F5 /\
             ctx_ok l5 F5 E5 c0 c1 /\ sget (fmt_var t) E5 = Some p /\ get_cell stL5 p = VBool lit /\ alut_get l5 t = None /\
             denotes F5 E5 stL5 (aexpand l5 (sc_cond mid va)) (SV (Values.VBool (sc_go mid ba)))).
  { destruct mid as [na|]; cbn [sc_mid sc_cond sc_go].
    - destruct (Hmid na eq_refl) as (Hnar & Hnat & Hnaf & Hcna).
      assert (Hctxn : ctx_ok l1f F3 E3 na (na + 1)) by (apply Hctx4; lia).
      destruct (finish_iis pv sv bound u fl W sc e st1 F3 na (na + 1) E3 stL4 l1f na _ _ Hrel4 Hctxn ltac:(lia) (denotes_not F3 E3 stL4 _ ba Hdva))
        as (E5 & stL5 & F5 & Hokn & Hdn). specialize (Hdn Hcna).
      destruct (okstep_lframe _ _ _ _ _ _ _ _ _ _ _ _ Hokn) as (Hfn & Hnn). pose proof Hokn as (_ & _ & Hrel5 & _).
      eexists E5, stL5, F5, _, _. splits.
      + eapply (cshape_iis u l1f (INot na va) na _ c c'); [lia | reflexivity | reflexivity].
      + eapply okstep_widen; [exact Hokn | lia | lia].
      + eapply (ctx_disj l1f F3 E3 stL4 c0 c1 na (na + 1)); [apply Hctx4; lia | apply aiis_frame; lia | exact Hnn | exact Hfn | lia | lia].
      + apply (wr_incl _ _ _ _ _ _ _ Hfn); [exact Hbt | exact Hp3].
      + rewrite <- Hc4'. apply (wr_cells _ _ _ _ _ _ _ Hfn t p Hbt); [lia | exact Hp3].
      + rewrite aiis_lut by lia. exact Hltf.
      + exact Hdn.
    - exists E3, stL4, F3, l1f, []. splits.
      + apply cshape_nil'. lia.
      + apply okstep_refl. exact Hrel4.
      + apply Hctx4; lia.
      + exact Hp3.
      + exact Hc4'.
      + exact Hltf.
      + exact Hdva. }
  destruct Hmidstep as (E5 & stL5 & F5 & l5 & bm & Hshm & Hokm & Hctxb & Hp5 & Hc5 & Hlt5 & Hdc).
  pose proof Hokm as (_ & _ & Hrel5 & _).
  assert (Hr1 : c1 <= c') by lia. assert (Hr2 : c <= t < c') by lia. assert (Hr3 : ~ (c0 <= t < c1)) by lia.
  destruct (sc_branch n g k x2 ctx c0 code_b vb c1 c c' e st1 sc l5 E5 stL5 F5 t p (sc_cond mid va) lit (sc_go mid ba) IH Hm0 Hfr Hub Hct Hcvb Hbc Hc0
              Hr1 Hr2 Hr3 Hctxb Hrel5 Hp5 Hnp Hc5 Hlt5 Hdc)
    as (bl & l' & Hshape_t & Hlt' & Hmatch).
  eexists _, _. split; [eapply cshape_app'; [exact Hsh3|]; eapply cshape_app'; [exact Hshm | exact Hshape_t]|].
  split; [exact Hlt'|].
  assert (Hpre : okstep sc e st1 F1 c c' E1 stL1
                   ((fst (agen_one u l1 (IDefine t)) ++ fst (aiis u l1 flg (if lit then ETrue else EFalse)) ++ fst (agen_one u l1f (IAssign t flg))) ++ bm) E5 stL5 F5)
    by (eapply okstep_trans'; eassumption).
  rewrite app_assoc.
  destruct (if sc_go mid ba then SyltSem.eval n e x2 st1 else (SyltSem.RVal (SV (Values.VBool lit)), st1)) as [[sv_|o|cc] st2].
  - destruct Hmatch as (stL6 & Hokb & Hdb). exists E5, stL6, (t :: F5). split; [eapply okstep_trans'; eassumption | exact Hdb].
  - intros Hg. eapply okstep_exit'; [exact Hpre | exact Hrel1 | exact (Hmatch Hg)].
  - intros Hg. eapply okstep_exit'; [exact Hpre | exact Hrel1 | exact (Hmatch Hg)].
Qed.

Lemma expr_binop_unfold g op a b sp ctx :
  value_op op = true ->
  expression (S g) (EBinOp op a b sp) ctx =
  (ra <- expression g a ctx ;; rb <- expression g b ctx ;; c <- fresh ;;
   match binop_ir op c (snd ra) (snd rb) with
   | Some i => ret (fst ra ++ fst rb ++ [i], c)
   | None => panic "intermediate.rs:expression:BinOp unreachable"
   end).
Proof. destruct op; try discriminate; reflexivity. Qed.

Lemma seval_binop_unfold n e op a b sp :
  value_op op = true ->
  SyltSem.eval (S n) e (EBinOp op a b sp) =
  SyltSem.bind (SyltSem.eval n e a) (fun va => SyltSem.bind (SyltSem.eval n e b) (fun vb =>
  SyltSem.bind (SyltSem.snapshot va) (fun xa => SyltSem.bind (SyltSem.snapshot vb) (fun xb =>
  SyltSem.bind (SyltSem.binop_val op xa xb) (fun r => SyltSem.ret (SV r)))))).
Proof. destruct op; try discriminate; reflexivity. Qed.

(* a dynamic type error or an operation outside the reference semantics *)
Definition stuckish (o : SyltSem.outcome) : Prop :=
  match o with SyltSem.OStuck _ | SyltSem.OUnsup _ => True | _ => False end.

Lemma stuckish_not_good o : stuckish o -> ~ good_stop o.
Proof. destruct o; cbn; auto. Qed.

Lemma lift_res_bad {A} w (r : Values.res A) s x s' :
  SyltSem.lift_res w r s = (x, s') ->
  match x with SyltSem.RVal _ => True | SyltSem.RStop o => stuckish o | SyltSem.RAbrupt _ => False end.
Proof. destruct r; cbn; intros H; inversion H; subst; cbn; auto. Qed.

Lemma binop_val_res op a b s r s' :
  SyltSem.binop_val op a b s = (r, s') ->
  match r with SyltSem.RVal _ => True | SyltSem.RStop o => stuckish o | SyltSem.RAbrupt _ => False end.
Proof.
  unfold SyltSem.binop_val.
  destruct op; intros H;
    try (apply lift_res_bad in H; exact H);
    try (cbn in H; inversion H; subst; cbn; auto; fail);
    unfold SyltSem.bind in H;
    match type of H with
    | context [SyltSem.lift_res ?w ?x ?s] =>
        destruct (SyltSem.lift_res w x s) as [[v|o|c] s1] eqn:E; apply lift_res_bad in E;
        cbn in H; inversion H; subst; cbn; auto
    end.
Qed.

(* ------------------------------------------------------------------ if / elif / else *)

Definition if_go (n : nat) (e : senv) : list ifbranch -> SyltSem.M sval :=
  fix go (brs : list ifbranch) : SyltSem.M sval :=
    match brs with
    | [] => SyltSem.ret (SV Values.VLuaNil)
    | IfBranch (Some cond) body _ :: brs' =>
        SyltSem.bind (SyltSem.eval n e cond) (fun c => SyltSem.bind (SyltSem.truth "if" c) (fun bc =>
          if bc then SyltSem.block_value n e body else go brs'))
    | IfBranch None body _ :: _ => SyltSem.block_value n e body
    end.

Lemma seval_if n e brs sp : SyltSem.eval (S n) e (EIf brs sp) = if_go n e brs.
Proof. reflexivity. Qed.

(* the loop of the reference interpreter (the local fixpoint of SyltSem.exec) *)
Definition loop_go (f : nat) (e : senv) (cond : Resolved.expr) (body : list Resolved.stmt) : nat -> SyltSem.M senv :=
  fix loop (n : nat) : SyltSem.M senv :=
    match n with
    | O => SyltSem.stop SyltSem.OFuel
    | S n' =>
        SyltSem.bind (SyltSem.eval f e cond) (fun c => SyltSem.bind (SyltSem.truth "loop" c) (fun bc =>
          if bc then
            fun st =>
              match SyltSem.exec_block f e body st with
              | (SyltSem.RVal _, st') => loop n' st'
              | (SyltSem.RAbrupt SyltSem.CBreak, st') => (SyltSem.RVal e, st')
              | (SyltSem.RAbrupt SyltSem.CContinue, st') => loop n' st'
              | (r, st') => (match r with
                             | SyltSem.RVal _ => SyltSem.RVal e
                             | SyltSem.RStop o => SyltSem.RStop o
                             | SyltSem.RAbrupt c => SyltSem.RAbrupt c
                             end, st')
              end
          else SyltSem.ret e))
    end.

Lemma exec_loop_eq f e cond body sp : SyltSem.exec (S f) e (SLoop cond body sp) = loop_go f e cond body f.
Proof. reflexivity. Qed.

Lemma loop_go_S f e cond body m :
  loop_go f e cond body (S m) =
  SyltSem.bind (SyltSem.eval f e cond) (fun c => SyltSem.bind (SyltSem.truth "loop" c) (fun bc =>
    if bc then
      fun st =>
        match SyltSem.exec_block f e body st with
        | (SyltSem.RVal _, st') => loop_go f e cond body m st'
        | (SyltSem.RAbrupt SyltSem.CBreak, st') => (SyltSem.RVal e, st')
        | (SyltSem.RAbrupt SyltSem.CContinue, st') => loop_go f e cond body m st'
        | (r, st') => (match r with
                       | SyltSem.RVal _ => SyltSem.RVal e
                       | SyltSem.RStop o => SyltSem.RStop o
                       | SyltSem.RAbrupt c => SyltSem.RAbrupt c
                       end, st')
        end
    else SyltSem.ret e)).
Proof. reflexivity. Qed.


Notation P_bv := (P_bv pv sv bound u fl W).
Notation bv_post := (bv_post pv sv bound u fl W).

Lemma ctx_lut l F E a b l' x y :
  ctx_ok l F E a b -> lut_frame l l' x y -> bound <= x -> (y <= a \/ b <= x) -> ctx_ok l' F E a b.
Proof.
  intros [Hb Hl HF HE] Hfr Hbx Hd. constructor; auto.
  intros t Ht. rewrite Hfr; [apply Hl; exact Ht|]. lia.
Qed.

(* the value of an if-expression: left in the cell p of the result variable *)
Definition brs_post (ctx : N) (sc : list N) (e : senv) (F : list N) (lo hi : N) (E : env) (stL : state) (b : block)
           (p : positive) (r : SyltSem.res sval) (st' : sstate) : Prop :=
  match r with
  | SyltSem.RVal v =>
      exists E' stL' F', okstep sc e st' F lo hi E stL b E' stL' F' /\ vrel v (get_cell stL' p)
  | _ => xpost ctx sc e lo hi E stL b r st'
  end.

(* an if statement whose chosen block ran normally; the environment is the one before the if again *)
Lemma okstep_if sc e st st2 F lo hi E stL cnd t f vc stc Ein stL' :
  rel sc e st E stL -> Eval E cnd stL (ROk vc stc) -> cells_ext stL stc ->
  nolabel (if truthy vc then t else f) ->
  ExecS E (if truthy vc then t else f) stc (ROk (Ein, SigNormal) stL') ->
  rel sc e st2 E stL' -> xkeep bound lo hi E stc stL' ->
  okstep sc e st2 F lo hi E stL [SIf cnd t f] E stL' F.
Proof.
  intros Hrel Hev Hx Hnl Hxs Hrel' Hk.
  pose proof (r_wf _ _ _ _ _ _ _ _ _ _ _ Hrel) as Hwf.
  split; [apply ExecS_one; eapply Exec_if; [exact Hev | apply ExecBlock_of_ExecS_nil; eassumption]|].
  split; [|split; [exact Hrel' | split; [apply F_new_refl | apply keep_refl]]].
  destruct (xkeep_cells_ext bound lo hi E stL stc stL' Hwf Hx Hk) as [Hn Hc].
  constructor; auto.
Qed.

Lemma branches_sim n g : P_eval n -> P_bv n ->
  forall brs k ctx c codes c' e st r st' sc l E stL F out p lo hi,
    if_go n e brs st = (r, st') ->
    mapM (lower_if_branch (statement g) (expression g) out ctx) brs c = Ok (codes, c') ->
    frag_branches pv sv bound fl k sc brs = true ->
    ucovers u (concat codes ++ map (fun _ => IEnd) brs) -> ctx_ok l F E c c' -> rel sc e st E stL ->
    bound <= lo -> lo <= c -> c' <= hi -> lo <= out < hi -> ~ (c <= out < c') ->
    sget (fmt_var out) E = Some p -> (forall lv, ~ w_P W p lv) -> get_cell stL p = VNil -> alut_get l out = None -> 1 <= count_of u out ->
    ~ In out F ->
    interesting r ->
    exists b l', cshape u l (concat codes ++ map (fun _ => IEnd) brs) b l' c c' /\ alut_get l' out = None /\
                 brs_post ctx sc e F lo hi E stL b p r st'.
Proof.
  intros IHe IHb. induction brs as [|[[cond|] body bsp] brs IH];
    intros k ctx c codes c' e st r st' sc l E stL F out p lo hi Hev Hm Hf Hu Hctx Hrel Hblo Hlc Hch Hout Hoc Hp Hnp Hcell Hlout Hcout HoutF Hint.
  - (* no branch left *)
    destruct (mapM_nil_ok _ _ _ _ Hm) as [-> ->]. cbn in Hev. inversion Hev; subst r st'.
    eexists _, _. split; [apply cshape_nil|]. split; [exact Hlout|].
    cbn [brs_post]. exists E, stL, F. split; [apply okstep_refl; exact Hrel | rewrite Hcell; constructor].
  - (* a conditional branch *)
    destruct k as [|k]; [discriminate|]. rewrite frag_branches_some in Hf. frag_split Hf.
    destruct (frag_stmts pv sv bound fl k sc body) as [scb|] eqn:Hfb; [|discriminate Hfr0].
    apply mapM_cons_ok in Hm as (y & c1 & ys & Hy & Hys & ->).
    unfold lower_if_branch in Hy. mon Hy. destruct a as [code_c vc]. cbn [fst snd] in *. rename a0 into blk.
    (* structure *)
    destruct (L_expr_all pv sv bound u fl g k cond ctx c code_c vc c0 sc l Hm Hf) as (bc0 & lc0 & Hsc0 & Hvc1 & Hvc2).
    pose proof Hsc0 as (_ & Hc0 & _).
    assert (HLb : forall l0, exists bb l2, cshape u l0 blk bb l2 c0 c1)
      by (intros l0; eapply (L_eblock pv sv bound u fl g (fun fl0 => L_expr_all pv sv bound u fl0 g) (L_stmts_all pv sv bound u fl g)); eassumption).
    assert (HLr : forall l0, exists br l3, cshape u l0 (concat ys ++ map (fun _ : ifbranch => IEnd) brs) br l3 c1 c')
      by (intros l0; eapply (L_branches pv sv bound u fl g (fun fl0 => L_expr_all pv sv bound u fl0 g) (L_stmts_all pv sv bound u fl g)); eassumption).
    destruct (HLb l) as (_ & _ & (_ & Hc01 & _)). destruct (HLr l) as (_ & _ & (_ & Hc1' & _)).
    assert (Hcode : concat ((code_c ++ [IIf vc] ++ blk ++ [IElse]) :: ys) ++ map (fun _ : ifbranch => IEnd) (IfBranch (Some cond) body bsp :: brs)
                    = code_c ++ (IIf vc :: blk ++ IElse :: (concat ys ++ map (fun _ : ifbranch => IEnd) brs) ++ [IEnd])).
    { cbn [concat map]. rewrite <- (map_const_snoc IEnd brs). cbn [app]. rewrite <- !app_assoc. cbn [app]. rewrite <- !app_assoc. reflexivity. }
    rewrite Hcode in *.
    apply ucovers_app in Hu as [Huc Hu]. apply ucovers_cons in Hu as [Huif Hu]. apply ucovers_app in Hu as [Hub Hu].
    apply ucovers_cons in Hu as [_ Hu]. apply ucovers_app in Hu as [Hur _].
    assert (Hcvc : 1 <= count_of u vc) by (apply Huif; left; reflexivity).
    (* the block for given sub-blocks *)
    assert (Hmk : forall bc l1 bb l2 br l3, cshape u l code_c bc l1 c c0 -> cshape u l1 blk bb l2 c0 c1 ->
              cshape u l2 (concat ys ++ map (fun _ : ifbranch => IEnd) brs) br l3 c1 c' ->
              cshape u l (code_c ++ (IIf vc :: blk ++ IElse :: (concat ys ++ map (fun _ : ifbranch => IEnd) brs) ++ [IEnd]))
                     (bc ++ [SIf (aexpand l1 vc) bb br]) l3 c c' /\ alut_get l3 out = alut_get l out).
    { intros bc l1 bb l2 br l3 H1 H2 H3. split.
      - eapply cshape_app'; [eapply cshape_widen; [exact H1 | lia | lia]|].
        eapply cshape_ifelse; (eapply cshape_widen; [eassumption | lia | lia]).
      - destruct H1 as (_ & _ & Hf1 & _). destruct H2 as (_ & _ & Hf2 & _). destruct H3 as (_ & _ & Hf3 & _).
        rewrite Hf3 by lia. rewrite Hf2 by lia. apply Hf1. lia. }
    assert (Hctxc : ctx_ok l F E c c0) by (eapply ctx_sub; [exact Hctx | lia | lia]).
    change (if_go n e (IfBranch (Some cond) body bsp :: brs))
      with (SyltSem.bind (SyltSem.eval n e cond) (fun c => SyltSem.bind (SyltSem.truth "if" c) (fun bc =>
              if bc then SyltSem.block_value n e body else if_go n e brs))) in Hev.
    unfold SyltSem.bind at 1 in Hev.
    destruct (SyltSem.eval n e cond st) as [rc st1] eqn:Hec.
    destruct rc as [vc_|o|cc].
    2,3: (inversion Hev; subst;
          destruct (IHe g k cond ctx c code_c vc c0 e st _ st' sc l E stL F Hec Hm Hf Huc Hctxc Hrel Hint) as (bc & l1 & Hs1 & _ & _ & Hp1);
          destruct (HLb l1) as (bb & l2 & Hs2); destruct (HLr l2) as (br & l3 & Hs3);
          destruct (Hmk bc l1 bb l2 br l3 Hs1 Hs2 Hs3) as (Hshape & Hlo);
          eexists _, _; (split; [exact Hshape|]); (split; [rewrite Hlo; exact Hlout|]);
          cbn [brs_post eval_post] in *; eapply exit_app; [eapply (xpost_widen ctx sc e c c0 lo hi); [exact Hp1 | lia | lia] | apply N.le_refl]).
    destruct (IHe g k cond ctx c code_c vc c0 e st _ st1 sc l E stL F Hec Hm Hf Huc Hctxc Hrel I)
      as (bc & l1 & Hs1 & _ & _ & E1 & stL1 & F1 & Hok1 & Hd1). specialize (Hd1 Hcvc).
    pose proof Hok1 as (_ & Hf1 & Hrel1 & Hn1 & _).
    assert (Hctx1 : ctx_ok l1 F1 E1 c0 c') by (eapply ctx_after; eassumption).
    pose proof (r_wf _ _ _ _ _ _ _ _ _ _ _ Hrel1) as Hwf1. pose proof (r_linv _ _ _ _ _ _ _ _ _ _ _ Hrel1) as Hli1.
    destruct (denotes_now _ _ _ _ _ Hd1 Hwf1 Hli1) as (lvc & Hvvc & stc & Hevc & _ & Hxc).
    unfold SyltSem.bind at 1 in Hev.
    assert (Hbc : exists bcv, vc_ = SV (Values.VBool bcv)).
    { inversion Hvvc; subst; cbn in Hev; inversion Hev; subst; try destruct Hint. eauto. }
    destruct Hbc as [bcv ->]. cbn [SyltSem.truth SyltSem.ret] in Hev. inversion Hvvc; subst lvc.
    assert (Hrelc : rel sc e st1 E1 stc) by (eapply rel_cells_ext; eassumption).
    assert (Hblo' : bound <= out) by lia.
    assert (Hp1 : sget (fmt_var out) E1 = Some p) by (apply (wr_incl _ _ _ _ _ _ _ Hf1); assumption).
    assert (Hcellc : get_cell stc p = VNil).
    { rewrite <- Hcell. rewrite <- (wr_cells _ _ _ _ _ _ _ Hf1 out p Hblo' ltac:(lia) Hp). apply Hxc. eapply wf_alloc; eassumption. }
    assert (Hl1out : alut_get l1 out = None) by (destruct Hs1 as (_ & _ & Hfr1 & _); rewrite Hfr1 by lia; exact Hlout).
    assert (Hout1 : ~ In out F1).
    { intros Hin. destruct Hn1 as [_ Hn1]. destruct (Hn1 out Hin) as [H|H]; [contradiction | lia]. }
    assert (Hokc : okstep sc e st1 F lo hi E stL bc E1 stL1 F1) by (eapply okstep_widen; [exact Hok1 | lia | lia]).
    destruct bcv.
    + (* the branch is taken *)
      assert (Hctxb : ctx_ok l1 F1 E1 c0 c1) by (eapply ctx_sub; [exact Hctx1 | lia | lia]).
      destruct (IHb g k body ctx c0 blk c1 e st1 r st' sc scb l1 E1 stc F1 out p lo hi Hev Hm0 Hfb Hub Hctxb Hrelc Hblo)
        as (bb & l2 & Hs2 & Hpb); try assumption; try lia.
      destruct (HLr l2) as (br & l3 & Hs3).
      destruct (Hmk bc l1 bb l2 br l3 Hs1 Hs2 Hs3) as (Hshape & Hlo).
      eexists _, _. split; [exact Hshape|]. split; [rewrite Hlo; exact Hlout|].
      destruct r as [v|o|cc]; cbn [bv_post brs_post] in *.
      * destruct Hpb as (Ein & stL' & Hxb & Hrelb & Hkb & Hvb).
        exists E1, stL', F1. split; [|exact Hvb].
        eapply okstep_trans'; [exact Hokc|].
        eapply (okstep_if sc e st1 st' F1 lo hi E1 stL1 (aexpand l1 vc) bb br (VBool true) stc Ein stL'); try assumption.
        cbn [truthy]. apply Hs2.
      * eapply okstep_exit'; [exact Hokc | exact Hrel |].
        eapply (exit_if pv sv bound u fl W ctx sc e lo hi E1 stL1 (aexpand l1 vc) bb br (VBool true) stc); [exact Hwf1 | exact Hevc | exact Hxc | cbn [truthy]; apply Hs2 | exact Hpb].
      * eapply okstep_exit'; [exact Hokc | exact Hrel |].
        eapply (exit_if pv sv bound u fl W ctx sc e lo hi E1 stL1 (aexpand l1 vc) bb br (VBool true) stc); [exact Hwf1 | exact Hevc | exact Hxc | cbn [truthy]; apply Hs2 | exact Hpb].
    + (* the next branch *)
      destruct (HLb l1) as (bb & l2 & Hs2).
      assert (Hctxr : ctx_ok l2 F1 E1 c1 c').
      { eapply (ctx_lut l1 F1 E1 c1 c' l2 c0 c1); [eapply ctx_sub; [exact Hctx1 | lia | lia] | apply Hs2 | destruct Hctx1; lia | left; lia]. }
      assert (Hl2out : alut_get l2 out = None) by (destruct Hs2 as (_ & _ & Hfr2 & _); rewrite Hfr2 by lia; exact Hl1out).
      destruct (IH k ctx c1 ys c' e st1 r st' sc l2 E1 stc F1 out p lo hi Hev Hys Hfr Hur Hctxr Hrelc Hblo)
        as (br & l3 & Hs3 & Hl3out & Hpr); try assumption; try lia.
      destruct (Hmk bc l1 bb l2 br l3 Hs1 Hs2 Hs3) as (Hshape & Hlo).
      eexists _, _. split; [exact Hshape|]. split; [rewrite Hlo; exact Hlout|].
      destruct r as [v|o|cc]; cbn [brs_post] in *.
      * destruct Hpr as (Ein & stL' & Fin & (Hxr & Hfr' & Hrelr & Hnr & Hkr) & Hvr).
        exists E1, stL', F1. split; [|exact Hvr].
        eapply okstep_trans'; [exact Hokc|].
        eapply (okstep_if sc e st1 st' F1 lo hi E1 stL1 (aexpand l1 vc) bb br (VBool false) stc Ein stL'); try assumption.
        -- cbn [truthy]. apply Hs3.
        -- eapply (rel_restrict pv sv bound u fl W sc e st1 e st' E1 Ein stc stL'); [exact Hrelc | exact Hrelr | exact Hkr | apply (wr_incl _ _ _ _ _ _ _ Hfr') | apply (wr_ncell _ _ _ _ _ _ _ Hfr')].
        -- split; [apply (wr_ncell _ _ _ _ _ _ _ Hfr')|]. intros t q Hbt Hr Hq. apply (wr_cells _ _ _ _ _ _ _ Hfr' t q Hbt Hr Hq).
      * eapply okstep_exit'; [exact Hokc | exact Hrel |].
        eapply (exit_if pv sv bound u fl W ctx sc e lo hi E1 stL1 (aexpand l1 vc) bb br (VBool false) stc); [exact Hwf1 | exact Hevc | exact Hxc | cbn [truthy]; apply Hs3 | exact Hpr].
      * eapply okstep_exit'; [exact Hokc | exact Hrel |].
        eapply (exit_if pv sv bound u fl W ctx sc e lo hi E1 stL1 (aexpand l1 vc) bb br (VBool false) stc); [exact Hwf1 | exact Hevc | exact Hxc | cbn [truthy]; apply Hs3 | exact Hpr].
  - (* the else branch *)
    destruct k as [|k]; [discriminate|]. rewrite frag_branches_none in Hf. destruct brs; [|discriminate Hf].
    destruct (frag_stmts pv sv bound fl k sc body) as [scb|] eqn:Hfb; [|discriminate Hf].
    apply mapM_cons_ok in Hm as (y & c1 & ys & Hy & Hys & ->). destruct (mapM_nil_ok _ _ _ _ Hys) as [-> <-].
    unfold lower_if_branch in Hy. mon Hy. fresh_all. rename a0 into blk.
    match goal with H : lower_eblock _ _ _ _ _ _ = Ok _ |- _ => rename H into Hmb end.
    assert (Hcode : concat [[IBool c true; IIf c] ++ blk] ++ map (fun _ : ifbranch => IEnd) [IfBranch None body bsp]
                    = IBool c true :: IIf c :: blk ++ [IEnd]) by (cbn [concat map app]; rewrite app_nil_r; reflexivity).
    rewrite Hcode in *.
    apply ucovers_cons in Hu as [_ Hu]. apply ucovers_cons in Hu as [Huif Hu]. apply ucovers_app in Hu as [Hub _].
    assert (Hcv : 1 <= count_of u c) by (apply Huif; left; reflexivity).
    destruct (L_eblock pv sv bound u fl g (fun fl0 => L_expr_all pv sv bound u fl0 g) (L_stmts_all pv sv bound u fl g) k out body ctx (c + 1) blk c' sc scb l Hmb Hfb)
      as (_ & _ & (_ & Hc1 & _)).
    change (if_go n e [IfBranch None body bsp]) with (SyltSem.block_value n e body) in Hev.
    assert (Hctxv : ctx_ok l F E c (c + 1)) by (eapply ctx_sub; [exact Hctx | lia | lia]).
    destruct (finish_iis pv sv bound u fl W sc e st F c (c + 1) E stL l c (if true then ETrue else EFalse) _ Hrel Hctxv ltac:(lia) (denotes_bool F E stL true))
      as (E1 & stL1 & F1 & Hok1 & Hd1). specialize (Hd1 Hcv).
    set (l1 := snd (aiis u l c ETrue)) in *.
    pose proof Hok1 as (_ & Hf1 & Hrel1 & Hn1 & _).
    assert (Hsv : cshape u l [IBool c true] (fst (aiis u l c ETrue)) l1 c (c + 1))
      by (apply (cshape_iis u l (IBool c true) c ETrue c (c + 1)); [lia | reflexivity | reflexivity]).
    assert (Hctx1 : ctx_ok l1 F1 E1 (c + 1) c') by (eapply ctx_after; eassumption).
    pose proof (r_wf _ _ _ _ _ _ _ _ _ _ _ Hrel1) as Hwf1. pose proof (r_linv _ _ _ _ _ _ _ _ _ _ _ Hrel1) as Hli1.
    destruct (denotes_now _ _ _ _ _ Hd1 Hwf1 Hli1) as (lvc & Hvvc & stc & Hevc & _ & Hxc). inversion Hvvc; subst lvc.
    assert (Hrelc : rel sc e st E1 stc) by (eapply rel_cells_ext; eassumption).
    assert (Hblo' : bound <= out) by lia.
    assert (Hp1 : sget (fmt_var out) E1 = Some p) by (apply (wr_incl _ _ _ _ _ _ _ Hf1); assumption).
    assert (Hcellc : get_cell stc p = VNil).
    { rewrite <- Hcell. rewrite <- (wr_cells _ _ _ _ _ _ _ Hf1 out p Hblo' ltac:(lia) Hp). apply Hxc. eapply wf_alloc; eassumption. }
    assert (Hl1out : alut_get l1 out = None) by (unfold l1; rewrite aiis_lut by lia; exact Hlout).
    assert (Hokc : okstep sc e st F lo hi E stL (fst (aiis u l c ETrue)) E1 stL1 F1) by (eapply okstep_widen; [exact Hok1 | lia | lia]).
    destruct (IHb g k body ctx (c + 1) blk c' e st r st' sc scb l1 E1 stc F1 out p lo hi Hev Hmb Hfb Hub Hctx1 Hrelc Hblo)
      as (bb & l2 & Hs2 & Hpb); try assumption; try lia.
    eexists _, _. split; [|split].
    + eapply cshape_cons'; [eapply cshape_widen; [exact Hsv | lia | lia]|].
      apply cshape_if. eapply cshape_widen; [exact Hs2 | lia | lia].
    + destruct Hs2 as (_ & _ & Hfr2 & _). rewrite Hfr2 by lia. exact Hl1out.
    + destruct r as [v|o|cc]; cbn [bv_post brs_post] in *.
      * destruct Hpb as (Ein & stL' & Hxb & Hrelb & Hkb & Hvb).
        exists E1, stL', F1. split; [|exact Hvb].
        eapply okstep_trans'; [exact Hokc|].
        eapply (okstep_if sc e st st' F1 lo hi E1 stL1 (aexpand l1 c) bb [] (VBool true) stc Ein stL'); try assumption.
        cbn [truthy]. apply Hs2.
      * eapply okstep_exit'; [exact Hokc | exact Hrel |].
        eapply (exit_if pv sv bound u fl W ctx sc e lo hi E1 stL1 (aexpand l1 c) bb [] (VBool true) stc); [exact Hwf1 | exact Hevc | exact Hxc | cbn [truthy]; apply Hs2 | exact Hpb].
      * eapply okstep_exit'; [exact Hokc | exact Hrel |].
        eapply (exit_if pv sv bound u fl W ctx sc e lo hi E1 stL1 (aexpand l1 c) bb [] (VBool true) stc); [exact Hwf1 | exact Hevc | exact Hxc | cbn [truthy]; apply Hs2 | exact Hpb].
Qed.

Lemma P_eval_zero : P_eval O.
Proof.
  intros g k x ctx c code v c' e st r st' sc l E stL F Hev _ _ _ _ _ Hint.
  cbn in Hev. inversion Hev; subst. destruct Hint.
Qed.

Lemma P_eval_succ n : P_eval n -> P_bv n -> P_ecall pv sv bound u fl W (S n) -> P_eval (S n).
Proof.
  intros IH IHb IHcall g k x ctx c code v c' e st r st' sc l E stL F Hev Hlow Hfrag Hu Hctx Hrel Hint.
  destruct g as [|g]; [discriminate|]. destruct k as [|k]; [discriminate|].
  destruct x; try discriminate Hfrag; cbn [frag_expr] in Hfrag.
  - (* ERead *)
    cbn [expression] in Hlow. mon Hlow. fresh_all. inj_code.
    cbn [SyltSem.eval] in Hev.
    assert (Hin : In var sc).
    { unfold memN in Hfrag. apply existsb_exists in Hfrag as (y & Hy & Heq). apply N.eqb_eq in Heq. subst. exact Hy. }
    destruct (step_copy pv sv bound u fl W sc e st F c (c + 1) E stL l c var Hrel Hctx ltac:(lia) Hin)
      as (ca & x & Hlk & Hnth & E' & stL' & F' & Hok & Hden).
    rewrite Hlk in Hev. unfold SyltSem.read_cell in Hev. rewrite Hnth in Hev. inversion Hev; subst.
    eexists _, _. split; [apply cshape_plain; [lia | reflexivity | reflexivity | apply used_plain]|].
    split; [lia|]. split; [lia|].
    cbn [eval_post]. exists E', stL', F'. split; [exact Hok | exact Hden].
  - (* ECall *)
    assert (Hother : (forall fsp, x <> ERead pv fsp) ->
              exists b l', cshape u l code b l' c c' /\ c <= v /\ v < c' /\ eval_post ctx sc e F c c' E stL b l' v r st')
      by (intros Hnp; apply (IHcall (S g) (S k) x args sp ctx c code v c' e st r st' sc l E stL F Hnp Hev Hlow Hfrag Hu Hctx Hrel Hint)).
    destruct x; try (apply Hother; intros fsp H; discriminate H). clear Hother.
    assert (Hfrag0 : frag_expr pv sv bound fl (S k) sc (Resolved.ECall (ERead var sp0) args sp) = true) by exact Hfrag.
    pose proof Hfrag0 as Hfrag'. rewrite frag_expr_call in Hfrag'. clear Hfrag. rename Hfrag' into Hfrag.
    destruct (N.eqb_spec var pv) as [->|Hnpv].
    2: { (* f(a1, ..., an): SimEcall *)
      apply (IHcall (S g) (S k) (ERead var sp0) args sp ctx c code v c' e st r st' sc l E stL F
               ltac:(intros fsp H; inversion H; contradiction) Hev Hlow Hfrag0 Hu Hctx Hrel Hint). }
    (* print(a) *)
    destruct args as [|a [|? ?]]; try discriminate Hfrag.
    apply andb_prop in Hfrag as [Hfrag Hfr].
    cbn [expression] in Hlow. mon Hlow.
    destruct g as [|g']; [discriminate|].
    cbn [expression] in Hm. mon Hm. fresh_all.
    apply mapM_cons_ok in Hm0 as (ya & ca & ys & Ha & Hnil & ->). apply mapM_nil_ok in Hnil as [-> ->].
    fresh_all. inj_code.
    destruct ya as [code_a va]. cbn [map fst snd concat] in *. rewrite app_nil_r in *.
    (* the reference interpreter *)
    cbn [SyltSem.eval] in Hev.
    destruct n as [|n']; [cbn in Hev; inversion Hev; subst; destruct Hint|].
    destruct (r_print _ _ _ _ _ _ _ _ _ _ _ Hrel) as (cp & Hlkp & Hnthp).
    apply sbind_inv in Hev as [(fv & st1 & Hfv & Hev) | [(o & Hfv & ->) | (cc & Hfv & ->)]].
    2,3: cbn [SyltSem.eval] in Hfv; rewrite Hlkp in Hfv; unfold SyltSem.read_cell in Hfv; rewrite Hnthp in Hfv; discriminate.
    cbn [SyltSem.eval] in Hfv. rewrite Hlkp in Hfv. unfold SyltSem.read_cell in Hfv. rewrite Hnthp in Hfv.
    inversion Hfv; subst fv st1. clear Hfv.
    unfold SyltSem.bind at 1 in Hev. rewrite (smapM_one (SyltSem.eval (S n') e) a) in Hev.
    destruct (SyltSem.eval (S n') e a st) as [ra st1] eqn:Hy.
    assert (Hia : interesting ra).
    { destruct ra; cbn in Hev; [exact I | inversion Hev; subst; exact Hint | inversion Hev; subst; exact Hint]. }
    (* structure and usage counts *)
    destruct (L_expr_all pv sv bound u fl (S g') k a ctx (c + 1) code_a va ca sc l Ha Hfr) as (b0 & l0 & (_ & Hca & _) & Hva1 & Hva2).
    apply ucovers_cons in Hu as [_ Hu]. apply ucovers_app in Hu as [Hua Huc].
    assert (Hcc : 1 <= count_of u c) by (eapply Huc; [left; reflexivity | cbn [ir_uses]; left; reflexivity]).
    assert (Hcva : 1 <= count_of u va) by (eapply Huc; [left; reflexivity | cbn [ir_uses]; right; left; reflexivity]).
    (* the callee *)
    assert (Hctx0 : ctx_ok l F E c (c + 1)) by (eapply ctx_sub; [exact Hctx | lia | lia]).
    destruct (step_copy_print pv sv bound u fl W sc e st F c (c + 1) E stL l c Hrel Hctx0 ltac:(lia) Hcc) as (E1 & stL1 & F1 & Hok1 & Hdf).
    assert (Hs0 : cshape u l [ICopy c pv] (fst (agen_one u l (ICopy c pv))) l c (c + 1))
      by (apply cshape_plain; [lia | reflexivity | reflexivity | apply used_plain]).
    assert (Hctx1 : ctx_ok l F1 E1 (c + 1) ca).
    { eapply ctx_sub; [eapply (ctx_after sc e st l F E stL c (c + 1) (ca + 1)); [exact Hctx | exact Hs0 | exact Hok1] | lia | lia]. }
    pose proof Hok1 as (Hx1 & _ & Hrel1 & _).
    (* the argument *)
    destruct (IH (S g') k a ctx (c + 1) code_a va ca e st ra st1 sc l E1 stL1 F1 Hy Ha Hfr Hua Hctx1 Hrel1 Hia)
      as (b_a & l1 & Hsa & _ & _ & Hpa).
    assert (Hs01 : cshape u l (ICopy c pv :: code_a) (fst (agen_one u l (ICopy c pv)) ++ b_a) l1 c ca)
      by (eapply cshape_cons; eassumption).
    assert (Hshape : cshape u l (ICopy c pv :: code_a ++ [ICall ca c [va]])
                       ((fst (agen_one u l (ICopy c pv)) ++ b_a) ++ fst (agen_one u l1 (ICall ca c [va]))) l1 c (ca + 1)).
    { change (ICopy c pv :: code_a ++ [ICall ca c [va]]) with ((ICopy c pv :: code_a) ++ [ICall ca c [va]]).
      eapply cshape_app; [exact Hs01|]. apply (cshape_plain u l1 (ICall ca c [va]) ca (ca + 1)); [lia | reflexivity | reflexivity | reflexivity]. }
    eexists _, _. split; [exact Hshape|]. split; [lia|]. split; [lia|].
    destruct ra as [y|o|cc]; cbn in Hev.
    + (* the argument has a value *)
      destruct Hpa as (E2 & stL2 & F2 & Hok2 & Hda). specialize (Hda Hcva).
      pose proof Hok2 as (_ & _ & Hrel2 & _).
      destruct (denotes_now _ _ _ _ _ Hda (r_wf _ _ _ _ _ _ _ _ _ _ _ Hrel2) (r_linv _ _ _ _ _ _ _ _ _ _ _ Hrel2)) as (lv & Hvy & _).
      assert (Hyx : exists x, y = SV x) by (inversion Hvy; eauto). destruct Hyx as [x ->].
      cbn in Hev. inversion Hev; subst r st'. clear Hev.
      assert (Hok12 : okstep sc e st1 F c ca E stL (fst (agen_one u l (ICopy c pv)) ++ b_a) E2 stL2 F2)
        by (eapply okstep_trans; [exact Hok1 | exact Hok2 | lia | lia]).
      assert (Hctx2 : ctx_ok l1 F2 E2 ca (ca + 1)) by (eapply ctx_after; eassumption).
      assert (Hdf2 : ldenotes F2 E2 stL2 (aexpand l1 c) (VBuiltin BPrint)).
      { replace (aexpand l1 c) with (aexpand l c).
        - eapply ldenotes_step; [exact Hdf | exact Hok2 | apply (cx_F _ _ _ _ _ _ Hctx1)].
        - unfold aexpand. destruct Hsa as (_ & _ & Hfr1 & _). rewrite Hfr1 by lia. reflexivity. }
      destruct (step_call_print pv sv bound u fl W sc e st1 F2 ca (ca + 1) E2 stL2 l1 ca c va x Hrel2 Hctx2 ltac:(lia) Hdf2 Hda)
        as (E3 & stL3 & F3 & Hok3 & Hd3).
      cbn [eval_post]. exists E3, stL3, F3. split; [|intros _; exact Hd3].
      eapply okstep_trans; [exact Hok12 | exact Hok3 | lia | lia].
    + (* the argument stops: a failed assertion inside it *)
      inversion Hev; subst r st'. clear Hev. cbn [eval_post] in *.
      eapply exit_app; [eapply okstep_exit; [exact Hok1 | exact Hrel | exact Hpa | lia | lia] | lia].
    + (* break / continue inside the argument *)
      inversion Hev; subst r st'. clear Hev. cbn [eval_post] in *.
      eapply exit_app; [eapply okstep_exit; [exact Hok1 | exact Hrel | exact Hpa | lia | lia] | lia].
  - (* EBinOp *)
    frag_split Hfrag.
    destruct (value_op op) eqn:Hvop.
    + (* + - * and the comparisons *)
      rewrite (expr_binop_unfold g op x1 x2 sp ctx Hvop) in Hlow. mon Hlow. fresh_all.
      destruct a as [code_a va]. destruct a0 as [code_b vb]. cbn [fst snd] in *.
      destruct (binop_ir op c1 va vb) as [i|] eqn:Hi; [|discriminate].
      apply ret_ok in Hlow as [Heq <-]. injection Heq as <- <-.
      destruct (agen_binop u l op c1 va vb i Hvop Hi) as (_ & Hsimple & Huses).
      apply ucovers_app in Hu as [Hua Hu]. apply ucovers_app in Hu as [Hub Hui].
      assert (Hcva : 1 <= count_of u va) by (eapply Hui; [left; reflexivity | rewrite Huses; left; reflexivity]).
      assert (Hcvb : 1 <= count_of u vb) by (eapply Hui; [left; reflexivity | rewrite Huses; right; left; reflexivity]).
      destruct (eval_two n g k x1 x2 ctx c code_a va c0 code_b vb c1 (c1 + 1) e st sc l E stL F IH Hm Hm0 Hfr0 Hfr Hua Hub ltac:(lia) Hctx Hrel)
        as (b1 & l1 & b2 & l2 & Hs1 & Hs2 & Hva1 & Hva2 & Hvb1 & Hvb2 & Hmatch).
      destruct (agen_binop u l2 op c1 va vb i Hvop Hi) as (Hgen & _ & _).
      pose proof Hs1 as (_ & Hc0 & _). pose proof Hs2 as (_ & Hc01 & _).
      assert (Hshape : cshape u l (code_a ++ code_b ++ [i]) (b1 ++ b2 ++ fst (aiis u l2 c1 (bexpr op (aexpand l2 va) (aexpand l2 vb))))
                         (snd (aiis u l2 c1 (bexpr op (aexpand l2 va) (aexpand l2 vb)))) c (c1 + 1)).
      { eapply cshape_app; [exact Hs1|]. eapply cshape_app; [exact Hs2|].
        apply (cshape_iis u l2 i c1 _ c1 (c1 + 1)); [lia | exact Hsimple | exact Hgen]. }
      eexists _, _. split; [exact Hshape|]. split; [lia|]. split; [lia|].
      rewrite (seval_binop_unfold n e op x1 x2 sp Hvop) in Hev.
      unfold SyltSem.bind at 1 in Hev.
      destruct (SyltSem.eval n e x1 st) as [[va_|o|cc] st1].
      2,3: (inversion Hev; subst; cbn [eval_post]; rewrite app_assoc; eapply exit_app; [exact (Hmatch Hint) | lia]).
      unfold SyltSem.bind at 1 in Hev.
      destruct (SyltSem.eval n e x2 st1) as [[vb_|o|cc] st2].
      2,3: (inversion Hev; subst; cbn [eval_post]; rewrite app_assoc; eapply exit_app; [exact (Hmatch Hint) | lia]).
      destruct Hmatch as (E2 & stL2 & F2 & Hok2 & Hctx2 & Hda & Hdb). specialize (Hda Hcva). specialize (Hdb Hcvb).
      pose proof Hok2 as (_ & _ & Hrel2 & _).
      destruct (denotes_now _ _ _ _ _ Hda (r_wf _ _ _ _ _ _ _ _ _ _ _ Hrel2) (r_linv _ _ _ _ _ _ _ _ _ _ _ Hrel2)) as (lva & Hvva & _).
      destruct (denotes_now _ _ _ _ _ Hdb (r_wf _ _ _ _ _ _ _ _ _ _ _ Hrel2) (r_linv _ _ _ _ _ _ _ _ _ _ _ Hrel2)) as (lvb & Hvvb & _).
      assert (Hxa : exists xa, va_ = SV xa) by (inversion Hvva; eauto). destruct Hxa as [xa ->].
      assert (Hxb : exists xb, vb_ = SV xb) by (inversion Hvvb; eauto). destruct Hxb as [xb ->].
      unfold SyltSem.bind at 1 in Hev. rewrite snapshot_SV in Hev.
      unfold SyltSem.bind at 1 in Hev. rewrite snapshot_SV in Hev.
      unfold SyltSem.bind at 1 in Hev.
      destruct (SyltSem.binop_val op xa xb st2) as [[rv|o|cc] st3] eqn:Hbv.
      * pose proof (binop_val_state _ _ _ _ _ _ Hbv). subst st3.
        cbn in Hev. inversion Hev; subst r st'. clear Hev.
        pose proof (denotes_binop F2 E2 stL2 op _ _ xa xb rv st2 st2 Hvop Hda Hdb Hbv) as Hdr.
        destruct (finish_iis pv sv bound u fl W sc e st2 F2 c1 (c1 + 1) E2 stL2 l2 c1 _ _ Hrel2 Hctx2 ltac:(lia) Hdr)
          as (E3 & stL3 & F3 & Hok3 & Hd3).
        cbn [eval_post]. exists E3, stL3, F3. split; [|exact Hd3].
        rewrite app_assoc. eapply okstep_trans; [exact Hok2 | exact Hok3 | lia | lia].
      * inversion Hev; subst. apply binop_val_res in Hbv. apply stuckish_not_good in Hbv. contradiction.
      * apply binop_val_res in Hbv. destruct Hbv.
    + destruct op; try discriminate Hfrag; try discriminate Hvop.
      * (* <=> *)
        cbn [expression] in Hlow. mon Hlow. fresh_all. inj_code.
        destruct a as [code_a va]. destruct a0 as [code_b vb]. cbn [fst snd] in *.
        apply ucovers_app in Hu as [Hua Hu]. apply ucovers_app in Hu as [Hub Hui].
        assert (Hcva : 1 <= count_of u va) by (eapply Hui; [left; reflexivity | left; reflexivity]).
        assert (Hcvb : 1 <= count_of u vb) by (eapply Hui; [left; reflexivity | right; left; reflexivity]).
        assert (Hcc : 1 <= count_of u c1) by (eapply Hui; [right; left; reflexivity | left; reflexivity]).
        destruct (eval_two n g k x1 x2 ctx c code_a va c0 code_b vb c1 (c1 + 1) e st sc l E stL F IH Hm Hm0 Hfr0 Hfr Hua Hub ltac:(lia) Hctx Hrel)
          as (b1 & l1 & b2 & l2 & Hs1 & Hs2 & Hva1 & Hva2 & Hvb1 & Hvb2 & Hmatch).
        pose proof Hs1 as (_ & Hc0 & _). pose proof Hs2 as (_ & Hc01 & _).
        set (xe := bexpr Equals (aexpand l2 va) (aexpand l2 vb)).
        set (l3 := snd (aiis u l2 c1 xe)).
        assert (Hshape : cshape u l (code_a ++ code_b ++ [IEquals c1 va vb; IAssert c1])
                           (b1 ++ b2 ++ fst (aiis u l2 c1 xe) ++ fst (agen_one u l3 (IAssert c1))) l3 c (c1 + 1)).
        { eapply cshape_app; [exact Hs1|]. eapply cshape_app; [exact Hs2|].
          eapply cshape_cons; [apply (cshape_iis u l2 (IEquals c1 va vb) c1 xe c1 (c1 + 1)); [lia | reflexivity | reflexivity]|].
          apply (cshape_plain u l3 (IAssert c1) (c1 + 1) (c1 + 1)); [lia | reflexivity | reflexivity | reflexivity]. }
        eexists _, _. split; [exact Hshape|]. split; [lia|]. split; [lia|].
        cbn [SyltSem.eval] in Hev.
        unfold SyltSem.bind at 1 in Hev.
        destruct (SyltSem.eval n e x1 st) as [[va_|o|cc] st1].
        2,3: (inversion Hev; subst; cbn [eval_post]; rewrite app_assoc; eapply exit_app; [exact (Hmatch Hint) | lia]).
        unfold SyltSem.bind at 1 in Hev.
        destruct (SyltSem.eval n e x2 st1) as [[vb_|o|cc] st2].
        2,3: (inversion Hev; subst; cbn [eval_post]; rewrite app_assoc; eapply exit_app; [exact (Hmatch Hint) | lia]).
        destruct Hmatch as (E2 & stL2 & F2 & Hok2 & Hctx2 & Hda & Hdb). specialize (Hda Hcva). specialize (Hdb Hcvb).
        pose proof Hok2 as (Hx2 & _ & Hrel2 & _).
        destruct (denotes_now _ _ _ _ _ Hda (r_wf _ _ _ _ _ _ _ _ _ _ _ Hrel2) (r_linv _ _ _ _ _ _ _ _ _ _ _ Hrel2)) as (lva & Hvva & _).
        destruct (denotes_now _ _ _ _ _ Hdb (r_wf _ _ _ _ _ _ _ _ _ _ _ Hrel2) (r_linv _ _ _ _ _ _ _ _ _ _ _ Hrel2)) as (lvb & Hvvb & _).
        assert (Hxa : exists xa, va_ = SV xa) by (inversion Hvva; eauto). destruct Hxa as [xa ->].
        assert (Hxb : exists xb, vb_ = SV xb) by (inversion Hvvb; eauto). destruct Hxb as [xb ->].
        unfold SyltSem.bind at 1 in Hev. rewrite snapshot_SV in Hev.
        unfold SyltSem.bind at 1 in Hev. rewrite snapshot_SV in Hev.
        assert (Hdr : denotes F2 E2 stL2 xe (SV (Values.VBool (Runtime.rt_eq xa xb)))).
        { apply (denotes_binop F2 E2 stL2 Equals _ _ xa xb _ st2 st2 eq_refl Hda Hdb). reflexivity. }
        destruct (finish_iis pv sv bound u fl W sc e st2 F2 c1 (c1 + 1) E2 stL2 l2 c1 _ _ Hrel2 Hctx2 ltac:(lia) Hdr)
          as (E3 & stL3 & F3 & Hok3 & Hd3). specialize (Hd3 Hcc).
        pose proof Hok3 as (Hx3 & _ & Hrel3 & _).
        pose proof (step_assert pv sv bound u fl W sc e st2 F3 E3 stL3 l3 c1 (Runtime.rt_eq xa xb) Hrel3 Hd3) as Hass.
        assert (Hok23 : okstep sc e st2 F c (c1 + 1) E stL ((b1 ++ b2) ++ fst (aiis u l2 c1 xe)) E3 stL3 F3)
          by (eapply okstep_trans; [exact Hok2 | exact Hok3 | lia | lia]).
        destruct (Runtime.rt_eq xa xb) eqn:Heq.
        -- inversion Hev; subst r st'. clear Hev.
           destruct Hass as (stL4 & Hx4 & Hext & Hrel4).
           cbn [eval_post]. exists E3, stL4, F3. split.
           ++ replace (b1 ++ b2 ++ fst (aiis u l2 c1 xe) ++ fst (agen_one u l3 (IAssert c1)))
                with (((b1 ++ b2) ++ fst (aiis u l2 c1 xe)) ++ fst (agen_one u l3 (IAssert c1))) by (rewrite <- !app_assoc; reflexivity).
              destruct Hok23 as (Hx23 & Hf23 & _ & Hn23).
              split; [eapply ExecS_app; [exact Hx23 | exact Hx4]|]. split; [|split; [exact Hrel4 | exact Hn23]].
              eapply wframe_trans; [exact Hf23|]. apply lframe_w. apply lframe_cells_ext; [apply (r_wf _ _ _ _ _ _ _ _ _ _ _ Hrel3) | apply (r_linv _ _ _ _ _ _ _ _ _ _ _ Hrel3) | exact Hext].
           ++ intros _. eapply denotes_mono; [exact Hd3 | apply fut_cells_ext; [apply (r_wf _ _ _ _ _ _ _ _ _ _ _ Hrel3) | exact Hext] | apply incl_refl].
        -- inversion Hev; subst r st'. clear Hev.
           destruct Hass as (ev & stL4 & Hx4 & Htr).
           cbn [eval_post]. exists (RErr ev stL4). split; [|cbn [exit_ok]; eauto].
           replace (b1 ++ b2 ++ fst (aiis u l2 c1 xe) ++ fst (agen_one u l3 (IAssert c1)))
             with (((b1 ++ b2) ++ fst (aiis u l2 c1 xe)) ++ fst (agen_one u l3 (IAssert c1))) by (rewrite <- !app_assoc; reflexivity).
           destruct Hok23 as (Hx23 & _). eapply ExecS_app; [exact Hx23 | exact Hx4].
      * (* and *)
        cbn [expression] in Hlow. mon Hlow. fresh_all. inj_code.
        destruct a as [code_a va]. destruct a0 as [code_b vb]. cbn [fst snd] in *.
        set (t := c1) in *. set (flg := c1 + 1) in *.
        apply ucovers_app in Hu as [Hua Hu].
        apply ucovers_cons in Hu as [Hu1 Hu]. apply ucovers_cons in Hu as [_ Hu]. apply ucovers_cons in Hu as [Hu3 Hu].
        apply ucovers_cons in Hu as [Hu4 Hu]. apply ucovers_app in Hu as [Hub Huend].
        assert (Hct : 1 <= count_of u t) by (apply Hu1; left; reflexivity).
        assert (Hcfl : 1 <= count_of u flg) by (apply Hu3; right; left; reflexivity).
        assert (Hcva : 1 <= count_of u va) by (apply Hu4; left; reflexivity).
        assert (Hcvb : 1 <= count_of u vb) by (eapply Huend; [left; reflexivity | right; left; reflexivity]).
        destruct (L_expr_all pv sv bound u fl g k x1 ctx c code_a va c0 sc l Hm Hfr0) as (b1' & l1' & Hs1' & Hva1 & Hva2).
        pose proof Hs1' as (_ & Hc0 & _).
        assert (Hsb : forall l0, exists b2 l2, cshape u l0 code_b b2 l2 c0 c1 /\ c0 <= vb /\ vb < c1)
          by (intros l0; apply (L_expr_all pv sv bound u fl g k x2 ctx c0 code_b vb c1 sc l0 Hm0 Hfr)).
        destruct (Hsb l) as (_ & _ & (_ & Hc01 & _) & Hvb1 & Hvb2).
        assert (Hctxa : ctx_ok l F E c c0) by (eapply ctx_sub; [exact Hctx | lia | unfold t in *; lia]).
        cbn [SyltSem.eval] in Hev. unfold SyltSem.bind at 1 in Hev.
        destruct (SyltSem.eval n e x1 st) as [[va_|o|cc] st1] eqn:He1.
        2: { inversion Hev; subst.
             destruct (IH g k x1 ctx c code_a va c0 e st _ st' sc l E stL F He1 Hm Hfr0 Hua Hctxa Hrel Hint)
               as (b1 & l1 & Hs1 & _ & _ & Hp1).
             destruct (and_tail_shape u l1 t flg va code_b vb c0 c1 c (c1 + 1 + 1) Hsb) as (bl & l' & Hst); try (unfold t, flg; lia).
             eexists _, _. split; [eapply cshape_app'; [eapply cshape_widen; [exact Hs1 | lia | unfold t; lia] | exact Hst]|].
             split; [unfold t; lia|]. split; [unfold t; lia|].
             cbn [eval_post] in *. eapply exit_app; [exact Hp1 | unfold t; lia]. }
        2: { inversion Hev; subst.
             destruct (IH g k x1 ctx c code_a va c0 e st _ st' sc l E stL F He1 Hm Hfr0 Hua Hctxa Hrel Hint)
               as (b1 & l1 & Hs1 & _ & _ & Hp1).
             destruct (and_tail_shape u l1 t flg va code_b vb c0 c1 c (c1 + 1 + 1) Hsb) as (bl & l' & Hst); try (unfold t, flg; lia).
             eexists _, _. split; [eapply cshape_app'; [eapply cshape_widen; [exact Hs1 | lia | unfold t; lia] | exact Hst]|].
             split; [unfold t; lia|]. split; [unfold t; lia|].
             cbn [eval_post] in *. eapply exit_app; [exact Hp1 | unfold t; lia]. }
        destruct (IH g k x1 ctx c code_a va c0 e st _ st1 sc l E stL F He1 Hm Hfr0 Hua Hctxa Hrel I)
          as (b1 & l1 & Hs1 & _ & _ & E1 & stL1 & F1 & Hok1 & Hd1). specialize (Hd1 Hcva).
        pose proof Hok1 as (_ & _ & Hrel1 & _).
        assert (Hctx1 : ctx_ok l1 F1 E1 c0 (c1 + 1 + 1)) by (eapply ctx_after; eassumption).
        destruct (denotes_now _ _ _ _ _ Hd1 (r_wf _ _ _ _ _ _ _ _ _ _ _ Hrel1) (r_linv _ _ _ _ _ _ _ _ _ _ _ Hrel1)) as (lva & Hvva & _).
        unfold SyltSem.bind at 1 in Hev.
        assert (Hba : exists ba, va_ = SV (Values.VBool ba)).
        { inversion Hvva; subst; cbn in Hev; inversion Hev; subst; try destruct Hint. eauto. }
        destruct Hba as [ba ->]. cbn [SyltSem.truth SyltSem.ret] in Hev.
        assert (Hbc : bound <= c) by (destruct Hctx; assumption).
        destruct (sc_tail n g k x2 ctx c0 code_b vb c1 c (c1 + 1 + 1) e st1 sc l1 E1 stL1 F1 t flg None va false ba IH Hm0 Hfr Hub Hct Hcfl Hcvb Hbc Hc0)
          as (bl & l' & Hst & Hlt' & Hmatch); try (unfold t, flg; lia); try assumption; try discriminate.
        eexists _, _. split.
        { eapply cshape_app'; [eapply cshape_widen; [exact Hs1 | lia | unfold t in *; lia]|].
          match goal with |- cshape _ _ ?code _ _ _ _ =>
            replace code with ([IDefine t; IBool flg false; IAssign t flg] ++ sc_mid None va ++ IIf (sc_cond None va) :: (code_b ++ [IAssign t vb]) ++ [IEnd])
              by (unfold flg; cbn [app sc_mid sc_cond]; rewrite <- app_assoc; reflexivity) end.
          exact Hst. }
        split; [unfold t in *; lia|]. split; [unfold t; lia|].
        cbn [sc_go] in Hmatch.
        assert (Hres : (if ba then SyltSem.eval n e x2 st1 else (SyltSem.RVal (SV (Values.VBool false)), st1)) = (r, st'))
          by (destruct ba; exact Hev).
        rewrite Hres in Hmatch.
        destruct r as [sv_|o|cc].
        -- destruct Hmatch as (E5 & stL5 & F5 & Hokb & Hdb).
           cbn [eval_post]. exists E5, stL5, F5. split; [eapply okstep_trans'; [eapply okstep_widen; [exact Hok1 | lia | unfold t in *; lia] | exact Hokb]|].
           intros _. unfold aexpand. rewrite Hlt'. exact Hdb.
        -- cbn [eval_post]. eapply okstep_exit'; [eapply okstep_widen; [exact Hok1 | lia | unfold t in *; lia] | exact Hrel | exact (Hmatch Hint)].
        -- cbn [eval_post]. eapply okstep_exit'; [eapply okstep_widen; [exact Hok1 | lia | unfold t in *; lia] | exact Hrel | exact (Hmatch Hint)].
      * (* or *)
        cbn [expression] in Hlow. mon Hlow. fresh_all. inj_code.
        destruct a as [code_a va]. destruct a0 as [code_b vb]. cbn [fst snd] in *.
        apply ucovers_app in Hu as [Hua Hu].
        apply ucovers_cons in Hu as [Hu1 Hu]. apply ucovers_cons in Hu as [_ Hu]. apply ucovers_cons in Hu as [Hu3 Hu].
        apply ucovers_cons in Hu as [Hu4 Hu]. apply ucovers_cons in Hu as [Hu5 Hu]. apply ucovers_app in Hu as [Hub Huend].
        assert (Hct : 1 <= count_of u (c1 + 1)) by (apply Hu1; left; reflexivity).
        assert (Hcfl : 1 <= count_of u (c1 + 1 + 1)) by (apply Hu3; right; left; reflexivity).
        assert (Hcva : 1 <= count_of u va) by (apply Hu4; left; reflexivity).
        assert (Hcna : 1 <= count_of u c1) by (apply Hu5; left; reflexivity).
        assert (Hcvb : 1 <= count_of u vb) by (eapply Huend; [left; reflexivity | right; left; reflexivity]).
        destruct (L_expr_all pv sv bound u fl g k x1 ctx c code_a va c0 sc l Hm Hfr0) as (b1' & l1' & Hs1' & Hva1 & Hva2).
        pose proof Hs1' as (_ & Hc0 & _).
        assert (Hsb : forall l0, exists b2 l2, cshape u l0 code_b b2 l2 c0 c1 /\ c0 <= vb /\ vb < c1)
          by (intros l0; apply (L_expr_all pv sv bound u fl g k x2 ctx c0 code_b vb c1 sc l0 Hm0 Hfr)).
        destruct (Hsb l) as (_ & _ & (_ & Hc01 & _) & Hvb1 & Hvb2).
        assert (Hctxa : ctx_ok l F E c c0) by (eapply ctx_sub; [exact Hctx | lia | lia]).
        cbn [SyltSem.eval] in Hev. unfold SyltSem.bind at 1 in Hev.
        destruct (SyltSem.eval n e x1 st) as [[va_|o|cc] st1] eqn:He1.
        2: { inversion Hev; subst.
             destruct (IH g k x1 ctx c code_a va c0 e st _ st' sc l E stL F He1 Hm Hfr0 Hua Hctxa Hrel Hint)
               as (b1 & l1 & Hs1 & _ & _ & Hp1).
             destruct (or_tail_shape u l1 (c1 + 1) (c1 + 1 + 1) c1 va code_b vb c0 c1 c (c1 + 1 + 1 + 1) Hsb) as (bl & l' & Hst); try (lia).
             eexists _, _. split; [eapply cshape_app'; [eapply cshape_widen; [exact Hs1 | lia | lia] | exact Hst]|].
             split; [lia|]. split; [lia|].
             cbn [eval_post] in *. eapply exit_app; [exact Hp1 | lia]. }
        2: { inversion Hev; subst.
             destruct (IH g k x1 ctx c code_a va c0 e st _ st' sc l E stL F He1 Hm Hfr0 Hua Hctxa Hrel Hint)
               as (b1 & l1 & Hs1 & _ & _ & Hp1).
             destruct (or_tail_shape u l1 (c1 + 1) (c1 + 1 + 1) c1 va code_b vb c0 c1 c (c1 + 1 + 1 + 1) Hsb) as (bl & l' & Hst); try (lia).
             eexists _, _. split; [eapply cshape_app'; [eapply cshape_widen; [exact Hs1 | lia | lia] | exact Hst]|].
             split; [lia|]. split; [lia|].
             cbn [eval_post] in *. eapply exit_app; [exact Hp1 | lia]. }
        destruct (IH g k x1 ctx c code_a va c0 e st _ st1 sc l E stL F He1 Hm Hfr0 Hua Hctxa Hrel I)
          as (b1 & l1 & Hs1 & _ & _ & E1 & stL1 & F1 & Hok1 & Hd1). specialize (Hd1 Hcva).
        pose proof Hok1 as (_ & _ & Hrel1 & _).
        assert (Hctx1 : ctx_ok l1 F1 E1 c0 (c1 + 1 + 1 + 1)) by (eapply ctx_after; eassumption).
        destruct (denotes_now _ _ _ _ _ Hd1 (r_wf _ _ _ _ _ _ _ _ _ _ _ Hrel1) (r_linv _ _ _ _ _ _ _ _ _ _ _ Hrel1)) as (lva & Hvva & _).
        unfold SyltSem.bind at 1 in Hev.
        assert (Hba : exists ba, va_ = SV (Values.VBool ba)).
        { inversion Hvva; subst; cbn in Hev; inversion Hev; subst; try destruct Hint. eauto. }
        destruct Hba as [ba ->]. cbn [SyltSem.truth SyltSem.ret] in Hev.
        assert (Hbc : bound <= c) by (destruct Hctx; assumption).
        assert (Hmidok : forall na0, Some c1 = Some na0 -> c1 <= na0 < c1 + 1 + 1 + 1 /\ na0 <> (c1 + 1) /\ na0 <> (c1 + 1 + 1) /\ 1 <= count_of u na0).
        { intros na0 Heq. injection Heq as <-. splits; lia. }
        destruct (sc_tail n g k x2 ctx c0 code_b vb c1 c (c1 + 1 + 1 + 1) e st1 sc l1 E1 stL1 F1 (c1 + 1) (c1 + 1 + 1) (Some c1) va true ba IH Hm0 Hfr Hub Hct Hcfl Hcvb Hbc Hc0)
          as (bl & l' & Hst & Hlt' & Hmatch); try (lia); try assumption.
        eexists _, _. split.
        { eapply cshape_app'; [eapply cshape_widen; [exact Hs1 | lia | lia]|].
          match goal with |- cshape _ _ ?code _ _ _ _ =>
            replace code with ([IDefine (c1 + 1); IBool (c1 + 1 + 1) true; IAssign (c1 + 1) (c1 + 1 + 1)] ++ sc_mid (Some c1) va ++ IIf (sc_cond (Some c1) va) :: (code_b ++ [IAssign (c1 + 1) vb]) ++ [IEnd])
              by (cbn [app sc_mid sc_cond]; rewrite <- app_assoc; reflexivity) end.
          exact Hst. }
        split; [lia|]. split; [lia|].
        cbn [sc_go] in Hmatch.
        assert (Hres : (if negb ba then SyltSem.eval n e x2 st1 else (SyltSem.RVal (SV (Values.VBool true)), st1)) = (r, st'))
          by (destruct ba; exact Hev).
        rewrite Hres in Hmatch.
        destruct r as [sv_|o|cc].
        -- destruct Hmatch as (E5 & stL5 & F5 & Hokb & Hdb).
           cbn [eval_post]. exists E5, stL5, F5. split; [eapply okstep_trans'; [eapply okstep_widen; [exact Hok1 | lia | lia] | exact Hokb]|].
           intros _. unfold aexpand. rewrite Hlt'. exact Hdb.
        -- cbn [eval_post]. eapply okstep_exit'; [eapply okstep_widen; [exact Hok1 | lia | lia] | exact Hrel | exact (Hmatch Hint)].
        -- cbn [eval_post]. eapply okstep_exit'; [eapply okstep_widen; [exact Hok1 | lia | lia] | exact Hrel | exact (Hmatch Hint)].
  - (* EUniOp *)
    assert (Hcommon : forall c0 code_a va i (xf : expr -> expr),
               expression g x ctx c = Ok ((code_a, va), c0) -> code = code_a ++ [i] -> v = c0 -> c' = c0 + 1 ->
               simple_op i = true -> (forall l0, agen_one u l0 i = aiis u l0 c0 (xf (aexpand l0 va))) -> In va (ir_uses i) ->
               (forall F0 E0 st0 xa sva st1 r0, denotes F0 E0 st0 xa sva ->
                   (match op with
                    | Not => SyltSem.bind (SyltSem.truth "not" sva) (fun ba => SyltSem.ret (SV (Values.VBool (negb ba))))
                    | Neg => SyltSem.bind (SyltSem.as_value "a negated value" sva) (fun xa => SyltSem.bind (SyltSem.lift_res "unary -" (Runtime.rt_neg xa)) (fun r => SyltSem.ret (SV r)))
                    end) st1 = (r0, st') -> wfenv E0 st0 -> linv st0 ->
                   match r0 with
                   | SyltSem.RVal sv_ => st' = st1 /\ denotes F0 E0 st0 (xf xa) sv_
                   | SyltSem.RStop o => ~ good_stop o
                   | SyltSem.RAbrupt _ => False
                   end) ->
               exists (b : block) (l' : alut),
                 cshape u l code b l' c c' /\ c <= v /\ v < c' /\ eval_post ctx sc e F c c' E stL b l' v r st').
    { intros c0 code_a va i xf Ha -> -> -> Hsimple Hgen Huse Hsem.
      apply ucovers_app in Hu as [Hua Hui].
      assert (Hcva : 1 <= count_of u va) by (eapply Hui; [left; reflexivity | exact Huse]).
      destruct (L_expr_all pv sv bound u fl g k x ctx c code_a va c0 sc l Ha Hfrag) as (_ & _ & (_ & Hc0 & _) & Hva1 & Hva2).
      assert (Hctxa : ctx_ok l F E c c0) by (eapply ctx_sub; [exact Hctx | lia | lia]).
      assert (Hev' : SyltSem.bind (SyltSem.eval n e x)
                       (fun sva => match op with
                          | Not => SyltSem.bind (SyltSem.truth "not" sva) (fun ba => SyltSem.ret (SV (Values.VBool (negb ba))))
                          | Neg => SyltSem.bind (SyltSem.as_value "a negated value" sva) (fun xa => SyltSem.bind (SyltSem.lift_res "unary -" (Runtime.rt_neg xa)) (fun r => SyltSem.ret (SV r)))
                          end) st = (r, st')) by (destruct op; exact Hev).
      clear Hev. unfold SyltSem.bind at 1 in Hev'.
      destruct (SyltSem.eval n e x st) as [[sva|o|cc] st1] eqn:He1.
      2: { inversion Hev'; subst.
           destruct (IH g k x ctx c code_a va c0 e st _ st' sc l E stL F He1 Ha Hfrag Hua Hctxa Hrel Hint)
             as (b1 & l1 & Hs1 & _ & _ & Hp1).
           eexists _, _. split; [eapply cshape_app; [exact Hs1|]; apply (cshape_iis u l1 i c0 (xf (aexpand l1 va)) c0 (c0 + 1)); [lia | exact Hsimple | apply Hgen]|].
           split; [lia|]. split; [lia|].
           cbn [eval_post] in *. eapply exit_app; [exact Hp1 | lia]. }
      2: { inversion Hev'; subst.
           destruct (IH g k x ctx c code_a va c0 e st _ st' sc l E stL F He1 Ha Hfrag Hua Hctxa Hrel Hint)
             as (b1 & l1 & Hs1 & _ & _ & Hp1).
           eexists _, _. split; [eapply cshape_app; [exact Hs1|]; apply (cshape_iis u l1 i c0 (xf (aexpand l1 va)) c0 (c0 + 1)); [lia | exact Hsimple | apply Hgen]|].
           split; [lia|]. split; [lia|].
           cbn [eval_post] in *. eapply exit_app; [exact Hp1 | lia]. }
      destruct (IH g k x ctx c code_a va c0 e st _ st1 sc l E stL F He1 Ha Hfrag Hua Hctxa Hrel I)
        as (b1 & l1 & Hs1 & _ & _ & E1 & stL1 & F1 & Hok1 & Hd1). specialize (Hd1 Hcva).
      pose proof Hok1 as (_ & _ & Hrel1 & _).
      assert (Hctx1 : ctx_ok l1 F1 E1 c0 (c0 + 1)) by (eapply ctx_after; eassumption).
      eexists _, _. split; [eapply cshape_app; [exact Hs1|]; apply (cshape_iis u l1 i c0 (xf (aexpand l1 va)) c0 (c0 + 1)); [lia | exact Hsimple | apply Hgen]|].
      split; [lia|]. split; [lia|].
      pose proof (Hsem F1 E1 stL1 _ sva st1 r Hd1 Hev' (r_wf _ _ _ _ _ _ _ _ _ _ _ Hrel1) (r_linv _ _ _ _ _ _ _ _ _ _ _ Hrel1)) as Hres.
      destruct r as [sv_|o|cc]; [|contradiction|contradiction].
      destruct Hres as [-> Hdr].
      destruct (finish_iis pv sv bound u fl W sc e st1 F1 c0 (c0 + 1) E1 stL1 l1 c0 _ _ Hrel1 Hctx1 ltac:(lia) Hdr)
        as (E3 & stL3 & F3 & Hok3 & Hd3).
      cbn [eval_post]. exists E3, stL3, F3. split; [eapply okstep_trans; [exact Hok1 | exact Hok3 | lia | lia] | exact Hd3]. }
    destruct op; cbn [expression] in Hlow; mon Hlow; fresh_all; inj_code; destruct a as [code_a va]; cbn [fst snd] in *.
    + (* - *)
      apply (Hcommon c0 code_a va (INeg c0 va) (fun xa => EParen (EUn UNeg xa)) Hm eq_refl eq_refl eq_refl eq_refl (fun _ => eq_refl) (or_introl eq_refl)).
      intros F0 E0 st0 xa sva st1 r0 Hd Hr Hwf0 Hl0.
      destruct (denotes_now _ _ _ _ _ Hd Hwf0 Hl0) as (lv & Hv & _).
      inversion Hv; subst; cbn in Hr;
        try (match type of Hr with context [Runtime.has_digit ?x] => destruct (Runtime.has_digit x); cbn in Hr end);
        inversion Hr; subst; cbn; auto.
      split; [reflexivity | apply denotes_neg; exact Hd].
    + (* not *)
      apply (Hcommon c0 code_a va (INot c0 va) (fun xa => EParen (EUn UNot xa)) Hm eq_refl eq_refl eq_refl eq_refl (fun _ => eq_refl) (or_introl eq_refl)).
      intros F0 E0 st0 xa sva st1 r0 Hd Hr Hwf0 Hl0.
      destruct (denotes_now _ _ _ _ _ Hd Hwf0 Hl0) as (lv & Hv & _).
      inversion Hv; subst; cbn in Hr; inversion Hr; subst; cbn; auto.
      split; [reflexivity | apply denotes_not; exact Hd].
  - (* EIf *)
    change (frag_branches pv sv bound fl k sc branches = true) in Hfrag.
    cbn [expression] in Hlow. mon Hlow. fresh_all. inj_code. rename a0 into codes.
    rewrite seval_if in Hev.
    apply ucovers_cons in Hu as [Hud Hub].
    assert (Hcc : 1 <= count_of u c) by (apply Hud; left; reflexivity).
    destruct (L_branches pv sv bound u fl g (fun fl0 => L_expr_all pv sv bound u fl0 g) (L_stmts_all pv sv bound u fl g) branches k c ctx (c + 1) codes c' sc l Hm0 Hfrag)
      as (_ & _ & (_ & Hcc' & _)).
    assert (Hctxd : ctx_ok l F E c (c + 1)) by (eapply ctx_sub; [exact Hctx | lia | lia]).
    assert (Hcr : c <= c < c + 1) by lia.
    destruct (step_define_temp pv sv bound u fl W sc e st F c (c + 1) E stL l c Hrel Hctxd Hcr Hcc) as (E1 & stL1 & p & Hokd & Hp & Hcell & Hnp).
    assert (Hsd : cshape u l [IDefine c] (fst (agen_one u l (IDefine c))) l c (c + 1))
      by (apply cshape_plain; [lia | reflexivity | reflexivity | apply used_plain]).
    assert (Hctx1 : ctx_ok l F E1 (c + 1) c') by (eapply ctx_after; eassumption).
    pose proof Hokd as (_ & _ & Hrel1 & _).
    assert (Hbc : bound <= c) by (destruct Hctx; assumption).
    assert (Hr1 : c <= c + 1) by lia. assert (Hr2 : c' <= c') by lia. assert (Hr3 : c <= c < c') by lia.
    assert (Hr4 : ~ (c + 1 <= c < c')) by lia.
    assert (Hlc : alut_get l c = None) by (apply (cx_lut _ _ _ _ _ _ Hctx); left; lia).
    assert (HcF : ~ In c F) by (intros Hin; destruct (cx_F _ _ _ _ _ _ Hctx c Hin) as [_ Hn]; apply Hn; lia).
    destruct (branches_sim n g IH IHb branches k ctx (c + 1) codes c' e st r st' sc l E1 stL1 F c p c c' Hev Hm0 Hfrag Hub Hctx1 Hrel1
                Hbc Hr1 Hr2 Hr3 Hr4 Hp Hnp Hcell Hlc Hcc HcF Hint)
      as (bb & l' & Hsb & Hl'c & Hpost).
    eexists _, _. split; [eapply cshape_cons'; [eapply cshape_widen; [exact Hsd | lia | lia] | eapply cshape_widen; [exact Hsb | lia | lia]]|].
    split; [lia|]. split; [lia|].
    assert (Hokd' : okstep sc e st F c c' E stL (fst (agen_one u l (IDefine c))) E1 stL1 F) by (eapply okstep_widen; [exact Hokd | lia | lia]).
    destruct r as [v_|o|cc]; cbn [brs_post eval_post] in *.
    + destruct Hpost as (E' & stL' & F' & Hokb & Hvb).
      pose proof Hokb as (_ & Hfb & _ & (Hib & Hnb) & _).
      exists E', stL', (c :: F'). split.
      * destruct (okstep_trans' sc e st' F F F' c c' E stL _ E1 stL1 _ E' stL' st Hokd' Hokb) as (Hx & Hf & Hr & (Hi & Hn) & Hk).
        split; [exact Hx|]. split; [exact Hf|]. split; [exact Hr|]. split; [|exact Hk].
        split; [apply incl_tl; exact Hi | intros t [<-|Ht]; [right; lia | apply Hn; exact Ht]].
      * intros _. unfold aexpand. rewrite Hl'c.
        eapply denotes_local; [left; reflexivity | apply (wr_incl _ _ _ _ _ _ _ Hfb); [lia | exact Hp] | exact Hvb].
    + eapply okstep_exit'; [exact Hokd' | exact Hrel | exact Hpost].
    + eapply okstep_exit'; [exact Hokd' | exact Hrel | exact Hpost].
  - (* EInt *)
    cbn [expression] in Hlow. mon Hlow. fresh_all. inj_code.
    cbn in Hev. inversion Hev; subst r st'. clear Hev.
    eexists _, _. split; [apply (cshape_iis u l (IInt c z) c (aint z) c (c + 1)); [lia | reflexivity | reflexivity]|].
    split; [lia|]. split; [lia|].
    destruct (finish_iis pv sv bound u fl W sc e st F c (c + 1) E stL l c _ _ Hrel Hctx ltac:(lia) (denotes_int F E stL z))
      as (E3 & stL3 & F3 & Hok3 & Hd3).
    cbn [eval_post]. exists E3, stL3, F3. split; assumption.
  - (* EStr *)
    cbn [expression] in Hlow. mon Hlow. fresh_all. inj_code.
    cbn in Hev. inversion Hev; subst r st'. clear Hev.
    eexists _, _. split; [apply (cshape_iis u l (IStr c s) c (LuaAst.EStr s) c (c + 1)); [lia | reflexivity | reflexivity]|].
    split; [lia|]. split; [lia|].
    destruct (finish_iis pv sv bound u fl W sc e st F c (c + 1) E stL l c _ _ Hrel Hctx ltac:(lia) (denotes_str F E stL s))
      as (E3 & stL3 & F3 & Hok3 & Hd3).
    cbn [eval_post]. exists E3, stL3, F3. split; assumption.
  - (* EBool *)
    cbn [expression] in Hlow. mon Hlow. fresh_all. inj_code.
    cbn in Hev. inversion Hev; subst r st'. clear Hev.
    eexists _, _. split; [apply (cshape_iis u l (IBool c b) c (if b then ETrue else EFalse) c (c + 1)); [lia | reflexivity | reflexivity]|].
    split; [lia|]. split; [lia|].
    destruct (finish_iis pv sv bound u fl W sc e st F c (c + 1) E stL l c _ _ Hrel Hctx ltac:(lia) (denotes_bool F E stL b))
      as (E3 & stL3 & F3 & Hok3 & Hd3).
    cbn [eval_post]. exists E3, stL3, F3. split; assumption.
Qed.


End Sim.
