(* find_conflict_markers (sylt-parser/src/parser.rs): the source is cut into lines with Rust's
   `str::lines()` and every line that starts with `<<<<<<<` gives one GitConflictError whose span is
   line i+1, columns 1..8.  Definitions only.  Text is a list of code points, as in Lex/Logos.v. *)
From Coq Require Import List NArith Bool.
Import ListNotations.

Definition marker : list N := [60; 60; 60; 60; 60; 60; 60]%N.     (* "<<<<<<<" *)

(* str::starts_with *)
Fixpoint starts_with (m l : list N) : bool :=
  match m, l with
  | [], _ => true
  | a :: m', c :: l' => (a =? c)%N && starts_with m' l'
  | _ :: _, [] => false
  end.

(* str::lines() of Rust >= 1.77: split_inclusive('\n'); a piece that ends with '\n' loses it and then
   one '\r' directly before it; the last piece (no '\n') is kept as it is; no empty piece after a final
   '\n'.  raw_lines gives (piece without the '\n', whether it was terminated by '\n'). *)
Fixpoint raw_lines (s : list N) : list (list N * bool) :=
  match s with
  | [] => []
  | c :: r =>
      if (c =? 10)%N then ([], true) :: raw_lines r
      else match raw_lines r with
           | [] => [([c], false)]
           | (l, t) :: ls => (c :: l, t) :: ls
           end
  end.

(* strip_suffix('\r') *)
Fixpoint strip_cr (l : list N) : list N :=
  match l with
  | [] => []
  | c :: r => match r with
              | [] => if (c =? 13)%N then [] else [c]
              | _ :: _ => c :: strip_cr r
              end
  end.

Definition str_lines (s : list N) : list (list N) :=
  map (fun lt : list N * bool => if snd lt then strip_cr (fst lt) else fst lt) (raw_lines s).

(* for (i, line) in source.lines().enumerate(): line numbers (i + 1) of the lines that start with the
   marker; k = number of lines already seen *)
Fixpoint find_markers (k : nat) (ls : list (list N)) : list nat :=
  match ls with
  | [] => []
  | l :: r => (if starts_with marker l then [S k] else []) ++ find_markers (S k) r
  end.

Definition conflict_lines (s : list N) : list nat := find_markers 0 (str_lines s).

(* the spans of the returned errors: (line_start, line_end, col_start, col_end) *)
Definition conflict_spans (s : list N) : list (N * N * N * N) :=
  map (fun l => (N.of_nat l, N.of_nat l, 1%N, N.of_nat (length marker) + 1)%N) (conflict_lines s).
