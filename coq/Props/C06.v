(* C06 -- every accepted program yields loadable Lua.  Pinned statements only.
   The claim "the interpreter loads the chunk" is decided on the REAL emitted text by the lua_wf model
   (coq/Lua/LuaWf.v) in the check; the theorems here cover, for all programs, the structural reasons
   for which a chunk could fail to load that depend on the source program's contents. *)
From Coq Require Import String List NArith ZArith Bool.
From Sylt Require Import Syntax.Resolved Back.IR Back.Emit Back.Scope Back.RScope Back.ScopeProofs Back.EmitProofs.
Import ListNotations.

(* blocks (function/if/else/loop ... end) are balanced and every assignment target is a real local,
   never an inlined temporary -- for every lexically scoped resolved program *)
Theorem C06_blocks_balanced : forall (fuel : nat) (r : resolved) (code : list ir),
  rs_resolved fuel r = true -> lower fuel r = Ok code -> exists l, scope_run [[]] code = Some [l].
Proof.
  intros fuel r code H1 H2. pose proof (lower_scoped fuel r code H1 H2) as H. unfold ir_scoped in H.
  destruct (scope_run [[]] code) as [[|l [|? ?]]|]; try discriminate. eauto.
Qed.

(* whatever bytes a Sylt string literal contains, the emitted literal is free of raw line breaks,
   unescaped quotes and malformed escapes, and the Lua lexer reads back exactly the original bytes *)
Theorem C06_string_literal_roundtrip : forall s : string,
  lua_unescape (S (String.length s)) (lua_escape s) = Some s.
Proof. exact lua_unescape_escape. Qed.

(* whatever a blob field is called, the emitter never writes a Lua reserved word after `.` or as a bare
   table-constructor key: reserved names are written in bracket form *)
Theorem C06_field_names_safe : forall name : string,
  (is_lua_keyword name = false /\ lua_field name = ("." ++ name)%string /\ lua_key name = name) \/
  (is_lua_keyword name = true /\ lua_field name = ("[" ++ lua_string name ++ "]")%string /\
   lua_key name = ("[" ++ lua_string name ++ "]")%string).
Proof. exact lua_field_safe. Qed.

Example C06_example_string : lua_string ("a\b" ++ String (Ascii.ascii_of_N 10) "c") = """a\\b\nc"""%string.
Proof. vm_compute. reflexivity. Qed.
Example C06_example_field : lua_field "then" = "[""then""]"%string /\ lua_field "x" = ".x"%string.
Proof. split; vm_compute; reflexivity. Qed.

Print Assumptions C06_blocks_balanced.
Print Assumptions C06_string_literal_roundtrip.
Print Assumptions C06_field_names_safe.

(* ---- source tie: the hand-written model behind these theorems mirrors the files below; the digests of their
   functions regenerated from /repo on this run equal the reviewed ones (coq/Doc/DocSrcDigest.v).  Any edit of
   such a function breaks this obligation: the differential tie and the oracle then decide (tools/check.py). *)
From Sylt Require Doc.SrcDigest Doc.DocSrcDigest Gen.GenSrcDigest.
Theorem C06_model_sources_reviewed :
  Sylt.Doc.SrcDigest.sources_reviewed ["sylt-compiler/src/intermediate.rs"%string; "sylt-compiler/src/lua.rs"%string]
    Sylt.Doc.DocSrcDigest.doc_src_digests Sylt.Gen.GenSrcDigest.src_digests = true.
Proof. vm_compute. reflexivity. Qed.
Print Assumptions C06_model_sources_reviewed.

(* ---- control flow: `break` inside a loop, `goto` with a visible label, no visible duplicate label ---- *)
From Sylt Require Import Back.CFlow.
From Sylt Require Back.CFlowProofs Back.CFlowEmit.

(* For every resolved program (any fuel) whose `break`/`continue` statements all stand in the body of a loop
   of their own function (CFlow.loops_ok: what the type checker enforces, C05_break_outside_loop_rejected)
   the flat IR produced by the lowering passes the control-flow check of Back/CFlow.v: every IBreak is
   inside a loop of the same function, every `IGoto l` is inside a loop of the same function whose label
   (the ILabel directly following its ILoop) is l, every ILabel directly follows an ILoop and differs from
   the labels of the enclosing loops of its function, and all constructs are closed at the end. *)
Theorem C06_control_flow_ok : forall (fuel : nat) (r : resolved) (code : list ir),
  loops_ok r = true -> lower fuel r = Ok code -> ir_cf_ok code = true.
Proof. exact CFlowProofs.lower_cf_ok. Qed.

(* the hypothesis is needed and the checker is not vacuous: `start :: fn { break }`, and a `continue` whose
   only enclosing loop belongs to an outer function, fail loops_ok, lower successfully, and fail the check *)
Theorem C06_break_outside_loop_refuted :
  exists code, loops_ok CFlowProofs.prog_break_outside = false /\
               lower 10 CFlowProofs.prog_break_outside = Ok code /\ ir_cf_ok code = false.
Proof. exact CFlowProofs.break_outside_loop_refuted. Qed.
Theorem C06_continue_across_function_refuted :
  exists code, loops_ok CFlowProofs.prog_continue_across_fn = false /\
               lower 10 CFlowProofs.prog_continue_across_fn = Ok code /\ ir_cf_ok code = false.
Proof. exact CFlowProofs.continue_across_function_refuted. Qed.

(* on the emitted line list (Emit.gen_lines, one line per instruction): every `goto Lk` line is preceded by
   a `while true do` line directly followed by a `::Lk::` line, and the lines in between (those of p2) close
   nothing they did not open and end outside any function they opened -- the goto is in that loop's body *)
Theorem C06_goto_label_in_text : forall ops, ir_cf_ok ops = true ->
  forall pre k post, ops = pre ++ IGoto k :: post ->
  exists p1 p2, pre = p1 ++ ILoop :: ILabel k :: p2 /\ open_segment p2 = true /\
  forall u l d, exists L1 L3 i1 i2 i3 l2 d2,
    gen_lines u l d ops =
      L1 ++ (indent i1 ++ CFlowEmit.line_while)%string :: (indent i2 ++ CFlowEmit.line_label k)%string ::
      gen_lines u l2 d2 p2 ++ (indent i3 ++ CFlowEmit.line_goto k)%string :: L3 /\
    length L1 = length p1.
Proof. exact CFlowEmit.emitted_goto_has_label. Qed.
Theorem C06_break_loop_in_text : forall ops, ir_cf_ok ops = true ->
  forall pre post, ops = pre ++ IBreak :: post ->
  exists p1 p2, pre = p1 ++ ILoop :: p2 /\ open_segment p2 = true /\
  forall u l d, exists L1 L3 i1 i3 l2 d2,
    gen_lines u l d ops =
      L1 ++ (indent i1 ++ CFlowEmit.line_while)%string :: gen_lines u l2 d2 p2 ++
      (indent i3 ++ CFlowEmit.line_break)%string :: L3 /\
    length L1 = length p1.
Proof. exact CFlowEmit.emitted_break_has_loop. Qed.

Example C06_example_loops :
  loops_ok CFlowProofs.prog_loops = true /\
  exists code, lower 10 CFlowProofs.prog_loops = Ok code /\ ir_cf_ok code = true.
Proof. exact CFlowProofs.loops_example. Qed.
(* the seeded mutation (a loop's label dropped, its `goto` kept) is rejected by the checker *)
Example C06_example_missing_label :
  ir_cf_ok [IFunction 0 []; ILoop; ILabel 5; IBool 1 true; IIf 1; IGoto 5; IEnd; IEnd; IEnd]%N = true /\
  ir_cf_ok [IFunction 0 []; ILoop; IBool 1 true; IIf 1; IGoto 5; IEnd; IEnd; IEnd]%N = false.
Proof. split; vm_compute; reflexivity. Qed.
Example C06_example_lines :
  CFlowEmit.line_while = "while true do"%string /\ CFlowEmit.line_label 7 = "::L7::"%string /\
  CFlowEmit.line_goto 7 = "goto L7"%string /\ CFlowEmit.line_break = "break"%string.
Proof. repeat split; vm_compute; reflexivity. Qed.

Print Assumptions C06_control_flow_ok.
Print Assumptions C06_break_outside_loop_refuted.
Print Assumptions C06_continue_across_function_refuted.
Print Assumptions C06_goto_label_in_text.
Print Assumptions C06_break_loop_in_text.
