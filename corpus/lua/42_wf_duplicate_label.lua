-- expect-wf: bad duplicate label 'a'
::a::
print(1)
::a::
