(* The control-flow discipline seen on the emitted text: in the line list that Back/Emit.v generates for an
   IR that passes ir_cf_ok, every `goto Lk` line is preceded by a `while true do` line directly followed by
   a `::Lk::` line, and the lines in between never close that loop nor leave its function; every `break`
   line is preceded in the same way by a `while true do` line. *)
From Coq Require Import String List NArith ZArith Bool Lia.
From Sylt Require Import Syntax.Resolved Back.IR Back.Emit.
From Sylt Require Import Back.CFlow Back.CFlowProofs.
Import ListNotations.
Local Open Scope N_scope.

(* ---------------------------------------------------------------- origin of a visible label / an open loop *)
Definition sk (st : cstack) : list bool := map (fun F => match F with CFun => true | _ => false end) st.
Definition nofun (l : list bool) : Prop := existsb (fun b : bool => b) l = false.

Lemma visible_split st k : In k (visible_labels st) ->
  exists ext base, st = ext ++ CLoop (Some k) :: base /\ nofun (sk ext).
Proof.
  induction st as [|F st IH]; cbn [visible_labels]; [intros []|].
  destruct F as [| | |[l|]]; [intros []| | | |].
  - intros H. destruct (IH H) as (ext & base & -> & Hn). exists (CIf :: ext), base. split; [reflexivity|exact Hn].
  - intros H. destruct (IH H) as (ext & base & -> & Hn). exists (CElse :: ext), base. split; [reflexivity|exact Hn].
  - intros [<-|H].
    + exists [], st. split; reflexivity.
    + destruct (IH H) as (ext & base & -> & Hn). exists (CLoop (Some l) :: ext), base. split; [reflexivity|exact Hn].
  - intros H. destruct (IH H) as (ext & base & -> & Hn). exists (CLoop None :: ext), base. split; [reflexivity|exact Hn].
Qed.

Lemma in_loop_split st : in_loop st = true ->
  exists ext l base, st = ext ++ CLoop l :: base /\ nofun (sk ext).
Proof.
  induction st as [|F st IH]; cbn [in_loop]; [discriminate|].
  destruct F as [| | |l]; try discriminate.
  - intros H. destruct (IH H) as (ext & l & base & -> & Hn). exists (CIf :: ext), l, base. split; [reflexivity|exact Hn].
  - intros H. destruct (IH H) as (ext & l & base & -> & Hn). exists (CElse :: ext), l, base. split; [reflexivity|exact Hn].
  - intros _. exists [], l, st. split; reflexivity.
Qed.

Lemma open_segment_intro p ext' : nest_run [] p = Some ext' -> nofun ext' -> open_segment p = true.
Proof. unfold open_segment, nofun. intros -> ->. reflexivity. Qed.

(* one step of the checker, seen from a frame F that stays below: either the frame is on top and the step
   is described by `top`, or the part above it changes as nest_step says *)
Lemma step_above (F : cframe) st p op st1 p1 ext1 base :
  cf_step (st, p) op = Some (st1, p1) -> st1 = ext1 ++ F :: base ->
  (exists ext, st = ext ++ F :: base /\ nest_step (sk ext) op = Some (sk ext1)) \/
  (ext1 = [] /\ ((op = ILoop /\ F = CLoop None /\ st = base) \/
                 (exists l, op = ILabel l /\ p = true /\ F = CLoop (Some l) /\ st = CLoop None :: base) \/
                 (exists x ps, op = IFunction x ps /\ F = CFun /\ st = base) \/
                 (exists a, op = IIf a /\ F = CIf /\ st = base) \/
                 (op = IElse /\ F = CElse /\ st = CIf :: base))).
Proof.
  intros E ->.
  destruct op; cbn [cf_step] in E;
    try (inversion E; subst; left; exists ext1; split; reflexivity).
  - (* IFunction *) inversion E as [[E1 E2]]; subst. destruct ext1 as [|G e]; cbn [app] in E1; inversion E1; subst.
    + right. split; [reflexivity|]. right. right. left. eauto.
    + left. exists e. split; reflexivity.
  - (* ILabel *)
    destruct p; [|discriminate]. destruct st as [|[| | |[?|]] t]; try discriminate.
    destruct (has_label l (visible_labels t)); [discriminate|]. inversion E as [[E1 E2]]; subst.
    destruct ext1 as [|G e]; cbn [app] in E1; inversion E1; subst.
    + right. split; [reflexivity|]. right. left. exists l. auto.
    + left. exists (CLoop None :: e). split; reflexivity.
  - (* IGoto *) destruct (has_label l (visible_labels st)); [|discriminate]. inversion E; subst.
    left. exists ext1. split; reflexivity.
  - (* IIf *) inversion E as [[E1 E2]]; subst. destruct ext1 as [|G e]; cbn [app] in E1; inversion E1; subst.
    + right. split; [reflexivity|]. right. right. right. left. eauto.
    + left. exists e. split; reflexivity.
  - (* ILoop *) inversion E as [[E1 E2]]; subst. destruct ext1 as [|G e]; cbn [app] in E1; inversion E1; subst.
    + right. split; [reflexivity|]. left. auto.
    + left. exists e. split; reflexivity.
  - (* IBreak *) destruct (in_loop st); [|discriminate]. inversion E; subst.
    left. exists ext1. split; reflexivity.
  - (* IElse *) destruct st as [|[| | |?] t]; try discriminate. inversion E as [[E1 E2]]; subst.
    destruct ext1 as [|G e]; cbn [app] in E1; inversion E1; subst.
    + right. split; [reflexivity|]. right. right. right. right. auto.
    + left. exists (CIf :: e). split; reflexivity.
  - (* IEnd *) destruct st as [|G t]; [discriminate|]. inversion E; subst.
    left. exists (G :: ext1). split; reflexivity.
Qed.

Lemma step_flag st p op st1 : cf_step (st, p) op = Some (st1, true) -> op = ILoop.
Proof.
  destruct op; cbn [cf_step]; intros E; try (inversion E; fail); try reflexivity.
  - destruct p; [|discriminate]. destruct st as [|[| | |[?|]] t]; try discriminate.
    destruct (has_label l (visible_labels t)); inversion E.
  - destruct (has_label l (visible_labels st)); inversion E.
  - destruct (in_loop st); inversion E.
  - destruct st as [|[| | |?] t]; inversion E.
  - destruct st as [|G t]; inversion E.
Qed.

Lemma goto_origin k post : forall pre st p s',
  cf_run (st, p) (pre ++ IGoto k :: post) = Some s' ->
  (exists p1 p2, pre = p1 ++ ILoop :: ILabel k :: p2 /\ open_segment p2 = true) \/
  (p = true /\ exists p2 base, st = CLoop None :: base /\ pre = ILabel k :: p2 /\ open_segment p2 = true) \/
  (exists ext base ext', st = ext ++ CLoop (Some k) :: base /\ nest_run (sk ext) pre = Some ext' /\ nofun ext').
Proof.
  induction pre as [|op pre IH]; intros st p s' H.
  - cbn [app cf_run cf_step] in H. destruct (has_label k (visible_labels st)) eqn:E; [|discriminate].
    apply has_label_iff in E. destruct (visible_split _ _ E) as (ext & base & -> & Hn).
    right. right. exists ext, base, (sk ext). auto.
  - cbn [app cf_run] in H. destruct (cf_step (st, p) op) as [[st1 p1]|] eqn:E; [|discriminate].
    destruct (IH _ _ _ H) as [(q1 & q2 & -> & Ho)|[(-> & q2 & base & -> & -> & Ho)|(ext1 & base & ext' & E1 & Hn & Hf)]].
    + left. exists (op :: q1), q2. auto.
    + apply step_flag in E as ->. left. exists [], q2. auto.
    + destruct (step_above _ _ _ _ _ _ _ _ E E1) as [(ext & -> & Hs)|(-> & Hc)].
      * right. right. exists ext, base, ext'. split; [reflexivity|]. split; [|exact Hf].
        cbn [nest_run]. rewrite Hs. exact Hn.
      * destruct Hc as [(_ & D & _)|[(l & -> & -> & D & ->)|[(? & ? & _ & D & _)|[(? & _ & D & _)|(_ & D & _)]]]];
          try discriminate D.
        inversion D; subst l. right. left. split; [reflexivity|]. exists pre, base.
        split; [reflexivity|]. split; [reflexivity|]. eapply open_segment_intro; eassumption.
Qed.

Lemma break_origin post : forall pre st p s',
  cf_run (st, p) (pre ++ IBreak :: post) = Some s' ->
  (exists p1 p2, pre = p1 ++ ILoop :: p2 /\ open_segment p2 = true) \/
  (exists ext l base ext', st = ext ++ CLoop l :: base /\ nest_run (sk ext) pre = Some ext' /\ nofun ext').
Proof.
  induction pre as [|op pre IH]; intros st p s' H.
  - cbn [app cf_run cf_step] in H. destruct (in_loop st) eqn:E; [|discriminate].
    destruct (in_loop_split _ E) as (ext & l & base & -> & Hn).
    right. exists ext, l, base, (sk ext). auto.
  - cbn [app cf_run] in H. destruct (cf_step (st, p) op) as [[st1 p1]|] eqn:E; [|discriminate].
    destruct (IH _ _ _ H) as [(q1 & q2 & -> & Ho)|(ext1 & l & base & ext' & E1 & Hn & Hf)].
    + left. exists (op :: q1), q2. auto.
    + destruct (step_above _ _ _ _ _ _ _ _ E E1) as [(ext & -> & Hs)|(-> & Hc)].
      * right. exists ext, l, base, ext'. split; [reflexivity|]. split; [|exact Hf].
        cbn [nest_run]. rewrite Hs. exact Hn.
      * destruct Hc as [(-> & D & ->)|[(l' & -> & -> & D & ->)|[(? & ? & _ & D & _)|[(? & _ & D & _)|(_ & D & _)]]]];
          try discriminate D.
        -- left. exists [], pre. split; [reflexivity|]. eapply open_segment_intro; eassumption.
        -- right. exists [], None, base, ext'. split; [reflexivity|]. split; [|exact Hf]. exact Hn.
Qed.

(* on the IR: every goto is preceded by its loop head and label, with an open segment in between *)
Theorem goto_has_label : forall ops, ir_cf_ok ops = true -> forall pre k post, ops = pre ++ IGoto k :: post ->
  exists p1 p2, pre = p1 ++ ILoop :: ILabel k :: p2 /\ open_segment p2 = true.
Proof.
  intros ops H pre k post ->. unfold ir_cf_ok in H.
  destruct (cf_run ([], false) (pre ++ IGoto k :: post)) as [s'|] eqn:E; [|discriminate].
  destruct (goto_origin _ _ _ _ _ _ E) as [Hd|[(D & _)|(ext & base & ext' & D & _)]];
    [exact Hd|discriminate D|destruct ext; discriminate D].
Qed.

Theorem break_has_loop : forall ops, ir_cf_ok ops = true -> forall pre post, ops = pre ++ IBreak :: post ->
  exists p1 p2, pre = p1 ++ ILoop :: p2 /\ open_segment p2 = true.
Proof.
  intros ops H pre post ->. unfold ir_cf_ok in H.
  destruct (cf_run ([], false) (pre ++ IBreak :: post)) as [s'|] eqn:E; [|discriminate].
  destruct (break_origin _ _ _ _ _ E) as [Hd|(ext & l & base & ext' & D & _)];
    [exact Hd|destruct ext; discriminate D].
Qed.

(* ---------------------------------------------------------------- the line list of Emit.v *)
Lemma gen_lines_app u : forall a l d b, exists l' d',
  gen_lines u l d (a ++ b) = gen_lines u l d a ++ gen_lines u l' d' b.
Proof.
  induction a as [|op a IH]; intros l d b; [exists l, d; reflexivity|].
  cbn [app gen_lines]. destruct (gen_one u l op) as [text l1].
  match goal with |- context [gen_lines u l1 ?d2 (a ++ b)] => destruct (IH l1 d2 b) as (l' & d' & ->) end.
  exists l', d'. reflexivity.
Qed.

Lemma gen_lines_length u : forall ops l d, length (gen_lines u l d ops) = length ops.
Proof.
  induction ops as [|op ops IH]; intros l d; [reflexivity|].
  cbn [gen_lines]. destruct (gen_one u l op) as [text l1]. cbn [length]. rewrite IH. reflexivity.
Qed.

Definition line_while : string := "while true do".
Definition line_label (k : N) : string := ("::" ++ fmt_label k ++ "::")%string.
Definition line_goto (k : N) : string := ("goto " ++ fmt_label k)%string.
Definition line_break : string := "break".

(* the lines of a chunk that passes the check: L1, `while true do`, `::Lk::`, the lines of an open segment,
   `goto Lk`, L3 (i1 i2 i3: the indentation) *)
Theorem emitted_goto_has_label : forall ops, ir_cf_ok ops = true -> forall pre k post, ops = pre ++ IGoto k :: post ->
  exists p1 p2, pre = p1 ++ ILoop :: ILabel k :: p2 /\ open_segment p2 = true /\
  forall u l d, exists L1 L3 i1 i2 i3 l2 d2,
    gen_lines u l d ops =
      L1 ++ (indent i1 ++ line_while)%string :: (indent i2 ++ line_label k)%string ::
      gen_lines u l2 d2 p2 ++ (indent i3 ++ line_goto k)%string :: L3 /\
    length L1 = length p1.
Proof.
  intros ops H pre k post E. destruct (goto_has_label ops H pre k post E) as (p1 & p2 & -> & Ho).
  exists p1, p2. split; [reflexivity|]. split; [exact Ho|]. intros u l d. subst ops.
  rewrite <- app_assoc. cbn [app].
  destruct (gen_lines_app u p1 l d (ILoop :: ILabel k :: p2 ++ IGoto k :: post)) as (l1 & d1 & ->).
  cbn [gen_lines gen_one].
  match goal with |- context [gen_lines u l1 ?dd (p2 ++ IGoto k :: post)] =>
    destruct (gen_lines_app u p2 l1 dd (IGoto k :: post)) as (l3 & d3 & ->);
    exists (gen_lines u l d p1), (gen_lines u l3 d3 post), (Z.to_nat d1), (Z.to_nat (d1 + 1)), (Z.to_nat d3), l1, dd
  end.
  cbn [gen_lines gen_one]. split; [reflexivity|apply gen_lines_length].
Qed.

Theorem emitted_break_has_loop : forall ops, ir_cf_ok ops = true -> forall pre post, ops = pre ++ IBreak :: post ->
  exists p1 p2, pre = p1 ++ ILoop :: p2 /\ open_segment p2 = true /\
  forall u l d, exists L1 L3 i1 i3 l2 d2,
    gen_lines u l d ops =
      L1 ++ (indent i1 ++ line_while)%string :: gen_lines u l2 d2 p2 ++ (indent i3 ++ line_break)%string :: L3 /\
    length L1 = length p1.
Proof.
  intros ops H pre post E. destruct (break_has_loop ops H pre post E) as (p1 & p2 & -> & Ho).
  exists p1, p2. split; [reflexivity|]. split; [exact Ho|]. intros u l d. subst ops.
  rewrite <- app_assoc. cbn [app].
  destruct (gen_lines_app u p1 l d (ILoop :: p2 ++ IBreak :: post)) as (l1 & d1 & ->).
  cbn [gen_lines gen_one].
  match goal with |- context [gen_lines u l1 ?dd (p2 ++ IBreak :: post)] =>
    destruct (gen_lines_app u p2 l1 dd (IBreak :: post)) as (l3 & d3 & ->);
    exists (gen_lines u l d p1), (gen_lines u l3 d3 post), (Z.to_nat d1), (Z.to_nat d3), l1, dd
  end.
  cbn [gen_lines gen_one]. split; [reflexivity|apply gen_lines_length].
Qed.
