"""C11 -- top-level order is irrelevant; globals are initialised before use."""
import collections
import itertools

import resolve_gen as rg
import resolved_io
import rustdebug
import vlib
from props import c09, c12

GEN = ["GenResolve", "GenSrcDigest"]
TRUSTED = [
    "Coq 8.16.1 kernel (coqc); vm_compute only for the refutation witness and the non-vacuity examples; no axioms",
    "translator tools/gens/gen_resolve.py (flag: does the S::Assignment arm of statement_dependencies include the target)",
    "Dep/Deps.v + Dep/Topo.v as the model of dependency.rs (statement_dependencies, order/recurse) and of the "
    "types-first sort of compiler.rs: validated on every run against the real `ordered` / `cycle` dumps of the hook, "
    "fed with the REAL resolver's output (ocaml/rast_reader.ml)",
    "tools/rustdebug.py + tools/resolved_io.py, ocaml/resolve_driver.ml; extraction: ExtrOcamlBasic + ExtrOcamlString only",
    "oracle: tools/resolve_gen.py (generator, permutations), tools/lua_run.py (extracted LuaCore interpreter as the "
    "definition of running the emitted Lua)",
]
ASSUMPTIONS = [
    "the variables defined by the top-level statements are pairwise distinct (name collisions are rejected by the resolver)",
    "programs for the trace oracle are compiled with --no-std and declare `print` external",
]
EXPLANATION = ("Model of dependency extraction and of the DFS ordering tied to the real initialization_order; theorems: "
               "the order is a permutation that respects every dependency, it fails exactly on cyclic dependency graphs, "
               "never runs out of fuel, and is independent of the order of the input statements; deps_complete proved "
               "for the variant that includes assignment targets and refuted for the pinned one; oracle: permutations of "
               "top-level statements (within files, single- and multi-file) -> same accept/reject and same Lua trace.")

_model = c09._model
build = c09.build


def order_inputs(ctx):
    cases = c09.corpus_cases("c11") + [("repo:" + rel, c) for rel, c in rg.repo_cases(std=True)]
    n = 120 if ctx.tier == "quick" else 3000
    for i in range(n):
        r = vlib.rng(ctx.seed, "c11-tie-%d" % i)
        mode = r.choice(["none", "pure", "any"])
        g = rg.Gen(r, size=r.randint(1, 4), init_calls=mode)
        p = g.program()
        nd = rg.naming_distinct(p)
        cases.append(("gen-" + mode, rg.single(rg.EXT_PRINT + rg.Render(nd).program(rg.permuted(p, r)), False)))
        if r.random() < 0.5:
            lay = rg.Layout(p, r, nd, prelude=rg.EXT_PRINT)
            cases.append(("gen-multifile", rg.case(rg.perm_files(lay.files(), r), "/main.sy", False)))
    for i in range(n // 2):
        r = vlib.rng(ctx.seed, "c11-cyc-%d" % i)
        cases.append(("gen-cyclic", rg.single(rg.EXT_PRINT + cyclic_program(r), False)))
    return cases


def cyclic_program(r, cyclic=None, info=None):
    """globals and functions forming a random dependency graph; with probability 1/2 it has a cycle
    (through values, through functions, or a self loop).  A value global mentions some of its dependencies inside a
    function literal that it passes to `app` (called at once) or keeps in a tuple (stored): such a mention is a
    dependency like any other.  info (a dict), when given, receives value_cycle: some cycle goes through a value
    global, i.e. the program must be rejected."""
    n = r.randint(2, 6)
    names = ["v%d" % i for i in range(n)]
    kinds = [r.choice(["val", "fn"]) for _ in range(n)]
    edges = {i: set() for i in range(n)}
    for i in range(n):
        for j in range(i):
            if r.random() < 0.5:
                edges[i].add(j)          # acyclic: only backwards
    if cyclic is None:
        cyclic = r.random() < 0.5
    if cyclic:
        k = r.random()
        if k < 0.2:
            i = r.randrange(n)
            edges[i].add(i)              # self loop (allowed for a function)
        else:
            a, b = sorted(r.sample(range(n), 2))
            edges[a].add(b)              # forward edge: with the backward path it may close a cycle
            edges[b].add(a)
    items = []
    for i in range(n):
        deps = sorted(edges[i])
        def ref(j):
            return "%s()" % names[j] if kinds[j] == "fn" else names[j]
        def wrapped(j):
            x = r.random()
            if kinds[i] == "fn" or x < 0.6:
                return ref(j)
            if x < 0.8:
                return "app(fn -> int do\n    ret %s\nend)" % ref(j)
            return "(fn -> int do\n    ret %s\nend, 0)[1]" % ref(j)
        e = " + ".join([str(r.randint(1, 5))] + [wrapped(j) for j in deps])
        if kinds[i] == "fn":
            if i in edges[i]:
                items.append("%s :: fn -> int do\n    if true do\n        ret 1\n    end\n    ret %s\nend\n" % (names[i], e))
            else:
                items.append("%s :: fn -> int do\n    ret %s\nend\n" % (names[i], e))
        else:
            items.append("%s :: %s\n" % (names[i], e))
    items.append("start :: fn do\n%s    ret\nend\n" % "".join(
        "    print(%s)\n" % ("%s()" % names[i] if kinds[i] == "fn" else names[i]) for i in range(n)))
    items.append("app :: fn f: fn -> int -> int do\n    ret f()\nend\n")
    if info is not None:
        # a value global on a cycle: it reaches itself
        def reach(a):
            seen, todo = set(), list(edges[a])
            while todo:
                x = todo.pop()
                if x not in seen:
                    seen.add(x)
                    todo += list(edges[x])
            return seen
        info["value_cycle"] = any(kinds[i] == "val" and i in reach(i) for i in range(n))
    r.shuffle(items)
    return "\n".join(items)


def tie(ctx):
    exe = _model["exe"]
    cases = order_inputs(ctx)
    lines = [c for _, c in cases]
    ph = vlib.harness("phases", lines)
    inp, want, names = [], [], []
    dist = collections.Counter()
    for (name, _), l in zip(cases, ph):
        d, tail = resolved_io.parse_phases_line(l)
        cls = name.split(":")[0]
        if "vars" not in d:
            dist[cls + ":not-resolved(not compared)"] += 1
            continue
        try:
            inp.append(resolved_io.resolved_sexp(d["vars"], d["resolved"]))
        except ValueError:
            dist[cls + ":unsupported"] += 1
            continue
        names.append(name)
        if "cycle" in d:
            want.append("CYCLE (l" + "".join(" " + resolved_io.sp(x) for x in rustdebug.parse(d["cycle"])) + ")")
            dist[cls + ":cycle"] += 1
        else:
            want.append("ORDER " + resolved_io.stmts(rustdebug.parse(d["ordered"])))
            dist[cls + ":ordered"] += 1
    got = vlib.model(exe, ["order"], inp)
    mism = []
    # the hypothesis of C08_order_then_backend_erase (annotations add type names only to the dependencies) on every real
    # resolved program
    for n, a in zip(names, vlib.model(exe, ["anndeps"], inp)):
        dist["C08 ann_deps_ok on the real resolver's output: " + a.split(" ")[-1]] += 1
        if a != "ANNDEPS t":
            # legitimate on programs the type checker rejects: the resolver lets an annotation name a value
            # (tests/hm_typing/faulty_namespace_access_blob.sy: `B :: 1 ... b: ns.B = 0`); listed, not a mismatch
            dist["C08 ann_deps_ok false on: " + n] += 1
    # ... and the syntactic condition ann_types_only that implies it (C08_resolver_order_backend_types needs it of the
    # annotated side only); an implication failure (types-only but not deps-ok) would contradict the theorem: mismatch
    anntypes = vlib.model(exe, ["anntypes"], inp)
    for n, a, t in zip(names, vlib.model(exe, ["anndeps"], inp), anntypes):
        dist["C08 ann_types_only on the real resolver's output: " + t.split(" ")[-1]] += 1
        if t != "ANNTYPES t":
            dist["C08 ann_types_only false on: " + n] += 1
        if t == "ANNTYPES t" and a != "ANNDEPS t":
            mism.append({"case": n, "model": t + " but " + a, "real": "C08_ann_types_only_deps_ok"})
    nontrivial = set()
    for n, g, w, i in zip(names, got, want, inp):
        if g == w:
            nontrivial.add(hash(g))
        elif len(mism) < 10:
            k = 0
            while k < min(len(g), len(w)) and g[k] == w[k]:
                k += 1
            mism.append({"case": n, "model": g[max(0, k - 150):k + 150], "real": w[max(0, k - 150):k + 150]})
    return {"name": "init_order", "ok": not mism, "mismatches": mism, "evaluations": len(inp),
            "distinct_nontrivial": len(nontrivial),
            "rule": "every resolvable /repo/tests program (std bundled), corpus/c11, generated programs (initialisers "
                    "calling functions, permuted top level, multi-file layouts) and random dependency graphs with and "
                    "without cycles; model input = the REAL resolver's output; compared: the full ordered statement list "
                    "after the types-first sort, or the spans of the reported cycle",
            "samples": [{"case": names[-1], "result": got[-1][:200]}] if names else [], "distribution": dict(dist)}


# ------------------------------------------------------------------------------------------------
# oracle

KNOWN_CLASSES = {
    "assignment-target-not-a-dependency": "a function that only ASSIGNS a global does not depend on it (dependency.rs:8)",
    "initialiser-effects-run-in-definition-order": "independent initialisers with visible effects run in source order",
}


def open_classes():
    return {kf.get("class") for kf in vlib.known_findings("C11") if kf.get("status") == "open" and kf.get("class")}


def oracle_items(ctx, n, salt):
    items = []
    streams = [("pure-init", dict(init_calls="pure", global_assign=False)),
               ("effectful-init", dict(init_calls="any", global_assign=False)),
               ("global-assign", dict(init_calls="pure", global_assign=True))]
    for i in range(n):
        r = vlib.rng(ctx.seed, "%s-%d" % (salt, i))
        cls, kw = streams[i % 3]
        g = rg.Gen(r, size=r.randint(1, 3), **kw)
        p = g.program()
        nd = rg.naming_distinct(p)
        variants = [rg.single(rg.EXT_PRINT + rg.Render(nd).program(p), False)]
        for _ in range(3):
            variants.append(rg.single(rg.EXT_PRINT + rg.Render(nd).program(rg.permuted(p, r)), False))
        items.append({"cls": cls, "variants": variants, "p": p, "nd": nd})
        if i % 2 == 0:
            lay = rg.Layout(p, r, nd, prelude=rg.EXT_PRINT)
            files = lay.files()
            variants = [rg.case(files, "/main.sy", False)]
            for _ in range(2):
                variants.append(rg.case(rg.perm_files(files, r), "/main.sy", False))
            items.append({"cls": cls + "/multifile", "variants": variants, "p": p, "nd": nd})
    for i in range(n // 6 + 1):
        # independent initialisers with visible effects (DESIGN section 7 row 11)
        r = vlib.rng(ctx.seed, "%s-effects-%d" % (salt, i))
        k = r.randint(2, 4)
        paras = ["e%d :: note(\"%d\")" % (j, j) for j in range(k)]
        paras.append("note :: fn s: str -> int do\n    print(s)\n    ret 1\nend")
        paras.append("start :: fn do\n    print(%s)\n    ret\nend" % " + ".join("e%d" % j for j in range(k)))
        variants = []
        for _ in range(3):
            q = r.sample(paras, len(paras))
            variants.append(rg.single(rg.EXT_PRINT + "\n\n".join(q) + "\n", False))
        items.append({"cls": "effectful-init", "variants": variants})
    for j, paras in enumerate(THROUGH_VALUES):
        r = vlib.rng(ctx.seed, "%s-values-%d" % (salt, j))
        variants = []
        for _ in range(4 if ctx.tier == "quick" else 40):
            q = r.sample(paras, len(paras))
            variants.append(rg.single(rg.EXT_PRINT + "\n\n".join(q) + "\n", False))
        items.append({"cls": "init-through-function-values", "variants": variants, "must_accept": True})
    items += module_start_items(ctx, max(12, n // 4), salt)
    items += type_mention_items(ctx, salt)
    for i in range(n):
        r = vlib.rng(ctx.seed, "%s-graph-%d" % (salt, i))
        info = {}
        src = cyclic_program(r, info=info)
        paras = [x for x in src.split("\n\n") if x.strip()]
        variants = []
        perms = list(itertools.permutations(paras)) if len(paras) <= 4 else None
        for k in range(4):
            q = list(perms[r.randrange(len(perms))]) if perms else r.sample(paras, len(paras))
            variants.append(rg.single(rg.EXT_PRINT + "\n\n".join(q) + "\n", False))
        it = {"cls": "dependency-graph", "variants": variants}
        if info.get("value_cycle"):
            it["must_reject"] = True
            it["why_reject"] = "a global's initialiser depends on the global itself (through values, functions or function literals)"
        items.append(it)
    return items


def module_start_items(ctx, n, salt):
    """imported modules that define their own `start` (and `limit`, `helper`: the names main uses for its own
    globals), referred to from main's functions and global initialisers through the namespace (called, stored as
    a function value, or only mentioned in a function nobody calls), also from a second module and back from
    the module to main.  Variant 0 is the single-file program with the modules' globals renamed; the others are
    the project with the statements of every file in random orders (and the two orders that put the reference to
    the module's start first / last in main): the program that runs is main's start in every order."""
    items = []
    for i in range(n):
        r = vlib.rng(ctx.seed, "%s-modstart-%d" % (salt, i))
        nlib = r.randint(1, 2)
        libs = []
        for j in range(nlib):
            kind = r.choice(["file", "alias", "folder"])
            stem = ["lib", "tool"][j]
            path = "/%s/exports.sy" % stem if kind == "folder" else "/%s.sy" % stem
            ns = ("l%d" % j) if kind == "alias" else stem
            use = "use %s%s" % (stem + "/" if kind == "folder" else stem, " as " + ns if kind == "alias" else "")
            libs.append({"stem": stem, "path": path, "ns": ns, "use": use, "val": r.randint(10, 99)})
        mval = r.randint(1, 9)
        # how main refers to each module's start
        main_pars = ["limit :: %d" % mval]
        single = ["limit :: %d" % mval]
        calls = []
        for L in libs:
            ns, st = L["ns"], L["stem"]
            # (at most one initialiser with a visible effect per project: the order of two independent ones is
            # the recorded finding initialiser-effects-run-in-definition-order, not what this family is about)
            how = r.choice(["call-in-fn", "uncalled-fn", "value-global"]
                           + ([] if any(x.get("how") == "call-in-init" for x in libs) else ["call-in-init"]))
            L["how"] = how
            if how == "call-in-fn":
                main_pars.append("restart_%s :: fn do\n    %s.start()\nend" % (st, ns))
                single.append("restart_%s :: fn do\n    %s_start()\nend" % (st, st))
                calls.append("    restart_%s()" % st)
            elif how == "uncalled-fn":
                main_pars.append("restart_%s :: fn do\n    %s.start()\nend" % (st, ns))
                single.append("restart_%s :: fn do\n    %s_start()\nend" % (st, st))
            elif how == "value-global":
                main_pars.append("again_%s :: %s.start" % (st, ns))
                single.append("again_%s :: %s_start" % (st, st))
                if r.random() < 0.5:
                    calls.append("    again_%s()" % st)
            else:
                main_pars.append("ran_%s :: once_%s()" % (st, st))
                main_pars.append("once_%s :: fn -> int do\n    %s.start()\n    ret %s.limit\nend" % (st, ns, ns))
                single.append("ran_%s :: once_%s()" % (st, st))
                single.append("once_%s :: fn -> int do\n    %s_start()\n    ret %s_limit\nend" % (st, st, st))
                calls.append("    print(ran_%s)" % st)
        main_pars.append("helper :: fn -> int do\n    ret limit + %s\nend" % " + ".join(
            "%s.helper() + %s.limit" % (L["ns"], L["ns"]) for L in libs))
        single.append("helper :: fn -> int do\n    ret limit + %s\nend" % " + ".join(
            "%s_helper() + %s_limit" % (L["stem"], L["stem"]) for L in libs))
        body = "start :: fn do\n    print(\"main\")\n    print(helper())\n%s\nend" % "\n".join(calls or ["    print(limit)"])
        main_pars.append(body)
        single.append(body)
        files = {}
        back = r.random() < 0.4
        for j, L in enumerate(libs):
            st = L["stem"]
            pars = [rg.EXT_PRINT.strip(), "limit :: %d" % L["val"],
                    "helper :: fn -> int do\n    ret limit * 2\nend",
                    "start :: fn do\n    print(\"%s\")\n    print(limit)\nend" % st]
            single += ["%s_limit :: %d" % (st, L["val"]), "%s_helper :: fn -> int do\n    ret %s_limit * 2\nend" % (st, st),
                       "%s_start :: fn do\n    print(\"%s\")\n    print(%s_limit)\nend" % (st, st, st)]
            if j == 1 and r.random() < 0.6:
                # the second module refers to the first one's start as well
                up = "/" if L["path"].count("/") > 1 else ""
                first = libs[0]
                pars += ["use %s%s as other" % (up, first["stem"] + ("/" if first["path"].endswith("exports.sy") else "")),
                         "chain :: fn do\n    other.start()\nend"]
                single.append("%s_chain :: fn do\n    %s_start()\nend" % (st, first["stem"]))
            if back and j == 0:
                up = "/" if L["path"].count("/") > 1 else ""
                pars += ["use %smain as top" % up, "kick :: fn do\n    top.start()\nend"]
                single.append("%s_kick :: fn do\n    start()\nend" % st)
            L["pars"] = pars
        main_all = [rg.EXT_PRINT.strip()] + [L["use"] for L in libs] + main_pars
        variants = [rg.single(rg.EXT_PRINT + "\n\n".join(single) + "\n", False)]
        refs = [q for q in main_all if ".start" in q]
        rest = [q for q in main_all if ".start" not in q]
        orders = [refs + rest, rest + refs]
        for _ in range(4):
            orders.append(r.sample(main_all, len(main_all)))
        for o in orders:
            files = {"/main.sy": "\n\n".join(o) + "\n"}
            for L in libs:
                files[L["path"]] = "\n\n".join(r.sample(L["pars"], len(L["pars"]))) + "\n"
            variants.append(rg.case(files, "/main.sy", False))
        items.append({"cls": "module-start", "variants": variants, "hows": [L["how"] for L in libs]})
    return items


# initialisers that reach a later global through a function VALUE: a direct call, a higher-order call, a
# closure in a blob field / tuple / returned by a maker / stored in a mutable global, a nested local
# function, case and if branches.  In every order the program must be accepted and print the same lines.
THROUGH_VALUES = [
    ["a :: f()", "f :: fn -> int do\n    ret b + 1\nend", "b :: 2", "start :: fn do\n    print(a)\nend"],
    ["x :: apply(k)", "apply :: fn g: fn -> int -> int do\n    ret g() + 1\nend",
     "k :: fn -> int do\n    ret g0 * 2\nend", "g0 :: 21", "start :: fn do\n    print(x)\nend"],
    ["B :: blob { f: fn -> int }", "bb :: B { f: k }", "x :: bb.f()", "k :: fn -> int do\n    ret g0 + 1\nend",
     "g0 :: 41", "start :: fn do\n    print(x)\nend"],
    ["mk :: fn -> fn -> int do\n    ret fn -> int do\n        ret g0 + 5\n    end\nend", "h :: mk()", "x :: h()",
     "g0 :: 1", "start :: fn do\n    print(x)\nend"],
    ["t :: (k, 1)", "x :: t[0]()", "k :: fn -> int do\n    ret g0 + 7\nend", "g0 :: 3",
     "start :: fn do\n    print(x)\nend"],
    ["g := 1", "set :: fn -> int do\n    g = g0 + 10\n    ret 0\nend", "y :: set()", "g0 :: 5",
     "start :: fn do\n    print(g)\n    print(y)\nend"],
    ["h := k0", "k0 :: fn -> int do\n    ret 0\nend", "k :: fn -> int do\n    ret g0\nend",
     "sw :: fn -> int do\n    h = k\n    ret 1\nend", "y :: sw()", "x :: h() + y", "g0 :: 9",
     "start :: fn do\n    print(x)\nend"],
    ["x :: outer()", "outer :: fn -> int do\n    inner :: fn -> int do\n        ret g0 + 100\n    end\n"
     "    ret inner()\nend", "g0 :: 1", "start :: fn do\n    print(x)\nend"],
    ["E :: enum\n    A int,\n    B,\nend", "x :: pick(E.A 3)",
     "pick :: fn e: E -> int do\n    case e do\n        A v -> do\n            ret v + g0\n        end\n"
     "        else do\n            ret g1\n        end\n    end\n    ret 0\nend", "g0 :: 10", "g1 :: 20",
     "start :: fn do\n    print(x)\nend"],
]


# declared types that a definition mentions ONLY in an annotation (return type, parameter, local or global
# annotation, blob field, function type, element type): the type checker must know the declaration wherever it
# stands.  The first sets are ill-typed (rejected in every order), the last ones well-typed (accepted in every
# order, same output).
_START1 = "start :: fn do\n    print(1)\nend"
TYPE_MENTIONS_BAD = [
    ["make :: fn -> Point do\n    ret 1\nend", "start :: fn do\n    p :: make()\n    print(2)\nend", "Point :: blob { x: int, y: int }"],
    ["make :: fn -> Point do\n    1\nend", "start :: fn do\n    p :: make()\n    p\nend", "Point :: blob { x: int, y: int, }"],
    ["use_p :: fn p: Point -> int do\n    ret 1\nend", "start :: fn do\n    print(use_p(3))\nend", "Point :: blob { x: int }"],
    ["mk :: fn -> int do\n    q: Point = 3\n    ret 1\nend", "start :: fn do\n    print(mk())\nend", "Point :: blob { x: int }"],
    ["pick :: fn -> Color do\n    ret 1\nend", "start :: fn do\n    c :: pick()\n    print(1)\nend", "Color :: enum\n    Red,\n    Green,\nend"],
    ["A :: blob { b: B }", "B :: blob { x: int }", "start :: fn do\n    a :: A { b: 1 }\n    print(1)\nend"],
    ["g: Point = 1", "Point :: blob { x: int }", _START1],
    ["h :: fn f: fn -> Point -> int do\n    ret 1\nend", "k :: fn -> int do\n    ret 2\nend", "start :: fn do\n    print(h(k))\nend",
     "Point :: blob { x: int }"],
    ["mk :: fn -> [Point] do\n    ret [1]\nend", "start :: fn do\n    l :: mk()\n    print(1)\nend", "Point :: blob { x: int }"],
    ["mk :: fn -> (Point, int) do\n    ret (1, 1)\nend", "start :: fn do\n    l :: mk()\n    print(1)\nend", "Point :: blob { x: int }"],
    ["outer :: fn -> int do\n    inner :: fn -> Point do\n        ret 5\n    end\n    inner()\n    ret 1\nend",
     "start :: fn do\n    print(outer())\nend", "Point :: blob { x: int }"],
    ["E :: enum\n    A P,\n    B,\nend", "P :: blob { x: int }", "start :: fn do\n    e :: E.A 3\n    print(1)\nend"],
]
# chains of forward mentions (the first paragraph order is the one in which every mention precedes its declaration)
TYPE_MENTIONS_BAD += [
    ["A :: blob { b: B }", "B :: blob { c: C }", "C :: blob { v: int }", "f :: fn a: A do\n    a.b.c.v = \"str\"\nend", _START1],
    ["A :: blob { b: B }", "B :: blob { c: C }", "C :: blob { d: D }", "D :: blob { v: int }",
     "start :: fn do\n    a :: A { b: B { c: C { d: D { v: true } } } }\n    print(1)\nend"],
    ["E :: enum\n    V A,\n    W,\nend", "A :: blob { b: B }", "B :: blob { x: int }",
     "start :: fn do\n    e :: E.V A { b: B { x: \"s\" } }\n    print(1)\nend"],
    ["A :: blob { l: [B] }", "B :: blob { t: (C, int) }", "C :: blob { v: int }",
     "f :: fn a: A -> str do\n    ret a.l[0].t[0].v\nend", _START1],
]
TYPE_MENTIONS_GOOD = [
    ["make :: fn -> Point do\n    ret Point { x: 1, y: 2 }\nend", "start :: fn do\n    p :: make()\n    print(p.x)\nend",
     "Point :: blob { x: int, y: int }"],
    ["area :: fn p: Point -> int do\n    ret p.x * p.y\nend", "start :: fn do\n    print(area(Point { x: 2, y: 3 }))\nend",
     "Point :: blob { x: int, y: int }"],
    ["pick :: fn -> Color do\n    ret Color.Red\nend", "start :: fn do\n    c :: pick()\n    print(1)\nend",
     "Color :: enum\n    Red,\n    Green,\nend"],
    ["A :: blob { b: B }", "B :: blob { x: int }", "start :: fn do\n    a :: A { b: B { x: 4 } }\n    print(a.b.x)\nend"],
    ["h :: fn f: fn -> Point -> int do\n    ret f().x\nend", "k :: fn -> Point do\n    ret Point { x: 7 }\nend",
     "start :: fn do\n    print(h(k))\nend", "Point :: blob { x: int }"],
    ["A :: blob { b: B }", "B :: blob { c: C }", "C :: blob { v: int }", "f :: fn a: A -> int do\n    ret a.b.c.v\nend",
     "start :: fn do\n    print(f(A { b: B { c: C { v: 5 } } }))\nend"],
]


def type_mention_items(ctx, salt):
    items = []
    for good, sets in ((False, TYPE_MENTIONS_BAD), (True, TYPE_MENTIONS_GOOD)):
        for j, paras in enumerate(sets):
            r = vlib.rng(ctx.seed, "%s-types-%d-%s" % (salt, j, good))
            perms = list(itertools.permutations(paras))
            if ctx.tier == "quick" and len(perms) > 8:
                perms = [perms[0], perms[-1]] + r.sample(perms[1:-1], 6)
            variants = [rg.single(rg.EXT_PRINT + "\n\n".join(q) + "\n", False) for q in perms]
            it = {"cls": "type-only-in-annotation", "variants": variants}
            if good:
                it["must_accept"] = True
            else:
                it["must_reject"] = True
            items.append(it)
    return items


def judge(it, res):
    base = res[0]
    if it.get("must_accept"):
        for k, x in enumerate(res):
            if x[0] != "OK" or (len(x) > 1 and x[1] not in ("done", "not-run")):
                return "an initialiser that reaches a later global through a function value: %s" % str(x)[:150], k
    if it.get("must_reject"):
        for k, x in enumerate(res):
            if x[0] == "OK":
                return (it.get("why_reject") or "an ill-typed program (a declared type is mentioned only in an annotation)") + ": accepted in this order", k
    for k, x in enumerate(res[1:], 1):
        if x == base:
            continue
        if x[0] != base[0]:
            return "accepted in one order, rejected in another (%s vs %s)" % (base[:2], x[:2]), k
        if x[0] == "ERR":
            if x[1] != base[1]:
                return "rejected with different error kinds in different orders (%s vs %s)" % (base[1], x[1]), k
            continue
        return "same program, different behaviour in another order: %s vs %s" % (str(base[1:])[:120], str(x[1:])[:120]), k
    return None, 0


def classify(it, res, k):
    cls = it["cls"].split("/")[0]
    a, b = res[0], res[k]
    if a[0] == "OK" and b[0] == "OK":
        if cls == "global-assign":
            return "assignment-target-not-a-dependency"
        if cls == "effectful-init" and a[1] == b[1] == "done" and sorted(a[3]) == sorted(b[3]):
            return "initialiser-effects-run-in-definition-order"
    return None


def run_oracle(ctx, items):
    lines = []
    spans = []
    for it in items:
        spans.append((len(lines), len(it["variants"])))
        lines += it["variants"]
    res = c12.run_traces(lines)
    out = []
    for it, (a, n) in zip(items, spans):
        v, k = judge(it, res[a:a + n])
        out.append((v, classify(it, res[a:a + n], k) if v else None, k))
    return out


def always(ctx):
    n = 90 if ctx.tier == "quick" else 3000
    items = oracle_items(ctx, n, "c11-oracle")
    verdicts = run_oracle(ctx, items)
    opened = open_classes()
    dist = collections.Counter()
    un = []
    nvar = 0
    for it, (v, c, k) in zip(items, verdicts):
        nvar += len(it["variants"])
        key = it["cls"] + ":" + ("holds" if v is None else "VIOLATED:" + (c or "unexplained"))
        dist[key] += 1
        if v is not None and (c is None or c not in opened):
            un.append((it, v, c, k))
    ctx.c11_unexplained = un
    if un:
        it, v, c, k = un[0]
        ctx.brk("oracle:" + (c or "unexplained"),
                "%d of %d oracle evaluations violate C11 and are not covered by an open known finding; first: %s (class %s)"
                % (len(un), len(items), v, c))
    return {"oracle_evaluations": len(items), "oracle_programs_compiled_and_run": nvar,
            "oracle_traces_compared": bool(c12.LUA["available"]), "oracle_lua_unavailable_reason": c12.LUA["why"],
            "oracle_distribution": dict(dist),
            "oracle_rule": "real compiler (--no-std, external print) + LuaCore run: a program and 2-3 random permutations "
                           "of its top-level statements (single file; multi-file layouts permuted inside every file) -> "
                           "same accept/reject (same error kind) and same trace; three generator streams (pure "
                           "initialisers / initialisers calling printing functions / functions assigning globals) and "
                           "random dependency graphs with and without cycles (all 24 orders sampled when <= 4 statements); "
                           "projects whose imported modules define their own `start` / `limit` / `helper`, referred to from main "
                           "through the namespace: the single-file program with the modules' globals renamed vs the project "
                           "with every file's statements permuted (6 orders) -> same trace (main's start runs)"}


def describe(it, v, c, k):
    def src(line):
        f = line.split("\t")
        return {x.split("=", 1)[0]: vlib.unhex(x.split("=", 1)[1]).decode("utf-8") for x in f[2:]}
    return {"what": v, "class": c or "unexplained", "order_a": src(it["variants"][0]), "order_b": src(it["variants"][k]),
            "cases": [it["variants"][0], it["variants"][k]]}


def search(ctx):
    un = getattr(ctx, "c11_unexplained", None)
    if un is None:
        always(ctx)
        un = ctx.c11_unexplained
    if not un:
        items = oracle_items(ctx, 300 if ctx.tier == "quick" else 6000, "c11-search")
        verdicts = run_oracle(ctx, items)
        opened = open_classes()
        un = [(it, v, c, k) for it, (v, c, k) in zip(items, verdicts) if v is not None and (c is None or c not in opened)]
        if not un:
            return None
    un.sort(key=lambda x: (x[2] is not None, len(x[0]["variants"][0])))
    it, v, c, k = un[0]
    # shrink: drop top-level paragraphs of both orders while they still disagree
    d = describe(it, v, c, k)
    if len(d["order_a"]) == 1 and len(d["order_b"]) == 1:
        def paras(src):
            if src.startswith(rg.EXT_PRINT):
                src = src[len(rg.EXT_PRINT):]
            return [x.strip("\n") for x in src.split("\n\n") if x.strip()]

        def render(ps):
            return rg.EXT_PRINT + "\n\n".join(ps) + "\n"
        pa, pb = paras(d["order_a"]["/main.sy"]), paras(d["order_b"]["/main.sy"])
        res0 = c12.run_traces([rg.single(render(pa), False), rg.single(render(pb), False)])
        kind0 = (res0[0][0], res0[1][0])

        def fails(cands):
            lines = []
            for keep in cands:
                ks = set(keep)
                lines.append(rg.single(render([x for x in pa if x in ks]), False))
                lines.append(rg.single(render([x for x in pb if x in ks]), False))
            res = c12.run_traces(lines)
            # the shrunk pair must still be a violation of the same kind
            return [res[2 * i] != res[2 * i + 1] and (res[2 * i][0], res[2 * i + 1][0]) == kind0
                    and judge({"cls": ""}, [res[2 * i], res[2 * i + 1]])[0] is not None for i in range(len(cands))]
        if sorted(pa) == sorted(pb) and fails([pa])[0]:
            keep = set(vlib.shrink_seq(pa, fails))
            d["order_a"] = {"/main.sy": render([x for x in pa if x in keep])}
            d["order_b"] = {"/main.sy": render([x for x in pb if x in keep])}
            d["cases"] = [rg.single(d["order_a"]["/main.sy"], False), rg.single(d["order_b"]["/main.sy"], False)]
            res = c12.run_traces(d["cases"])
            d["what"] = judge({"cls": it["cls"]}, res)[0] or v
    d["failing_inputs_found"] = len(un)
    return d


def replay_known(ctx, kf):
    w = kf.get("witness") or {}
    if "a" in w and "b" in w:
        res = c12.run_traces([rg.case(w["a"], "/main.sy", w.get("std", False)), rg.case(w["b"], "/main.sy", w.get("std", False))])
        return res[0] != res[1]
    return True


def replay(ctx, rep):
    fi = rep.get("failing_input") or {}
    if not fi:
        print("nothing to replay: no failing input in this file")
        return 0
    vlib.build_harness()
    res = c12.run_traces(fi["cases"])
    for r in res:
        print(str(r)[:300])
    v = judge({"cls": "replay"}, res)[0]
    print("replay ->", v or "property holds")
    return 1 if v else 0
