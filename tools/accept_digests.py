#!/usr/bin/env python3
"""Rewrites coq/Doc/DocSrcDigest.v from /repo's current sources.  Run it ONLY after the change of /repo has been
reviewed against the hand-written models (the file records what the models were written against); with --diff it
only prints which functions differ from the reviewed list."""
import os
import re
import sys

HERE = os.path.dirname(os.path.abspath(__file__))
sys.path.insert(0, HERE)
import gen_tables  # noqa: E402
gen_tables.load_plugins()
from gens import gen_srcdigest  # noqa: E402

DOC = os.path.join(os.path.dirname(HERE), "coq", "Doc", "DocSrcDigest.v")


def reviewed():
    if not os.path.exists(DOC):
        return []
    return re.findall(r'\("([^"]*)", "([^"]*)", "([^"]*)"\)', open(DOC, encoding="utf-8").read())


def diff():
    old = reviewed()
    new = gen_srcdigest.table()
    o = {}
    for f, n, d in old:
        o[(f, n)] = d
    nw = {}
    for f, n, d in new:
        nw[(f, n)] = d
    out = []
    for k in sorted(set(o) | set(nw)):
        if o.get(k) != nw.get(k):
            out.append("%s :: %s  (%s -> %s)" % (k[0], k[1], o.get(k, "absent"), nw.get(k, "absent")))
    return out


def main():
    if "--diff" in sys.argv:
        for l in diff():
            print(l)
        return 0
    rows = gen_srcdigest.table()
    head = subprocess_head()
    out = ["(* REVIEWED source digests: what the hand-written models (Lex, Parse, Resolve, Dep, Types, Back, Driver, Diag)",
           "   were written against.  Rewritten by tools/accept_digests.py after a reviewed change of /repo (last: /repo %s)." % head,
           "   Props/Cxx.v proves that the digests regenerated on every run equal these for the files its model mirrors. *)",
           "From Coq Require Import String List.",
           "Import ListNotations.",
           "Local Open Scope string_scope.",
           "",
           "Definition doc_src_digests : list (string * string * string) := ["]
    out.append(";\n".join('  ("%s", "%s", "%s")' % r for r in rows))
    out.append("].")
    open(DOC, "w", encoding="utf-8").write("\n".join(out) + "\n")
    print("wrote", DOC, len(rows), "rows")
    return 0


def subprocess_head():
    import subprocess
    try:
        return subprocess.run(["git", "-C", gen_tables.REPO, "log", "--format=%h", "-1"], capture_output=True, text=True).stdout.strip()
    except Exception:
        return "?"


if __name__ == "__main__":
    sys.exit(main())
