-- expect: table	true	true	nil
-- expect: function: builtin: len	true	nil
-- expect: ab	x1	1y
-- expect: neg abc	f(arg)	concat	concat
-- expect: abab	abab
-- expect: anything?
-- expect: newindex	target	field	1
-- expect: false	bad argument #1 to 'setmetatable' (table expected, got string)
-- all strings share one metatable whose __index is the string library
local mt = getmetatable("")
print(type(mt), mt == getmetatable("other"), mt.__index == string, rawget(mt, "__add"))
print(("abc").len, ("abc").len == string.len, ("abc").nosuch)
-- it is an ordinary table: fields can be added, and are seen by every string
mt.__add = function(a, b) return a .. b end
print("a" + "b", "x" + 1, 1 + "y")
mt.__unm = function(a) return "neg " .. a end
mt.__call = function(self, x) return self .. "(" .. x .. ")" end
mt.__concat = function(a, b) return "concat" end
print(-"abc", ("f")("arg"), "s" .. {}, {} .. "s")
-- new library functions are reachable from string values
function string.twice(s) return s .. s end
print(("ab").twice("ab"), ("ab"):twice())
-- __index can be replaced
mt.__index = function(s, k) return k .. "?" end
print(("abc").anything)
mt.__index = string
mt.__newindex = function(s, k, v) print("newindex", s, k, v) end
local str = "target"
str.field = 1
-- strings still have no __eq / __lt through the metatable; setmetatable on a string is an error
print(pcall(setmetatable, "s", {}))
