(* Parser-side view of tokens: the parser looks only at a token's kind and payload.  Definitions only.
   [classify] turns a placed token of Lex/Logos.v (kind name as in token.rs + payload) into [tok]. *)
From Coq Require Import String List NArith Bool.
From Sylt Require Import Lex.Logos Syntax.Ast.
Import ListNotations.
Local Open Scope string_scope.

(* the payload-free token kinds of sylt_tokenizer::Token (KError is Token::Error) *)
Inductive kw :=
| KVoidType
| KBoolType
| KIntType
| KFloatType
| KStrType
| KNil
| KIf
| KElif
| KElse
| KCase
| KIs
| KBreak
| KContinue
| KIn
| KLoop
| KBlob
| KExternBlob
| KEnum
| KRet
| KPlus
| KMinus
| KStar
| KSlash
| KPlusEqual
| KMinusEqual
| KStarEqual
| KSlashEqual
| KHash
| KColon
| KColonColon
| KColonEqual
| KEqual
| KEqualEqual
| KNotEqual
| KAssertEqual
| KUnreachable
| KLeftParen
| KRightParen
| KLeftBracket
| KRightBracket
| KLeftBrace
| KRightBrace
| KDo
| KEnd
| KGreater
| KGreaterEqual
| KLess
| KLessEqual
| KFn
| KPu
| KAnd
| KOr
| KNot
| KBang
| KQuestionMark
| KPipe
| KPrime
| KComma
| KDot
| KArrow
| KNewline
| KUse
| KFrom
| KAs
| KExternal
| KGitConflictBegin
| KGitConflictEnd
| KError.

Inductive tok :=
| TIdent (s : name)
| TStr (s : name)
| TInt (z : N)
| TFloat (text : name)
| TBool (b : bool)
| TComment
| TK (k : kw)
| TEOF.      (* never in a token list: what Context::token() returns past the end *)

Definition kw_names : list (string * kw) := [
  ("VoidType", KVoidType);
  ("BoolType", KBoolType);
  ("IntType", KIntType);
  ("FloatType", KFloatType);
  ("StrType", KStrType);
  ("Nil", KNil);
  ("If", KIf);
  ("Elif", KElif);
  ("Else", KElse);
  ("Case", KCase);
  ("Is", KIs);
  ("Break", KBreak);
  ("Continue", KContinue);
  ("In", KIn);
  ("Loop", KLoop);
  ("Blob", KBlob);
  ("ExternBlob", KExternBlob);
  ("Enum", KEnum);
  ("Ret", KRet);
  ("Plus", KPlus);
  ("Minus", KMinus);
  ("Star", KStar);
  ("Slash", KSlash);
  ("PlusEqual", KPlusEqual);
  ("MinusEqual", KMinusEqual);
  ("StarEqual", KStarEqual);
  ("SlashEqual", KSlashEqual);
  ("Hash", KHash);
  ("Colon", KColon);
  ("ColonColon", KColonColon);
  ("ColonEqual", KColonEqual);
  ("Equal", KEqual);
  ("EqualEqual", KEqualEqual);
  ("NotEqual", KNotEqual);
  ("AssertEqual", KAssertEqual);
  ("Unreachable", KUnreachable);
  ("LeftParen", KLeftParen);
  ("RightParen", KRightParen);
  ("LeftBracket", KLeftBracket);
  ("RightBracket", KRightBracket);
  ("LeftBrace", KLeftBrace);
  ("RightBrace", KRightBrace);
  ("Do", KDo);
  ("End", KEnd);
  ("Greater", KGreater);
  ("GreaterEqual", KGreaterEqual);
  ("Less", KLess);
  ("LessEqual", KLessEqual);
  ("Fn", KFn);
  ("Pu", KPu);
  ("And", KAnd);
  ("Or", KOr);
  ("Not", KNot);
  ("Bang", KBang);
  ("QuestionMark", KQuestionMark);
  ("Pipe", KPipe);
  ("Prime", KPrime);
  ("Comma", KComma);
  ("Dot", KDot);
  ("Arrow", KArrow);
  ("Newline", KNewline);
  ("Use", KUse);
  ("From", KFrom);
  ("As", KAs);
  ("External", KExternal);
  ("GitConflictBegin", KGitConflictBegin);
  ("GitConflictEnd", KGitConflictEnd);
  ("Error", KError)
].

Definition all_kw : list kw := map snd kw_names.

Definition kw_eqb (a b : kw) : bool :=
  match a, b with
  | KVoidType, KVoidType => true
  | KBoolType, KBoolType => true
  | KIntType, KIntType => true
  | KFloatType, KFloatType => true
  | KStrType, KStrType => true
  | KNil, KNil => true
  | KIf, KIf => true
  | KElif, KElif => true
  | KElse, KElse => true
  | KCase, KCase => true
  | KIs, KIs => true
  | KBreak, KBreak => true
  | KContinue, KContinue => true
  | KIn, KIn => true
  | KLoop, KLoop => true
  | KBlob, KBlob => true
  | KExternBlob, KExternBlob => true
  | KEnum, KEnum => true
  | KRet, KRet => true
  | KPlus, KPlus => true
  | KMinus, KMinus => true
  | KStar, KStar => true
  | KSlash, KSlash => true
  | KPlusEqual, KPlusEqual => true
  | KMinusEqual, KMinusEqual => true
  | KStarEqual, KStarEqual => true
  | KSlashEqual, KSlashEqual => true
  | KHash, KHash => true
  | KColon, KColon => true
  | KColonColon, KColonColon => true
  | KColonEqual, KColonEqual => true
  | KEqual, KEqual => true
  | KEqualEqual, KEqualEqual => true
  | KNotEqual, KNotEqual => true
  | KAssertEqual, KAssertEqual => true
  | KUnreachable, KUnreachable => true
  | KLeftParen, KLeftParen => true
  | KRightParen, KRightParen => true
  | KLeftBracket, KLeftBracket => true
  | KRightBracket, KRightBracket => true
  | KLeftBrace, KLeftBrace => true
  | KRightBrace, KRightBrace => true
  | KDo, KDo => true
  | KEnd, KEnd => true
  | KGreater, KGreater => true
  | KGreaterEqual, KGreaterEqual => true
  | KLess, KLess => true
  | KLessEqual, KLessEqual => true
  | KFn, KFn => true
  | KPu, KPu => true
  | KAnd, KAnd => true
  | KOr, KOr => true
  | KNot, KNot => true
  | KBang, KBang => true
  | KQuestionMark, KQuestionMark => true
  | KPipe, KPipe => true
  | KPrime, KPrime => true
  | KComma, KComma => true
  | KDot, KDot => true
  | KArrow, KArrow => true
  | KNewline, KNewline => true
  | KUse, KUse => true
  | KFrom, KFrom => true
  | KAs, KAs => true
  | KExternal, KExternal => true
  | KGitConflictBegin, KGitConflictBegin => true
  | KGitConflictEnd, KGitConflictEnd => true
  | KError, KError => true
  | _, _ => false
  end.

Fixpoint lookup_kw (l : list (string * kw)) (s : string) : option kw :=
  match l with
  | [] => None
  | (n, k) :: l' => if String.eqb n s then Some k else lookup_kw l' s
  end.

Fixpoint kw_name_in (l : list (string * kw)) (k : kw) : string :=
  match l with
  | [] => "?"
  | (n, k') :: l' => if kw_eqb k k' then n else kw_name_in l' k
  end.

Definition kw_name (k : kw) : string := kw_name_in kw_names k.

(* token kinds with payloads *)
Definition payload_kinds : list string := ["Identifier"; "String"; "Int"; "Float"; "Bool"; "Comment"].

Definition known_kind (s : string) : bool :=
  existsb (String.eqb s) payload_kinds || match lookup_kw kw_names s with Some _ => true | None => false end.

(* A kind/payload combination the lexer model never produces is mapped to Token::Error. *)
Definition classify (p : ptoken) : tok :=
  let k := t_kind p in
  match t_pl p with
  | PText s =>
      if String.eqb k "Identifier" then TIdent s
      else if String.eqb k "String" then TStr s
      else if String.eqb k "Comment" then TComment
      else TK KError
  | PInt z => if String.eqb k "Int" then TInt z else TK KError
  | PFloatText s => if String.eqb k "Float" then TFloat s else TK KError
  | PBool b => if String.eqb k "Bool" then TBool b else TK KError
  | PNone => match lookup_kw kw_names k with Some kk => TK kk | None => TK KError end
  end.

Definition tok_is (k : kw) (t : tok) : bool :=
  match t with TK k' => kw_eqb k k' | _ => false end.
