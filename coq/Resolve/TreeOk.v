(* `tree_ok`: what `sylt_parser::tree` + `Compiler::extract_namespaces` guarantee about the module table,
   as a computable predicate: the main module has file id 0, and every span whose file id the resolver
   uses to pick a namespace table (identifier reads, `a.x` accesses, type paths, the statements of blob /
   enum / external / global definitions) carries the file id of one of the modules.
   Under it (and wf_ast) the resolver never indexes a missing map entry (Resolve/TotalProofs.v).
   Definitions only. *)
From Coq Require Import String List NArith ZArith Bool.
From Sylt Require Import Syntax.Resolved Resolve.PAst Resolve.Resolver Resolve.Wf.
Import ListNotations.

Section FK.
Variable ids : list N.

Definition fid_ok (sp : span) : bool := existsb (N.eqb (sp_file sp)) ids.

Definition fk_ta (t : ptassign) : bool :=
  match t with
  | TARead i _ => fid_ok (i_span i)
  | TAAccess _ _ sp => fid_ok sp
  end.

Fixpoint fk_ty (t : pty) : bool :=
  match t with
  | PTUser ta args _ => fk_ta ta && all_with fk_ty args
  | PTFn _ ps r _ _ => all_with fk_ty ps && fk_ty r
  | PTTuple ts _ => all_with fk_ty ts
  | PTList t' _ | PTGrouping t' _ => fk_ty t'
  | _ => true
  end.

Fixpoint fk_e (x : pexpr) : bool :=
  match x with
  | PGet a _ => fk_a a
  | PAdd a b _ | PSub a b _ | PMul a b _ | PDiv a b _ | PComparison a _ b _ | PAssertEq a b _
  | PAnd a b _ | POr a b _ => fk_e a && fk_e b
  | PNeg a _ | PNot a _ | PParenthesis a _ => fk_e a
  | PIf brs _ =>
      all_with (fun b => match b with PIfBranch c body _ =>
                  (match c with Some c => fk_e c | None => true end) && all_with fk_s body end) brs
  | PCase tm brs ft _ =>
      fk_e tm && all_with (fun b => match b with PCaseBranch _ _ body => all_with fk_s body end) brs
      && (match ft with Some b => all_with fk_s b | None => true end)
  | PFunction _ params rt body _ _ => all_with (fun p => fk_ty (snd p)) params && fk_ty rt && all_with fk_s body
  | PBlob blob fields _ => fk_ta blob && all_with (fun f => fk_e (snd f)) fields
  | PTuple vs _ | PList vs _ => all_with fk_e vs
  | _ => true
  end
with fk_a (a : passign) : bool :=
  match a with
  | ARead i _ => fid_ok (i_span i)
  | AVariant x _ v _ => fk_a x && fk_e v
  | ACall f args _ => fk_a f && all_with fk_e args
  | AArrowCall x f args _ => fk_e x && fk_a f && all_with fk_e args
  | AAccess x _ sp => fid_ok sp && fk_a x
  | AIndex x i _ => fk_a x && fk_e i
  | AExpression e _ => fk_e e
  end
with fk_s (s : pstmt) : bool :=
  match s with
  | PBlobDef _ _ fields _ sp => fid_ok sp && all_with (fun f => fk_ty (snd f)) fields
  | PEnumDef _ _ variants sp => fid_ok sp && all_with (fun f => fk_ty (snd f)) variants
  | PExternalDefinition _ _ t sp => fid_ok sp && fk_ty t
  | PDefinition _ _ t v sp => fid_ok sp && fk_ty t && fk_e v
  | PAssignment _ t v _ => fk_a t && fk_e v
  | PLoop c b _ => fk_e c && fk_s b
  | PRet (Some v) _ => fk_e v
  | PBlock ss _ => all_with fk_s ss
  | PStatementExpression v _ => fk_e v
  | _ => true
  end.

End FK.

Definition module_ids (ast : past) : list N := map m_file_id ast.

Definition tree_ok (ast : past) : bool :=
  existsb (N.eqb 0) (module_ids ast)
  && all_with (fun m => all_with (fk_s (module_ids ast)) (m_stmts m)) ast.
